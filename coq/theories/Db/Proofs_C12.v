(* Db/Proofs_C12.v — the write path of the DB model refines the sequential specification (Db/Spec.v).

   Structure: a forward simulation.  [absw w] is the user-level view of an in-flight request state;
   for each operation of a request on user keys the model step is matched by the spec step
   (put_sim / delete_sim / range_sim), then lifted to lists, to a whole request, and to ProcessWrite.
   The invariant [wf_kv] (sorted map, user keys hold records) holds in every reachable state and is
   preserved by EVERY request, hostile ones included (wf_preserved). *)
From Coq Require Import List NArith ZArith Bool Lia.
From Oxia.KeyOrder Require Import Model Proofs.
From Oxia.Db Require Import Types Bytes Escape Keys Kv SortedMap SortedMapProofs KeyFacts Sessions Indexes
     Sequences Notifications Write Read Spec KvProofs NumProofs.
Import ListNotations.

(* ---------------------------------------------------------------- small facts *)
Lemma bytes_eqb_eq a b : bytes_eqb a b = true <-> a = b.
Proof.
  revert b. induction a as [|x a IH]; intros [|y b]; simpl; split; intro H; try reflexivity; try discriminate.
  - apply andb_true_iff in H. destruct H as [H1 H2]. apply N.eqb_eq in H1. apply IH in H2. subst. reflexivity.
  - inversion H; subst. rewrite N.eqb_refl. simpl. apply IH. reflexivity.
Qed.

Lemma bytes_eqb_refl a : bytes_eqb a a = true.
Proof. apply bytes_eqb_eq. reflexivity. Qed.

Lemma bytes_eqb_neq a b : a <> b -> bytes_eqb a b = false.
Proof. intro H. destruct (bytes_eqb a b) eqn:E; [|reflexivity]. apply bytes_eqb_eq in E. contradiction. Qed.

Definition absw (w : wstate) : sstate := mkS (uv (w_kv w)) (alive (w_kv w)) (w_ver w).
Definition abs_state (st : state) : sstate := mkS (uv (st_kv st)) (alive (st_kv st)) (st_ver st).

Lemma seq_eq_refl s : seq_eq s s.
Proof. repeat split. Qed.

(* user view after writing / deleting a user key, or any internal key *)
Lemma uv_put_user b k e k0 : is_internal k = false -> uv (kv_put b k (VRecord e)) k0 = upd (uv b) k (Some e) k0.
Proof.
  intro Hi. unfold uv, upd. destruct (bytes_eqb k0 k) eqn:E.
  - apply bytes_eqb_eq in E. subst. rewrite Hi, kv_get_put_same. reflexivity.
  - rewrite kv_get_put_other; [reflexivity|]. intro; subst. rewrite bytes_eqb_refl in E. discriminate.
Qed.

Lemma uv_del_user b k k0 : sorted b -> uv (kv_del b k) k0 = upd (uv b) k None k0.
Proof.
  intro Hs. unfold uv, upd. destruct (bytes_eqb k0 k) eqn:E.
  - apply bytes_eqb_eq in E. subst. rewrite kv_get_del_same by exact Hs. destruct (is_internal k); reflexivity.
  - rewrite kv_get_del_other; [reflexivity|exact Hs|]. intro; subst. rewrite bytes_eqb_refl in E. discriminate.
Qed.

Lemma uv_put_internal b k v k0 : is_internal k = true -> uv (kv_put b k v) k0 = uv b k0.
Proof.
  intro Hi. unfold uv. destruct (is_internal k0) eqn:E; [reflexivity|].
  rewrite kv_get_put_other; [reflexivity|]. intro; subst. congruence.
Qed.

Lemma alive_put_other b k v z : session_key z <> k -> alive (kv_put b k v) z = alive b z.
Proof. intro H. unfold alive. rewrite kv_get_put_other by exact H. reflexivity. Qed.

Lemma alive_del_other b k z : sorted b -> session_key z <> k -> alive (kv_del b k) z = alive b z.
Proof. intros Hs H. unfold alive. rewrite kv_get_del_other by assumption. reflexivity. Qed.

Lemma session_key_not_user z k : is_internal k = false -> session_key z <> k.
Proof. intros Hi E. subst. rewrite session_key_internal in Hi. discriminate. Qed.

(* checkExpectedVersionId on a user key is the spec's conditional on the user view *)
Lemma check_expected_user m k exp :
  wf_kv m -> is_internal k = false ->
  check_expected m k exp = if spec_check (uv m k) exp then CkOk (uv m k) else CkBadVersion.
Proof.
  intros Hw Hi. unfold check_expected. rewrite (get_entry_user m k Hw Hi).
  destruct (uv m k) as [e|]; destruct exp as [v|]; simpl; reflexivity.
Qed.

Lemma stored_entry_spec ex p k ver ts : stored_entry ex (set_key p k) ver ts = spec_entry ex p ver ts.
Proof. destruct ex; reflexivity. Qed.

Lemma stored_entry_spec' ex p ver ts : stored_entry ex p ver ts = spec_entry ex p ver ts.
Proof. destruct ex; reflexivity. Qed.

Lemma session_ok_abs w s sess :
  seq_eq (absw w) s ->
  match sess with None => OK | Some z => if alive (w_kv w) z then OK else SESSION_DOES_NOT_EXIST end
  = if spec_session_ok s sess then OK else SESSION_DOES_NOT_EXIST.
Proof.
  intros [_ [Ha _]]. destruct sess as [z|]; simpl; [|reflexivity]. rewrite <- Ha. simpl. reflexivity.
Qed.

(* ---------------------------------------------------------------- put *)
(* second half of applyPut: callbacks, version id, write.  [p] already carries the final key. *)
Lemma finish_put_sim w p ex rk ts w' r s :
  wf_kv (w_kv w) -> is_internal (p_key p) = false ->
  seq_eq (absw w) s ->
  finish_put wrapper_callbacks w p ex rk ts = (w', Ok r) ->
  wf_kv (w_kv w') /\
  (spec_session_ok s (p_session p) = true ->
     r = snd (spec_store s (p_key p) p ex ts rk) /\ seq_eq (absw w') (fst (spec_store s (p_key p) p ex ts rk))) /\
  (spec_session_ok s (p_session p) = false ->
     r = put_status SESSION_DOES_NOT_EXIST /\ seq_eq (absw w') s).
Proof.
  intros Hw Hi Hs H. unfold finish_put in H. simpl in H.
  destruct (wrapper_on_put_spec (w_kv w) p ex Hw) as [b1 [R E]]. rewrite E in H.
  rewrite (session_ok_abs w s (p_session p) Hs) in H.
  destruct Hs as [Hr [Ha Hl]]. simpl in Hr, Ha, Hl.
  destruct (spec_session_ok s (p_session p)) eqn:SO.
  - inversion H; subst w' r; clear H. simpl. split; [apply wf_put_record, (cb_rel_wf _ _ R)|].
    split; [|discriminate]. intros _. unfold spec_store. simpl.
    rewrite stored_entry_spec', Hl. split; [reflexivity|].
    split; [|split]; simpl.
    + intro k0. rewrite uv_put_user by exact Hi. unfold upd. destruct (bytes_eqb k0 (p_key p)); [reflexivity|].
      rewrite (cb_rel_uv _ _ k0 R). apply Hr.
    + intro z. rewrite alive_put_other by (apply session_key_not_user; exact Hi).
      rewrite (cb_rel_alive _ _ z R). apply Ha.
    + reflexivity.
  - inversion H; subst w' r; clear H. simpl. split; [exact (cb_rel_wf _ _ R)|].
    split; [discriminate|]. intros _. split; [reflexivity|].
    split; [|split]; simpl.
    + intro k0. rewrite (cb_rel_uv _ _ k0 R). apply Hr.
    + intro z. rewrite (cb_rel_alive _ _ z R). apply Ha.
    + exact Hl.
Qed.

(* the generated sequence key of a user prefix is a user key *)
Lemma seq_loop_not_internal deltas : forall idx parts acc k,
  is_internal acc = false -> seq_loop idx deltas parts acc = SeqOk k -> is_internal k = false.
Proof.
  induction deltas as [|d tl IH]; simpl; intros idx parts acc k Hi H.
  - inversion H; subst. exact Hi.
  - destruct (Nat.eqb idx 0 && (d =? 0)%N); [discriminate|].
    destruct (match nth_error parts idx with
              | Some part => scan20 part
              | None => Some 0%N end) as [lastv|]; [|discriminate].
    destruct (((lastv + d) mod U64 <? lastv)%N || (Nat.eqb idx 0 && ((lastv + d) mod U64 =? MAX_SEQUENCE)%N)); [discriminate|].
    eapply IH; [|exact H]. apply not_internal_dash. exact Hi.
Qed.

Lemma generate_key_not_internal b p nk :
  is_internal (p_key p) = false -> generate_key b p = SeqOk nk -> is_internal nk = false.
Proof.
  intros Hi H. unfold generate_key in H.
  destruct (p_partition p); [|discriminate]. destruct (p_expected p); [discriminate|].
  destruct (current_last_parts b (p_key p) (length (p_deltas p))) as [parts|e]; [|discriminate].
  destruct (seq_loop 0 (p_deltas p) parts (p_key p)) as [k| |e] eqn:L; try discriminate.
  assert (Hk : is_internal k = false) by (eapply seq_loop_not_internal; eassumption).
  destruct (current_last_key b (p_key p)) as [|c lk]; [inversion H; subst; exact Hk|].
  destruct (cmp_slash k (c :: lk)); try discriminate. inversion H; subst; exact Hk.
Qed.

Lemma generate_key_ok_no_expected b p nk : generate_key b p = SeqOk nk -> p_expected p = None.
Proof.
  unfold generate_key. destruct (p_partition p); [|discriminate]. destruct (p_expected p) as [v|]; [discriminate|reflexivity].
Qed.

Lemma add_event_abs w a b : absw (add_event w a b) = absw w.
Proof. reflexivity. Qed.

Theorem put_sim w p ts w' r s :
  wf_kv (w_kv w) -> is_internal (p_key p) = false ->
  seq_eq (absw w) s ->
  apply_put wrapper_callbacks w p ts = (w', Ok r) ->
  spec_put s p (seq_choice_of r) ts = (fst (spec_put s p (seq_choice_of r) ts), r) /\
  seq_eq (absw w') (fst (spec_put s p (seq_choice_of r) ts)) /\ wf_kv (w_kv w').
Proof.
  intros Hw Hi Hs H. unfold apply_put in H. unfold spec_put.
  destruct (p_deltas p) as [|d0 dtl] eqn:D.
  - (* plain / conditional / session put *)
    rewrite (check_expected_user _ _ (p_expected p) Hw Hi) in H.
    assert (Hcur : s_recs s (p_key p) = uv (w_kv w) (p_key p)) by (symmetry; apply Hs).
    rewrite Hcur.
    destruct (spec_check (uv (w_kv w) (p_key p)) (p_expected p)) eqn:C.
    + destruct (finish_put_sim _ _ _ _ _ _ _ _ Hw Hi Hs H) as [Hw' [Hok Hdead]].
      destruct (spec_session_ok s (p_session p)) eqn:SO.
      * destruct (Hok eq_refl) as [Hr Hq]. subst r. simpl. split; [reflexivity|]. split; [exact Hq|exact Hw'].
      * destruct (Hdead eq_refl) as [Hr Hq]. subst r. simpl. split; [reflexivity|]. split; [exact Hq|exact Hw'].
    + inversion H; subst w' r. simpl. split; [reflexivity|]. split; [exact Hs|exact Hw].
  - (* sequential key *)
    destruct (generate_key (w_kv w) p) as [nk| |e] eqn:G.
    + pose proof (generate_key_not_internal _ _ _ Hi G) as Hnk.
      rewrite (generate_key_ok_no_expected _ _ _ G).
      destruct (finish_put wrapper_callbacks w (set_key p nk) None (Some nk) ts) as [w1 [r1|e1]] eqn:F;
        [|discriminate].
      assert (Hi1 : is_internal (p_key (set_key p nk)) = false) by exact Hnk.
      destruct (finish_put_sim _ _ _ _ _ _ _ _ Hw Hi1 Hs F) as [Hw' [Hok Hdead]].
      simpl in Hok, Hdead.
      inversion H; subst w' r; clear H.
      assert (Hwf : wf_kv (w_kv (match pr_key r1 with Some k => add_event w1 (p_key p) k | None => w1 end)))
        by (destruct (pr_key r1); exact Hw').
      assert (Habs : absw (match pr_key r1 with Some k => add_event w1 (p_key p) k | None => w1 end) = absw w1)
        by (destruct (pr_key r1); reflexivity).
      rewrite Habs.
      destruct (spec_session_ok s (p_session p)) eqn:SO.
      * destruct (Hok eq_refl) as [Hr Hq]. unfold spec_store in Hr, Hq. simpl in Hr, Hq.
        rewrite Hr. unfold seq_choice_of. simpl. unfold spec_store. simpl.
        split; [reflexivity|]. split; [exact Hq|]. rewrite Hr in Hwf. exact Hwf.
      * destruct (Hdead eq_refl) as [Hr Hq]. subst r1. unfold seq_choice_of. simpl.
        split; [reflexivity|]. split; [exact Hq|exact Hw'].
    + inversion H; subst w' r. unfold seq_choice_of. simpl.
      destruct (p_expected p); (split; [reflexivity|]; split; [exact Hs|exact Hw]).
    + inversion H.
Qed.

(* ---------------------------------------------------------------- delete *)
Theorem delete_sim w d w' r s :
  wf_kv (w_kv w) -> is_internal (d_key d) = false ->
  seq_eq (absw w) s ->
  apply_delete wrapper_callbacks w d = (w', Ok r) ->
  r = snd (spec_delete s d) /\ seq_eq (absw w') (fst (spec_delete s d)) /\ wf_kv (w_kv w').
Proof.
  intros Hw Hi Hs H. unfold apply_delete in H.
  rewrite (check_expected_user _ _ (d_expected d) Hw Hi) in H.
  unfold spec_delete.
  assert (Hcur : s_recs s (d_key d) = uv (w_kv w) (d_key d)) by (symmetry; apply Hs).
  rewrite Hcur.
  destruct (uv (w_kv w) (d_key d)) as [e|] eqn:U.
  - destruct (spec_check (Some e) (d_expected d)) eqn:C.
    + simpl in H.
      destruct (wrapper_on_delete_spec _ _ _ Hw Hi U) as [b1 [E [R _]]]. rewrite E in H.
      inversion H; subst w' r; clear H. simpl.
      pose proof (cb_rel_wf _ _ R) as Hw1.
      split; [reflexivity|]. split; [|apply wf_del; exact Hw1].
      destruct Hs as [Hr [Ha Hl]]. simpl in Hr, Ha, Hl.
      split; [|split]; simpl.
      * intro k0. rewrite uv_del_user by apply Hw1. unfold upd.
        destruct (bytes_eqb k0 (d_key d)); [reflexivity|]. rewrite (cb_rel_uv _ _ k0 R). apply Hr.
      * intro z. rewrite alive_del_other; [|apply Hw1|apply session_key_not_user; exact Hi].
        rewrite (cb_rel_alive _ _ z R). apply Ha.
      * exact Hl.
    + inversion H; subst w' r. simpl. split; [reflexivity|]. split; [exact Hs|exact Hw].
  - destruct (spec_check None (d_expected d)) eqn:C.
    + inversion H; subst w' r. simpl. split; [reflexivity|]. split; [exact Hs|exact Hw].
    + inversion H; subst w' r. simpl. split; [reflexivity|]. split; [exact Hs|exact Hw].
Qed.

(* ---------------------------------------------------------------- delete-range *)
Definition delete_keys_sorted ks b : sorted b -> sorted (delete_keys b ks).
Proof. apply fold_del_sorted. Qed.

Lemma wf_delete_keys ks : forall b, wf_kv b -> wf_kv (delete_keys b ks).
Proof.
  unfold delete_keys. induction ks as [|k tl IH]; simpl; intros b Hw; [exact Hw|]. apply IH, wf_del, Hw.
Qed.

Lemma kv_get_delete_keys_in ks b k : sorted b -> In k ks -> kv_get (delete_keys b ks) k = None.
Proof. apply get_fold_del_in; [exact cmp_slash_eq|exact cmp_slash_trans]. Qed.

Lemma kv_get_delete_keys_notin ks b k : sorted b -> ~ In k ks -> kv_get (delete_keys b ks) k = kv_get b k.
Proof. apply get_fold_del_notin; [exact cmp_slash_eq|exact cmp_slash_trans]. Qed.

(* the map left by either strategy of applyDeleteRange, whatever the threshold: exactly the keys of the
   range are gone.  [m] is the batch when the iterator was created, [b1] the batch after the callbacks
   (which only deleted keys). *)
Definition after_range_delete (threshold : nat) (m b1 : kvmap) (lo hi : option key) : kvmap :=
  let scanned := kv_range m lo hi in
  if (threshold <? length scanned)%nat then kv_del_range b1 lo hi
  else delete_keys b1 (map fst (firstn threshold scanned)).

Lemma range_delete_get threshold m b1 lo hi k :
  sorted m -> sorted b1 -> cb_shrink m b1 ->
  kv_get (after_range_delete threshold m b1 lo hi) k = if key_in_range lo hi k then None else kv_get b1 k.
Proof.
  intros Hm Hb Hsh. unfold after_range_delete.
  destruct (threshold <? length (kv_range m lo hi))%nat eqn:T.
  - apply kv_get_del_range. exact Hb.
  - apply Nat.ltb_ge in T. rewrite firstn_all2 by exact T.
    destruct (key_in_range lo hi k) eqn:R.
    + destruct (in_dec (list_eq_dec N.eq_dec) k (map fst (kv_range m lo hi))) as [Hin|Hnin].
      * apply kv_get_delete_keys_in; assumption.
      * rewrite kv_get_delete_keys_notin by assumption.
        destruct (kv_get b1 k) as [v|] eqn:G; [|reflexivity].
        exfalso. apply Hnin. apply Hsh in G. apply kv_get_in in G; [|exact Hm].
        apply in_map_iff. exists (k, v). split; [reflexivity|].
        unfold kv_range, sm_range. apply filter_In. split; [exact G|exact R].
    + apply kv_get_delete_keys_notin; [exact Hb|].
      intro Hin. apply in_map_iff in Hin. destruct Hin as [[k' v] [Hk Hin]]. simpl in Hk. subst k'.
      unfold kv_range, sm_range in Hin. apply filter_In in Hin. destruct Hin as [_ Hr]. simpl in Hr.
      unfold key_in_range in R. congruence.
Qed.

Lemma wf_after_range_delete threshold m b1 lo hi : wf_kv b1 -> wf_kv (after_range_delete threshold m b1 lo hi).
Proof.
  intro Hw. unfold after_range_delete. destruct (_ <? _)%nat; [apply wf_del_range|apply wf_delete_keys]; exact Hw.
Qed.

(* the per-key callbacks over a scan whose values are all records *)
Lemma scan_callbacks_spec scanned : forall b,
  wf_kv b -> (forall k v, In (k, v) scanned -> exists e, v = VRecord e) ->
  exists b', scan_callbacks wrapper_callbacks b scanned = Ok b' /\ cb_rel b b' /\ cb_shrink b b'.
Proof.
  induction scanned as [|[k v] tl IH]; intros b Hw Hrec.
  - exists b. split; [reflexivity|]. split; [apply cb_rel_refl; exact Hw|apply cb_shrink_refl].
  - destruct (Hrec k v (or_introl eq_refl)) as [e He]. subst v.
    change (scan_callbacks wrapper_callbacks b ((k, VRecord e) :: tl)) with
      (match wrapper_on_delete_with_entry b k e with
       | Err x => Err x
       | Ok b1 => scan_callbacks wrapper_callbacks b1 tl
       end).
    destruct (wrapper_on_delete_with_entry_spec b k e Hw) as [b1 [E [R S]]]. rewrite E.
    destruct (IH b1 (cb_rel_wf _ _ R)) as [b2 [E2 [R2 S2]]].
    + intros k' v' Hin. apply (Hrec k' v'). right. exact Hin.
    + exists b2. split; [exact E2|]. split; [eapply cb_rel_trans; eassumption|eapply cb_shrink_trans; eassumption].
Qed.

(* a range a user may delete: it contains no internal key *)
Definition range_user (r : range_req) : Prop :=
  forall k, is_internal k = true -> key_in_range (Some (r_start r)) (Some (r_end r)) k = false.

Lemma scanned_are_records m lo hi :
  wf_kv m -> (forall k, is_internal k = true -> key_in_range lo hi k = false) ->
  forall k v, In (k, v) (kv_range m lo hi) -> exists e, v = VRecord e.
Proof.
  intros [Hs Hc] Hu k v Hin. unfold kv_range, sm_range in Hin. apply filter_In in Hin.
  destruct Hin as [Hin Hr]. simpl in Hr. apply kv_in_get in Hin; [|exact Hs].
  destruct v as [e|b]; [eauto|]. apply Hc in Hin. apply Hu in Hin. unfold key_in_range in Hin. congruence.
Qed.

Lemma apply_delete_range_unfold cb threshold w r :
  apply_delete_range cb threshold w r =
  match scan_callbacks cb (w_kv w) (kv_range (w_kv w) (Some (r_start r)) (Some (r_end r))) with
  | Err e => (w, Err e)
  | Ok b1 =>
      (mkW (after_range_delete threshold (w_kv w) b1 (Some (r_start r)) (Some (r_end r))) (w_ver w)
           (notif_deleted_range (w_nm w) (r_start r) (r_end r)) (w_events w), Ok OK)
  end.
Proof. reflexivity. Qed.

Theorem range_sim threshold w r w' x s :
  wf_kv (w_kv w) -> range_user r ->
  seq_eq (absw w) s ->
  apply_delete_range wrapper_callbacks threshold w r = (w', Ok x) ->
  x = snd (spec_delete_range s r) /\ seq_eq (absw w') (fst (spec_delete_range s r)) /\ wf_kv (w_kv w').
Proof.
  intros Hw Hu Hs H. rewrite apply_delete_range_unfold in H.
  destruct (scan_callbacks_spec _ (w_kv w) Hw (scanned_are_records _ _ _ Hw Hu)) as [b1 [E [R S]]].
  rewrite E in H. inversion H; subst w' x; clear H. simpl.
  pose proof (cb_rel_wf _ _ R) as Hw1.
  split; [reflexivity|]. split; [|apply wf_after_range_delete; exact Hw1].
  destruct Hs as [Hr [Ha Hl]]. simpl in Hr, Ha, Hl.
  split; [|split]; simpl.
  - intro k0. unfold uv. rewrite (range_delete_get _ _ _ _ _ k0 (proj1 Hw) (proj1 Hw1) S).
    destruct (is_internal k0) eqn:I.
    + rewrite <- Hr. unfold uv. rewrite I. destruct (key_in_range _ _ k0); reflexivity.
    + destruct (key_in_range (Some (r_start r)) (Some (r_end r)) k0); [reflexivity|].
      rewrite (cb_rel_get_user _ _ k0 R I). rewrite <- Hr. unfold uv. rewrite I. reflexivity.
  - intro z. unfold alive. rewrite (range_delete_get _ _ _ _ _ _ (proj1 Hw) (proj1 Hw1) S).
    rewrite (Hu _ (session_key_internal z)).
    destruct R as [_ [Rg _]]. rewrite Rg by apply session_key_not_cbkey. apply Ha.
  - exact Hl.
Qed.

(* ---------------------------------------------------------------- lists of operations *)
Lemma puts_sim ps : forall w ts w' rs s,
  wf_kv (w_kv w) -> Forall (fun p => is_internal (p_key p) = false) ps ->
  seq_eq (absw w) s ->
  apply_puts wrapper_callbacks w ps ts = (w', Ok rs) ->
  exists s', spec_puts s ps (map seq_choice_of rs) ts = (s', rs) /\ seq_eq (absw w') s' /\ wf_kv (w_kv w').
Proof.
  induction ps as [|p tl IH]; simpl; intros w ts w' rs s Hw Hu Hs H.
  - inversion H; subst. exists s. split; [reflexivity|]. split; assumption.
  - inversion Hu as [|? ? Hp Htl]; subst.
    destruct (apply_put wrapper_callbacks w p ts) as [w1 [r|e]] eqn:A; [|discriminate].
    destruct (apply_puts wrapper_callbacks w1 tl ts) as [w2 [rs'|e]] eqn:B; [|discriminate].
    inversion H; subst w' rs; clear H.
    destruct (put_sim _ _ _ _ _ _ Hw Hp Hs A) as [E1 [Q1 W1]].
    destruct (IH _ _ _ _ _ W1 Htl Q1 B) as [s2 [E2 [Q2 W2]]].
    exists s2. simpl. rewrite E1, E2. split; [reflexivity|]. split; assumption.
Qed.

Lemma deletes_sim ds : forall w w' rs s,
  wf_kv (w_kv w) -> Forall (fun d => is_internal (d_key d) = false) ds ->
  seq_eq (absw w) s ->
  apply_deletes wrapper_callbacks w ds = (w', Ok rs) ->
  exists s', spec_deletes s ds = (s', rs) /\ seq_eq (absw w') s' /\ wf_kv (w_kv w').
Proof.
  induction ds as [|d tl IH]; simpl; intros w w' rs s Hw Hu Hs H.
  - inversion H; subst. exists s. split; [reflexivity|]. split; assumption.
  - inversion Hu as [|? ? Hd Htl]; subst.
    destruct (apply_delete wrapper_callbacks w d) as [w1 [r|e]] eqn:A; [|discriminate].
    destruct (apply_deletes wrapper_callbacks w1 tl) as [w2 [rs'|e]] eqn:B; [|discriminate].
    inversion H; subst w' rs; clear H.
    destruct (delete_sim _ _ _ _ _ Hw Hd Hs A) as [E1 [Q1 W1]].
    destruct (spec_delete s d) as [s1 r1] eqn:SD. simpl in E1, Q1. subst r1.
    destruct (IH _ _ _ _ W1 Htl Q1 B) as [s2 [E2 [Q2 W2]]].
    exists s2. rewrite E2. split; [reflexivity|]. split; assumption.
Qed.

Lemma ranges_sim threshold rs : forall w w' xs s,
  wf_kv (w_kv w) -> Forall range_user rs ->
  seq_eq (absw w) s ->
  apply_ranges wrapper_callbacks threshold w rs = (w', Ok xs) ->
  exists s', spec_ranges s rs = (s', xs) /\ seq_eq (absw w') s' /\ wf_kv (w_kv w').
Proof.
  induction rs as [|r tl IH]; simpl; intros w w' xs s Hw Hu Hs H.
  - inversion H; subst. exists s. split; [reflexivity|]. split; assumption.
  - inversion Hu as [|? ? Hr Htl]; subst.
    destruct (apply_delete_range wrapper_callbacks threshold w r) as [w1 [x|e]] eqn:A; [|discriminate].
    destruct (apply_ranges wrapper_callbacks threshold w1 tl) as [w2 [xs'|e]] eqn:B; [|discriminate].
    inversion H; subst w' xs; clear H.
    destruct (range_sim _ _ _ _ _ _ Hw Hr Hs A) as [E1 [Q1 W1]].
    unfold spec_delete_range in E1, Q1. simpl in E1, Q1. subst x.
    destruct (IH _ _ _ _ W1 Htl Q1 B) as [s2 [E2 [Q2 W2]]].
    exists s2. unfold spec_delete_range. simpl. rewrite E2. split; [reflexivity|]. split; assumption.
Qed.

(* ---------------------------------------------------------------- a whole request *)
(* the requests C12 quantifies over: keys and ranges outside the internal prefix "__oxia/" *)
Definition user_request (req : write_req) : Prop :=
  Forall (fun p => is_internal (p_key p) = false) (w_puts req) /\
  Forall (fun d => is_internal (d_key d) = false) (w_dels req) /\
  Forall range_user (w_ranges req).

Theorem request_sim threshold w req ts w' resp s :
  wf_kv (w_kv w) -> user_request req ->
  seq_eq (absw w) s ->
  apply_write_request wrapper_callbacks threshold w req ts = (w', Ok resp) ->
  exists s', spec_write s req (map seq_choice_of (wr_puts resp)) ts = (s', resp) /\ seq_eq (absw w') s' /\ wf_kv (w_kv w').
Proof.
  intros Hw [Hp [Hd Hr]] Hs H. unfold apply_write_request in H.
  destruct (apply_puts wrapper_callbacks w (w_puts req) ts) as [w1 [prs|e]] eqn:A; [|discriminate].
  destruct (apply_deletes wrapper_callbacks w1 (w_dels req)) as [w2 [drs|e]] eqn:B; [|discriminate].
  destruct (apply_ranges wrapper_callbacks threshold w2 (w_ranges req)) as [w3 [rrs|e]] eqn:C; [|discriminate].
  inversion H; subst w' resp; clear H. simpl.
  destruct (puts_sim _ _ _ _ _ _ Hw Hp Hs A) as [s1 [E1 [Q1 W1]]].
  destruct (deletes_sim _ _ _ _ _ W1 Hd Q1 B) as [s2 [E2 [Q2 W2]]].
  destruct (ranges_sim _ _ _ _ _ _ W2 Hr Q2 C) as [s3 [E3 [Q3 W3]]].
  exists s3. unfold spec_write. rewrite E1, E2, E3. split; [reflexivity|]. split; assumption.
Qed.

(* ---------------------------------------------------------------- ProcessWrite *)
Lemma process_write_unfold cb cfg st req offset ts :
  process_write cb cfg st req offset ts =
  match apply_write_request cb (cfg_threshold cfg) (start_write st) req ts with
  | (w, Err e) => (mkState (st_kv st) (w_ver w) (st_notif st) (st_notif_last st), Err e)
  | (w, Ok resp) => (commit_write cfg st w offset ts, Ok resp)
  end.
Proof.
  unfold process_write, process_write_full.
  destruct (apply_write_request cb (cfg_threshold cfg) (start_write st) req ts) as [w [resp|e]]; reflexivity.
Qed.

Lemma internal_put_uv b k v ts k0 : is_internal k = true -> uv (internal_put b k v ts) k0 = uv b k0.
Proof. intro Hi. unfold internal_put. apply uv_put_internal. exact Hi. Qed.

Lemma commit_write_abs cfg st w offset ts :
  seq_eq (abs_state (commit_write cfg st w offset ts)) (absw w).
Proof.
  unfold commit_write.
  assert (Hu : forall k0, uv (internal_put (internal_put (w_kv w) commit_offset_key (ascii_of_Z offset) ts)
                                last_version_key (ascii_of_Z (w_ver w)) ts) k0 = uv (w_kv w) k0).
  { intro k0. rewrite !internal_put_uv by reflexivity. reflexivity. }
  assert (Ha : forall z, alive (internal_put (internal_put (w_kv w) commit_offset_key (ascii_of_Z offset) ts)
                                last_version_key (ascii_of_Z (w_ver w)) ts) z = alive (w_kv w) z).
  { intro z. unfold internal_put.
    rewrite alive_put_other by apply session_key_not_last_version.
    rewrite alive_put_other by apply session_key_not_commit_offset. reflexivity. }
  destruct (w_nm w) as [nm|]; split; simpl; try split; try reflexivity.
  - intro k0. rewrite uv_put_internal by apply notification_key_internal. apply Hu.
  - intro z. rewrite alive_put_other by apply session_key_not_notification. apply Ha.
  - exact Hu.
  - exact Ha.
Qed.

Lemma seq_eq_trans a b c : seq_eq a b -> seq_eq b c -> seq_eq a c.
Proof.
  intros [H1 [H2 H3]] [H4 [H5 H6]]. split; [|split].
  - intro k. rewrite H1. apply H4.
  - intro z. rewrite H2. apply H5.
  - congruence.
Qed.

Lemma wf_internal_put b k v ts : wf_kv b -> wf_kv (internal_put b k v ts).
Proof. intro H. unfold internal_put. apply wf_put_record. exact H. Qed.

Lemma wf_commit_write cfg st w offset ts : wf_kv (w_kv w) -> wf_kv (st_kv (commit_write cfg st w offset ts)).
Proof.
  intro Hw. unfold commit_write. destruct (w_nm w); simpl.
  - apply wf_put_internal; [|apply notification_key_internal]. apply wf_internal_put, wf_internal_put, Hw.
  - apply wf_internal_put, wf_internal_put, Hw.
Qed.

(* MAIN THEOREM: a request on user keys is answered, and changes the user-visible state, exactly as the
   sequential specification says *)
Theorem refines_spec cfg st req offset ts st' resp :
  wf_kv (st_kv st) -> user_request req ->
  process_write wrapper_callbacks cfg st req offset ts = (st', Ok resp) ->
  exists s', spec_write (abs_state st) req (map seq_choice_of (wr_puts resp)) ts = (s', resp) /\
             seq_eq (abs_state st') s' /\ wf_kv (st_kv st').
Proof.
  intros Hw Hu H. rewrite process_write_unfold in H.
  destruct (apply_write_request wrapper_callbacks (cfg_threshold cfg) (start_write st) req ts) as [w [r|e]] eqn:A;
    [|discriminate].
  inversion H; subst st' resp; clear H.
  assert (Hs : seq_eq (absw (start_write st)) (abs_state st)) by apply seq_eq_refl.
  assert (Hw0 : wf_kv (w_kv (start_write st))) by exact Hw.
  destruct (request_sim _ _ _ _ _ _ _ Hw0 Hu Hs A) as [s' [E [Q W]]].
  exists s'. split; [exact E|]. split.
  - eapply seq_eq_trans; [apply commit_write_abs|exact Q].
  - apply wf_commit_write. exact W.
Qed.

(* ---------------------------------------------------------------- atomicity *)
(* holds for every callback set and every request: a failed request leaves the stored map untouched
   (only the in-memory version counter may have advanced) *)
Theorem atomic cb cfg st req offset ts st' e :
  process_write cb cfg st req offset ts = (st', Err e) ->
  st_kv st' = st_kv st /\ st_notif st' = st_notif st /\ st_notif_last st' = st_notif_last st.
Proof.
  intro H. rewrite process_write_unfold in H.
  destruct (apply_write_request cb (cfg_threshold cfg) (start_write st) req ts) as [w [r|e']]; [discriminate|].
  inversion H; subst. simpl. repeat split.
Qed.

(* ---------------------------------------------------------------- the invariant is preserved by EVERY request *)
Lemma finish_put_wf w p ex rk ts : wf_kv (w_kv w) -> wf_kv (w_kv (fst (finish_put wrapper_callbacks w p ex rk ts))).
Proof.
  intro Hw. unfold finish_put. simpl.
  destruct (wrapper_on_put_spec (w_kv w) p ex Hw) as [b1 [R E]]. rewrite E.
  destruct (match p_session p with
            | Some z => if alive (w_kv w) z then OK else SESSION_DOES_NOT_EXIST
            | None => OK end); simpl;
    try exact (cb_rel_wf _ _ R). apply wf_put_record. exact (cb_rel_wf _ _ R).
Qed.

Lemma apply_put_wf w p ts : wf_kv (w_kv w) -> wf_kv (w_kv (fst (apply_put wrapper_callbacks w p ts))).
Proof.
  intro Hw. unfold apply_put. destruct (p_deltas p).
  - destruct (check_expected (w_kv w) (p_key p) (p_expected p)); simpl; try exact Hw. apply finish_put_wf. exact Hw.
  - destruct (generate_key (w_kv w) p); simpl; try exact Hw.
    pose proof (finish_put_wf w (set_key p new_key) None (Some new_key) ts Hw) as F.
    destruct (finish_put wrapper_callbacks w (set_key p new_key) None (Some new_key) ts) as [w1 [r|e]]; simpl in *;
      [destruct (pr_key r)|]; exact F.
Qed.

Lemma wrapper_on_delete_wf b k b' : wf_kv b -> wrapper_on_delete b k = Ok b' -> wf_kv b'.
Proof.
  intros Hw H. unfold wrapper_on_delete, session_on_delete in H.
  destruct (get_entry b k) as [[e|]|x]; try discriminate.
  - unfold index_on_delete in H.
    pose proof (cb_rel_wf _ _ (proj1 (delete_shadow_rel b k (Some e) Hw))) as Hw1.
    destruct (get_entry (delete_shadow b k (Some e)) k) as [[e1|]|x]; inversion H; subst; [|exact Hw1].
    exact (cb_rel_wf _ _ (proj1 (delete_indexes_rel k e1 _ Hw1))).
  - unfold index_on_delete in H. destruct (get_entry b k) as [[e1|]|x]; inversion H; subst; [|exact Hw].
    exact (cb_rel_wf _ _ (proj1 (delete_indexes_rel k e1 _ Hw))).
Qed.

Lemma apply_delete_wf w d : wf_kv (w_kv w) -> wf_kv (w_kv (fst (apply_delete wrapper_callbacks w d))).
Proof.
  intro Hw. unfold apply_delete.
  destruct (check_expected (w_kv w) (d_key d) (d_expected d)) as [[e|]| |x]; simpl; try exact Hw.
  destruct (wrapper_on_delete (w_kv w) (d_key d)) as [b1|x] eqn:E; simpl; [|exact Hw].
  apply wf_del. eapply wrapper_on_delete_wf; eassumption.
Qed.

(* scan_callbacks that succeeds: well-formed result, only deletions *)
Lemma scan_callbacks_ok scanned : forall b b',
  wf_kv b -> scan_callbacks wrapper_callbacks b scanned = Ok b' -> wf_kv b' /\ cb_shrink b b'.
Proof.
  induction scanned as [|[k v] tl IH]; intros b b' Hw H.
  - inversion H; subst. split; [exact Hw|apply cb_shrink_refl].
  - destruct v as [e|nb]; [|discriminate].
    change (scan_callbacks wrapper_callbacks b ((k, VRecord e) :: tl)) with
      (match wrapper_on_delete_with_entry b k e with
       | Err x => Err x
       | Ok b1 => scan_callbacks wrapper_callbacks b1 tl
       end) in H.
    destruct (wrapper_on_delete_with_entry_spec b k e Hw) as [b1 [E [R S]]]. rewrite E in H.
    destruct (IH _ _ (cb_rel_wf _ _ R) H) as [W2 S2].
    split; [exact W2|eapply cb_shrink_trans; eassumption].
Qed.

Lemma apply_delete_range_wf threshold w r :
  wf_kv (w_kv w) -> wf_kv (w_kv (fst (apply_delete_range wrapper_callbacks threshold w r))).
Proof.
  intro Hw. rewrite apply_delete_range_unfold.
  destruct (scan_callbacks wrapper_callbacks (w_kv w) _) as [b1|x] eqn:E; simpl; [|exact Hw].
  apply wf_after_range_delete. eapply scan_callbacks_ok; eassumption.
Qed.

Lemma apply_puts_wf ps : forall w ts, wf_kv (w_kv w) -> wf_kv (w_kv (fst (apply_puts wrapper_callbacks w ps ts))).
Proof.
  induction ps as [|p tl IH]; simpl; intros w ts Hw; [exact Hw|].
  pose proof (apply_put_wf w p ts Hw) as H1.
  destruct (apply_put wrapper_callbacks w p ts) as [w1 [r|e]]; simpl in *; [|exact H1].
  specialize (IH w1 ts H1). destruct (apply_puts wrapper_callbacks w1 tl ts) as [w2 [rs|e]]; exact IH.
Qed.

Lemma apply_deletes_wf ds : forall w, wf_kv (w_kv w) -> wf_kv (w_kv (fst (apply_deletes wrapper_callbacks w ds))).
Proof.
  induction ds as [|d tl IH]; simpl; intros w Hw; [exact Hw|].
  pose proof (apply_delete_wf w d Hw) as H1.
  destruct (apply_delete wrapper_callbacks w d) as [w1 [r|e]]; simpl in *; [|exact H1].
  specialize (IH w1 H1). destruct (apply_deletes wrapper_callbacks w1 tl) as [w2 [rs|e]]; exact IH.
Qed.

Lemma apply_ranges_wf threshold rs : forall w,
  wf_kv (w_kv w) -> wf_kv (w_kv (fst (apply_ranges wrapper_callbacks threshold w rs))).
Proof.
  induction rs as [|r tl IH]; simpl; intros w Hw; [exact Hw|].
  pose proof (apply_delete_range_wf threshold w r Hw) as H1.
  destruct (apply_delete_range wrapper_callbacks threshold w r) as [w1 [x|e]]; simpl in *; [|exact H1].
  specialize (IH w1 H1). destruct (apply_ranges wrapper_callbacks threshold w1 tl) as [w2 [xs|e]]; exact IH.
Qed.

Theorem wf_preserved cfg st req offset ts :
  wf_kv (st_kv st) -> wf_kv (st_kv (fst (process_write wrapper_callbacks cfg st req offset ts))).
Proof.
  intro Hw. rewrite process_write_unfold. unfold apply_write_request.
  pose proof (apply_puts_wf (w_puts req) (start_write st) ts Hw) as H1.
  destruct (apply_puts wrapper_callbacks (start_write st) (w_puts req) ts) as [w1 [prs|e]]; simpl in *; [|exact Hw].
  pose proof (apply_deletes_wf (w_dels req) w1 H1) as H2.
  destruct (apply_deletes wrapper_callbacks w1 (w_dels req)) as [w2 [drs|e]]; simpl in *; [|exact Hw].
  pose proof (apply_ranges_wf (cfg_threshold cfg) (w_ranges req) w2 H2) as H3.
  destruct (apply_ranges wrapper_callbacks (cfg_threshold cfg) w2 (w_ranges req)) as [w3 [rrs|e]]; simpl in *; [|exact Hw].
  apply wf_commit_write. exact H3.
Qed.

(* every state reachable from an empty DB by requests (of any kind), term updates, notification switches
   and restarts *)
Inductive db_op :=
| OpWrite (req : write_req) (offset : Z) (ts : N)
| OpUpdateTerm (term : Z) (enabled : bool) (ts : N)
| OpEnableNotifications (enabled : bool)
| OpReopen.

Definition db_step (cfg : config) (st : state) (op : db_op) : state :=
  match op with
  | OpWrite req offset ts => fst (process_write wrapper_callbacks cfg st req offset ts)
  | OpUpdateTerm term en ts => update_term st term en ts
  | OpEnableNotifications en => enable_notifications st en
  | OpReopen => match reopen (persist st) with Ok st' => st' | Err _ => st end
  end.

Definition run (cfg : config) (ops : list db_op) : state := fold_left (db_step cfg) ops init_state.

Lemma db_step_wf cfg st op : wf_kv (st_kv st) -> wf_kv (st_kv (db_step cfg st op)).
Proof.
  intro Hw. destruct op; simpl.
  - apply wf_preserved. exact Hw.
  - apply wf_internal_put, wf_internal_put, Hw.
  - exact Hw.
  - unfold reopen, persist. destruct (read_ascii_long (st_kv st) commit_offset_key); [|exact Hw].
    destruct (read_last_version (st_kv st)); exact Hw.
Qed.

Theorem reachable_wf cfg ops : wf_kv (st_kv (run cfg ops)).
Proof.
  unfold run. assert (H : wf_kv (st_kv init_state)) by apply wf_nil.
  revert H. generalize init_state. induction ops as [|op tl IH]; simpl; intros st H; [exact H|].
  apply IH. apply db_step_wf. exact H.
Qed.

(* ---------------------------------------------------------------- version ids *)
(* For every callback set and every request (no restriction on keys). *)
Definition resp_versions (rs : list put_resp) : list Z :=
  flat_map (fun r => match pr_version r with Some v => [v_id v] | None => [] end) rs.

Fixpoint consecutive (from : Z) (vs : list Z) : Prop :=
  match vs with
  | [] => True
  | v :: tl => v = (from + 1)%Z /\ consecutive v tl
  end.

Fixpoint increasing_from (lo : Z) (vs : list Z) : Prop :=
  match vs with
  | [] => True
  | v :: tl => (lo < v)%Z /\ increasing_from v tl
  end.

Lemma wrap64_small z : (- TWO63 <= z < TWO63)%Z -> wrap64 z = z.
Proof.
  intro H. unfold wrap64. rewrite Z.mod_small; [lia|]. unfold TWO63, TWO64 in *. lia.
Qed.

Lemma stored_entry_version ex p ver ts : e_version (stored_entry ex p ver ts) = ver.
Proof. destruct ex; reflexivity. Qed.

Lemma finish_put_ver cb w p ex rk ts w1 res :
  finish_put cb w p ex rk ts = (w1, res) ->
  (w_ver w1 = w_ver w /\ forall r, res = Ok r -> pr_version r = None) \/
  (w_ver w1 = wrap64 (w_ver w + 1) /\ exists r v, res = Ok r /\ pr_version r = Some v /\ v_id v = w_ver w1).
Proof.
  unfold finish_put. destruct (cb_on_put cb (w_kv w) p ex) as [[st b1]|e].
  - destruct st; intro H; inversion H; subst; simpl.
    + right. split; [reflexivity|]. eexists. eexists. split; [reflexivity|]. split; [reflexivity|].
      simpl. apply stored_entry_version.
    + left. split; [reflexivity|]. intros r Hr. inversion Hr; reflexivity.
    + left. split; [reflexivity|]. intros r Hr. inversion Hr; reflexivity.
    + left. split; [reflexivity|]. intros r Hr. inversion Hr; reflexivity.
  - intro H; inversion H; subst. left. split; [reflexivity|]. intros r Hr. discriminate.
Qed.

Lemma apply_put_ver cb w p ts w1 res :
  apply_put cb w p ts = (w1, res) ->
  (w_ver w1 = w_ver w /\ forall r, res = Ok r -> pr_version r = None) \/
  (w_ver w1 = wrap64 (w_ver w + 1) /\ exists r v, res = Ok r /\ pr_version r = Some v /\ v_id v = w_ver w1).
Proof.
  unfold apply_put. destruct (p_deltas p).
  - destruct (check_expected (w_kv w) (p_key p) (p_expected p)).
    + apply finish_put_ver.
    + intro H; inversion H; subst. left. split; [reflexivity|]. intros r Hr. inversion Hr; reflexivity.
    + intro H; inversion H; subst. left. split; [reflexivity|]. intros r Hr. discriminate.
  - destruct (generate_key (w_kv w) p).
    + destruct (finish_put cb w (set_key p new_key) None (Some new_key) ts) as [w0 [r0|e0]] eqn:F; intro H;
        apply finish_put_ver in F; inversion H; subst; clear H; [destruct (pr_key r0)|]; exact F.
    + intro H; inversion H; subst. left. split; [reflexivity|]. intros r Hr. inversion Hr; reflexivity.
    + intro H; inversion H; subst. left. split; [reflexivity|]. intros r Hr. discriminate.
Qed.

Lemma apply_puts_ver cb ps : forall w ts w' res,
  apply_puts cb w ps ts = (w', res) ->
  (- TWO63 <= w_ver w)%Z -> (w_ver w + Z.of_nat (length ps) < TWO63)%Z ->
  (w_ver w <= w_ver w' <= w_ver w + Z.of_nat (length ps))%Z /\
  (forall rs, res = Ok rs ->
     consecutive (w_ver w) (resp_versions rs) /\
     w_ver w' = (w_ver w + Z.of_nat (length (resp_versions rs)))%Z).
Proof.
  induction ps as [|p tl IH]; intros w ts w' res H Hlo Hhi.
  - simpl in H. inversion H; subst. split; [simpl; lia|]. intros rs Hr. inversion Hr; subst. simpl. split; [exact I|lia].
  - simpl in H. simpl length in Hhi. rewrite Nat2Z.inj_succ in Hhi.
    destruct (apply_put cb w p ts) as [w1 r1] eqn:A.
    pose proof (apply_put_ver _ _ _ _ _ _ A) as Hv.
    assert (Hw1 : (w_ver w <= w_ver w1 <= w_ver w + 1)%Z).
    { destruct Hv as [[Hv _]|[Hv _]]; rewrite Hv; [lia|]. rewrite wrap64_small; lia. }
    destruct r1 as [r|e].
    + destruct (apply_puts cb w1 tl ts) as [w2 r2] eqn:B.
      destruct (IH _ _ _ _ B) as [Hb Hc]; [lia|lia|].
      assert (Hres : w' = w2) by (destruct r2; inversion H; reflexivity). subst w'.
      split; [simpl length; rewrite Nat2Z.inj_succ; lia|].
      intros rs Hr. subst res. destruct r2 as [rs2|e2]; inversion H; subst rs.
      destruct (Hc rs2 eq_refl) as [Hc1 Hc2].
      unfold resp_versions in *. simpl flat_map.
      destruct Hv as [[Hv Hn]|[Hv [r' [v [Hr' [Hpv Hid]]]]]].
      * rewrite (Hn r eq_refl). simpl. rewrite Hv in Hc1, Hc2. split; [exact Hc1|exact Hc2].
      * inversion Hr'; subst r'. rewrite Hpv. simpl. rewrite Hid.
        rewrite wrap64_small in Hv by lia.
        split; [split; [exact Hv|exact Hc1]|]. rewrite Hc2. rewrite Zpos_P_of_succ_nat. lia.
    + inversion H; subst. split; [simpl length; rewrite Nat2Z.inj_succ; lia|]. intros rs Hr. discriminate.
Qed.

Lemma apply_delete_ver cb w d : w_ver (fst (apply_delete cb w d)) = w_ver w.
Proof.
  unfold apply_delete. destruct (check_expected (w_kv w) (d_key d) (d_expected d)) as [[e|]| |x]; simpl; try reflexivity.
  destruct (cb_on_delete cb (w_kv w) (d_key d)); reflexivity.
Qed.

Lemma apply_deletes_ver cb ds : forall w, w_ver (fst (apply_deletes cb w ds)) = w_ver w.
Proof.
  induction ds as [|d tl IH]; simpl; intro w; [reflexivity|].
  pose proof (apply_delete_ver cb w d) as H1.
  destruct (apply_delete cb w d) as [w1 [r|e]]; simpl in *; [|exact H1].
  specialize (IH w1). destruct (apply_deletes cb w1 tl) as [w2 [rs|e]]; simpl in *; congruence.
Qed.

Lemma apply_delete_range_ver cb t w r : w_ver (fst (apply_delete_range cb t w r)) = w_ver w.
Proof. rewrite apply_delete_range_unfold. destruct (scan_callbacks cb (w_kv w) _); reflexivity. Qed.

Lemma apply_ranges_ver cb t rs : forall w, w_ver (fst (apply_ranges cb t w rs)) = w_ver w.
Proof.
  induction rs as [|r tl IH]; simpl; intro w; [reflexivity|].
  pose proof (apply_delete_range_ver cb t w r) as H1.
  destruct (apply_delete_range cb t w r) as [w1 [x|e]]; simpl in *; [|exact H1].
  specialize (IH w1). destruct (apply_ranges cb t w1 tl) as [w2 [xs|e]]; simpl in *; congruence.
Qed.

Lemma commit_write_ver cfg st w offset ts : st_ver (commit_write cfg st w offset ts) = w_ver w.
Proof. unfold commit_write. destruct (w_nm w); reflexivity. Qed.

(* one request: the version ids of its successful puts are  v+1, v+2, ...  where v is the counter before,
   the counter afterwards is the last one assigned; a failed request never lowers the counter *)
Theorem versions_step cb cfg st req offset ts st' res :
  process_write cb cfg st req offset ts = (st', res) ->
  (- TWO63 <= st_ver st)%Z -> (st_ver st + Z.of_nat (length (w_puts req)) < TWO63)%Z ->
  (st_ver st <= st_ver st' <= st_ver st + Z.of_nat (length (w_puts req)))%Z /\
  (forall resp, res = Ok resp ->
     consecutive (st_ver st) (resp_versions (wr_puts resp)) /\
     st_ver st' = (st_ver st + Z.of_nat (length (resp_versions (wr_puts resp))))%Z).
Proof.
  intros H Hlo Hhi. rewrite process_write_unfold in H. unfold apply_write_request in H.
  destruct (apply_puts cb (start_write st) (w_puts req) ts) as [w1 r1] eqn:A.
  destruct (apply_puts_ver _ _ _ _ _ _ A Hlo Hhi) as [Hb Hc]. simpl in Hb.
  destruct r1 as [prs|e].
  - pose proof (apply_deletes_ver cb (w_dels req) w1) as Hd.
    destruct (apply_deletes cb w1 (w_dels req)) as [w2 [drs|e]]; simpl in Hd.
    + pose proof (apply_ranges_ver cb (cfg_threshold cfg) (w_ranges req) w2) as Hr.
      destruct (apply_ranges cb (cfg_threshold cfg) w2 (w_ranges req)) as [w3 [rrs|e]]; simpl in Hr.
      * inversion H; subst st' res. rewrite commit_write_ver. split; [lia|].
        intros resp Hresp. inversion Hresp; subst resp. simpl.
        destruct (Hc prs eq_refl) as [Hc1 Hc2]. simpl in Hc1, Hc2. split; [exact Hc1|lia].
      * inversion H; subst st' res. simpl. split; [lia|]. intros resp Hresp. discriminate.
    + inversion H; subst st' res. simpl. split; [lia|]. intros resp Hresp. discriminate.
  - inversion H; subst st' res. simpl. split; [lia|]. intros resp Hresp. discriminate.
Qed.

Lemma increasing_weaken lo lo' vs : (lo <= lo')%Z -> increasing_from lo' vs -> increasing_from lo vs.
Proof. destruct vs; simpl; [tauto|]. intros H [H1 H2]. split; [lia|exact H2]. Qed.

Lemma consecutive_app_increasing vs1 : forall lo mid vs2,
  consecutive lo vs1 -> (lo + Z.of_nat (length vs1) <= mid)%Z -> increasing_from mid vs2 ->
  increasing_from lo (vs1 ++ vs2).
Proof.
  induction vs1 as [|v tl IH]; simpl; intros lo mid vs2 Hc Hm Hi.
  - eapply increasing_weaken; [|exact Hi]. lia.
  - destruct Hc as [Hv Hc]. split; [lia|]. eapply IH; [exact Hc| |exact Hi]. rewrite Zpos_P_of_succ_nat in Hm. lia.
Qed.

(* any sequence of requests (successful or failed, any keys): all version ids ever assigned, in order of
   assignment, are strictly increasing and above the counter the sequence started from *)
Fixpoint run_writes (cb : callbacks) (cfg : config) (st : state) (reqs : list (write_req * Z * N))
  : state * list Z :=
  match reqs with
  | [] => (st, [])
  | (req, offset, ts) :: tl =>
      let '(st1, res) := process_write cb cfg st req offset ts in
      let '(st2, vs) := run_writes cb cfg st1 tl in
      (st2, match res with Ok resp => resp_versions (wr_puts resp) | Err _ => [] end ++ vs)
  end.

Definition total_puts (reqs : list (write_req * Z * N)) : nat :=
  fold_right (fun x acc => (length (w_puts (fst (fst x))) + acc)%nat) 0%nat reqs.

Theorem versions_strictly_increase cb cfg reqs : forall st st' vs,
  run_writes cb cfg st reqs = (st', vs) ->
  (- TWO63 <= st_ver st)%Z -> (st_ver st + Z.of_nat (total_puts reqs) < TWO63)%Z ->
  increasing_from (st_ver st) vs /\ (st_ver st <= st_ver st')%Z.
Proof.
  unfold total_puts.
  induction reqs as [|[[req offset] ts] tl IH]; simpl; intros st st' vs H Hlo Hhi.
  - inversion H; subst. split; [exact I|lia].
  - rewrite Nat2Z.inj_add in Hhi.
    change (-9223372036854775808)%Z with (- TWO63)%Z in Hlo.
    destruct (process_write cb cfg st req offset ts) as [st1 res] eqn:P.
    destruct (run_writes cb cfg st1 tl) as [st2 vs2] eqn:R.
    inversion H; subst st' vs; clear H.
    destruct (versions_step _ _ _ _ _ _ _ _ P Hlo) as [Hb Hc]; [lia|].
    destruct (IH _ _ _ R) as [Hi Hm]; [lia|lia|].
    split; [|lia].
    destruct res as [resp|e].
    + destruct (Hc resp eq_refl) as [Hc1 Hc2].
      eapply consecutive_app_increasing; [exact Hc1| |exact Hi]. lia.
    + simpl. eapply increasing_weaken; [|exact Hi]. lia.
Qed.

(* ---------------------------------------------------------------- single operations inside a request *)
(* [w] is any in-flight state of a request (i.e. after the earlier operations of the same request). *)

(* the conditional, as a proposition *)
Definition version_matches (cur : option entry) (expected : option Z) : Prop :=
  match expected with
  | None => True
  | Some v => match cur with None => v = (-1)%Z | Some e => e_version e = v end
  end.

Lemma spec_check_iff cur expected : spec_check cur expected = true <-> version_matches cur expected.
Proof.
  unfold spec_check, version_matches. destruct expected as [v|]; [|tauto].
  destruct cur as [e|]; apply Z.eqb_eq.
Qed.

(* effect of a put on a user key without sequence deltas *)
Theorem put_effect w p ts w' r :
  wf_kv (w_kv w) -> is_internal (p_key p) = false -> p_deltas p = [] ->
  apply_put wrapper_callbacks w p ts = (w', Ok r) ->
  let cur := uv (w_kv w) (p_key p) in
  let live := match p_session p with None => True | Some z => alive (w_kv w) z = true end in
  (* rejected: exactly when the expectation does not match, and then nothing changes *)
  (pr_status r = UNEXPECTED_VERSION_ID <-> ~ version_matches cur (p_expected p)) /\
  (pr_status r = SESSION_DOES_NOT_EXIST <-> version_matches cur (p_expected p) /\ ~ live) /\
  (pr_status r <> OK -> (forall k, uv (w_kv w') k = uv (w_kv w) k) /\ w_ver w' = w_ver w) /\
  (* takes effect: exactly when it matches (and the session, if any, is alive) *)
  (pr_status r = OK <-> version_matches cur (p_expected p) /\ live) /\
  (pr_status r = OK ->
     exists e, uv (w_kv w') (p_key p) = Some e /\
       e_value e = p_value p /\
       e_version e = wrap64 (w_ver w + 1) /\ w_ver w' = e_version e /\
       pr_version r = Some (version_of e) /\
       e_modcount e = match cur with None => 0%Z | Some c => wrap64 (e_modcount c + 1) end /\
       e_ctime e = match cur with None => ts | Some c => e_ctime c end /\ e_mtime e = ts /\
       (forall k, k <> p_key p -> uv (w_kv w') k = uv (w_kv w) k)).
Proof.
  intros Hw Hi Hd H cur live.
  destruct (put_sim _ _ _ _ _ _ Hw Hi (seq_eq_refl (absw w)) H) as [E [Q _]].
  apply (f_equal snd) in E. simpl snd in E.
  unfold spec_put in E, Q. rewrite Hd in E, Q. simpl s_recs in E, Q.
  fold cur in E, Q.
  pose proof (spec_check_iff cur (p_expected p)) as Hck.
  assert (Hlive : spec_session_ok (absw w) (p_session p) = true <-> live).
  { unfold live, spec_session_ok. destruct (p_session p); simpl; tauto. }
  destruct (spec_check cur (p_expected p)) eqn:C.
  - destruct (spec_session_ok (absw w) (p_session p)) eqn:SO.
    + unfold spec_store in E, Q. simpl in E, Q. subst r.
      destruct Q as [Qr [_ Ql]]. simpl in Qr, Ql. simpl pr_status. simpl pr_version.
      split; [split; [discriminate|intro Hn; exfalso; apply Hn, Hck; reflexivity]|].
      split; [split; [discriminate|intros [_ Hn]; exfalso; apply Hn, Hlive; reflexivity]|].
      split; [intro Hn; exfalso; apply Hn; reflexivity|].
      split; [split; [intros _; split; [apply Hck|apply Hlive]; reflexivity|reflexivity]|].
      intros _. eexists. split; [rewrite Qr; unfold upd; rewrite bytes_eqb_refl; reflexivity|].
      split; [destruct cur; reflexivity|].
      split; [destruct cur; reflexivity|].
      split; [rewrite Ql; destruct cur; reflexivity|].
      split; [reflexivity|].
      split; [destruct cur; reflexivity|].
      split; [destruct cur; reflexivity|].
      split; [destruct cur; reflexivity|].
      intros k Hk. rewrite Qr. unfold upd. rewrite bytes_eqb_neq by exact Hk. reflexivity.
    + simpl in E, Q. subst r. destruct Q as [Qr [_ Ql]]. simpl in Qr, Ql. simpl pr_status.
      split; [split; [discriminate|intro Hn; exfalso; apply Hn, Hck; reflexivity]|].
      split; [split; [intros _; split; [apply Hck; reflexivity|intro Hl; apply Hlive in Hl; discriminate]|reflexivity]|].
      split; [intros _; split; [exact Qr|exact Ql]|].
      split; [split; [discriminate|intros [_ Hl]; apply Hlive in Hl; discriminate]|].
      discriminate.
  - simpl in E, Q. subst r. destruct Q as [Qr [_ Ql]]. simpl in Qr, Ql. simpl pr_status.
    split; [split; [intros _ Hm; apply Hck in Hm; discriminate|reflexivity]|].
    split; [split; [discriminate|intros [Hm _]; apply Hck in Hm; discriminate]|].
    split; [intros _; split; [exact Qr|exact Ql]|].
    split; [split; [discriminate|intros [Hm _]; apply Hck in Hm; discriminate]|].
    discriminate.
Qed.

(* effect of a delete on a user key *)
Theorem delete_effect w d w' r :
  wf_kv (w_kv w) -> is_internal (d_key d) = false ->
  apply_delete wrapper_callbacks w d = (w', Ok r) ->
  let cur := uv (w_kv w) (d_key d) in
  (r = UNEXPECTED_VERSION_ID <-> ~ version_matches cur (d_expected d)) /\
  (r = KEY_NOT_FOUND <-> cur = None /\ version_matches cur (d_expected d)) /\
  (r = OK <-> cur <> None /\ version_matches cur (d_expected d)) /\
  (r <> OK -> forall k, uv (w_kv w') k = uv (w_kv w) k) /\
  (r = OK -> uv (w_kv w') (d_key d) = None /\ forall k, k <> d_key d -> uv (w_kv w') k = uv (w_kv w) k) /\
  w_ver w' = w_ver w.
Proof.
  intros Hw Hi H cur.
  destruct (delete_sim _ _ _ _ _ Hw Hi (seq_eq_refl (absw w)) H) as [E [Q _]].
  unfold spec_delete in E, Q. simpl s_recs in E, Q. fold cur in E, Q.
  pose proof (spec_check_iff cur (d_expected d)) as Hck.
  destruct cur as [e|] eqn:Hc.
  - destruct (spec_check (Some e) (d_expected d)) eqn:C; simpl in E, Q; subst r; destruct Q as [Qr [_ Ql]]; simpl in Qr, Ql.
    + split; [split; [discriminate|intro Hn; exfalso; apply Hn, Hck; reflexivity]|].
      split; [split; [discriminate|intros [Hn _]; discriminate]|].
      split; [split; [intros _; split; [discriminate|apply Hck; reflexivity]|reflexivity]|].
      split; [intro Hn; exfalso; apply Hn; reflexivity|].
      split; [|exact Ql].
      intros _. split; [rewrite Qr; unfold upd; rewrite bytes_eqb_refl; reflexivity|].
      intros k Hk. rewrite Qr. unfold upd. rewrite bytes_eqb_neq by exact Hk. reflexivity.
    + split; [split; [intros _ Hm; apply Hck in Hm; discriminate|reflexivity]|].
      split; [split; [discriminate|intros [Hn _]; discriminate]|].
      split; [split; [discriminate|intros [_ Hm]; apply Hck in Hm; discriminate]|].
      split; [intros _; exact Qr|].
      split; [discriminate|exact Ql].
  - destruct (spec_check None (d_expected d)) eqn:C; simpl in E, Q; subst r; destruct Q as [Qr [_ Ql]]; simpl in Qr, Ql.
    + split; [split; [discriminate|intro Hn; exfalso; apply Hn, Hck; reflexivity]|].
      split; [split; [intros _; split; [reflexivity|apply Hck; reflexivity]|reflexivity]|].
      split; [split; [discriminate|intros [Hn _]; exfalso; apply Hn; reflexivity]|].
      split; [intros _; exact Qr|].
      split; [discriminate|exact Ql].
    + split; [split; [intros _ Hm; apply Hck in Hm; discriminate|reflexivity]|].
      split; [split; [discriminate|intros [_ Hm]; apply Hck in Hm; discriminate]|].
      split; [split; [discriminate|intros [Hn _]; exfalso; apply Hn; reflexivity]|].
      split; [intros _; exact Qr|].
      split; [discriminate|exact Ql].
Qed.

(* deleting an absent key reports not-found (any expected version that "matches absence") *)
Corollary delete_absent_not_found w d w' r :
  wf_kv (w_kv w) -> is_internal (d_key d) = false ->
  apply_delete wrapper_callbacks w d = (w', Ok r) ->
  uv (w_kv w) (d_key d) = None -> (d_expected d = None \/ d_expected d = Some (-1)%Z) ->
  r = KEY_NOT_FOUND /\ forall k, uv (w_kv w') k = uv (w_kv w) k.
Proof.
  intros Hw Hi H Habs Hexp.
  destruct (delete_effect _ _ _ _ Hw Hi H) as [_ [Hnf [_ [Hne _]]]].
  assert (Hr : r = KEY_NOT_FOUND).
  { apply Hnf. split; [exact Habs|]. rewrite Habs. unfold version_matches. destruct Hexp as [->| ->]; [exact I|reflexivity]. }
  split; [exact Hr|]. apply Hne. rewrite Hr. discriminate.
Qed.

(* delete-range on a range of user keys: always succeeds, removes exactly [start, end), for EVERY threshold *)
Theorem delete_range_exact threshold w r :
  wf_kv (w_kv w) -> range_user r ->
  exists w', apply_delete_range wrapper_callbacks threshold w r = (w', Ok OK) /\
    (forall k, uv (w_kv w') k =
               if key_in_range (Some (r_start r)) (Some (r_end r)) k then None else uv (w_kv w) k) /\
    (forall z, alive (w_kv w') z = alive (w_kv w) z) /\ w_ver w' = w_ver w.
Proof.
  intros Hw Hu.
  destruct (apply_delete_range wrapper_callbacks threshold w r) as [w' [x|e]] eqn:A.
  - destruct (range_sim _ _ _ _ _ _ Hw Hu (seq_eq_refl (absw w)) A) as [E [[Qr [Qa Ql]] _]].
    simpl in E, Qr, Qa, Ql. subst x. exists w'. repeat split; assumption.
  - exfalso. rewrite apply_delete_range_unfold in A.
    destruct (scan_callbacks_spec _ (w_kv w) Hw (scanned_are_records _ _ _ Hw Hu)) as [b1 [E _]].
    rewrite E in A. discriminate.
Qed.

(* the two strategies of applyDeleteRange coincide: same outcome, same stored map, for any two thresholds,
   any range (user or not) *)
Theorem strategies_agree t1 t2 w r :
  wf_kv (w_kv w) ->
  let '(w1, r1) := apply_delete_range wrapper_callbacks t1 w r in
  let '(w2, r2) := apply_delete_range wrapper_callbacks t2 w r in
  r1 = r2 /\ (forall k, kv_get (w_kv w1) k = kv_get (w_kv w2) k) /\
  w_ver w1 = w_ver w2 /\ w_nm w1 = w_nm w2 /\ w_events w1 = w_events w2.
Proof.
  intro Hw. rewrite !apply_delete_range_unfold.
  destruct (scan_callbacks wrapper_callbacks (w_kv w) _) as [b1|e] eqn:E.
  - destruct (scan_callbacks_ok _ _ _ Hw E) as [Hw1 S]. simpl.
    split; [reflexivity|]. split; [|repeat split].
    intro k. rewrite !(range_delete_get _ _ _ _ _ k (proj1 Hw) (proj1 Hw1) S). reflexivity.
  - repeat split.
Qed.

(* ---------------------------------------------------------------- restarts *)
Lemma notification_key_not_last_version o : notification_key o <> last_version_key.
Proof. intro H. apply (f_equal key_tag) in H. rewrite tag_notification, tag_last_version in H. discriminate. Qed.
Lemma notification_key_not_commit_offset o : notification_key o <> commit_offset_key.
Proof. intro H. apply (f_equal key_tag) in H. rewrite tag_notification, tag_commit_offset in H. discriminate. Qed.
Lemma last_version_not_commit_offset : commit_offset_key <> last_version_key.
Proof. intro H. apply (f_equal key_tag) in H. rewrite tag_commit_offset, tag_last_version in H. discriminate. Qed.

Lemma commit_write_last_version cfg st w offset ts :
  kv_get (st_kv (commit_write cfg st w offset ts)) last_version_key =
  Some (VRecord (mkEntry (ascii_of_Z (w_ver w)) (-1) 0 ts ts None None None [])).
Proof.
  unfold commit_write, internal_put. destruct (w_nm w); simpl.
  - rewrite kv_get_put_other by (intro H; symmetry in H; revert H; apply notification_key_not_last_version).
    apply kv_get_put_same.
  - apply kv_get_put_same.
Qed.

Lemma commit_write_commit_offset cfg st w offset ts :
  kv_get (st_kv (commit_write cfg st w offset ts)) commit_offset_key =
  Some (VRecord (mkEntry (ascii_of_Z offset) (-1) 0 ts ts None None None [])).
Proof.
  unfold commit_write, internal_put. destruct (w_nm w); simpl.
  - rewrite kv_get_put_other by (intro H; symmetry in H; revert H; apply notification_key_not_commit_offset).
    rewrite kv_get_put_other by apply last_version_not_commit_offset.
    apply kv_get_put_same.
  - rewrite kv_get_put_other by apply last_version_not_commit_offset.
    apply kv_get_put_same.
Qed.

Definition int64 (z : Z) : Prop := (- TWO63 <= z < TWO63)%Z.

(* after a committed request the counters read back by NewDB are the in-memory ones *)
Theorem reopen_after_commit cb cfg st req offset ts st' resp :
  process_write cb cfg st req offset ts = (st', Ok resp) ->
  int64 offset -> int64 (st_ver st') ->
  reopen (persist st') = Ok (mkState (st_kv st') (st_ver st') true offset) /\
  read_last_version (st_kv st') = Ok (st_ver st').
Proof.
  intros H Ho Hv. rewrite process_write_unfold in H.
  destruct (apply_write_request cb (cfg_threshold cfg) (start_write st) req ts) as [w [r|e]]; [|discriminate].
  inversion H; subst st' resp; clear H.
  rewrite commit_write_ver in Hv.
  assert (L : read_last_version (st_kv (commit_write cfg st w offset ts)) = Ok (w_ver w)).
  { unfold read_last_version, read_ascii_long. rewrite commit_write_last_version. simpl.
    rewrite scan_int64_ascii by exact Hv. reflexivity. }
  split; [|rewrite commit_write_ver; exact L].
  unfold reopen, persist. rewrite L. unfold read_ascii_long. rewrite commit_write_commit_offset. simpl.
  rewrite scan_int64_ascii by exact Ho. rewrite commit_write_ver. reflexivity.
Qed.

(* a history of requests (any keys, successful or failed) and restarts: every version id ever assigned to
   a successful put is greater than all those assigned before, across restarts.  A failed request advances
   only the in-memory counter; a restart falls back to the persisted one, which is still at least the last
   id that was actually assigned. *)
Inductive hist_op :=
| HWrite (req : write_req) (offset : Z) (ts : N)
| HRestart.

Fixpoint run_hist (cb : callbacks) (cfg : config) (st : state) (ops : list hist_op) : state * list Z :=
  match ops with
  | [] => (st, [])
  | HWrite req offset ts :: tl =>
      let '(st1, res) := process_write cb cfg st req offset ts in
      let '(st2, vs) := run_hist cb cfg st1 tl in
      (st2, match res with Ok resp => resp_versions (wr_puts resp) | Err _ => [] end ++ vs)
  | HRestart :: tl =>
      match reopen (persist st) with
      | Ok st1 => run_hist cb cfg st1 tl
      | Err _ => (st, [])                      (* NewDB fails: no further request is served *)
      end
  end.

Definition hist_puts (ops : list hist_op) : nat :=
  fold_right (fun op acc => match op with HWrite req _ _ => (length (w_puts req) + acc)%nat | HRestart => acc end) 0%nat ops.

Definition hist_offsets_ok (ops : list hist_op) : Prop :=
  Forall (fun op => match op with HWrite _ offset _ => int64 offset | HRestart => True end) ops.

(* [lo] = last id assigned so far; the persisted counter lies between it and the in-memory one *)
Definition ver_consistent (st : state) (lo : Z) : Prop :=
  exists pv, read_last_version (st_kv st) = Ok pv /\ (lo <= pv <= st_ver st)%Z.

Lemma init_ver_consistent : ver_consistent init_state (-1).
Proof. exists (-1)%Z. split; [reflexivity|simpl; lia]. Qed.

Theorem versions_increase_across_restarts cb cfg ops : forall st lo st' vs,
  run_hist cb cfg st ops = (st', vs) ->
  ver_consistent st lo -> hist_offsets_ok ops ->
  (- TWO63 <= lo)%Z -> (st_ver st + Z.of_nat (hist_puts ops) < TWO63)%Z ->
  increasing_from lo vs.
Proof.
  unfold hist_puts.
  induction ops as [|op tl IH]; intros st lo st' vs H Hc Ho Hlo Hhi.
  - simpl in H. inversion H; subst. exact I.
  - inversion Ho as [|? ? Ho1 Ho2]; subst. destruct Hc as [pv [Hpv [Hl1 Hl2]]].
    destruct op as [req offset ts|].
    + simpl in H, Hhi. rewrite Nat2Z.inj_add in Hhi.
      destruct (process_write cb cfg st req offset ts) as [st1 res] eqn:P.
      destruct (run_hist cb cfg st1 tl) as [st2 vs2] eqn:R.
      inversion H; subst st' vs; clear H.
      destruct (versions_step _ _ _ _ _ _ _ _ P) as [Hb Hv]; [lia|lia|].
      destruct res as [resp|e].
      * destruct (Hv resp eq_refl) as [Hv1 Hv2].
        assert (Hi64 : int64 (st_ver st1)) by (unfold int64; lia).
        destruct (reopen_after_commit _ _ _ _ _ _ _ _ P Ho1 Hi64) as [_ Hrl].
        assert (Hc1 : ver_consistent st1 (st_ver st1)) by (exists (st_ver st1); split; [exact Hrl|lia]).
        assert (Hi : increasing_from (st_ver st1) vs2) by (apply (IH _ _ _ _ R Hc1 Ho2); lia).
        eapply increasing_weaken; [|eapply consecutive_app_increasing; [exact Hv1| |exact Hi]]; lia.
      * simpl. apply (IH _ _ _ _ R); [|exact Ho2|lia|lia].
        destruct (atomic _ _ _ _ _ _ _ _ P) as [Hkv _]. exists pv. rewrite Hkv. split; [exact Hpv|lia].
    + simpl in H, Hhi. unfold reopen, persist in H.
      destruct (read_ascii_long (st_kv st) commit_offset_key) as [co|e]; [|inversion H; subst; exact I].
      rewrite Hpv in H. apply (IH _ _ _ _ H); [|exact Ho2|lia|simpl; lia].
      exists pv. simpl. split; [exact Hpv|lia].
Qed.

(* ---------------------------------------------------------------- which ranges are user ranges *)
(* A decidable sufficient condition for [range_user] (it is the test the correspondence harness uses to
   build its valid stream, harness/cmd/db/gen.go:sweepsInternal): under CompareWithSlash the internal keys
   are exactly the keys with a '/' whose first segment is "__oxia"; they lie above every key without '/'
   and between the keys whose first segment is below / above "__oxia". *)
Definition oxia_segment : bytes := [95; 95; 111; 120; 105; 97]%N.   (* "__oxia" *)

Definition bytes_ltb (a b : bytes) : bool := match bytes_cmp a b with Lt => true | _ => false end.

Definition range_safeb (start_ end_ : key) : bool :=
  match split_slash end_ with
  | None => true
  | Some (se, _) =>
      bytes_ltb se oxia_segment ||
      match split_slash start_ with
      | Some (ss, _) => bytes_ltb oxia_segment ss
      | None => false
      end
  end.

Lemma split_slash_internal k : is_internal k = true -> exists l, split_slash k = Some (oxia_segment, l).
Proof.
  intro H. apply has_prefix_iff in H. destruct H as [l ->]. exists l. reflexivity.
Qed.

Lemma cmp_slash_first_segment a b sa ra sb rb :
  split_slash a = Some (sa, ra) -> split_slash b = Some (sb, rb) -> bytes_cmp sa sb <> Eq ->
  cmp_slash a b = bytes_cmp sa sb.
Proof.
  intros Ha Hb Hne. unfold cmp_slash.
  destruct a as [|x a']; [discriminate|]. destruct b as [|y b']; [discriminate|].
  cbn [cmp_slash_fuel length]. rewrite Ha, Hb. destruct (bytes_cmp sa sb); [contradiction|reflexivity|reflexivity].
Qed.

Theorem range_safe_is_user s e : range_safeb s e = true -> range_user (mkRange s e).
Proof.
  unfold range_safeb, range_user. intros H k Hk. simpl.
  destruct (split_slash_internal k Hk) as [l Hl].
  unfold key_in_range, in_range, SortedMap.leb, SortedMap.ltb.
  destruct (split_slash e) as [[se re]|] eqn:He.
  - apply orb_true_iff in H. destruct H as [H|H].
    + unfold bytes_ltb in H. destruct (bytes_cmp se oxia_segment) eqn:C; try discriminate.
      assert (Hc : cmp_slash e k = Lt).
      { rewrite (cmp_slash_first_segment _ _ _ _ _ _ He Hl); rewrite C; [reflexivity|discriminate]. }
      rewrite (cmp_slash_antisym e k), Hc. simpl. apply andb_false_r.
    + destruct (split_slash s) as [[ss rs]|] eqn:Hs; [|discriminate].
      unfold bytes_ltb in H. destruct (bytes_cmp oxia_segment ss) eqn:C; try discriminate.
      assert (Hc : cmp_slash k s = Lt).
      { rewrite (cmp_slash_first_segment _ _ _ _ _ _ Hl Hs); rewrite C; [reflexivity|discriminate]. }
      rewrite (cmp_slash_antisym k s), Hc. reflexivity.
  - rewrite (cmp_slash_antisym e k), (cmp_slash_no_slash_vs_slash _ _ _ _ He Hl). simpl. apply andb_false_r.
Qed.

(* ---------------------------------------------------------------- non-vacuity *)
(* a non-trivial reachable state and a user request on it: two sessions' worth of machinery is exercised
   (session record, ephemeral put with index, conditional put, delete, range) *)
Definition ex_cfg : config := mkConfig 7 100.
Definition ex_k (s : list N) : key := s.
Definition ex_req1 : write_req :=
  mkWrite [mkPut (session_key 0) [1] None None None None [] []] [] [].
Definition ex_req2 : write_req :=
  mkWrite [mkPut [97] [118] None (Some 0%Z) None None [] [mkSIndex [105] [107]];
           mkPut [98; 47; 99] [119] (Some (-1)%Z) None None None [] [];
           mkPut [115] [120] None None None (Some [112]) [1; 2]%N []]
          [mkDel [122] None] [].
Definition ex_req3 : write_req :=
  mkWrite [mkPut [97] [121] (Some 1%Z) None None None [] []] [mkDel [98; 47; 99] (Some 2%Z)] [mkRange [114] [116]].
Definition ex_state : state :=
  run ex_cfg [OpWrite ex_req1 0 1000; OpWrite ex_req2 1 1001].

Example ex_user_request : user_request ex_req3.
Proof.
  unfold user_request, ex_req3. simpl. repeat split; repeat constructor.
  apply range_safe_is_user. reflexivity.
Qed.

Example ex_refines :
  exists st' resp, process_write wrapper_callbacks ex_cfg ex_state ex_req3 2 1002 = (st', Ok resp) /\
    map pr_status (wr_puts resp) = [OK] /\ wr_dels resp = [OK] /\ wr_ranges resp = [OK] /\
    uv (st_kv st') [115; 45; 48; 48; 48; 48; 48; 48; 48; 48; 48; 48; 48; 48; 48; 48; 48; 48; 48; 48; 48; 49; 45;
                    48; 48; 48; 48; 48; 48; 48; 48; 48; 48; 48; 48; 48; 48; 48; 48; 48; 48; 48; 50]%N = None /\
    (exists e, uv (st_kv st') [97]%N = Some e /\ e_modcount e = 1%Z /\ e_version e = 4%Z).
Proof. vm_compute. eexists. eexists. repeat split. eexists. repeat split. Qed.

(* ---------------------------------------------------------------- the statements of Properties/C12.v *)
Theorem refines_spec_reachable cfg ops req offset ts st' resp :
  user_request req ->
  process_write wrapper_callbacks cfg (run cfg ops) req offset ts = (st', Ok resp) ->
  exists s', spec_write (abs_state (run cfg ops)) req (map seq_choice_of (wr_puts resp)) ts = (s', resp) /\
             seq_eq (abs_state st') s'.
Proof.
  intros Hu H.
  destruct (refines_spec cfg (run cfg ops) req offset ts st' resp (reachable_wf cfg ops) Hu H) as [s' [E [Q _]]].
  exists s'. split; assumption.
Qed.

Theorem versions_strictly_increase_from_init cb cfg ops st' vs :
  run_hist cb cfg init_state ops = (st', vs) ->
  hist_offsets_ok ops -> (Z.of_nat (hist_puts ops) < TWO63)%Z ->
  increasing_from (-1) vs.
Proof.
  intros H Ho Hb.
  apply (versions_increase_across_restarts cb cfg ops init_state (-1)%Z st' vs H init_ver_consistent Ho).
  - unfold TWO63. lia.
  - change (st_ver init_state) with (-1)%Z. lia.
Qed.

Example ex_history_versions :
  exists st' vs, run_hist wrapper_callbacks ex_cfg init_state
                   [HWrite ex_req1 0 1000; HWrite ex_req2 1 1001; HRestart; HWrite ex_req3 2 1002] = (st', vs)
                 /\ vs = [0; 1; 2; 3; 4]%Z.
Proof. vm_compute. eexists. eexists. split; reflexivity. Qed.
