(* Db/Escape.v — net/url.PathEscape / PathUnescape (Go 1.24, mode encodePathSegment), byte for byte.

   shouldEscape(c, encodePathSegment) is false exactly for
      a-z A-Z 0-9          (unreserved alphanumerics)
      - _ . ~              (unreserved marks)
      $ & + : = @          (reserved characters a path segment may carry)
   and true for everything else, including / ; , ? and all bytes >= 0x80.
   Escaped bytes are written as '%' followed by two UPPER-case hex digits; a space is "%20"
   (the '+' form is used only in query mode). *)
From Coq Require Import List NArith Bool.
From Oxia.Db Require Import Types.
Import ListNotations.
Open Scope N_scope.

Definition is_alnum (c : N) : bool :=
  ((97 <=? c) && (c <=? 122)) || ((65 <=? c) && (c <=? 90)) || ((48 <=? c) && (c <=? 57)).

Definition should_escape (c : N) : bool :=
  if is_alnum c then false
  else if (c =? 45) || (c =? 95) || (c =? 46) || (c =? 126) then false      (* - _ . ~ *)
  else if (c =? 36) || (c =? 38) || (c =? 43) || (c =? 58) || (c =? 61) || (c =? 64) then false  (* $ & + : = @ *)
  else true.

Definition upper_hex_digit (d : N) : N := if d <? 10 then 48 + d else 55 + d.   (* "0123456789ABCDEF" *)

Fixpoint path_escape (s : bytes) : bytes :=
  match s with
  | [] => []
  | c :: tl =>
      if should_escape c
      then 37 :: upper_hex_digit (c / 16) :: upper_hex_digit (c mod 16) :: path_escape tl
      else c :: path_escape tl
  end.

(* ishex / unhex of net/url: both cases accepted *)
Definition unhex (c : N) : option N :=
  if (48 <=? c) && (c <=? 57) then Some (c - 48)
  else if (97 <=? c) && (c <=? 102) then Some (c - 97 + 10)
  else if (65 <=? c) && (c <=? 70) then Some (c - 65 + 10)
  else None.

(* url.PathUnescape: None = EscapeError ('%' not followed by two hex digits) *)
Fixpoint path_unescape (s : bytes) : option bytes :=
  match s with
  | [] => Some []
  | 37 :: h1 :: h2 :: tl =>
      match unhex h1, unhex h2, path_unescape tl with
      | Some a, Some b, Some r => Some (a * 16 + b :: r)
      | _, _, _ => None
      end
  | 37 :: _ => None
  | c :: tl =>
      match path_unescape tl with
      | Some r => Some (c :: r)
      | None => None
      end
  end.
