(* Db/C15_Trim.v — background activity: a round of the notifications trimmer (Db/NotifStream.v [trim] =
   server/kv/notifications_trimmer.go:trimNotifications) leaves the index mirror alone.  Its range tombstone
   [notificationKey(first), notificationKey(trimOffset+1)) only contains keys "__oxia/notifications/...": both
   bounds lie under the two segments "__oxia" "notifications", and the keys under a segment form an interval of
   the key order (C15_Layout.convex_seg).  Anchoring the tombstone at "__oxia/notifications" (without the
   trailing segment) would be wrong: that key sorts before every deeper internal key, the index entries
   included. *)
From Coq Require Import List NArith ZArith Bool Lia.
From Oxia.KeyOrder Require Import Model Proofs.
From Oxia.Db Require Import Types Bytes Keys Kv SortedMap SortedMapProofs KeyFacts Write Read KvProofs Proofs_C12
     NotifStream C15_Layout C15_Inv.
Import ListNotations.
Open Scope N_scope.

Definition notif_seg : bytes := [110; 111; 116; 105; 102; 105; 99; 97; 116; 105; 111; 110; 115].   (* "notifications" *)

Lemma notification_key_segs o : notification_key o = oxia_seg ++ 47 :: notif_seg ++ 47 :: hex16 o.
Proof. reflexivity. Qed.

(* what lies between two notification keys is a key "__oxia/notifications/..." *)
Lemma between_notification_keys a b k :
  key_in_range (Some (notification_key a)) (Some (notification_key b)) k = true ->
  exists r, k = oxia_seg ++ 47 :: notif_seg ++ 47 :: r.
Proof.
  intro R. unfold key_in_range, in_range, SortedMap.leb, SortedMap.ltb in R. apply andb_true_iff in R. destruct R as [R1 R2].
  rewrite !notification_key_segs in R1, R2.
  assert (A : cmp_slash (oxia_seg ++ 47 :: notif_seg ++ 47 :: hex16 a) k <> Gt)
    by (destruct (cmp_slash _ k); [discriminate|discriminate|discriminate R1]).
  assert (B : cmp_slash k (oxia_seg ++ 47 :: notif_seg ++ 47 :: hex16 b) <> Gt)
    by (destruct (cmp_slash k _); try discriminate).
  destruct (convex_seg _ _ _ _ oxia_seg_ok A B) as [r1 [E1 [A1 B1]]].
  assert (Hs : none_of 47 notif_seg) by (repeat constructor; discriminate).
  destruct (convex_seg _ _ _ _ Hs A1 B1) as [r2 [E2 _]]. subst. exists r2. reflexivity.
Qed.

Lemma notif_range_no_idx a b k :
  key_in_range (Some (notification_key a)) (Some (notification_key b)) k = true -> is_idx k = false /\ ~ op_key k.
Proof.
  intro R. destruct (between_notification_keys a b k R) as [r ->]. split.
  - reflexivity.
  - intros [H|[z H]]; [discriminate H|]. apply (f_equal key_tag) in H. rewrite tag_session in H. discriminate H.
Qed.

Lemma inv_del_notif_range m a b :
  inv m -> inv (kv_del_range m (Some (notification_key a)) (Some (notification_key b))).
Proof.
  intro Hi. set (lo := Some (notification_key a)). set (hi := Some (notification_key b)).
  assert (Hs : sorted m) by apply (inv_wf m Hi).
  assert (G : forall x, kv_get (kv_del_range m lo hi) x = if key_in_range lo hi x then None else kv_get m x)
    by (intro x; apply kv_get_del_range; exact Hs).
  apply (inv_transfer m); try assumption.
  - apply wf_del_range. apply (inv_wf m Hi).
  - intros k e Gk Hne. rewrite G in Gk. destruct (key_in_range lo hi k); [discriminate|].
    eapply (inv_int m Hi); eassumption.
  - intros pk si. unfold declares. rewrite G. destruct (key_in_range lo hi pk) eqn:R; [|reflexivity].
    split; [intros [e [H _]]; discriminate|].
    intros [e [Ge Hin]]. exfalso. destruct (notif_range_no_idx a b pk R) as [_ Hn]. apply Hn.
    eapply (inv_int m Hi); [exact Ge|]. intro E. rewrite E in Hin. contradiction.
  - intros x Ix. unfold present. rewrite G. destruct (key_in_range lo hi x) eqn:R; [|reflexivity].
    destruct (notif_range_no_idx a b x R) as [Hx _]. congruence.
Qed.

(* a trimming round, whatever the clock and the retention, preserves the invariant behind the mirror *)
Theorem trim_preserves_inv st now retention : inv (st_kv st) -> inv (st_kv (trim_state st now retention)).
Proof.
  intro Hi. unfold trim_state, trim.
  destruct (first_last (st_kv st)) as [[[first lst]|]|e]; try exact Hi.
  destruct (lst =? -1)%Z; [exact Hi|].
  destruct (ts_at (st_kv st) first) as [tsf|e]; [|exact Hi].
  destruct (now - retention <? tsf)%Z; [exact Hi|].
  destruct (bsearch 70 (st_kv st) first lst (now - retention)) as [t|e]; [|exact Hi].
  simpl. apply inv_del_notif_range. exact Hi.
Qed.

(* ... and neither the entries of any index nor the records they point to change *)
Theorem trim_preserves_index_mirror st now retention :
  inv (st_kv st) ->
  let st' := trim_state st now retention in
  inv (st_kv st') /\
  (forall k, is_idx k = true -> kv_get (st_kv st') k = kv_get (st_kv st) k) /\
  (forall pk si, declares (st_kv st') pk si <-> declares (st_kv st) pk si).
Proof.
  intros Hi st'. split; [apply trim_preserves_inv; exact Hi|].
  assert (Hs : sorted (st_kv st)) by apply (inv_wf _ Hi).
  assert (E : st_kv st' = st_kv st \/ exists a b, st_kv st' = kv_del_range (st_kv st) (Some (notification_key a)) (Some (notification_key b))).
  { unfold st', trim_state, trim.
    destruct (first_last (st_kv st)) as [[[first lst]|]|e]; try (left; reflexivity).
    destruct (lst =? -1)%Z; [left; reflexivity|].
    destruct (ts_at (st_kv st) first) as [tsf|e]; [|left; reflexivity].
    destruct (now - retention <? tsf)%Z; [left; reflexivity|].
    destruct (bsearch 70 (st_kv st) first lst (now - retention)) as [t|e]; [|left; reflexivity].
    right. eexists. eexists. reflexivity. }
  destruct E as [E|[a [b E]]]; rewrite E.
  - split; [reflexivity|]. reflexivity.
  - split.
    + intros k Ik. rewrite kv_get_del_range by exact Hs.
      destruct (key_in_range _ _ k) eqn:R; [|reflexivity].
      destruct (notif_range_no_idx a b k R) as [Hx _]. congruence.
    + intros pk si. unfold declares. rewrite kv_get_del_range by exact Hs.
      destruct (key_in_range _ _ pk) eqn:R; [|reflexivity].
      split; [intros [e [H _]]; discriminate|].
      intros [e [Ge Hin]]. exfalso. destruct (notif_range_no_idx a b pk R) as [_ Hn]. apply Hn.
      eapply (inv_int _ Hi); [exact Ge|]. intro E'. rewrite E' in Hin. contradiction.
Qed.

(* the anchor matters: "__oxia/notifications" (no trailing segment) sorts BEFORE an index entry, which sorts
   before every notification key: a tombstone starting there would cover the index entries *)
Example prefix_anchor_would_cover_index_entries :
  key_in_range (Some (oxia_seg ++ 47 :: notif_seg)) (Some (notification_key 5))
               (index_key [112] (mkSIndex [97] [107])) = true.
Proof. reflexivity. Qed.
