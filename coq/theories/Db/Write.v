(* Db/Write.v — server/kv/db.go write path: ProcessWrite, applyWriteRequest, applyPut, applyDelete,
   applyDeleteRange, checkExpectedVersionId, addASCIILong, UpdateTerm, EnableNotifications.

   The Go code mutates an indexed Pebble batch (reads see earlier writes of the same batch) and commits it
   at the end.  Here the batch is the working copy [w_kv]; "commit" is installing it as the new [st_kv].
   What survives a failed request is exactly what the Go code leaves behind: the in-memory version counter
   ([versionIdTracker.Add(1)] is not rolled back).  The sequence waiters are told about the generated keys
   after Commit only (repair of O-16): a failed request publishes nothing. *)
From Coq Require Import List NArith ZArith Bool.
From Oxia.Db Require Import Types Bytes Keys Kv Sequences Notifications.
Import ListNotations.

(* DB state.  [st_notif_last] is notificationsTracker.lastOffset (only the read path looks at it). *)
Record state := mkState {
  st_kv : kvmap;
  st_ver : Z;                 (* db.versionIdTracker (in memory) *)
  st_notif : bool;            (* db.notificationsEnabled *)
  st_notif_last : Z
}.

Record config := mkConfig {
  cfg_shard : Z;              (* db.shardId, copied into every notification batch *)
  cfg_threshold : nat         (* DeleteRangeThreshold (100 in the code) *)
}.

(* kv.NewDB on an empty store *)
Definition init_state : state := mkState [] (-1)%Z true (-1)%Z.

(* the state of one request in flight *)
Record wstate := mkW {
  w_kv : kvmap;
  w_ver : Z;
  w_nm : option nmap;
  w_events : list (key * key)     (* applyWriteRequest's sequenceUpdates (prefix, newKey), oldest first:
                                     published with SequenceUpdated after Commit *)
}.

Definition set_kv (w : wstate) (b : kvmap) : wstate := mkW b (w_ver w) (w_nm w) (w_events w).
Definition add_event (w : wstate) (prefix newk : key) : wstate :=
  mkW (w_kv w) (w_ver w) (w_nm w) (w_events w ++ [(prefix, newk)]).

(* ---- checkExpectedVersionId ---- *)
Inductive check_result :=
| CkOk (existing : option entry)
| CkBadVersion
| CkErr (e : err_kind).

Definition check_expected (b : kvmap) (k : key) (expected : option Z) : check_result :=
  match get_entry b k with
  | Err e => CkErr e
  | Ok None =>
      match expected with
      | None => CkOk None
      | Some v => if (v =? -1)%Z then CkOk None else CkBadVersion
      end
  | Ok (Some e) =>
      match expected with
      | None => CkOk (Some e)
      | Some v => if (e_version e =? v)%Z then CkOk (Some e) else CkBadVersion
      end
  end.

(* ---- applyPut ---- *)
Definition set_key (p : put_req) (k : key) : put_req :=
  mkPut k (p_value p) (p_expected p) (p_session p) (p_identity p) (p_partition p) (p_deltas p) (p_indexes p).

(* the StorageEntry written: fresh when [existing] is nil, otherwise the existing one updated in place *)
Definition stored_entry (existing : option entry) (p : put_req) (ver : Z) (ts : N) : entry :=
  match existing with
  | None => mkEntry (p_value p) ver 0 ts ts (p_session p) (p_identity p) (p_partition p) (p_indexes p)
  | Some e => mkEntry (p_value p) ver (wrap64 (e_modcount e + 1)) (e_ctime e) ts
                      (p_session p) (p_identity p) (p_partition p) (p_indexes p)
  end.

(* second half of applyPut for a user put whose version check passed: callback, version id, write *)
Definition finish_put (cb : callbacks) (w : wstate) (p : put_req) (existing : option entry)
           (new_key : option key) (ts : N) : wstate * result put_resp :=
  match cb_on_put cb (w_kv w) p existing with
  | Err e => (w, Err e)
  | Ok (OK, b1) =>
      let ver := wrap64 (w_ver w + 1) in                       (* versionIdTracker.Add(1) *)
      let e' := stored_entry existing p ver ts in
      let b2 := kv_put b1 (p_key p) (VRecord e') in
      (mkW b2 ver (notif_modified (w_nm w) (p_key p) ver (e_modcount e')) (w_events w),
       Ok (mkPutResp OK (Some (version_of e')) new_key))
  | Ok (st, b1) => (set_kv w b1, Ok (put_status st))
  end.

Definition apply_put (cb : callbacks) (w : wstate) (p : put_req) (ts : N) : wstate * result put_resp :=
  match p_deltas p with
  | _ :: _ =>
      (* sequential key: no version check, [se] stays nil (the put always "creates").
         applyWriteRequest records (prefix, newKey) when the response carries a key, i.e. when the record
         was stored *)
      match generate_key (w_kv w) p with
      | SeqErr e => (w, Err e)
      | SeqBadVersion => (w, Ok (put_status UNEXPECTED_VERSION_ID))
      | SeqOk nk =>
          match finish_put cb w (set_key p nk) None (Some nk) ts with
          | (w1, Ok r) =>
              (match pr_key r with Some k => add_event w1 (p_key p) k | None => w1 end, Ok r)
          | (w1, Err e) => (w1, Err e)
          end
      end
  | [] =>
      match check_expected (w_kv w) (p_key p) (p_expected p) with
      | CkBadVersion => (w, Ok (put_status UNEXPECTED_VERSION_ID))
      | CkErr e => (w, Err e)
      | CkOk existing => finish_put cb w p existing None ts
      end
  end.

(* applyPut(internal = true) as used by addASCIILong / UpdateTerm: no check, no callback, version -1,
   always a fresh entry *)
Definition internal_put (b : kvmap) (k : key) (v : bytes) (ts : N) : kvmap :=
  kv_put b k (VRecord (mkEntry v (-1) 0 ts ts None None None [])).

(* ---- applyDelete ---- *)
Definition apply_delete (cb : callbacks) (w : wstate) (d : del_req) : wstate * result status :=
  match check_expected (w_kv w) (d_key d) (d_expected d) with
  | CkBadVersion => (w, Ok UNEXPECTED_VERSION_ID)
  | CkErr e => (w, Err e)
  | CkOk None => (w, Ok KEY_NOT_FOUND)
  | CkOk (Some _) =>
      match cb_on_delete cb (w_kv w) (d_key d) with
      | Err e => (w, Err e)
      | Ok b1 =>
          (mkW (kv_del b1 (d_key d)) (w_ver w) (notif_deleted (w_nm w) (d_key d)) (w_events w), Ok OK)
      end
  end.

(* ---- applyDeleteRange ----
   batch.RangeScan(start, end) always passes both bounds to Pebble ([]byte(start), []byte(end)), so an
   empty end is the bound "" (nothing lies below it) - unlike kv.KV.RangeScan, where "" means unbounded.
   NOT MODELLED (nondeterministic in the code, see README "empty bounds"): for start = end = "" Pebble keeps
   or drops the empty upper bound depending on the state of a pooled buffer.
   The iterator is a snapshot of the batch taken before the loop; the callbacks only delete other keys. *)
Fixpoint scan_callbacks (cb : callbacks) (b : kvmap) (scanned : kvmap) : result kvmap :=
  match scanned with
  | [] => Ok b
  | (k, v) :: tl =>
      match deserialize v with
      | Err e => Err e
      | Ok e =>
          match cb_on_delete_with_entry cb b k e with
          | Err x => Err x
          | Ok b1 => scan_callbacks cb b1 tl
          end
      end
  end.

Definition delete_keys (b : kvmap) (ks : list key) : kvmap := fold_left kv_del ks b.

Definition apply_delete_range (cb : callbacks) (threshold : nat) (w : wstate) (r : range_req)
  : wstate * result status :=
  let nm := notif_deleted_range (w_nm w) (r_start r) (r_end r) in
  let lo := Some (r_start r) in
  let hi := Some (r_end r) in
  let scanned := kv_range (w_kv w) lo hi in
  match scan_callbacks cb (w_kv w) scanned with
  | Err e => (w, Err e)
  | Ok b1 =>
      let b2 := if (threshold <? length scanned)%nat
                then kv_del_range b1 lo hi                              (* batch.DeleteRange *)
                else delete_keys b1 (map fst (firstn threshold scanned)) (* one batch.Delete per key *)
      in (mkW b2 (w_ver w) nm (w_events w), Ok OK)
  end.

(* ---- applyWriteRequest: puts, then deletes, then delete-ranges; the first error aborts ---- *)
Fixpoint apply_puts (cb : callbacks) (w : wstate) (ps : list put_req) (ts : N)
  : wstate * result (list put_resp) :=
  match ps with
  | [] => (w, Ok [])
  | p :: tl =>
      match apply_put cb w p ts with
      | (w1, Err e) => (w1, Err e)
      | (w1, Ok r) =>
          match apply_puts cb w1 tl ts with
          | (w2, Err e) => (w2, Err e)
          | (w2, Ok rs) => (w2, Ok (r :: rs))
          end
      end
  end.

Fixpoint apply_deletes (cb : callbacks) (w : wstate) (ds : list del_req) : wstate * result (list status) :=
  match ds with
  | [] => (w, Ok [])
  | d :: tl =>
      match apply_delete cb w d with
      | (w1, Err e) => (w1, Err e)
      | (w1, Ok r) =>
          match apply_deletes cb w1 tl with
          | (w2, Err e) => (w2, Err e)
          | (w2, Ok rs) => (w2, Ok (r :: rs))
          end
      end
  end.

Fixpoint apply_ranges (cb : callbacks) (threshold : nat) (w : wstate) (rs : list range_req)
  : wstate * result (list status) :=
  match rs with
  | [] => (w, Ok [])
  | r :: tl =>
      match apply_delete_range cb threshold w r with
      | (w1, Err e) => (w1, Err e)
      | (w1, Ok x) =>
          match apply_ranges cb threshold w1 tl with
          | (w2, Err e) => (w2, Err e)
          | (w2, Ok xs) => (w2, Ok (x :: xs))
          end
      end
  end.

Definition apply_write_request (cb : callbacks) (threshold : nat) (w : wstate) (req : write_req) (ts : N)
  : wstate * result write_resp :=
  match apply_puts cb w (w_puts req) ts with
  | (w1, Err e) => (w1, Err e)
  | (w1, Ok prs) =>
      match apply_deletes cb w1 (w_dels req) with
      | (w2, Err e) => (w2, Err e)
      | (w2, Ok drs) =>
          match apply_ranges cb threshold w2 (w_ranges req) with
          | (w3, Err e) => (w3, Err e)
          | (w3, Ok rrs) => (w3, Ok (mkWriteResp prs drs rrs))
          end
      end
  end.

(* ---- ProcessWrite ---- *)
Definition start_write (st : state) : wstate :=
  mkW (st_kv st) (st_ver st) (if st_notif st then Some [] else None) [].

(* the trailing internal puts and the notification batch, then Commit *)
Definition commit_write (cfg : config) (st : state) (w : wstate) (offset : Z) (ts : N) : state :=
  let b1 := internal_put (w_kv w) commit_offset_key (ascii_of_Z offset) ts in
  let b2 := internal_put b1 last_version_key (ascii_of_Z (w_ver w)) ts in
  match w_nm w with
  | Some nm =>
      mkState (kv_put b2 (notification_key offset) (VNotif (mkNBatch (cfg_shard cfg) offset ts nm)))
              (w_ver w) (st_notif st) offset             (* notificationsTracker.UpdatedCommitOffset *)
  | None => mkState b2 (w_ver w) (st_notif st) (st_notif_last st)
  end.

(* result: new state, response or error, sequence-waiter events (SequenceUpdated calls, after Commit) *)
Definition process_write_full (cb : callbacks) (cfg : config) (st : state) (req : write_req)
           (offset : Z) (ts : N) : state * result write_resp * list (key * key) :=
  match apply_write_request cb (cfg_threshold cfg) (start_write st) req ts with
  | (w, Err e) =>
      (* batch dropped; the version counter keeps what it was bumped to *)
      (mkState (st_kv st) (w_ver w) (st_notif st) (st_notif_last st), Err e, [])
  | (w, Ok resp) => (commit_write cfg st w offset ts, Ok resp, w_events w)
  end.

Definition process_write (cb : callbacks) (cfg : config) (st : state) (req : write_req)
           (offset : Z) (ts : N) : state * result write_resp :=
  fst (process_write_full cb cfg st req offset ts).

(* ---- UpdateTerm / EnableNotifications ----
   UpdateTerm stamps the two term keys with the wall clock (now()); [ts] stands for that reading (the
   harness masks the two timestamp fields of these keys). It does not touch notificationsEnabled. *)
Definition update_term (st : state) (term : Z) (notifications_enabled : bool) (ts : N) : state :=
  let b1 := internal_put (st_kv st) term_key (ascii_of_Z term) ts in
  let b2 := internal_put b1 term_options_key (term_options_json notifications_enabled) ts in
  mkState b2 (st_ver st) (st_notif st) (st_notif_last st).

Definition enable_notifications (st : state) (enabled : bool) : state :=
  mkState (st_kv st) (st_ver st) enabled (st_notif_last st).
