(* Db/SortedMap.v — the ordered map Pebble presents to db.go, as a strictly sorted association list over
   an abstract three-way comparison [cmp] (instantiated with KeyOrder.cmp_slash in Db/Kv.v).

   What is modelled (assumption "Pebble is an ordered map with atomic indexed batches, given a lawful
   comparer", DESIGN 3):
     point reads/writes            sm_get / sm_put / sm_del
     bounded iteration             sm_range lo hi   : all entries with lo <= k < hi, in order
     range tombstone               sm_del_range
     SeekLT+Last / First+bounds    sm_lower / sm_floor / sm_ceiling / sm_higher
   Bounds are [option key]: [None] = no bound.  A bound that IS present and empty is an ordinary bound
   (nothing is below the empty key).  Range selection is a [filter] over the whole list on purpose: it is
   literally "the entries whose key lies in [lo, hi)" and does not rely on sortedness, which keeps the
   statement of delete-range exactness independent of the order lemmas.  Lemmas: Db/SortedMapProofs.v. *)
From Coq Require Import List Bool.
From Oxia.Db Require Import Types.
Import ListNotations.

Section SortedMap.
  Variable cmp : key -> key -> comparison.
  Variable V : Type.

  Definition smap := list (key * V).

  Definition ltb (a b : key) : bool := match cmp a b with Lt => true | _ => false end.
  Definition leb (a b : key) : bool := match cmp a b with Gt => false | _ => true end.

  Fixpoint sm_get (m : smap) (k : key) : option V :=
    match m with
    | [] => None
    | (k', v) :: tl =>
        match cmp k k' with
        | Eq => Some v
        | Lt => None
        | Gt => sm_get tl k
        end
    end.

  Fixpoint sm_put (m : smap) (k : key) (v : V) : smap :=
    match m with
    | [] => [(k, v)]
    | (k', v') :: tl =>
        match cmp k k' with
        | Eq => (k, v) :: tl
        | Lt => (k, v) :: m
        | Gt => (k', v') :: sm_put tl k v
        end
    end.

  Fixpoint sm_del (m : smap) (k : key) : smap :=
    match m with
    | [] => []
    | (k', v') :: tl =>
        match cmp k k' with
        | Eq => tl
        | Lt => m
        | Gt => (k', v') :: sm_del tl k
        end
    end.

  (* lo <= k < hi, a missing bound is no constraint *)
  Definition in_range (lo hi : option key) (k : key) : bool :=
    (match lo with None => true | Some l => leb l k end) &&
    (match hi with None => true | Some h => ltb k h end).

  Definition sm_range (m : smap) (lo hi : option key) : smap :=
    filter (fun kv => in_range lo hi (fst kv)) m.

  Definition sm_del_range (m : smap) (lo hi : option key) : smap :=
    filter (fun kv => negb (in_range lo hi (fst kv))) m.

  (* greatest entry with key < k   (iterator with UpperBound = k, Last()) *)
  Definition sm_lower (m : smap) (k : key) : option (key * V) :=
    fold_left (fun acc kv => if ltb (fst kv) k then Some kv else acc) m None.

  (* least entry with key >= k   (iterator with LowerBound = k, First()) *)
  Definition sm_ceiling (m : smap) (k : key) : option (key * V) :=
    find (fun kv => leb k (fst kv)) m.

  (* least entry with key > k *)
  Definition sm_higher (m : smap) (k : key) : option (key * V) :=
    find (fun kv => ltb k (fst kv)) m.

  (* exact match, else the greatest below (kv_pebble.go:getFloor) *)
  Definition sm_floor (m : smap) (k : key) : option (key * V) :=
    match sm_get m k with
    | Some v => Some (k, v)
    | None => sm_lower m k
    end.

  Definition sm_keys (m : smap) : list key := map fst m.
End SortedMap.

Arguments sm_get cmp {V}.
Arguments sm_put cmp {V}.
Arguments sm_del cmp {V}.
Arguments sm_range cmp {V}.
Arguments sm_del_range cmp {V}.
Arguments sm_lower cmp {V}.
Arguments sm_ceiling cmp {V}.
Arguments sm_higher cmp {V}.
Arguments sm_floor cmp {V}.
Arguments sm_keys {V}.
