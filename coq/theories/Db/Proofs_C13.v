(* Db/Proofs_C13.v — C13: every request accepted into the log can be applied by every replica.

   1. [total_refuted_*]: applying a request is NOT total on the DB ([process_write] = kv.DB.ProcessWrite): one
      reachable state + request per error class (O-10).  The first four classes are still errors of the DB
      after the repair (the suite pins three of them as errors of ProcessWrite); the repair keeps them out
      of the log: [validate_request] (Db/Validate.v) is run by the leader before an offset is assigned.
      [total_old_refuted_scan]: the fifth class on the code as it was (a non-numeric suffix now yields the
      per-operation status UNEXPECTED_VERSION_ID).
   2. [poison_blocks_replay]: once an entry that fails is in the log, every restart + replay stops at that
      entry, in the same stored state: the commit offset never passes it, BecomeLeader fails every time,
      a follower's apply loop ends every time.
   3. [total_validated_partial]: in every reachable state (any history, hostile requests of the past
      included) a request accepted by [validate_request] is applied with a per-operation status, or fails
      with EMissingSequenceDeltas — the one class that is left (known finding: state dependent, and pinned
      as an error of ProcessWrite by TestDB_SequentialKeys).  [total_validated_no_sequence]: without sequence
      puts it is total.  [missing_deltas_refuted]: the remaining class is real.
   4. [leader_*]: the leader's write entry logs nothing for a rejected request, and an entry it logs can
      only fail with that class. *)
From Coq Require Import List NArith ZArith Bool Lia.
From Oxia.KeyOrder Require Import Model Proofs.
From Oxia.Db Require Import Types Bytes Escape Keys Kv Sessions Indexes Sequences Notifications Write Read
  SortedMap SortedMapProofs KeyFacts KvProofs NumProofs Spec Proofs_C12 Validate C16_Old C13_Replay.
Import ListNotations.

(* ================================================================ validation *)
Lemma range_excludes_is_safeb s e : range_excludes_internal s e = range_safeb s e.
Proof. reflexivity. Qed.

Lemma validate_put_user p : validate_put p = true -> is_internal (p_key p) = false.
Proof. unfold validate_put. intro H. apply andb_true_iff in H. destruct H as [H _]. apply negb_true_iff in H. exact H. Qed.

Lemma validate_range_user r : validate_range r = true -> range_user r.
Proof.
  unfold validate_range. intro H. apply andb_true_iff in H. destruct H as [_ H].
  rewrite range_excludes_is_safeb in H. destruct r as [s e]. apply range_safe_is_user. exact H.
Qed.

Theorem validate_user_request req : validate_request req = true -> user_request req.
Proof.
  unfold validate_request, user_request. intro H.
  apply andb_true_iff in H. destruct H as [H Hr]. apply andb_true_iff in H. destruct H as [Hp Hd].
  rewrite forallb_forall in Hp, Hd, Hr. repeat split; apply Forall_forall; intros x Hx.
  - apply validate_put_user, Hp, Hx.
  - specialize (Hd x Hx). unfold validate_delete in Hd. apply negb_true_iff in Hd. exact Hd.
  - apply validate_range_user, Hr, Hx.
Qed.

(* ================================================================ totality on well-formed maps *)
(* the loop over the deltas can only fail at index 0, on a zero delta *)
Lemma seq_loop_err deltas : forall idx parts acc e,
  seq_loop idx deltas parts acc = SeqErr e -> idx = 0%nat /\ exists rest, deltas = 0%N :: rest.
Proof.
  induction deltas as [|d tl IH]; simpl; intros idx parts acc e H; [discriminate|].
  destruct (Nat.eqb idx 0 && (d =? 0)%N) eqn:C.
  - apply andb_true_iff in C. destruct C as [C1 C2]. apply Nat.eqb_eq in C1. apply N.eqb_eq in C2. subst.
    split; [reflexivity|]. eexists. reflexivity.
  - destruct (match nth_error parts idx with Some part => scan20 part | None => Some 0%N end) as [lastv|]; [|discriminate].
    destruct (((lastv + d) mod U64 <? lastv)%N || (Nat.eqb idx 0 && ((lastv + d) mod U64 =? MAX_SEQUENCE)%N)); [discriminate|].
    apply IH in H. destruct H as [H _]. discriminate.
Qed.

Lemma generate_key_validated b p e d0 dtl :
  validate_put p = true -> p_deltas p = d0 :: dtl -> generate_key b p = SeqErr e -> e = EMissingSequenceDeltas.
Proof.
  unfold validate_put, generate_key. intros V D H. apply andb_true_iff in V. destruct V as [_ V].
  rewrite D in *. apply andb_true_iff in V. destruct V as [Vp Vd].
  destruct (p_partition p); [|discriminate]. destruct (p_expected p); [discriminate|].
  destruct (current_last_parts b (p_key p) (length (d0 :: dtl))) as [parts|e'] eqn:C.
  - destruct (seq_loop 0 (d0 :: dtl) parts (p_key p)) as [nk| |e0] eqn:L.
    + destruct (current_last_key b (p_key p)) as [|c lk]; [discriminate|].
      destruct (cmp_slash nk (c :: lk)); discriminate.
    + discriminate.
    + apply seq_loop_err in L. destruct L as [_ [rest Hr]]. inversion Hr; subst.
      apply negb_true_iff in Vd. discriminate.
  - unfold current_last_parts in C.
    match type of C with (if ?c then _ else _) = _ => destruct c end; [|discriminate].
    inversion C; subst. inversion H; reflexivity.
Qed.

Definition ok_or_missing {A} (r : result A) : Prop := (exists a, r = Ok a) \/ r = Err EMissingSequenceDeltas.

Lemma finish_put_total w p ex rk ts : wf_kv (w_kv w) -> exists r, snd (finish_put wrapper_callbacks w p ex rk ts) = Ok r.
Proof.
  intro Hw. unfold finish_put. cbn [cb_on_put wrapper_callbacks]. destruct (wrapper_on_put_spec (w_kv w) p ex Hw) as [b1 [_ E]]. rewrite E.
  destruct (match p_session p with
            | Some z => if alive (w_kv w) z then OK else SESSION_DOES_NOT_EXIST
            | None => OK end); simpl; eauto.
Qed.

Lemma apply_put_total w p ts :
  wf_kv (w_kv w) -> validate_put p = true -> ok_or_missing (snd (apply_put wrapper_callbacks w p ts)).
Proof.
  intros Hw V. pose proof (validate_put_user p V) as Hi. unfold apply_put.
  destruct (p_deltas p) as [|d0 dtl] eqn:D.
  - rewrite (check_expected_user _ _ (p_expected p) Hw Hi).
    destruct (spec_check (uv (w_kv w) (p_key p)) (p_expected p)).
    + left. apply finish_put_total. exact Hw.
    + left. simpl. eauto.
  - destruct (generate_key (w_kv w) p) as [nk| |e] eqn:G.
    + destruct (finish_put_total w (set_key p nk) None (Some nk) ts Hw) as [r Hr].
      destruct (finish_put wrapper_callbacks w (set_key p nk) None (Some nk) ts) as [w1 [r1|e1]]; simpl in *;
        [left; eauto|discriminate].
    + left. simpl. eauto.
    + right. simpl. rewrite (generate_key_validated _ _ _ _ _ V D G). reflexivity.
Qed.

Lemma apply_put_total_noseq w p ts :
  wf_kv (w_kv w) -> validate_put p = true -> p_deltas p = [] -> exists r, snd (apply_put wrapper_callbacks w p ts) = Ok r.
Proof.
  intros Hw V D. pose proof (validate_put_user p V) as Hi. unfold apply_put. rewrite D.
  rewrite (check_expected_user _ _ (p_expected p) Hw Hi).
  destruct (spec_check (uv (w_kv w) (p_key p)) (p_expected p)); [apply finish_put_total; exact Hw|simpl; eauto].
Qed.

Lemma apply_delete_total w d :
  wf_kv (w_kv w) -> is_internal (d_key d) = false -> exists r, snd (apply_delete wrapper_callbacks w d) = Ok r.
Proof.
  intros Hw Hi. unfold apply_delete. rewrite (check_expected_user _ _ (d_expected d) Hw Hi).
  destruct (spec_check (uv (w_kv w) (d_key d)) (d_expected d)); [|simpl; eauto].
  destruct (uv (w_kv w) (d_key d)) as [e|] eqn:U; [|simpl; eauto].
  destruct (wrapper_on_delete_spec (w_kv w) (d_key d) e Hw Hi U) as [b' [E _]].
  cbn [cb_on_delete wrapper_callbacks]. rewrite E. simpl. eauto.
Qed.

Lemma apply_puts_total ps : forall w ts,
  wf_kv (w_kv w) -> forallb validate_put ps = true -> ok_or_missing (snd (apply_puts wrapper_callbacks w ps ts)).
Proof.
  induction ps as [|p tl IH]; simpl; intros w ts Hw V; [left; eauto|].
  apply andb_true_iff in V. destruct V as [Vp Vt].
  pose proof (apply_put_total w p ts Hw Vp) as T. pose proof (apply_put_wf w p ts Hw) as W.
  destruct (apply_put wrapper_callbacks w p ts) as [w1 [r|e]]; simpl in *.
  - pose proof (IH w1 ts W Vt) as T2.
    destruct (apply_puts wrapper_callbacks w1 tl ts) as [w2 [rs|e]]; simpl in *; [left; eauto|].
    destruct T2 as [[a Ha]|Ha]; [discriminate|]. right. exact Ha.
  - destruct T as [[a Ha]|Ha]; [discriminate|]. right. inversion Ha; reflexivity.
Qed.

Lemma apply_puts_total_noseq ps : forall w ts,
  wf_kv (w_kv w) -> forallb validate_put ps = true -> Forall (fun p => p_deltas p = []) ps ->
  exists rs, snd (apply_puts wrapper_callbacks w ps ts) = Ok rs.
Proof.
  induction ps as [|p tl IH]; simpl; intros w ts Hw V N; [eauto|].
  apply andb_true_iff in V. destruct V as [Vp Vt]. inversion N as [|? ? Np Nt]; subst.
  destruct (apply_put_total_noseq w p ts Hw Vp Np) as [r T]. pose proof (apply_put_wf w p ts Hw) as W.
  destruct (apply_put wrapper_callbacks w p ts) as [w1 [r1|e]]; simpl in *; [|discriminate].
  destruct (IH w1 ts W Vt Nt) as [rs T2].
  destruct (apply_puts wrapper_callbacks w1 tl ts) as [w2 [rs2|e]]; simpl in *; [eauto|discriminate].
Qed.

Lemma apply_deletes_total ds : forall w,
  wf_kv (w_kv w) -> forallb validate_delete ds = true -> exists rs, snd (apply_deletes wrapper_callbacks w ds) = Ok rs.
Proof.
  induction ds as [|d tl IH]; simpl; intros w Hw V; [eauto|].
  apply andb_true_iff in V. destruct V as [Vd Vt]. unfold validate_delete in Vd. apply negb_true_iff in Vd.
  destruct (apply_delete_total w d Hw Vd) as [r T]. pose proof (apply_delete_wf w d Hw) as W.
  destruct (apply_delete wrapper_callbacks w d) as [w1 [r1|e]]; simpl in *; [|discriminate].
  destruct (IH w1 W Vt) as [rs T2].
  destruct (apply_deletes wrapper_callbacks w1 tl) as [w2 [rs2|e]]; simpl in *; [eauto|discriminate].
Qed.

Lemma apply_ranges_total threshold rs : forall w,
  wf_kv (w_kv w) -> forallb validate_range rs = true ->
  exists xs, snd (apply_ranges wrapper_callbacks threshold w rs) = Ok xs.
Proof.
  induction rs as [|r tl IH]; simpl; intros w Hw V; [eauto|].
  apply andb_true_iff in V. destruct V as [Vr Vt].
  destruct (delete_range_exact threshold w r Hw (validate_range_user r Vr)) as [w1 [E _]].
  pose proof (apply_delete_range_wf threshold w r Hw) as W. rewrite E in *. simpl in W.
  destruct (IH w1 W Vt) as [xs T2].
  destruct (apply_ranges wrapper_callbacks threshold w1 tl) as [w2 [xs2|e]]; simpl in *; [eauto|discriminate].
Qed.

Lemma snd_process_write cb cfg st req o ts :
  snd (process_write cb cfg st req o ts) = snd (apply_write_request cb (cfg_threshold cfg) (start_write st) req ts).
Proof.
  unfold process_write, process_write_full.
  destruct (apply_write_request cb (cfg_threshold cfg) (start_write st) req ts) as [w [r|e]]; reflexivity.
Qed.

(* a validated request on a well-formed store: per-operation statuses, or the one remaining class *)
Theorem total_validated_wf cfg st req o ts :
  wf_kv (st_kv st) -> validate_request req = true ->
  ok_or_missing (snd (process_write wrapper_callbacks cfg st req o ts)).
Proof.
  intros Hw V. rewrite snd_process_write. unfold apply_write_request.
  unfold validate_request in V. apply andb_true_iff in V. destruct V as [V Vr]. apply andb_true_iff in V. destruct V as [Vp Vd].
  pose proof (apply_puts_total (w_puts req) (start_write st) ts Hw Vp) as T1.
  pose proof (apply_puts_wf (w_puts req) (start_write st) ts Hw) as W1.
  destruct (apply_puts wrapper_callbacks (start_write st) (w_puts req) ts) as [w1 [prs|e]]; simpl in *.
  - destruct (apply_deletes_total (w_dels req) w1 W1 Vd) as [drs T2].
    pose proof (apply_deletes_wf (w_dels req) w1 W1) as W2.
    destruct (apply_deletes wrapper_callbacks w1 (w_dels req)) as [w2 [drs2|e]]; simpl in *; [|discriminate].
    destruct (apply_ranges_total (cfg_threshold cfg) (w_ranges req) w2 W2 Vr) as [rrs T3].
    destruct (apply_ranges wrapper_callbacks (cfg_threshold cfg) w2 (w_ranges req)) as [w3 [rrs2|e]]; simpl in *; [|discriminate].
    left. eauto.
  - destruct T1 as [[a Ha]|Ha]; [discriminate|]. right. inversion Ha; reflexivity.
Qed.

Theorem total_validated_partial cfg ops req o ts :
  validate_request req = true ->
  ok_or_missing (snd (process_write wrapper_callbacks cfg (run cfg ops) req o ts)).
Proof. intro V. apply total_validated_wf; [apply reachable_wf|exact V]. Qed.

Definition no_sequence_puts (req : write_req) : Prop := Forall (fun p => p_deltas p = []) (w_puts req).

Theorem total_validated_no_sequence cfg ops req o ts :
  validate_request req = true -> no_sequence_puts req ->
  exists resp, snd (process_write wrapper_callbacks cfg (run cfg ops) req o ts) = Ok resp.
Proof.
  intros V N. rewrite snd_process_write. unfold apply_write_request.
  pose proof (reachable_wf cfg ops) as Hw.
  unfold validate_request in V. apply andb_true_iff in V. destruct V as [V Vr]. apply andb_true_iff in V. destruct V as [Vp Vd].
  destruct (apply_puts_total_noseq (w_puts req) (start_write (run cfg ops)) ts Hw Vp N) as [prs T1].
  pose proof (apply_puts_wf (w_puts req) (start_write (run cfg ops)) ts Hw) as W1.
  destruct (apply_puts wrapper_callbacks (start_write (run cfg ops)) (w_puts req) ts) as [w1 [prs1|e]]; simpl in *; [|discriminate].
  destruct (apply_deletes_total (w_dels req) w1 W1 Vd) as [drs T2].
  pose proof (apply_deletes_wf (w_dels req) w1 W1) as W2.
  destruct (apply_deletes wrapper_callbacks w1 (w_dels req)) as [w2 [drs2|e]]; simpl in *; [|discriminate].
  destruct (apply_ranges_total (cfg_threshold cfg) (w_ranges req) w2 W2 Vr) as [rrs T3].
  destruct (apply_ranges wrapper_callbacks (cfg_threshold cfg) w2 (w_ranges req)) as [w3 [rrs2|e]]; simpl in *; [|discriminate].
  eauto.
Qed.

(* ================================================================ refutations (witnesses, evaluated) *)
Definition bs (s : list N) : bytes := s.
Definition k_s : key := [115]%N.                                  (* "s" *)
Definition k_a : key := [97]%N.                                   (* "a" *)
Definition c13_cfg : config := mkConfig 1 100.
Definition seq_put (k : key) (part : option bytes) (deltas : list N) : put_req :=
  mkPut k [118]%N None None None part deltas [].
Definition plain_put (k : key) : put_req := mkPut k [118]%N None None None None [] [].
Definition puts_req (ps : list put_req) : write_req := mkWrite ps [] [].
Definition pk : option bytes := Some [112]%N.

Definition err_of (cfg : config) (ops : list db_op) (req : write_req) : option err_kind :=
  match snd (process_write wrapper_callbacks cfg (run cfg ops) req (Z.of_nat (length ops)) 7%N) with
  | Ok _ => None
  | Err e => Some e
  end.

(* 1. sequence put without partition key (content only) *)
Theorem total_refuted_missing_partition_key :
  exists cfg ops req, err_of cfg ops req = Some EMissingPartitionKey.
Proof. exists c13_cfg, [], (puts_req [seq_put k_s None [1%N]]). vm_compute. reflexivity. Qed.

(* 2. first delta zero (content only) *)
Theorem total_refuted_delta_zero :
  exists cfg ops req, err_of cfg ops req = Some ESequenceDeltaIsZero.
Proof. exists c13_cfg, [], (puts_req [seq_put k_s pk [0%N; 1%N]]). vm_compute. reflexivity. Qed.

(* 3. fewer deltas than the last key of the sequence has suffixes (state dependent; the request passes validation) *)
Definition ops_two_parts : list db_op := [OpWrite (puts_req [seq_put k_s pk [1%N; 1%N]]) 0 5%N].
Theorem missing_deltas_refuted :
  exists cfg ops req, validate_request req = true /\ err_of cfg ops req = Some EMissingSequenceDeltas.
Proof. exists c13_cfg, ops_two_parts, (puts_req [seq_put k_s pk [1%N]]). vm_compute. split; reflexivity. Qed.

(* 4. a delete-range that sweeps the internal keys meets a notification batch (state dependent; refused by validation).
      ["A/", "z/") looks like a user range. *)
Definition ops_one_put : list db_op := [OpWrite (puts_req [plain_put k_a]) 0 5%N].
Definition sweeping_range : write_req := mkWrite [] [] [mkRange [65; 47]%N [122; 47]%N].
Theorem total_refuted_range_sweeps_internal :
  exists cfg ops req, err_of cfg ops req = Some EDeserialize /\ validate_request req = false.
Proof. exists c13_cfg, ops_one_put, sweeping_range. vm_compute. split; reflexivity. Qed.

(* 4b. the default-valued DeleteRangeRequest ("", ""): in the model's reading (both bounds kept) it selects
       nothing; on the real DB it is a no-op, wipes the shard or fails like 4 depending on a pooled buffer
       (confirmed by the harness); refused by validation *)
Theorem empty_range_rejected : validate_request (mkWrite [] [] [mkRange [] []]) = false.
Proof. reflexivity. Qed.

(* 5. put / delete on the key of a stored notification batch (refused by validation) *)
Definition notif0 : key := notification_key 0.
Theorem total_refuted_put_on_notification :
  exists cfg ops req, err_of cfg ops req = Some EDeserialize /\ validate_request req = false.
Proof. exists c13_cfg, ops_one_put, (puts_req [plain_put notif0]). vm_compute. split; reflexivity. Qed.

Theorem total_refuted_delete_on_notification :
  exists cfg ops req, err_of cfg ops req = Some EDeserialize /\ validate_request req = false.
Proof. exists c13_cfg, ops_one_put, (mkWrite [] [mkDel notif0 None] []). vm_compute. split; reflexivity. Qed.

(* 6. a non-numeric suffix under the sequence prefix: error on the code as it was, status now *)
Definition k_s_x : key := [115; 45; 43]%N.                        (* "s-+": below "s-18446744073709551615" *)
Definition ops_s_x : list db_op := [OpWrite (puts_req [plain_put k_s_x]) 0 5%N].
Theorem total_old_refuted_scan :
  exists cfg ops p,
    validate_put p = true /\
    generate_key_old (st_kv (run cfg ops)) p = SeqErr EScan /\
    generate_key (st_kv (run cfg ops)) p = SeqBadVersion /\
    err_of cfg ops (puts_req [p]) = None.
Proof. exists c13_cfg, ops_s_x, (seq_put k_s pk [1%N]). vm_compute. repeat split. Qed.

(* ================================================================ a poison entry blocks every replay *)
Lemma apply_log_app cfg pre : forall st st1 post,
  apply_log cfg st pre = (st1, None) -> apply_log cfg st (pre ++ post) = apply_log cfg st1 post.
Proof.
  induction pre as [|[[req o] ts] tl IH]; simpl; intros st st1 post H; [inversion H; reflexivity|].
  destruct (process_write wrapper_callbacks cfg st req o ts) as [st' [r|e]]; [|discriminate].
  apply IH. exact H.
Qed.

(* the loop stops at the first entry that fails; the stored map is the one reached before it *)
Theorem apply_log_stops cfg st pre req o ts post st1 e :
  apply_log cfg st pre = (st1, None) ->
  snd (process_write wrapper_callbacks cfg st1 req o ts) = Err e ->
  exists s, apply_log cfg st (pre ++ (req, o, ts) :: post) = (s, Some (o, e)) /\ st_kv s = st_kv st1.
Proof.
  intros H E. rewrite (apply_log_app _ _ _ _ _ H). simpl.
  destruct (process_write wrapper_callbacks cfg st1 req o ts) as [s [r|e']] eqn:P; simpl in E; [discriminate|].
  inversion E; subst. exists s. split; [reflexivity|]. apply (atomic _ _ _ _ _ _ _ _ P).
Qed.

(* what [process_write] looks at: everything but notificationsTracker.lastOffset *)
Definition same_db (a b : state) : Prop := st_kv a = st_kv b /\ st_ver a = st_ver b /\ st_notif a = st_notif b.

Lemma process_write_same_db cb cfg a b req o ts :
  same_db a b ->
  snd (process_write cb cfg a req o ts) = snd (process_write cb cfg b req o ts) /\
  st_kv (fst (process_write cb cfg a req o ts)) = st_kv (fst (process_write cb cfg b req o ts)).
Proof.
  intros [Hk [Hv Hn]]. unfold process_write, process_write_full.
  assert (S : start_write a = start_write b) by (unfold start_write; rewrite Hk, Hv, Hn; reflexivity).
  rewrite S. destruct (apply_write_request cb (cfg_threshold cfg) (start_write b) req ts) as [w [r|e]]; simpl.
  - split; [reflexivity|]. unfold commit_write. destruct (w_nm w); reflexivity.
  - split; [reflexivity|exact Hk].
Qed.

(* a state that a restart reproduces (up to the notification cursor) *)
Definition restartable (st : state) : Prop := exists s, restart st = Ok s /\ same_db st s.

Lemma restartable_init : restartable init_state.
Proof. exists init_state. split; [reflexivity|]. repeat split. Qed.

Lemma restartable_after_commit cb cfg st req o ts st1 r :
  process_write cb cfg st req o ts = (st1, Ok r) -> int64 o -> int64 (st_ver st1) -> restartable st1.
Proof.
  intros P Ho Hv. destruct (reopen_after_commit _ _ _ _ _ _ _ _ P Ho Hv) as [R _].
  unfold restartable, restart. rewrite R. eexists. split; [reflexivity|]. repeat split.
Qed.

Lemma restart_depends_on_store a b : st_kv a = st_kv b -> st_notif a = st_notif b -> restart a = restart b.
Proof. intros Hk Hn. unfold restart, persist. rewrite Hk, Hn. reflexivity. Qed.

(* Every attempt (restart + replay of the entries after the commit offset) ends at the poison entry with
   the same error, and leaves the stored map as it was: the commit offset never passes the entry. *)
Theorem poison_blocks_replay cfg st1 req o ts e post :
  restartable st1 ->
  snd (process_write wrapper_callbacks cfg st1 req o ts) = Err e ->
  forall n, exists s, attempts cfg n st1 ((req, o, ts) :: post) = (s, Some (o, e)) /\
                      st_kv s = st_kv st1 /\ st_notif s = st_notif st1.
Proof.
  intros [sr [R S]] E.
  assert (A : forall x, st_kv x = st_kv st1 -> st_notif x = st_notif st1 ->
              exists s, attempt cfg x ((req, o, ts) :: post) = (s, Some (o, e)) /\
                        st_kv s = st_kv st1 /\ st_notif s = st_notif st1).
  { intros x Hk Hn. unfold attempt. rewrite (restart_depends_on_store x st1 Hk Hn), R. simpl.
    destruct (process_write_same_db wrapper_callbacks cfg st1 sr req o ts S) as [E1 _].
    rewrite E1 in E.
    destruct (process_write wrapper_callbacks cfg sr req o ts) as [s [r|e']] eqn:P; simpl in E; [discriminate|].
    inversion E; subst. exists s. split; [reflexivity|].
    destruct (atomic _ _ _ _ _ _ _ _ P) as [Ak [An _]]. destruct S as [Sk [_ Sn]].
    split; [rewrite Ak; symmetry; exact Sk|rewrite An; symmetry; exact Sn]. }
  intro n. assert (G : forall x, st_kv x = st_kv st1 -> st_notif x = st_notif st1 ->
              exists s, attempts cfg n x ((req, o, ts) :: post) = (s, Some (o, e)) /\
                        st_kv s = st_kv st1 /\ st_notif s = st_notif st1).
  { induction n as [|m IH]; intros x Hk Hn; simpl; [apply A; assumption|].
    destruct (A x Hk Hn) as [s [As [Ak An]]]. rewrite As. simpl. apply IH; assumption. }
  apply G; reflexivity.
Qed.

Corollary poison_commit_offset_stuck cfg st1 req o ts e post n :
  restartable st1 ->
  snd (process_write wrapper_callbacks cfg st1 req o ts) = Err e ->
  read_commit_offset (fst (attempts cfg n st1 ((req, o, ts) :: post))) = read_commit_offset st1.
Proof.
  intros R E. destruct (poison_blocks_replay cfg st1 req o ts e post R E n) as [s [A [K _]]].
  rewrite A. simpl. unfold read_commit_offset. rewrite K. reflexivity.
Qed.

(* non-vacuity: a committed put, then the sequence put without partition key, then one more entry *)
Example ex_poison :
  let st1 := run c13_cfg ops_one_put in
  let log := [(puts_req [seq_put k_s None [1%N]], 1%Z, 9%N); (puts_req [plain_put k_s], 2%Z, 11%N)] in
  snd (attempts c13_cfg 3 st1 log) = Some (1%Z, EMissingPartitionKey) /\
  read_commit_offset (fst (attempts c13_cfg 3 st1 log)) = Ok 0%Z.
Proof. vm_compute. split; reflexivity. Qed.

(* ================================================================ the leader's write entry *)
Fixpoint leader_run (cfg : config) (n : node) (reqs : list (write_req * N)) : node :=
  match reqs with
  | [] => n
  | (req, ts) :: tl => leader_run cfg (fst (leader_write cfg n req ts)) tl
  end.

Lemma leader_write_wf cfg n req ts : wf_kv (st_kv (n_st n)) -> wf_kv (st_kv (n_st (fst (leader_write cfg n req ts)))).
Proof.
  intro Hw. unfold leader_write. destruct (validate_request req); [|exact Hw].
  pose proof (wf_preserved cfg (n_st n) req (Z.of_nat (length (n_log n))) ts Hw) as W.
  destruct (process_write wrapper_callbacks cfg (n_st n) req (Z.of_nat (length (n_log n))) ts) as [st' [r|e]]; exact W.
Qed.

Lemma leader_run_wf cfg reqs : forall n, wf_kv (st_kv (n_st n)) -> wf_kv (st_kv (n_st (leader_run cfg n reqs))).
Proof.
  induction reqs as [|[req ts] tl IH]; simpl; intros n Hw; [exact Hw|]. apply IH, leader_write_wf, Hw.
Qed.

(* a rejected request leaves no trace *)
Theorem leader_rejected_not_logged cfg n req ts :
  validate_request req = false -> leader_write cfg n req ts = (n, WRejected).
Proof. intro V. unfold leader_write. rewrite V. reflexivity. Qed.

(* whatever clients sent before, an entry the leader logs is applied, or fails with the remaining class *)
Theorem leader_failure_class cfg reqs req ts e :
  snd (leader_write cfg (leader_run cfg init_node reqs) req ts) = WFailed e -> e = EMissingSequenceDeltas.
Proof.
  set (n := leader_run cfg init_node reqs).
  assert (Hw : wf_kv (st_kv (n_st n))) by (apply leader_run_wf; apply wf_nil).
  unfold leader_write. destruct (validate_request req) eqn:V; [|discriminate].
  pose proof (total_validated_wf cfg (n_st n) req (Z.of_nat (length (n_log n))) ts Hw V) as T.
  destruct (process_write wrapper_callbacks cfg (n_st n) req (Z.of_nat (length (n_log n))) ts) as [st' [r|e']]; simpl in *;
    [discriminate|].
  intro H. inversion H; subst. destruct T as [[a Ha]|Ha]; [discriminate|]. inversion Ha; reflexivity.
Qed.

(* without the validation the same entry point logs the poison of [total_refuted_missing_partition_key]:
   the request is refused now *)
Example ex_leader_rejects :
  snd (leader_write c13_cfg init_node (puts_req [seq_put k_s None [1%N]]) 5%N) = WRejected /\
  snd (leader_write c13_cfg init_node sweeping_range 5%N) = WRejected /\
  (exists r, snd (leader_write c13_cfg init_node (puts_req [seq_put k_s pk [1%N]]) 5%N) = WApplied r).
Proof. vm_compute. repeat split. eexists. reflexivity. Qed.
