(* Db/Bytes.v — byte-string helpers and the Go text formats used in key layouts:
   strings.HasPrefix/TrimPrefix/Split, fmt "%d", "%020d", "%016x" (int64), fmt.Sscanf "%d" / "%020d". *)
From Coq Require Import Ascii String.
From Coq Require Import List NArith ZArith Bool.
From Oxia.Db Require Import Types.
Import ListNotations.
Open Scope list_scope.
Open Scope N_scope.

Fixpoint bytes_of_string (s : string) : bytes :=
  match s with
  | EmptyString => []
  | String c tl => N_of_ascii c :: bytes_of_string tl
  end.

Fixpoint bytes_eqb (a b : bytes) : bool :=
  match a, b with
  | [], [] => true
  | x :: a', y :: b' => N.eqb x y && bytes_eqb a' b'
  | _, _ => false
  end.

(* strings.HasPrefix s p *)
Fixpoint has_prefix (p s : bytes) : bool :=
  match p, s with
  | [], _ => true
  | x :: p', y :: s' => N.eqb x y && has_prefix p' s'
  | _ :: _, [] => false
  end.

(* strings.TrimPrefix when HasPrefix holds: drop |p| bytes *)
Definition drop_prefix (p s : bytes) : bytes := skipn (length p) s.

(* strings.Split(s, sep) for a one-byte separator: always at least one element *)
Fixpoint split_on (sep : N) (s : bytes) : list bytes :=
  match s with
  | [] => [[]]
  | x :: tl =>
      match split_on sep tl with
      | cur :: rest => if N.eqb x sep then [] :: cur :: rest else (x :: cur) :: rest
      | [] => [[x]]   (* unreachable: split_on never returns [] *)
      end
  end.

(* ---- number formatting ---- *)
Definition dec_digit (d : N) : N := 48 + d.
Definition hex_digit (d : N) : N := if d <? 10 then 48 + d else 87 + d.     (* lower case a-f *)

Fixpoint digits_fuel (fuel : nat) (base : N) (dig : N -> N) (n : N) (acc : bytes) : bytes :=
  match fuel with
  | O => acc
  | S f => if n =? 0 then acc else digits_fuel f base dig (n / base) (dig (n mod base) :: acc)
  end.

(* number of bits bounds the number of digits in any base >= 2 *)
Definition digits_of (base : N) (dig : N -> N) (n : N) : bytes :=
  if n =? 0 then [dig 0] else digits_fuel (S (N.size_nat n)) base dig n [].

Definition dec_of_N (n : N) : bytes := digits_of 10 dec_digit n.
Definition hex_of_N (n : N) : bytes := digits_of 16 hex_digit n.

Definition pad_left (width : nat) (c : N) (l : bytes) : bytes := repeat c (width - length l)%nat ++ l.

(* fmt.Sprintf("%d", int64) *)
Definition ascii_of_Z (z : Z) : bytes :=
  if (z <? 0)%Z then 45 :: dec_of_N (Z.abs_N z) else dec_of_N (Z.to_N z).

(* fmt.Sprintf("%020d", uint64) *)
Definition pad20 (n : N) : bytes := pad_left 20 48 (dec_of_N n).

(* fmt.Sprintf("%016x", int64): zero padding counts the sign (Go fmtInteger: prec = wid, prec-- when negative) *)
Definition hex16 (z : Z) : bytes :=
  if (z <? 0)%Z then 45 :: pad_left 15 48 (hex_of_N (Z.abs_N z))
  else pad_left 16 48 (hex_of_N (Z.to_N z)).

(* ---- number scanning (fmt.Sscanf) ----
   isSpace on single bytes: \t \v \f \r and ' ' are skipped, '\n' is an error ("unexpected newline").
   SIMPLIFICATION (named): white space encoded in more than one byte (U+0085, U+00A0, U+1680, U+2000..) is
   not treated as white space here; the generators never put such bytes in front of a number. *)
Definition is_space_byte (b : N) : bool :=
  (b =? 9) || (b =? 11) || (b =? 12) || (b =? 13) || (b =? 32).

Fixpoint skip_space (s : bytes) : option bytes :=
  match s with
  | [] => Some []
  | b :: tl => if b =? 10 then None else if is_space_byte b then skip_space tl else Some s
  end.

Definition is_digit (b : N) : bool := (48 <=? b) && (b <=? 57).

(* s.accept(decimalDigits) loop of scanNumber (verb %d: digits only, '_' is accepted for %v only), at most [width] runes *)
Fixpoint take_number (width : nat) (s : bytes) : bytes :=
  match width, s with
  | S w, b :: tl => if is_digit b then b :: take_number w tl else []
  | _, _ => []
  end.

(* strconv.ParseUint(tok, 10, 64) on a token of digits *)
Fixpoint parse_dec (tok : bytes) (acc : N) : option N :=
  match tok with
  | [] => Some acc
  | b :: tl => if is_digit b then parse_dec tl (acc * 10 + (b - 48)) else None
  end.

(* fmt.Sscanf(s, "%020d", &uint64): None = any error *)
Definition scan20 (s : bytes) : option N :=
  match skip_space s with
  | None => None
  | Some s' =>
      match take_number 20 s' with
      | [] => None                                     (* EOF or "expected integer" *)
      | tok => match parse_dec tok 0 with
               | Some v => if v <? U64 then Some v else None   (* value out of range *)
               | None => None
               end
      end
  end.

(* fmt.Sscanf(s, "%d", &int64): optional sign, digits (no width), range check *)
Definition scan_int64 (s : bytes) : option Z :=
  match skip_space s with
  | None => None
  | Some s' =>
      let '(neg, rest) := match s' with
                          | b :: tl => if b =? 45 then (true, tl)          (* '-' *)
                                       else if b =? 43 then (false, tl)    (* '+' *)
                                       else (false, s')
                          | [] => (false, s')
                          end in
      match take_number (length rest) rest with
      | [] => None
      | tok => match parse_dec tok 0 with
               | Some v =>
                   if neg then (if v <=? 9223372036854775808 then Some (- Z.of_N v)%Z else None)
                   else (if v <? 9223372036854775808 then Some (Z.of_N v) else None)
               | None => None
               end
      end
  end.
