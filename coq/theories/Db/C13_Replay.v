(* Db/C13_Replay.v — the apply loops of the two controllers and the leader's write entry, as far as C13
   needs them (definitions only).

     leader_controller.go    applyAllEntriesIntoDBLoop   for every entry read from the WAL after the commit
                                                         offset stored in the DB: ProcessWrite; the first
                                                         error is returned (BecomeLeader fails)
     follower_controller.go  processCommittedEntriesLoop the same loop up to the advertised commit offset;
                                                         the first error ends applyAllCommittedEntries
     leader_controller.go    Write / WriteBlock          validateWriteRequest, then (write) offset := next,
                                                         entry appended to the WAL, and once committed
                                                         ProcessWrite, whose error goes to the client
   One log entry carries one WriteRequest (that is what write() builds). *)
From Coq Require Import List NArith ZArith Bool.
From Oxia.Db Require Import Types Bytes Keys Kv Sessions Indexes Write Read Validate.
Import ListNotations.

Definition log_entry := (write_req * Z * N)%type.          (* request, offset, timestamp *)
Definition le_offset (e : log_entry) : Z := snd (fst e).

(* Apply the entries in order, stop at the first error: (state reached, None | Some (offset, error)) *)
Fixpoint apply_log (cfg : config) (st : state) (entries : list log_entry) : state * option (Z * err_kind) :=
  match entries with
  | [] => (st, None)
  | (req, o, ts) :: tl =>
      match process_write wrapper_callbacks cfg st req o ts with
      | (st', Ok _) => apply_log cfg st' tl
      | (st', Err e) => (st', Some (o, e))
      end
  end.

(* A restart of the node: kv.NewDB on what is stored; the controller then re-enables / disables the
   notifications according to the stored term options (the flag the node had). *)
Definition restart (st : state) : result state :=
  match reopen (persist st) with
  | Ok s => Ok (enable_notifications s (st_notif st))
  | Err e => Err e
  end.

(* One attempt to bring the node back: restart, then replay the entries that follow the DB's commit offset
   ([log] = those entries).  The attempt fails iff the second component is [Some _]. *)
Definition attempt (cfg : config) (st : state) (log : list log_entry) : state * option (Z * err_kind) :=
  match restart st with
  | Ok s => apply_log cfg s log
  | Err e => (st, Some ((-1)%Z, e))
  end.

(* n >= 1 attempts in a row (each on what the previous one left): the result of the last one *)
Fixpoint attempts (cfg : config) (n : nat) (st : state) (log : list log_entry) : state * option (Z * err_kind) :=
  match n with
  | O => attempt cfg st log
  | S m => attempts cfg m (fst (attempt cfg st log)) log
  end.

(* ---- the leader (replication factor 1: an appended entry is committed at once) ---- *)
Record node := mkNode { n_st : state; n_log : list log_entry }.

Inductive write_outcome :=
| WRejected                      (* validateWriteRequest failed: InvalidArgument, nothing logged *)
| WApplied (r : write_resp)
| WFailed (e : err_kind).        (* the entry is in the log and ProcessWrite failed *)

Definition init_node : node := mkNode init_state [].

Definition leader_write (cfg : config) (n : node) (req : write_req) (ts : N) : node * write_outcome :=
  if validate_request req then
    let o := Z.of_nat (length (n_log n)) in
    match process_write wrapper_callbacks cfg (n_st n) req o ts with
    | (st', Ok r) => (mkNode st' (n_log n ++ [(req, o, ts)]), WApplied r)
    | (st', Err e) => (mkNode st' (n_log n ++ [(req, o, ts)]), WFailed e)
    end
  else (n, WRejected).

(* entries a WAL reader positioned after offset [co] returns *)
Definition entries_after (co : Z) (log : list log_entry) : list log_entry :=
  filter (fun e => (co <? le_offset e)%Z) log.

(* close + new controller + NewTerm(term, options) + BecomeLeader: the DB is reopened, the term and its options are
   stored and notifications switched accordingly ([en] = NewTermOptions.EnableNotifications; no options = true), the
   entries after the DB's commit offset are applied.  [None] = BecomeLeader succeeded. *)
Definition leader_restart (cfg : config) (n : node) (term : Z) (en : bool) (ts : N) : node * option (Z * err_kind) :=
  match restart (n_st n) with
  | Err e => (n, Some ((-1)%Z, e))
  | Ok s =>
      let s1 := enable_notifications (update_term s term en ts) en in
      match read_commit_offset s1 with
      | Err e => (mkNode s1 (n_log n), Some ((-1)%Z, e))
      | Ok co =>
          let '(s2, r) := apply_log cfg s1 (entries_after co (n_log n)) in
          (mkNode s2 (n_log n), r)
      end
  end.
