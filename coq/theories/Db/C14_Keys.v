(* Db/C14_Keys.v — facts about the session key space that the C14 invariants need (helper of Proofs_C14.v):

     "%016x" is injective on all of Z                                   hex16_inj
     url.PathEscape is injective, never emits '/', and PathUnescape undoes it on bytes
                                                                        path_escape_inj / _no_slash / path_unescape_escape
     ShadowKey(s, k) determines s and k                                 shadow_key_inj
     "children" of a session key  SessionKey(z) ++ "/" ++ x  never coincide with a session key, an index key,
     a notification key, one of the fixed internal keys or a user key   child_* lemmas
     the range  [p ++ "/", p ++ "//")  of CompareWithSlash contains exactly the keys  p ++ "/" ++ x  with x free
     of '/' (this is the range session.delete() lists and range-deletes, and the range Initialize lists)
                                                                        slash_children_range *)
From Coq Require Import List NArith ZArith Bool Lia.
From Oxia.KeyOrder Require Import Model Proofs.
From Oxia.Db Require Import Types Bytes Escape Keys Kv SortedMap KeyFacts NumProofs SessionMgr.
Import ListNotations.
Open Scope N_scope.

(* ------------------------------------------------------------------ hex16 is injective *)
Definition unhex_lc (c : N) : N := if c <? 58 then c - 48 else c - 87.

Fixpoint parse_hex (l : bytes) (acc : N) : N :=
  match l with
  | [] => acc
  | c :: tl => parse_hex tl (acc * 16 + unhex_lc c)
  end.

Lemma parse_hex_app l1 : forall l2 a, parse_hex (l1 ++ l2) a = parse_hex l2 (parse_hex l1 a).
Proof. induction l1 as [|c tl IH]; simpl; intros l2 a; [reflexivity|]. apply IH. Qed.

Lemma unhex_hex_digit d : d < 16 -> unhex_lc (hex_digit d) = d.
Proof.
  intro H. unfold unhex_lc, hex_digit. destruct (d <? 10) eqn:E.
  - apply N.ltb_lt in E. assert (H1 : (48 + d <? 58) = true) by (apply N.ltb_lt; lia). rewrite H1. lia.
  - apply N.ltb_ge in E. assert (H1 : (87 + d <? 58) = false) by (apply N.ltb_ge; lia). rewrite H1. lia.
Qed.

Lemma parse_hex_fuel fuel : forall n,
  n < 2 ^ N.of_nat fuel -> parse_hex (digits_fuel fuel 16 hex_digit n []) 0 = n.
Proof.
  induction fuel as [|f IH]; intros n Hn.
  - simpl in Hn. assert (n = 0) by lia. subst. reflexivity.
  - simpl digits_fuel. destruct (n =? 0) eqn:E.
    + apply N.eqb_eq in E. subst. reflexivity.
    + apply N.eqb_neq in E. rewrite digits_fuel_acc, parse_hex_app. rewrite IH.
      * cbn [parse_hex]. rewrite unhex_hex_digit by (apply N.mod_lt; lia).
        pose proof (N.div_mod n 16 ltac:(lia)) as Hdm. lia.
      * rewrite Nat2N.inj_succ, N.pow_succ_r' in Hn. apply N.div_lt_upper_bound; [lia|]. lia.
Qed.

Lemma parse_hex_of_N n : parse_hex (hex_of_N n) 0 = n.
Proof.
  unfold hex_of_N, digits_of. destruct (n =? 0) eqn:E.
  - apply N.eqb_eq in E. subst. reflexivity.
  - apply parse_hex_fuel. rewrite Nat2N.inj_succ, N.pow_succ_r'. pose proof (N_lt_pow_size_nat n). lia.
Qed.

Lemma parse_hex_zeros k : forall l, parse_hex (repeat 48 k ++ l) 0 = parse_hex l 0.
Proof. induction k as [|k IH]; intro l; [reflexivity|]. simpl. apply IH. Qed.

Lemma parse_hex_pad w l : parse_hex (pad_left w 48 l) 0 = parse_hex l 0.
Proof. unfold pad_left. apply parse_hex_zeros. Qed.

Lemma hex_digit_not_dash d : hex_digit d <> 45.
Proof. unfold hex_digit. destruct (d <? 10); lia. Qed.

Lemma hex_pad_no_dash w n : Forall (fun c => c <> 45) (pad_left w 48 (hex_of_N n)).
Proof. apply pad_left_forall; [lia|]. apply digits_of_forall. exact hex_digit_not_dash. Qed.

Lemma hex_of_N_nonempty n : hex_of_N n <> [].
Proof.
  unfold hex_of_N, digits_of. destruct (n =? 0) eqn:E; [discriminate|].
  apply N.eqb_neq in E. simpl. rewrite (proj2 (N.eqb_neq n 0) E). rewrite digits_fuel_acc.
  intro H. apply app_eq_nil in H. destruct H as [_ H]. discriminate.
Qed.

Lemma pad_left_nonempty w c l : l <> [] -> pad_left w c l <> [].
Proof. intros H E. unfold pad_left in E. apply app_eq_nil in E. destruct E as [_ E]. contradiction. Qed.

Theorem hex16_inj z z' : hex16 z = hex16 z' -> z = z'.
Proof.
  unfold hex16. destruct (z <? 0)%Z eqn:A; destruct (z' <? 0)%Z eqn:B; intro H.
  - inversion H as [H1]. apply (f_equal (fun l => parse_hex l 0)) in H1.
    rewrite !parse_hex_pad, !parse_hex_of_N in H1. apply Z.ltb_lt in A, B. lia.
  - exfalso. pose proof (hex_pad_no_dash 16 (Z.to_N z')) as F. rewrite <- H in F. inversion F. lia.
  - exfalso. pose proof (hex_pad_no_dash 16 (Z.to_N z)) as F. rewrite H in F. inversion F. lia.
  - apply (f_equal (fun l => parse_hex l 0)) in H.
    rewrite !parse_hex_pad, !parse_hex_of_N in H. apply Z.ltb_ge in A, B. lia.
Qed.

(* ------------------------------------------------------------------ url.PathEscape *)
Definition no_slash (x : bytes) : Prop := Forall (fun c => c <> 47) x.

Lemma upper_hex_digit_inj a b : upper_hex_digit a = upper_hex_digit b -> a = b.
Proof. unfold upper_hex_digit. destruct (a <? 10) eqn:A; destruct (b <? 10) eqn:B; intro H;
  try apply N.ltb_lt in A; try apply N.ltb_lt in B; try apply N.ltb_ge in A; try apply N.ltb_ge in B; lia. Qed.

Lemma upper_hex_digit_ge d : 48 <= upper_hex_digit d.
Proof. unfold upper_hex_digit. destruct (d <? 10); lia. Qed.

Lemma should_escape_37 : should_escape 37 = true.
Proof. reflexivity. Qed.
Lemma should_escape_47 : should_escape 47 = true.
Proof. reflexivity. Qed.

Theorem path_escape_inj : forall a b, path_escape a = path_escape b -> a = b.
Proof.
  induction a as [|x a IH]; intros [|y b] H.
  - reflexivity.
  - simpl in H. destruct (should_escape y); discriminate.
  - simpl in H. destruct (should_escape x); discriminate.
  - simpl in H. destruct (should_escape x) eqn:X; destruct (should_escape y) eqn:Y.
    + inversion H as [[H1 H2 H3]]. apply upper_hex_digit_inj in H1, H2.
      assert (x = y).
      { pose proof (N.div_mod x 16 ltac:(lia)). pose proof (N.div_mod y 16 ltac:(lia)). lia. }
      subst. f_equal. apply IH. exact H3.
    + inversion H; subst. rewrite should_escape_37 in Y. discriminate.
    + inversion H; subst. rewrite should_escape_37 in X. discriminate.
    + inversion H; subst. f_equal. apply IH. assumption.
Qed.

Theorem path_escape_no_slash k : no_slash (path_escape k).
Proof.
  induction k as [|c k IH]; simpl; [constructor|].
  destruct (should_escape c) eqn:E.
  - constructor; [lia|]. constructor; [pose proof (upper_hex_digit_ge (c / 16)); lia|].
    constructor; [pose proof (upper_hex_digit_ge (c mod 16)); lia|]. exact IH.
  - constructor; [|exact IH]. intro; subst. rewrite should_escape_47 in E. discriminate.
Qed.

Lemma unhex_upper d : d < 16 -> unhex (upper_hex_digit d) = Some d.
Proof.
  intro H.
  assert (C : d = 0 \/ d = 1 \/ d = 2 \/ d = 3 \/ d = 4 \/ d = 5 \/ d = 6 \/ d = 7 \/ d = 8 \/ d = 9 \/
              d = 10 \/ d = 11 \/ d = 12 \/ d = 13 \/ d = 14 \/ d = 15) by lia.
  repeat (destruct C as [C|C]; [subst; reflexivity|]). subst. reflexivity.
Qed.

Lemma path_unescape_cons_other c tl :
  c <> 37 -> path_unescape (c :: tl) = match path_unescape tl with Some r => Some (c :: r) | None => None end.
Proof.
  intro H. destruct c as [|p]; [reflexivity|].
  repeat (match goal with q : positive |- _ => destruct q as [q|q|] end;
          try reflexivity; try (exfalso; apply H; reflexivity)).
Qed.

Theorem path_unescape_escape k : is_bytes k -> path_unescape (path_escape k) = Some k.
Proof.
  induction k as [|c k IH]; intro Hb; [reflexivity|].
  inversion Hb as [|? ? Hc Hk]; subst. specialize (IH Hk). simpl path_escape.
  destruct (should_escape c) eqn:E.
  - cbn [path_unescape].
    assert (H1 : c / 16 < 16) by (apply N.div_lt_upper_bound; lia).
    assert (H2 : c mod 16 < 16) by (apply N.mod_lt; lia).
    rewrite (unhex_upper _ H1), (unhex_upper _ H2), IH.
    f_equal. f_equal. pose proof (N.div_mod c 16 ltac:(lia)). lia.
  - rewrite path_unescape_cons_other; [rewrite IH; reflexivity|].
    intro; subst. rewrite should_escape_37 in E. discriminate.
Qed.

(* ------------------------------------------------------------------ session keys and their children *)
Definition sk_child (z : Z) (x : bytes) : key := session_key z ++ SLASHB :: x.

Lemma shadow_key_child z k : shadow_key z k = sk_child z (path_escape k).
Proof. reflexivity. Qed.

Lemma app_slash_inj : forall a b x y, no_slash a -> no_slash b -> a ++ 47 :: x = b ++ 47 :: y -> a = b /\ x = y.
Proof.
  induction a as [|c a IH]; intros [|d b] x y Ha Hb H; simpl in H.
  - inversion H. split; reflexivity.
  - inversion H; subst. inversion Hb; subst. lia.
  - inversion H; subst. inversion Ha; subst. lia.
  - inversion H; subst. inversion Ha; inversion Hb; subst.
    destruct (IH b x y) as [E1 E2]; try assumption. subst. split; reflexivity.
Qed.

Theorem sk_child_inj z z' x x' : sk_child z x = sk_child z' x' -> z = z' /\ x = x'.
Proof.
  unfold sk_child, session_key. rewrite <- !app_assoc. intro H. apply app_inv_head in H.
  unfold SLASHB in H. apply app_slash_inj in H; try apply hex16_no_slash.
  destruct H as [H1 H2]. apply hex16_inj in H1. split; assumption.
Qed.

Theorem shadow_key_inj z z' k k' : shadow_key z k = shadow_key z' k' -> z = z' /\ k = k'.
Proof.
  rewrite !shadow_key_child. intro H. apply sk_child_inj in H. destruct H as [H1 H2].
  apply path_escape_inj in H2. split; assumption.
Qed.

Lemma sk_child_internal z x : is_internal (sk_child z x) = true.
Proof. unfold sk_child, is_internal. apply has_prefix_app_r. apply session_key_internal. Qed.

Lemma tag_sk_child z x : key_tag (sk_child z x) = 115.
Proof. reflexivity. Qed.

Lemma sk_child_not_session z x z' : sk_child z x <> session_key z'.
Proof.
  unfold sk_child, session_key. rewrite <- app_assoc. intro H. apply app_inv_head in H.
  pose proof (hex16_no_slash z') as Hz. rewrite <- H in Hz.
  apply Forall_app in Hz. destruct Hz as [_ Hz]. inversion Hz; subst. unfold SLASHB in *. lia.
Qed.

Lemma sk_child_not_index z x pk si : sk_child z x <> index_key pk si.
Proof. intro H. apply (f_equal key_tag) in H. rewrite tag_sk_child, tag_index in H. discriminate. Qed.
Lemma sk_child_not_notification z x o : sk_child z x <> notification_key o.
Proof. intro H. apply (f_equal key_tag) in H. rewrite tag_sk_child, tag_notification in H. discriminate. Qed.
Lemma sk_child_not_commit_offset z x : sk_child z x <> commit_offset_key.
Proof. intro H. apply (f_equal key_tag) in H. rewrite tag_sk_child, tag_commit_offset in H. discriminate. Qed.
Lemma sk_child_not_last_version z x : sk_child z x <> last_version_key.
Proof. intro H. apply (f_equal key_tag) in H. rewrite tag_sk_child, tag_last_version in H. discriminate. Qed.
Lemma sk_child_not_term z x : sk_child z x <> term_key.
Proof. intro H. apply (f_equal (@length N)) in H. unfold sk_child, session_key in H.
  rewrite !app_length in H. simpl in H. lia. Qed.
Lemma sk_child_not_term_options z x : sk_child z x <> term_options_key.
Proof.
  intro H. apply (f_equal (fun k => nth 11 k 0)) in H. unfold sk_child, session_key in H.
  rewrite <- app_assoc in H. simpl in H. discriminate.
Qed.
Lemma sk_child_not_user z x k : is_internal k = false -> sk_child z x <> k.
Proof. intros H E. subst. rewrite sk_child_internal in H. discriminate. Qed.

Lemma session_key_inj z z' : session_key z = session_key z' -> z = z'.
Proof. unfold session_key. intro H. apply app_inv_head in H. apply hex16_inj. exact H. Qed.

Lemma session_key_not_term z : session_key z <> term_key.
Proof. intro H. apply (f_equal (fun k => nth 7 k 0)) in H. discriminate. Qed.
Lemma session_key_not_term_options z : session_key z <> term_options_key.
Proof. intro H. apply (f_equal (fun k => nth 7 k 0)) in H. discriminate. Qed.

(* ------------------------------------------------------------------ the range [p/, p//) *)
Lemma no_slash_split x : no_slash x <-> split_slash x = None.
Proof.
  induction x as [|c x IH]; simpl.
  - split; [reflexivity|constructor].
  - unfold SLASH. destruct (c =? 47) eqn:E.
    + apply N.eqb_eq in E. subst. split; [|discriminate]. intro H. inversion H; subst. lia.
    + apply N.eqb_neq in E. destruct (split_slash x) as [[s r]|].
      * split; [|discriminate]. intro H. inversion H; subst. apply IH in H3. discriminate.
      * split; [reflexivity|]. intros _. constructor; [exact E|]. apply IH. reflexivity.
Qed.

(* every segment of p flagged "not last" *)
Definition pre_enc (p : bytes) : list (bool * bytes) := map (fun fs => (true, snd fs)) (enc p).

Lemma enc_app_slash p : forall x, enc (p ++ 47 :: x) = pre_enc p ++ enc x.
Proof.
  unfold pre_enc. induction p as [|c p IH]; intro x.
  - reflexivity.
  - simpl app. cbn [enc]. unfold SLASH. destruct (c =? 47) eqn:E.
    + rewrite IH. reflexivity.
    + rewrite IH. pose proof (enc_nonnil p) as Hn. destruct (enc p) as [|[f s] tl]; [congruence|]. reflexivity.
Qed.

Lemma seg_cmp_refl x : seg_cmp x x = Eq.
Proof. apply seg_cmp_eq. reflexivity. Qed.

Lemma lex_cmp_app_same P : forall a b, lex_cmp (P ++ a) (P ++ b) = lex_cmp a b.
Proof.
  induction P as [|x P IH]; intros a b; [reflexivity|].
  simpl app. rewrite lex_cmp_cons, seg_cmp_refl. apply IH.
Qed.

Lemma lex_between_prefix P : forall a b Y,
  lex_cmp (P ++ a) Y <> Gt -> lex_cmp Y (P ++ b) <> Gt -> exists r, Y = P ++ r.
Proof.
  induction P as [|x P IH]; intros a b Y H1 H2; [exists Y; reflexivity|].
  destruct Y as [|y Y]; [exfalso; apply H1; reflexivity|].
  simpl app in H1, H2. rewrite lex_cmp_cons in H1, H2.
  destruct (seg_cmp x y) eqn:C1.
  - apply seg_cmp_eq in C1. subst y. rewrite seg_cmp_refl in H2.
    destruct (IH a b Y H1 H2) as [r ->]. exists r. reflexivity.
  - rewrite (seg_cmp_anti x y), C1 in H2. exfalso. apply H2. reflexivity.
  - exfalso. apply H1. reflexivity.
Qed.

Lemma wf_enc_app_tail P : forall r, wf_enc (P ++ r) -> r <> [] -> wf_enc r.
Proof.
  induction P as [|[f s] P IH]; intros r H Hr; [exact H|].
  simpl app in H. cbn [wf_enc] in H. destruct (P ++ r) eqn:E.
  - apply app_eq_nil in E. destruct E as [_ E]. contradiction.
  - rewrite <- E in H. destruct H as [_ H]. apply IH; assumption.
Qed.

Lemma bytes_cmp_nil_r s : bytes_cmp s [] <> Lt.
Proof. destruct s; discriminate. Qed.

Lemma enc_segs_no_slash a : Forall (fun fs : bool * list N => split_slash (snd fs) = None) (enc a).
Proof.
  induction a as [|x a IH]; [repeat constructor|].
  cbn [enc]. destruct (N.eqb x SLASH) eqn:E.
  - constructor; [reflexivity|exact IH].
  - pose proof (enc_nonnil a) as Hn. destruct (enc a) as [|[f s] tl]; [congruence|].
    inversion IH; subst. constructor; [|assumption]. cbn [snd] in *. cbn [split_slash]. rewrite E, H1. reflexivity.
Qed.

Theorem slash_children_range p y :
  key_in_range (Some (p ++ [47])) (Some (p ++ [47; 47])) y = true <-> exists x, y = p ++ 47 :: x /\ no_slash x.
Proof.
  unfold key_in_range, in_range, SortedMap.leb, SortedMap.ltb. rewrite !cmp_slash_spec. unfold spec_cmp.
  change (p ++ [47]) with (p ++ 47 :: []). change (p ++ [47; 47]) with (p ++ 47 :: [47]).
  rewrite !enc_app_slash. change (enc []) with [(false, @nil N)]. change (enc [47]) with [(true, @nil N); (false, @nil N)].
  split.
  - intro H. apply andb_true_iff in H. destruct H as [H1 H2].
    assert (L1 : lex_cmp (pre_enc p ++ [(false, [])]) (enc y) <> Gt) by (destruct (lex_cmp _ (enc y)); congruence).
    assert (L2 : lex_cmp (enc y) (pre_enc p ++ [(true, []); (false, [])]) = Lt) by (destruct (lex_cmp (enc y) _); congruence).
    assert (L2' : lex_cmp (enc y) (pre_enc p ++ [(true, []); (false, [])]) <> Gt) by (rewrite L2; discriminate).
    destruct (lex_between_prefix _ _ _ _ L1 L2') as [r Hr].
    rewrite Hr in L1, L2. rewrite lex_cmp_app_same in L1, L2.
    destruct r as [|[f s] r']; [exfalso; apply L1; reflexivity|].
    pose proof (enc_wf y) as W. rewrite Hr in W. apply wf_enc_app_tail in W; [|discriminate].
    destruct f.
    + (* a flagged segment: must be (true, []) followed by something below [(false, [])]: impossible *)
      exfalso. rewrite lex_cmp_cons in L2. unfold seg_cmp in L2 at 1. cbn [fst snd] in L2.
      destruct (bytes_cmp s []) eqn:B; try discriminate; [|exact (bytes_cmp_nil_r _ B)].
      cbn [wf_enc] in W. destruct r' as [|[g t] r'']; [discriminate W|]. destruct W as [_ W].
      rewrite lex_cmp_cons in L2. destruct g.
      * rewrite seg_cmp_tf in L2. discriminate.
      * rewrite seg_cmp_ff in L2. destruct (bytes_cmp t []) eqn:B2; try discriminate.
        -- destruct r''; discriminate.
        -- exact (bytes_cmp_nil_r _ B2).
    + cbn [wf_enc] in W. destruct r' as [|e r'']; [|destruct W; discriminate].
      exists s. assert (Hs : split_slash s = None).
      { pose proof (enc_segs_no_slash y) as F. rewrite Hr in F. apply Forall_app in F. destruct F as [_ F].
        inversion F; subst. assumption. }
      split; [|apply no_slash_split; exact Hs].
      apply enc_inj. rewrite Hr, enc_app_slash, (enc_no_slash _ Hs). reflexivity.
  - intros [x [-> Hx]]. apply no_slash_split in Hx.
    rewrite enc_app_slash, (enc_no_slash _ Hx), !lex_cmp_app_same.
    rewrite !lex_cmp_cons, seg_cmp_ff, seg_cmp_ft.
    destruct x; reflexivity.
Qed.

(* the session's shadow range as session.delete() writes it (SessionMgr.shadow_lo / shadow_hi) *)

Theorem shadow_range_iff z y :
  key_in_range (Some (shadow_lo z)) (Some (shadow_hi z)) y = true <-> exists x, y = sk_child z x /\ no_slash x.
Proof. apply slash_children_range. Qed.

Lemma shadow_in_range z k : key_in_range (Some (shadow_lo z)) (Some (shadow_hi z)) (shadow_key z k) = true.
Proof. apply shadow_range_iff. exists (path_escape k). split; [reflexivity|apply path_escape_no_slash]. Qed.

Lemma shadow_range_other z z' k : z' <> z -> key_in_range (Some (shadow_lo z)) (Some (shadow_hi z)) (shadow_key z' k) = false.
Proof.
  intro H. destruct (key_in_range _ _ (shadow_key z' k)) eqn:E; [|reflexivity].
  apply shadow_range_iff in E. destruct E as [x [E _]]. rewrite shadow_key_child in E.
  apply sk_child_inj in E. destruct E. contradiction.
Qed.

Lemma shadow_range_not_session z z' : key_in_range (Some (shadow_lo z)) (Some (shadow_hi z)) (session_key z') = false.
Proof.
  destruct (key_in_range _ _ (session_key z')) eqn:E; [|reflexivity].
  apply shadow_range_iff in E. destruct E as [x [E _]]. symmetry in E. apply sk_child_not_session in E. contradiction.
Qed.

Lemma shadow_range_not_user z k : is_internal k = false -> key_in_range (Some (shadow_lo z)) (Some (shadow_hi z)) k = false.
Proof.
  intro H. destruct (key_in_range _ _ k) eqn:E; [|reflexivity].
  apply shadow_range_iff in E. destruct E as [x [E _]]. subst. rewrite sk_child_internal in H. discriminate.
Qed.

Lemma shadow_range_not_index z pk si : key_in_range (Some (shadow_lo z)) (Some (shadow_hi z)) (index_key pk si) = false.
Proof.
  destruct (key_in_range _ _ (index_key pk si)) eqn:E; [|reflexivity].
  apply shadow_range_iff in E. destruct E as [x [E _]]. symmetry in E. apply sk_child_not_index in E. contradiction.
Qed.
