(* Db/C16_Old.v — server/kv/db_sequences.go:generateUniqueKeyFromSequences AS IT WAS before the repair of
   O-10 (non-numeric suffix => error after the entry is logged) and O-15 (uint64 wrap-around): the
   transcription the shared model carried until the code was fixed (no check either that the new key comes
   after the current last key).  Definitions only; used by the
   [_old_refuted] witnesses of Proofs_C13.v and Proofs_C16.v. *)
From Coq Require Import List NArith ZArith Bool.
From Oxia.Db Require Import Types Bytes Keys Kv Sequences.
Import ListNotations.
Open Scope N_scope.

Fixpoint seq_loop_old (idx : nat) (deltas : list N) (parts : list bytes) (acc : key) : result key :=
  match deltas with
  | [] => Ok acc
  | delta :: rest =>
      if (Nat.eqb idx 0) && (delta =? 0) then Err ESequenceDeltaIsZero
      else
        let last :=
          match nth_error parts idx with
          | Some part => match scan20 part with Some v => Ok v | None => Err EScan end
          | None => Ok 0
          end in
        match last with
        | Err e => Err e
        | Ok lastv =>
            seq_loop_old (S idx) rest parts (acc ++ DASH :: pad20 ((lastv + delta) mod U64))
        end
  end.

Definition generate_key_old (b : kvmap) (p : put_req) : seq_result :=
  match p_partition p with
  | None => SeqErr EMissingPartitionKey
  | Some _ =>
      match p_expected p with
      | Some _ => SeqBadVersion
      | None =>
          match current_last_parts b (p_key p) (length (p_deltas p)) with
          | Err e => SeqErr e
          | Ok parts =>
              match seq_loop_old 0 (p_deltas p) parts (p_key p) with
              | Ok k => SeqOk k
              | Err e => SeqErr e
              end
          end
      end
  end.
