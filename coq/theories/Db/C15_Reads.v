(* Db/C15_Reads.v — the secondary-index reads against the sorted reference of one index's entries
   (helper of Proofs_C15.v).

   [index_entries m n]   the (secondary key, primary key) pairs read off the keys "__oxia/idx/<n>/..." of the
                         map, in key order.  Under the invariant of C15_Inv.v this list
                           - contains exactly the pairs declared by the records that exist  (entries_iff)
                           - is strictly sorted by (skey under the key order, escaped pkey bytewise) (entries_sorted)
                         and any other list with these two properties is equal to it (sorted_unique).
   [ref_get]             equal / floor / ceiling / lower / higher on such a list
   list, range-scan and get on index n are functions of [index_entries m n] only. *)
From Coq Require Import List NArith ZArith Bool Lia Sorting.Sorted.
From Oxia.KeyOrder Require Import Model Proofs.
From Oxia.Db Require Import Types Bytes Escape Keys Kv SortedMap SortedMapProofs KeyFacts Sessions Indexes
     Sequences Notifications Write Read Spec KvProofs NumProofs Proofs_C12 IndexReads C15_Layout C15_Inv.
Import ListNotations.

Definition ientry := (bytes * key)%type.     (* (secondary key, primary key) *)

Definition idx_keys (m : kvmap) (n : bytes) : list key := filter (in_index n) (map fst m).
Definition parse_entry (k : key) : ientry :=
  match index_primary_and_secondary k with IdxOk pk s => (s, pk) | _ => ([], []) end.
Definition index_entries (m : kvmap) (n : bytes) : list ientry := map parse_entry (idx_keys m n).

(* the order of the reference: secondary key under the key order, ties by the escaped primary key, bytewise *)
Definition entry_cmp (a b : ientry) : comparison :=
  match cmp_slash (fst a) (fst b) with
  | Eq => bytes_cmp (path_escape (snd a)) (path_escape (snd b))
  | c => c
  end.
Definition entry_lt (a b : ientry) : Prop := entry_cmp a b = Lt.

(* ------------------------------------------------------------------ generic list facts *)
Lemma filter_filter_comm {A} (f g : A -> bool) l : filter f (filter g l) = filter g (filter f l).
Proof.
  induction l as [|x l IH]; simpl; [reflexivity|].
  destruct (f x) eqn:F; destruct (g x) eqn:G; simpl; rewrite ?F, ?G, IH; reflexivity.
Qed.

Lemma filter_rev_comm {A} (f : A -> bool) l : filter f (rev l) = rev (filter f l).
Proof.
  induction l as [|x l IH]; simpl; [reflexivity|].
  rewrite filter_app, IH. simpl. destruct (f x); simpl; [reflexivity|apply app_nil_r].
Qed.

Lemma filter_implied {A} (f g : A -> bool) l :
  (forall x, In x l -> f x = true -> g x = true) -> filter f (filter g l) = filter f l.
Proof.
  induction l as [|x l IH]; simpl; intro H; [reflexivity|].
  destruct (g x) eqn:G; simpl.
  - destruct (f x); rewrite IH; auto.
  - destruct (f x) eqn:F.
    + rewrite (H x (or_introl eq_refl) F) in G. discriminate.
    + apply IH. auto.
Qed.

Lemma map_filter_ext {A B} (h : A -> B) (f : A -> bool) (g : B -> bool) l :
  (forall x, In x l -> f x = g (h x)) -> map h (filter f l) = filter g (map h l).
Proof.
  induction l as [|x l IH]; simpl; intro H; [reflexivity|].
  rewrite <- (H x (or_introl eq_refl)). destruct (f x); simpl; rewrite IH; auto.
Qed.

Lemma map_fst_filter {V} (f : key -> bool) (m : list (key * V)) :
  map fst (filter (fun kv => f (fst kv)) m) = filter f (map fst m).
Proof. induction m as [|[k v] m IH]; simpl; [reflexivity|]. destruct (f k); simpl; rewrite IH; reflexivity. Qed.

Lemma find_filter_head {A} (f : A -> bool) l : find f l = hd_error (filter f l).
Proof. induction l as [|x l IH]; simpl; [reflexivity|]. destruct (f x); [reflexivity|exact IH]. Qed.

Lemma find_map {A B} (h : A -> B) (g : B -> bool) l :
  find g (map h l) = option_map h (find (fun x => g (h x)) l).
Proof. induction l as [|x l IH]; simpl; [reflexivity|]. destruct (g (h x)); [reflexivity|exact IH]. Qed.

Lemma find_filter_implied {A} (f g : A -> bool) l :
  (forall x, In x l -> f x = true -> g x = true) -> find f (filter g l) = find f l.
Proof.
  induction l as [|x l IH]; simpl; intro H; [reflexivity|].
  destruct (g x) eqn:G; simpl.
  - destruct (f x); [reflexivity|apply IH; auto].
  - destruct (f x) eqn:F.
    + rewrite (H x (or_introl eq_refl) F) in G. discriminate.
    + apply IH. auto.
Qed.

Lemma SS_map {A B} (R : B -> B -> Prop) (f : A -> B) l :
  StronglySorted (fun x y => R (f x) (f y)) l -> StronglySorted R (map f l).
Proof.
  induction 1 as [|x l Hs IH Hall]; simpl; constructor; [exact IH|].
  apply Forall_forall. intros y Hy. apply in_map_iff in Hy. destruct Hy as [z [<- Hz]].
  rewrite Forall_forall in Hall. apply Hall. exact Hz.
Qed.

Lemma SS_filter {A} (R : A -> A -> Prop) (f : A -> bool) l : StronglySorted R l -> StronglySorted R (filter f l).
Proof.
  induction 1 as [|x l Hs IH Hall]; simpl; [constructor|].
  destruct (f x); [|exact IH]. constructor; [exact IH|].
  apply Forall_forall. intros y Hy. apply filter_In in Hy. rewrite Forall_forall in Hall. apply Hall, Hy.
Qed.

Lemma SS_impl_in {A} (R1 R2 : A -> A -> Prop) l :
  StronglySorted R1 l -> (forall x y, In x l -> In y l -> R1 x y -> R2 x y) -> StronglySorted R2 l.
Proof.
  induction 1 as [|x l Hs IH Hall]; intro H; constructor.
  - apply IH. intros a b Ha Hb. apply H; right; assumption.
  - apply Forall_forall. intros y Hy. rewrite Forall_forall in Hall.
    apply H; [left; reflexivity|right; exact Hy|apply Hall; exact Hy].
Qed.

Lemma SS_snoc {A} (R : A -> A -> Prop) l x :
  StronglySorted R l -> Forall (fun y => R y x) l -> StronglySorted R (l ++ [x]).
Proof.
  induction 1 as [|z l Hs IH Hall]; simpl; intro H.
  - constructor; constructor.
  - inversion H; subst. constructor; [apply IH; assumption|].
    apply Forall_app. split; [exact Hall|constructor; [assumption|constructor]].
Qed.

Lemma SS_rev {A} (R : A -> A -> Prop) l : StronglySorted R l -> StronglySorted (fun a b => R b a) (rev l).
Proof.
  induction 1 as [|x l Hs IH Hall]; simpl; [constructor|].
  apply SS_snoc; [exact IH|]. apply Forall_forall. intros y Hy. apply in_rev in Hy.
  rewrite Forall_forall in Hall. apply Hall. exact Hy.
Qed.

(* two strictly sorted lists with the same elements are equal *)
Lemma sorted_unique {A} (R : A -> A -> Prop) :
  (forall x, ~ R x x) -> (forall x y, R x y -> R y x -> False) ->
  forall l1 l2, StronglySorted R l1 -> StronglySorted R l2 -> (forall x, In x l1 <-> In x l2) -> l1 = l2.
Proof.
  intros Hirr Hasym. induction l1 as [|x l1 IH]; intros l2 H1 H2 Hiff.
  - destruct l2 as [|y l2]; [reflexivity|]. exfalso. apply (Hiff y). left. reflexivity.
  - destruct l2 as [|y l2]; [exfalso; apply (Hiff x); left; reflexivity|].
    inversion H1 as [|? ? S1 F1]; inversion H2 as [|? ? S2 F2]; subst.
    rewrite Forall_forall in F1, F2.
    assert (x = y).
    { destruct (proj1 (Hiff x) (or_introl eq_refl)) as [E|Hx]; [symmetry; exact E|].
      destruct (proj2 (Hiff y) (or_introl eq_refl)) as [E|Hy]; [exact E|].
      exfalso. eapply Hasym; [apply F1; exact Hy|apply F2; exact Hx]. }
    subst y. f_equal. apply IH; try assumption.
    intro z. split; intro Hz.
    + destruct (proj1 (Hiff z) (or_intror Hz)) as [E|H]; [|exact H]. subst z. exfalso. apply (Hirr x), F1, Hz.
    + destruct (proj2 (Hiff z) (or_intror Hz)) as [E|H]; [|exact H]. subst z. exfalso. apply (Hirr x), F2, Hz.
Qed.

(* ------------------------------------------------------------------ the keys of one index *)
Definition key_lt (a b : key) : Prop := cmp_slash a b = Lt.

Lemma keys_sorted m : sorted m -> StronglySorted key_lt (map fst m).
Proof. intro H. apply SS_map. exact H. Qed.

Lemma in_keys_present m k : sorted m -> (In k (map fst m) <-> present m k).
Proof.
  intro Hs. unfold present. split.
  - intro H. apply in_map_iff in H. destruct H as [[k' v] [E Hin]]. simpl in E. subst k'.
    rewrite (kv_in_get m k v Hs Hin). discriminate.
  - intro H. destruct (kv_get m k) as [v|] eqn:G; [|congruence].
    apply in_map_iff. exists (k, v). split; [reflexivity|apply kv_get_in; assumption].
Qed.

(* every key of index n is the index key of a declared pair of the alphabet *)
Lemma idx_keys_form m n k :
  inv m -> name_ok n -> In k (idx_keys m n) ->
  exists pk s, k = index_key pk (mkSIndex n s) /\ skey_ok s /\ pk_ok pk /\ declares m pk (mkSIndex n s).
Proof.
  intros Hi [_ Hn] Hin. unfold idx_keys in Hin. apply filter_In in Hin. destruct Hin as [Hin Hm].
  apply in_keys_present in Hin; [|apply (inv_wf m Hi)].
  destruct (inv_sound m Hi k Hin (in_index_is_idx _ _ Hm)) as [pk [si [E D]]].
  destruct (inv_ok m Hi _ _ D) as [[[Hn0 Hns] Hs] Hp].
  subst k. pose proof (in_index_index_key n pk si Hn Hns Hm) as En.
  destruct si as [n' s]. simpl in *. subst n'. exists pk, s. split; [reflexivity|]. split; [exact Hs|]. split; [exact Hp|exact D].
Qed.

Lemma parse_entry_index_key pk n s :
  name_ok n -> skey_ok s -> pk_ok pk -> parse_entry (index_key pk (mkSIndex n s)) = (s, pk).
Proof.
  intros Hn Hs Hp. unfold parse_entry. rewrite parse_index_key_ok; [reflexivity| |exact Hp]. split; assumption.
Qed.

Theorem entries_iff m n s pk :
  inv m -> name_ok n -> (In (s, pk) (index_entries m n) <-> declares m pk (mkSIndex n s)).
Proof.
  intros Hi Hn. unfold index_entries. split.
  - intro H. apply in_map_iff in H. destruct H as [k [E Hin]].
    destruct (idx_keys_form m n k Hi Hn Hin) as [pk' [s' [Ek [Hs [Hp D]]]]]. subst k.
    rewrite parse_entry_index_key in E by assumption. inversion E; subst. exact D.
  - intro D. destruct (inv_ok m Hi _ _ D) as [[_ Hs] Hp]. simpl in Hs.
    apply in_map_iff. exists (index_key pk (mkSIndex n s)). split.
    + apply parse_entry_index_key; assumption.
    + unfold idx_keys. apply filter_In. split.
      * apply in_keys_present; [apply (inv_wf m Hi)|]. apply (inv_complete m Hi). exact D.
      * rewrite index_key_range. apply in_index_range.
Qed.

(* comparisons of a key of index n with a bare "__oxia/idx/n/<skey>" and with another key of index n *)
Lemma cmp_member_vs_search n pk s key :
  name_ok n -> skey_ok s -> above1 key ->
  cmp_slash (index_key pk (mkSIndex n s)) (index_range_key n key) = match cmp_slash s key with Eq => Gt | c => c end.
Proof.
  intros [_ Hn] [_ Hs] Hk. rewrite index_key_range. simpl. rewrite cmp_index_same by exact Hn.
  apply cmp_entry_vs_key; assumption.
Qed.

Lemma member_ltb_search n pk s key :
  name_ok n -> skey_ok s -> above1 key ->
  key_ltb (index_key pk (mkSIndex n s)) (index_range_key n key) = key_ltb s key.
Proof.
  intros Hn Hs Hk. unfold key_ltb. rewrite cmp_member_vs_search by assumption.
  destruct (cmp_slash s key); reflexivity.
Qed.

Lemma cmp_members n pk s pk' s' :
  name_ok n -> skey_ok s -> skey_ok s' ->
  cmp_slash (index_key pk (mkSIndex n s)) (index_key pk' (mkSIndex n s')) = entry_cmp (s, pk) (s', pk').
Proof.
  intros [_ Hn] [_ Hs] [_ Hs']. rewrite !index_key_range. simpl. rewrite cmp_index_same by exact Hn.
  apply cmp_entry_vs_entry; assumption.
Qed.

Theorem entries_sorted m n : inv m -> name_ok n -> StronglySorted entry_lt (index_entries m n).
Proof.
  intros Hi Hn. unfold index_entries. apply SS_map.
  apply (SS_impl_in key_lt).
  - unfold idx_keys. apply SS_filter. apply keys_sorted. apply (inv_wf m Hi).
  - intros x y Hx Hy Hlt.
    destruct (idx_keys_form m n x Hi Hn Hx) as [pk [s [Ex [Hs [Hp _]]]]].
    destruct (idx_keys_form m n y Hi Hn Hy) as [pk' [s' [Ey [Hs' [Hp' _]]]]]. subst x y.
    rewrite !parse_entry_index_key by assumption. unfold entry_lt. rewrite <- (cmp_members n) by assumption. exact Hlt.
Qed.

Lemma entry_cmp_refl a : entry_cmp a a = Eq.
Proof. unfold entry_cmp. rewrite cmp_slash_refl. apply bytes_cmp_eq. reflexivity. Qed.

Lemma entry_cmp_antisym a b : entry_cmp b a = CompOpp (entry_cmp a b).
Proof.
  unfold entry_cmp. rewrite (cmp_slash_antisym (fst a) (fst b)).
  destruct (cmp_slash (fst a) (fst b)); simpl; try reflexivity. apply bytes_cmp_anti.
Qed.

(* the reference is unique: any strictly sorted list of the declared pairs is [index_entries] *)
Theorem entries_unique m n E :
  inv m -> name_ok n -> StronglySorted entry_lt E ->
  (forall s pk, In (s, pk) E <-> declares m pk (mkSIndex n s)) -> E = index_entries m n.
Proof.
  intros Hi Hn Hs Hiff. apply (sorted_unique entry_lt).
  - intros x H. unfold entry_lt in H. rewrite entry_cmp_refl in H. discriminate.
  - intros x y H1 H2. unfold entry_lt in *. rewrite entry_cmp_antisym, H1 in H2. discriminate.
  - exact Hs.
  - apply entries_sorted; assumption.
  - intros [s pk]. rewrite Hiff. symmetry. apply entries_iff; assumption.
Qed.

(* ------------------------------------------------------------------ list / range-scan *)
Definition in_skey_range (a b : bytes) (e : ientry) : bool := key_leb a (fst e) && key_ltb (fst e) b.

Lemma key_leb_negb_ltb a b : key_leb a b = negb (key_ltb b a).
Proof. unfold key_leb, key_ltb. rewrite (cmp_slash_antisym a b). destruct (cmp_slash a b); reflexivity. Qed.

Lemma kv_bound_range n a : kv_bound (index_range_key n a) = Some (index_range_key n a).
Proof. reflexivity. Qed.

Lemma range_keys_are_members n a b k :
  name_ok n -> key_in_range (Some (index_range_key n a)) (Some (index_range_key n b)) k = true -> in_index n k = true.
Proof.
  intros [_ Hn] H. unfold key_in_range, in_range in H. apply andb_true_iff in H. destruct H as [H1 H2].
  unfold SortedMap.leb in H1. unfold SortedMap.ltb in H2.
  destruct (index_convex n a b k Hn) as [r [E _]].
  - destruct (cmp_slash (index_range_key n a) k); [discriminate|discriminate|discriminate H1].
  - destruct (cmp_slash k (index_range_key n b)); try discriminate.
  - subst k. apply in_index_range.
Qed.

Lemma member_in_range n a b pk s :
  name_ok n -> skey_ok s -> above1 a -> above1 b ->
  key_in_range (Some (index_range_key n a)) (Some (index_range_key n b)) (index_key pk (mkSIndex n s))
  = in_skey_range a b (s, pk).
Proof.
  intros Hn Hs Ha Hb. unfold key_in_range, in_range, in_skey_range, SortedMap.leb, SortedMap.ltb. simpl.
  rewrite (cmp_slash_antisym (index_key pk (mkSIndex n s)) (index_range_key n a)).
  rewrite !cmp_member_vs_search by assumption.
  unfold key_leb, key_ltb. rewrite (cmp_slash_antisym s a).
  destruct (cmp_slash s a); destruct (cmp_slash s b); reflexivity.
Qed.

(* the keys List("__oxia/idx/n/a", "__oxia/idx/n/b") returns, as entries *)
Lemma index_scan_keys_entries st n a b :
  inv (st_kv st) -> name_ok n -> above1 a -> above1 b ->
  exists ks, index_scan_keys st n a b = ks /\ (forall k, In k ks -> In k (idx_keys (st_kv st) n)) /\
             map parse_entry ks = filter (in_skey_range a b) (index_entries (st_kv st) n).
Proof.
  intros Hi Hn Ha Hb. set (m := st_kv st) in *.
  unfold index_scan_keys, db_list. rewrite !kv_bound_range. unfold kv_range, sm_range. fold m.
  set (lo := index_range_key n a). set (hi := index_range_key n b).
  rewrite (map_fst_filter (in_range cmp_slash (Some lo) (Some hi))).
  eexists. split; [reflexivity|].
  assert (E : filter (in_range cmp_slash (Some lo) (Some hi)) (map fst m) =
              filter (in_range cmp_slash (Some lo) (Some hi)) (idx_keys m n)).
  { unfold idx_keys. symmetry. apply filter_implied. intros x _ Hx. eapply range_keys_are_members; eassumption. }
  rewrite E. split.
  - intros k Hk. apply filter_In in Hk. apply Hk.
  - unfold index_entries. apply map_filter_ext. intros k Hk.
    destruct (idx_keys_form m n k Hi Hn Hk) as [pk [s [Ek [Hs [Hp _]]]]]. subst k.
    rewrite parse_entry_index_key by assumption. apply member_in_range; assumption.
Qed.

Lemma index_primary_keys_ok m n ks :
  inv m -> name_ok n -> (forall k, In k ks -> In k (idx_keys m n)) ->
  index_primary_keys ks = Ok (map snd (map parse_entry ks)).
Proof.
  intros Hi Hn. induction ks as [|k tl IH]; intro H; [reflexivity|].
  destruct (idx_keys_form m n k Hi Hn (H k (or_introl eq_refl))) as [pk [s [Ek [Hs [Hp _]]]]]. subst k.
  simpl. rewrite parse_entry_index_key by assumption.
  rewrite parse_index_key_ok; [|split; assumption|exact Hp].
  rewrite IH by (intros k Hk; apply H; right; exact Hk). reflexivity.
Qed.

Theorem secondary_list_ref st n a b :
  inv (st_kv st) -> name_ok n -> above1 a -> above1 b ->
  secondary_list st n a b = Ok (map snd (filter (in_skey_range a b) (index_entries (st_kv st) n))).
Proof.
  intros Hi Hn Ha Hb. unfold secondary_list.
  destruct (index_scan_keys_entries st n a b Hi Hn Ha Hb) as [ks [E [Hin Hmap]]]. rewrite E.
  rewrite (index_primary_keys_ok (st_kv st) n ks Hi Hn Hin). rewrite Hmap. reflexivity.
Qed.

(* the response for the record at primary key pk, as RangeScan / Get with a secondary index build it *)
Definition record_resp (m : kvmap) (pk : key) (incl : bool) (skey : option bytes) : get_resp :=
  match kv_get m pk with
  | Some (VRecord r) => mkGetResp OK (Some pk) (if incl then Some (e_value r) else None) (Some (version_of r)) skey
  | _ => get_not_found
  end.

Lemma gets_of_ok st n pks :
  (forall pk, In pk pks -> exists s, declares (st_kv st) pk (mkSIndex n s)) ->
  gets_of st pks = Ok (map (fun pk => record_resp (st_kv st) pk true None) pks).
Proof.
  induction pks as [|pk tl IH]; intro H; [reflexivity|].
  destruct (H pk (or_introl eq_refl)) as [s [r [G _]]].
  simpl. unfold db_get, kv_lookup. rewrite G. simpl.
  rewrite IH by (intros x Hx; apply H; right; exact Hx).
  unfold record_resp. rewrite G. reflexivity.
Qed.

Theorem secondary_range_scan_ref st n a b :
  inv (st_kv st) -> name_ok n -> above1 a -> above1 b ->
  secondary_range_scan st n a b =
  Ok (map (fun e : ientry => record_resp (st_kv st) (snd e) true None) (filter (in_skey_range a b) (index_entries (st_kv st) n))).
Proof.
  intros Hi Hn Ha Hb. unfold secondary_range_scan. rewrite secondary_list_ref by assumption.
  rewrite (gets_of_ok st n).
  - rewrite map_map. reflexivity.
  - intros pk Hin. apply in_map_iff in Hin. destruct Hin as [[s pk'] [E Hin]]. simpl in E. subst pk'.
    apply filter_In in Hin. destruct Hin as [Hin _]. exists s. apply entries_iff; assumption.
Qed.

(* ------------------------------------------------------------------ get *)
Definition ref_ceiling (E : list ientry) (key : bytes) : option ientry := find (fun e : ientry => key_leb key (fst e)) E.
Definition ref_higher (E : list ientry) (key : bytes) : option ientry := find (fun e : ientry => key_ltb key (fst e)) E.
Definition ref_equal (E : list ientry) (key : bytes) : option ientry :=
  match ref_ceiling E key with
  | Some e => if key_eqb (fst e) key then Some e else None
  | None => None
  end.
Definition ref_lower (E : list ientry) (key : bytes) : option ientry :=
  hd_error (rev (filter (fun e : ientry => key_ltb (fst e) key) E)).
Definition ref_floor (E : list ientry) (key : bytes) : option ientry :=
  match ref_equal E key with Some e => Some e | None => ref_lower E key end.
Definition ref_get (E : list ientry) (key : bytes) (c : cmp_type) : option ientry :=
  match c with
  | CEqual => ref_equal E key
  | CFloor => ref_floor E key
  | CCeiling => ref_ceiling E key
  | CLower => ref_lower E key
  | CHigher => ref_higher E key
  end.

Definition sg_of (o : option ientry) : sget_result :=
  match o with Some (s, pk) => SGFound pk s | None => SGNone end.

(* the walk on a list of keys that all belong to the index *)
Fixpoint mwalk (key : bytes) (c : cmp_type) (ks : list Types.key) : sget_result :=
  match ks with
  | [] => SGNone
  | k :: tl => match sget_step key c k with Some r => r | None => mwalk key c tl end
  end.

(* a list in which the keys of the index come first: x before y and y in the index => x in the index *)
Definition mem_first (n : bytes) (x y : Types.key) : Prop := in_index n y = true -> in_index n x = true.

Lemma filter_none_after n x l :
  StronglySorted (mem_first n) (x :: l) -> in_index n x = false -> filter (in_index n) l = [].
Proof.
  intros H Hx. inversion H as [|? ? _ Hall]; subst. rewrite Forall_forall in Hall. clear H.
  induction l as [|y l IH]; simpl; [reflexivity|].
  destruct (in_index n y) eqn:Hy.
  - exfalso. rewrite (Hall y (or_introl eq_refl) Hy) in Hx. discriminate.
  - apply IH. intros z Hz. apply Hall. right. exact Hz.
Qed.

Lemma sget_walk_members n key c l :
  StronglySorted (mem_first n) l -> sget_walk n key c l = mwalk key c (filter (in_index n) l).
Proof.
  induction l as [|x l IH]; intro H; [reflexivity|].
  simpl. destruct (in_index n x) eqn:Hx.
  - simpl. destruct (sget_step key c x); [reflexivity|]. apply IH. inversion H; assumption.
  - rewrite (filter_none_after n x l H Hx). reflexivity.
Qed.

(* the walk on entries *)
Definition estep (key : bytes) (c : cmp_type) (e : ientry) : option sget_result :=
  let found := SGFound (snd e) (fst e) in
  match c with
  | CEqual => Some (match cmp_slash key (fst e) with Eq => found | _ => SGNone end)
  | CFloor => match cmp_slash key (fst e) with Lt => None | _ => Some found end
  | CLower => match cmp_slash key (fst e) with Gt => Some found | _ => None end
  | CCeiling => Some found
  | CHigher => match cmp_slash key (fst e) with Lt => Some found | _ => None end
  end.

Fixpoint ewalk (key : bytes) (c : cmp_type) (E : list ientry) : sget_result :=
  match E with
  | [] => SGNone
  | e :: tl => match estep key c e with Some r => r | None => ewalk key c tl end
  end.

Lemma sget_step_member n key c pk s :
  name_ok n -> skey_ok s -> pk_ok pk -> sget_step key c (index_key pk (mkSIndex n s)) = estep key c (s, pk).
Proof.
  intros Hn Hs Hp. unfold sget_step. rewrite parse_index_key_ok; [|split; assumption|exact Hp]. simpl.
  destruct Hp as [Hne _]. destruct pk as [|p0 ptl]; [congruence|].
  unfold estep. simpl. destruct c; destruct (cmp_slash key s); reflexivity.
Qed.

Lemma mwalk_entries m n key c ks :
  inv m -> name_ok n -> (forall k, In k ks -> In k (idx_keys m n)) ->
  mwalk key c ks = ewalk key c (map parse_entry ks).
Proof.
  intros Hi Hn. induction ks as [|k tl IH]; intro H; [reflexivity|].
  destruct (idx_keys_form m n k Hi Hn (H k (or_introl eq_refl))) as [pk [s [Ek [Hs [Hp _]]]]]. subst k.
  simpl. rewrite parse_entry_index_key by assumption. rewrite (sget_step_member n) by assumption.
  destruct (estep key c (s, pk)); [reflexivity|]. apply IH. intros k Hk. apply H. right. exact Hk.
Qed.

(* entry-level results *)
Lemma ewalk_ceiling key E : ewalk key CCeiling E = sg_of (hd_error E).
Proof. destruct E as [|[s pk] tl]; reflexivity. Qed.

Lemma ewalk_equal key E :
  ewalk key CEqual E = sg_of (match hd_error E with Some e => if key_eqb (fst e) key then Some e else None | None => None end).
Proof.
  destruct E as [|[s pk] tl]; [reflexivity|]. simpl. unfold key_eqb. rewrite (cmp_slash_antisym key s).
  destruct (cmp_slash key s); reflexivity.
Qed.

Lemma ewalk_higher key E : ewalk key CHigher E = sg_of (find (fun e : ientry => key_ltb key (fst e)) E).
Proof.
  induction E as [|[s pk] tl IH]; [reflexivity|]. simpl. unfold key_ltb at 1.
  destruct (cmp_slash key s); try exact IH. reflexivity.
Qed.

Lemma ewalk_below key c E :
  (c = CLower \/ c = CFloor) -> Forall (fun e : ientry => key_ltb (fst e) key = true) E -> ewalk key c E = sg_of (hd_error E).
Proof.
  intros Hc H. destruct E as [|[s pk] tl]; [reflexivity|]. inversion H as [|? ? Hs _]; subst. simpl in Hs.
  unfold key_ltb in Hs. destruct Hc as [->| ->]; simpl; rewrite (cmp_slash_antisym s key);
    destruct (cmp_slash s key); try discriminate; reflexivity.
Qed.

Section Get.
  Variable st : state.
  Variable n key : bytes.
  Hypothesis Hi : inv (st_kv st).
  Hypothesis Hn : name_ok n.
  Hypothesis Hk : above1 key.

  Let m := st_kv st.
  Let ks := map fst m.
  Let S := index_range_key n key.
  Let I := idx_keys m n.
  Let E := index_entries m n.
  Let before := rev (filter (fun k => key_ltb k S) ks).
  Let after := filter (fun k => negb (key_ltb k S)) ks.

  Lemma ks_sorted : StronglySorted key_lt ks.
  Proof. apply keys_sorted. apply (inv_wf m Hi). Qed.

  Lemma after_mem_first : StronglySorted (mem_first n) after.
  Proof.
    apply (SS_impl_in key_lt); [apply SS_filter, ks_sorted|].
    intros x y Hx Hy Hlt Hmy. apply filter_In in Hx. destruct Hx as [_ Hx].
    apply in_index_iff in Hmy. destruct Hmy as [r ->].
    destruct (index_convex n key r x (proj2 Hn)) as [r' [-> _]].
    - fold S. unfold key_ltb in Hx. rewrite (cmp_slash_antisym x S). destruct (cmp_slash x S); simpl in *; congruence.
    - unfold key_lt in Hlt. rewrite Hlt. discriminate.
    - apply in_index_range.
  Qed.

  Lemma before_mem_first : StronglySorted (mem_first n) before.
  Proof.
    apply (SS_impl_in (fun a b => key_lt b a)); [apply SS_rev, SS_filter, ks_sorted|].
    intros x y Hx Hy Hlt Hmy. unfold before in Hx. apply in_rev in Hx. apply filter_In in Hx. destruct Hx as [_ Hx].
    apply in_index_iff in Hmy. destruct Hmy as [r ->].
    destruct (index_convex n r key x (proj2 Hn)) as [r' [-> _]].
    - unfold key_lt in Hlt. rewrite Hlt. discriminate.
    - fold S. unfold key_ltb in Hx. destruct (cmp_slash x S); congruence.
    - apply in_index_range.
  Qed.

  Lemma member_lt_search k : In k I -> key_ltb k S = key_ltb (fst (parse_entry k)) key.
  Proof.
    intro Hin. destruct (idx_keys_form m n k Hi Hn Hin) as [pk [s [Ek [Hs [Hp _]]]]]. subst k.
    rewrite parse_entry_index_key by assumption. apply member_ltb_search; assumption.
  Qed.

  Lemma after_entries :
    (forall k, In k (filter (in_index n) after) -> In k I) /\
    map parse_entry (filter (in_index n) after) = filter (fun e : ientry => negb (key_ltb (fst e) key)) E.
  Proof.
    unfold after. rewrite filter_filter_comm. fold I. split.
    - intros k Hin. apply filter_In in Hin. apply Hin.
    - unfold E, index_entries. fold I. apply map_filter_ext. intros k Hin. rewrite member_lt_search by exact Hin. reflexivity.
  Qed.

  Lemma before_entries :
    (forall k, In k (filter (in_index n) before) -> In k I) /\
    map parse_entry (filter (in_index n) before) = rev (filter (fun e : ientry => key_ltb (fst e) key) E).
  Proof.
    unfold before. rewrite filter_rev_comm, filter_filter_comm. fold I. split.
    - intros k Hin. apply in_rev in Hin. apply filter_In in Hin. apply Hin.
    - rewrite map_rev. f_equal. unfold E, index_entries. fold I. apply map_filter_ext. apply member_lt_search.
  Qed.

  Lemma walk_after c : sget_walk n key c after = ewalk key c (filter (fun e : ientry => negb (key_ltb (fst e) key)) E).
  Proof.
    rewrite sget_walk_members by apply after_mem_first. destruct after_entries as [H1 H2].
    rewrite (mwalk_entries m n) by assumption. rewrite H2. reflexivity.
  Qed.

  Lemma walk_before c : sget_walk n key c before = ewalk key c (rev (filter (fun e : ientry => key_ltb (fst e) key) E)).
  Proof.
    rewrite sget_walk_members by apply before_mem_first. destruct before_entries as [H1 H2].
    rewrite (mwalk_entries m n) by assumption. rewrite H2. reflexivity.
  Qed.

  Lemma below_forall : Forall (fun e : ientry => key_ltb (fst e) key = true) (rev (filter (fun e : ientry => key_ltb (fst e) key) E)).
  Proof. apply Forall_forall. intros e He. apply in_rev in He. apply filter_In in He. apply He. Qed.

  Lemma ge_filter_ceiling : hd_error (filter (fun e : ientry => negb (key_ltb (fst e) key)) E) = ref_ceiling E key.
  Proof.
    unfold ref_ceiling. rewrite find_filter_head. f_equal. apply filter_ext. intro e. symmetry. apply key_leb_negb_ltb.
  Qed.

  Theorem do_secondary_get_ref c : do_secondary_get st n key c = sg_of (ref_get E key c).
  Proof.
    unfold do_secondary_get. fold m ks S before after.
    destruct c; simpl ref_get.
    - (* EQUAL *) rewrite walk_after, ewalk_equal, ge_filter_ceiling. reflexivity.
    - (* FLOOR *)
      assert (Hlow : sget_walk n key CFloor before = sg_of (ref_lower E key)).
      { rewrite walk_before. apply ewalk_below; [right; reflexivity|apply below_forall]. }
      unfold ref_floor, ref_equal. rewrite <- ge_filter_ceiling.
      destruct after_entries as [A1 A2]. rewrite <- A2.
      pose proof after_mem_first as AM.
      assert (AG : forall k, In k after -> key_ltb k S = false).
      { intros k Hin. unfold after in Hin. apply filter_In in Hin. destruct Hin as [_ Hx]. apply negb_true_iff in Hx. exact Hx. }
      clear A2. revert A1 AM AG. generalize after. intros aft A1 AM AG.
      destruct aft as [|k tl].
      + simpl. exact Hlow.
      + destruct (in_index n k) eqn:Hm.
        * assert (Hin : In k I) by (apply A1; simpl; rewrite Hm; left; reflexivity).
          destruct (idx_keys_form m n k Hi Hn Hin) as [pk [s [Ek [Hs [Hp _]]]]].
          assert (SS : StronglySorted (mem_first n) (k :: before)).
          { constructor; [apply before_mem_first|]. apply Forall_forall. intros y _ _. exact Hm. }
          rewrite sget_walk_members by exact SS. simpl filter. rewrite Hm.
          simpl mwalk. simpl map. simpl hd_error.
          pose proof (AG k (or_introl eq_refl)) as Hge.
          subst k. rewrite (sget_step_member n) by assumption. rewrite parse_entry_index_key by assumption.
          unfold S in Hge. rewrite member_ltb_search in Hge by assumption.
          assert (Q1 : key_eqb s key = match cmp_slash key s with Eq => true | _ => false end).
          { unfold key_eqb. rewrite (cmp_slash_antisym key s). destruct (cmp_slash key s); reflexivity. }
          assert (Q2 : key_ltb s key = match cmp_slash key s with Gt => true | _ => false end).
          { unfold key_ltb. rewrite (cmp_slash_antisym key s). destruct (cmp_slash key s); reflexivity. }
          unfold estep. cbn [fst snd]. rewrite Q1. rewrite Q2 in Hge.
          destruct (cmp_slash key s) eqn:C; try discriminate Hge.
          -- reflexivity.
          -- destruct before_entries as [B1 B2].
             rewrite (mwalk_entries m n) by assumption. rewrite B2.
             apply ewalk_below; [right; reflexivity|apply below_forall].
        * simpl filter. rewrite Hm. rewrite (filter_none_after n k tl AM Hm). simpl. exact Hlow.
    - (* CEILING *) rewrite walk_after, ewalk_ceiling, ge_filter_ceiling. reflexivity.
    - (* LOWER *) rewrite walk_before. apply ewalk_below; [left; reflexivity|apply below_forall].
    - (* HIGHER *) rewrite walk_after, ewalk_higher. unfold ref_higher. f_equal.
      apply find_filter_implied. intros e _ He. unfold key_ltb in *. rewrite (cmp_slash_antisym key (fst e)).
      destruct (cmp_slash key (fst e)); simpl; try discriminate. reflexivity.
  Qed.

  Theorem secondary_get_ref c incl :
    secondary_get st n key c incl =
    Ok (match ref_get E key c with
        | Some (s, pk) => record_resp m pk incl (Some s)
        | None => get_not_found
        end).
  Proof.
    unfold secondary_get. rewrite do_secondary_get_ref.
    destruct (ref_get E key c) as [[s pk]|] eqn:R; simpl; [|reflexivity].
    assert (Hin : In (s, pk) E).
    { clear -R. unfold ref_get, ref_floor, ref_equal, ref_ceiling, ref_higher, ref_lower in R.
      assert (F : forall f o, find f E = Some o -> In o E) by (intros f o H; apply find_some in H; apply H).
      assert (L : forall f o, hd_error (rev (filter f E)) = Some o -> In o E).
      { intros f o H. destruct (rev (filter f E)) as [|x l] eqn:Er; [discriminate|]. inversion H; subst x.
        assert (Hx : In o (rev (filter f E))) by (rewrite Er; left; reflexivity).
        apply in_rev in Hx. apply filter_In in Hx. apply Hx. }
      destruct c.
      - destruct (find _ E) as [e|] eqn:Fe; [|discriminate]. destruct (key_eqb (fst e) key); inversion R; subst. eapply F; exact Fe.
      - destruct (find _ E) as [e|] eqn:Fe.
        + destruct (key_eqb (fst e) key); [inversion R; subst; eapply F; exact Fe|eapply L; exact R].
        + eapply L; exact R.
      - eapply F; exact R.
      - eapply L; exact R.
      - eapply F; exact R. }
    apply entries_iff in Hin; [|exact Hi|exact Hn]. destruct Hin as [r [G _]].
    unfold db_get, kv_lookup. fold m. rewrite G. simpl. unfold record_resp. rewrite G. reflexivity.
  Qed.
End Get.
