(* Db/C16_Keys.v — lemmas about the layout of sequence keys (helper of Proofs_C16.v):
     prefix cancellation and "betweenness" for CompareWithSlash, the greatest-key-below lookup (FindLower),
     %020d / Sscanf round trip and order, strings.Split on a generated suffix. *)
From Coq Require Import List NArith ZArith Bool Lia PeanoNat Sorting.Sorted.
From Oxia.KeyOrder Require Import Model Proofs.
From Oxia.Db Require Import Types Bytes Keys Kv SortedMap SortedMapProofs KeyFacts KvProofs NumProofs Sequences.
Import ListNotations.
Open Scope N_scope.

(* ================================================================ prefixes *)
Lemma drop_prefix_app p l : drop_prefix p (p ++ l) = l.
Proof. unfold drop_prefix. induction p as [|x p IH]; simpl; [reflexivity|exact IH]. Qed.

Lemma has_prefix_refl p : has_prefix p p = true.
Proof. rewrite <- (app_nil_r p) at 2. apply has_prefix_app. Qed.

(* two prefixes of the same string are comparable *)
Lemma has_prefix_comparable p q k :
  has_prefix p k = true -> has_prefix q k = true -> has_prefix p q = true \/ has_prefix q p = true.
Proof.
  revert q k. induction p as [|x p IH]; intros q k Hp Hq; [left; reflexivity|].
  destruct q as [|y q]; [right; reflexivity|].
  destruct k as [|z k]; [discriminate|]. simpl in *.
  apply andb_true_iff in Hp. destruct Hp as [Hx Hp]. apply andb_true_iff in Hq. destruct Hq as [Hy Hq].
  apply N.eqb_eq in Hx. apply N.eqb_eq in Hy. subst. rewrite N.eqb_refl. simpl.
  destruct (IH q k Hp Hq) as [H|H]; [left|right]; exact H.
Qed.

Lemma has_prefix_trans p q k : has_prefix p q = true -> has_prefix q k = true -> has_prefix p k = true.
Proof.
  intros H1 H2. apply has_prefix_iff in H1. destruct H1 as [l1 ->]. apply has_prefix_iff in H2. destruct H2 as [l2 ->].
  rewrite <- app_assoc. apply has_prefix_app.
Qed.

(* ================================================================ bytes.Compare *)
Lemma bytes_cmp_refl a : bytes_cmp a a = Eq.
Proof. apply bytes_cmp_eq. reflexivity. Qed.

Lemma bytes_cmp_app_cancel p a b : bytes_cmp (p ++ a) (p ++ b) = bytes_cmp a b.
Proof. induction p as [|x p IH]; simpl; [reflexivity|]. rewrite N.compare_refl. exact IH. Qed.

(* strings of equal length: the first difference decides, whatever follows *)
Lemma bytes_cmp_app_eqlen a : forall b x y, length a = length b -> a <> b -> bytes_cmp (a ++ x) (b ++ y) = bytes_cmp a b.
Proof.
  induction a as [|c a IH]; intros [|d b] x y Hl Hne; simpl in *; try discriminate; [congruence|].
  destruct (N.compare c d) eqn:C; try reflexivity.
  apply N.compare_eq in C. subst. apply IH; [congruence|]. intro E. apply Hne. congruence.
Qed.

Lemma bytes_cmp_between p : forall a b k,
  bytes_cmp (p ++ a) k <> Gt -> bytes_cmp k (p ++ b) = Lt -> exists c, k = p ++ c.
Proof.
  induction p as [|x p IH]; intros a b k H1 H2; [exists k; reflexivity|].
  destruct k as [|y k]; simpl in *; [exfalso; apply H1; reflexivity|].
  destruct (N.compare x y) eqn:C1.
  - apply N.compare_eq in C1. subst. rewrite N.compare_refl in H2.
    destruct (IH a b k H1 H2) as [c ->]. exists c. reflexivity.
  - rewrite N.compare_antisym, C1 in H2. discriminate.
  - exfalso. apply H1. reflexivity.
Qed.

(* ================================================================ CompareWithSlash *)
Lemma cmp_slash_cons x a b : cmp_slash (x :: a) (x :: b) = cmp_slash a b.
Proof.
  rewrite !cmp_slash_spec. unfold spec_cmp, lex_cmp. cbn [enc].
  destruct (N.eqb x SLASH).
  - cbn [lex]. unfold seg_cmp at 1. cbn [fst snd bytes_cmp]. reflexivity.
  - pose proof (enc_nonnil a) as Ha. pose proof (enc_nonnil b) as Hb.
    destruct (enc a) as [|[f s] ta]; [congruence|]. destruct (enc b) as [|[g t] tb]; [congruence|].
    cbn [lex]. unfold seg_cmp. cbn [fst snd bytes_cmp]. rewrite N.compare_refl.
    destruct f, g; reflexivity.
Qed.

Lemma cmp_slash_app_cancel p a b : cmp_slash (p ++ a) (p ++ b) = cmp_slash a b.
Proof. induction p as [|x p IH]; simpl; [reflexivity|]. rewrite cmp_slash_cons. exact IH. Qed.

Definition no_slash (s : bytes) : Prop := split_slash s = None.

Lemma split_slash_none_iff s : split_slash s = None <-> Forall (fun c => c <> SLASH) s.
Proof.
  induction s as [|x s IH]; simpl; [split; [constructor|reflexivity]|].
  destruct (N.eqb x SLASH) eqn:E.
  - split; [discriminate|]. intro H. inversion H; subst. apply N.eqb_eq in E. contradiction.
  - apply N.eqb_neq in E. destruct (split_slash s) as [[sp r]|].
    + split; [discriminate|]. intro H. inversion H; subst. apply IH in H3. discriminate.
    + split; [|reflexivity]. intros _. constructor; [exact E|]. apply IH. reflexivity.
Qed.

Lemma no_slash_app a b : no_slash a -> no_slash b -> no_slash (a ++ b).
Proof. unfold no_slash. rewrite !split_slash_none_iff. intros. apply Forall_app. split; assumption. Qed.

Lemma split_slash_some_eq a : forall s r, split_slash a = Some (s, r) -> a = s ++ SLASH :: r.
Proof.
  induction a as [|x a IH]; simpl; intros s r H; [discriminate|].
  destruct (N.eqb x SLASH) eqn:E.
  - inversion H; subst. apply N.eqb_eq in E. subst. reflexivity.
  - destruct (split_slash a) as [[s' r']|]; [|discriminate]. inversion H; subst. simpl. f_equal. apply IH. reflexivity.
Qed.

Lemma split_slash_app a : forall x,
  split_slash (a ++ x) = match split_slash a with
                         | Some (s, r) => Some (s, r ++ x)
                         | None => match split_slash x with Some (s, r) => Some (a ++ s, r) | None => None end
                         end.
Proof.
  induction a as [|c a IH]; intro x; simpl; [destruct (split_slash x) as [[s r]|]; reflexivity|].
  destruct (N.eqb c SLASH); [reflexivity|]. rewrite IH.
  destruct (split_slash a) as [[s r]|]; [reflexivity|]. destruct (split_slash x) as [[s r]|]; reflexivity.
Qed.

Lemma cmp_slash_both_slash a b sa ra sb rb :
  split_slash a = Some (sa, ra) -> split_slash b = Some (sb, rb) ->
  cmp_slash a b = match bytes_cmp sa sb with Eq => cmp_slash ra rb | c => c end.
Proof.
  intros Ha Hb. rewrite !cmp_slash_spec. unfold spec_cmp, lex_cmp.
  rewrite (enc_slash _ _ _ Ha), (enc_slash _ _ _ Hb). cbn [lex]. unfold seg_cmp. cbn [fst snd]. reflexivity.
Qed.

Lemma cmp_slash_slash_vs_no_slash a b s r : split_slash a = Some (s, r) -> split_slash b = None -> cmp_slash a b = Gt.
Proof.
  intros Ha Hb. rewrite cmp_slash_antisym, (cmp_slash_no_slash_vs_slash _ _ _ _ Hb Ha). reflexivity.
Qed.

(* a key between two keys that share a prefix, with slash-free remainders, has that prefix *)
Lemma cmp_slash_between : forall n p, (length p <= n)%nat -> forall a b k,
  no_slash a -> no_slash b ->
  cmp_slash (p ++ a) k <> Gt -> cmp_slash k (p ++ b) = Lt -> exists c, k = p ++ c.
Proof.
  induction n as [|n IH]; intros p Hn a b k Ha Hb H1 H2.
  - destruct p; [exists k; reflexivity|simpl in Hn; lia].
  - destruct (split_slash p) as [[s r]|] eqn:Sp.
    + (* the first segment is inside p *)
      pose proof (split_slash_some_eq _ _ _ Sp) as Ep.
      assert (Sa : split_slash (p ++ a) = Some (s, r ++ a)) by (rewrite split_slash_app, Sp; reflexivity).
      assert (Sb : split_slash (p ++ b) = Some (s, r ++ b)) by (rewrite split_slash_app, Sp; reflexivity).
      destruct (split_slash k) as [[sk rk]|] eqn:Sk.
      * rewrite (cmp_slash_both_slash _ _ _ _ _ _ Sa Sk) in H1.
        rewrite (cmp_slash_both_slash _ _ _ _ _ _ Sk Sb) in H2.
        destruct (bytes_cmp s sk) eqn:C.
        -- apply bytes_cmp_eq in C. subst sk. rewrite bytes_cmp_refl in H2.
           assert (Hr : (length r <= n)%nat).
           { pose proof (split_slash_length _ _ _ Sp). lia. }
           destruct (IH r Hr a b rk Ha Hb H1 H2) as [c Hc].
           exists c. rewrite (split_slash_some_eq _ _ _ Sk), Hc, Ep. rewrite <- app_assoc. reflexivity.
        -- rewrite bytes_cmp_anti, C in H2. discriminate.
        -- exfalso. apply H1. reflexivity.
      * rewrite (cmp_slash_slash_vs_no_slash _ _ _ _ Sa Sk) in H1. exfalso. apply H1. reflexivity.
    + (* no slash at all on both bounds *)
      assert (Sa : split_slash (p ++ a) = None) by (rewrite split_slash_app, Sp, Ha; reflexivity).
      assert (Sb : split_slash (p ++ b) = None) by (rewrite split_slash_app, Sp, Hb; reflexivity).
      destruct (split_slash k) as [[sk rk]|] eqn:Sk.
      * rewrite (cmp_slash_slash_vs_no_slash _ _ _ _ Sk Sb) in H2. discriminate.
      * rewrite (cmp_slash_no_slash _ _ Sa Sk) in H1. rewrite (cmp_slash_no_slash _ _ Sk Sb) in H2.
        eapply bytes_cmp_between; eassumption.
Qed.

Lemma cmp_slash_between_prefix p a b k :
  no_slash a -> no_slash b -> cmp_slash (p ++ a) k <> Gt -> cmp_slash k (p ++ b) = Lt -> has_prefix p k = true.
Proof.
  intros Ha Hb H1 H2. destruct (cmp_slash_between (length p) p (le_n _) a b k Ha Hb H1 H2) as [c ->].
  apply has_prefix_app.
Qed.

(* slash-free remainders after a common prefix are compared bytewise *)
Lemma cmp_slash_prefix_bytes p a b : no_slash a -> no_slash b -> cmp_slash (p ++ a) (p ++ b) = bytes_cmp a b.
Proof. intros Ha Hb. rewrite cmp_slash_app_cancel. apply cmp_slash_no_slash; assumption. Qed.

(* ================================================================ FindLower: the greatest key below *)
Lemma sm_lower_fold (m : kvmap) k : forall acc,
  fold_left (fun acc kv => if SortedMap.ltb cmp_slash (fst kv) k then Some kv else acc) m acc =
  match fold_left (fun acc kv => if SortedMap.ltb cmp_slash (fst kv) k then Some kv else acc) m None with
  | Some x => Some x
  | None => acc
  end.
Proof.
  induction m as [|kv m IH]; intro acc; simpl; [reflexivity|].
  destruct (SortedMap.ltb cmp_slash (fst kv) k).
  - rewrite (IH (Some kv)). destruct (fold_left _ m None); reflexivity.
  - apply IH.
Qed.

Lemma kv_lower_spec m k :
  sorted m ->
  match kv_lower m k with
  | Some (k', v) => kv_get m k' = Some v /\ cmp_slash k' k = Lt /\
                    (forall k2 v2, kv_get m k2 = Some v2 -> cmp_slash k2 k = Lt -> cmp_slash k2 k' <> Gt)
  | None => forall k2 v2, kv_get m k2 = Some v2 -> cmp_slash k2 k <> Lt
  end.
Proof.
  unfold kv_lower, sm_lower. induction m as [|[k0 v0] m IH]; intro Hs.
  - simpl. intros k2 v2 H. discriminate.
  - destruct (ssorted_inv _ _ _ _ Hs) as [Hs' Hall].
    cbn [fold_left fst]. rewrite sm_lower_fold. specialize (IH Hs').
    assert (Hget0 : kv_get ((k0, v0) :: m) k0 = Some v0).
    { apply kv_in_get; [exact Hs|left; reflexivity]. }
    assert (Hin : forall k2 v2, kv_get ((k0, v0) :: m) k2 = Some v2 -> k2 = k0 \/ kv_get m k2 = Some v2).
    { intros k2 v2 G. apply kv_get_in in G; [|exact Hs]. destruct G as [G|G]; [inversion G; left; reflexivity|].
      right. apply kv_in_get; assumption. }
    assert (Hlt0 : forall k2 v2, kv_get m k2 = Some v2 -> cmp_slash k0 k2 = Lt).
    { intros k2 v2 G. apply kv_get_in in G; [|exact Hs']. rewrite Forall_forall in Hall. apply (Hall _ G). }
    destruct (fold_left _ m None) as [[k' v]|] eqn:F.
    + destruct IH as [G [L U]]. split; [|split; [exact L|]].
      * apply kv_in_get; [exact Hs|]. right. apply kv_get_in; assumption.
      * intros k2 v2 G2 L2. destruct (Hin _ _ G2) as [->|G2']; [|apply (U _ _ G2' L2)].
        rewrite (Hlt0 _ _ G). discriminate.
    + unfold SortedMap.ltb. destruct (cmp_slash k0 k) eqn:C.
      * intros k2 v2 G2. destruct (Hin _ _ G2) as [->|G2']; [rewrite C; discriminate|apply (IH _ _ G2')].
      * split; [exact Hget0|]. split; [exact C|].
        intros k2 v2 G2 L2. destruct (Hin _ _ G2) as [->|G2']; [rewrite cmp_slash_refl; discriminate|].
        exfalso. apply (IH _ _ G2'). exact L2.
      * intros k2 v2 G2. destruct (Hin _ _ G2) as [->|G2']; [rewrite C; discriminate|apply (IH _ _ G2')].
Qed.

(* ================================================================ %020d *)
Definition TEN20 : N := 100000000000000000000.

Lemma digits_fuel_length fuel : forall n acc k,
  n < 10 ^ N.of_nat k -> (length (digits_fuel fuel 10 dec_digit n acc) <= length acc + k)%nat.
Proof.
  induction fuel as [|f IH]; simpl; intros n acc k Hn; [lia|].
  destruct (n =? 0) eqn:E; [lia|]. apply N.eqb_neq in E.
  destruct k as [|k]; [simpl in Hn; lia|].
  assert (Hd : n / 10 < 10 ^ N.of_nat k).
  { rewrite Nat2N.inj_succ, N.pow_succ_r' in Hn. apply N.div_lt_upper_bound; lia. }
  specialize (IH (n / 10) (dec_digit (n mod 10) :: acc) k Hd). simpl in IH. lia.
Qed.

Lemma dec_of_N_length n : n < TEN20 -> (length (dec_of_N n) <= 20)%nat.
Proof.
  intro H. unfold dec_of_N, digits_of. destruct (n =? 0); [simpl; lia|].
  pose proof (digits_fuel_length (S (N.size_nat n)) n [] 20) as L. simpl length in L. apply L. exact H.
Qed.

Lemma pad20_length n : n < TEN20 -> length (pad20 n) = 20%nat.
Proof.
  intro H. unfold pad20, pad_left. rewrite app_length, repeat_length. pose proof (dec_of_N_length n H). lia.
Qed.

Lemma forallb_repeat (f : N -> bool) c n : f c = true -> forallb f (repeat c n) = true.
Proof. intro H. induction n; simpl; [reflexivity|]. rewrite H. exact IHn. Qed.

Lemma pad20_digits n : forallb is_digit (pad20 n) = true.
Proof.
  unfold pad20, pad_left. rewrite forallb_app. rewrite forallb_repeat by reflexivity. apply dec_of_N_digits.
Qed.

Lemma parse_dec_zeros k : forall l, parse_dec (repeat 48 k ++ l) 0 = parse_dec l 0.
Proof. induction k as [|k IH]; intro l; simpl; [reflexivity|apply IH]. Qed.

Lemma parse_pad20 n : parse_dec (pad20 n) 0 = Some n.
Proof. unfold pad20, pad_left. rewrite parse_dec_zeros. apply parse_dec_of_N. Qed.

Lemma pad20_nonempty n : pad20 n <> [].
Proof. intro H. pose proof (parse_pad20 n) as P. rewrite H in P. simpl in P. inversion P; subst. vm_compute in H. discriminate. Qed.

Lemma U64_lt_TEN20 : U64 < TEN20.
Proof. reflexivity. Qed.

(* Sscanf("%020d") reads back what Sprintf("%020d") wrote *)
Lemma scan20_pad20 n : n < U64 -> scan20 (pad20 n) = Some n.
Proof.
  intro H. assert (HT : n < TEN20) by (pose proof U64_lt_TEN20; lia).
  pose proof (pad20_length n HT) as L. pose proof (pad20_digits n) as D. pose proof (parse_pad20 n) as P.
  unfold scan20. destruct (pad20 n) as [|b tl] eqn:E; [discriminate|].
  assert (Db : is_digit b = true) by (simpl in D; apply andb_true_iff in D; apply D).
  rewrite (skip_space_digit b tl Db). rewrite <- L. rewrite (take_number_all (b :: tl) D).
  rewrite P. apply N.ltb_lt in H. rewrite H. reflexivity.
Qed.

(* digit strings of the same length are ordered as the numbers they denote *)
Lemma parse_dec_acc l : forall a v, parse_dec l a = Some v -> forallb is_digit l = true ->
  exists w, parse_dec l 0 = Some w /\ v = a * 10 ^ N.of_nat (length l) + w /\ w < 10 ^ N.of_nat (length l).
Proof.
  induction l as [|b tl IH]; intros a v H D; cbn [parse_dec forallb length] in *.
  - inversion H; subst. exists 0. split; [reflexivity|]. simpl. split; lia.
  - apply andb_true_iff in D. destruct D as [Db Dt]. rewrite Db in *.
    change (0 * 10 + (b - 48)) with (b - 48).
    destruct (IH _ _ H Dt) as [w [Pw [Ev Bw]]].
    assert (Hb : b - 48 < 10).
    { unfold is_digit in Db. apply andb_true_iff in Db. destruct Db as [D1 D2]. apply N.leb_le in D1. apply N.leb_le in D2. lia. }
    destruct (parse_dec tl (b - 48)) as [w2|] eqn:P2.
    + destruct (IH _ _ P2 Dt) as [w' [Pw' [Ev' Bw']]]. rewrite Pw in Pw'. inversion Pw'; subst w'.
      exists w2. split; [reflexivity|]. rewrite Nat2N.inj_succ, N.pow_succ_r'.
      clear IH H Pw Pw' P2 Db Dt Bw'. rewrite Ev, Ev'. clear Ev Ev'.
      set (T := 10 ^ N.of_nat (length tl)) in *. set (X := b - 48) in *. clearbody T X. split; nia.
    + exfalso. clear -Dt P2. revert P2. generalize (b - 48). induction tl as [|c tl IH]; simpl; intros a P2; [discriminate|].
      simpl in Dt. apply andb_true_iff in Dt. destruct Dt as [Dc Dt]. rewrite Dc in P2. eapply IH; eassumption.
Qed.

Lemma digits_cmp a : forall b va vb,
  length a = length b -> forallb is_digit a = true -> forallb is_digit b = true ->
  parse_dec a 0 = Some va -> parse_dec b 0 = Some vb -> bytes_cmp a b = N.compare va vb.
Proof.
  induction a as [|x a IH]; intros [|y b] va vb L Da Db Pa Pb; simpl in *; try discriminate.
  - inversion Pa; inversion Pb; subst. reflexivity.
  - apply andb_true_iff in Da. destruct Da as [Dx Da]. apply andb_true_iff in Db. destruct Db as [Dy Db].
    rewrite Dx in Pa. rewrite Dy in Pb.
    destruct (parse_dec_acc _ _ _ Pa Da) as [wa [Pwa [Eva Bwa]]].
    destruct (parse_dec_acc _ _ _ Pb Db) as [wb [Pwb [Evb Bwb]]].
    assert (Ll : length a = length b) by congruence. rewrite <- Ll in *.
    assert (Hx : 48 <= x <= 57).
    { unfold is_digit in Dx. apply andb_true_iff in Dx. destruct Dx as [D1 D2]. apply N.leb_le in D1. apply N.leb_le in D2. lia. }
    assert (Hy : 48 <= y <= 57).
    { unfold is_digit in Dy. apply andb_true_iff in Dy. destruct Dy as [D1 D2]. apply N.leb_le in D1. apply N.leb_le in D2. lia. }
    set (T := 10 ^ N.of_nat (length a)) in *. clearbody T.
    destruct (N.compare x y) eqn:C.
    + apply N.compare_eq in C. subst y. rewrite (IH b wa wb Ll Da Db Pwa Pwb).
      subst va vb. destruct (N.compare_spec wa wb) as [E|E|E]; symmetry.
      * apply N.compare_eq_iff. lia.
      * apply N.compare_lt_iff. lia.
      * apply N.compare_gt_iff. lia.
    + assert (C' : x < y) by (apply N.compare_lt_iff; exact C). symmetry. apply N.compare_lt_iff. subst va vb.
      change (0 * 10 + (x - 48)) with (x - 48). change (0 * 10 + (y - 48)) with (y - 48).
      assert (M : (x - 48 + 1) * T <= (y - 48) * T) by (apply N.mul_le_mono_r; lia).
      rewrite N.mul_add_distr_r in M. lia.
    + assert (C' : y < x) by (apply N.compare_gt_iff; exact C). symmetry. apply N.compare_gt_iff. subst va vb.
      change (0 * 10 + (x - 48)) with (x - 48). change (0 * 10 + (y - 48)) with (y - 48).
      assert (M : (y - 48 + 1) * T <= (x - 48) * T) by (apply N.mul_le_mono_r; lia).
      rewrite N.mul_add_distr_r in M. lia.
Qed.

Lemma pad20_cmp a b : a < TEN20 -> b < TEN20 -> bytes_cmp (pad20 a) (pad20 b) = N.compare a b.
Proof.
  intros Ha Hb. apply digits_cmp; try apply pad20_digits; try apply parse_pad20.
  rewrite !pad20_length by assumption. reflexivity.
Qed.

Lemma pad20_inj a b : a < TEN20 -> b < TEN20 -> pad20 a = pad20 b -> a = b.
Proof. intros Ha Hb E. apply N.compare_eq. rewrite <- (pad20_cmp a b Ha Hb), E. apply bytes_cmp_refl. Qed.

Lemma is_digit_range c : is_digit c = true -> 48 <= c <= 57.
Proof. unfold is_digit. intro D. apply andb_true_iff in D. destruct D as [D1 D2]. apply N.leb_le in D1. apply N.leb_le in D2. lia. Qed.

Lemma digits_no (x : N) l : (x < 48 \/ 57 < x) -> forallb is_digit l = true -> Forall (fun c => c <> x) l.
Proof.
  intros Hx D. apply Forall_forall. intros c Hc E. subst c.
  rewrite forallb_forall in D. specialize (D _ Hc). apply is_digit_range in D. lia.
Qed.

Lemma pad20_no_dash n : Forall (fun c => c <> DASH) (pad20 n).
Proof. apply digits_no; [unfold DASH; lia|apply pad20_digits]. Qed.

Lemma pad20_no_slash n : Forall (fun c => c <> SLASH) (pad20 n).
Proof. apply digits_no; [unfold SLASH; lia|apply pad20_digits]. Qed.

(* ================================================================ strings.Split *)
Lemma split_on_nonnil sep s : split_on sep s <> [].
Proof.
  induction s as [|x s IH]; simpl; [discriminate|].
  destruct (split_on sep s); [contradiction|]. destruct (N.eqb x sep); discriminate.
Qed.

Lemma split_on_sep sep s : split_on sep (sep :: s) = [] :: split_on sep s.
Proof.
  simpl. pose proof (split_on_nonnil sep s). destruct (split_on sep s); [contradiction|].
  rewrite N.eqb_refl. reflexivity.
Qed.

Lemma split_on_no_sep sep a : forall s, Forall (fun c => c <> sep) a ->
  split_on sep (a ++ s) = (a ++ hd [] (split_on sep s)) :: tl (split_on sep s).
Proof.
  induction a as [|x a IH]; intros s H; simpl.
  - pose proof (split_on_nonnil sep s). destruct (split_on sep s); [contradiction|reflexivity].
  - inversion H; subst. rewrite (IH s H3). simpl.
    destruct (N.eqb x sep) eqn:E; [apply N.eqb_eq in E; contradiction|reflexivity].
Qed.
