(* Db/Sessions.v — server/session_manager.go: sessionManagerUpdateOperationCallbackS (the DB half of sessions).

   A session exists iff its key "__oxia/session/<%016x id>" is in the map (it is created by an ordinary
   logged put of that key, see sessionManager.createSession, and removed by session.delete()).
   Every ephemeral record k of session s has a shadow entry ShadowKey(s, k) with an empty value. *)
From Coq Require Import List NArith ZArith Bool.
From Oxia.Db Require Import Types Bytes Escape Keys Kv.
Import ListNotations.

(* deleteShadow: "we are overwriting an ephemeral value, let's delete its shadow" (a blind batch.Delete) *)
Definition delete_shadow (b : kvmap) (k : key) (existing : option entry) : kvmap :=
  match existing with
  | Some e => match e_session e with
              | Some s => kv_del b (shadow_key s k)
              | None => b
              end
  | None => b
  end.

(* OnPut / OnPutWithinSession.  Order as in the code: session lookup, old shadow removed, new shadow written. *)
Definition session_on_put (b : kvmap) (p : put_req) (existing : option entry) : result (status * kvmap) :=
  match p_session p with
  | None => Ok (OK, delete_shadow b (p_key p) existing)
  | Some s =>
      match kv_get b (session_key s) with
      | None => Ok (SESSION_DOES_NOT_EXIST, b)
      | Some _ => Ok (OK, kv_put (delete_shadow b (p_key p) existing) (shadow_key s (p_key p)) empty_value)
      end
  end.

(* OnDelete: re-reads the entry from the batch *)
Definition session_on_delete (b : kvmap) (k : key) : result kvmap :=
  match get_entry b k with
  | Err e => Err e
  | Ok None => Ok b
  | Ok (Some e) => Ok (delete_shadow b k (Some e))
  end.

Definition session_on_delete_with_entry (b : kvmap) (k : key) (e : entry) : result kvmap :=
  Ok (delete_shadow b k (Some e)).

Definition session_callbacks : callbacks :=
  mkCallbacks session_on_put session_on_delete session_on_delete_with_entry.
