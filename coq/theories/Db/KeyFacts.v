(* Db/KeyFacts.v — facts about the key layouts of Db/Keys.v that the invariants need:
   which constructed keys are internal, and which classes of internal keys can never coincide. *)
From Coq Require Import List NArith ZArith Bool Lia.
From Oxia.Db Require Import Types Bytes Escape Keys.
Import ListNotations.
Open Scope N_scope.

Lemma has_prefix_app p l : has_prefix p (p ++ l) = true.
Proof. induction p as [|x p IH]; simpl; [reflexivity|]. rewrite N.eqb_refl. exact IH. Qed.

Lemma has_prefix_app_r p q l : has_prefix p q = true -> has_prefix p (q ++ l) = true.
Proof.
  revert q. induction p as [|x p IH]; intros q H; simpl in *; [reflexivity|].
  destruct q as [|y q]; [discriminate|]. simpl.
  apply andb_true_iff in H. destruct H as [H1 H2]. rewrite H1. simpl. apply IH. exact H2.
Qed.

Lemma has_prefix_iff p s : has_prefix p s = true <-> exists l, s = p ++ l.
Proof.
  revert s. induction p as [|x p IH]; intros s; simpl.
  - split; [intros _; exists s; reflexivity|reflexivity].
  - destruct s as [|y s].
    + split; [discriminate|intros [l H]; discriminate].
    + rewrite andb_true_iff, N.eqb_eq, IH. split.
      * intros [-> [l ->]]. exists l. reflexivity.
      * intros [l H]. inversion H; subst. split; [reflexivity|exists l; reflexivity].
Qed.

(* ---- constructed keys are internal ---- *)
Lemma session_key_internal z : is_internal (session_key z) = true.
Proof. unfold is_internal, session_key. apply has_prefix_app_r. reflexivity. Qed.

Lemma shadow_key_internal z k : is_internal (shadow_key z k) = true.
Proof. unfold shadow_key. unfold is_internal. apply has_prefix_app_r. apply session_key_internal. Qed.

Lemma index_key_internal pk si : is_internal (index_key pk si) = true.
Proof.
  unfold is_internal, index_key, index_range_key. rewrite <- !app_assoc.
  apply has_prefix_app_r. reflexivity.
Qed.

Lemma notification_key_internal o : is_internal (notification_key o) = true.
Proof. unfold is_internal, notification_key. apply has_prefix_app_r. reflexivity. Qed.

Lemma commit_offset_key_internal : is_internal commit_offset_key = true.
Proof. reflexivity. Qed.
Lemma last_version_key_internal : is_internal last_version_key = true.
Proof. reflexivity. Qed.
Lemma term_key_internal : is_internal term_key = true.
Proof. reflexivity. Qed.
Lemma term_options_key_internal : is_internal term_options_key = true.
Proof. reflexivity. Qed.

(* ---- the byte after "__oxia/" separates the classes ---- *)
Definition key_tag (k : key) : N := nth 7 k 0.

Lemma tag_session z : key_tag (session_key z) = 115.
Proof. reflexivity. Qed.
Lemma tag_shadow z k : key_tag (shadow_key z k) = 115.
Proof. reflexivity. Qed.
Lemma tag_index pk si : key_tag (index_key pk si) = 105.
Proof. reflexivity. Qed.
Lemma tag_notification o : key_tag (notification_key o) = 110.
Proof. reflexivity. Qed.
Lemma tag_commit_offset : key_tag commit_offset_key = 99.
Proof. reflexivity. Qed.
Lemma tag_last_version : key_tag last_version_key = 108.
Proof. reflexivity. Qed.
Lemma tag_term : key_tag term_key = 116.
Proof. reflexivity. Qed.
Lemma tag_term_options : key_tag term_options_key = 116.
Proof. reflexivity. Qed.

Lemma session_key_not_index z pk si : session_key z <> index_key pk si.
Proof. intro H. apply (f_equal key_tag) in H. rewrite tag_session, tag_index in H. discriminate. Qed.
Lemma session_key_not_notification z o : session_key z <> notification_key o.
Proof. intro H. apply (f_equal key_tag) in H. rewrite tag_session, tag_notification in H. discriminate. Qed.
Lemma session_key_not_commit_offset z : session_key z <> commit_offset_key.
Proof. intro H. apply (f_equal key_tag) in H. rewrite tag_session, tag_commit_offset in H. discriminate. Qed.
Lemma session_key_not_last_version z : session_key z <> last_version_key.
Proof. intro H. apply (f_equal key_tag) in H. rewrite tag_session, tag_last_version in H. discriminate. Qed.

(* ---- "%016x" never prints a '/' : a session key is never a shadow key ---- *)
Lemma hex_digit_not_slash d : hex_digit d <> 47.
Proof. unfold hex_digit. destruct (d <? 10); lia. Qed.

Lemma digits_fuel_forall (P : N -> Prop) fuel base dig :
  (forall d, P (dig d)) -> forall n acc, Forall P acc -> Forall P (digits_fuel fuel base dig n acc).
Proof.
  intro Hd. induction fuel as [|f IH]; simpl; intros n acc Hacc; [exact Hacc|].
  destruct (n =? 0); [exact Hacc|]. apply IH. constructor; [apply Hd|exact Hacc].
Qed.

Lemma digits_of_forall (P : N -> Prop) base dig n : (forall d, P (dig d)) -> Forall P (digits_of base dig n).
Proof.
  intro Hd. unfold digits_of. destruct (n =? 0).
  - constructor; [apply Hd|constructor].
  - apply digits_fuel_forall; [exact Hd|constructor].
Qed.

Lemma pad_left_forall (P : N -> Prop) w c l : P c -> Forall P l -> Forall P (pad_left w c l).
Proof.
  intros Hc Hl. unfold pad_left. apply Forall_app. split; [|exact Hl].
  apply Forall_forall. intros x Hx. apply repeat_spec in Hx. subst. exact Hc.
Qed.

Lemma hex16_no_slash z : Forall (fun c => c <> 47) (hex16 z).
Proof.
  unfold hex16. destruct (z <? 0)%Z.
  - constructor; [lia|]. apply pad_left_forall; [lia|]. apply digits_of_forall. exact hex_digit_not_slash.
  - apply pad_left_forall; [lia|]. apply digits_of_forall. exact hex_digit_not_slash.
Qed.

Lemma session_key_not_shadow z s k : session_key z <> shadow_key s k.
Proof.
  unfold shadow_key, session_key. rewrite <- app_assoc. intro H. apply app_inv_head in H.
  pose proof (hex16_no_slash z) as Hz. rewrite H in Hz.
  apply Forall_app in Hz. destruct Hz as [_ Hz]. inversion Hz; subst. unfold SLASHB in *. lia.
Qed.

(* ---- appending "-<digits>" to a user key gives a user key (sequence keys) ---- *)
Lemma has_prefix_snoc_char P c : ~ In c P -> forall p x, has_prefix P (p ++ c :: x) = true -> has_prefix P p = true.
Proof.
  intro Hc. induction P as [|a P IH]; intros p x H; simpl in *; [reflexivity|].
  destruct p as [|b p]; simpl in *.
  - apply andb_true_iff in H. destruct H as [H _]. apply N.eqb_eq in H. subst. exfalso. apply Hc. left. reflexivity.
  - apply andb_true_iff in H. destruct H as [H1 H2]. rewrite H1. simpl.
    eapply IH; [|exact H2]. intro Hin. apply Hc. right. exact Hin.
Qed.

Lemma not_internal_dash p x : is_internal p = false -> is_internal (p ++ DASH :: x) = false.
Proof.
  intro H. destruct (is_internal (p ++ DASH :: x)) eqn:E; [|reflexivity].
  unfold is_internal in *. apply has_prefix_snoc_char in E.
  - rewrite E in H. discriminate.
  - unfold internal_prefix, DASH. simpl. intros [H0|[H0|[H0|[H0|[H0|[H0|[H0|[]]]]]]]]; discriminate.
Qed.
