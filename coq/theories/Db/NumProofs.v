(* Db/NumProofs.v — fmt.Sprintf("%d") followed by fmt.Sscanf("%d") is the identity on int64
   (what NewDB relies on when it reads back __oxia/commit-offset and __oxia/last-version-id). *)
From Coq Require Import List NArith ZArith Bool Lia PeanoNat.
From Oxia.Db Require Import Types Bytes.
Import ListNotations.
Open Scope N_scope.

Lemma digits_fuel_acc fuel base dig : forall n acc,
  digits_fuel fuel base dig n acc = digits_fuel fuel base dig n [] ++ acc.
Proof.
  induction fuel as [|f IH]; simpl; intros n acc; [reflexivity|].
  destruct (n =? 0); [reflexivity|].
  rewrite (IH (n / base) (dig (n mod base) :: acc)), (IH (n / base) [dig (n mod base)]).
  rewrite <- app_assoc. reflexivity.
Qed.

Lemma parse_dec_app l1 : forall l2 a,
  parse_dec (l1 ++ l2) a = match parse_dec l1 a with Some a' => parse_dec l2 a' | None => None end.
Proof.
  induction l1 as [|b tl IH]; simpl; intros l2 a; [reflexivity|].
  destruct (is_digit b); [apply IH|reflexivity].
Qed.

Lemma is_digit_dec d : d < 10 -> is_digit (dec_digit d) = true.
Proof.
  intro H. unfold is_digit, dec_digit. apply andb_true_iff. split; apply N.leb_le; lia.
Qed.

Lemma parse_digits_fuel fuel : forall n,
  n < 2 ^ N.of_nat fuel -> parse_dec (digits_fuel fuel 10 dec_digit n []) 0 = Some n.
Proof.
  induction fuel as [|f IH]; intros n Hn.
  - simpl in Hn. assert (n = 0) by lia. subst. reflexivity.
  - simpl digits_fuel. destruct (n =? 0) eqn:E.
    + apply N.eqb_eq in E. subst. reflexivity.
    + apply N.eqb_neq in E. rewrite digits_fuel_acc, parse_dec_app.
      rewrite IH.
      * cbn [parse_dec]. rewrite is_digit_dec by (apply N.mod_lt; lia).
        f_equal. unfold dec_digit. pose proof (N.div_mod n 10 ltac:(lia)) as Hdm.
        rewrite N.add_comm with (n := 48). rewrite N.add_sub. rewrite N.mul_comm. symmetry. exact Hdm.
      * rewrite Nat2N.inj_succ, N.pow_succ_r' in Hn.
        apply N.div_lt_upper_bound; [lia|]. lia.
Qed.

Lemma pos_size_nat_size p : Pos.size_nat p = Pos.to_nat (Pos.size p).
Proof.
  induction p; simpl; rewrite ?Pos2Nat.inj_succ, ?IHp; reflexivity.
Qed.

Lemma N_lt_pow_size_nat n : n < 2 ^ N.of_nat (N.size_nat n).
Proof.
  destruct n as [|p]; [reflexivity|]. simpl N.size_nat. rewrite pos_size_nat_size, positive_nat_N.
  pose proof (N.size_gt (Npos p)) as H. simpl in H. exact H.
Qed.

Lemma parse_dec_of_N n : parse_dec (dec_of_N n) 0 = Some n.
Proof.
  unfold dec_of_N, digits_of. destruct (n =? 0) eqn:E.
  - apply N.eqb_eq in E. subst. reflexivity.
  - apply parse_digits_fuel. rewrite Nat2N.inj_succ, N.pow_succ_r'.
    pose proof (N_lt_pow_size_nat n). lia.
Qed.

(* every byte of a decimal rendering is a digit, and there is at least one *)
Lemma digits_fuel_digits fuel : forall n acc,
  forallb is_digit acc = true -> forallb is_digit (digits_fuel fuel 10 dec_digit n acc) = true.
Proof.
  induction fuel as [|f IH]; simpl; intros n acc Ha; [exact Ha|].
  destruct (n =? 0); [exact Ha|]. apply IH. simpl. rewrite is_digit_dec by (apply N.mod_lt; lia). exact Ha.
Qed.

Lemma dec_of_N_digits n : forallb is_digit (dec_of_N n) = true.
Proof.
  unfold dec_of_N, digits_of. destruct (n =? 0); [reflexivity|]. apply digits_fuel_digits. reflexivity.
Qed.

Lemma dec_of_N_nonempty n : dec_of_N n <> [].
Proof.
  intro H. pose proof (parse_dec_of_N n) as P. rewrite H in P. simpl in P. inversion P; subst.
  unfold dec_of_N, digits_of in H. simpl in H. discriminate.
Qed.

Lemma take_number_all l : forallb is_digit l = true -> take_number (length l) l = l.
Proof.
  induction l as [|b tl IH]; simpl; intro H; [reflexivity|].
  apply andb_true_iff in H. destruct H as [H1 H2]. rewrite H1, IH by exact H2. reflexivity.
Qed.

Lemma skip_space_digit b tl : is_digit b = true -> skip_space (b :: tl) = Some (b :: tl).
Proof.
  intro H. unfold is_digit in H. apply andb_true_iff in H. destruct H as [H1 H2].
  apply N.leb_le in H1. apply N.leb_le in H2. simpl.
  replace (b =? 10) with false by (symmetry; apply N.eqb_neq; lia).
  unfold is_space_byte.
  replace (b =? 9) with false by (symmetry; apply N.eqb_neq; lia).
  replace (b =? 11) with false by (symmetry; apply N.eqb_neq; lia).
  replace (b =? 12) with false by (symmetry; apply N.eqb_neq; lia).
  replace (b =? 13) with false by (symmetry; apply N.eqb_neq; lia).
  replace (b =? 32) with false by (symmetry; apply N.eqb_neq; lia).
  reflexivity.
Qed.

Lemma scan_int64_neg l :
  scan_int64 (45 :: l) =
  match take_number (length l) l with
  | [] => None
  | tok => match parse_dec tok 0 with
           | Some v => if v <=? 9223372036854775808 then Some (- Z.of_N v)%Z else None
           | None => None
           end
  end.
Proof. reflexivity. Qed.

Lemma scan_int64_pos b tl :
  is_digit b = true ->
  scan_int64 (b :: tl) =
  match take_number (length (b :: tl)) (b :: tl) with
  | [] => None
  | tok => match parse_dec tok 0 with
           | Some v => if v <? 9223372036854775808 then Some (Z.of_N v) else None
           | None => None
           end
  end.
Proof.
  intro Hb. unfold scan_int64. rewrite skip_space_digit by exact Hb.
  unfold is_digit in Hb. apply andb_true_iff in Hb. destruct Hb as [H1 _]. apply N.leb_le in H1.
  replace (b =? 45) with false by (symmetry; apply N.eqb_neq; lia).
  replace (b =? 43) with false by (symmetry; apply N.eqb_neq; lia).
  reflexivity.
Qed.

Lemma match_take_all (A : Type) (F : bytes -> option A) l :
  forallb is_digit l = true -> l <> [] ->
  match take_number (length l) l with [] => None | tok => F tok end = F l.
Proof.
  intros Hd Hn. rewrite take_number_all by exact Hd. destruct l; [contradiction|reflexivity].
Qed.

Theorem scan_int64_ascii z : (- TWO63 <= z < TWO63)%Z -> scan_int64 (ascii_of_Z z) = Some z.
Proof.
  intro Hz. unfold TWO63 in Hz. unfold ascii_of_Z. destruct (z <? 0)%Z eqn:E.
  - apply Z.ltb_lt in E. rewrite scan_int64_neg.
    rewrite (match_take_all _ (fun tok => match parse_dec tok 0 with
                                          | Some v => if v <=? 9223372036854775808 then Some (- Z.of_N v)%Z else None
                                          | None => None end))
      by (apply dec_of_N_digits || apply dec_of_N_nonempty).
    rewrite parse_dec_of_N.
    replace (Z.abs_N z <=? 9223372036854775808) with true by (symmetry; apply N.leb_le; lia).
    f_equal. lia.
  - apply Z.ltb_ge in E.
    pose proof (dec_of_N_digits (Z.to_N z)) as Hd. pose proof (dec_of_N_nonempty (Z.to_N z)) as Hn.
    destruct (dec_of_N (Z.to_N z)) as [|b tl] eqn:D; [contradiction|].
    assert (Hb : is_digit b = true) by (simpl in Hd; apply andb_true_iff in Hd; tauto).
    rewrite (scan_int64_pos b tl Hb).
    rewrite (match_take_all _ (fun tok => match parse_dec tok 0 with
                                          | Some v => if v <? 9223372036854775808 then Some (Z.of_N v) else None
                                          | None => None end) (b :: tl) Hd Hn).
    rewrite <- D, parse_dec_of_N.
    replace (Z.to_N z <? 9223372036854775808) with true by (symmetry; apply N.ltb_lt; lia).
    f_equal. lia.
Qed.
