(* Db/Proofs_C06.v — C06: replicas are deterministic state machines over the committed log.

   Routes by which a replica reaches "the committed prefix es has been applied":
     live            ProcessWrite entry after entry (leader write path; follower processCommittedEntries;
                     leader applyAllEntriesIntoDB: all three are the same call
                     db.ProcessWrite(request, entry.Offset, entry.Timestamp, WrapperUpdateOperationCallback))
     restart         Close (or crash back to a flushed state) and kv.NewDB on what is stored ([reopen]),
                     the controller then sets notificationsEnabled from the term options ([restart en]),
                     and the rest of the log is replayed
     snapshot        the receiver's store becomes the sender's stored map ([persist] of the sender; the
                     transfer in chunks is Db/Snapshot.v + C06_SnapshotProofs.v), then NewDB, then replay
   The first part is ABSTRACT in the apply function: it needs only that it is a function of
   (stored map, version counter, notifications flag, request, offset, timestamp) and that a committed
   request stores the counters it leaves in memory.  The second part instantiates it with [process_write]. *)
From Coq Require Import List NArith ZArith Bool Lia.
From Oxia.KeyOrder Require Import Model.
From Oxia.Db Require Import Types Bytes Keys Kv Sessions Indexes Sequences Notifications Write Read IndexReads
     KvProofs KeyFacts NumProofs Proofs_C12 Snapshot C06_SnapshotProofs.
Import ListNotations.

(* one committed log entry as the DB sees it: the write request, entry.Offset, entry.Timestamp *)
Definition log_entry := (write_req * Z * N)%type.
Definition le_req (e : log_entry) : write_req := fst (fst e).
Definition le_offset (e : log_entry) : Z := snd (fst e).
Definition le_ts (e : log_entry) : N := snd e.

(* what a replica exposes and what the next application reads: the stored map, the version counter,
   the notifications switch.  ([st_notif_last] only decides whether a notification read WAITS.) *)
Definition obs_eq (a b : state) : Prop :=
  st_kv a = st_kv b /\ st_ver a = st_ver b /\ st_notif a = st_notif b.

Lemma obs_eq_refl a : obs_eq a a.
Proof. repeat split. Qed.
Lemma obs_eq_sym a b : obs_eq a b -> obs_eq b a.
Proof. intros [H1 [H2 H3]]. repeat split; congruence. Qed.
Lemma obs_eq_trans a b c : obs_eq a b -> obs_eq b c -> obs_eq a c.
Proof. intros [H1 [H2 H3]] [H4 [H5 H6]]. repeat split; congruence. Qed.

(* NewFollowerController / NewLeaderController / handleSnapshot: kv.NewDB, then
   db.EnableNotifications(termOptions.NotificationsEnabled) *)
Definition restart (en : bool) (m : kvmap) : result state :=
  match reopen m with
  | Ok s => Ok (enable_notifications s en)
  | Err e => Err e
  end.

(* the in-memory counter is the stored one (and both are int64 values, as in Go) *)
Definition consistent (st : state) : Prop :=
  int64 (st_ver st) /\
  exists co, reopen (persist st) = Ok (mkState (st_kv st) (st_ver st) true co).

Lemma consistent_obs_eq a b : obs_eq a b -> consistent a -> consistent b.
Proof.
  intros [H1 [H2 H3]] [Hi [co Hr]]. unfold consistent, persist in *. rewrite <- H1, <- H2.
  split; [exact Hi|]. exists co. exact Hr.
Qed.

Lemma consistent_restart st :
  consistent st -> exists r, restart (st_notif st) (persist st) = Ok r /\ obs_eq st r.
Proof.
  intros [_ [co Hr]]. unfold restart. rewrite Hr. eexists. split; [reflexivity|]. repeat split.
Qed.

Lemma restart_consistent en m r : restart en m = Ok r -> (exists z, read_last_version m = Ok z /\ int64 z) -> consistent r.
Proof.
  unfold restart, reopen. intros H [z [Hz Hi]].
  destruct (read_ascii_long m commit_offset_key) as [co|e] eqn:C; [|discriminate].
  rewrite Hz in H. inversion H; subst r; clear H. unfold consistent, enable_notifications, persist, reopen. simpl.
  split; [exact Hi|]. exists co. rewrite C, Hz. reflexivity.
Qed.

Section Abstract.
  (* the apply function of one replica: db.ProcessWrite with a fixed callback chain and shard id *)
  Variable pw : state -> write_req -> Z -> N -> state * result write_resp.

  (* (H1) it reads nothing but the stored map, the version counter, the notifications switch, the
         request, the offset and the timestamp *)
  Hypothesis pw_dep : forall a b req o ts,
    obs_eq a b -> obs_eq (fst (pw a req o ts)) (fst (pw b req o ts)) /\ snd (pw a req o ts) = snd (pw b req o ts).

  (* (H2) a request that is applied successfully stores the counters it leaves in memory *)
  Hypothesis pw_commit : forall st req o ts resp,
    snd (pw st req o ts) = Ok resp -> int64 o -> int64 (st_ver st) ->
    let st' := fst (pw st req o ts) in
    int64 (st_ver st') /\
    reopen (persist st') = Ok (mkState (st_kv st') (st_ver st') true o) /\
    st_notif st' = st_notif st.

  Fixpoint apply_log (st : state) (es : list log_entry) : state :=
    match es with
    | [] => st
    | e :: tl => apply_log (fst (pw st (le_req e) (le_offset e) (le_ts e))) tl
    end.

  (* the responses (versions, generated sequence keys, statuses) of the applications *)
  Fixpoint log_responses (st : state) (es : list log_entry) : list (result write_resp) :=
    match es with
    | [] => []
    | e :: tl =>
        snd (pw st (le_req e) (le_offset e) (le_ts e)) ::
        log_responses (fst (pw st (le_req e) (le_offset e) (le_ts e))) tl
    end.

  Fixpoint all_succeed (st : state) (es : list log_entry) : Prop :=
    match es with
    | [] => True
    | e :: tl =>
        (exists resp, snd (pw st (le_req e) (le_offset e) (le_ts e)) = Ok resp) /\
        all_succeed (fst (pw st (le_req e) (le_offset e) (le_ts e))) tl
    end.

  Definition offsets_int64 (es : list log_entry) : Prop := Forall (fun e => int64 (le_offset e)) es.

  Lemma apply_log_app st es1 es2 : apply_log st (es1 ++ es2) = apply_log (apply_log st es1) es2.
  Proof. revert st. induction es1 as [|e tl IH]; intro st; [reflexivity|]. simpl. apply IH. Qed.

  Lemma log_responses_app st es1 es2 :
    log_responses st (es1 ++ es2) = log_responses st es1 ++ log_responses (apply_log st es1) es2.
  Proof. revert st. induction es1 as [|e tl IH]; intro st; [reflexivity|]. simpl. rewrite IH. reflexivity. Qed.

  Lemma all_succeed_app st es1 es2 :
    all_succeed st (es1 ++ es2) <-> all_succeed st es1 /\ all_succeed (apply_log st es1) es2.
  Proof.
    revert st. induction es1 as [|e tl IH]; intro st; simpl; [tauto|]. rewrite IH. tauto.
  Qed.

  (* two replicas that agree on (map, counter, switch) stay in agreement entry after entry and answer alike *)
  Lemma apply_log_obs_eq es : forall a b,
    obs_eq a b ->
    obs_eq (apply_log a es) (apply_log b es) /\ log_responses a es = log_responses b es.
  Proof.
    induction es as [|e tl IH]; intros a b H; [split; [exact H|reflexivity]|].
    simpl. destruct (pw_dep a b (le_req e) (le_offset e) (le_ts e) H) as [H1 H2].
    destruct (IH _ _ H1) as [H3 H4]. split; [exact H3|]. rewrite H2, H4. reflexivity.
  Qed.

  Lemma all_succeed_obs_eq es : forall a b, obs_eq a b -> all_succeed a es -> all_succeed b es.
  Proof.
    induction es as [|e tl IH]; intros a b H S; [exact I|]. simpl in *.
    destruct (pw_dep a b (le_req e) (le_offset e) (le_ts e) H) as [H1 H2].
    destruct S as [[resp R] S]. split; [exists resp; rewrite <- H2; exact R|]. eapply IH; eassumption.
  Qed.

  (* consistency is kept by every successful application *)
  Lemma consistent_apply_log es : forall st,
    consistent st -> all_succeed st es -> offsets_int64 es ->
    consistent (apply_log st es) /\ st_notif (apply_log st es) = st_notif st.
  Proof.
    induction es as [|e tl IH]; intros st Hc Hs Ho; [split; [exact Hc|reflexivity]|].
    simpl in *. destruct Hs as [[resp R] Hs]. inversion Ho as [|? ? Ho1 Ho2]; subst.
    destruct (pw_commit _ _ _ _ _ R Ho1 (proj1 Hc)) as [Hi [Hr Hn]].
    assert (Hc' : consistent (fst (pw st (le_req e) (le_offset e) (le_ts e)))).
    { split; [exact Hi|]. exists (le_offset e). exact Hr. }
    destruct (IH _ Hc' Hs Ho2) as [H1 H2]. split; [exact H1|]. rewrite H2. exact Hn.
  Qed.

  (* MAIN: every split point.  Live application of es1 ++ es2 and
     "apply es1, close/crash-to-flushed/ship the stored map, NewDB, re-enable, replay es2"
     leave the same stored map, counter and switch, and the replayed entries are answered alike. *)
  Theorem replay_equiv st es1 es2 :
    consistent st -> all_succeed st (es1 ++ es2) -> offsets_int64 (es1 ++ es2) ->
    exists r, restart (st_notif st) (persist (apply_log st es1)) = Ok r /\
              persist (apply_log st (es1 ++ es2)) = persist (apply_log r es2) /\
              obs_eq (apply_log st (es1 ++ es2)) (apply_log r es2) /\
              log_responses (apply_log st es1) es2 = log_responses r es2 /\
              all_succeed r es2.
  Proof.
    intros Hc Hs Ho. apply all_succeed_app in Hs. destruct Hs as [Hs1 Hs2].
    unfold offsets_int64 in Ho. apply Forall_app in Ho. destruct Ho as [Ho1 Ho2].
    destruct (consistent_apply_log es1 st Hc Hs1 Ho1) as [Hc1 Hn1].
    destruct (consistent_restart _ Hc1) as [r [Hr Hobs]]. rewrite Hn1 in Hr.
    exists r. split; [exact Hr|].
    destruct (apply_log_obs_eq es2 _ _ Hobs) as [H1 H2].
    rewrite apply_log_app. split; [exact (proj1 H1)|]. split; [exact H1|]. split; [exact H2|].
    eapply all_succeed_obs_eq; eassumption.
  Qed.

  (* any number of restarts / snapshot installs at any points: the log is cut into segments, the replica
     is re-created from its stored map between consecutive segments (and before the first, and after the last) *)
  Fixpoint apply_segments (en : bool) (st : state) (segs : list (list log_entry)) : result state :=
    match segs with
    | [] => Ok st
    | es :: tl =>
        match restart en (persist st) with
        | Err e => Err e
        | Ok r => apply_segments en (apply_log r es) tl
        end
    end.

  Theorem any_restart_schedule segs : forall st,
    consistent st -> all_succeed st (concat segs) -> offsets_int64 (concat segs) ->
    exists r, apply_segments (st_notif st) st segs = Ok r /\
              obs_eq (apply_log st (concat segs)) r /\
              persist (apply_log st (concat segs)) = persist r.
  Proof.
    induction segs as [|es tl IH]; intros st Hc Hs Ho.
    - exists st. simpl. repeat split.
    - cbn [concat apply_segments] in *.
      destruct (replay_equiv st [] es Hc) as [r [Hr [_ [Hobs [_ Hsr]]]]].
      { simpl. apply all_succeed_app in Hs. tauto. }
      { simpl. unfold offsets_int64 in *. apply Forall_app in Ho. tauto. }
      simpl in Hr, Hobs. rewrite Hr.
      apply all_succeed_app in Hs. destruct Hs as [Hs1 Hs2].
      unfold offsets_int64 in Ho. apply Forall_app in Ho. destruct Ho as [Ho1 Ho2].
      destruct (consistent_apply_log es st Hc Hs1 Ho1) as [Hc1 Hn1].
      assert (Hc2 : consistent (apply_log r es)) by (eapply consistent_obs_eq; eassumption).
      assert (Hs3 : all_succeed (apply_log r es) (concat tl)) by (eapply all_succeed_obs_eq; eassumption).
      destruct (IH _ Hc2 Hs3 Ho2) as [r2 [Hr2 [Hobs2 _]]].
      assert (Hn : st_notif (apply_log r es) = st_notif st) by (destruct Hobs as [_ [_ Hn]]; congruence).
      rewrite Hn in Hr2. exists r2. split; [exact Hr2|].
      rewrite apply_log_app.
      assert (Hfin : obs_eq (apply_log (apply_log st es) (concat tl)) r2).
      { eapply obs_eq_trans; [|exact Hobs2]. apply apply_log_obs_eq. exact Hobs. }
      split; [exact Hfin|]. exact (proj1 Hfin).
  Qed.
End Abstract.

(* ================================================================ the real apply function *)

Lemma wrap64_int64 z : int64 (wrap64 z).
Proof.
  unfold int64, wrap64. pose proof (Z.mod_pos_bound (z + TWO63) TWO64 ltac:(unfold TWO64; lia)) as H.
  unfold TWO63, TWO64 in *. lia.
Qed.

Lemma finish_put_int64 cb w p ex nk ts :
  int64 (w_ver w) -> int64 (w_ver (fst (finish_put cb w p ex nk ts))).
Proof.
  intro H. unfold finish_put. destruct (cb_on_put cb (w_kv w) p ex) as [[s b1]|e]; [|exact H].
  destruct s; simpl; try exact H. apply wrap64_int64.
Qed.

Lemma add_event_ver w a b : w_ver (add_event w a b) = w_ver w.
Proof. reflexivity. Qed.

Lemma apply_put_int64 cb w p ts : int64 (w_ver w) -> int64 (w_ver (fst (apply_put cb w p ts))).
Proof.
  intro H. unfold apply_put. destruct (p_deltas p).
  - destruct (check_expected (w_kv w) (p_key p) (p_expected p)); try exact H. apply finish_put_int64. exact H.
  - destruct (generate_key (w_kv w) p) as [nk| |e]; try exact H.
    pose proof (finish_put_int64 cb w (set_key p nk) None (Some nk) ts H) as F.
    destruct (finish_put cb w (set_key p nk) None (Some nk) ts) as [w1 [r|e]]; simpl in *; [|exact F].
    destruct (pr_key r); [rewrite add_event_ver|]; exact F.
Qed.

Lemma apply_puts_int64 cb ps : forall w ts, int64 (w_ver w) -> int64 (w_ver (fst (apply_puts cb w ps ts))).
Proof.
  induction ps as [|p tl IH]; intros w ts H; [exact H|]. simpl.
  pose proof (apply_put_int64 cb w p ts H) as H1.
  destruct (apply_put cb w p ts) as [w1 [r|e]]; simpl in *; [|exact H1].
  pose proof (IH w1 ts H1) as H2.
  destruct (apply_puts cb w1 tl ts) as [w2 [rs|e]]; simpl in *; exact H2.
Qed.

Lemma process_write_int64 cb cfg st req o ts :
  int64 (st_ver st) -> int64 (st_ver (fst (process_write cb cfg st req o ts))).
Proof.
  intro H. rewrite process_write_unfold. unfold apply_write_request.
  pose proof (apply_puts_int64 cb (w_puts req) (start_write st) ts H) as H1.
  destruct (apply_puts cb (start_write st) (w_puts req) ts) as [w1 [prs|e]]; simpl in *; [|exact H1].
  pose proof (apply_deletes_ver cb (w_dels req) w1) as H2.
  destruct (apply_deletes cb w1 (w_dels req)) as [w2 [drs|e]]; simpl in *; [|rewrite H2; exact H1].
  pose proof (apply_ranges_ver cb (cfg_threshold cfg) (w_ranges req) w2) as H3.
  destruct (apply_ranges cb (cfg_threshold cfg) w2 (w_ranges req)) as [w3 [rrs|e]]; simpl in *.
  - rewrite commit_write_ver, H3, H2. exact H1.
  - rewrite H3, H2. exact H1.
Qed.

(* (H1) for the real ProcessWrite, any callback chain and configuration: the new (map, counter, switch),
   the response and the sequence-waiter events are a function of (map, counter, switch, request, offset,
   timestamp) *)
Theorem apply_depends_only_on cb cfg a b req o ts :
  obs_eq a b ->
  obs_eq (fst (process_write cb cfg a req o ts)) (fst (process_write cb cfg b req o ts)) /\
  snd (process_write cb cfg a req o ts) = snd (process_write cb cfg b req o ts) /\
  snd (process_write_full cb cfg a req o ts) = snd (process_write_full cb cfg b req o ts).
Proof.
  intros [H1 [H2 H3]]. destruct a as [ka va na la], b as [kb vb nb lb]. simpl in *. subst kb vb nb.
  unfold process_write, process_write_full, start_write. simpl.
  destruct (apply_write_request cb (cfg_threshold cfg) (mkW ka va (if na then Some [] else None) []) req ts) as [w [resp|e]];
    simpl.
  - unfold commit_write. simpl. destruct (w_nm w); simpl; repeat split.
  - repeat split.
Qed.

(* (H2) for the real ProcessWrite *)
Theorem commit_stores_counters cb cfg st req o ts resp :
  snd (process_write cb cfg st req o ts) = Ok resp -> int64 o -> int64 (st_ver st) ->
  let st' := fst (process_write cb cfg st req o ts) in
  int64 (st_ver st') /\
  reopen (persist st') = Ok (mkState (st_kv st') (st_ver st') true o) /\
  st_notif st' = st_notif st.
Proof.
  intros R Ho Hv st'. subst st'.
  pose proof (process_write_int64 cb cfg st req o ts Hv) as Hi.
  destruct (process_write cb cfg st req o ts) as [st' res] eqn:P. simpl in *. subst res.
  destruct (reopen_after_commit _ _ _ _ _ _ _ _ P Ho Hi) as [Hr _].
  split; [exact Hi|]. split; [exact Hr|].
  rewrite process_write_unfold in P.
  destruct (apply_write_request cb (cfg_threshold cfg) (start_write st) req ts) as [w [r|e]]; [|discriminate].
  inversion P; subst. unfold commit_write. destruct (w_nm w); reflexivity.
Qed.

(* ---- what the controllers do around NewDB ---- *)
Lemma term_key_not_commit_offset : term_key <> commit_offset_key.
Proof. intro H. apply (f_equal key_tag) in H. rewrite tag_term, tag_commit_offset in H. discriminate. Qed.
Lemma term_key_not_last_version : term_key <> last_version_key.
Proof. intro H. apply (f_equal key_tag) in H. rewrite tag_term, tag_last_version in H. discriminate. Qed.
Lemma term_options_key_not_commit_offset : term_options_key <> commit_offset_key.
Proof. intro H. apply (f_equal key_tag) in H. rewrite tag_term_options, tag_commit_offset in H. discriminate. Qed.
Lemma term_options_key_not_last_version : term_options_key <> last_version_key.
Proof. intro H. apply (f_equal key_tag) in H. rewrite tag_term_options, tag_last_version in H. discriminate. Qed.
Lemma term_key_not_term_options : term_key <> term_options_key.
Proof. intro H. apply (f_equal (@length N)) in H. vm_compute in H. discriminate. Qed.

(* UpdateTerm writes the two term keys and nothing else *)
Lemma update_term_other_keys st t en ts k :
  k <> term_key -> k <> term_options_key -> kv_get (st_kv (update_term st t en ts)) k = kv_get (st_kv st) k.
Proof.
  intros H1 H2. unfold update_term, internal_put. simpl.
  rewrite kv_get_put_other by exact H2. rewrite kv_get_put_other by exact H1. reflexivity.
Qed.

Lemma update_term_consistent st t en ts : consistent st -> consistent (update_term st t en ts).
Proof.
  intros [Hi [co Hr]]. split; [exact Hi|]. exists co.
  unfold reopen, persist, read_last_version, read_ascii_long in *.
  rewrite !update_term_other_keys by
    (first [exact (not_eq_sym term_key_not_commit_offset) | exact (not_eq_sym term_options_key_not_commit_offset)
           | exact (not_eq_sym term_key_not_last_version) | exact (not_eq_sym term_options_key_not_last_version)]).
  simpl st_ver.
  destruct (kv_get (st_kv st) commit_offset_key) as [v|].
  - destruct (deserialize v) as [e|x]; [|discriminate].
    destruct (scan_int64 (e_value e)) as [z|]; [|discriminate].
    destruct (kv_get (st_kv st) last_version_key) as [v2|].
    + destruct (deserialize v2) as [e2|x]; [|discriminate].
      destruct (scan_int64 (e_value e2)) as [z2|]; [|discriminate]. inversion Hr; subst. reflexivity.
    + inversion Hr; subst. reflexivity.
  - destruct (kv_get (st_kv st) last_version_key) as [v2|].
    + destruct (deserialize v2) as [e2|x]; [|discriminate].
      destruct (scan_int64 (e_value e2)) as [z2|]; [|discriminate]. inversion Hr; subst. reflexivity.
    + inversion Hr; subst. reflexivity.
Qed.

(* NewTerm: UpdateTerm(term, options) then EnableNotifications(options.NotificationsEnabled); what a later
   restart reads back (ReadTerm) is that very switch *)
Theorem new_term_switch_read_back st t en ts :
  int64 t ->
  read_term (enable_notifications (update_term st t en ts) en) = Ok (t, en).
Proof.
  intro Ht. unfold read_term, enable_notifications, update_term, internal_put. simpl.
  rewrite kv_get_put_other by exact term_key_not_term_options.
  rewrite kv_get_put_same. simpl. rewrite scan_int64_ascii by exact Ht.
  rewrite kv_get_put_same. simpl. destruct en; reflexivity.
Qed.

Lemma init_consistent : consistent init_state.
Proof. split; [unfold int64, TWO63; simpl; lia|]. exists (-1)%Z. reflexivity. Qed.

(* ---- user-visible projections of the stored map ---- *)
Definition view_by (f : key -> bool) (m : kvmap) : kvmap := filter (fun kv => f (fst kv)) m.
(* records: keys, values, version ids, modification counts, timestamps, session (ephemeral owner),
   client identity, partition key, secondary-index list *)
Definition view_records (m : kvmap) : kvmap := view_by (fun k => negb (is_internal k)) m.
(* sessions and ephemeral ownership: session keys and shadow keys *)
Definition view_sessions (m : kvmap) : kvmap := view_by (has_prefix session_prefix) m.
(* secondary-index entries *)
Definition view_indexes (m : kvmap) : kvmap := view_by (has_prefix idx_prefix) m.
(* notification batches *)
Definition view_notifications (m : kvmap) : kvmap := view_by (has_prefix notifications_prefix) m.

Lemma gets_of_kv a b pks : st_kv a = st_kv b -> gets_of a pks = gets_of b pks.
Proof.
  intro H. induction pks as [|pk tl IH]; [reflexivity|]. simpl. rewrite IH.
  unfold db_get. rewrite H. reflexivity.
Qed.

(* every read of the DB is a function of the stored map (and of the switch, for notifications) *)
Lemma reads_depend_on_map a b :
  obs_eq a b ->
  (forall k c iv, db_get a k c iv = db_get b k c iv) /\
  (forall s e, db_list a s e = db_list b s e) /\
  (forall s e, db_range_scan a s e = db_range_scan b s e) /\
  (forall n k c iv, secondary_get a n k c iv = secondary_get b n k c iv) /\
  (forall n s e, secondary_list a n s e = secondary_list b n s e) /\
  (forall n s e, secondary_range_scan a n s e = secondary_range_scan b n s e) /\
  (forall from, read_notification_batches (st_kv a) from = read_notification_batches (st_kv b) from) /\
  read_commit_offset a = read_commit_offset b /\ read_term a = read_term b.
Proof.
  intros [H1 [H2 H3]]. destruct a as [ka va na la], b as [kb vb nb lb]. simpl in *. subst kb vb nb.
  repeat split; intros; try reflexivity.
  unfold secondary_range_scan.
  change (secondary_list {| st_kv := ka; st_ver := va; st_notif := na; st_notif_last := la |} n s e)
    with (secondary_list {| st_kv := ka; st_ver := va; st_notif := na; st_notif_last := lb |} n s e).
  destruct (secondary_list {| st_kv := ka; st_ver := va; st_notif := na; st_notif_last := lb |} n s e); [|reflexivity].
  apply gets_of_kv. reflexivity.
Qed.

(* ================================================================ C06 for the real DB *)
Definition apply_log_db cb cfg := apply_log (process_write cb cfg).
Definition log_responses_db cb cfg := log_responses (process_write cb cfg).
Definition all_succeed_db cb cfg := all_succeed (process_write cb cfg).
Definition apply_segments_db cb cfg := apply_segments (process_write cb cfg).

Theorem replay_equiv_db cb cfg st es1 es2 :
  consistent st -> all_succeed_db cb cfg st (es1 ++ es2) -> offsets_int64 (es1 ++ es2) ->
  exists r, restart (st_notif st) (persist (apply_log_db cb cfg st es1)) = Ok r /\
            persist (apply_log_db cb cfg st (es1 ++ es2)) = persist (apply_log_db cb cfg r es2) /\
            obs_eq (apply_log_db cb cfg st (es1 ++ es2)) (apply_log_db cb cfg r es2) /\
            log_responses_db cb cfg (apply_log_db cb cfg st es1) es2 = log_responses_db cb cfg r es2 /\
            all_succeed_db cb cfg r es2.
Proof.
  apply replay_equiv.
  - intros a b req o ts H. destruct (apply_depends_only_on cb cfg a b req o ts H) as [H1 [H2 _]]. split; assumption.
  - intros. apply commit_stores_counters with (resp := resp); assumption.
Qed.

(* NewDB itself switches notifications on: enabling them again changes nothing *)
Lemma reopen_enable_true m s : reopen m = Ok s -> enable_notifications s true = s.
Proof.
  unfold reopen. destruct (read_ascii_long m commit_offset_key); [|discriminate].
  destruct (read_last_version m); [|discriminate]. intro H. inversion H. reflexivity.
Qed.

(* the statement with plain [reopen]: a replica whose notifications switch is on (what NewDB sets) *)
Theorem replay_equiv_reopen cb cfg st es1 es2 :
  consistent st -> st_notif st = true ->
  all_succeed_db cb cfg st (es1 ++ es2) -> offsets_int64 (es1 ++ es2) ->
  exists r, reopen (persist (apply_log_db cb cfg st es1)) = Ok r /\
            persist (apply_log_db cb cfg st (es1 ++ es2)) = persist (apply_log_db cb cfg r es2).
Proof.
  intros Hc Hn Hs Ho. destruct (replay_equiv_db cb cfg st es1 es2 Hc Hs Ho) as [r [Hr [Hp _]]].
  rewrite Hn in Hr. unfold restart in Hr.
  destruct (reopen (persist (apply_log_db cb cfg st es1))) as [s|e] eqn:R; [|discriminate].
  exists s. split; [reflexivity|]. rewrite (reopen_enable_true _ _ R) in Hr. inversion Hr; subst r. exact Hp.
Qed.

Theorem any_restart_schedule_db cb cfg segs st :
  consistent st -> all_succeed_db cb cfg st (concat segs) -> offsets_int64 (concat segs) ->
  exists r, apply_segments_db cb cfg (st_notif st) st segs = Ok r /\
            obs_eq (apply_log_db cb cfg st (concat segs)) r /\
            persist (apply_log_db cb cfg st (concat segs)) = persist r.
Proof.
  apply any_restart_schedule.
  - intros a b req o ts H. destruct (apply_depends_only_on cb cfg a b req o ts H) as [H1 [H2 _]]. split; assumption.
  - intros. apply commit_stores_counters with (resp := resp); assumption.
Qed.

(* user-visible state: every projection of the stored map, every response to a replayed entry and every
   read are the same on the live replica and on the re-created one *)
Theorem user_views_equal cb cfg st es1 es2 :
  consistent st -> all_succeed_db cb cfg st (es1 ++ es2) -> offsets_int64 (es1 ++ es2) ->
  exists r, restart (st_notif st) (persist (apply_log_db cb cfg st es1)) = Ok r /\
    let live := apply_log_db cb cfg st (es1 ++ es2) in
    let replayed := apply_log_db cb cfg r es2 in
    view_records (persist live) = view_records (persist replayed) /\
    view_sessions (persist live) = view_sessions (persist replayed) /\
    view_indexes (persist live) = view_indexes (persist replayed) /\
    view_notifications (persist live) = view_notifications (persist replayed) /\
    log_responses_db cb cfg (apply_log_db cb cfg st es1) es2 = log_responses_db cb cfg r es2 /\
    (forall k c iv, db_get live k c iv = db_get replayed k c iv) /\
    (forall s e, db_list live s e = db_list replayed s e) /\
    (forall s e, db_range_scan live s e = db_range_scan replayed s e) /\
    (forall n k c iv, secondary_get live n k c iv = secondary_get replayed n k c iv) /\
    (forall n s e, secondary_list live n s e = secondary_list replayed n s e) /\
    (forall n s e, secondary_range_scan live n s e = secondary_range_scan replayed n s e) /\
    (forall from, read_notification_batches (st_kv live) from = read_notification_batches (st_kv replayed) from).
Proof.
  intros Hc Hs Ho. destruct (replay_equiv_db cb cfg st es1 es2 Hc Hs Ho) as [r [Hr [Hp [Hobs [Hresp _]]]]].
  exists r. split; [exact Hr|]. cbv zeta. rewrite Hp.
  destruct (reads_depend_on_map _ _ Hobs) as [R1 [R2 [R3 [R4 [R5 [R6 [R7 _]]]]]]].
  repeat split; try reflexivity; assumption.
Qed.

(* ---- snapshot installation (followerController.handleSnapshot after the chunks have been written):
   kv.NewDB on the received files, UpdateTerm(fc.term, fc.termOptions),
   EnableNotifications(fc.termOptions.NotificationsEnabled)  [the last call is repair O-40] ---- *)
Definition install_snapshot (m : kvmap) (term : Z) (en : bool) (ts : N) : result state :=
  match reopen m with
  | Ok s => Ok (enable_notifications (update_term s term en ts) en)
  | Err e => Err e
  end.

(* the code before O-40: the switch stays as NewDB set it (on) until the next NewTerm *)
Definition install_snapshot_before_O40 (m : kvmap) (term : Z) (en : bool) (ts : N) : result state :=
  match reopen m with
  | Ok s => Ok (update_term s term en ts)
  | Err e => Err e
  end.

(* installing the sender's stored map gives a replica with the sender's counter and switch whose map
   differs from the sender's at most in the two term keys, which the follower rewrites with its own
   (term, options) and wall clock *)
Theorem install_snapshot_spec sender term ts :
  consistent sender ->
  exists r, install_snapshot (persist sender) term (st_notif sender) ts = Ok r /\
    consistent r /\ st_ver r = st_ver sender /\ st_notif r = st_notif sender /\
    (forall k, k <> term_key -> k <> term_options_key -> kv_get (st_kv r) k = kv_get (st_kv sender) k) /\
    (int64 term -> read_term r = Ok (term, st_notif sender)).
Proof.
  intros Hc. destruct Hc as [Hi [co Hr]]. unfold install_snapshot. rewrite Hr.
  eexists. split; [reflexivity|]. split; [|split; [reflexivity|split; [reflexivity|split]]].
  - assert (C0 : consistent (mkState (st_kv sender) (st_ver sender) true co)).
    { split; [exact Hi|]. exists co. exact Hr. }
    pose proof (update_term_consistent _ term (st_notif sender) ts C0) as C1.
    destruct C1 as [C1 [co1 C2]]. split; [exact C1|]. exists co1. exact C2.
  - intros k H1 H2. unfold enable_notifications. cbn [st_kv].
    rewrite update_term_other_keys by assumption. reflexivity.
  - intro Ht. apply new_term_switch_read_back. exact Ht.
Qed.

(* ================================================================ refutations (witnesses) *)
Definition c06_cfg : config := mkConfig 7 100.
Definition c06_plain_put (k : key) : write_req := mkWrite [mkPut k [118%N] None None None None [] []] [] [].
Definition c06_key_x : key := [120%N].
Definition c06_key_a : key := [97%N].
Definition c06_key_b : key := [98%N].
(* [put a; sequence put on prefix "s" with first delta 0]: the second put fails AFTER the first one has
   taken a version id *)
Definition c06_failing_batch : write_req :=
  mkWrite [mkPut c06_key_a [118%N] None None None None [] [];
           mkPut [115%N] [118%N] None None None (Some [112%N]) [0%N] []] [] [].

Definition c06_w_es1 : list log_entry := [(c06_plain_put c06_key_x, 0%Z, 10%N); (c06_failing_batch, 1%Z, 20%N)].
Definition c06_w_es2 : list log_entry := [(c06_plain_put c06_key_b, 2%Z, 30%N)].

Definition resp_first_version (r : result write_resp) : option Z :=
  match r with
  | Ok resp => match wr_puts resp with
               | p :: _ => match pr_version p with Some v => Some (v_id v) | None => None end
               | [] => None
               end
  | Err _ => None
  end.

(* Without the success hypothesis the equivalence fails: the batch at offset 1 is dropped but leaves the
   live replica's counter one ahead; the put at offset 2 gets version 2 live and version 1 on a replica
   re-created from the stored map in between. *)
Theorem refuted_after_failed_batch :
  consistent init_state /\ offsets_int64 (c06_w_es1 ++ c06_w_es2) /\
  ~ all_succeed_db wrapper_callbacks c06_cfg init_state (c06_w_es1 ++ c06_w_es2) /\
  nth 1 (log_responses_db wrapper_callbacks c06_cfg init_state c06_w_es1) (Ok (mkWriteResp [] [] [])) = Err ESequenceDeltaIsZero /\
  exists r, restart (st_notif init_state) (persist (apply_log_db wrapper_callbacks c06_cfg init_state c06_w_es1)) = Ok r /\
    map resp_first_version (log_responses_db wrapper_callbacks c06_cfg (apply_log_db wrapper_callbacks c06_cfg init_state c06_w_es1) c06_w_es2) = [Some 2%Z] /\
    map resp_first_version (log_responses_db wrapper_callbacks c06_cfg r c06_w_es2) = [Some 1%Z] /\
    persist (apply_log_db wrapper_callbacks c06_cfg init_state (c06_w_es1 ++ c06_w_es2)) <>
    persist (apply_log_db wrapper_callbacks c06_cfg r c06_w_es2).
Proof.
  split; [exact init_consistent|]. split.
  { unfold offsets_int64. simpl app.
    repeat (apply Forall_cons; [unfold int64, TWO63, le_offset; simpl; lia|]). apply Forall_nil. }
  split.
  { intro H. vm_compute in H. destruct H as [_ [[resp H] _]]. discriminate. }
  split; [vm_compute; reflexivity|].
  eexists. split; [vm_compute; reflexivity|]. split; [vm_compute; reflexivity|]. split; [vm_compute; reflexivity|].
  intro H. apply (f_equal (fun m => kv_get m c06_key_b)) in H. vm_compute in H. discriminate.
Qed.

(* a partial positive statement that needs no success hypothesis: a failed application never changes the
   stored map, so a replica re-created right after it is the replica re-created right before it *)
Theorem failed_entry_leaves_no_trace cb cfg st req o ts e :
  snd (process_write cb cfg st req o ts) = Err e ->
  persist (fst (process_write cb cfg st req o ts)) = persist st.
Proof.
  intro H. destruct (process_write cb cfg st req o ts) as [st' res] eqn:P. simpl in H. subst res.
  destruct (atomic _ _ _ _ _ _ _ _ P) as [Hk _]. exact Hk.
Qed.

(* O-40 (repaired): before the repair a follower of a shard whose notifications are switched OFF wrote
   notification batches for everything it applied after installing a snapshot; the leader did not. *)
Definition c06_sender : state :=
  apply_log_db wrapper_callbacks c06_cfg (enable_notifications (update_term init_state 1 false 5) false)
               [(c06_plain_put c06_key_a, 0%Z, 10%N)].

Theorem snapshot_install_before_O40_refuted :
  consistent c06_sender /\ st_notif c06_sender = false /\
  exists r, install_snapshot_before_O40 (persist c06_sender) 1 false 6 = Ok r /\
    kv_get (persist (apply_log_db wrapper_callbacks c06_cfg c06_sender [(c06_plain_put c06_key_b, 1%Z, 20%N)]))
           (notification_key 1) = None /\
    kv_get (persist (apply_log_db wrapper_callbacks c06_cfg r [(c06_plain_put c06_key_b, 1%Z, 20%N)]))
           (notification_key 1) <> None.
Proof.
  split.
  { split.
    - assert (V : st_ver c06_sender = 0%Z) by (vm_compute; reflexivity). rewrite V. unfold int64, TWO63. lia.
    - exists 0%Z. vm_compute. reflexivity. }
  split; [reflexivity|].
  eexists. split; [vm_compute; reflexivity|]. split; [vm_compute; reflexivity|].
  vm_compute. discriminate.
Qed.

(* with the repair the same scenario agrees (instance of install_snapshot_spec + apply_depends_only_on) *)
Example snapshot_install_after_O40 :
  exists r, install_snapshot (persist c06_sender) 1 false 6 = Ok r /\
    kv_get (persist (apply_log_db wrapper_callbacks c06_cfg r [(c06_plain_put c06_key_b, 1%Z, 20%N)]))
           (notification_key 1) = None /\
    view_records (persist (apply_log_db wrapper_callbacks c06_cfg r [(c06_plain_put c06_key_b, 1%Z, 20%N)])) =
    view_records (persist (apply_log_db wrapper_callbacks c06_cfg c06_sender [(c06_plain_put c06_key_b, 1%Z, 20%N)])).
Proof. eexists. split; [vm_compute; reflexivity|]. split; vm_compute; reflexivity. Qed.

(* ---- the hypotheses of the main theorem are satisfiable on a non-trivial log: a session, an ephemeral
   record with a secondary index, a sequence put, a delete and a range delete, split in the middle ---- *)
Definition c06_ex_session_key : key := session_key 0.
Definition c06_ex_log : list log_entry :=
  [ (mkWrite [mkPut c06_ex_session_key [1%N] None None None None [] []] [] [], 0%Z, 100%N);
    (mkWrite [mkPut c06_key_a [118%N] None (Some 0%Z) (Some [105%N]) None [] [mkSIndex [105%N] [107%N]]] [] [], 1%Z, 110%N);
    (mkWrite [mkPut [115%N] [118%N] None None None (Some [112%N]) [3%N] []] [] [], 2%Z, 120%N);
    (mkWrite [mkPut c06_key_b [119%N] (Some (-1)%Z) None None None [] []] [mkDel c06_key_x None] [], 3%Z, 130%N);
    (mkWrite [] [mkDel c06_key_b (Some 3%Z)] [mkRange [115%N] [116%N]], 4%Z, 140%N) ].

Example replay_equiv_example :
  consistent init_state /\
  all_succeed_db wrapper_callbacks c06_cfg init_state (firstn 2 c06_ex_log ++ skipn 2 c06_ex_log) /\
  offsets_int64 (firstn 2 c06_ex_log ++ skipn 2 c06_ex_log) /\
  length (persist (apply_log_db wrapper_callbacks c06_cfg init_state c06_ex_log)) = 11%nat.
Proof.
  split; [exact init_consistent|]. split.
  { vm_compute. repeat split; eexists; reflexivity. }
  split.
  { unfold offsets_int64. simpl app.
    repeat (apply Forall_cons; [unfold int64, TWO63, le_offset; simpl; lia|]). apply Forall_nil. }
  vm_compute. reflexivity.
Qed.

(* ---- snapshot transfer: any chunk size, any file list ---- *)
Theorem chunks_roundtrip (n : nat) :
  (0 < n)%nat ->
  (forall bs : bytes,
      concat (chunk n bs) = bs /\
      Forall (fun c => (length c <= n)%nat) (chunk n bs) /\
      length (chunk n bs) = chunk_count n (length bs)) /\
  (forall files : list sfile,
      NoDup (map fst files) ->
      exists ms, send_all n files = Some ms /\ ms = all_msgs n files /\
                 load_all loader_new ms = LdOk (mkLoader files None) /\
                 loader_dir (mkLoader files None) = files).
Proof.
  intro Hn. split.
  - intro bs. split; [apply chunk_concat; exact Hn|]. split; [apply chunk_sizes|apply chunk_length].
  - intros files Hnd. exists (all_msgs n files). split; [apply send_all_spec|]. split; [reflexivity|].
    split; [apply (load_files n files [] Hn Hnd)|]. unfold loader_dir. simpl. apply app_nil_r.
Qed.

(* ================================================================ reads are not log entries
   What a replica does besides applying the log: Get (5 comparison types, with or without the value), List,
   RangeScan, notification reads, ReadCommitOffset, ReadTerm, the three secondary-index reads.  In the model
   none of them has a state output: [db_read] maps a state and a request to an answer.  Taking a snapshot and
   flushing read [persist st] / change nothing of what the model calls state. *)
Inductive read_req :=
| RGet (k : key) (c : cmp_type) (include_value : bool)
| RList (start_ end_ : key)
| RRangeScan (start_ end_ : key)
| RNotifications (from : Z)
| RCommitOffset
| RTerm
| RSecondaryGet (name k : bytes) (c : cmp_type) (include_value : bool)
| RSecondaryList (name start_ end_ : bytes)
| RSecondaryRangeScan (name start_ end_ : bytes).

Inductive read_ans :=
| AGet (r : result get_resp)
| AList (l : list key)
| ARangeScan (r : result (list (key * entry)))
| ANotifications (r : result (list nbatch))
| ACommitOffset (r : result Z)
| ATerm (r : result (Z * bool))
| ASecondaryList (r : result (list key))
| ASecondaryRangeScan (r : result (list get_resp)).

Definition db_read (st : state) (r : read_req) : read_ans :=
  match r with
  | RGet k c iv => AGet (db_get st k c iv)
  | RList s e => AList (db_list st s e)
  | RRangeScan s e => ARangeScan (db_range_scan st s e)
  | RNotifications from => ANotifications (read_next_notifications st from)
  | RCommitOffset => ACommitOffset (read_commit_offset st)
  | RTerm => ATerm (read_term st)
  | RSecondaryGet n k c iv => AGet (secondary_get st n k c iv)
  | RSecondaryList n s e => ASecondaryList (secondary_list st n s e)
  | RSecondaryRangeScan n s e => ASecondaryRangeScan (secondary_range_scan st n s e)
  end.

(* one replica's schedule: log entries interleaved, in any way, with reads served by that replica only *)
Definition replica_op := (log_entry + read_req)%type.

Definition writes_of (ops : list replica_op) : list log_entry :=
  flat_map (fun op => match op with inl e => [e] | inr _ => [] end) ops.

Section ReadsInterleaved.
  Variable pw : state -> write_req -> Z -> N -> state * result write_resp.

  (* the state after the schedule, the responses to its writes, the answers to its reads *)
  Fixpoint run_ops (st : state) (ops : list replica_op) : state * list (result write_resp) * list read_ans :=
    match ops with
    | [] => (st, [], [])
    | inl e :: tl =>
        let '(st1, res) := pw st (le_req e) (le_offset e) (le_ts e) in
        let '(st2, rs, as_) := run_ops st1 tl in
        (st2, res :: rs, as_)
    | inr r :: tl =>
        let '(st2, rs, as_) := run_ops st tl in
        (st2, rs, db_read st r :: as_)          (* the state goes on unchanged *)
    end.

  (* the answers a replica that applied the log ALONE gives at the same points of the log *)
  Fixpoint answers_of_log_alone (st : state) (ops : list replica_op) : list read_ans :=
    match ops with
    | [] => []
    | inl e :: tl => answers_of_log_alone (fst (pw st (le_req e) (le_offset e) (le_ts e))) tl
    | inr r :: tl => db_read st r :: answers_of_log_alone st tl
    end.

  (* For every schedule: the replica that also served the reads ends in exactly the state of the replica that
     applied the log alone (all four components, not only the observable ones), gave the same responses to
     the writes, and every read was answered from the state "log prefix applied so far". *)
  Theorem reads_do_not_change_state ops : forall st,
    fst (fst (run_ops st ops)) = apply_log pw st (writes_of ops) /\
    snd (fst (run_ops st ops)) = log_responses pw st (writes_of ops) /\
    snd (run_ops st ops) = answers_of_log_alone st ops.
  Proof.
    induction ops as [|[e|r] tl IH]; intro st; [repeat split| |].
    - cbn [run_ops writes_of flat_map app apply_log log_responses answers_of_log_alone].
      fold (writes_of tl).
      destruct (pw st (le_req e) (le_offset e) (le_ts e)) as [st1 res] eqn:P. cbn [fst snd].
      specialize (IH st1). destruct (run_ops st1 tl) as [[st2 rs] as_]. cbn [fst snd] in *.
      destruct IH as [H1 [H2 H3]]. repeat split; congruence.
    - cbn [run_ops writes_of flat_map app answers_of_log_alone]. fold (writes_of tl).
      specialize (IH st). destruct (run_ops st tl) as [[st2 rs] as_]. cbn [fst snd] in *.
      destruct IH as [H1 [H2 H3]]. repeat split; congruence.
  Qed.
End ReadsInterleaved.

Definition run_ops_db cb cfg := run_ops (process_write cb cfg).

Theorem reads_do_not_change_state_db cb cfg ops st :
  fst (fst (run_ops_db cb cfg st ops)) = apply_log_db cb cfg st (writes_of ops) /\
  snd (fst (run_ops_db cb cfg st ops)) = log_responses_db cb cfg st (writes_of ops) /\
  snd (run_ops_db cb cfg st ops) = answers_of_log_alone (process_write cb cfg) st ops.
Proof. apply reads_do_not_change_state. Qed.

(* non-trivial instance: metadata-only gets, a list and an index get between the entries of c06_ex_log *)
Example reads_interleaved_example :
  let ops := [inl (nth 0 c06_ex_log (c06_plain_put [], 0%Z, 0%N)); inr (RGet c06_ex_session_key CEqual false);
              inl (nth 1 c06_ex_log (c06_plain_put [], 0%Z, 0%N)); inr (RGet c06_key_a CEqual false);
              inr (RSecondaryGet [105%N] [107%N] CEqual false); inr (RList [] []);
              inl (nth 2 c06_ex_log (c06_plain_put [], 0%Z, 0%N))] in
  writes_of ops = firstn 3 c06_ex_log /\
  length (snd (run_ops_db wrapper_callbacks c06_cfg init_state ops)) = 4%nat /\
  fst (fst (run_ops_db wrapper_callbacks c06_cfg init_state ops)) =
    apply_log_db wrapper_callbacks c06_cfg init_state (firstn 3 c06_ex_log).
Proof. vm_compute. repeat split. Qed.
