(* Db/C15_Layout.v — facts about the secondary-index key layout (helper of Proofs_C15.v)

     secondaryIndexKey(pk, {name, skey}) = "__oxia/idx/" ++ name ++ "/" ++ skey ++ "\x01" ++ url.PathEscape(pk)

   on the alphabet    name : non-empty, no '/'            (name_ok)
                      skey : non-empty, every byte > 1    (skey_ok; no "\x01" for the parse, no "\x00" for the order)
                      pk   : non-empty byte string        (pk_ok)

     index_key_inj        the key determines (name, skey, pk)                 (needs only: no '/' in name, no \x01 in skey)
     parse_index_key_ok   secondaryIdxFormatRegex + PathUnescape give (pk, skey) back
     cmp_index_same       keys of one index are ordered as their suffixes after "__oxia/idx/<name>/"
     index_convex         the keys with prefix "__oxia/idx/<name>/" are an interval of the key order
     cmp_slash_tail       skey ++ "\x01" ++ escaped pk  is ordered by (skey under the key order, then escaped pk bytewise),
                          and compares with a bare search key  skey'  as skey does (Eq becomes Gt)
     *_refuted            where the layout fails outside the alphabet *)
From Coq Require Import List NArith ZArith Bool Lia.
From Oxia.KeyOrder Require Import Model Proofs.
From Oxia.Db Require Import Types Bytes Escape Keys Kv KeyFacts Write Read IndexReads.
Import ListNotations.
Open Scope N_scope.

(* ------------------------------------------------------------------ the alphabet *)
Definition none_of (c : N) (l : bytes) : Prop := Forall (fun x => x <> c) l.
Definition above1 (l : bytes) : Prop := Forall (fun x => 1 < x) l.
Definition name_ok (n : bytes) : Prop := n <> [] /\ none_of 47 n.
Definition skey_ok (s : bytes) : Prop := s <> [] /\ above1 s.
Definition pk_ok (pk : key) : Prop := pk <> [] /\ is_bytes pk.
Definition si_ok (si : sindex) : Prop := name_ok (si_name si) /\ skey_ok (si_key si).

Lemma above1_none_of_1 l : above1 l -> none_of 1 l.
Proof. intro H. eapply Forall_impl; [|exact H]. simpl. intros a Ha. lia. Qed.

Lemma none_of_app c a b : none_of c (a ++ b) <-> none_of c a /\ none_of c b.
Proof. apply Forall_app. Qed.

(* splitting at the first occurrence of a separator *)
Lemma app_sep_inj c : forall a a' r r',
  none_of c a -> none_of c a' -> a ++ c :: r = a' ++ c :: r' -> a = a' /\ r = r'.
Proof.
  induction a as [|x a IH]; intros [|y a'] r r' Ha Ha' H; simpl in H.
  - inversion H. split; reflexivity.
  - inversion H; subst. inversion Ha'; subst. congruence.
  - inversion H; subst. inversion Ha; subst. congruence.
  - inversion H; subst. inversion Ha; inversion Ha'; subst.
    destruct (IH a' r r') as [E1 E2]; try assumption. subst. split; reflexivity.
Qed.

(* ------------------------------------------------------------------ url.PathEscape *)
Lemma upper_hex_digit_inj a b : upper_hex_digit a = upper_hex_digit b -> a = b.
Proof.
  unfold upper_hex_digit. destruct (a <? 10) eqn:A; destruct (b <? 10) eqn:B; intro H;
  try apply N.ltb_lt in A; try apply N.ltb_lt in B; try apply N.ltb_ge in A; try apply N.ltb_ge in B; lia.
Qed.

Lemma upper_hex_digit_ge d : 48 <= upper_hex_digit d.
Proof. unfold upper_hex_digit. destruct (d <? 10); lia. Qed.

Theorem c15_path_escape_inj : forall a b, path_escape a = path_escape b -> a = b.
Proof.
  induction a as [|x a IH]; intros [|y b] H.
  - reflexivity.
  - simpl in H. destruct (should_escape y); discriminate.
  - simpl in H. destruct (should_escape x); discriminate.
  - simpl in H. destruct (should_escape x) eqn:X; destruct (should_escape y) eqn:Y.
    + inversion H as [[H1 H2 H3]]. apply upper_hex_digit_inj in H1, H2.
      assert (x = y).
      { pose proof (N.div_mod x 16 ltac:(lia)). pose proof (N.div_mod y 16 ltac:(lia)). lia. }
      subst. f_equal. apply IH. exact H3.
    + inversion H; subst. discriminate.
    + inversion H; subst. discriminate.
    + inversion H; subst. f_equal. apply IH. assumption.
Qed.

(* a byte that is not escaped is one of the 77 listed characters: all of them are >= '$' and none is '/' *)
Lemma should_escape_false c : should_escape c = false -> 36 <= c /\ c <> 47.
Proof.
  intro H. destruct (N.lt_ge_cases c 48) as [Hlt|Hge].
  - assert (C : c = 0 \/ c = 1 \/ c = 2 \/ c = 3 \/ c = 4 \/ c = 5 \/ c = 6 \/ c = 7 \/ c = 8 \/ c = 9 \/
                c = 10 \/ c = 11 \/ c = 12 \/ c = 13 \/ c = 14 \/ c = 15 \/ c = 16 \/ c = 17 \/ c = 18 \/ c = 19 \/
                c = 20 \/ c = 21 \/ c = 22 \/ c = 23 \/ c = 24 \/ c = 25 \/ c = 26 \/ c = 27 \/ c = 28 \/ c = 29 \/
                c = 30 \/ c = 31 \/ c = 32 \/ c = 33 \/ c = 34 \/ c = 35 \/ c = 36 \/ c = 37 \/ c = 38 \/ c = 39 \/
                c = 40 \/ c = 41 \/ c = 42 \/ c = 43 \/ c = 44 \/ c = 45 \/ c = 46 \/ c = 47) by lia.
    repeat (destruct C as [C|C]; [subst c; first [discriminate H | split; lia]|]).
    subst c. discriminate H.
  - split; lia.
Qed.

Lemma path_escape_chars k : Forall (fun x => 36 <= x /\ x <> 47) (path_escape k).
Proof.
  induction k as [|c k IH]; simpl; [constructor|].
  destruct (should_escape c) eqn:E.
  - constructor; [lia|]. constructor; [pose proof (upper_hex_digit_ge (c / 16)); lia|].
    constructor; [pose proof (upper_hex_digit_ge (c mod 16)); lia|]. exact IH.
  - constructor; [apply should_escape_false; exact E|exact IH].
Qed.

Lemma path_escape_none_of c k : c < 36 \/ c = 47 -> none_of c (path_escape k).
Proof.
  intro Hc. eapply Forall_impl; [|apply path_escape_chars]. simpl. intros a [H1 H2]. lia.
Qed.

Lemma path_escape_nonempty k : k <> [] -> path_escape k <> [].
Proof. destruct k as [|c k]; [congruence|]. intros _. simpl. destruct (should_escape c); discriminate. Qed.

Lemma unhex_upper d : d < 16 -> unhex (upper_hex_digit d) = Some d.
Proof.
  intro H.
  assert (C : d = 0 \/ d = 1 \/ d = 2 \/ d = 3 \/ d = 4 \/ d = 5 \/ d = 6 \/ d = 7 \/ d = 8 \/ d = 9 \/
              d = 10 \/ d = 11 \/ d = 12 \/ d = 13 \/ d = 14 \/ d = 15) by lia.
  repeat (destruct C as [C|C]; [subst; reflexivity|]). subst. reflexivity.
Qed.

Lemma path_unescape_cons_other c tl :
  c <> 37 -> path_unescape (c :: tl) = match path_unescape tl with Some r => Some (c :: r) | None => None end.
Proof.
  intro H. destruct c as [|p]; [reflexivity|].
  repeat (match goal with q : positive |- _ => destruct q as [q|q|] end;
          try reflexivity; try (exfalso; apply H; reflexivity)).
Qed.

Theorem c15_path_unescape_escape k : is_bytes k -> path_unescape (path_escape k) = Some k.
Proof.
  induction k as [|c k IH]; intro Hb; [reflexivity|].
  inversion Hb as [|? ? Hc Hk]; subst. specialize (IH Hk). simpl path_escape.
  destruct (should_escape c) eqn:E.
  - cbn [path_unescape].
    assert (H1 : c / 16 < 16) by (apply N.div_lt_upper_bound; lia).
    assert (H2 : c mod 16 < 16) by (apply N.mod_lt; lia).
    rewrite (unhex_upper _ H1), (unhex_upper _ H2), IH.
    f_equal. f_equal. pose proof (N.div_mod c 16 ltac:(lia)). lia.
  - rewrite path_unescape_cons_other; [rewrite IH; reflexivity|].
    intro; subst. discriminate.
Qed.

(* ------------------------------------------------------------------ the key determines (name, skey, pk) *)
Lemma index_key_unfold pk si :
  index_key pk si = idx_prefix ++ si_name si ++ 47 :: si_key si ++ 1 :: path_escape pk.
Proof. unfold index_key, index_range_key, SLASHB, IDX_SEP. rewrite <- !app_assoc. reflexivity. Qed.

Lemma index_key_range pk si :
  index_key pk si = index_range_key (si_name si) (si_key si ++ 1 :: path_escape pk).
Proof. rewrite index_key_unfold. reflexivity. Qed.

Theorem index_key_inj pk pk' si si' :
  none_of 47 (si_name si) -> none_of 47 (si_name si') -> none_of 1 (si_key si) -> none_of 1 (si_key si') ->
  index_key pk si = index_key pk' si' -> si_name si = si_name si' /\ si_key si = si_key si' /\ pk = pk'.
Proof.
  intros Hn Hn' Hs Hs' H. rewrite !index_key_unfold in H. apply app_inv_head in H.
  apply app_sep_inj in H; [|assumption|assumption]. destruct H as [E1 H].
  apply app_sep_inj in H; [|assumption|assumption]. destruct H as [E2 H].
  apply c15_path_escape_inj in H. repeat split; assumption.
Qed.

Lemma sindex_eq si si' : si_name si = si_name si' -> si_key si = si_key si' -> si = si'.
Proof. destruct si, si'; simpl; intros; subst; reflexivity. Qed.

Corollary index_key_inj_ok pk pk' si si' :
  si_ok si -> si_ok si' -> index_key pk si = index_key pk' si' -> si = si' /\ pk = pk'.
Proof.
  intros [[_ Hn] [_ Hs]] [[_ Hn'] [_ Hs']] H.
  destruct (index_key_inj pk pk' si si') as [E1 [E2 E3]]; try assumption; try (apply above1_none_of_1; assumption).
  split; [apply sindex_eq; assumption|assumption].
Qed.

(* where it fails: a '/' in the index name makes two different (name, skey) pairs share one key ... *)
Theorem index_key_inj_slash_in_name_refuted :
  exists pk si si', si <> si' /\ index_key pk si = index_key pk si'.
Proof.
  exists [112], (mkSIndex [97; 47; 98] [99]), (mkSIndex [97] [98; 47; 99]).
  split; [discriminate|reflexivity].
Qed.

(* ------------------------------------------------------------------ the regex + PathUnescape invert the layout *)
Lemma split_first_app c : forall a r, none_of c a -> split_first c (a ++ c :: r) = Some (a, r).
Proof.
  induction a as [|x a IH]; intros r Ha; simpl.
  - rewrite N.eqb_refl. reflexivity.
  - inversion Ha; subst. destruct (x =? c) eqn:E; [apply N.eqb_eq in E; congruence|].
    rewrite IH by assumption. reflexivity.
Qed.

Lemma drop_prefix_app p l : drop_prefix p (p ++ l) = l.
Proof. unfold drop_prefix. induction p as [|x p IH]; simpl; [reflexivity|exact IH]. Qed.

Lemma existsb_none_of c l : none_of c l -> existsb (N.eqb c) l = false.
Proof.
  induction l as [|x l IH]; intro H; [reflexivity|]. inversion H; subst. simpl.
  destruct (c =? x) eqn:E; [apply N.eqb_eq in E; congruence|]. simpl. apply IH. assumption.
Qed.

Theorem parse_index_key_ok pk si :
  si_ok si -> pk_ok pk -> index_primary_and_secondary (index_key pk si) = IdxOk pk (si_key si).
Proof.
  intros [[Hn0 Hn] [Hs0 Hs]] [Hp0 Hpb].
  unfold index_primary_and_secondary, parse_index_key. rewrite index_key_unfold.
  rewrite has_prefix_app, drop_prefix_app.
  rewrite (split_first_app 47) by exact Hn.
  destruct (si_name si) as [|n0 ntl] eqn:En; [congruence|].
  rewrite (split_first_app 1) by (apply above1_none_of_1; exact Hs).
  destruct (si_key si) as [|s0 stl] eqn:Es; [congruence|].
  pose proof (path_escape_nonempty pk Hp0) as Hne.
  destruct (path_escape pk) as [|e0 etl] eqn:Ee; [congruence|].
  rewrite existsb_none_of by (rewrite <- Ee; apply path_escape_none_of; lia).
  rewrite <- Ee, c15_path_unescape_escape by exact Hpb. reflexivity.
Qed.

(* ... and a "\x01" in the secondary key makes the parser return another pair than the one written *)
Theorem parse_index_key_sep_in_skey_refuted :
  exists pk si, name_ok (si_name si) /\ pk_ok pk /\
    index_primary_and_secondary (index_key pk si) <> IdxOk pk (si_key si).
Proof.
  exists [112], (mkSIndex [97] [120; 1; 121]). split; [|split].
  - split; [discriminate|]. repeat constructor; discriminate.
  - split; [discriminate|]. repeat constructor.
  - vm_compute. discriminate.
Qed.

(* ------------------------------------------------------------------ one slash-segment of the key order *)
Lemma split_slash_app s : forall r, none_of 47 s -> split_slash (s ++ 47 :: r) = Some (s, r).
Proof.
  induction s as [|x s IH]; intros r Hs; simpl; [reflexivity|].
  inversion Hs; subst. unfold SLASH. destruct (x =? 47) eqn:E; [apply N.eqb_eq in E; congruence|].
  rewrite IH by assumption. reflexivity.
Qed.

Lemma split_slash_none s : none_of 47 s -> split_slash s = None.
Proof.
  induction s as [|x s IH]; intro Hs; simpl; [reflexivity|].
  inversion Hs; subst. unfold SLASH. destruct (x =? 47) eqn:E; [apply N.eqb_eq in E; congruence|].
  rewrite IH by assumption. reflexivity.
Qed.

Lemma split_slash_some k : forall s r, split_slash k = Some (s, r) -> k = s ++ 47 :: r /\ none_of 47 s.
Proof.
  induction k as [|x k IH]; intros s r H; simpl in H; [discriminate|].
  unfold SLASH in H. destruct (x =? 47) eqn:E.
  - apply N.eqb_eq in E. inversion H; subst. split; [reflexivity|constructor].
  - destruct (split_slash k) as [[s' r']|]; [|discriminate]. inversion H; subst.
    destruct (IH s' r eq_refl) as [E1 E2]. subst k. split; [reflexivity|].
    constructor; [apply N.eqb_neq; exact E|exact E2].
Qed.

Lemma bytes_cmp_refl a : bytes_cmp a a = Eq.
Proof. apply bytes_cmp_eq. reflexivity. Qed.

(* one step of CompareWithSlash on two keys that both contain a '/' *)
Lemma cmp_slash_step a a' r r' :
  none_of 47 a -> none_of 47 a' ->
  cmp_slash (a ++ 47 :: r) (a' ++ 47 :: r') = match bytes_cmp a a' with Eq => cmp_slash r r' | c => c end.
Proof.
  intros Ha Ha'. rewrite !cmp_slash_spec. unfold spec_cmp, lex_cmp.
  rewrite (enc_slash _ _ _ (split_slash_app a r Ha)), (enc_slash _ _ _ (split_slash_app a' r' Ha')).
  cbn [lex]. unfold seg_cmp at 1. cbn [fst snd]. reflexivity.
Qed.

Lemma cmp_seg_same s a b : none_of 47 s -> cmp_slash (s ++ 47 :: a) (s ++ 47 :: b) = cmp_slash a b.
Proof. intro Hs. rewrite cmp_slash_step by assumption. rewrite bytes_cmp_refl. reflexivity. Qed.

(* against a key that is not under the segment, the rest after the segment does not matter *)
Lemma cmp_seg_indep s a a' k :
  none_of 47 s -> (forall r, k <> s ++ 47 :: r) -> cmp_slash (s ++ 47 :: a) k = cmp_slash (s ++ 47 :: a') k.
Proof.
  intros Hs Hk. rewrite !cmp_slash_spec. unfold spec_cmp, lex_cmp.
  rewrite (enc_slash _ _ _ (split_slash_app s a Hs)), (enc_slash _ _ _ (split_slash_app s a' Hs)).
  destruct (split_slash k) as [[sk rk]|] eqn:Ek.
  - rewrite (enc_slash _ _ _ Ek). cbn [lex]. unfold seg_cmp. cbn [fst snd].
    destruct (bytes_cmp s sk) eqn:C; try reflexivity.
    apply bytes_cmp_eq in C. subst sk. apply split_slash_some in Ek. destruct Ek as [Ek _].
    exfalso. apply (Hk rk). exact Ek.
  - rewrite (enc_no_slash _ Ek). reflexivity.
Qed.

(* the keys under a segment form an interval *)
Lemma convex_seg s a b k :
  none_of 47 s -> cmp_slash (s ++ 47 :: a) k <> Gt -> cmp_slash k (s ++ 47 :: b) <> Gt ->
  exists r, k = s ++ 47 :: r /\ cmp_slash a r <> Gt /\ cmp_slash r b <> Gt.
Proof.
  intros Hs H1 H2.
  destruct (split_slash k) as [[sk rk]|] eqn:Ek.
  - destruct (list_eq_dec N.eq_dec sk s) as [->|Hne].
    + apply split_slash_some in Ek. destruct Ek as [Ek _]. subst k.
      rewrite cmp_seg_same in H1, H2 by assumption. exists rk. repeat split; assumption.
    + exfalso.
      assert (Hk : forall r, k <> s ++ 47 :: r).
      { intros r E. subst k. rewrite split_slash_app in Ek by assumption. inversion Ek. congruence. }
      rewrite (cmp_seg_indep s a b k Hs Hk) in H1.
      rewrite (cmp_slash_antisym (s ++ 47 :: b) k) in H2.
      destruct (cmp_slash (s ++ 47 :: b) k) eqn:C; simpl in H2; try congruence.
      apply cmp_slash_eq in C. apply (Hk b). symmetry. exact C.
  - exfalso.
    assert (Hk : forall r, k <> s ++ 47 :: r).
    { intros r E. subst k. rewrite split_slash_app in Ek by assumption. discriminate. }
    rewrite (cmp_seg_indep s a b k Hs Hk) in H1.
    rewrite (cmp_slash_antisym (s ++ 47 :: b) k) in H2.
    destruct (cmp_slash (s ++ 47 :: b) k) eqn:C; simpl in H2; try congruence.
    apply cmp_slash_eq in C. apply (Hk b). symmetry. exact C.
Qed.

(* ------------------------------------------------------------------ the three segments "__oxia" "idx" <name> *)
Definition oxia_seg : bytes := [95; 95; 111; 120; 105; 97].
Definition idx_seg : bytes := [105; 100; 120].

Lemma oxia_seg_ok : none_of 47 oxia_seg.
Proof. repeat constructor; discriminate. Qed.
Lemma idx_seg_ok : none_of 47 idx_seg.
Proof. repeat constructor; discriminate. Qed.

Lemma index_range_key_segs n x :
  index_range_key n x = oxia_seg ++ 47 :: idx_seg ++ 47 :: n ++ 47 :: x.
Proof. reflexivity. Qed.

Theorem cmp_index_same n x y :
  none_of 47 n -> cmp_slash (index_range_key n x) (index_range_key n y) = cmp_slash x y.
Proof.
  intro Hn. rewrite !index_range_key_segs.
  rewrite (cmp_seg_same oxia_seg) by exact oxia_seg_ok.
  rewrite (cmp_seg_same idx_seg) by exact idx_seg_ok.
  apply cmp_seg_same. exact Hn.
Qed.

Theorem index_convex n x y k :
  none_of 47 n ->
  cmp_slash (index_range_key n x) k <> Gt -> cmp_slash k (index_range_key n y) <> Gt ->
  exists r, k = index_range_key n r /\ cmp_slash x r <> Gt /\ cmp_slash r y <> Gt.
Proof.
  intros Hn H1 H2. rewrite index_range_key_segs in H1, H2.
  destruct (convex_seg _ _ _ _ oxia_seg_ok H1 H2) as [r1 [E1 [A1 B1]]].
  destruct (convex_seg _ _ _ _ idx_seg_ok A1 B1) as [r2 [E2 [A2 B2]]].
  destruct (convex_seg _ _ _ _ Hn A2 B2) as [r3 [E3 [A3 B3]]].
  exists r3. subst. split; [reflexivity|split; assumption].
Qed.

Lemma in_index_iff n k : in_index n k = true <-> exists r, k = index_range_key n r.
Proof.
  unfold in_index. rewrite has_prefix_iff. unfold index_range_key, SLASHB.
  split; intros [r ->]; exists r; rewrite <- !app_assoc; reflexivity.
Qed.

Lemma in_index_range n r : in_index n (index_range_key n r) = true.
Proof. apply in_index_iff. exists r. reflexivity. Qed.

Lemma in_index_index_key n pk si : none_of 47 n -> none_of 47 (si_name si) ->
  in_index n (index_key pk si) = true -> si_name si = n.
Proof.
  intros Hn Hs H. apply in_index_iff in H. destruct H as [r H].
  rewrite index_key_unfold in H. unfold index_range_key, SLASHB in H.
  apply app_inv_head in H. apply app_sep_inj in H; [|assumption|assumption]. apply H.
Qed.

Lemma is_idx_index_key pk si : has_prefix idx_prefix (index_key pk si) = true.
Proof. rewrite index_key_unfold. apply has_prefix_app. Qed.

Lemma in_index_is_idx n k : in_index n k = true -> has_prefix idx_prefix k = true.
Proof.
  intro H. apply in_index_iff in H. destruct H as [r ->]. unfold index_range_key. apply has_prefix_app.
Qed.

(* ------------------------------------------------------------------ order of the entries of one index *)
(* what follows the secondary key: nothing (a search key / range bound) or "\x01" ++ escaped primary key *)
Definition tail_ok (t : bytes) : Prop := none_of 47 t /\ (t = [] \/ exists e, t = 1 :: e).

Lemma tail_ok_nil : tail_ok [].
Proof. split; [constructor|left; reflexivity]. Qed.

Lemma tail_ok_entry pk : tail_ok (1 :: path_escape pk).
Proof.
  split; [|right; eexists; reflexivity]. constructor; [discriminate|]. apply path_escape_none_of. right. reflexivity.
Qed.

Lemma bytes_cmp_tail : forall u u' t t',
  above1 u -> above1 u' -> tail_ok t -> tail_ok t' ->
  bytes_cmp (u ++ t) (u' ++ t') = match bytes_cmp u u' with Eq => bytes_cmp t t' | c => c end.
Proof.
  induction u as [|x u IH]; intros [|y u'] t t' Hu Hu' Ht Ht'.
  - reflexivity.
  - cbn [app bytes_cmp]. inversion Hu' as [|? ? Hy Hu'']; subst. destruct Ht as [_ [->|[e ->]]]; [reflexivity|].
    cbn [bytes_cmp]. destruct (N.compare_spec 1 y) as [C|C|C]; try reflexivity; lia.
  - cbn [app bytes_cmp]. inversion Hu as [|? ? Hx Hu'']; subst. destruct Ht' as [_ [->|[e ->]]]; [reflexivity|].
    cbn [bytes_cmp]. destruct (N.compare_spec x 1) as [C|C|C]; try reflexivity; lia.
  - cbn [app bytes_cmp]. inversion Hu; inversion Hu'; subst. destruct (x ?= y); try reflexivity.
    apply IH; assumption.
Qed.

Lemma above1_split s a r : above1 s -> s = a ++ 47 :: r -> above1 a /\ above1 r.
Proof.
  intros H E. subst s. apply Forall_app in H. destruct H as [H1 H2]. inversion H2; subst. split; assumption.
Qed.

Lemma split_slash_none_inv : forall l, split_slash l = None -> none_of 47 l.
Proof.
  induction l as [|x l IH]; simpl; intro H; [constructor|].
  unfold SLASH in H. destruct (x =? 47) eqn:E; [discriminate|].
  destruct (split_slash l) as [[? ?]|]; [discriminate|]. constructor; [apply N.eqb_neq; exact E|apply IH; reflexivity].
Qed.

Theorem cmp_slash_tail : forall s s' t t',
  above1 s -> above1 s' -> tail_ok t -> tail_ok t' ->
  cmp_slash (s ++ t) (s' ++ t') = match cmp_slash s s' with Eq => bytes_cmp t t' | c => c end.
Proof.
  intro s. remember (length s) as n eqn:Hn. revert s Hn.
  induction n as [n IH] using lt_wf_ind. intros s Hn s' t t' Hs Hs' Ht Ht'.
  destruct (split_slash s) as [[a r]|] eqn:Es; destruct (split_slash s') as [[a' r']|] eqn:Es'.
  - pose proof (split_slash_length _ _ _ Es) as Hlen.
    apply split_slash_some in Es. apply split_slash_some in Es'.
    destruct Es as [E Ha], Es' as [E' Ha'].
    destruct (above1_split _ _ _ Hs E) as [_ Hr]. destruct (above1_split _ _ _ Hs' E') as [_ Hr'].
    subst s s'. rewrite <- !app_assoc. simpl.
    rewrite !cmp_slash_step by assumption.
    destruct (bytes_cmp a a'); try reflexivity.
    eapply IH; [|reflexivity|assumption|assumption|assumption|assumption]. subst n. exact Hlen.
  - apply split_slash_some in Es. destruct Es as [E Ha]. subst s. rewrite <- app_assoc. simpl.
    assert (N1 : split_slash (s' ++ t') = None).
    { apply split_slash_none. apply none_of_app. split; [apply split_slash_none_inv; exact Es'|apply Ht']. }
    rewrite (cmp_slash_antisym (s' ++ t') (a ++ 47 :: r ++ t)), (cmp_slash_antisym s' (a ++ 47 :: r)).
    rewrite (cmp_slash_no_slash_vs_slash _ _ a (r ++ t) N1 (split_slash_app a (r ++ t) Ha)).
    rewrite (cmp_slash_no_slash_vs_slash _ _ a r Es' (split_slash_app a r Ha)). reflexivity.
  - apply split_slash_some in Es'. destruct Es' as [E' Ha']. subst s'. rewrite <- app_assoc. simpl.
    assert (N1 : split_slash (s ++ t) = None).
    { apply split_slash_none. apply none_of_app. split; [apply split_slash_none_inv; exact Es|apply Ht]. }
    rewrite (cmp_slash_no_slash_vs_slash _ _ a' (r' ++ t') N1 (split_slash_app a' (r' ++ t') Ha')).
    rewrite (cmp_slash_no_slash_vs_slash _ _ a' r' Es (split_slash_app a' r' Ha')). reflexivity.
  - pose proof split_slash_none_inv as NS.
    rewrite (cmp_slash_no_slash s s') by assumption.
    rewrite cmp_slash_no_slash.
    + apply bytes_cmp_tail; assumption.
    + apply split_slash_none, none_of_app. split; [apply NS; exact Es|apply Ht].
    + apply split_slash_none, none_of_app. split; [apply NS; exact Es'|apply Ht'].
Qed.

(* an entry against a bare secondary key (search key, range bound): as the secondary keys compare, Eq becomes Gt *)
Corollary cmp_entry_vs_key s pk s' :
  above1 s -> above1 s' ->
  cmp_slash (s ++ 1 :: path_escape pk) s' = match cmp_slash s s' with Eq => Gt | c => c end.
Proof.
  intros Hs Hs'. rewrite <- (app_nil_r s') at 1.
  rewrite cmp_slash_tail; [|assumption|assumption|apply tail_ok_entry|apply tail_ok_nil]. reflexivity.
Qed.

(* two entries: by secondary key, ties by the escaped primary key bytewise *)
Corollary cmp_entry_vs_entry s pk s' pk' :
  above1 s -> above1 s' ->
  cmp_slash (s ++ 1 :: path_escape pk) (s' ++ 1 :: path_escape pk') =
  match cmp_slash s s' with Eq => bytes_cmp (path_escape pk) (path_escape pk') | c => c end.
Proof.
  intros Hs Hs'. rewrite cmp_slash_tail; [|assumption|assumption|apply tail_ok_entry|apply tail_ok_entry].
  reflexivity.
Qed.

(* ... and a "\x00" in a secondary key breaks the order embedding: "ab" < "ab\x00" as secondary keys,
   but the entry of "ab" sorts AFTER the bare key "ab\x00" (so a scan [ab, ab\x00) misses it) *)
Theorem cmp_entry_nul_in_skey_refuted :
  exists s s' pk, cmp_slash s s' = Lt /\ cmp_slash (s ++ 1 :: path_escape pk) s' = Gt.
Proof. exists [97; 98], [97; 98; 0], [112]. vm_compute. split; reflexivity. Qed.
