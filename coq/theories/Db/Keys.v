(* Db/Keys.v — the internal key space, byte-exact (constants are evaluated to literal byte lists).

     common/constant/keys.go        InternalKeyPrefix        = "__oxia/"
     server/kv/db.go                commitOffsetKey          = "__oxia/commit-offset"
                                    commitLastVersionIdKey   = "__oxia/last-version-id"
                                    termKey                  = "__oxia/term"
                                    termOptionsKey           = "__oxia/term-options"
     server/kv/notifications_tracker.go   notificationKey(o) = "__oxia/notifications/" ++ %016x o
     server/session_manager.go      SessionKey(s)            = "__oxia/session/" ++ %016x s
                                    ShadowKey(s, k)          = SessionKey(s) ++ "/" ++ url.PathEscape(k)
     server/secondary_indexes.go    secondaryIndexKey(pk,si) = "__oxia/idx/" ++ name ++ "/" ++ skey ++ "\x01" ++ url.PathEscape(pk)
*)
From Coq Require Import Ascii String.
From Coq Require Import List NArith ZArith Bool.
From Oxia.Db Require Import Types Bytes Escape.
Import ListNotations.
Open Scope list_scope.

Definition internal_prefix : bytes := Eval compute in bytes_of_string "__oxia/".
Definition commit_offset_key : key := Eval compute in bytes_of_string "__oxia/commit-offset".
Definition last_version_key : key := Eval compute in bytes_of_string "__oxia/last-version-id".
Definition term_key : key := Eval compute in bytes_of_string "__oxia/term".
Definition term_options_key : key := Eval compute in bytes_of_string "__oxia/term-options".
Definition notifications_prefix : bytes := Eval compute in bytes_of_string "__oxia/notifications/".
Definition session_prefix : bytes := Eval compute in bytes_of_string "__oxia/session/".
Definition idx_prefix : bytes := Eval compute in bytes_of_string "__oxia/idx/".

Definition SLASHB : N := 47%N.
Definition DASH : N := 45%N.
Definition IDX_SEP : N := 1%N.          (* secondaryIdxSeparator = "\x01" *)

(* strings.HasPrefix(key, constant.InternalKeyPrefix) *)
Definition is_internal (k : key) : bool := has_prefix internal_prefix k.

Definition notification_key (offset : Z) : key := notifications_prefix ++ hex16 offset.
(* lastNotificationKey = notificationKey(math.MaxInt64) *)
Definition last_notification_key : key := Eval compute in notification_key 9223372036854775807%Z.

Definition session_key (s : Z) : key := session_prefix ++ hex16 s.
Definition shadow_key (s : Z) (k : key) : key := session_key s ++ SLASHB :: path_escape k.

(* secondaryIdxRangePrefixFormat = "__oxia/idx/%s/%s" *)
Definition index_range_key (name skey : bytes) : key := idx_prefix ++ name ++ SLASHB :: skey.
Definition index_key (pk : key) (si : sindex) : key :=
  index_range_key (si_name si) (si_key si) ++ IDX_SEP :: path_escape pk.

(* json.Marshal(TermOptions{NotificationsEnabled: b}) *)
Definition term_options_true : bytes := Eval compute in bytes_of_string "{""NotificationsEnabled"":true}".
Definition term_options_false : bytes := Eval compute in bytes_of_string "{""NotificationsEnabled"":false}".
Definition term_options_json (enabled : bool) : bytes :=
  if enabled then term_options_true else term_options_false.
