(* Db/Snapshot.v — server/kv/kv_pebble_snapshot.go (sender side: pebbleSnapshot.Valid/Chunk/Next,
   initalizeChunkContent, NextChunkContent) and server/kv/kv_pebble.go (receiver side:
   pebbleSnapshotLoader.AddChunk / Complete).  Definitions only; the proofs are in Proofs_C06.v.

   A snapshot is a directory of files (Pebble's checkpoint: its format is OPAQUE here, a file is a name
   and a byte string).  The sender walks the file list, cuts every file into chunks of at most
   MaxSnapshotChunkSize bytes ([n] below, a package variable of server/kv) and labels each chunk with
   (file name, chunk index, chunk count); the follower's loader re-creates the files from the labelled
   chunks.  Sizes, indexes and counts are [nat] (Go: int64 file size, int32 index/count: files of 2^31
   chunks or more are outside the model). *)
From Coq Require Import List NArith Arith Bool.
From Oxia.Db Require Import Types Bytes.
Import ListNotations.
Local Open Scope nat_scope.

Definition fname := bytes.
Definition sfile := (fname * bytes)%type.

(* ---- one file ----
   initalizeChunkContent:  chunkCount = fileSize / Max; if fileSize % Max != 0 { chunkCount++ };
                           if chunkCount == 0 { chunkCount = 1 }     (an empty file is one empty chunk) *)
Definition chunk_count (n size : nat) : nat :=
  let c := (size / n + (if size mod n =? 0 then 0 else 1))%nat in
  if c =? 0 then 1%nat else c.

(* NextChunkContent: Seek(chunkIndex * Max), ReadFull(Max bytes), cut at end of file *)
Definition chunk_content (n : nat) (bs : bytes) (i : nat) : bytes := firstn n (skipn (i * n) bs).

(* all chunks of one file, in the order they are sent *)
Definition chunk (n : nat) (bs : bytes) : list bytes :=
  map (chunk_content n bs) (seq 0 (chunk_count n (length bs))).

(* ---- sender: pebbleSnapshot ---- *)
Record snap := mkSnap {
  sn_files : list sfile;      (* ps.files: the files not sent completely yet (with their contents) *)
  sn_count : nat;             (* ps.chunkCount *)
  sn_index : nat              (* ps.chunkIndex *)
}.

(* proto.SnapshotChunk without the term *)
Record chunk_msg := mkMsg { m_name : fname; m_index : nat; m_count : nat; m_content : bytes }.

(* newPebbleSnapshot: the directory listing; counters zero *)
Definition snap_new (files : list sfile) : snap := mkSnap files 0 0.

(* Valid(): len(ps.files) > 0 *)
Definition snap_valid (s : snap) : bool := match sn_files s with [] => false | _ => true end.

(* Chunk(): NextChunkContent (which computes the chunk count when chunkIndex == 0), then the labelled
   chunk {ps.files[0], ps.chunkIndex, ps.chunkCount, content}.  [None] = index out of range (panic). *)
Definition snap_chunk (n : nat) (s : snap) : option (snap * chunk_msg) :=
  match sn_files s with
  | [] => None
  | (name, content) :: _ =>
      let count := if sn_index s =? 0 then chunk_count n (length content) else sn_count s in
      Some (mkSnap (sn_files s) count (sn_index s),
            mkMsg name (sn_index s) count (chunk_content n content (sn_index s)))
  end.

(* Next(): chunkIndex++; if chunkIndex == chunkCount { chunkIndex = 0; files = files[1:] } *)
Definition snap_next (s : snap) : snap :=
  let i := S (sn_index s) in
  if i =? sn_count s then mkSnap (tl (sn_files s)) (sn_count s) 0
  else mkSnap (sn_files s) (sn_count s) i.

(* followerCursor.sendSnapshot:  for ; snapshot.Valid(); snapshot.Next() { chunk := snapshot.Chunk(); send } *)
Fixpoint send_loop (fuel n : nat) (s : snap) : option (list chunk_msg) :=
  if snap_valid s then
    match fuel with
    | O => None
    | S f =>
        match snap_chunk n s with
        | None => None
        | Some (s1, m) =>
            match send_loop f n (snap_next s1) with
            | None => None
            | Some ms => Some (m :: ms)
            end
        end
    end
  else Some [].

Definition total_chunks (n : nat) (files : list sfile) : nat :=
  fold_right (fun f acc => (chunk_count n (length (snd f)) + acc)%nat) 0%nat files.

Definition send_all (n : nat) (files : list sfile) : option (list chunk_msg) :=
  send_loop (total_chunks n files) n (snap_new files).

(* ---- receiver: pebbleSnapshotLoader ---- *)
Record loader := mkLoader {
  ld_files : list sfile;        (* files written and closed, in order of completion *)
  ld_open : option sfile        (* sl.file: the file being written, with what has been written so far *)
}.

Definition loader_new : loader := mkLoader [] None.

Inductive ld_err :=
| LdPrevUnfinished              (* "Inconsistent snapshot: previous file not finished" *)
| LdInvalidFile.                (* os.ErrInvalid: Write / Close on the nil *os.File *)

Inductive ld_result := LdOk (l : loader) | LdErr (e : ld_err).

(* os.OpenFile(name, O_WRONLY|O_CREATE|O_TRUNC): a file of that name written earlier is replaced *)
Definition fs_remove (fs : list sfile) (name : fname) : list sfile :=
  filter (fun f => negb (bytes_eqb (fst f) name)) fs.

(* AddChunk(fileName, chunkIndex, chunkCount, content).  The name is looked at only when chunkIndex == 0;
   the write loop does nothing for an empty content; the file is closed when chunkIndex == chunkCount-1
   (int32 arithmetic: for chunkCount = 0 that is -1, never equal to an index). *)
Definition add_chunk (l : loader) (m : chunk_msg) : ld_result :=
  let opened :=
    if m_index m =? 0 then
      match ld_open l with
      | Some _ => LdErr LdPrevUnfinished
      | None => LdOk (mkLoader (fs_remove (ld_files l) (m_name m)) (Some (m_name m, [])))
      end
    else LdOk l in
  match opened with
  | LdErr e => LdErr e
  | LdOk l1 =>
      let written :=
        match m_content m with
        | [] => LdOk l1
        | _ => match ld_open l1 with
               | None => LdErr LdInvalidFile
               | Some (nm, bs) => LdOk (mkLoader (ld_files l1) (Some (nm, bs ++ m_content m)))
               end
        end in
      match written with
      | LdErr e => LdErr e
      | LdOk l2 =>
          if S (m_index m) =? m_count m then
            match ld_open l2 with
            | None => LdErr LdInvalidFile
            | Some f => LdOk (mkLoader (ld_files l2 ++ [f]) None)
            end
          else LdOk l2
      end
  end.

(* readSnapshotStream: every received chunk goes to AddChunk, the first error aborts the installation *)
Fixpoint load_all (l : loader) (ms : list chunk_msg) : ld_result :=
  match ms with
  | [] => LdOk l
  | m :: tl => match add_chunk l m with
               | LdErr e => LdErr e
               | LdOk l' => load_all l' tl
               end
  end.

(* what the database directory holds when Complete() is called (Complete itself checks nothing):
   the closed files, and the file still open with what was written to it *)
Definition loader_dir (l : loader) : list sfile :=
  ld_files l ++ match ld_open l with Some f => [f] | None => [] end.

(* the specification of the chunk stream of a file list *)
Definition file_msgs (n : nat) (f : sfile) : list chunk_msg :=
  let c := chunk_count n (length (snd f)) in
  map (fun i => mkMsg (fst f) i c (chunk_content n (snd f) i)) (seq 0 c).

Definition all_msgs (n : nat) (files : list sfile) : list chunk_msg := flat_map (file_msgs n) files.
