(* Db/Proofs_C14.v — C14: ephemeral records and sessions.

   Part 1 (DB level, the shadow index of server/session_manager.go as db.go drives it):
     invariant [c14_inv]  = wf_kv  +  MIRROR (ShadowKey(s,k) is stored  <=>  k holds a record whose session is s)
                                   +  SHAPE  (every stored key SessionKey(z)/x is the shadow key of a non-empty byte key)
     preserved by every request of the C14 universe ([c14_request]: puts/deletes on user keys and on session
     keys, user ranges), by the ATOMIC session close (list + write in one step), term updates, notification
     switches and restarts  ->  [shadow_mirror] for all operation sequences from the empty DB.
     dead-session puts are rejected without effect, takeover moves the single shadow entry.
   Part 2 (cleanup): what session.delete()'s write does when the listed keys are exactly the owned ones
     ([cleanup_exact_partial]) and the two witnesses that refute the unconditional statement (O-12).
   Part 3 (session manager, SessionMgr.v): timers. *)
From Coq Require Import List NArith ZArith Bool Lia.
From Oxia.KeyOrder Require Import Model Proofs.
From Oxia.Db Require Import Types Bytes Escape Keys Kv SortedMap SortedMapProofs KeyFacts Sessions Indexes
     Sequences Notifications Write Read Spec KvProofs NumProofs Proofs_C12 SessionMgr C14_Keys.
From Oxia.Db Require C16_Gen.
Import ListNotations.

(* ================================================================ Part 1: the invariant *)
Definition has (m : kvmap) (k : key) : Prop := kv_get m k <> None.
Definition owner (m : kvmap) (k : key) : option Z :=
  match uv m k with Some e => e_session e | None => None end.

Definition mirror (m : kvmap) : Prop := forall s k, has m (shadow_key s k) <-> owner m k = Some s.
Definition shape (m : kvmap) : Prop :=
  forall z x, has m (sk_child z x) -> exists k, x = path_escape k /\ is_bytes k /\ k <> [].
Definition c14_inv (m : kvmap) : Prop := wf_kv m /\ mirror m /\ shape m.

Lemma has_dec m k : {has m k} + {~ has m k}.
Proof. unfold has. destruct (kv_get m k); [left; discriminate|right; intro H; apply H; reflexivity]. Qed.

Lemma not_has_none m k : ~ has m k <-> kv_get m k = None.
Proof. unfold has. destruct (kv_get m k); split; intro H; try reflexivity; try discriminate; [exfalso; apply H; discriminate|tauto]. Qed.

Lemma owner_internal m k : is_internal k = true -> owner m k = None.
Proof. intro H. unfold owner, uv. rewrite H. reflexivity. Qed.

Lemma owner_some_user m k s : owner m k = Some s -> is_internal k = false.
Proof. intro H. destruct (is_internal k) eqn:E; [|reflexivity]. rewrite (owner_internal m k E) in H. discriminate. Qed.

Lemma owner_ext m m' k : kv_get m' k = kv_get m k -> owner m' k = owner m k.
Proof. intro H. unfold owner, uv. rewrite H. reflexivity. Qed.

Lemma c14_inv_nil : c14_inv [].
Proof.
  split; [apply wf_nil|]. split.
  - intros s k. unfold has, owner, uv. simpl. destruct (is_internal k); split; intro H; try discriminate; exfalso; apply H; reflexivity.
  - intros z x H. exfalso. apply H. reflexivity.
Qed.

(* ---- frame: a step that creates no child of a session key, leaves the shadows of user keys and the user keys alone *)
Definition frame (m m' : kvmap) : Prop :=
  wf_kv m' /\
  (forall z x, has m' (sk_child z x) -> has m (sk_child z x)) /\
  (forall s k, is_internal k = false -> kv_get m' (shadow_key s k) = kv_get m (shadow_key s k)) /\
  (forall k, is_internal k = false -> kv_get m' k = kv_get m k).

Lemma frame_refl m : wf_kv m -> frame m m.
Proof. intro H. split; [exact H|]. split; [intros z x G; exact G|]. split; intros; reflexivity. Qed.

Lemma frame_trans a b c : frame a b -> frame b c -> frame a c.
Proof.
  intros [_ [A1 [A2 A3]]] [W [B1 [B2 B3]]]. split; [exact W|]. split; [|split].
  - intros z x H. apply A1, B1, H.
  - intros s k Hk. rewrite B2, A2 by exact Hk. reflexivity.
  - intros k Hk. rewrite B3, A3 by exact Hk. reflexivity.
Qed.

Lemma frame_owner m m' k : frame m m' -> owner m' k = owner m k.
Proof.
  intros [_ [_ [_ F]]]. unfold owner, uv. destruct (is_internal k) eqn:E; [reflexivity|]. rewrite F by exact E. reflexivity.
Qed.

Lemma frame_uv m m' k : frame m m' -> uv m' k = uv m k.
Proof.
  intros [_ [_ [_ F]]]. unfold uv. destruct (is_internal k) eqn:E; [reflexivity|]. rewrite F by exact E. reflexivity.
Qed.

Lemma c14_inv_frame m m' : c14_inv m -> frame m m' -> c14_inv m'.
Proof.
  intros [_ [M S]] F. pose proof F as [W [F1 [F2 F3]]]. split; [exact W|]. split.
  - intros s k. rewrite (frame_owner _ _ k F). destruct (is_internal k) eqn:E.
    + rewrite (owner_internal m k E). split; [|discriminate].
      intro H. rewrite shadow_key_child in H. apply F1 in H. rewrite <- shadow_key_child in H.
      apply M in H. rewrite (owner_internal m k E) in H. exact H.
    + unfold has. rewrite F2 by exact E. apply M.
  - intros z x H. exact (S z x (F1 z x H)).
Qed.

(* writing or deleting a key that is neither a child of a session key nor a user key *)
Definition neutral (x : key) : Prop := is_internal x = true /\ forall z y, x <> sk_child z y.

Lemma frame_put_neutral m x v : wf_kv m -> neutral x -> frame m (kv_put m x v).
Proof.
  intros W [Hi Hn]. split; [apply wf_put_internal; assumption|]. split; [|split].
  - intros z y H. unfold has in *. rewrite kv_get_put_other in H; [exact H|]. intro E. symmetry in E. exact (Hn _ _ E).
  - intros s k _. apply kv_get_put_other. rewrite shadow_key_child. intro E. symmetry in E. exact (Hn _ _ E).
  - intros k Hk. apply kv_get_put_other. intro; subst. congruence.
Qed.

Lemma frame_del_neutral m x : wf_kv m -> neutral x -> frame m (kv_del m x).
Proof.
  intros W [Hi Hn]. split; [apply wf_del; assumption|]. split; [|split].
  - intros z y H. unfold has in *. destruct (kv_get (kv_del m x) (sk_child z y)) eqn:G; [|contradiction].
    apply kv_get_del_some in G; [|apply W]. rewrite G. discriminate.
  - intros s k _. apply kv_get_del_other; [apply W|]. rewrite shadow_key_child. intro E. symmetry in E. exact (Hn _ _ E).
  - intros k Hk. apply kv_get_del_other; [apply W|]. intro; subst. congruence.
Qed.

(* deleting the shadow of an internal key (never present under the invariant, but the code may issue it) *)
Lemma frame_del_internal_shadow m s k : wf_kv m -> is_internal k = true -> frame m (kv_del m (shadow_key s k)).
Proof.
  intros W Hi. split; [apply wf_del; assumption|]. split; [|split].
  - intros z y H. unfold has in *. destruct (kv_get (kv_del m (shadow_key s k)) (sk_child z y)) eqn:G; [|contradiction].
    apply kv_get_del_some in G; [|apply W]. rewrite G. discriminate.
  - intros s0 k0 Hk. apply kv_get_del_other; [apply W|]. intro E. apply shadow_key_inj in E. destruct E; subst. congruence.
  - intros k0 Hk. apply kv_get_del_other; [apply W|]. intro; subst. rewrite shadow_key_internal in Hk. discriminate.
Qed.

Lemma neutral_index pk si : neutral (index_key pk si).
Proof. split; [apply index_key_internal|]. intros z y E. symmetry in E. exact (sk_child_not_index _ _ _ _ E). Qed.
Lemma neutral_session z : neutral (session_key z).
Proof. split; [apply session_key_internal|]. intros z' y E. symmetry in E. exact (sk_child_not_session _ _ _ E). Qed.
Lemma neutral_commit_offset : neutral commit_offset_key.
Proof. split; [reflexivity|]. intros z y E. symmetry in E. exact (sk_child_not_commit_offset _ _ E). Qed.
Lemma neutral_last_version : neutral last_version_key.
Proof. split; [reflexivity|]. intros z y E. symmetry in E. exact (sk_child_not_last_version _ _ E). Qed.
Lemma neutral_notification o : neutral (notification_key o).
Proof. split; [apply notification_key_internal|]. intros z y E. symmetry in E. exact (sk_child_not_notification _ _ _ E). Qed.
Lemma neutral_term : neutral term_key.
Proof. split; [reflexivity|]. intros z y E. symmetry in E. exact (sk_child_not_term _ _ E). Qed.
Lemma neutral_term_options : neutral term_options_key.
Proof. split; [reflexivity|]. intros z y E. symmetry in E. exact (sk_child_not_term_options _ _ E). Qed.

(* ---- the index callback is a frame *)
Lemma delete_indexes_frame pk e : forall b, wf_kv b -> frame b (delete_indexes b pk e).
Proof.
  unfold delete_indexes. generalize (e_indexes e) as sis. induction sis as [|si tl IH]; simpl; intros b W.
  - apply frame_refl. exact W.
  - pose proof (frame_del_neutral b _ W (neutral_index pk si)) as F.
    eapply frame_trans; [exact F|]. apply IH. apply F.
Qed.

Lemma write_indexes_frame pk sis : forall b, wf_kv b -> frame b (write_indexes b pk sis).
Proof.
  unfold write_indexes. induction sis as [|si tl IH]; simpl; intros b W.
  - apply frame_refl. exact W.
  - pose proof (frame_put_neutral b _ empty_value W (neutral_index pk si)) as F.
    eapply frame_trans; [exact F|]. apply IH. apply F.
Qed.

Lemma index_on_put_frame b p ex : wf_kv b -> exists b', index_on_put b p ex = Ok (OK, b') /\ frame b b'.
Proof.
  intro W. unfold index_on_put. eexists. split; [reflexivity|]. destruct ex as [e|].
  - pose proof (delete_indexes_frame (p_key p) e b W) as F. eapply frame_trans; [exact F|].
    apply write_indexes_frame. apply F.
  - apply write_indexes_frame. exact W.
Qed.

Lemma index_on_delete_frame b k b' : wf_kv b -> index_on_delete b k = Ok b' -> frame b b'.
Proof.
  intros W H. unfold index_on_delete in H. destruct (get_entry b k) as [[e|]|x]; inversion H; subst.
  - apply delete_indexes_frame. exact W.
  - apply frame_refl. exact W.
Qed.

(* ---- deleteShadow *)
Lemma delete_shadow_wf b k ex : wf_kv b -> wf_kv (delete_shadow b k ex).
Proof. intro W. exact (cb_rel_wf _ _ (proj1 (delete_shadow_rel b k ex W))). Qed.

Lemma delete_shadow_shrink b k ex x : wf_kv b -> has (delete_shadow b k ex) x -> has b x.
Proof.
  intros W H. unfold has in *. destruct (kv_get (delete_shadow b k ex) x) eqn:G; [|contradiction].
  apply (proj2 (delete_shadow_rel b k ex W)) in G. rewrite G. discriminate.
Qed.

Lemma delete_shadow_other b k ex x :
  wf_kv b -> (forall e s, ex = Some e -> e_session e = Some s -> x <> shadow_key s k) ->
  kv_get (delete_shadow b k ex) x = kv_get b x.
Proof.
  intros W H. unfold delete_shadow. destruct ex as [e|]; [|reflexivity].
  destruct (e_session e) as [s|] eqn:E; [|reflexivity].
  apply kv_get_del_other; [apply W|]. exact (H e s eq_refl E).
Qed.

Lemma delete_shadow_same b k e s :
  wf_kv b -> e_session e = Some s -> kv_get (delete_shadow b k (Some e)) (shadow_key s k) = None.
Proof. intros W E. unfold delete_shadow. rewrite E. apply kv_get_del_same. apply W. Qed.

(* on an internal key deleteShadow is a frame *)
Lemma delete_shadow_internal_frame b k ex : wf_kv b -> is_internal k = true -> frame b (delete_shadow b k ex).
Proof.
  intros W Hi. unfold delete_shadow. destruct ex as [e|]; [|apply frame_refl; exact W].
  destruct (e_session e) as [s|]; [|apply frame_refl; exact W].
  apply frame_del_internal_shadow; assumption.
Qed.

(* ================================================================ puts *)
Definition key_eq_dec := list_eq_dec N.eq_dec.

Definition session_status (b : kvmap) (sess : option Z) : status :=
  match sess with None => OK | Some z => if alive b z then OK else SESSION_DOES_NOT_EXIST end.

(* the batch after OnPut of the session callback succeeded, as a function of the put's session *)
Definition after_session_on_put (b : kvmap) (k : key) (ps : option Z) : kvmap :=
  match ps with
  | None => delete_shadow b k (uv b k)
  | Some s => kv_put (delete_shadow b k (uv b k)) (shadow_key s k) empty_value
  end.

Lemma mirror_none m s k : mirror m -> owner m k <> Some s -> kv_get m (shadow_key s k) = None.
Proof. intros M H. apply not_has_none. intro G. apply M in G. contradiction. Qed.

Lemma put_result_inv b k ps b2 e' :
  c14_inv b -> is_internal k = false ->
  (ps <> None -> is_bytes k /\ k <> []) ->
  frame (after_session_on_put b k ps) b2 -> e_session e' = ps ->
  c14_inv (kv_put b2 k (VRecord e')).
Proof.
  intros [W [M S]] Hi Hb F He.
  set (d := delete_shadow b k (uv b k)).
  assert (Wd : wf_kv d) by (apply delete_shadow_wf; exact W).
  assert (Dk : forall s0, kv_get d (shadow_key s0 k) = None).
  { intro s0. unfold d. destruct (uv b k) as [e|] eqn:U.
    - destruct (e_session e) as [s1|] eqn:Es.
      + destruct (Z.eq_dec s0 s1) as [->|Hne].
        * apply delete_shadow_same; assumption.
        * rewrite delete_shadow_other; [|exact W|].
          -- apply mirror_none; [exact M|]. unfold owner. rewrite U, Es. congruence.
          -- intros e0 s2 E0 E2 C. inversion E0; subst e0. apply shadow_key_inj in C. destruct C. congruence.
      + unfold delete_shadow. rewrite Es. apply mirror_none; [exact M|]. unfold owner. rewrite U, Es. discriminate.
    - simpl. apply mirror_none; [exact M|]. unfold owner. rewrite U. discriminate. }
  assert (Do : forall x, (forall s0, x <> shadow_key s0 k) -> kv_get d x = kv_get b x).
  { intros x Hx. unfold d. apply delete_shadow_other; [exact W|]. intros e s _ _. apply Hx. }
  set (b1 := after_session_on_put b k ps) in *.
  assert (B1k : forall s0, has b1 (shadow_key s0 k) <-> ps = Some s0).
  { intro s0. unfold b1, after_session_on_put. fold d. destruct ps as [s|].
    - destruct (Z.eq_dec s0 s) as [->|Hne].
      + unfold has. rewrite kv_get_put_same. split; [reflexivity|discriminate].
      + unfold has. rewrite kv_get_put_other.
        * rewrite Dk. split; [intro H; exfalso; apply H; reflexivity|congruence].
        * intro C. apply shadow_key_inj in C. destruct C. contradiction.
    - unfold has. rewrite Dk. split; [intro H; exfalso; apply H; reflexivity|discriminate]. }
  assert (B1o : forall x, (forall s0, x <> shadow_key s0 k) -> kv_get b1 x = kv_get b x).
  { intros x Hx. unfold b1, after_session_on_put. fold d. destruct ps as [s|].
    - rewrite kv_get_put_other by apply Hx. apply Do, Hx.
    - apply Do, Hx. }
  destruct F as [W2 [F1 [F2 F3]]].
  assert (Wm : wf_kv (kv_put b2 k (VRecord e'))) by (apply wf_put_record; exact W2).
  assert (Gi : forall x, is_internal x = true -> kv_get (kv_put b2 k (VRecord e')) x = kv_get b2 x).
  { intros x Hx. apply kv_get_put_other. intro; subst. congruence. }
  assert (Ub : forall k0, uv b2 k0 = uv b k0).
  { intro k0. unfold uv. destruct (is_internal k0) eqn:E; [reflexivity|]. rewrite F3 by exact E.
    rewrite B1o; [reflexivity|]. intros s0 C. subst. rewrite shadow_key_internal in E. discriminate. }
  split; [exact Wm|]. split.
  - intros s0 k0. unfold has. rewrite Gi by apply shadow_key_internal.
    destruct (is_internal k0) eqn:E.
    + rewrite (owner_internal _ k0 E). split; [|discriminate]. intro H. exfalso.
      assert (H1 : has b1 (shadow_key s0 k0)) by (rewrite shadow_key_child; apply F1; rewrite <- shadow_key_child; exact H).
      unfold has in H1. rewrite B1o in H1.
      * apply M in H1. rewrite (owner_internal _ k0 E) in H1. discriminate.
      * intros s1 C. apply shadow_key_inj in C. destruct C; subst. congruence.
    + rewrite F2 by exact E. unfold owner. rewrite uv_put_user by exact Hi. unfold upd.
      destruct (key_eq_dec k0 k) as [->|Hne].
      * rewrite bytes_eqb_refl. rewrite He. apply B1k.
      * rewrite bytes_eqb_neq by exact Hne. rewrite Ub. rewrite B1o.
        -- apply M.
        -- intros s1 C. apply shadow_key_inj in C. destruct C. contradiction.
  - intros z x H. unfold has in H. rewrite Gi in H by apply sk_child_internal.
    apply F1 in H. destruct ps as [s|].
    + destruct (key_eq_dec (sk_child z x) (shadow_key s k)) as [E|Hne].
      * rewrite shadow_key_child in E. apply sk_child_inj in E. destruct E as [_ E].
        destruct Hb as [Hb1 Hb2]; [discriminate|]. exists k. auto.
      * unfold b1, after_session_on_put, has in H. rewrite kv_get_put_other in H by exact Hne.
        apply delete_shadow_shrink in H; [|exact W]. exact (S z x H).
    + unfold b1, after_session_on_put in H. apply delete_shadow_shrink in H; [|exact W]. exact (S z x H).
Qed.

Lemma alive_frame m m' z : frame m m' -> kv_get m' (session_key z) = kv_get m (session_key z) -> alive m' z = alive m z.
Proof. intros _ H. unfold alive. rewrite H. reflexivity. Qed.

(* second half of applyPut on a user key, [ex] being the current record *)
Lemma finish_put_user w p ts rk :
  c14_inv (w_kv w) -> is_internal (p_key p) = false ->
  (p_session p <> None -> is_bytes (p_key p) /\ p_key p <> []) ->
  exists w' r, finish_put wrapper_callbacks w p (uv (w_kv w) (p_key p)) rk ts = (w', Ok r) /\
    c14_inv (w_kv w') /\
    (forall z, alive (w_kv w') z = alive (w_kv w) z) /\
    pr_status r = session_status (w_kv w) (p_session p) /\
    (pr_status r = OK ->
       exists e', e_session e' = p_session p /\
                  forall k0, uv (w_kv w') k0 = upd (uv (w_kv w)) (p_key p) (Some e') k0) /\
    (pr_status r <> OK -> w_kv w' = w_kv w).
Proof.
  intros I Hi Hb. pose proof I as [W [M S]]. unfold finish_put. cbn [cb_on_put wrapper_callbacks].
  unfold wrapper_on_put, session_on_put, session_status, alive.
  set (b := w_kv w) in *. set (k := p_key p) in *. set (ex := uv b k).
  assert (OKcase : forall b1, b1 = after_session_on_put b k (p_session p) ->
    wf_kv b1 ->
    (forall z, kv_get b1 (session_key z) = kv_get b (session_key z)) ->
    exists w' r,
      match index_on_put b1 p ex with
      | Err e => (w, Err e)
      | Ok (OK, b2) =>
          (mkW (kv_put b2 k (VRecord (stored_entry ex p (wrap64 (w_ver w + 1)) ts))) (wrap64 (w_ver w + 1))
               (notif_modified (w_nm w) k (wrap64 (w_ver w + 1)) (e_modcount (stored_entry ex p (wrap64 (w_ver w + 1)) ts)))
               (w_events w),
           Ok (mkPutResp OK (Some (version_of (stored_entry ex p (wrap64 (w_ver w + 1)) ts))) rk))
      | Ok (st, b2) => (set_kv w b2, Ok (put_status st))
      end = (w', Ok r) /\
      c14_inv (w_kv w') /\ (forall z, alive (w_kv w') z = alive b z) /\ pr_status r = OK /\
      (pr_status r = OK -> exists e', e_session e' = p_session p /\ forall k0, uv (w_kv w') k0 = upd (uv b) k (Some e') k0) /\
      (pr_status r <> OK -> w_kv w' = b)).
  { intros b1 Eb1 W1 A1. destruct (index_on_put_frame b1 p ex W1) as [b2 [E2 F]]. rewrite E2.
    eexists. eexists. split; [reflexivity|]. cbn [w_kv pr_status].
    set (e' := stored_entry ex p (wrap64 (w_ver w + 1)) ts).
    assert (Ee : e_session e' = p_session p) by (unfold e', stored_entry; destruct ex; reflexivity).
    split; [|split; [|split; [reflexivity|split]]].
    - subst b1. eapply put_result_inv; eassumption.
    - intro z. unfold alive. rewrite kv_get_put_other by (apply session_key_not_user; exact Hi).
      destruct F as [_ [_ [_ _]]].
      assert (G : kv_get b2 (session_key z) = kv_get b1 (session_key z)).
      { (* the index callback only touches index keys *)
        clear -E2 W1. unfold index_on_put in E2. inversion E2; subst b2; clear E2.
        assert (Hd : forall e bb, wf_kv bb -> kv_get (delete_indexes bb (p_key p) e) (session_key z) = kv_get bb (session_key z)).
        { intros e. unfold delete_indexes. generalize (e_indexes e). induction l as [|si tl IH]; simpl; intros bb Wb; [reflexivity|].
          rewrite IH by (apply wf_del; exact Wb). apply kv_get_del_other; [apply Wb|apply session_key_not_index]. }
        assert (Hw : forall sis bb, kv_get (write_indexes bb (p_key p) sis) (session_key z) = kv_get bb (session_key z)).
        { unfold write_indexes. induction sis as [|si tl IH]; simpl; intros bb; [reflexivity|].
          rewrite IH. apply kv_get_put_other. apply session_key_not_index. }
        destruct ex as [e|]; rewrite Hw; [apply Hd; exact W1|reflexivity]. }
      rewrite G, A1. reflexivity.
    - intros _. exists e'. split; [exact Ee|]. intro k0. rewrite uv_put_user by exact Hi. unfold upd.
      destruct (bytes_eqb k0 k); [reflexivity|]. rewrite (frame_uv _ _ k0 F). subst b1.
      unfold uv. destruct (is_internal k0) eqn:E0; [reflexivity|].
      assert (G0 : kv_get (after_session_on_put b k (p_session p)) k0 = kv_get b k0).
      { unfold after_session_on_put. destruct (p_session p) as [s|].
        - rewrite kv_get_put_other by (intro; subst; rewrite shadow_key_internal in E0; discriminate).
          apply delete_shadow_other; [exact W|]. intros e s0 _ _ C. subst. rewrite shadow_key_internal in E0. discriminate.
        - apply delete_shadow_other; [exact W|]. intros e s0 _ _ C. subst. rewrite shadow_key_internal in E0. discriminate. }
      rewrite G0. reflexivity.
    - intro C. exfalso. apply C. reflexivity. }
  destruct (p_session p) as [s|] eqn:Ps.
  - destruct (kv_get b (session_key s)) as [v|] eqn:A.
    + fold ex. change (delete_shadow b k ex) with (delete_shadow b k (uv b k)).
      specialize (OKcase (kv_put (delete_shadow b k (uv b k)) (shadow_key s k) empty_value) eq_refl).
      destruct OKcase as [w' [r [E R]]].
      * apply wf_put_record. apply delete_shadow_wf. exact W.
      * intro z. rewrite kv_get_put_other by (intro C; symmetry in C; rewrite shadow_key_child in C; exact (sk_child_not_session _ _ _ C)).
        apply delete_shadow_other; [exact W|]. intros e s0 _ _ C. rewrite shadow_key_child in C. symmetry in C. exact (sk_child_not_session _ _ _ C).
      * exists w', r. split; [exact E|]. destruct R as [R1 [R2 [R3 [R4 R5]]]]. split; [exact R1|]. split; [exact R2|]. split; [exact R3|]. split; [exact R4|exact R5].
    + eexists. eexists. split; [reflexivity|]. cbn [set_kv w_kv put_status pr_status].
      split; [exact I|]. split; [reflexivity|]. split; [reflexivity|]. split; [discriminate|reflexivity].
  - fold ex. change (delete_shadow b k ex) with (after_session_on_put b k None).
    specialize (OKcase (after_session_on_put b k None) eq_refl).
    destruct OKcase as [w' [r [E R]]].
    + apply delete_shadow_wf. exact W.
    + intro z. apply delete_shadow_other; [exact W|]. intros e s0 _ _ C. rewrite shadow_key_child in C. symmetry in C. exact (sk_child_not_session _ _ _ C).
    + exists w', r. split; [exact E|]. destruct R as [R1 [R2 [R3 [R4 R5]]]]. split; [exact R1|]. split; [exact R2|]. split; [exact R3|]. split; [exact R4|exact R5].
Qed.

Definition c14_user_put (p : put_req) : Prop :=
  p_deltas p = [] /\ is_internal (p_key p) = false /\
  (p_session p <> None -> is_bytes (p_key p) /\ p_key p <> []).

Definition put_status_of (b : kvmap) (p : put_req) : status :=
  if spec_check (uv b (p_key p)) (p_expected p) then session_status b (p_session p) else UNEXPECTED_VERSION_ID.

Lemma apply_put_user w p ts :
  c14_inv (w_kv w) -> c14_user_put p ->
  exists w' r, apply_put wrapper_callbacks w p ts = (w', Ok r) /\
    c14_inv (w_kv w') /\
    (forall z, alive (w_kv w') z = alive (w_kv w) z) /\
    pr_status r = put_status_of (w_kv w) p /\
    (pr_status r = OK ->
       exists e', e_session e' = p_session p /\
                  forall k0, uv (w_kv w') k0 = upd (uv (w_kv w)) (p_key p) (Some e') k0) /\
    (pr_status r <> OK -> w_kv w' = w_kv w).
Proof.
  intros I [D [Hi Hb]]. unfold apply_put, put_status_of. rewrite D.
  rewrite (check_expected_user _ _ (p_expected p) (proj1 I) Hi).
  destruct (spec_check (uv (w_kv w) (p_key p)) (p_expected p)).
  - apply finish_put_user; assumption.
  - exists w, (put_status UNEXPECTED_VERSION_ID). split; [reflexivity|]. split; [exact I|]. split; [reflexivity|].
    split; [reflexivity|]. split; [discriminate|reflexivity].
Qed.

(* createSession's put: the session key, no session id on the put itself *)
Definition c14_session_put (p : put_req) : Prop :=
  p_deltas p = [] /\ p_session p = None /\ exists z, p_key p = session_key z.

Lemma apply_put_session_key w p ts :
  wf_kv (w_kv w) -> c14_session_put p -> frame (w_kv w) (w_kv (fst (apply_put wrapper_callbacks w p ts))).
Proof.
  intros W [D [Ps [z Hk]]]. unfold apply_put. rewrite D.
  destruct (check_expected (w_kv w) (p_key p) (p_expected p)) as [ex| |e]; cbn [fst]; try (apply frame_refl; exact W).
  unfold finish_put. cbn [cb_on_put wrapper_callbacks]. unfold wrapper_on_put, session_on_put. rewrite Ps.
  assert (Hi : is_internal (p_key p) = true) by (rewrite Hk; apply session_key_internal).
  pose proof (delete_shadow_internal_frame (w_kv w) (p_key p) ex W Hi) as F1.
  destruct (index_on_put_frame _ p ex (proj1 F1)) as [b2 [E2 F2]]. rewrite E2. cbn [fst w_kv].
  eapply frame_trans; [exact F1|]. eapply frame_trans; [exact F2|].
  apply frame_put_neutral; [apply F2|]. rewrite Hk. apply neutral_session.
Qed.

(* ================================================================ deletes *)
Lemma delete_shadow_current_none b k s0 :
  c14_inv b -> kv_get (delete_shadow b k (uv b k)) (shadow_key s0 k) = None.
Proof.
  intros [W [M S]]. destruct (uv b k) as [e|] eqn:U.
  - destruct (e_session e) as [s1|] eqn:Es.
    + destruct (Z.eq_dec s0 s1) as [->|Hne].
      * apply delete_shadow_same; assumption.
      * rewrite delete_shadow_other; [|exact W|].
        -- apply mirror_none; [exact M|]. unfold owner. rewrite U, Es. congruence.
        -- intros e0 s2 E0 E2 C. inversion E0; subst e0. apply shadow_key_inj in C. destruct C. congruence.
    + unfold delete_shadow. rewrite Es. apply mirror_none; [exact M|]. unfold owner. rewrite U, Es. discriminate.
  - simpl. apply mirror_none; [exact M|]. unfold owner. rewrite U. discriminate.
Qed.

Lemma delete_shadow_user_get b k ex k0 : wf_kv b -> is_internal k0 = false -> kv_get (delete_shadow b k ex) k0 = kv_get b k0.
Proof.
  intros W H. apply delete_shadow_other; [exact W|]. intros e s _ _ C. subst. rewrite shadow_key_internal in H. discriminate.
Qed.

Lemma del_result_inv b k e b2 :
  c14_inv b -> is_internal k = false -> uv b k = Some e ->
  frame (delete_shadow b k (Some e)) b2 -> c14_inv (kv_del b2 k).
Proof.
  intros I Hi U F. pose proof I as [W [M S]].
  set (b1 := delete_shadow b k (Some e)) in *.
  assert (Dk : forall s0, kv_get b1 (shadow_key s0 k) = None).
  { intro s0. unfold b1. rewrite <- U. apply delete_shadow_current_none. exact I. }
  assert (Do : forall x, (forall s0, x <> shadow_key s0 k) -> kv_get b1 x = kv_get b x).
  { intros x Hx. unfold b1. apply delete_shadow_other; [exact W|]. intros e0 s _ _. apply Hx. }
  destruct F as [W2 [F1 [F2 F3]]].
  assert (Gi : forall x, is_internal x = true -> kv_get (kv_del b2 k) x = kv_get b2 x).
  { intros x Hx. apply kv_get_del_other; [apply W2|]. intro; subst. congruence. }
  assert (Ub : forall k0, uv b2 k0 = uv b k0).
  { intro k0. unfold uv. destruct (is_internal k0) eqn:E; [reflexivity|]. rewrite F3 by exact E.
    unfold b1. rewrite delete_shadow_user_get by assumption. reflexivity. }
  split; [apply wf_del; exact W2|]. split.
  - intros s0 k0. unfold has. rewrite Gi by apply shadow_key_internal.
    destruct (is_internal k0) eqn:E.
    + rewrite (owner_internal _ k0 E). split; [|discriminate]. intro H. exfalso.
      assert (H1 : has b1 (shadow_key s0 k0)) by (rewrite shadow_key_child; apply F1; rewrite <- shadow_key_child; exact H).
      apply delete_shadow_shrink in H1; [|exact W]. apply M in H1. rewrite (owner_internal _ k0 E) in H1. discriminate.
    + rewrite F2 by exact E. unfold owner. rewrite uv_del_user by apply W2. unfold upd.
      destruct (key_eq_dec k0 k) as [->|Hne].
      * rewrite bytes_eqb_refl. rewrite Dk. split; [intro H; exfalso; apply H; reflexivity|discriminate].
      * rewrite bytes_eqb_neq by exact Hne. rewrite Ub. rewrite Do.
        -- apply M.
        -- intros s1 C. apply shadow_key_inj in C. destruct C. contradiction.
  - intros z x H. unfold has in H. rewrite Gi in H by apply sk_child_internal.
    apply F1 in H. apply delete_shadow_shrink in H; [|exact W]. exact (S z x H).
Qed.

Definition delete_status_of (b : kvmap) (d : del_req) : status :=
  match uv b (d_key d) with
  | None => if spec_check None (d_expected d) then KEY_NOT_FOUND else UNEXPECTED_VERSION_ID
  | Some e => if spec_check (Some e) (d_expected d) then OK else UNEXPECTED_VERSION_ID
  end.

Lemma delete_indexes_get_other pk e x : forall b,
  wf_kv b -> (forall pk' si, x <> index_key pk' si) -> kv_get (delete_indexes b pk e) x = kv_get b x.
Proof.
  unfold delete_indexes. generalize (e_indexes e). induction l as [|si tl IH]; simpl; intros b W H; [reflexivity|].
  rewrite IH by (try apply wf_del; assumption). apply kv_get_del_other; [apply W|apply H].
Qed.

Lemma apply_delete_user w d :
  c14_inv (w_kv w) -> is_internal (d_key d) = false ->
  exists w', apply_delete wrapper_callbacks w d = (w', Ok (delete_status_of (w_kv w) d)) /\
    c14_inv (w_kv w') /\
    (forall z, alive (w_kv w') z = alive (w_kv w) z) /\
    (delete_status_of (w_kv w) d = OK -> forall k0, uv (w_kv w') k0 = upd (uv (w_kv w)) (d_key d) None k0) /\
    (delete_status_of (w_kv w) d <> OK -> w_kv w' = w_kv w).
Proof.
  intros I Hi. pose proof I as [W [M S]]. unfold apply_delete, delete_status_of.
  rewrite (check_expected_user _ _ (d_expected d) W Hi).
  set (b := w_kv w) in *. set (k := d_key d) in *.
  assert (Triv : forall st, st <> OK ->
    exists w', (w, @Ok status st) = (w', Ok st) /\ c14_inv (w_kv w') /\ (forall z, alive (w_kv w') z = alive b z) /\
      (st = OK -> forall k0, uv (w_kv w') k0 = upd (uv b) k None k0) /\ (st <> OK -> w_kv w' = b)).
  { intros st Hst. exists w. split; [reflexivity|]. split; [exact I|]. split; [reflexivity|]. split; [contradiction|reflexivity]. }
  destruct (uv b k) as [e|] eqn:U.
  - destruct (spec_check (Some e) (d_expected d)); [|apply Triv; discriminate].
    cbn [cb_on_delete wrapper_callbacks]. unfold wrapper_on_delete, session_on_delete.
    rewrite (get_entry_user b k W Hi), U.
    set (b1 := delete_shadow b k (Some e)).
    assert (W1 : wf_kv b1) by (apply delete_shadow_wf; exact W).
    unfold index_on_delete. rewrite (get_entry_user b1 k W1 Hi).
    assert (U1 : uv b1 k = Some e).
    { unfold uv. rewrite Hi. unfold b1. rewrite delete_shadow_user_get by assumption.
      unfold uv in U. rewrite Hi in U. exact U. }
    rewrite U1.
    pose proof (delete_indexes_frame k e b1 W1) as F.
    eexists. split; [reflexivity|]. cbn [w_kv].
    split; [eapply del_result_inv; eassumption|]. split; [|split; [|intro C; exfalso; apply C; reflexivity]].
    + intro z. unfold alive. rewrite kv_get_del_other; [|apply F|apply session_key_not_user; exact Hi].
      rewrite delete_indexes_get_other; [|exact W1|intros; apply session_key_not_index].
      unfold b1. rewrite delete_shadow_other; [reflexivity|exact W|].
      intros e0 s0 _ _ C. rewrite shadow_key_child in C. symmetry in C. exact (sk_child_not_session _ _ _ C).
    + intros _ k0. rewrite uv_del_user by apply F. unfold upd. destruct (bytes_eqb k0 k); [reflexivity|].
      rewrite (frame_uv _ _ k0 F). unfold uv. destruct (is_internal k0) eqn:E0; [reflexivity|].
      unfold b1. rewrite delete_shadow_user_get by assumption. reflexivity.
  - destruct (spec_check None (d_expected d)); apply Triv; discriminate.
Qed.

Lemma wrapper_on_delete_internal_frame b k b' :
  wf_kv b -> is_internal k = true -> wrapper_on_delete b k = Ok b' -> frame b b'.
Proof.
  intros W Hi H. unfold wrapper_on_delete, session_on_delete in H.
  destruct (get_entry b k) as [[e|]|x]; try discriminate.
  - pose proof (delete_shadow_internal_frame b k (Some e) W Hi) as F1.
    eapply frame_trans; [exact F1|]. eapply index_on_delete_frame; [apply F1|exact H].
  - eapply index_on_delete_frame; eassumption.
Qed.

Lemma apply_delete_neutral w d :
  wf_kv (w_kv w) -> neutral (d_key d) -> frame (w_kv w) (w_kv (fst (apply_delete wrapper_callbacks w d))).
Proof.
  intros W N. unfold apply_delete.
  destruct (check_expected (w_kv w) (d_key d) (d_expected d)) as [[e|]| |x]; cbn [fst]; try (apply frame_refl; exact W).
  cbn [cb_on_delete wrapper_callbacks].
  destruct (wrapper_on_delete (w_kv w) (d_key d)) as [b1|x] eqn:E; cbn [fst w_kv]; [|apply frame_refl; exact W].
  pose proof (wrapper_on_delete_internal_frame _ _ _ W (proj1 N) E) as F.
  eapply frame_trans; [exact F|]. apply frame_del_neutral; [apply F|exact N].
Qed.

(* ================================================================ delete-range *)
Lemma in_kv_range m lo hi k v :
  sorted m -> (In (k, v) (kv_range m lo hi) <-> kv_get m k = Some v /\ key_in_range lo hi k = true).
Proof.
  intro Hs. unfold kv_range, sm_range. rewrite filter_In. simpl. unfold key_in_range. split.
  - intros [H1 H2]. split; [apply kv_in_get; assumption|exact H2].
  - intros [H1 H2]. split; [apply kv_get_in; assumption|exact H2].
Qed.

Lemma wrapper_on_delete_with_entry_eq b k e :
  wrapper_on_delete_with_entry b k e = Ok (delete_indexes (delete_shadow b k (Some e)) k e).
Proof. reflexivity. Qed.

Lemma scan_callbacks_cons b k e tl :
  scan_callbacks wrapper_callbacks b ((k, VRecord e) :: tl) =
  scan_callbacks wrapper_callbacks (delete_indexes (delete_shadow b k (Some e)) k e) tl.
Proof. reflexivity. Qed.

Lemma has_shrink b b' x : cb_shrink b b' -> has b' x -> has b x.
Proof. intros Sh H. unfold has in *. destruct (kv_get b' x) eqn:G; [|contradiction]. apply Sh in G. rewrite G. discriminate. Qed.

(* the per-key callbacks of a range delete: which keys they touch *)
Lemma scan_callbacks_c14 scanned : forall b b1,
  wf_kv b -> scan_callbacks wrapper_callbacks b scanned = Ok b1 ->
  (forall x, (forall pk si, x <> index_key pk si) ->
             (forall k e s, In (k, VRecord e) scanned -> e_session e = Some s -> x <> shadow_key s k) ->
             kv_get b1 x = kv_get b x) /\
  (forall k e s, In (k, VRecord e) scanned -> e_session e = Some s -> kv_get b1 (shadow_key s k) = None).
Proof.
  induction scanned as [|[k v] tl IH]; intros b b1 W H.
  - inversion H; subst. split; [reflexivity|]. intros k e s [].
  - destruct v as [e|nb]; [|discriminate]. rewrite scan_callbacks_cons in H.
    set (bm := delete_indexes (delete_shadow b k (Some e)) k e) in *.
    assert (Wd : wf_kv (delete_shadow b k (Some e))) by (apply delete_shadow_wf; exact W).
    assert (Wm : wf_kv bm) by (apply (delete_indexes_frame k e _ Wd)).
    destruct (IH bm b1 Wm H) as [A B]. destruct (scan_callbacks_ok _ _ _ Wm H) as [_ Sh]. split.
    + intros x Hx Hs. rewrite A; [|exact Hx|intros k0 e0 s0 Hin; apply Hs; right; exact Hin].
      unfold bm. rewrite delete_indexes_get_other by assumption.
      apply delete_shadow_other; [exact W|]. intros e0 s0 E0 Es. inversion E0; subst e0.
      apply (Hs k e s0); [left; reflexivity|exact Es].
    + intros k0 e0 s0 [Hin|Hin] Es.
      * inversion Hin; subst k0 e0. apply not_has_none. intro Hh. apply (has_shrink _ _ _ Sh) in Hh.
        unfold has, bm in Hh. rewrite delete_indexes_get_other in Hh; [|exact Wd|].
        -- rewrite delete_shadow_same in Hh by assumption. apply Hh. reflexivity.
        -- intros pk si C. rewrite shadow_key_child in C. exact (sk_child_not_index _ _ _ _ C).
      * eapply B; eassumption.
Qed.

Lemma range_user_inv thr b b1 lo hi :
  c14_inv b -> (forall k, is_internal k = true -> key_in_range lo hi k = false) ->
  scan_callbacks wrapper_callbacks b (kv_range b lo hi) = Ok b1 ->
  c14_inv (after_range_delete thr b b1 lo hi).
Proof.
  intros [W [M S]] Hu H.
  destruct (scan_callbacks_ok _ _ _ W H) as [W1 Sh].
  destruct (scan_callbacks_c14 _ _ _ W H) as [A B].
  assert (G : forall x, kv_get (after_range_delete thr b b1 lo hi) x = if key_in_range lo hi x then None else kv_get b1 x).
  { intro x. apply range_delete_get; [apply W|apply W1|exact Sh]. }
  assert (Gi : forall x, is_internal x = true -> kv_get (after_range_delete thr b b1 lo hi) x = kv_get b1 x).
  { intros x Hx. rewrite G, (Hu x Hx). reflexivity. }
  assert (Au : forall k0, is_internal k0 = false -> kv_get b1 k0 = kv_get b k0).
  { intros k0 Hk. apply A.
    - intros pk si C. subst. rewrite index_key_internal in Hk. discriminate.
    - intros k e s _ _ C. subst. rewrite shadow_key_internal in Hk. discriminate. }
  split; [apply wf_after_range_delete; exact W1|]. split.
  - intros s0 k0. unfold has. rewrite Gi by apply shadow_key_internal. split.
    + intro H1. assert (H0 : has b (shadow_key s0 k0)) by (eapply has_shrink; eassumption).
      apply M in H0. pose proof (owner_some_user _ _ _ H0) as Hk.
      unfold owner, uv in H0 |- *. rewrite Hk in *. rewrite G.
      destruct (kv_get b k0) as [[e0|nb]|] eqn:G0; try discriminate.
      destruct (key_in_range lo hi k0) eqn:R.
      * exfalso. apply H1. apply (B k0 e0 s0); [|exact H0]. apply in_kv_range; [apply W|]. split; assumption.
      * rewrite Au by exact Hk. rewrite G0. exact H0.
    + intro H0. pose proof (owner_some_user _ _ _ H0) as Hk.
      unfold owner, uv in H0. rewrite Hk, G in H0.
      destruct (key_in_range lo hi k0) eqn:R; [discriminate|]. rewrite Au in H0 by exact Hk.
      assert (Hb : has b (shadow_key s0 k0)) by (apply M; unfold owner, uv; rewrite Hk; exact H0).
      unfold has in Hb. rewrite A; [exact Hb| |].
      * intros pk si C. rewrite shadow_key_child in C. exact (sk_child_not_index _ _ _ _ C).
      * intros k e s Hin _ C. apply shadow_key_inj in C. destruct C as [_ C]. subst k.
        apply in_kv_range in Hin; [|apply W]. destruct Hin as [_ Hin]. congruence.
  - intros z x H1. unfold has in H1. rewrite Gi in H1 by apply sk_child_internal.
    apply (has_shrink _ _ _ Sh) in H1. exact (S z x H1).
Qed.

Lemma apply_delete_range_user thr w r :
  c14_inv (w_kv w) -> range_user r ->
  exists w', apply_delete_range wrapper_callbacks thr w r = (w', Ok OK) /\
    c14_inv (w_kv w') /\
    (forall z, alive (w_kv w') z = alive (w_kv w) z) /\
    (forall k0, uv (w_kv w') k0 = if key_in_range (Some (r_start r)) (Some (r_end r)) k0 then None else uv (w_kv w) k0).
Proof.
  intros I Hu. pose proof I as [W _]. rewrite apply_delete_range_unfold.
  destruct (scan_callbacks_spec _ (w_kv w) W (scanned_are_records _ _ _ W Hu)) as [b1 [E [R Sh]]].
  pose proof (range_sim thr w r) as Sim. rewrite apply_delete_range_unfold, E in Sim.
  specialize (Sim _ OK (absw w) W Hu (seq_eq_refl _) eq_refl). destruct Sim as [_ [[Q1 [Q2 _]] _]].
  rewrite E. eexists. split; [reflexivity|]. cbn [w_kv] in *.
  split; [apply range_user_inv; assumption|]. split; [exact Q2|exact Q1].
Qed.

(* the callbacks over a scan of internal keys only (the session's shadow range) are a frame *)
Lemma scan_callbacks_internal_frame scanned : forall b b1,
  wf_kv b -> (forall k v, In (k, v) scanned -> is_internal k = true) ->
  scan_callbacks wrapper_callbacks b scanned = Ok b1 -> frame b b1.
Proof.
  induction scanned as [|[k v] tl IH]; intros b b1 W Hin H.
  - inversion H; subst. apply frame_refl. exact W.
  - destruct v as [e|nb]; [|discriminate]. rewrite scan_callbacks_cons in H.
    pose proof (delete_shadow_internal_frame b k (Some e) W (Hin k _ (or_introl eq_refl))) as F1.
    pose proof (delete_indexes_frame k e _ (proj1 F1)) as F2.
    eapply frame_trans; [exact F1|]. eapply frame_trans; [exact F2|].
    apply IH; [apply F2| |exact H]. intros k0 v0 H0. apply (Hin k0 v0). right. exact H0.
Qed.

Lemma scan_callbacks_ok_records scanned : forall b b1,
  scan_callbacks wrapper_callbacks b scanned = Ok b1 -> forall k v, In (k, v) scanned -> exists e, v = VRecord e.
Proof.
  induction scanned as [|[k0 v0] tl IH]; intros b b1 H k v Hin; [destruct Hin|].
  destruct v0 as [e0|nb0]; [|discriminate]. destruct Hin as [Hin|Hin].
  - inversion Hin; subst. eauto.
  - rewrite scan_callbacks_cons in H. eapply IH; eassumption.
Qed.

Definition shadow_range (z : Z) : range_req := mkRange (shadow_lo z) (shadow_hi z).

Lemma range_shadow_inv thr b b1 z :
  c14_inv b -> (forall k, owner b k <> Some z) ->
  scan_callbacks wrapper_callbacks b (kv_range b (Some (shadow_lo z)) (Some (shadow_hi z))) = Ok b1 ->
  let m' := after_range_delete thr b b1 (Some (shadow_lo z)) (Some (shadow_hi z)) in
  c14_inv m' /\ (forall k, uv m' k = uv b k) /\ (forall s, alive m' s = alive b s) /\
  (forall x, key_in_range (Some (shadow_lo z)) (Some (shadow_hi z)) x = false ->
             (forall s k, x <> shadow_key s k) -> (forall pk si, x <> index_key pk si) -> kv_get m' x = kv_get b x).
Proof.
  intros [W [M S]] Hno H m'.
  destruct (scan_callbacks_ok _ _ _ W H) as [W1 Sh].
  assert (F : frame b b1).
  { eapply scan_callbacks_internal_frame; [exact W| |exact H].
    intros k v Hin. apply in_kv_range in Hin; [|apply W]. destruct Hin as [_ Hr].
    apply shadow_range_iff in Hr. destruct Hr as [x [-> _]]. apply sk_child_internal. }
  assert (G : forall x, kv_get m' x = if key_in_range (Some (shadow_lo z)) (Some (shadow_hi z)) x then None else kv_get b1 x).
  { intro x. apply range_delete_get; [apply W|apply W1|exact Sh]. }
  pose proof F as [_ [F1 [F2 F3]]].
  assert (Gu : forall k, is_internal k = false -> kv_get m' k = kv_get b k).
  { intros k Hk. rewrite G, (shadow_range_not_user z k Hk). apply F3. exact Hk. }
  assert (Uv : forall k, uv m' k = uv b k).
  { intro k. unfold uv. destruct (is_internal k) eqn:E; [reflexivity|]. rewrite Gu by exact E. reflexivity. }
  split; [|split; [exact Uv|split]].
  - split; [apply wf_after_range_delete; exact W1|]. split.
    + intros s0 k0. unfold owner. rewrite Uv. fold (owner b k0). unfold has. rewrite G.
      destruct (is_internal k0) eqn:E.
      * rewrite (owner_internal _ k0 E). split; [|discriminate]. intro H1. exfalso.
        destruct (key_in_range _ _ (shadow_key s0 k0)); [apply H1; reflexivity|].
        assert (H2 : has b (shadow_key s0 k0)) by (rewrite shadow_key_child; apply F1; rewrite <- shadow_key_child; exact H1).
        apply M in H2. rewrite (owner_internal _ k0 E) in H2. discriminate.
      * destruct (Z.eq_dec s0 z) as [->|Hne].
        -- rewrite shadow_in_range. split; [intro H1; exfalso; apply H1; reflexivity|]. intro H1. exfalso. exact (Hno _ H1).
        -- rewrite (shadow_range_other z s0 k0 Hne). rewrite F2 by exact E. apply M.
    + intros z0 x H1. unfold has in H1. rewrite G in H1.
      destruct (key_in_range _ _ (sk_child z0 x)); [exfalso; apply H1; reflexivity|].
      apply F1 in H1. exact (S z0 x H1).
  - intro s. unfold alive. rewrite G, shadow_range_not_session.
    assert (E : kv_get b1 (session_key s) = kv_get b (session_key s)).
    { (* a frame leaves session keys alone only through its components; redo it through cb_rel *)
      destruct (scan_callbacks_spec (kv_range b (Some (shadow_lo z)) (Some (shadow_hi z))) b W) as [b1' [E' [R _]]].
      - intros k v Hin. eapply scan_callbacks_ok_records; eassumption.
      - rewrite H in E'. inversion E'; subst b1'. destruct R as [_ [Rg _]]. apply Rg. apply session_key_not_cbkey. }
    rewrite E. reflexivity.
  - intros x Hr Hs Hx. rewrite G, Hr.
    destruct (scan_callbacks_c14 _ _ _ W H) as [A _]. apply A; [exact Hx|]. intros k e s _ _. apply Hs.
Qed.

(* ================================================================ sequence puts *)
(* a put with sequence deltas: the key is generated (C16); since the repair of O-15 the generated key is absent from
   the batch (C16_Gen.generate_key_fresh), so the put is a creation and the callback sees the right "existing" (nil) *)
Definition c14_seq_put (p : put_req) : Prop :=
  p_deltas p <> [] /\ is_internal (p_key p) = false /\ (p_session p <> None -> is_bytes (p_key p)).

Lemma digits_fuel_bytes fuel : forall n acc, is_bytes acc -> is_bytes (digits_fuel fuel 10 dec_digit n acc).
Proof.
  induction fuel as [|f IH]; simpl; intros n acc Ha; [exact Ha|].
  destruct (n =? 0)%N; [exact Ha|]. apply IH. constructor; [|exact Ha].
  unfold dec_digit. pose proof (N.mod_lt n 10 ltac:(lia)). lia.
Qed.

Lemma pad20_bytes v : is_bytes (pad20 v).
Proof.
  unfold pad20. apply pad_left_forall; [lia|]. unfold dec_of_N, digits_of. destruct (v =? 0)%N.
  - constructor; [unfold dec_digit; lia|constructor].
  - apply digits_fuel_bytes. constructor.
Qed.

Lemma seq_key_bytes P vs : is_bytes P -> is_bytes (C16_Gen.seq_key P vs).
Proof.
  intro H. unfold C16_Gen.seq_key, C16_Gen.seq_suffix. apply Forall_app. split; [exact H|].
  induction vs as [|v tl IH]; simpl; [constructor|].
  constructor; [unfold DASH; lia|]. apply Forall_app. split; [apply pad20_bytes|exact IH].
Qed.

Lemma add_event_kv w a b : w_kv (add_event w a b) = w_kv w.
Proof. reflexivity. Qed.

Lemma apply_put_seq_c14 w p ts :
  c14_inv (w_kv w) -> c14_seq_put p -> c14_inv (w_kv (fst (apply_put wrapper_callbacks w p ts))).
Proof.
  intros I [D [Hi Hb]]. unfold apply_put. destruct (p_deltas p) as [|d0 dtl] eqn:Dl; [contradiction|].
  destruct (generate_key (w_kv w) p) as [nk| |e] eqn:G; cbn [fst]; try exact I.
  assert (Dne : p_deltas p <> []) by (rewrite Dl; discriminate).
  pose proof (C16_Gen.generate_key_fresh _ _ _ (proj1 (proj1 I)) Dne G) as Fresh.
  pose proof (generate_key_not_internal _ _ _ Hi G) as Hnk.
  destruct (C16_Gen.generate_key_shape _ _ _ Dne G) as [news [Hg [Enk _]]].
  assert (U : uv (w_kv w) nk = None) by (unfold uv; rewrite Hnk, Fresh; reflexivity).
  destruct (finish_put_user w (set_key p nk) ts (Some nk) I) as [w' [r [E [I' _]]]].
  - exact Hnk.
  - cbn [p_session set_key p_key]. intro Hs. split.
    + rewrite Enk. apply seq_key_bytes. apply Hb. exact Hs.
    + rewrite Enk. apply C16_Gen.seq_key_nonnil. apply Hg.
  - cbn [p_key set_key] in E. rewrite U in E. rewrite E.
    destruct (pr_key r); cbn [fst]; [rewrite add_event_kv|]; exact I'.
Qed.

(* ================================================================ whole requests *)
Definition c14_put (p : put_req) : Prop := c14_user_put p \/ c14_session_put p \/ c14_seq_put p.
Definition c14_del (d : del_req) : Prop := is_internal (d_key d) = false \/ exists z, d_key d = session_key z.
(* the requests C14 quantifies over: clients' puts / deletes / delete-ranges on user keys (any mix of plain,
   conditional, session, indexed and sequence puts; session puts on non-empty byte keys), and the session
   manager's own puts and deletes of session keys. *)
Definition c14_request (req : write_req) : Prop :=
  Forall c14_put (w_puts req) /\ Forall c14_del (w_dels req) /\ Forall range_user (w_ranges req).

Lemma apply_put_c14 w p ts : c14_inv (w_kv w) -> c14_put p -> c14_inv (w_kv (fst (apply_put wrapper_callbacks w p ts))).
Proof.
  intros I [Hp|[Hp|Hp]].
  - destruct (apply_put_user w p ts I Hp) as [w' [r [E [I' _]]]]. rewrite E. exact I'.
  - eapply c14_inv_frame; [exact I|]. apply apply_put_session_key; [apply I|exact Hp].
  - apply apply_put_seq_c14; assumption.
Qed.

Lemma apply_puts_c14 ps : forall w ts, c14_inv (w_kv w) -> Forall c14_put ps ->
  c14_inv (w_kv (fst (apply_puts wrapper_callbacks w ps ts))).
Proof.
  induction ps as [|p tl IH]; simpl; intros w ts I Hp; [exact I|]. inversion Hp; subst.
  pose proof (apply_put_c14 w p ts I H1) as I1.
  destruct (apply_put wrapper_callbacks w p ts) as [w1 [r|e]]; simpl in *; [|exact I1].
  specialize (IH w1 ts I1 H2). destruct (apply_puts wrapper_callbacks w1 tl ts) as [w2 [rs|e]]; exact IH.
Qed.

Lemma apply_delete_c14 w d : c14_inv (w_kv w) -> c14_del d -> c14_inv (w_kv (fst (apply_delete wrapper_callbacks w d))).
Proof.
  intros I [Hd|[z Hd]].
  - destruct (apply_delete_user w d I Hd) as [w' [E [I' _]]]. rewrite E. exact I'.
  - eapply c14_inv_frame; [exact I|]. apply apply_delete_neutral; [apply I|]. rewrite Hd. apply neutral_session.
Qed.

Lemma apply_deletes_c14 ds : forall w, c14_inv (w_kv w) -> Forall c14_del ds ->
  c14_inv (w_kv (fst (apply_deletes wrapper_callbacks w ds))).
Proof.
  induction ds as [|d tl IH]; simpl; intros w I Hd; [exact I|]. inversion Hd; subst.
  pose proof (apply_delete_c14 w d I H1) as I1.
  destruct (apply_delete wrapper_callbacks w d) as [w1 [r|e]]; simpl in *; [|exact I1].
  specialize (IH w1 I1 H2). destruct (apply_deletes wrapper_callbacks w1 tl) as [w2 [rs|e]]; exact IH.
Qed.

Lemma apply_ranges_c14 thr rs : forall w, c14_inv (w_kv w) -> Forall range_user rs ->
  c14_inv (w_kv (fst (apply_ranges wrapper_callbacks thr w rs))).
Proof.
  induction rs as [|r tl IH]; simpl; intros w I Hr; [exact I|]. inversion Hr; subst.
  destruct (apply_delete_range_user thr w r I H1) as [w1 [E [I1 _]]]. rewrite E.
  specialize (IH w1 I1 H2). destruct (apply_ranges wrapper_callbacks thr w1 tl) as [w2 [xs|e]]; exact IH.
Qed.

Lemma internal_put_frame b k v ts : wf_kv b -> neutral k -> frame b (internal_put b k v ts).
Proof. intros W N. unfold internal_put. apply frame_put_neutral; assumption. Qed.

Lemma commit_write_frame cfg st w offset ts : wf_kv (w_kv w) -> frame (w_kv w) (st_kv (commit_write cfg st w offset ts)).
Proof.
  intro W. unfold commit_write.
  pose proof (internal_put_frame (w_kv w) commit_offset_key (ascii_of_Z offset) ts W neutral_commit_offset) as F1.
  pose proof (internal_put_frame _ last_version_key (ascii_of_Z (w_ver w)) ts (proj1 F1) neutral_last_version) as F2.
  destruct (w_nm w) as [nm|]; cbn [st_kv].
  - eapply frame_trans; [exact F1|]. eapply frame_trans; [exact F2|].
    apply frame_put_neutral; [apply F2|apply neutral_notification].
  - eapply frame_trans; eassumption.
Qed.

Theorem process_write_c14 cfg st req offset ts :
  c14_inv (st_kv st) -> c14_request req ->
  c14_inv (st_kv (fst (process_write wrapper_callbacks cfg st req offset ts))).
Proof.
  intros I [Hp [Hd Hr]]. rewrite process_write_unfold. unfold apply_write_request.
  pose proof (apply_puts_c14 (w_puts req) (start_write st) ts I Hp) as I1.
  destruct (apply_puts wrapper_callbacks (start_write st) (w_puts req) ts) as [w1 [prs|e]]; cbn [fst] in *; [|exact I].
  pose proof (apply_deletes_c14 (w_dels req) w1 I1 Hd) as I2.
  destruct (apply_deletes wrapper_callbacks w1 (w_dels req)) as [w2 [drs|e]]; cbn [fst] in *; [|exact I].
  pose proof (apply_ranges_c14 (cfg_threshold cfg) (w_ranges req) w2 I2 Hr) as I3.
  destruct (apply_ranges wrapper_callbacks (cfg_threshold cfg) w2 (w_ranges req)) as [w3 [rrs|e]]; cbn [fst] in *; [|exact I].
  eapply c14_inv_frame; [exact I3|]. apply commit_write_frame. apply I3.
Qed.

(* ================================================================ Part 2: session.delete() *)
Lemma kv_bound_app a c l : kv_bound (a ++ c :: l) = Some (a ++ c :: l).
Proof. destruct a; reflexivity. Qed.

Lemma skipn_app_cons (A : Type) (a : list A) c x : skipn (S (length a)) (a ++ c :: x) = x.
Proof. induction a as [|y a IH]; [reflexivity|]. exact IH. Qed.

Lemma in_db_list st lo hi y :
  sorted (st_kv st) -> (In y (map fst (kv_range (st_kv st) lo hi)) <-> has (st_kv st) y /\ key_in_range lo hi y = true).
Proof.
  intro Hs. rewrite in_map_iff. split.
  - intros [[k v] [E Hin]]. simpl in E. subst k. apply in_kv_range in Hin; [|exact Hs]. destruct Hin as [G R].
    split; [unfold has; rewrite G; discriminate|exact R].
  - intros [Hh R]. unfold has in Hh. destruct (kv_get (st_kv st) y) as [v|] eqn:G; [|contradiction].
    exists (y, v). split; [reflexivity|]. apply in_kv_range; [exact Hs|]. split; assumption.
Qed.

(* step 1 of session.delete() lists exactly the keys the session owns at that moment *)
Theorem cleanup_list_spec st z k :
  c14_inv (st_kv st) -> (In k (cleanup_list st z) <-> owner (st_kv st) k = Some z).
Proof.
  intros [W [M S]]. unfold cleanup_list, cleanup_keys_of, db_list, shadow_lo, shadow_hi.
  rewrite !kv_bound_app. rewrite in_flat_map. split.
  - intros [y [Hy Hk]]. apply in_db_list in Hy; [|apply W]. destruct Hy as [Hh Hr].
    apply (shadow_range_iff z y) in Hr. destruct Hr as [x [-> Hx]].
    unfold sk_child in Hk. rewrite skipn_app_cons in Hk.
    destruct (S z x Hh) as [k' [-> [Hb Hne]]]. rewrite (path_unescape_escape _ Hb) in Hk.
    destruct k' as [|c k']; [contradiction|]. destruct Hk as [<-|[]].
    apply M. rewrite shadow_key_child. exact Hh.
  - intro Ho. assert (Hh : has (st_kv st) (shadow_key z k)) by (apply M; exact Ho).
    exists (shadow_key z k). split.
    + apply in_db_list; [apply W|]. split; [exact Hh|]. apply shadow_in_range.
    + rewrite shadow_key_child in Hh |- *. destruct (S z _ Hh) as [k' [E [Hb Hne]]].
      apply path_escape_inj in E. subst k'. unfold sk_child. rewrite skipn_app_cons, (path_unescape_escape _ Hb).
      destruct k as [|c k]; [contradiction|]. left. reflexivity.
Qed.

Lemma apply_deletes_app cb l1 : forall w l2,
  apply_deletes cb w (l1 ++ l2) =
  match apply_deletes cb w l1 with
  | (w1, Err e) => (w1, Err e)
  | (w1, Ok r1) =>
      match apply_deletes cb w1 l2 with
      | (w2, Err e) => (w2, Err e)
      | (w2, Ok r2) => (w2, Ok (r1 ++ r2))
      end
  end.
Proof.
  induction l1 as [|d tl IH]; intros w l2; simpl.
  - destruct (apply_deletes cb w l2) as [w2 [r2|e]]; reflexivity.
  - destruct (apply_delete cb w d) as [w1 [r|e]]; [|reflexivity]. rewrite IH.
    destruct (apply_deletes cb w1 tl) as [w2 [r1|e]]; [|reflexivity].
    destruct (apply_deletes cb w2 l2) as [w3 [r2|e]]; reflexivity.
Qed.

(* the unconditional deletes of the listed keys *)
Lemma apply_deletes_keys keys : forall w,
  c14_inv (w_kv w) -> (forall k, In k keys -> is_internal k = false) ->
  exists w' rs, apply_deletes wrapper_callbacks w (map (fun k => mkDel k None) keys) = (w', Ok rs) /\
    c14_inv (w_kv w') /\
    (forall s, alive (w_kv w') s = alive (w_kv w) s) /\
    (forall k, uv (w_kv w') k = if in_dec key_eq_dec k keys then None else uv (w_kv w) k).
Proof.
  induction keys as [|k0 tl IH]; intros w I Hu.
  - exists w, []. split; [reflexivity|]. split; [exact I|]. split; reflexivity.
  - simpl map. cbn [apply_deletes].
    destruct (apply_delete_user w (mkDel k0 None) I (Hu k0 (or_introl eq_refl))) as [w1 [E [I1 [A1 [U1 N1]]]]].
    rewrite E. destruct (IH w1 I1 (fun k H => Hu k (or_intror H))) as [w2 [rs [E2 [I2 [A2 U2]]]]].
    rewrite E2. eexists. eexists. split; [reflexivity|]. split; [exact I2|]. split.
    + intro s. rewrite A2, A1. reflexivity.
    + intro k. rewrite U2. cbn [d_key d_expected] in *.
      destruct (in_dec key_eq_dec k tl) as [Hin|Hnin].
      * destruct (in_dec key_eq_dec k (k0 :: tl)) as [_|C]; [reflexivity|]. exfalso. apply C. right. exact Hin.
      * unfold delete_status_of in U1, N1. cbn [d_key d_expected] in *.
        destruct (uv (w_kv w) k0) as [e|] eqn:U0.
        -- cbn [spec_check] in U1. rewrite (U1 eq_refl). unfold upd.
           destruct (in_dec key_eq_dec k (k0 :: tl)) as [[->|Hin]|C].
           ++ rewrite bytes_eqb_refl. reflexivity.
           ++ contradiction.
           ++ rewrite bytes_eqb_neq; [reflexivity|]. intro; subst. apply C. left. reflexivity.
        -- cbn [spec_check] in N1. rewrite N1 by discriminate.
           destruct (in_dec key_eq_dec k (k0 :: tl)) as [[->|Hin]|C]; [exact U0|contradiction|reflexivity].
Qed.

Lemma wrapper_on_delete_get_other b k b1 x :
  wf_kv b -> wrapper_on_delete b k = Ok b1 ->
  (forall s k', x <> shadow_key s k') -> (forall pk si, x <> index_key pk si) -> kv_get b1 x = kv_get b x.
Proof.
  intros W H Hs Hx. unfold wrapper_on_delete, session_on_delete in H.
  assert (Hi : forall bb b', wf_kv bb -> index_on_delete bb k = Ok b' -> kv_get b' x = kv_get bb x).
  { intros bb b' Wb Hb. unfold index_on_delete in Hb. destruct (get_entry bb k) as [[e|]|y]; inversion Hb; subst; [|reflexivity].
    apply delete_indexes_get_other; assumption. }
  destruct (get_entry b k) as [[e|]|y]; try discriminate.
  - rewrite (Hi _ _ (delete_shadow_wf b k (Some e) W) H). apply delete_shadow_other; [exact W|]. intros e0 s _ _. apply Hs.
  - apply (Hi _ _ W H).
Qed.

Lemma apply_delete_session_key w z w' r :
  wf_kv (w_kv w) ->
  apply_delete wrapper_callbacks w (mkDel (session_key z) None) = (w', Ok r) ->
  frame (w_kv w) (w_kv w') /\
  (forall s, alive (w_kv w') s = if Z.eq_dec s z then false else alive (w_kv w) s).
Proof.
  intros W H. split.
  - pose proof (apply_delete_neutral w (mkDel (session_key z) None) W (neutral_session z)) as F. rewrite H in F. exact F.
  - unfold apply_delete, check_expected in H. cbn [d_key d_expected] in H.
    destruct (get_entry (w_kv w) (session_key z)) as [[e|]|y] eqn:G; try discriminate.
    + cbn [cb_on_delete wrapper_callbacks] in H.
      destruct (wrapper_on_delete (w_kv w) (session_key z)) as [b1|y] eqn:E; [|discriminate].
      inversion H; subst w' r; clear H. cbn [w_kv]. intro s.
      pose proof (wrapper_on_delete_internal_frame _ _ _ W (session_key_internal z) E) as F.
      unfold alive. destruct (Z.eq_dec s z) as [->|Hne].
      * rewrite kv_get_del_same by apply F. reflexivity.
      * rewrite kv_get_del_other; [|apply F|intro C; apply session_key_inj in C; contradiction].
        rewrite (wrapper_on_delete_get_other _ _ _ _ W E); [reflexivity| |].
        -- intros s0 k' C. rewrite shadow_key_child in C. symmetry in C. exact (sk_child_not_session _ _ _ C).
        -- intros pk si. apply session_key_not_index.
    + inversion H; subst w' r. intro s. destruct (Z.eq_dec s z) as [->|Hne]; [|reflexivity].
      unfold alive. unfold get_entry in G. destruct (kv_get (w_kv w) (session_key z)) as [v|]; [|reflexivity].
      destruct (deserialize v); discriminate.
Qed.

(* step 2 of session.delete(): what the write does to a state in which [keys] covers everything z owns *)
Theorem cleanup_write_effect thr w z keys ts w' resp :
  c14_inv (w_kv w) -> (forall k, In k keys -> is_internal k = false) ->
  (forall k, owner (w_kv w) k = Some z -> In k keys) ->
  apply_write_request wrapper_callbacks thr w (cleanup_request z keys) ts = (w', Ok resp) ->
  c14_inv (w_kv w') /\
  (forall k, uv (w_kv w') k = if in_dec key_eq_dec k keys then None else uv (w_kv w) k) /\
  (forall s, alive (w_kv w') s = if Z.eq_dec s z then false else alive (w_kv w) s).
Proof.
  intros I Hu Hcov H. unfold apply_write_request, cleanup_request in H. cbn [w_puts w_dels w_ranges apply_puts] in H.
  rewrite apply_deletes_app in H.
  destruct (apply_deletes_keys keys w I Hu) as [w1 [rs [E1 [I1 [A1 U1]]]]]. rewrite E1 in H.
  cbn [apply_deletes] in H.
  destruct (apply_delete wrapper_callbacks w1 (mkDel (session_key z) None)) as [w2 [r|e]] eqn:E2; [|discriminate].
  destruct (apply_delete_session_key w1 z w2 r (proj1 I1) E2) as [F2 A2].
  pose proof (c14_inv_frame _ _ I1 F2) as I2.
  cbn [apply_ranges] in H. rewrite apply_delete_range_unfold in H. cbn [r_start r_end] in H.
  destruct (scan_callbacks wrapper_callbacks (w_kv w2) (kv_range (w_kv w2) (Some (shadow_lo z)) (Some (shadow_hi z)))) as [b1|e] eqn:E3; [|discriminate].
  inversion H; subst w' resp; clear H. cbn [w_kv].
  assert (Hno : forall k, owner (w_kv w2) k <> Some z).
  { intros k C. rewrite (frame_owner _ _ k F2) in C. unfold owner in C. rewrite U1 in C.
    destruct (in_dec key_eq_dec k keys) as [Hin|Hnin]; [discriminate|]. apply Hnin, Hcov. exact C. }
  destruct (range_shadow_inv thr (w_kv w2) b1 z I2 Hno E3) as [I3 [U3 [A3 _]]].
  split; [exact I3|]. split.
  - intro k. rewrite U3, (frame_uv _ _ k F2). apply U1.
  - intro s. rewrite A3, A2, A1. reflexivity.
Qed.

Lemma process_write_abs cb cfg st req offset ts st' resp :
  process_write cb cfg st req offset ts = (st', Ok resp) ->
  exists w', apply_write_request cb (cfg_threshold cfg) (start_write st) req ts = (w', Ok resp) /\
             st' = commit_write cfg st w' offset ts.
Proof.
  rewrite process_write_unfold. destruct (apply_write_request cb (cfg_threshold cfg) (start_write st) req ts) as [w' [r|e]]; intro H; inversion H; subst.
  exists w'. split; reflexivity.
Qed.

Theorem cleanup_process_write cfg st z keys offset ts st' resp :
  c14_inv (st_kv st) -> (forall k, In k keys -> is_internal k = false) ->
  (forall k, owner (st_kv st) k = Some z -> In k keys) ->
  process_write wrapper_callbacks cfg st (cleanup_request z keys) offset ts = (st', Ok resp) ->
  c14_inv (st_kv st') /\
  (forall k, uv (st_kv st') k = if in_dec key_eq_dec k keys then None else uv (st_kv st) k) /\
  (forall s, alive (st_kv st') s = if Z.eq_dec s z then false else alive (st_kv st) s).
Proof.
  intros I Hu Hcov H. apply process_write_abs in H. destruct H as [w' [E ->]].
  destruct (cleanup_write_effect _ (start_write st) z keys ts w' resp I Hu Hcov E) as [I' [U' A']].
  pose proof (commit_write_frame cfg st w' offset ts (proj1 I')) as F.
  destruct (commit_write_abs cfg st w' offset ts) as [Q1 [Q2 _]]. simpl in Q1, Q2.
  split; [eapply c14_inv_frame; eassumption|]. split.
  - intro k. rewrite Q1. apply U'.
  - intro s. rewrite Q2. apply A'.
Qed.

(* ================================================================ reachable states: the mirror theorem *)
Inductive c14_op :=
| XWrite (req : write_req) (offset : Z) (ts : N)       (* any request of the C14 universe *)
| XClose (z : Z) (offset : Z) (ts : N)                 (* a session ends: list + write with nothing in between *)
| XUpdateTerm (term : Z) (enabled : bool) (ts : N)     (* leader change *)
| XEnableNotifications (enabled : bool)
| XReopen.

Definition c14_step (cfg : config) (st : state) (op : c14_op) : state :=
  match op with
  | XWrite req offset ts => fst (process_write wrapper_callbacks cfg st req offset ts)
  | XClose z offset ts => fst (process_write wrapper_callbacks cfg st (cleanup_request z (cleanup_list st z)) offset ts)
  | XUpdateTerm term en ts => update_term st term en ts
  | XEnableNotifications en => enable_notifications st en
  | XReopen => match reopen (persist st) with Ok st' => st' | Err _ => st end
  end.

Definition c14_ok (op : c14_op) : Prop := match op with XWrite req _ _ => c14_request req | _ => True end.
Definition c14_run (cfg : config) (ops : list c14_op) : state := fold_left (c14_step cfg) ops init_state.

Lemma c14_step_inv cfg st op : c14_inv (st_kv st) -> c14_ok op -> c14_inv (st_kv (c14_step cfg st op)).
Proof.
  intros I Hok. destruct op; cbn [c14_step c14_ok] in *.
  - apply process_write_c14; assumption.
  - destruct (process_write wrapper_callbacks cfg st (cleanup_request z (cleanup_list st z)) offset ts) as [st' [resp|e]] eqn:E; cbn [fst].
    + eapply (cleanup_process_write cfg st z (cleanup_list st z)); [exact I| | |exact E].
      * intros k Hin. apply cleanup_list_spec in Hin; [|exact I]. eapply owner_some_user; eassumption.
      * intros k Ho. apply cleanup_list_spec; assumption.
    + rewrite process_write_unfold in E.
      destruct (apply_write_request wrapper_callbacks (cfg_threshold cfg) (start_write st) _ ts) as [w' [r|e']]; inversion E; subst. exact I.
  - eapply c14_inv_frame; [exact I|]. unfold update_term. cbn [st_kv].
    pose proof (internal_put_frame (st_kv st) term_key (ascii_of_Z term) ts (proj1 I) neutral_term) as F1.
    eapply frame_trans; [exact F1|]. apply internal_put_frame; [apply F1|apply neutral_term_options].
  - exact I.
  - unfold reopen, persist. destruct (read_ascii_long (st_kv st) commit_offset_key); [|exact I].
    destruct (read_last_version (st_kv st)); exact I.
Qed.

Theorem c14_inv_reachable cfg ops : Forall c14_ok ops -> c14_inv (st_kv (c14_run cfg ops)).
Proof.
  unfold c14_run. assert (H : c14_inv (st_kv init_state)) by apply c14_inv_nil.
  revert H. generalize init_state. induction ops as [|op tl IH]; simpl; intros st H Hok; [exact H|].
  inversion Hok; subst. apply IH; [|assumption]. apply c14_step_inv; assumption.
Qed.

Theorem shadow_mirror cfg ops s k :
  Forall c14_ok ops ->
  let m := st_kv (c14_run cfg ops) in
  kv_get m (shadow_key s k) <> None <-> exists r, uv m k = Some r /\ e_session r = Some s.
Proof.
  intros Hok m. destruct (c14_inv_reachable cfg ops Hok) as [_ [M _]]. fold m in M.
  specialize (M s k). unfold has, owner in M. rewrite M. destruct (uv m k) as [e|].
  - split; [intro H; exists e; split; [reflexivity|exact H]|]. intros [r [E H]]. inversion E; subst. exact H.
  - split; [discriminate|]. intros [r [E _]]. discriminate.
Qed.

(* ================================================================ one put: rejection of dead sessions, takeover *)
Lemma set_kv_same w : set_kv w (w_kv w) = w.
Proof. destruct w; reflexivity. Qed.

(* holds in EVERY well-formed state (wf_kv: all reachable states, hostile requests included) *)
Theorem apply_put_dead_session w p z ts :
  wf_kv (w_kv w) -> is_internal (p_key p) = false -> p_deltas p = [] ->
  p_session p = Some z -> alive (w_kv w) z = false ->
  apply_put wrapper_callbacks w p ts =
    (w, Ok (put_status (if spec_check (uv (w_kv w) (p_key p)) (p_expected p)
                        then SESSION_DOES_NOT_EXIST else UNEXPECTED_VERSION_ID))).
Proof.
  intros W Hi D Ps A. unfold apply_put. rewrite D, (check_expected_user _ _ (p_expected p) W Hi).
  destruct (spec_check (uv (w_kv w) (p_key p)) (p_expected p)); [|reflexivity].
  unfold finish_put. cbn [cb_on_put wrapper_callbacks]. unfold wrapper_on_put, session_on_put. rewrite Ps.
  unfold alive in A. destruct (kv_get (w_kv w) (session_key z)); [discriminate|]. rewrite set_kv_same. reflexivity.
Qed.

Lemma commit_only_frame cfg st offset ts :
  wf_kv (st_kv st) ->
  let st' := commit_write cfg st (start_write st) offset ts in
  (forall k, uv (st_kv st') k = uv (st_kv st) k) /\ (forall s, alive (st_kv st') s = alive (st_kv st) s) /\
  (forall s k, kv_get (st_kv st') (shadow_key s k) = kv_get (st_kv st) (shadow_key s k)).
Proof.
  intros W st'. destruct (commit_write_abs cfg st (start_write st) offset ts) as [Q1 [Q2 _]]. simpl in Q1, Q2.
  split; [exact Q1|]. split; [exact Q2|]. intros s k. unfold st', commit_write, internal_put. cbn [w_kv start_write w_nm w_ver].
  assert (N1 : forall x v m, neutral x -> kv_get (kv_put m x v) (shadow_key s k) = kv_get m (shadow_key s k)).
  { intros x v m [_ Hn]. apply kv_get_put_other. rewrite shadow_key_child. intro C. symmetry in C. exact (Hn _ _ C). }
  destruct (st_notif st); cbn [st_kv]; rewrite ?N1; auto using neutral_commit_offset, neutral_last_version, neutral_notification.
Qed.

Theorem dead_session_rejected cfg st p z offset ts :
  wf_kv (st_kv st) -> is_internal (p_key p) = false -> p_deltas p = [] ->
  p_session p = Some z -> alive (st_kv st) z = false ->
  exists st' r,
    process_write wrapper_callbacks cfg st (mkWrite [p] [] []) offset ts = (st', Ok (mkWriteResp [r] [] [])) /\
    (pr_status r = SESSION_DOES_NOT_EXIST \/ pr_status r = UNEXPECTED_VERSION_ID) /\
    (spec_check (uv (st_kv st) (p_key p)) (p_expected p) = true -> pr_status r = SESSION_DOES_NOT_EXIST) /\
    pr_version r = None /\
    (forall k, uv (st_kv st') k = uv (st_kv st) k) /\
    (forall s, alive (st_kv st') s = alive (st_kv st) s) /\
    (forall s k, kv_get (st_kv st') (shadow_key s k) = kv_get (st_kv st) (shadow_key s k)).
Proof.
  intros W Hi D Ps A. rewrite process_write_unfold. unfold apply_write_request. cbn [w_puts w_dels w_ranges apply_puts].
  rewrite (apply_put_dead_session (start_write st) p z ts W Hi D Ps A). cbn [apply_deletes apply_ranges].
  eexists. eexists. split; [reflexivity|]. cbn [start_write w_kv].
  destruct (spec_check (uv (st_kv st) (p_key p)) (p_expected p)); cbn [put_status pr_status pr_version];
    (split; [auto|]); (split; [auto; discriminate|]); (split; [reflexivity|]); apply (commit_only_frame cfg st offset ts W).
Qed.

(* one put of the C14 universe through ProcessWrite *)
Theorem put_request_effect cfg st p offset ts :
  c14_inv (st_kv st) -> c14_user_put p ->
  exists st' r,
    process_write wrapper_callbacks cfg st (mkWrite [p] [] []) offset ts = (st', Ok (mkWriteResp [r] [] [])) /\
    c14_inv (st_kv st') /\
    pr_status r = put_status_of (st_kv st) p /\
    (forall z, alive (st_kv st') z = alive (st_kv st) z) /\
    (pr_status r = OK ->
       exists e', e_session e' = p_session p /\
                  forall k0, uv (st_kv st') k0 = upd (uv (st_kv st)) (p_key p) (Some e') k0) /\
    (pr_status r <> OK -> forall k0, uv (st_kv st') k0 = uv (st_kv st) k0).
Proof.
  intros I Hp. rewrite process_write_unfold. unfold apply_write_request. cbn [w_puts w_dels w_ranges apply_puts].
  destruct (apply_put_user (start_write st) p ts I Hp) as [w' [r [E [I' [A [St [Uok Une]]]]]]]. rewrite E.
  cbn [apply_deletes apply_ranges]. eexists. eexists. split; [reflexivity|].
  pose proof (commit_write_frame cfg st w' offset ts (proj1 I')) as F.
  destruct (commit_write_abs cfg st w' offset ts) as [Q1 [Q2 _]]. simpl in Q1, Q2.
  split; [eapply c14_inv_frame; eassumption|]. split; [exact St|]. split; [|split].
  - intro z. rewrite Q2. apply A.
  - intro Hok. destruct (Uok Hok) as [e' [Ee Ue]]. exists e'. split; [exact Ee|]. intro k0. rewrite Q1. apply Ue.
  - intros Hne k0. rewrite Q1, (Une Hne). reflexivity.
Qed.

(* ownership follows the last writer: after a successful put by session s2 / by a plain put on a key owned by s1,
   the only shadow entry of the key is the new owner's, and no other key changes owner *)
Theorem takeover cfg st p offset ts :
  c14_inv (st_kv st) -> c14_user_put p -> put_status_of (st_kv st) p = OK ->
  exists st' r,
    process_write wrapper_callbacks cfg st (mkWrite [p] [] []) offset ts = (st', Ok (mkWriteResp [r] [] [])) /\
    pr_status r = OK /\
    owner (st_kv st') (p_key p) = p_session p /\
    (forall s, kv_get (st_kv st') (shadow_key s (p_key p)) <> None <-> p_session p = Some s) /\
    (forall k, k <> p_key p ->
       owner (st_kv st') k = owner (st_kv st) k /\
       forall s, kv_get (st_kv st') (shadow_key s k) <> None <-> kv_get (st_kv st) (shadow_key s k) <> None).
Proof.
  intros I Hp Hs. destruct (put_request_effect cfg st p offset ts I Hp) as [st' [r [E [I' [St [_ [Uok _]]]]]]].
  exists st', r. split; [exact E|]. rewrite Hs in St. split; [exact St|].
  destruct (Uok St) as [e' [Ee Ue]].
  assert (O1 : owner (st_kv st') (p_key p) = p_session p).
  { unfold owner. rewrite Ue. unfold upd. rewrite bytes_eqb_refl. exact Ee. }
  assert (O2 : forall k, k <> p_key p -> owner (st_kv st') k = owner (st_kv st) k).
  { intros k Hne. unfold owner. rewrite Ue. unfold upd. rewrite bytes_eqb_neq by exact Hne. reflexivity. }
  destruct I as [_ [M _]]. destruct I' as [_ [M' _]].
  split; [exact O1|]. split.
  - intro s. rewrite <- O1. apply M'.
  - intros k Hne. split; [apply O2; exact Hne|]. intro s.
    pose proof (M' s k) as A1. pose proof (M s k) as A2. unfold has in A1, A2. rewrite A1, A2, (O2 k Hne). reflexivity.
Qed.

(* ================================================================ exact cleanup, when nothing interferes *)
Definition owned_by (m : kvmap) (z : Z) (k : key) : bool :=
  match owner m k with Some s => (s =? z)%Z | None => false end.

Lemma owned_by_true m z k : owned_by m z k = true <-> owner m k = Some z.
Proof.
  unfold owned_by. destruct (owner m k) as [s|]; [|split; discriminate].
  rewrite Z.eqb_eq. split; [intros ->; reflexivity|intro H; inversion H; reflexivity].
Qed.

(* the property's claim about one session end: [m] the DB when the cleanup write is applied, [m'] after it *)
Definition cleanup_exact (m m' : kvmap) (z : Z) : Prop :=
  (forall k, uv m' k = if owned_by m z k then None else uv m k) /\        (* exactly the owned records go, nothing else changes *)
  (forall s, alive m' s = if Z.eq_dec s z then false else alive m s) /\   (* together with the session itself *)
  (forall k, owner m' k <> Some z) /\                                     (* nothing is left behind in the dead session's name *)
  (forall s k, s <> z -> (kv_get m' (shadow_key s k) <> None <-> kv_get m (shadow_key s k) <> None)).  (* other sessions' index untouched *)

(* [st0] = the DB when session.delete() listed the shadow keys, [st] = the DB when its write is applied.
   MISSING for the full statement: the hypothesis [Hsame] (no write changed which keys z owns between the two steps)
   does not follow from anything in the code: see cleanup_exact_refuted_* below (O-12). *)
Theorem cleanup_exact_partial cfg st0 st z offset ts st' resp :
  c14_inv (st_kv st0) -> c14_inv (st_kv st) ->
  (forall k, owner (st_kv st) k = Some z <-> owner (st_kv st0) k = Some z) ->
  process_write wrapper_callbacks cfg st (cleanup_request z (cleanup_list st0 z)) offset ts = (st', Ok resp) ->
  cleanup_exact (st_kv st) (st_kv st') z /\ c14_inv (st_kv st').
Proof.
  intros I0 I Hsame H.
  assert (Hl : forall k, In k (cleanup_list st0 z) <-> owner (st_kv st) k = Some z).
  { intro k. rewrite Hsame. apply cleanup_list_spec. exact I0. }
  destruct (cleanup_process_write cfg st z (cleanup_list st0 z) offset ts st' resp I) as [I' [U' A']]; [| |exact H|].
  - intros k Hin. apply Hl in Hin. eapply owner_some_user; eassumption.
  - intros k Ho. apply Hl. exact Ho.
  - assert (Uv : forall k, uv (st_kv st') k = if owned_by (st_kv st) z k then None else uv (st_kv st) k).
    { intro k. rewrite U'. destruct (in_dec key_eq_dec k (cleanup_list st0 z)) as [Hin|Hnin].
      - apply Hl in Hin. apply owned_by_true in Hin. rewrite Hin. reflexivity.
      - destruct (owned_by (st_kv st) z k) eqn:O; [|reflexivity]. exfalso. apply Hnin, Hl. apply owned_by_true. exact O. }
    assert (On : forall k, owner (st_kv st') k <> Some z).
    { intros k C. unfold owner in C. rewrite Uv in C. destruct (owned_by (st_kv st) z k) eqn:O; [discriminate|].
      fold (owner (st_kv st) k) in C. apply owned_by_true in C. congruence. }
    split; [|exact I']. split; [exact Uv|]. split; [exact A'|]. split; [exact On|].
    intros s k Hne. destruct I as [_ [M _]]. destruct I' as [_ [M' _]].
    pose proof (M' s k) as A1. pose proof (M s k) as A2. unfold has in A1, A2. rewrite A1, A2.
    unfold owner at 1. rewrite Uv. destruct (owned_by (st_kv st) z k) eqn:O.
    + apply owned_by_true in O. rewrite O. split; [discriminate|]. intro C. inversion C. congruence.
    + reflexivity.
Qed.

(* ================================================================ Part 3: the session manager's timers *)
Section Timers.
  Variable meta_enc : N -> bytes -> bytes.
  Variable meta_dec : bytes -> option N.
  Variable cfg : config.
  Variable min_timeout max_timeout : N.

  Notation stepM := (step meta_enc meta_dec cfg min_timeout max_timeout).
  Notation finalM := (final meta_enc meta_dec cfg min_timeout max_timeout).

  (* arming events of one step, read off its outcome: a successful creation, an accepted heartbeat of a session
     whose timer runs, the (re)start of every session found by Initialize after a leader change *)
  Definition arms (w : world) (a : action) (id : Z) : option N :=
    match a, snd (stepM w a) with
    | ACreate _ _ _ _ now, OCreated i => if (i =? id)%Z then Some now else None
    | AHeartbeat i now, ODone =>
        if (i =? id)%Z && (match find_sess (sw_sessions w) id with Some _ => true | None => false end) then Some now else None
    | ALeaderChange _ _ now, _ =>
        if existsb (fun x => (fst x =? id)%Z) (sw_sessions (fst (stepM w a))) then Some now else None
    | _, _ => None
    end.

  (* the time of the LAST arming event of [id] along a run *)
  Fixpoint last_arm (w : world) (tr : list action) (id : Z) (acc : option N) : option N :=
    match tr with
    | [] => acc
    | a :: tl => last_arm (fst (stepM w a)) tl id (match arms w a id with Some t => Some t | None => acc end)
    end.

  Lemma in_remove_sess l id i s : In (i, s) (remove_sess l id) -> i <> id /\ In (i, s) l.
  Proof.
    induction l as [|[j t] tl IH]; simpl; [tauto|]. destruct (j =? id)%Z eqn:E.
    - intro H. destruct (IH H) as [H1 H2]. split; [exact H1|right; exact H2].
    - intros [H|H].
      + inversion H; subst. apply Z.eqb_neq in E. split; [exact E|left; reflexivity].
      + destruct (IH H) as [H1 H2]. split; [exact H1|right; exact H2].
  Qed.

  Lemma in_put_sess l id s0 i s : In (i, s) (put_sess l id s0) -> (i = id /\ s = s0) \/ (i <> id /\ In (i, s) l).
  Proof.
    unfold put_sess. intros [H|H]; [inversion H; subst; left; split; reflexivity|]. right. apply in_remove_sess. exact H.
  Qed.

  Lemma find_sess_in l id s : find_sess l id = Some s -> In (id, s) l.
  Proof.
    induction l as [|[j t] tl IH]; simpl; [discriminate|]. destruct (j =? id)%Z eqn:E.
    - intro H. inversion H; subst. apply Z.eqb_eq in E. subst. left. reflexivity.
    - intro H. right. apply IH. exact H.
  Qed.

  Lemma in_find_sess l id s : In (id, s) l -> find_sess l id <> None.
  Proof.
    induction l as [|[j t] tl IH]; simpl; [tauto|]. destruct (j =? id)%Z eqn:E; [discriminate|].
    intros [H|H]; [inversion H; subst; rewrite Z.eqb_refl in E; discriminate|]. apply IH. exact H.
  Qed.

  Definition armed_ok (w : world) (id : Z) (acc : option N) : Prop :=
    forall ss, In (id, ss) (sw_sessions w) -> acc = Some (ss_armed ss).

  Lemma leader_init_armed st now l i s : leader_init meta_dec st now = Ok l -> In (i, s) l -> ss_armed s = now.
  Proof.
    unfold leader_init. destruct (read_sessions meta_dec st _ []) as [l0|e]; intro H; inversion H; subst.
    intro Hin. apply in_map_iff in Hin. destruct Hin as [[j t] [E _]]. inversion E; subst. reflexivity.
  Qed.

  Lemma step_armed_ok w a id acc :
    armed_ok w id acc ->
    armed_ok (fst (stepM w a)) id (match arms w a id with Some t => Some t | None => acc end).
  Proof.
    intro H. unfold arms. destruct a as [t ident off ts now|i now|now|i|i|i off ts|req off ts|term ts now]; cbn [step].
    - (* create *)
      destruct ((max_timeout <? t)%N || (t <? min_timeout)%N); cbn [fst snd]; [exact H|].
      destruct (process_write wrapper_callbacks cfg (sw_db w) (create_request off (meta_enc t ident)) off ts) as [db' [resp|e]];
        cbn [fst snd]; [|exact H].
      destruct (wr_puts resp) as [|r rs]; cbn [fst snd]; [exact H|].
      destruct (pr_status r); cbn [fst snd sw_sessions]; try exact H.
      intros ss Hin. apply in_put_sess in Hin. destruct Hin as [[-> ->]|[Hne Hin]].
      + rewrite Z.eqb_refl. reflexivity.
      + assert (E : (off =? id)%Z = false) by (apply Z.eqb_neq; congruence). rewrite E. apply H. exact Hin.
    - (* heartbeat *)
      destruct (find_sess (sw_sessions w) i) as [s|] eqn:F; cbn [fst snd sw_sessions].
      + intros ss Hin. apply in_put_sess in Hin. destruct Hin as [[-> ->]|[Hne Hin]].
        * rewrite Z.eqb_refl, F. reflexivity.
        * assert (E : (i =? id)%Z = false) by (apply Z.eqb_neq; congruence). rewrite E. apply H. exact Hin.
      + destruct (existsb _ (sw_closing w)); cbn [fst snd]; [|exact H].
        destruct (i =? id)%Z eqn:E; cbn [andb]; [|exact H]. apply Z.eqb_eq in E. subst i. rewrite F. exact H.
    - (* tick *)
      cbn [fst snd sw_sessions]. intros ss Hin. apply filter_In in Hin. apply H. apply Hin.
    - (* close *)
      destruct (find_sess (sw_sessions w) i); cbn [fst snd sw_sessions].
      + intros ss Hin. apply in_remove_sess in Hin. apply H. apply Hin.
      + destruct (take_closing cl_expired i (sw_closing w)) as [[c rest]|]; exact H.
    - destruct (take_closing _ i (sw_closing w)) as [[c rest]|]; exact H.
    - destruct (take_closing has_keys i (sw_closing w)) as [[c rest]|]; [|exact H].
      destruct (process_write wrapper_callbacks cfg (sw_db w) _ off ts) as [db' r]. exact H.
    - destruct (process_write wrapper_callbacks cfg (sw_db w) req off ts) as [db' r]. exact H.
    - (* leader change *)
      destruct (leader_init meta_dec _ now) as [l|e] eqn:L; cbn [fst snd sw_sessions].
      + intros ss Hin. assert (Ex : existsb (fun x => (fst x =? id)%Z) l = true).
        { apply existsb_exists. exists (id, ss). split; [exact Hin|apply Z.eqb_refl]. }
        rewrite Ex. rewrite (leader_init_armed _ _ _ _ _ L Hin). reflexivity.
      + intros ss [].
  Qed.

  Lemma run_armed_ok tr : forall w id acc,
    armed_ok w id acc ->
    armed_ok (fst (run_actions meta_enc meta_dec cfg min_timeout max_timeout w tr)) id (last_arm w tr id acc).
  Proof.
    induction tr as [|a tl IH]; intros w id acc H; [exact H|].
    cbn [run_actions last_arm]. pose proof (step_armed_ok w a id acc H) as H1.
    destruct (stepM w a) as [w1 o] eqn:E. cbn [fst] in *.
    specialize (IH w1 id _ H1).
    destruct (run_actions meta_enc meta_dec cfg min_timeout max_timeout w1 tl) as [w2 os]. exact IH.
  Qed.

  (* the deadline of every session of the current leader is (time of its last arming event) + (its timeout):
     ticks, client writes, other sessions' closes and cleanups never move it *)
  Theorem deadline_is_last_arm_plus_timeout tr id ss :
    In (id, ss) (sw_sessions (finalM tr)) ->
    last_arm init_world tr id None = Some (ss_armed ss) /\ deadline ss = (ss_armed ss + ss_timeout ss)%N.
  Proof.
    intro Hin. split; [|reflexivity].
    assert (A : armed_ok init_world id None) by (intros s []).
    exact (run_armed_ok tr init_world id None A ss Hin).
  Qed.

  (* a Tick expires a session only when a full timeout has passed since its last arming event, and expires
     no session whose deadline is still ahead *)
  Theorem timeout_only_after_full_period tr now id :
    In id (match snd (stepM (finalM tr) (ATick now)) with OExpired ids => ids | _ => [] end) ->
    exists ss, In (id, ss) (sw_sessions (finalM tr)) /\
               last_arm init_world tr id None = Some (ss_armed ss) /\
               (ss_armed ss + ss_timeout ss <= now)%N.
  Proof.
    cbn [step snd]. intro Hin. apply in_map_iff in Hin. destruct Hin as [[i ss] [E Hin]]. simpl in E. subst i.
    apply filter_In in Hin. destruct Hin as [Hin Hex]. exists ss. split; [exact Hin|].
    split; [apply (deadline_is_last_arm_plus_timeout tr id ss Hin)|].
    unfold expired, deadline in Hex. cbn [snd] in Hex. apply N.leb_le in Hex. exact Hex.
  Qed.

  Theorem tick_keeps_unexpired tr now id ss :
    In (id, ss) (sw_sessions (finalM tr)) -> (now < ss_armed ss + ss_timeout ss)%N ->
    In (id, ss) (sw_sessions (fst (stepM (finalM tr) (ATick now)))) /\
    sw_db (fst (stepM (finalM tr) (ATick now))) = sw_db (finalM tr).
  Proof.
    intros Hin Hlt. cbn [step fst sw_sessions sw_db]. split; [|reflexivity]. apply filter_In. split; [exact Hin|].
    unfold expired, deadline. cbn [snd]. apply negb_true_iff. apply N.leb_gt. exact Hlt.
  Qed.

  (* a leader change touches nothing a client can see and no session data: records, sessions and the shadow index
     are exactly what the old leader left (the DB is replicated), and every session Initialize finds is armed with
     a FULL timeout at the time of the change *)
  Theorem leader_change_keeps_db w term ts now :
    wf_kv (st_kv (sw_db w)) ->
    let w' := fst (stepM w (ALeaderChange term ts now)) in
    (forall k, uv (st_kv (sw_db w')) k = uv (st_kv (sw_db w)) k) /\
    (forall s, alive (st_kv (sw_db w')) s = alive (st_kv (sw_db w)) s) /\
    (forall s k, kv_get (st_kv (sw_db w')) (shadow_key s k) = kv_get (st_kv (sw_db w)) (shadow_key s k)) /\
    (forall id ss, In (id, ss) (sw_sessions w') -> ss_armed ss = now).
  Proof.
    intros W w'. assert (Db : sw_db w' = update_term (sw_db w) term (st_notif (sw_db w)) ts).
    { unfold w'. cbn [step]. destruct (leader_init meta_dec _ now); reflexivity. }
    rewrite Db. unfold update_term, internal_put. cbn [st_kv].
    split; [|split; [|split]].
    - intro k. rewrite !uv_put_internal by reflexivity. reflexivity.
    - intro s. rewrite alive_put_other by apply session_key_not_term_options.
      rewrite alive_put_other by apply session_key_not_term. reflexivity.
    - intros s k. rewrite !kv_get_put_other; [reflexivity| |].
      + rewrite shadow_key_child. apply sk_child_not_term.
      + rewrite shadow_key_child. apply sk_child_not_term_options.
    - intros id ss. unfold w'. cbn [step]. destruct (leader_init meta_dec _ now) as [l|e] eqn:L; cbn [fst sw_sessions]; [|intros []].
      apply (leader_init_armed _ _ _ _ _ L).
  Qed.
End Timers.

(* ================================================================ O-12: the two-step cleanup refutes the full statement *)
Section Refutations.
  Variable meta_enc : N -> bytes -> bytes.
  Variable meta_dec : bytes -> option N.

  Definition rf_cfg : config := mkConfig 1 100.
  Notation runR := (run_actions meta_enc meta_dec rf_cfg 2000 300000 init_world).

  Definition rf_ka : key := [97%N].        (* "a" *)
  Definition rf_kb : key := [98%N].        (* "b" *)
  Definition rf_put (k : key) (sess : option Z) : write_req :=
    mkWrite [mkPut k [118%N] None sess None None [] []] [] [].

  Lemma rf_put_ok k sess : is_internal k = false -> is_bytes k -> k <> [] -> c14_request (rf_put k sess).
  Proof.
    intros Hi Hb Hn. split; [|split; constructor]. constructor; [|constructor]. left. split; [reflexivity|].
    split; [exact Hi|]. intros _. split; assumption.
  Qed.

  (* session 0 owns "a"; its cleanup lists ["a"]; another client overwrites "a" with a plain put; the cleanup's
     write then deletes that client's record although session 0 no longer owns it *)
  Definition rf_prefix1 : list action :=
    [ACreate 5000 [] 0 10 1000; AClientWrite (rf_put rf_ka (Some 0%Z)) 1 11; AClose 0; ACleanupList 0;
     AClientWrite (rf_put rf_ka None) 2 12].
  (* ... or the dying session's own client writes a NEW key "b" (the session key is still there, so the put is
     accepted): the range delete removes b's shadow, the record stays, owned by a session that no longer exists *)
  Definition rf_prefix2 : list action :=
    [ACreate 5000 [] 0 10 1000; AClientWrite (rf_put rf_ka (Some 0%Z)) 1 11; AClose 0; ACleanupList 0;
     AClientWrite (rf_put rf_kb (Some 0%Z)) 2 12].
  Definition rf_last : action := ACleanupWrite 0 3 13.

  Definition rf_client_writes_ok (tr : list action) : Prop :=
    Forall (fun a => match a with AClientWrite req _ _ => c14_request req | _ => True end) tr.

  Lemma rf_prefix1_ok : rf_client_writes_ok rf_prefix1.
  Proof.
    repeat constructor; try exact I; try reflexivity; try discriminate; left;
      (split; [reflexivity|split; [reflexivity|intros _; split; [repeat constructor|discriminate]]]).
  Qed.
  Lemma rf_prefix2_ok : rf_client_writes_ok rf_prefix2.
  Proof.
    repeat constructor; try exact I; try reflexivity; try discriminate; left;
      (split; [reflexivity|split; [reflexivity|intros _; split; [repeat constructor|discriminate]]]).
  Qed.

  Theorem cleanup_exact_refuted_deleted_not_owned :
    exists tr z m m',
      rf_client_writes_ok tr /\
      m = st_kv (sw_db (fst (runR tr))) /\
      m' = st_kv (sw_db (fst (runR (tr ++ [rf_last])))) /\
      (exists r, last (snd (runR (tr ++ [rf_last]))) ODone = OWritten (Ok r)) /\
      (exists k, uv m k <> None /\ owner m k <> Some z /\ uv m' k = None) /\
      ~ cleanup_exact m m' z.
  Proof.
    exists rf_prefix1, 0%Z. eexists. eexists. split; [exact rf_prefix1_ok|]. split; [reflexivity|]. split; [reflexivity|].
    split; [eexists; vm_compute; reflexivity|].
    assert (W : uv (st_kv (sw_db (fst (runR rf_prefix1)))) rf_ka <> None /\
                owner (st_kv (sw_db (fst (runR rf_prefix1)))) rf_ka <> Some 0%Z /\
                uv (st_kv (sw_db (fst (runR (rf_prefix1 ++ [rf_last]))))) rf_ka = None).
    { vm_compute. repeat split; discriminate. }
    split; [exists rf_ka; exact W|].
    intros [Ex _]. destruct W as [W1 [W2 W3]]. specialize (Ex rf_ka). rewrite W3 in Ex.
    destruct (owned_by _ 0 rf_ka) eqn:O; [apply owned_by_true in O; contradiction|]. symmetry in Ex. contradiction.
  Qed.

  Theorem cleanup_exact_refuted_orphan :
    exists tr z m m',
      rf_client_writes_ok tr /\
      m = st_kv (sw_db (fst (runR tr))) /\
      m' = st_kv (sw_db (fst (runR (tr ++ [rf_last])))) /\
      (exists r, last (snd (runR (tr ++ [rf_last]))) ODone = OWritten (Ok r)) /\
      (exists k, owner m' k = Some z /\ alive m' z = false /\ kv_get m' (shadow_key z k) = None) /\
      ~ cleanup_exact m m' z /\ ~ mirror m'.
  Proof.
    exists rf_prefix2, 0%Z. eexists. eexists. split; [exact rf_prefix2_ok|]. split; [reflexivity|]. split; [reflexivity|].
    split; [eexists; vm_compute; reflexivity|].
    assert (W : owner (st_kv (sw_db (fst (runR (rf_prefix2 ++ [rf_last]))))) rf_kb = Some 0%Z /\
                alive (st_kv (sw_db (fst (runR (rf_prefix2 ++ [rf_last]))))) 0 = false /\
                kv_get (st_kv (sw_db (fst (runR (rf_prefix2 ++ [rf_last]))))) (shadow_key 0 rf_kb) = None).
    { vm_compute. repeat split. }
    split; [exists rf_kb; exact W|]. destruct W as [W1 [W2 W3]]. split.
    - intros [_ [_ [On _]]]. exact (On rf_kb W1).
    - intro M. apply M in W1. apply W1. exact W3.
  Qed.
End Refutations.

(* a session put on the EMPTY key: session.delete() skips the empty key ("if unescapedKey != \"\""), so even an
   undisturbed close leaves that record behind, owned by a dead session *)
Definition rf_empty_ops : list c14_op :=
  [XWrite (create_request 0 [1%N]) 0 10; XWrite (rf_put [] (Some 0%Z)) 1 11; XClose 0 2 12].

Theorem empty_key_orphan_refuted :
  let m := st_kv (c14_run rf_cfg rf_empty_ops) in
  owner m [] = Some 0%Z /\ alive m 0 = false /\ kv_get m (shadow_key 0 []) = None.
Proof. vm_compute. repeat split. Qed.

(* ================================================================ non-vacuity *)
Definition ex14_ops : list c14_op :=
  [XWrite (create_request 0 [1%N]) 0 10;                       (* session 0 *)
   XWrite (create_request 1 [1%N]) 1 11;                       (* session 1 *)
   XWrite (rf_put rf_ka (Some 0%Z)) 2 12;                      (* "a" under session 0 *)
   XWrite (rf_put rf_kb (Some 0%Z)) 3 13;                      (* "b" under session 0 *)
   XWrite (rf_put rf_ka (Some 1%Z)) 4 14;                      (* session 1 takes "a" over *)
   XUpdateTerm 2 true 99;                                      (* leader change *)
   XClose 0 5 15].                                             (* session 0 ends: only "b" goes *)

Example ex14_ok : Forall c14_ok ex14_ops.
Proof.
  assert (C : forall id v, c14_request (create_request id v)).
  { intros id v. split; [|split; constructor]. constructor; [|constructor]. right. left. split; [reflexivity|]. split; [reflexivity|]. exists id. reflexivity. }
  unfold ex14_ops.
  repeat (apply Forall_cons;
          [first [apply C | exact I | apply rf_put_ok; [reflexivity|repeat constructor|discriminate]]|]).
  apply Forall_nil.
Qed.

Example ex14_state :
  let m := st_kv (c14_run rf_cfg ex14_ops) in
  owner m rf_ka = Some 1%Z /\ uv m rf_kb = None /\ alive m 0 = false /\ alive m 1 = true /\
  kv_get m (shadow_key 1 rf_ka) <> None /\ kv_get m (shadow_key 0 rf_ka) = None.
Proof. vm_compute. repeat split; discriminate. Qed.

Example ex14_timers :
  let enc := fun (t : N) (_ : bytes) => [t] in
  let dec := fun b : bytes => match b with [t] => Some t | _ => None end in
  let tr := [ACreate 100 [] 0 10 1000; AHeartbeat 0 1050; ALeaderChange 2 50 5000] in
  snd (step enc dec rf_cfg 2 300000 (final enc dec rf_cfg 2 300000 tr) (ATick 5099)) = OExpired [] /\
  snd (step enc dec rf_cfg 2 300000 (final enc dec rf_cfg 2 300000 tr) (ATick 5100)) = OExpired [0%Z] /\
  last_arm enc dec rf_cfg 2 300000 init_world tr 0 None = Some 5000%N.
Proof. vm_compute. repeat split. Qed.

(* ================================================================ Part 4: Initialize finds the sessions of the DB *)
Open Scope N_scope.

Lemma digits_fuel_length dig fuel : forall n k,
  n < 16 ^ N.of_nat k -> (length (digits_fuel fuel 16 dig n []) <= k)%nat.
Proof.
  induction fuel as [|f IH]; intros n k H; simpl; [lia|].
  destruct (n =? 0) eqn:E; [simpl; lia|]. apply N.eqb_neq in E.
  destruct k as [|k]; [simpl in H; lia|].
  rewrite digits_fuel_acc, app_length. simpl.
  assert (Hd : n / 16 < 16 ^ N.of_nat k).
  { rewrite Nat2N.inj_succ, N.pow_succ_r' in H. apply N.div_lt_upper_bound; lia. }
  specialize (IH _ _ Hd). lia.
Qed.

Lemma hex_of_N_length n : n < 16 ^ 16 -> (length (hex_of_N n) <= 16)%nat.
Proof.
  intro H. unfold hex_of_N, digits_of. destruct (n =? 0); [simpl; lia|].
  apply (digits_fuel_length hex_digit _ n 16%nat). exact H.
Qed.

Lemma pad_left_length w c l : (length l <= w)%nat -> length (pad_left w c l) = w.
Proof. intro H. unfold pad_left. rewrite app_length, repeat_length. lia. Qed.

Definition lc_hex (c : N) : Prop := unhex c = Some (unhex_lc c).

Lemma lc_hex_digit d : d < 16 -> lc_hex (hex_digit d).
Proof.
  intro H. unfold lc_hex.
  assert (C : d = 0 \/ d = 1 \/ d = 2 \/ d = 3 \/ d = 4 \/ d = 5 \/ d = 6 \/ d = 7 \/ d = 8 \/ d = 9 \/
              d = 10 \/ d = 11 \/ d = 12 \/ d = 13 \/ d = 14 \/ d = 15) by lia.
  repeat (destruct C as [C|C]; [subst; reflexivity|]). subst. reflexivity.
Qed.

Lemma digits_fuel_lc fuel : forall n acc, Forall lc_hex acc -> Forall lc_hex (digits_fuel fuel 16 hex_digit n acc).
Proof.
  induction fuel as [|f IH]; simpl; intros n acc Ha; [exact Ha|].
  destruct (n =? 0); [exact Ha|]. apply IH. constructor; [|exact Ha]. apply lc_hex_digit. apply N.mod_lt. lia.
Qed.

Lemma hex16_nonneg_lc n : Forall lc_hex (pad_left 16 48 (hex_of_N n)).
Proof.
  apply pad_left_forall; [reflexivity|]. unfold hex_of_N, digits_of. destruct (n =? 0).
  - constructor; [reflexivity|constructor].
  - apply digits_fuel_lc. constructor.
Qed.

Lemma scan_hex_all : forall l w acc nd,
  (length l <= w)%nat -> Forall lc_hex l -> scan_hex w l acc nd = (parse_hex l acc, (nd + length l)%nat).
Proof.
  induction l as [|c l IH]; intros w acc nd Hl Hf.
  - destruct w; simpl; rewrite Nat.add_0_r; reflexivity.
  - destruct w as [|w]; [simpl in Hl; lia|]. inversion Hf; subst. simpl. rewrite H1.
    rewrite IH; [|simpl in Hl; lia|assumption]. f_equal. lia.
Qed.

Lemma skipn_app_exact (A : Type) (a b : list A) : skipn (length a) (a ++ b) = b.
Proof. induction a; [reflexivity|assumption]. Qed.

Theorem key_to_id_session_key z : (0 <= z < 9223372036854775808)%Z -> key_to_id (session_key z) = Some z.
Proof.
  intro Hz. unfold key_to_id, session_key. rewrite has_prefix_app. unfold drop_prefix. rewrite skipn_app_exact.
  unfold hex16. assert (Hneg : (z <? 0)%Z = false) by (apply Z.ltb_ge; lia). rewrite Hneg.
  assert (Hn : Z.to_N z < 16 ^ 16) by (change (16 ^ 16) with 18446744073709551616; lia).
  rewrite scan_hex_all; [|rewrite pad_left_length by (apply hex_of_N_length; exact Hn); lia|apply hex16_nonneg_lc].
  rewrite pad_left_length by (apply hex_of_N_length; exact Hn). cbn [Nat.add].
  rewrite parse_hex_pad, parse_hex_of_N.
  assert (Hlt : (Z.to_N z <? 9223372036854775808) = true) by (apply N.ltb_lt; lia). rewrite Hlt.
  rewrite Z2N.id by lia. reflexivity.
Qed.

Definition session_dir : bytes := Eval compute in removelast session_prefix.

Lemma session_key_in_listing st z :
  sorted (st_kv st) -> has (st_kv st) (session_key z) -> In (session_key z) (db_list st session_lo session_hi).
Proof.
  intros Hs Hh. unfold db_list.
  change session_lo with (session_dir ++ [47]). change session_hi with (session_dir ++ [47; 47]).
  rewrite !kv_bound_app. apply in_db_list; [exact Hs|]. split; [exact Hh|].
  apply slash_children_range. exists (hex16 z). split; [reflexivity|apply hex16_no_slash].
Qed.

Section LeaderInit.
  Variable meta_dec : bytes -> option N.

  Lemma read_sessions_keeps st z t : forall keys acc l0,
    kv_get (st_kv st) (session_key z) <> None ->
    (forall e, kv_get (st_kv st) (session_key z) = Some (VRecord e) -> meta_dec (e_value e) = Some t) ->
    key_to_id (session_key z) = Some z ->
    (forall y, In y keys -> key_to_id y = Some z -> y = session_key z) ->
    read_sessions meta_dec st keys acc = Ok l0 ->
    In (z, t) acc \/ In (session_key z) keys -> In (z, t) l0.
  Proof.
    induction keys as [|y tl IH]; intros acc l0 Hh Hm Hid Hu H Hin.
    - inversion H; subst. destruct Hin as [Hin|[]]. exact Hin.
    - cbn [read_sessions] in H.
      destruct (db_get st y CEqual true) as [g|e0] eqn:G; [|discriminate].
      assert (Hu' : forall y0, In y0 tl -> key_to_id y0 = Some z -> y0 = session_key z)
        by (intros y0 H0; apply Hu; right; exact H0).
      assert (Skip : In (z, t) acc \/ In (session_key z) tl -> In (z, t) l0 \/ True) by (intros _; right; exact I).
      destruct (g_status g) eqn:Gs; try (apply (IH acc l0 Hh Hm Hid Hu' H); destruct Hin as [Hin|[Hin|Hin]]; [left; exact Hin| |right; exact Hin];
        (* y = session_key z would have status OK *)
        exfalso; subst y; unfold db_get, kv_lookup in G; destruct (kv_get (st_kv st) (session_key z)) as [v|] eqn:K; [|apply Hh; reflexivity];
        destruct (deserialize v); inversion G; subst g; discriminate).
      destruct (g_value g) as [v|] eqn:Gv.
      2:{ apply (IH acc l0 Hh Hm Hid Hu' H). destruct Hin as [Hin|[Hin|Hin]]; [left; exact Hin| |right; exact Hin].
          exfalso. subst y. unfold db_get, kv_lookup in G. destruct (kv_get (st_kv st) (session_key z)) as [v0|] eqn:K; [|apply Hh; reflexivity].
          destruct (deserialize v0); inversion G; subst g; discriminate. }
      destruct (key_to_id y) as [id|] eqn:Ky.
      2:{ apply (IH acc l0 Hh Hm Hid Hu' H). destruct Hin as [Hin|[Hin|Hin]]; [left; exact Hin| |right; exact Hin].
          subst y. congruence. }
      assert (Same : y = session_key z -> meta_dec v = Some t).
      { intro E. subst y. unfold db_get, kv_lookup in G. destruct (kv_get (st_kv st) (session_key z)) as [v0|] eqn:K; [|inversion G; subst g; discriminate].
        destruct v0 as [e|nb]; simpl in G; [|discriminate]. inversion G; subst g. simpl in Gv. inversion Gv; subst v. apply Hm. reflexivity. }
      destruct (meta_dec v) as [t'|] eqn:Md.
      + apply (IH _ l0 Hh Hm Hid Hu' H).
        destruct (Z.eq_dec id z) as [->|Hne].
        * left. rewrite (Hu y (or_introl eq_refl) Ky) in Same. specialize (Same eq_refl). inversion Same; subst. left. reflexivity.
        * destruct Hin as [Hin|[Hin|Hin]].
          -- left. right. apply filter_In. split; [exact Hin|]. simpl. apply negb_true_iff. apply Z.eqb_neq. congruence.
          -- exfalso. subst y. congruence.
          -- right. exact Hin.
      + apply (IH acc l0 Hh Hm Hid Hu' H). destruct Hin as [Hin|[Hin|Hin]]; [left; exact Hin| |right; exact Hin].
        exfalso. specialize (Same Hin). discriminate.
  Qed.

  (* PARTIAL (two hypotheses that every DB written through createSession satisfies, but that are not part of the
     proved invariant: Initialize does not fail on some other key, and no OTHER key of the listing parses to the same
     id): a session whose key holds decodable metadata is found by the new leader and armed with a full timeout *)
  Theorem leader_init_finds_session st now z e t l :
    sorted (st_kv st) -> (0 <= z < 9223372036854775808)%Z ->
    kv_get (st_kv st) (session_key z) = Some (VRecord e) -> meta_dec (e_value e) = Some t ->
    (forall y, In y (db_list st session_lo session_hi) -> key_to_id y = Some z -> y = session_key z) ->
    leader_init meta_dec st now = Ok l ->
    In (z, mkSess t now) l.
  Proof.
    intros Hs Hz Hk Hm Hu H. unfold leader_init in H.
    destruct (read_sessions meta_dec st (db_list st session_lo session_hi) []) as [l0|e0] eqn:R; [|discriminate].
    inversion H; subst l; clear H.
    assert (Hin : In (z, t) l0).
    { eapply (read_sessions_keeps st z t); [| | |exact Hu|exact R|].
      - rewrite Hk. discriminate.
      - intros e1 E1. rewrite Hk in E1. inversion E1; subst. exact Hm.
      - apply key_to_id_session_key. exact Hz.
      - right. apply session_key_in_listing; [exact Hs|]. unfold has. rewrite Hk. discriminate. }
    apply in_map_iff. exists (z, t). split; [reflexivity|exact Hin].
  Qed.
End LeaderInit.

(* NOTE on sequence puts.  They are inside [c14_request] since the repair of O-15 (C16): the generated key is absent
   from the batch, so passing a nil existing entry to the callbacks is right.  Before the repair a sequence put could land
   on an existing ephemeral record without its shadow being deleted (stale shadow; the record was then deleted at that
   session's end although not owned). *)

(* In the model the end of a session is ONE request, i.e. one log entry applied atomically by every replica: step 2 of
   session.delete() is a single ProcessWrite of [cleanup_request] (all listed keys, the session key and the shadow
   range together).  The sessions harness checks on the real leader's WAL that the code still writes exactly that. *)
Theorem cleanup_write_is_one_request meta_enc meta_dec cfg mn mx w id offset ts c rest :
  take_closing has_keys id (sw_closing w) = Some (c, rest) ->
  sw_db (fst (step meta_enc meta_dec cfg mn mx w (ACleanupWrite id offset ts))) =
  fst (process_write wrapper_callbacks cfg (sw_db w)
         (cleanup_request id (match cl_keys c with Some ks => ks | None => [] end)) offset ts) /\
  w_puts (cleanup_request id (match cl_keys c with Some ks => ks | None => [] end)) = [] /\
  In (mkDel (session_key id) None) (w_dels (cleanup_request id (match cl_keys c with Some ks => ks | None => [] end))) /\
  w_ranges (cleanup_request id (match cl_keys c with Some ks => ks | None => [] end)) = [mkRange (shadow_lo id) (shadow_hi id)].
Proof.
  intro H. cbn [step]. rewrite H.
  destruct (process_write wrapper_callbacks cfg (sw_db w) _ offset ts) as [db' r]. cbn [fst sw_db].
  split; [reflexivity|]. split; [reflexivity|]. split; [|reflexivity].
  cbn [cleanup_request w_dels]. apply in_or_app. right. left. reflexivity.
Qed.

(* non-vacuity for sequence puts: a plain record sits exactly at the prefix, the ephemeral sequence put registers the
   GENERATED key in the session's index, and the session's end removes that record only *)
Definition ex14_seq_put (sess : option Z) : write_req :=
  mkWrite [mkPut [115%N] [118%N] None sess None (Some [112%N]) [1%N] []] [] [].
Definition ex14_seq_ops : list c14_op :=
  [XWrite (create_request 0 [1%N]) 0 10; XWrite (rf_put [115%N] None) 1 11; XWrite (ex14_seq_put (Some 0%Z)) 2 12].
Definition ex14_seq_key : key := C16_Gen.seq_key [115%N] [1%N].

Example ex14_seq_ok : Forall c14_ok (ex14_seq_ops ++ [XClose 0 3 13]).
Proof.
  assert (C : forall id v, c14_request (create_request id v)).
  { intros id v. split; [|split; constructor]. constructor; [|constructor]. right. left. split; [reflexivity|]. split; [reflexivity|]. exists id. reflexivity. }
  repeat (apply Forall_cons; [first [apply C | exact I | apply rf_put_ok; [reflexivity|repeat constructor|discriminate] | idtac]|]); [|apply Forall_nil].
  split; [|split; constructor]. constructor; [|constructor]. right. right.
  split; [discriminate|]. split; [reflexivity|]. intros _. repeat constructor.
Qed.

Example ex14_seq_state :
  let m := st_kv (c14_run rf_cfg ex14_seq_ops) in
  let m' := st_kv (c14_run rf_cfg (ex14_seq_ops ++ [XClose 0 3 13])) in
  owner m ex14_seq_key = Some 0%Z /\ kv_get m (shadow_key 0 ex14_seq_key) <> None /\ kv_get m (shadow_key 0 [115%N]) = None /\
  uv m' ex14_seq_key = None /\ uv m' [115%N] <> None.
Proof. vm_compute. repeat split; discriminate. Qed.

(* ================================================================ Part 5: the sessions of a new leader = the sessions of its log *)
(* BecomeLeader applies the WHOLE log (applyAllEntriesIntoDB) and only then calls Initialize: the DB that [leader_init]
   reads is the fold of every entry, whatever prefix of it the node had applied as a follower. *)
Definition apply_log (cfg : config) (st : state) (log : list (write_req * Z * N)) : state :=
  fold_left (fun s e => fst (process_write wrapper_callbacks cfg s (fst (fst e)) (snd (fst e)) (snd e))) log st.

Lemma apply_log_wf cfg log : forall st, wf_kv (st_kv st) -> wf_kv (st_kv (apply_log cfg st log)).
Proof.
  unfold apply_log. induction log as [|e tl IH]; simpl; intros st W; [exact W|]. apply IH. apply wf_preserved. exact W.
Qed.

Lemma apply_log_app cfg st l1 l2 : apply_log cfg st (l1 ++ l2) = apply_log cfg (apply_log cfg st l1) l2.
Proof. unfold apply_log. apply fold_left_app. Qed.

Section LeaderInitSound.
  Variable meta_dec : bytes -> option N.

  Definition found_in (st : state) (K : list key) (z : Z) (t : N) : Prop :=
    exists y e, In y K /\ key_to_id y = Some z /\ kv_get (st_kv st) y = Some (VRecord e) /\ meta_dec (e_value e) = Some t.

  Lemma read_sessions_sound st K : forall keys acc l0,
    (forall y, In y keys -> In y K) ->
    read_sessions meta_dec st keys acc = Ok l0 ->
    (forall z t, In (z, t) acc -> found_in st K z t) ->
    forall z t, In (z, t) l0 -> found_in st K z t.
  Proof.
    induction keys as [|y tl IH]; intros acc l0 Hsub H Hacc z t Hin.
    - inversion H; subst. apply Hacc. exact Hin.
    - cbn [read_sessions] in H.
      assert (Hsub' : forall y0, In y0 tl -> In y0 K) by (intros y0 H0; apply Hsub; right; exact H0).
      destruct (db_get st y CEqual true) as [g|e0] eqn:G; [|discriminate].
      destruct (g_status g) eqn:Gs; try (exact (IH acc l0 Hsub' H Hacc z t Hin)).
      destruct (g_value g) as [v|] eqn:Gv; [|exact (IH acc l0 Hsub' H Hacc z t Hin)].
      destruct (key_to_id y) as [id|] eqn:Ky; [|exact (IH acc l0 Hsub' H Hacc z t Hin)].
      destruct (meta_dec v) as [t'|] eqn:Md; [|exact (IH acc l0 Hsub' H Hacc z t Hin)].
      refine (IH _ l0 Hsub' H _ z t Hin). intros z0 t0 [E|Hf].
      + inversion E; subst z0 t0. unfold db_get, kv_lookup in G.
        destruct (kv_get (st_kv st) y) as [v0|] eqn:Kv; [|inversion G; subst g; discriminate].
        destruct v0 as [e|nb]; simpl in G; [|discriminate].
        assert (Ev : v = e_value e).
        { inversion G as [Eg]. rewrite <- Eg in Gv. simpl in Gv. inversion Gv. reflexivity. }
        rewrite Ev in Md.
        exists y, e. split; [apply Hsub; left; reflexivity|]. split; [exact Ky|]. split; [exact Kv|exact Md].
      + apply filter_In in Hf. apply Hacc. apply Hf.
  Qed.

  Theorem leader_init_sound st now l z ss :
    leader_init meta_dec st now = Ok l -> In (z, ss) l ->
    ss_armed ss = now /\ found_in st (db_list st session_lo session_hi) z (ss_timeout ss).
  Proof.
    intros H Hin. split; [eapply leader_init_armed; eassumption|]. unfold leader_init in H.
    destruct (read_sessions meta_dec st (db_list st session_lo session_hi) []) as [l0|e0] eqn:R; [|discriminate].
    inversion H; subst l; clear H. apply in_map_iff in Hin. destruct Hin as [[z0 t0] [E Hin]]. inversion E; subst z ss.
    cbn [ss_timeout]. eapply read_sessions_sound; [|exact R| |exact Hin].
    - intros y Hy. exact Hy.
    - intros z1 t1 [].
  Qed.
End LeaderInitSound.

(* After a leader change on a node whose log is [log] (any of it applied or not before the election), the sessions of
   the new leader's session manager are read from the DB reached by the whole log:
   every session it has comes from a stored session key with decodable metadata and is armed with a full timeout at the
   time of the change; every session key of that DB with decodable metadata (and no other listed key denoting the same
   id) is among them; and the change itself alters no session key. *)
Theorem sessions_after_leader_change meta_enc meta_dec cfg mn mx log closing sessions term ts now :
  let db0 := apply_log cfg init_state log in
  let w := mkWorld db0 sessions closing in
  let w' := fst (step meta_enc meta_dec cfg mn mx w (ALeaderChange term ts now)) in
  snd (step meta_enc meta_dec cfg mn mx w (ALeaderChange term ts now)) = ODone ->
  (forall z, alive (st_kv (sw_db w')) z = alive (st_kv db0) z) /\
  (forall z ss, In (z, ss) (sw_sessions w') ->
     ss_armed ss = now /\ found_in meta_dec (sw_db w') (db_list (sw_db w') session_lo session_hi) z (ss_timeout ss)) /\
  (forall z e t, (0 <= z < 9223372036854775808)%Z ->
     kv_get (st_kv db0) (session_key z) = Some (VRecord e) -> meta_dec (e_value e) = Some t ->
     (forall y, In y (db_list (sw_db w') session_lo session_hi) -> key_to_id y = Some z -> y = session_key z) ->
     In (z, mkSess t now) (sw_sessions w')).
Proof.
  intros db0 w w' Ho. unfold w', w in *. cbn [step sw_db] in *.
  set (db' := update_term db0 term (st_notif db0) ts) in *.
  assert (Wf0 : wf_kv (st_kv db0)) by (apply apply_log_wf; apply wf_nil).
  assert (Sk : forall z, kv_get (st_kv db') (session_key z) = kv_get (st_kv db0) (session_key z)).
  { intro z. unfold db', update_term, internal_put. cbn [st_kv].
    rewrite kv_get_put_other by apply session_key_not_term_options.
    apply kv_get_put_other. apply session_key_not_term. }
  assert (Wf' : wf_kv (st_kv db')).
  { unfold db', update_term. cbn [st_kv]. apply wf_internal_put, wf_internal_put. exact Wf0. }
  destruct (leader_init meta_dec db' now) as [l|e0] eqn:L; cbn [fst snd sw_db sw_sessions] in *; [|discriminate].
  split; [|split].
  - intro z. unfold alive. rewrite Sk. reflexivity.
  - intros z ss Hin. eapply leader_init_sound; eassumption.
  - intros z e t Hz Hk Hm Hu. rewrite <- Sk in Hk.
    exact (leader_init_finds_session meta_dec db' now z e t l (proj1 Wf') Hz Hk Hm Hu L).
Qed.

(* The order matters (what a seeded change of BecomeLeader got wrong): Initialize on the DB of a log PREFIX misses the
   session that the unapplied tail creates, although the DB the leader ends up with has it. *)
Example initialize_before_tail_loses_session :
  let dec := fun b : bytes => match b with [t] => Some t | _ => None end in
  let tail := [(create_request 0 [200%N], 0%Z, 10%N); (rf_put rf_ka (Some 0%Z), 1%Z, 11%N)] in
  leader_init dec (apply_log rf_cfg init_state []) 5000 = Ok [] /\
  alive (st_kv (apply_log rf_cfg init_state tail)) 0 = true /\
  owner (st_kv (apply_log rf_cfg init_state tail)) rf_ka = Some 0%Z /\
  leader_init dec (apply_log rf_cfg init_state tail) 5000 = Ok [(0%Z, mkSess 200 5000)].
Proof. vm_compute. repeat split. Qed.

(* Each restored session runs with the metadata decoded from ITS OWN key: the timeout of session z in the new manager
   is what [meta_dec] yields on the value stored under SessionKey(z) (given that no other listed key denotes the same id).
   [found_in] already ties the timeout to a key that parses to z; this is the reading the harness checks per session. *)
Theorem leader_init_own_metadata meta_dec st now l z ss :
  leader_init meta_dec st now = Ok l -> In (z, ss) l ->
  (forall y, In y (db_list st session_lo session_hi) -> key_to_id y = Some z -> y = session_key z) ->
  exists e, kv_get (st_kv st) (session_key z) = Some (VRecord e) /\ meta_dec (e_value e) = Some (ss_timeout ss) /\ ss_armed ss = now.
Proof.
  intros H Hin Hu. destruct (leader_init_sound meta_dec st now l z ss H Hin) as [Ha [y [e [Hy [Hk [Hg Hm]]]]]].
  rewrite (Hu y Hy Hk) in Hg. exists e. split; [exact Hg|]. split; [exact Hm|exact Ha].
Qed.

(* two sessions with different timeouts are restored each with its own (non-vacuity, and the shape of the defect a
   shared decoding buffer would introduce) *)
Example leader_init_two_timeouts :
  let dec := fun b : bytes => match b with [t] => Some t | _ => None end in
  let log := [(create_request 0 [200%N], 0%Z, 10%N); (create_request 1 [30%N], 1%Z, 11%N)] in
  leader_init dec (apply_log rf_cfg init_state log) 7000 = Ok [(1%Z, mkSess 30 7000); (0%Z, mkSess 200 7000)].
Proof. vm_compute. reflexivity. Qed.
