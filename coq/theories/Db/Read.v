(* Db/Read.v — server/kv/db.go read path: Get (applyGet + kv_pebble.go Get with the five comparison types),
   List, RangeScan, ReadNextNotifications, ReadCommitOffset / readLastVersionId, ReadTerm, and NewDB on an
   existing store ([reopen]).

   No read filters internal keys: neither kv.DB nor leader_controller.go hides "__oxia/..." from List /
   RangeScan / Get (a client that lists a range covering the internal prefix sees those keys).
   NOT MODELLED (nondeterministic in the code, see README "empty bounds"): Get with an EMPTY key and
   comparison LOWER/FLOOR/CEILING/HIGHER hands Pebble the bound []byte(""), which it keeps or drops
   depending on a pooled buffer. *)
From Coq Require Import List NArith ZArith Bool.
From Oxia.Db Require Import Types Bytes Keys Kv Notifications Write.
Import ListNotations.

(* kv_pebble.go:Get *)
Definition kv_lookup (m : kvmap) (k : key) (c : cmp_type) : option (key * value) :=
  match c with
  | CEqual => match kv_get m k with Some v => Some (k, v) | None => None end
  | CFloor => kv_floor m k
  | CCeiling => kv_ceiling m k
  | CLower => kv_lower m k
  | CHigher => kv_higher m k
  end.

(* applyGet: the key is reported only for non-EQUAL comparisons, the value only on request *)
Definition db_get (st : state) (k : key) (c : cmp_type) (include_value : bool) : result get_resp :=
  match kv_lookup (st_kv st) k c with
  | None => Ok get_not_found
  | Some (k', v) =>
      match deserialize v with
      | Err e => Err e
      | Ok e =>
          Ok (mkGetResp OK
                (match c with CEqual => None | _ => Some k' end)
                (if include_value then Some (e_value e) else None)
                (Some (version_of e))
                None)
      end
  end.

(* List: keys of [start, end), "" = unbounded on either side *)
Definition db_list (st : state) (start_ end_ : key) : list key :=
  map fst (kv_range (st_kv st) (kv_bound start_) (kv_bound end_)).

(* RangeScan: every value in the range goes through Deserialize (rangeScanIterator.Value) *)
Definition db_range_scan (st : state) (start_ end_ : key) : result (list (key * entry)) :=
  fold_right (fun kv acc =>
                match acc with
                | Err e => Err e
                | Ok l => match deserialize (snd kv) with
                          | Ok e => Ok ((fst kv, e) :: l)
                          | Err x => Err x
                          end
                end)
             (Ok [])
             (kv_range (st_kv st) (kv_bound start_) (kv_bound end_)).

(* ReadNextNotifications(ctx, startOffset): waits while startOffset > lastOffset ([EBlocked]) *)
Definition read_next_notifications (st : state) (start_offset : Z) : result (list nbatch) :=
  if negb (st_notif st) then Err ENotificationsDisabled
  else if (st_notif_last st <? start_offset)%Z then Err EBlocked
  else read_notification_batches (st_kv st) start_offset.

(* readASCIILong: -1 (wal.InvalidOffset) when the key is absent *)
Definition read_ascii_long (m : kvmap) (k : key) : result Z :=
  match kv_get m k with
  | None => Ok (-1)%Z
  | Some v =>
      match deserialize v with
      | Err e => Err e
      | Ok e => match scan_int64 (e_value e) with Some z => Ok z | None => Err EScan end
      end
  end.

Definition read_commit_offset (st : state) : result Z := read_ascii_long (st_kv st) commit_offset_key.
Definition read_last_version (m : kvmap) : result Z := read_ascii_long m last_version_key.

(* ReadTerm: (term, NotificationsEnabled); term -1 when absent.
   SIMPLIFICATION (named): json.Unmarshal of the options is modelled on the two byte strings UpdateTerm
   writes; anything else is [EDeserialize]. *)
Definition read_term (st : state) : result (Z * bool) :=
  match kv_get (st_kv st) term_key with
  | None => Ok ((-1)%Z, false)
  | Some v =>
      match deserialize v with
      | Err e => Err e
      | Ok e =>
          match scan_int64 (e_value e) with
          | None => Err EScan
          | Some t =>
              match kv_get (st_kv st) term_options_key with
              | None => Ok (t, false)
              | Some vo =>
                  match deserialize vo with
                  | Err x => Err x
                  | Ok eo =>
                      if bytes_eqb (e_value eo) term_options_true then Ok (t, true)
                      else if bytes_eqb (e_value eo) term_options_false then Ok (t, false)
                      else Err EDeserialize
                  end
              end
          end
      end
  end.

(* kv.NewDB on an existing store: version counter and notification offset are read back from the map,
   notifications are enabled (the controller calls EnableNotifications afterwards). *)
Definition reopen (m : kvmap) : result state :=
  match read_ascii_long m commit_offset_key with
  | Err e => Err e
  | Ok co =>
      match read_last_version m with
      | Err e => Err e
      | Ok lv => Ok (mkState m lv true co)
      end
  end.

(* what survives a close: the map *)
Definition persist (st : state) : kvmap := st_kv st.
