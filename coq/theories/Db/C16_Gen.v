(* Db/C16_Gen.v — the key a sequence put generates (helper of Proofs_C16.v):
     shape of what [seq_loop] returns, the current last key ([current_last_key] = FindLower + HasPrefix),
     freshness in EVERY sorted map, exactness on maps whose keys of the prefix were generated ([seq_wf]). *)
From Coq Require Import List NArith ZArith Bool Lia PeanoNat.
From Oxia.KeyOrder Require Import Model Proofs.
From Oxia.Db Require Import Types Bytes Keys Kv SortedMap SortedMapProofs KeyFacts KvProofs NumProofs Sequences C16_Keys.
Import ListNotations.
Open Scope N_scope.

(* ---------------------------------------------------------------- layout *)
Definition seq_suffix (vs : list N) : bytes := flat_map (fun v => DASH :: pad20 v) vs.
Definition seq_key (P : key) (vs : list N) : key := P ++ seq_suffix vs.
Definition max_key (P : key) : key := P ++ DASH :: pad20 MAX_SEQUENCE.

(* the numbers a generated key may carry: at least one, each a uint64, the first below 2^64-1 *)
Definition gen_vals (vs : list N) : Prop := vs <> [] /\ Forall (fun v => v < U64) vs /\ hd 0 vs < MAX_SEQUENCE.
Definition gen_key (P k : key) : Prop := exists vs, gen_vals vs /\ k = seq_key P vs.

Lemma seq_suffix_app a b : seq_suffix (a ++ b) = seq_suffix a ++ seq_suffix b.
Proof. unfold seq_suffix. apply flat_map_app. Qed.

Lemma seq_suffix_no_slash vs : no_slash (seq_suffix vs).
Proof.
  unfold no_slash. rewrite split_slash_none_iff. induction vs as [|v vs IH]; simpl; [constructor|].
  constructor; [unfold DASH, SLASH; lia|]. apply Forall_app. split; [apply pad20_no_slash|exact IH].
Qed.

Lemma max_suffix_no_slash : no_slash (DASH :: pad20 MAX_SEQUENCE).
Proof. unfold no_slash. rewrite split_slash_none_iff. constructor; [unfold DASH, SLASH; lia|apply pad20_no_slash]. Qed.

Lemma split_on_seq_suffix vs : split_on DASH (seq_suffix vs) = [] :: map pad20 vs.
Proof.
  induction vs as [|v vs IH]; [reflexivity|].
  change (seq_suffix (v :: vs)) with (DASH :: pad20 v ++ seq_suffix vs).
  rewrite split_on_sep, (split_on_no_sep DASH (pad20 v) _ (pad20_no_dash v)), IH. simpl. rewrite app_nil_r. reflexivity.
Qed.

Lemma lt_U64_TEN20 v : v < U64 -> v < TEN20.
Proof. pose proof U64_lt_TEN20. lia. Qed.

(* comparing two generated suffixes: the first numbers decide when they differ *)
Lemma seq_suffix_cmp_head v w vs ws : v < TEN20 -> w < TEN20 -> v <> w ->
  bytes_cmp (seq_suffix (v :: vs)) (seq_suffix (w :: ws)) = N.compare v w.
Proof.
  intros Hv Hw Hne. change (seq_suffix (v :: vs)) with (DASH :: pad20 v ++ seq_suffix vs).
  change (seq_suffix (w :: ws)) with (DASH :: pad20 w ++ seq_suffix ws).
  cbn [bytes_cmp]. rewrite N.compare_refl. rewrite bytes_cmp_app_eqlen.
  - apply pad20_cmp; assumption.
  - rewrite !pad20_length by assumption. reflexivity.
  - intro E. apply Hne. apply pad20_inj; assumption.
Qed.

Lemma gen_key_lt_max P vs : gen_vals vs -> cmp_slash (seq_key P vs) (max_key P) = Lt.
Proof.
  intros [Hne [Hall Hhd]]. unfold seq_key, max_key.
  rewrite (cmp_slash_prefix_bytes P _ _ (seq_suffix_no_slash vs) max_suffix_no_slash).
  destruct vs as [|v vs]; [congruence|]. simpl in Hhd. inversion Hall; subst.
  change (DASH :: pad20 MAX_SEQUENCE) with (seq_suffix [MAX_SEQUENCE]).
  rewrite seq_suffix_cmp_head; [apply N.compare_lt_iff; exact Hhd|apply lt_U64_TEN20; assumption|reflexivity|lia].
Qed.

Lemma seq_key_nonnil P vs : vs <> [] -> seq_key P vs <> [].
Proof. intros H E. apply app_eq_nil in E. destruct E as [_ E]. destruct vs; [congruence|discriminate]. Qed.

Lemma seq_key_prefix P vs : has_prefix P (seq_key P vs) = true.
Proof. apply has_prefix_app. Qed.

(* a key with the prefix that lies below max_key continues the prefix without a slash *)
Lemma below_max_no_slash P k : has_prefix P k = true -> cmp_slash k (max_key P) = Lt -> exists a, k = P ++ a /\ no_slash a.
Proof.
  intros Hp Hlt. apply has_prefix_iff in Hp. destruct Hp as [a ->]. exists a. split; [reflexivity|].
  unfold max_key in Hlt. rewrite cmp_slash_app_cancel in Hlt.
  destruct (split_slash a) as [[s r]|] eqn:S; [|exact S].
  rewrite (cmp_slash_slash_vs_no_slash _ _ _ _ S max_suffix_no_slash) in Hlt. discriminate.
Qed.

(* ---------------------------------------------------------------- the current last key, in any sorted map *)
Lemma current_last_key_some b P c l :
  sorted b -> current_last_key b P = c :: l ->
  kv_get b (c :: l) <> None /\ has_prefix P (c :: l) = true /\ cmp_slash (c :: l) (max_key P) = Lt /\
  (forall k v, kv_get b k = Some v -> cmp_slash k (max_key P) = Lt -> cmp_slash k (c :: l) <> Gt).
Proof.
  intros Hs H. unfold current_last_key in H. fold (max_key P) in H.
  pose proof (kv_lower_spec b (max_key P) Hs) as L.
  destruct (kv_lower b (max_key P)) as [[k v]|]; [|discriminate].
  destruct (has_prefix P k) eqn:Hp; [|discriminate]. subst k. destruct L as [G [Lt U]].
  split; [rewrite G; discriminate|]. split; [exact Hp|]. split; [exact Lt|exact U].
Qed.

Lemma current_last_key_none b P :
  sorted b -> current_last_key b P = [] ->
  forall k v, kv_get b k = Some v -> has_prefix P k = true -> cmp_slash k (max_key P) = Lt -> k = [].
Proof.
  intros Hs H k v G Hp Hlt. unfold current_last_key in H. fold (max_key P) in H.
  pose proof (kv_lower_spec b (max_key P) Hs) as L.
  destruct (kv_lower b (max_key P)) as [[k0 v0]|].
  - destruct L as [G0 [Lt0 U]].
    destruct (has_prefix P k0) eqn:Hp0.
    + (* the last key is the empty key (and the prefix is empty) *)
      subst k0. pose proof (U _ _ G Hlt) as Hle. destruct k as [|c k]; [reflexivity|].
      exfalso. apply Hle. reflexivity.
    + (* the greatest key below max_key lacks the prefix: nothing with the prefix is below max_key *)
      exfalso. destruct (below_max_no_slash P k Hp Hlt) as [a [-> Ha]].
      pose proof (U _ _ G Hlt) as Hle.
      assert (Hp0' : has_prefix P k0 = true).
      { unfold max_key in Lt0. eapply cmp_slash_between_prefix; [exact Ha|exact max_suffix_no_slash|exact Hle|exact Lt0]. }
      congruence.
  - exfalso. apply (L _ _ G). exact Hlt.
Qed.

(* ---------------------------------------------------------------- what the loop returns *)
Fixpoint loop_sums (parts : list bytes) (idx : nat) (deltas : list N) : option (list N) :=
  match deltas with
  | [] => Some []
  | d :: tl =>
      match (match nth_error parts idx with Some part => scan20 part | None => Some 0 end) with
      | None => None
      | Some lastv =>
          match loop_sums parts (S idx) tl with
          | Some r => Some ((lastv + d) mod U64 :: r)
          | None => None
          end
      end
  end.

Lemma seq_loop_shape deltas : forall idx parts acc k,
  seq_loop idx deltas parts acc = SeqOk k ->
  exists news, k = acc ++ seq_suffix news /\ length news = length deltas /\ Forall (fun v => v < U64) news /\
               (idx = 0%nat -> deltas <> [] -> hd 0 news < MAX_SEQUENCE).
Proof.
  induction deltas as [|d tl IH]; simpl; intros idx parts acc k H.
  - inversion H; subst. exists []. simpl. rewrite app_nil_r.
    split; [reflexivity|]. split; [reflexivity|]. split; [constructor|]. intros _ E. congruence.
  - destruct (Nat.eqb idx 0 && (d =? 0)); [discriminate|].
    destruct (match nth_error parts idx with Some part => scan20 part | None => Some 0 end) as [lastv|]; [|discriminate].
    destruct (((lastv + d) mod U64 <? lastv) || (Nat.eqb idx 0 && ((lastv + d) mod U64 =? MAX_SEQUENCE))) eqn:G; [discriminate|].
    apply orb_false_iff in G. destruct G as [_ G2].
    destruct (IH _ _ _ _ H) as [news [Ek [Ln [Fn _]]]].
    exists ((lastv + d) mod U64 :: news). split; [|split; [|split]].
    + rewrite Ek. change (seq_suffix ((lastv + d) mod U64 :: news)) with (DASH :: pad20 ((lastv + d) mod U64) ++ seq_suffix news).
      rewrite <- app_assoc. reflexivity.
    + simpl. congruence.
    + constructor; [apply N.mod_lt; discriminate|exact Fn].
    + intros -> _. simpl. simpl in G2. apply N.eqb_neq in G2.
      assert ((lastv + d) mod U64 < U64) by (apply N.mod_lt; discriminate). unfold MAX_SEQUENCE, U64 in *. lia.
Qed.

(* ---------------------------------------------------------------- freshness, in every sorted map *)
Lemma generate_key_shape b p nk :
  p_deltas p <> [] -> generate_key b p = SeqOk nk ->
  exists news, gen_vals news /\ nk = seq_key (p_key p) news /\ length news = length (p_deltas p) /\
    match current_last_key b (p_key p) with [] => True | lk => cmp_slash nk lk = Gt end.
Proof.
  intros Hd H. unfold generate_key in H.
  destruct (p_partition p); [|discriminate]. destruct (p_expected p); [discriminate|].
  destruct (current_last_parts b (p_key p) (length (p_deltas p))) as [parts|e]; [|discriminate].
  destruct (seq_loop 0 (p_deltas p) parts (p_key p)) as [k| |e] eqn:L; try discriminate.
  destruct (seq_loop_shape _ _ _ _ _ L) as [news [Ek [Ln [Fn Hh]]]].
  assert (Hg : gen_vals news).
  { split; [|split; [exact Fn|apply Hh; [reflexivity|exact Hd]]].
    intro E. subst news. destruct (p_deltas p); [congruence|discriminate]. }
  destruct (current_last_key b (p_key p)) as [|c lk] eqn:C.
  - inversion H; subst. exists news. repeat split; try assumption; apply Hg.
  - destruct (cmp_slash k (c :: lk)) eqn:Cm; try discriminate. inversion H; subst.
    exists news. repeat split; try assumption; apply Hg.
Qed.

Theorem generate_key_fresh b p nk :
  sorted b -> p_deltas p <> [] -> generate_key b p = SeqOk nk -> kv_get b nk = None.
Proof.
  intros Hs Hd H. destruct (generate_key_shape b p nk Hd H) as [news [Hg [-> [_ Hc]]]].
  destruct (kv_get b (seq_key (p_key p) news)) as [v|] eqn:G; [|reflexivity]. exfalso.
  pose proof (gen_key_lt_max (p_key p) news Hg) as Hlt.
  destruct (current_last_key b (p_key p)) as [|c lk] eqn:C.
  - apply (seq_key_nonnil (p_key p) news (proj1 Hg)).
    eapply current_last_key_none; [exact Hs|exact C|exact G|apply seq_key_prefix|exact Hlt].
  - destruct (current_last_key_some b (p_key p) c lk Hs C) as [_ [_ [_ U]]].
    apply (U _ _ G Hlt). exact Hc.
Qed.

(* ... and the new key comes after every key of the prefix that FindLower can see *)
Theorem generate_key_greater b p nk :
  sorted b -> p_deltas p <> [] -> generate_key b p = SeqOk nk ->
  forall k v, kv_get b k = Some v -> has_prefix (p_key p) k = true -> cmp_slash k (max_key (p_key p)) = Lt ->
  cmp_slash nk k = Gt.
Proof.
  intros Hs Hd H k v G Hp Hlt. destruct (generate_key_shape b p nk Hd H) as [news [Hg [-> [_ Hc]]]].
  destruct (current_last_key b (p_key p)) as [|c lk] eqn:C.
  - rewrite (current_last_key_none b (p_key p) Hs C k v G Hp Hlt).
    destruct (seq_key (p_key p) news) eqn:E; [exfalso; eapply seq_key_nonnil; [apply Hg|exact E]|reflexivity].
  - destruct (current_last_key_some b (p_key p) c lk Hs C) as [_ [_ [_ U]]].
    pose proof (U _ _ G Hlt) as Hle.
    apply cmp_slash_gt_lt. apply cmp_slash_gt_lt in Hc.
    eapply cmp_slash_le_lt_trans; eassumption.
Qed.

(* ---------------------------------------------------------------- maps whose keys of the prefix were generated *)
Definition seq_wf (b : kvmap) (P : key) : Prop :=
  forall k v, kv_get b k = Some v -> has_prefix P k = true -> gen_key P k.

(* the numbers of the highest key of the prefix ([] when there is none) *)
Definition last_vals (b : kvmap) (P : key) (cur : list N) : Prop :=
  (cur = [] /\ current_last_key b P = [] /\ forall k v, kv_get b k = Some v -> has_prefix P k = false) \/
  (gen_vals cur /\ current_last_key b P = seq_key P cur /\ kv_get b (seq_key P cur) <> None /\
   forall k v, kv_get b k = Some v -> has_prefix P k = true -> cmp_slash k (seq_key P cur) <> Gt).

Lemma last_vals_exists b P : sorted b -> seq_wf b P -> exists cur, last_vals b P cur.
Proof.
  intros Hs Hw. destruct (current_last_key b P) as [|c lk] eqn:C.
  - exists []. left. split; [reflexivity|]. split; [exact C|].
    intros k v G. destruct (has_prefix P k) eqn:Hp; [|reflexivity]. exfalso.
    destruct (Hw _ _ G Hp) as [vs [Hg ->]].
    apply (seq_key_nonnil P vs (proj1 Hg)).
    eapply current_last_key_none; [exact Hs|exact C|exact G|exact Hp|apply gen_key_lt_max; exact Hg].
  - destruct (current_last_key_some b P c lk Hs C) as [Hex [Hp [Hlt U]]].
    destruct (kv_get b (c :: lk)) as [v|] eqn:G; [|congruence].
    destruct (Hw _ _ G Hp) as [cur [Hg E]]. exists cur. right.
    split; [exact Hg|]. split; [rewrite C; exact E|]. split; [rewrite <- E, G; discriminate|].
    intros k v' G' Hp'. rewrite <- E. destruct (Hw _ _ G' Hp') as [vs [Hg' ->]].
    apply (U _ _ G'). apply gen_key_lt_max. exact Hg'.
Qed.

(* exact arithmetic: the i-th number of the new key is cur_i + delta_i (cur_i = 0 where absent) *)
Fixpoint sums (cur : list N) (idx : nat) (deltas : list N) : list N :=
  match deltas with
  | [] => []
  | d :: tl => (nth idx cur 0 + d) :: sums cur (S idx) tl
  end.

(* no component leaves the uint64 range, and the first one stays below 2^64-1 *)
Fixpoint no_overflowb (cur : list N) (idx : nat) (deltas : list N) : bool :=
  match deltas with
  | [] => true
  | d :: tl =>
      (nth idx cur 0 + d <? U64) && negb (Nat.eqb idx 0 && (nth idx cur 0 + d =? MAX_SEQUENCE)) &&
      no_overflowb cur (S idx) tl
  end.

Lemma nth_error_parts cur idx : Forall (fun v => v < U64) cur ->
  match nth_error (map pad20 cur) idx with Some part => scan20 part | None => Some 0 end = Some (nth idx cur 0).
Proof.
  revert idx. induction cur as [|c cur IH]; intros idx H; [destruct idx; reflexivity|].
  inversion H; subst. destruct idx as [|idx]; simpl; [apply scan20_pad20; assumption|apply IH; assumption].
Qed.

Lemma seq_loop_exact cur deltas : forall idx acc,
  Forall (fun v => v < U64) cur ->
  Forall (fun d => d < U64) deltas ->              (* deltas are uint64 *)
  (idx = 0%nat -> hd 1 deltas <> 0) ->
  seq_loop idx deltas (map pad20 cur) acc =
    if no_overflowb cur idx deltas then SeqOk (acc ++ seq_suffix (sums cur idx deltas)) else SeqBadVersion.
Proof.
  induction deltas as [|d tl IH]; intros idx acc Hc Hds Hz; simpl.
  - rewrite app_nil_r. reflexivity.
  - inversion Hds as [|? ? Hd Htl]; subst.
    assert (Z : Nat.eqb idx 0 && (d =? 0) = false).
    { destruct (Nat.eqb idx 0) eqn:E; [|reflexivity]. apply Nat.eqb_eq in E. specialize (Hz E). simpl in Hz.
      simpl. apply N.eqb_neq. exact Hz. }
    rewrite Z, (nth_error_parts cur idx Hc).
    assert (Hn : nth idx cur 0 < U64).
    { destruct (nth_in_or_default idx cur 0) as [Hin | Hdef]; [|rewrite Hdef; reflexivity]. rewrite Forall_forall in Hc. apply Hc, Hin. }
    destruct (nth idx cur 0 + d <? U64) eqn:O.
    + apply N.ltb_lt in O. rewrite (N.mod_small _ _ O).
      replace (nth idx cur 0 + d <? nth idx cur 0) with false by (symmetry; apply N.ltb_ge; lia).
      simpl. destruct (Nat.eqb idx 0 && (nth idx cur 0 + d =? MAX_SEQUENCE)); simpl; [reflexivity|].
      rewrite IH; [|exact Hc|exact Htl|intro E; discriminate].
      destruct (no_overflowb cur (S idx) tl); [|reflexivity].
      change (seq_suffix ((nth idx cur 0 + d) :: sums cur (S idx) tl))
        with (DASH :: pad20 (nth idx cur 0 + d) ++ seq_suffix (sums cur (S idx) tl)).
      rewrite <- app_assoc. reflexivity.
    + apply N.ltb_ge in O. simpl.
      assert (W : (nth idx cur 0 + d) mod U64 <? nth idx cur 0 = true).
      { apply N.ltb_lt.
        replace ((nth idx cur 0 + d) mod U64) with (nth idx cur 0 + d - U64); [lia|].
        symmetry. rewrite <- (N.mod_small (nth idx cur 0 + d - U64) U64) by lia.
        replace (nth idx cur 0 + d) with ((nth idx cur 0 + d - U64) + 1 * U64) at 1 by lia.
        rewrite N.mod_add by discriminate. reflexivity. }
      rewrite W. reflexivity.
Qed.
