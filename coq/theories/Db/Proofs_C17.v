(* Db/Proofs_C17.v — notifications are a complete, ordered, resumable record of committed changes (C17).

   HISTORIES.  [hop] = what happens to one shard's store: the next log entry is applied (offsets 0,1,2,...),
   a trimming round runs with some clock reading, the store is re-opened (restart, or a new leader opening
   its replica: by C06 a replica's store is the same function of the log).  [hrun] executes a history on the
   DB model and keeps three ghosts next to the state: the batches stored so far, oldest first ([h_log]), what
   the SPECIFICATION says each committed request changed ([h_spec], built from Db/Spec.v through
   C17_Batch.changes) and a low-water mark [h_lo] (every committed batch at or above it is still stored).
   [Inv] is the invariant; everything below is read off it.

   Hypotheses of the main theorems (all stated in the theorems):
     - requests touch user keys only (C12's [user_request]); notifications are enabled (init_state, reopen);
     - fewer than 2^62 log entries and fewer than 2^63 puts (int64 offsets / version ids, and the
       "(first+last)/2" of the trimmer's binary search must not overflow);
     - for the retention statement: batch timestamps are non-decreasing in the offset. *)
From Coq Require Import List NArith ZArith Bool Lia Sorting.Sorted.
From Oxia.KeyOrder Require Import Model Proofs.
From Oxia.Db Require Import Types Bytes Escape Keys Kv SortedMap SortedMapProofs KeyFacts Sessions Indexes
     Sequences Notifications Write Read Spec KvProofs NumProofs Proofs_C12 NotifStream C17_Hex C17_Batch C17_Cover.
Import ListNotations.
Open Scope Z_scope.

(* ---------------------------------------------------------------- lists *)
Lemma sorted_snoc {A} (R : A -> A -> Prop) l x :
  StronglySorted R (l ++ [x]) <-> StronglySorted R l /\ Forall (fun y => R y x) l.
Proof.
  induction l as [|a l IH]; simpl.
  - split; [intros _; split; constructor|intros _; constructor; constructor].
  - split.
    + intro H. inversion H as [|? ? Hs Hf]; subst. apply IH in Hs. destruct Hs as [Hs Hl].
      apply Forall_app in Hf. destruct Hf as [Hf1 Hf2]. inversion Hf2; subst.
      split; [constructor; assumption|constructor; assumption].
    + intros [H Hf]. inversion H as [|? ? Hs Hfa]; subst. inversion Hf; subst.
      constructor; [apply IH; split; assumption|]. apply Forall_app. split; [assumption|constructor; [assumption|constructor]].
Qed.

(* two strictly sorted lists with the same elements are equal *)
Lemma sorted_ext {A} (R : A -> A -> Prop) :
  (forall x, ~ R x x) -> (forall x y, R x y -> R y x -> False) ->
  forall l1 l2, StronglySorted R l1 -> StronglySorted R l2 -> (forall x, In x l1 <-> In x l2) -> l1 = l2.
Proof.
  intros Hirr Hasym. induction l1 as [|a l1 IH]; intros l2 H1 H2 Hin.
  - destruct l2 as [|b l2]; [reflexivity|]. exfalso. apply (Hin b). left. reflexivity.
  - destruct l2 as [|b l2]; [exfalso; apply (Hin a); left; reflexivity|].
    inversion H1 as [|? ? S1 F1]; subst. inversion H2 as [|? ? S2 F2]; subst.
    rewrite Forall_forall in F1, F2.
    assert (a = b).
    { destruct (proj1 (Hin a) (or_introl eq_refl)) as [E|Ia]; [auto|].
      destruct (proj2 (Hin b) (or_introl eq_refl)) as [E|Ib]; [auto|].
      exfalso. eapply Hasym; [apply (F1 _ Ib)|apply (F2 _ Ia)]. }
    subst b. f_equal. apply IH; try assumption.
    intro x. split; intro Hx.
    + destruct (proj1 (Hin x) (or_intror Hx)) as [E|Hx2]; [|exact Hx2]. subst x. exfalso. eapply Hirr, F1, Hx.
    + destruct (proj2 (Hin x) (or_intror Hx)) as [E|Hx1]; [|exact Hx1]. subst x. exfalso. eapply Hirr, F2, Hx.
Qed.

Lemma sorted_filter {A} (R : A -> A -> Prop) f l : StronglySorted R l -> StronglySorted R (filter f l).
Proof.
  induction 1 as [|a l Hs IH Hf]; simpl; [constructor|].
  destruct (f a); [|exact IH]. constructor; [exact IH|].
  rewrite Forall_forall in *. intros x Hx. apply filter_In in Hx. apply Hf, Hx.
Qed.

Lemma sorted_map {A B} (R : A -> A -> Prop) (S : B -> B -> Prop) (g : A -> B) l :
  (forall x y, In x l -> In y l -> R x y -> S (g x) (g y)) -> StronglySorted R l -> StronglySorted S (map g l).
Proof.
  intros Hg H. induction H as [|a l Hs IH Hf]; simpl; [constructor|].
  constructor.
  - apply IH. intros x y Hx Hy. apply Hg; right; assumption.
  - rewrite Forall_forall in *. intros y Hy. apply in_map_iff in Hy. destruct Hy as [x [<- Hx]].
    apply Hg; [left; reflexivity|right; exact Hx|apply Hf, Hx].
Qed.

(* ---------------------------------------------------------------- histories *)
Inductive hop :=
| HWrite (req : write_req) (ts : N)      (* the next log entry is applied (ProcessWrite) *)
| HTrim (now retention : Z)              (* one round of the notification trimmer *)
| HReopen.                               (* Close + NewDB on the store *)

Definition stored_batch (st : state) (o : Z) : option nbatch :=
  match kv_get (st_kv st) (notification_key o) with Some (VNotif b) => Some b | _ => None end.

Record hst := mkH {
  h_st : state;
  h_next : Z;                            (* offset of the next log entry *)
  h_lo : Z;                              (* committed batches at or above this offset are still stored *)
  h_log : list nbatch;                   (* batches of the applied requests, oldest first *)
  h_spec : list (Z * N * chg);           (* what the specification says they changed: offset, timestamp, changes *)
  h_failed : list Z;                     (* offsets whose application failed (C13's subject) *)
  h_puts : nat                           (* put operations seen so far *)
}.

Definition hinit : hst := mkH init_state 0 0 [] [] [] 0.

Definition hstep (cfg : config) (h : hst) (op : hop) : hst :=
  match op with
  | HWrite req ts =>
      let '(st', r) := process_write wrapper_callbacks cfg (h_st h) req (h_next h) ts in
      match r with
      | Ok resp =>
          mkH st' (h_next h + 1) (h_lo h)
              (h_log h ++ match stored_batch st' (h_next h) with Some b => [b] | None => [] end)
              (h_spec h ++ [(h_next h, ts, changes (abs_state (h_st h)) req (map seq_choice_of (wr_puts resp)) ts)])
              (h_failed h) (h_puts h + length (w_puts req))
      | Err _ =>
          mkH st' (h_next h + 1) (h_lo h) (h_log h) (h_spec h) (h_failed h ++ [h_next h])
              (h_puts h + length (w_puts req))
      end
  | HTrim now retention =>
      match trim (h_st h) now retention with
      | TrTrimmed t st' => mkH st' (h_next h) (Z.max (h_lo h) (t + 1)) (h_log h) (h_spec h) (h_failed h) (h_puts h)
      | _ => h
      end
  | HReopen =>
      match reopen (persist (h_st h)) with
      | Ok st' => mkH st' (h_next h) (h_lo h) (h_log h) (h_spec h) (h_failed h) (h_puts h)
      | Err _ => h
      end
  end.

Definition hrun (cfg : config) (ops : list hop) : hst := fold_left (hstep cfg) ops hinit.

Definition ops_user (ops : list hop) : Prop :=
  Forall (fun op => match op with HWrite req _ => user_request req | _ => True end) ops.

Definition ops_puts (ops : list hop) : nat :=
  fold_right (fun op acc => match op with HWrite req _ => (length (w_puts req) + acc)%nat | _ => acc end) 0%nat ops.

Definition ops_writes (ops : list hop) : nat :=
  fold_right (fun op acc => match op with HWrite _ _ => S acc | _ => acc end) 0%nat ops.

(* the size hypotheses *)
Definition TWO62 : Z := 4611686018427387904.
Definition ops_small (ops : list hop) : Prop :=
  Z.of_nat (ops_writes ops) < TWO62 /\ Z.of_nat (ops_puts ops) < TWO63.

(* ---------------------------------------------------------------- the invariant *)
Definition off_lt (a b : nbatch) : Prop := nb_offset a < nb_offset b.

Definition last_off (l : list nbatch) : Z := last (map nb_offset l) (-1).

Definition batch_matches (cfg : config) (b : nbatch) (e : Z * N * chg) : Prop :=
  let '(o, ts, c) := e in
  nb_shard b = cfg_shard cfg /\ nb_offset b = o /\ nb_ts b = ts /\
  NoDup (map fst (nb_notifs b)) /\ (forall k, nm_get (nb_notifs b) k = c k) /\ chg_clean c.

Record Inv (cfg : config) (h : hst) : Prop := mkInv {
  i_wf : wf_kv (st_kv (h_st h));
  i_notif : st_notif (h_st h) = true;
  i_next : 0 <= h_next h;
  i_lo : 0 <= h_lo h <= h_next h;
  i_sorted : StronglySorted off_lt (h_log h);
  i_range : Forall (fun b => 0 <= nb_offset b < h_next h) (h_log h);
  (* nothing else lives under "__oxia/notifications/" *)
  i_stored : forall k v, kv_get (st_kv (h_st h)) k = Some v -> notif_class k ->
             exists b, In b (h_log h) /\ k = notification_key (nb_offset b) /\ v = VNotif b;
  (* retained *)
  i_kept : forall b, In b (h_log h) -> h_lo h <= nb_offset b ->
           kv_get (st_kv (h_st h)) (notification_key (nb_offset b)) = Some (VNotif b);
  i_last : st_notif_last (h_st h) = last_off (h_log h);
  i_commit : read_ascii_long (st_kv (h_st h)) commit_offset_key = Ok (last_off (h_log h));
  i_ver : exists pv, read_last_version (st_kv (h_st h)) = Ok pv /\ -1 <= pv <= st_ver (h_st h) /\
                     (forall k e, uv (st_kv (h_st h)) k = Some e -> 0 <= e_modcount e <= pv);
  i_verb : st_ver (h_st h) <= -1 + Z.of_nat (h_puts h);
  i_spec : Forall2 (batch_matches cfg) (h_log h) (h_spec h);
  (* every offset below [h_next] was either committed (and logged) or failed *)
  i_cover : forall o, 0 <= o < h_next h -> (exists b, In b (h_log h) /\ nb_offset b = o) \/ In o (h_failed h);
  i_failed : forall o, In o (h_failed h) -> 0 <= o < h_next h /\ ~ exists b, In b (h_log h) /\ nb_offset b = o;
  (* trimmed: nothing is stored below the mark (trimming removes whole prefixes) *)
  i_gone : forall b, In b (h_log h) -> nb_offset b < h_lo h ->
           kv_get (st_kv (h_st h)) (notification_key (nb_offset b)) = None
}.

Lemma last_off_snoc l b : last_off (l ++ [b]) = nb_offset b.
Proof. unfold last_off. rewrite map_app. simpl. apply last_last. Qed.

Lemma last_off_bound l hi : Forall (fun b => 0 <= nb_offset b < hi) l -> 0 <= hi -> -1 <= last_off l < hi.
Proof.
  intros H Hhi. unfold last_off. induction l as [|a l IH]; simpl; [lia|].
  inversion H; subst. destruct l as [|a' l']; [simpl; lia|]. apply IH. assumption.
Qed.

Lemma last_off_max l : StronglySorted off_lt l -> forall b, In b l -> nb_offset b <= last_off l.
Proof.
  induction 1 as [|a l Hs IH Hf]; intros b Hb; [contradiction|].
  unfold last_off in *. destruct l as [|a' l'].
  - destruct Hb as [->|[]]. simpl. lia.
  - change (last (map nb_offset (a :: a' :: l')) (-1)) with (last (map nb_offset (a' :: l')) (-1)).
    destruct Hb as [->|Hb]; [|apply IH, Hb].
    rewrite Forall_forall in Hf. pose proof (Hf a' (or_introl eq_refl)) as H1. unfold off_lt in H1.
    specialize (IH a' (or_introl eq_refl)). lia.
Qed.

Lemma last_off_in l : l <> [] -> exists b, In b l /\ nb_offset b = last_off l.
Proof.
  induction l as [|a l IH]; [contradiction|]. intros _. destruct l as [|a' l'].
  - exists a. split; [left; reflexivity|reflexivity].
  - destruct (IH ltac:(discriminate)) as [b [Hb E]]. exists b. split; [right; exact Hb|exact E].
Qed.

Lemma inv_init cfg : Inv cfg hinit.
Proof.
  constructor; simpl.
  - apply wf_nil.
  - reflexivity.
  - lia.
  - lia.
  - constructor.
  - constructor.
  - intros k v H. discriminate.
  - intros b [].
  - reflexivity.
  - reflexivity.
  - exists (-1). split; [reflexivity|]. split; [lia|]. intros k e H. unfold uv in H. destruct (is_internal k); discriminate.
  - lia.
  - constructor.
  - intros o H. lia.
  - intros o [].
  - intros b [].
Qed.

(* ---------------------------------------------------------------- preservation: a request is applied *)
Lemma TWO62_lt : TWO62 < TWO63.
Proof. reflexivity. Qed.

Lemma nk_neq a b : 0 <= a < TWO63 -> 0 <= b < TWO63 -> a <> b -> notification_key a <> notification_key b.
Proof. unfold TWO63. intros Ha Hb Hne E. apply Hne. apply nk_inj; try lia. exact E. Qed.

Lemma chg_clean_ext c c' : (forall x, c x = c' x) -> chg_clean c -> chg_clean c'.
Proof. intros H Hc k n E. rewrite <- H in E. eapply Hc; exact E. Qed.

Lemma inv_write_ok cfg h req ts st' resp :
  Inv cfg h -> user_request req -> h_next h < TWO62 -> Z.of_nat (h_puts h + length (w_puts req)) < TWO63 ->
  process_write wrapper_callbacks cfg (h_st h) req (h_next h) ts = (st', Ok resp) ->
  Inv cfg (hstep cfg h (HWrite req ts)).
Proof.
  intros I Hu Hn Hp P. destruct I. unfold hstep. rewrite P.
  set (st := h_st h) in *. set (o := h_next h) in *.
  pose proof TWO62_lt as H62. rewrite Nat2Z.inj_add in Hp.
  destruct i_ver0 as [pv [Hpv [[Hpv1 Hpv2] Hmod]]].
  destruct (batch_step _ _ _ _ _ _ _ i_wf0 Hu i_notif0 P) as [[nm [G [Hd Hg]]] [F [W' [N' L']]]].
  destruct (refines_spec _ _ _ _ _ _ _ i_wf0 Hu P) as [s' [Sw [Sq _]]].
  assert (Mok : mod_ok (abs_state st)).
  { split; simpl; [lia|]. intros k e E. destruct (Hmod k e E). lia. }
  assert (Hb : s_last (abs_state st) + Z.of_nat (length (w_puts req)) < TWO63) by (simpl; lia).
  destruct (changes_of_spec_resp _ _ _ _ _ _ Sw Mok Hb) as [Ec [Mok' Hl']].
  destruct Sq as [Sr [_ Sl]]. simpl in Sr, Sl, Hl'.
  assert (Hsb : stored_batch st' o = Some (mkNBatch (cfg_shard cfg) o ts nm)) by (unfold stored_batch; rewrite G; reflexivity).
  rewrite Hsb. set (b0 := mkNBatch (cfg_shard cfg) o ts nm) in *.
  assert (Hlt : Forall (fun y => off_lt y b0) (h_log h)).
  { eapply Forall_impl; [|exact i_range0]. intros a Ha. unfold off_lt, b0. simpl in *. lia. }
  constructor; cbn [h_st h_next h_lo h_log h_spec h_failed h_puts].
  - exact W'.
  - exact N'.
  - lia.
  - lia.
  - apply sorted_snoc. split; assumption.
  - apply Forall_app. split; [eapply Forall_impl; [|exact i_range0]; intros a Ha; simpl in *; lia|].
    constructor; [simpl; lia|constructor].
  - intros k v Hk Hc. destruct (list_eq_dec N.eq_dec k (notification_key o)) as [->|Hne].
    + rewrite G in Hk. inversion Hk; subst v. exists b0. split; [apply in_or_app; right; left; reflexivity|].
      split; reflexivity.
    + rewrite (F k Hc Hne) in Hk. destruct (i_stored0 k v Hk Hc) as [b [Hb1 Hb2]].
      exists b. split; [apply in_or_app; left; exact Hb1|exact Hb2].
  - intros b Hin Hlo. apply in_app_or in Hin. destruct Hin as [Hin|[<-|[]]]; [|exact G].
    rewrite Forall_forall in i_range0. pose proof (i_range0 b Hin) as Hr.
    rewrite F; [apply i_kept0; assumption|apply notif_class_nk|].
    apply nk_neq; fold o; lia.
  - rewrite L'. rewrite last_off_snoc. reflexivity.
  - rewrite last_off_snoc.
    assert (Ho : int64 o) by (unfold int64, TWO63 in *; fold o in i_next0; unfold TWO62 in *; lia).
    assert (Hv : int64 (st_ver st')) by (unfold int64; rewrite Sl; unfold TWO63 in *; lia).
    destruct (reopen_after_commit _ _ _ _ _ _ _ _ P Ho Hv) as [R Lv]. unfold reopen, persist in R. rewrite Lv in R.
    destruct (read_ascii_long (st_kv st') commit_offset_key) as [co|e]; [|discriminate]. inversion R. reflexivity.
  - exists (st_ver st').
    assert (Ho : int64 o) by (unfold int64, TWO63 in *; fold o in i_next0; unfold TWO62 in *; lia).
    assert (Hv : int64 (st_ver st')) by (unfold int64; rewrite Sl; unfold TWO63 in *; lia).
    destruct (reopen_after_commit _ _ _ _ _ _ _ _ P Ho Hv) as [_ Lv].
    split; [exact Lv|]. split; [rewrite Sl; lia|].
    intros k e E. rewrite Sr in E. destruct Mok' as [_ Mm]. rewrite Sl. exact (Mm k e E).
  - rewrite Sl. rewrite Nat2Z.inj_add. fold st in i_verb0. lia.
  - apply Forall2_app; [exact i_spec0|]. constructor; [|constructor].
    unfold batch_matches. simpl. repeat split; try reflexivity; try exact Hd.
    + intro k. rewrite Hg. apply Ec.
    + eapply chg_clean_ext; [exact Ec|apply resp_changes_clean].
  - intros o' Ho'. destruct (Z.eq_dec o' o) as [->|Hne].
    + left. exists b0. split; [apply in_or_app; right; left; reflexivity|reflexivity].
    + destruct (i_cover0 o' ltac:(fold o; lia)) as [[b [Hb1 Hb2]]|Hf]; [left|right; exact Hf].
      exists b. split; [apply in_or_app; left; exact Hb1|exact Hb2].
  - intros o' Hf. destruct (i_failed0 o' Hf) as [Hr Hn']. split; [fold o in Hr; lia|].
    intros [b [Hb1 Hb2]]. apply in_app_or in Hb1. destruct Hb1 as [Hb1|[<-|[]]].
    + apply Hn'. exists b. split; assumption.
    + simpl in Hb2. fold o in Hr. lia.
  - intros b Hin Hbelow. apply in_app_or in Hin. destruct Hin as [Hin|[<-|[]]]; [|simpl in Hbelow; fold o in i_lo0; lia].
    rewrite Forall_forall in i_range0. pose proof (i_range0 b Hin) as Hr.
    rewrite F; [apply i_gone0; assumption|apply notif_class_nk|].
    apply nk_neq; fold o; lia.
Qed.

Lemma inv_write_err cfg h req ts st' e :
  Inv cfg h -> h_next h < TWO62 -> Z.of_nat (h_puts h + length (w_puts req)) < TWO63 ->
  process_write wrapper_callbacks cfg (h_st h) req (h_next h) ts = (st', Err e) ->
  Inv cfg (hstep cfg h (HWrite req ts)).
Proof.
  intros I Hn Hp P. destruct I. unfold hstep. rewrite P.
  destruct (atomic _ _ _ _ _ _ _ _ P) as [Ekv [En El]].
  destruct i_ver0 as [pv [Hpv [[Hpv1 Hpv2] Hmod]]]. rewrite Nat2Z.inj_add in Hp.
  destruct (versions_step _ _ _ _ _ _ _ _ P) as [Hv _]; [unfold TWO63; lia|lia|].
  constructor; cbn [h_st h_next h_lo h_log h_spec h_failed h_puts]; try rewrite Ekv; try assumption.
  - congruence.
  - lia.
  - lia.
  - eapply Forall_impl; [|exact i_range0]. intros a Ha. simpl in *. lia.
  - congruence.
  - exists pv. split; [exact Hpv|]. split; [lia|exact Hmod].
  - rewrite Nat2Z.inj_add. lia.
  - intros o Ho. destruct (Z.eq_dec o (h_next h)) as [->|Hne].
    + right. apply in_or_app. right. left. reflexivity.
    + destruct (i_cover0 o ltac:(lia)) as [Hb|Hf]; [left; exact Hb|right; apply in_or_app; left; exact Hf].
  - intros o Hf. apply in_app_or in Hf. destruct Hf as [Hf|[<-|[]]].
    + destruct (i_failed0 o Hf) as [Hr Hn']. split; [lia|exact Hn'].
    + split; [lia|]. intros [b [Hb1 Hb2]]. rewrite Forall_forall in i_range0. pose proof (i_range0 b Hb1). lia.
Qed.

(* ---------------------------------------------------------------- ranges of notification keys *)
Lemma in_range_notif a b k :
  key_in_range (Some (notification_key a)) (Some (notification_key b)) k = true -> notif_class k.
Proof.
  unfold key_in_range, in_range, SortedMap.leb, SortedMap.ltb. intro H. apply andb_true_iff in H. destruct H as [H1 H2].
  apply (nk_sandwich a b).
  - intro C. rewrite C in H1. discriminate.
  - destruct (cmp_slash k (notification_key b)); try discriminate. reflexivity.
Qed.

Lemma nk_in_range a b o : 0 <= a < TWO63 -> 0 <= b < TWO63 -> 0 <= o < TWO63 ->
  key_in_range (Some (notification_key a)) (Some (notification_key b)) (notification_key o) = (a <=? o) && (o <? b).
Proof.
  unfold TWO63. intros Ha Hb Ho. unfold key_in_range, in_range, SortedMap.leb, SortedMap.ltb.
  rewrite !cmp_nk by lia. reflexivity.
Qed.

Lemma not_notif_not_in_range a b k :
  ~ notif_class k -> key_in_range (Some (notification_key a)) (Some (notification_key b)) k = false.
Proof.
  intro H. destruct (key_in_range (Some (notification_key a)) (Some (notification_key b)) k) eqn:E; [|reflexivity].
  exfalso. apply H. eapply in_range_notif. exact E.
Qed.

Lemma last_in {A} (l : list A) d : In (last l d) (d :: l).
Proof.
  revert d. induction l as [|a l IH]; intro d; [left; reflexivity|].
  destruct l as [|a' l']; [right; left; reflexivity|].
  change (last (a :: a' :: l') d) with (last (a' :: l') d).
  destruct (IH d) as [E|H]; [left; exact E|right; right; exact H].
Qed.

(* every entry of a scan over the notification range is a logged batch under its own key *)
Lemma range_entries cfg h a b k v :
  Inv cfg h -> h_next h <= TWO63 ->
  In (k, v) (kv_range (st_kv (h_st h)) (Some (notification_key a)) (Some (notification_key b))) ->
  exists x, In x (h_log h) /\ k = notification_key (nb_offset x) /\ v = VNotif x /\ 0 <= nb_offset x < TWO63.
Proof.
  intros I Hn Hin. unfold kv_range, sm_range in Hin. apply filter_In in Hin. destruct Hin as [Hin Hr]. simpl in Hr.
  apply kv_in_get in Hin; [|apply (i_wf _ _ I)].
  destruct (i_stored _ _ I k v Hin (in_range_notif _ _ _ Hr)) as [x [Hx [E1 E2]]].
  exists x. repeat split; try assumption; pose proof (i_range _ _ I) as R; rewrite Forall_forall in R; specialize (R x Hx); lia.
Qed.

Lemma first_last_inv cfg h :
  Inv cfg h -> h_next h <= TWO63 ->
  first_last (st_kv (h_st h)) = Ok None \/
  exists bf bl, In bf (h_log h) /\ In bl (h_log h) /\
                first_last (st_kv (h_st h)) = Ok (Some (nb_offset bf, nb_offset bl)).
Proof.
  intros I Hn. unfold first_last.
  destruct (kv_range (st_kv (h_st h)) (Some first_notification_key) (Some last_notification_key)) as [|[k1 v1] tl] eqn:R;
    [left; reflexivity|right].
  assert (H1 : In (k1, v1) (kv_range (st_kv (h_st h)) (Some (notification_key 0)) (Some (notification_key 9223372036854775807))))
    by (change (notification_key 0) with first_notification_key; change (notification_key 9223372036854775807) with last_notification_key;
        rewrite R; left; reflexivity).
  destruct (range_entries _ _ _ _ _ _ I Hn H1) as [bf [Hbf [E1 [_ B1]]]].
  pose proof (last_in tl (k1, empty_value)) as Hl. destruct (last tl (k1, empty_value)) as [k2 v2] eqn:L.
  assert (H2 : exists v, In (k2, v) (kv_range (st_kv (h_st h)) (Some (notification_key 0)) (Some (notification_key 9223372036854775807)))).
  { change (notification_key 0) with first_notification_key; change (notification_key 9223372036854775807) with last_notification_key.
    rewrite R. destruct Hl as [E|Hl]; [inversion E; subst; exists v1; left; reflexivity|exists v2; right; exact Hl]. }
  destruct H2 as [v2' H2].
  destruct (range_entries _ _ _ _ _ _ I Hn H2) as [bl [Hbl [E2 [_ B2]]]].
  exists bf, bl. split; [exact Hbf|]. split; [exact Hbl|]. simpl.
  rewrite E1, E2. rewrite !parse_notification_key_nk by (unfold TWO63 in *; lia). reflexivity.
Qed.

(* ---------------------------------------------------------------- the binary search stays inside [first, last] *)
Lemma med_bounds f l : 0 <= f -> f < l -> l < TWO62 ->
  let s := wrap64 (f + l) in
  let med := if 0 <? Z.rem s 2 then wrap64 (Z.quot s 2 + 1) else Z.quot s 2 in
  f < med <= l /\ wrap64 (med - 1) = med - 1 /\ (f + l <= 2 * med <= f + l + 1).
Proof.
  intros Hf Hl Hb. unfold TWO62 in Hb. cbn zeta.
  rewrite (wrap64_small (f + l)) by (unfold TWO63; lia).
  rewrite Z.rem_mod_nonneg, Z.quot_div_nonneg by lia.
  destruct (0 <? (f + l) mod 2) eqn:E.
  - apply Z.ltb_lt in E. rewrite (wrap64_small ((f + l) / 2 + 1)) by (unfold TWO63; Z.div_mod_to_equations; lia).
    rewrite wrap64_small by (unfold TWO63; Z.div_mod_to_equations; lia). Z.div_mod_to_equations. lia.
  - apply Z.ltb_ge in E. rewrite wrap64_small by (unfold TWO63; Z.div_mod_to_equations; lia). Z.div_mod_to_equations. lia.
Qed.

Lemma bsearch_range fuel m : forall f l c t,
  bsearch fuel m f l c = inl t -> 0 <= f < TWO62 -> l < TWO62 -> f <= t <= Z.max f l.
Proof.
  induction fuel as [|fu IH]; intros f l c t H Hf Hl.
  - simpl in H. destruct (f <? l); [discriminate|]. inversion H. lia.
  - cbn [bsearch] in H. destruct (f <? l) eqn:E; [|inversion H; lia]. apply Z.ltb_lt in E.
    destruct (med_bounds f l ltac:(lia) E Hl) as [M1 [M2 _]]. cbn zeta in M1, M2.
    set (med := if 0 <? Z.rem (wrap64 (f + l)) 2 then wrap64 (Z.quot (wrap64 (f + l)) 2 + 1) else Z.quot (wrap64 (f + l)) 2) in *.
    destruct (ts_at m med) as [tm|e]; [|discriminate].
    destruct (c <? tm).
    + rewrite M2 in H. apply IH in H; lia.
    + apply IH in H; lia.
Qed.

(* ---------------------------------------------------------------- preservation: trimming, re-opening *)
Lemma uv_del_range_notif m a b k :
  sorted m -> uv (kv_del_range m (Some (notification_key a)) (Some (notification_key b))) k = uv m k.
Proof.
  intro Hs. unfold uv. destruct (is_internal k) eqn:E; [reflexivity|].
  rewrite kv_get_del_range by exact Hs. rewrite not_notif_not_in_range; [reflexivity|].
  intro C. apply notif_class_internal in C. congruence.
Qed.

Lemma get_del_range_other m a b k :
  sorted m -> ~ notif_class k -> kv_get (kv_del_range m (Some (notification_key a)) (Some (notification_key b))) k = kv_get m k.
Proof. intros Hs Hk. rewrite kv_get_del_range by exact Hs. rewrite not_notif_not_in_range by exact Hk. reflexivity. Qed.

Lemma commit_offset_not_notif : ~ notif_class commit_offset_key.
Proof. intro C. apply notif_class_tag in C. discriminate. Qed.
Lemma last_version_not_notif : ~ notif_class last_version_key.
Proof. intro C. apply notif_class_tag in C. discriminate. Qed.

Lemma trim_shape cfg h now retention t st' :
  Inv cfg h -> h_next h < TWO62 -> trim (h_st h) now retention = TrTrimmed t st' ->
  exists bf bl, In bf (h_log h) /\ In bl (h_log h) /\
    first_last (st_kv (h_st h)) = Ok (Some (nb_offset bf, nb_offset bl)) /\
    nb_offset bf <= t <= Z.max (nb_offset bf) (nb_offset bl) /\
    st' = mkState (kv_del_range (st_kv (h_st h)) (Some (notification_key (nb_offset bf))) (Some (notification_key (t + 1))))
                  (st_ver (h_st h)) (st_notif (h_st h)) (st_notif_last (h_st h)).
Proof.
  intros I Hn H. pose proof TWO62_lt as H62. unfold trim in H.
  destruct (first_last_inv cfg h I ltac:(lia)) as [E|[bf [bl [Hbf [Hbl E]]]]]; rewrite E in H; [discriminate|].
  pose proof (i_range _ _ I) as R. rewrite Forall_forall in R. pose proof (R bf Hbf) as Rf. pose proof (R bl Hbl) as Rl.
  destruct (nb_offset bl =? -1); [discriminate|].
  destruct (ts_at (st_kv (h_st h)) (nb_offset bf)) as [tf|e]; [|discriminate].
  destruct (now - retention <? tf); [discriminate|].
  destruct (bsearch 70 (st_kv (h_st h)) (nb_offset bf) (nb_offset bl) (now - retention)) as [t0|e] eqn:B; [|discriminate].
  inversion H; subst t0 st'; clear H.
  pose proof (bsearch_range _ _ _ _ _ _ B ltac:(lia) ltac:(lia)) as Ht.
  exists bf, bl. repeat split; try assumption; try lia.
  rewrite (wrap64_small (t + 1)) by (unfold TWO63, TWO62 in *; lia). reflexivity.
Qed.

(* the first key of the trimmer's scan is the least stored offset *)
Lemma first_last_min cfg h f l :
  Inv cfg h -> h_next h <= TWO62 -> first_last (st_kv (h_st h)) = Ok (Some (f, l)) ->
  forall b, In b (h_log h) -> kv_get (st_kv (h_st h)) (notification_key (nb_offset b)) = Some (VNotif b) -> f <= nb_offset b.
Proof.
  intros I Hn FL b Hb G. pose proof TWO62_lt as H62.
  pose proof (i_range _ _ I) as R. rewrite Forall_forall in R. pose proof (R b Hb) as Rb.
  assert (Hs : sorted (st_kv (h_st h))) by apply (i_wf _ _ I).
  unfold first_last in FL.
  destruct (kv_range (st_kv (h_st h)) (Some first_notification_key) (Some last_notification_key)) as [|[k1 v1] tl] eqn:RG; [discriminate|].
  assert (H1 : In (k1, v1) (kv_range (st_kv (h_st h)) (Some (notification_key 0)) (Some (notification_key 9223372036854775807))))
    by (change (notification_key 0) with first_notification_key; change (notification_key 9223372036854775807) with last_notification_key;
        rewrite RG; left; reflexivity).
  destruct (range_entries _ _ _ _ _ _ I ltac:(lia) H1) as [bf [Hbf [E1 [E2 B1]]]]. subst k1 v1.
  rewrite parse_notification_key_nk in FL by (unfold TWO63 in *; lia).
  destruct (parse_notification_key (fst (last tl (notification_key (nb_offset bf), empty_value)))) as [lst|e]; [|discriminate].
  assert (Ef : nb_offset bf = f) by (inversion FL; reflexivity). subst f.
  apply kv_get_in in G; [|exact Hs].
  assert (Hin : In (notification_key (nb_offset b), VNotif b)
                   (kv_range (st_kv (h_st h)) (Some first_notification_key) (Some last_notification_key))).
  { unfold kv_range, sm_range. apply filter_In. split; [exact G|]. simpl.
    change first_notification_key with (notification_key 0). change last_notification_key with (notification_key 9223372036854775807).
    fold (key_in_range (Some (notification_key 0)) (Some (notification_key 9223372036854775807)) (notification_key (nb_offset b))).
    rewrite nk_in_range by (unfold TWO62, TWO63 in *; lia).
    apply andb_true_iff. split; [apply Z.leb_le; lia|apply Z.ltb_lt; unfold TWO62 in *; lia]. }
  rewrite RG in Hin. destruct Hin as [E|Hin]; [injection E as _ E2; rewrite E2; lia|].
  pose proof (kv_range_sorted (st_kv (h_st h)) (Some first_notification_key) (Some last_notification_key) Hs) as Srt.
  rewrite RG in Srt. inversion Srt as [|? ? _ F]; subst. rewrite Forall_forall in F. specialize (F _ Hin).
  unfold klt in F. simpl in F. pose proof (R bf Hbf). rewrite cmp_nk in F by (unfold TWO62, TWO63 in *; lia).
  rewrite Z.compare_lt_iff in F. lia.
Qed.

Lemma inv_trim cfg h now retention :
  Inv cfg h -> h_next h < TWO62 -> Inv cfg (hstep cfg h (HTrim now retention)).
Proof.
  intros I Hn. unfold hstep. destruct (trim (h_st h) now retention) as [|t st'|e] eqn:T; try exact I.
  destruct (trim_shape _ _ _ _ _ _ I Hn T) as [bf [bl [Hbf [Hbl [FL [Ht ->]]]]]].
  pose proof (first_last_min _ _ _ _ I ltac:(lia) FL) as Hmin.
  pose proof TWO62_lt as H62. pose proof I as I0. destruct I.
  rewrite Forall_forall in i_range0. pose proof (i_range0 bf Hbf) as Rf. pose proof (i_range0 bl Hbl) as Rl.
  assert (Hs : sorted (st_kv (h_st h))) by apply i_wf0.
  constructor; cbn [h_st h_next h_lo h_log h_spec h_failed h_puts st_kv st_ver st_notif st_notif_last]; try assumption.
  - apply wf_del_range. exact i_wf0.
  - lia.
  - apply Forall_forall. exact i_range0.
  - intros k v Hk Hc. rewrite kv_get_del_range in Hk by exact Hs.
    destruct (key_in_range _ _ k); [discriminate|]. apply i_stored0; assumption.
  - intros b Hb Hlo. pose proof (i_range0 b Hb) as Rb. rewrite kv_get_del_range by exact Hs.
    rewrite nk_in_range by (unfold TWO63, TWO62 in *; lia).
    replace (nb_offset b <? t + 1) with false by (symmetry; apply Z.ltb_ge; lia).
    rewrite andb_false_r. apply i_kept0; [exact Hb|lia].
  - unfold read_ascii_long in *. rewrite get_del_range_other; [exact i_commit0|exact Hs|exact commit_offset_not_notif].
  - destruct i_ver0 as [pv [Hpv [Hb Hm]]]. exists pv. split; [|split; [exact Hb|]].
    + unfold read_last_version, read_ascii_long in *. rewrite get_del_range_other; [exact Hpv|exact Hs|exact last_version_not_notif].
    + intros k e E. rewrite uv_del_range_notif in E by exact Hs. apply (Hm k e E).
  - intros b Hb Hbelow. pose proof (i_range0 b Hb) as Rb. rewrite kv_get_del_range by exact Hs.
    destruct (key_in_range (Some (notification_key (nb_offset bf))) (Some (notification_key (t + 1))) (notification_key (nb_offset b))) eqn:E;
      [reflexivity|].
    destruct (Z_lt_ge_dec (nb_offset b) (h_lo h)) as [Hold|Hnew]; [apply i_gone0; assumption|].
    (* at or above the old mark: it was stored, hence at or above the first stored offset, and it is at most t: in the range *)
    exfalso. pose proof (i_kept0 b Hb ltac:(lia)) as K. pose proof (Hmin b Hb K) as Hm.
    rewrite nk_in_range in E by (unfold TWO63, TWO62 in *; lia).
    apply andb_false_iff in E. destruct E as [E|E]; [apply Z.leb_gt in E; lia|apply Z.ltb_ge in E; lia].
Qed.

Lemma reopen_inv cfg h :
  Inv cfg h -> exists pv, reopen (persist (h_st h)) = Ok (mkState (st_kv (h_st h)) pv true (last_off (h_log h))) /\
                          -1 <= pv <= st_ver (h_st h) /\
                          (forall k e, uv (st_kv (h_st h)) k = Some e -> 0 <= e_modcount e <= pv) /\
                          read_last_version (st_kv (h_st h)) = Ok pv.
Proof.
  intro I. destruct (i_ver _ _ I) as [pv [Hpv [Hb Hm]]]. exists pv.
  unfold reopen, persist. rewrite (i_commit _ _ I), Hpv. split; [reflexivity|]. split; [exact Hb|]. split; [exact Hm|reflexivity].
Qed.

Lemma inv_reopen cfg h : Inv cfg h -> Inv cfg (hstep cfg h HReopen).
Proof.
  intro I. unfold hstep. destruct (reopen_inv cfg h I) as [pv [E [Hb [Hm Hpv]]]]. rewrite E.
  destruct I. constructor; cbn [h_st h_next h_lo h_log h_spec h_failed h_puts st_kv st_ver st_notif st_notif_last]; try assumption.
  - reflexivity.
  - reflexivity.
  - exists pv. split; [exact Hpv|]. split; [lia|exact Hm].
  - lia.
Qed.

(* ---------------------------------------------------------------- the invariant holds along every history *)
Lemma hrun_snoc cfg ops op : hrun cfg (ops ++ [op]) = hstep cfg (hrun cfg ops) op.
Proof. unfold hrun. rewrite fold_left_app. reflexivity. Qed.

Lemma hrun_app cfg ops1 ops2 : hrun cfg (ops1 ++ ops2) = fold_left (hstep cfg) ops2 (hrun cfg ops1).
Proof. unfold hrun. apply fold_left_app. Qed.

Lemma ops_writes_app a b : ops_writes (a ++ b) = (ops_writes a + ops_writes b)%nat.
Proof. induction a as [|op a IH]; simpl; [reflexivity|]. destruct op; rewrite IH; reflexivity. Qed.

Lemma ops_puts_app a b : ops_puts (a ++ b) = (ops_puts a + ops_puts b)%nat.
Proof. induction a as [|op a IH]; simpl; [reflexivity|]. destruct op; rewrite IH; lia. Qed.

Lemma ops_small_app a b : ops_small (a ++ b) -> ops_small a.
Proof. unfold ops_small. rewrite ops_writes_app, ops_puts_app. lia. Qed.

Lemma hstep_counts cfg h op :
  h_next (hstep cfg h op) = h_next h + Z.of_nat (ops_writes [op]) /\
  h_puts (hstep cfg h op) = (h_puts h + ops_puts [op])%nat.
Proof.
  destruct op as [req ts|now ret|]; simpl.
  - destruct (process_write wrapper_callbacks cfg (h_st h) req (h_next h) ts) as [st' [resp|e]]; simpl; split; lia.
  - destruct (trim (h_st h) now ret); simpl; split; lia.
  - destruct (reopen (persist (h_st h))); simpl; split; lia.
Qed.

Theorem inv_run cfg ops :
  ops_user ops -> ops_small ops ->
  Inv cfg (hrun cfg ops) /\ h_next (hrun cfg ops) = Z.of_nat (ops_writes ops) /\ h_puts (hrun cfg ops) = ops_puts ops.
Proof.
  induction ops as [|op ops IH] using rev_ind; intros Hu Hs.
  - split; [apply inv_init|]. split; reflexivity.
  - unfold ops_user in Hu. apply Forall_app in Hu. destruct Hu as [Hu1 Hu2]. inversion Hu2 as [|? ? Hop _]; subst.
    destruct (IH Hu1 (ops_small_app _ _ Hs)) as [I [Hn Hp]].
    rewrite hrun_snoc. destruct (hstep_counts cfg (hrun cfg ops) op) as [C1 C2].
    split; [|split; [rewrite C1, Hn, ops_writes_app; lia|rewrite C2, Hp, ops_puts_app; reflexivity]].
    destruct Hs as [Hs1 Hs2]. rewrite ops_writes_app in Hs1. rewrite ops_puts_app in Hs2.
    destruct op as [req ts|now ret|].
    + simpl in Hs1, Hs2.
      destruct (process_write wrapper_callbacks cfg (h_st (hrun cfg ops)) req (h_next (hrun cfg ops)) ts) as [st' [resp|e]] eqn:P.
      * eapply inv_write_ok; [exact I|exact Hop|lia|rewrite Hp; lia|exact P].
      * eapply inv_write_err; [exact I|lia|rewrite Hp; lia|exact P].
    + apply inv_trim; [exact I|simpl in Hs1; lia].
    + apply inv_reopen. exact I.
Qed.

(* ---------------------------------------------------------------- reading the stored batches *)
Definition nbkv (b : nbatch) : key * value := (notification_key (nb_offset b), VNotif b).

Lemma range_char cfg h start :
  Inv cfg h -> h_next h <= TWO62 -> h_lo h <= start -> 0 <= start < TWO63 ->
  kv_range (st_kv (h_st h)) (Some (notification_key start)) (Some last_notification_key)
  = map nbkv (filter (fun b => start <=? nb_offset b) (h_log h)).
Proof.
  intros I Hn Hlo Hst. pose proof TWO62_lt as H62.
  pose proof (i_range _ _ I) as R. rewrite Forall_forall in R.
  apply (sorted_ext (klt cmp_slash value)).
  - intros x C. unfold klt in C. rewrite cmp_slash_refl in C. discriminate.
  - intros x y C1 C2. unfold klt in *. rewrite cmp_slash_antisym, C1 in C2. discriminate.
  - apply kv_range_sorted. apply (i_wf _ _ I).
  - apply (sorted_map off_lt); [|apply sorted_filter; apply (i_sorted _ _ I)].
    intros x y Hx Hy Hxy. apply filter_In in Hx. apply filter_In in Hy. destruct Hx as [Hx _]. destruct Hy as [Hy _].
    unfold klt, nbkv. simpl. pose proof (R x Hx). pose proof (R y Hy). unfold off_lt in Hxy.
    rewrite cmp_nk by (unfold TWO62, TWO63 in *; lia). apply Z.compare_lt_iff. exact Hxy.
  - intros [k v]. split.
    + intro Hin. pose proof Hin as Hin2. unfold kv_range, sm_range in Hin2. apply filter_In in Hin2. destruct Hin2 as [_ Hr].
      change last_notification_key with (notification_key 9223372036854775807) in Hin.
      destruct (range_entries _ _ _ _ _ _ I ltac:(lia) Hin) as [x [Hx [-> [-> Bx]]]].
      simpl in Hr. change last_notification_key with (notification_key 9223372036854775807) in Hr.
      fold (key_in_range (Some (notification_key start)) (Some (notification_key 9223372036854775807)) (notification_key (nb_offset x))) in Hr.
      rewrite nk_in_range in Hr by (unfold TWO63 in *; lia). apply andb_true_iff in Hr. destruct Hr as [Hr _].
      apply in_map_iff. exists x. split; [reflexivity|]. apply filter_In. split; assumption.
    + intro Hin. apply in_map_iff in Hin. destruct Hin as [x [E Hx]]. apply filter_In in Hx. destruct Hx as [Hx Hs].
      unfold nbkv in E. inversion E; subst k v; clear E. apply Z.leb_le in Hs. pose proof (R x Hx) as Rx.
      unfold kv_range, sm_range. apply filter_In. split.
      * apply kv_get_in; [apply (i_wf _ _ I)|]. apply (i_kept _ _ I); [exact Hx|lia].
      * simpl. change last_notification_key with (notification_key 9223372036854775807).
        fold (key_in_range (Some (notification_key start)) (Some (notification_key 9223372036854775807)) (notification_key (nb_offset x))).
        rewrite nk_in_range by (unfold TWO62, TWO63 in *; lia).
        apply andb_true_iff. split; [apply Z.leb_le; lia|apply Z.ltb_lt; unfold TWO62 in *; lia].
Qed.

Lemma fold_batches l :
  fold_right (fun (kv : key * value) acc =>
                match acc with
                | Err e => Err e
                | Ok l => match snd kv with VNotif b => Ok (b :: l) | VRecord _ => Err EDeserialize end
                end) (Ok []) (map nbkv l) = Ok l.
Proof. induction l as [|b l IH]; simpl; [reflexivity|]. rewrite IH. reflexivity. Qed.

Lemma kv_bound_nk o : kv_bound (notification_key o) = Some (notification_key o).
Proof. reflexivity. Qed.

Theorem read_batches_char cfg h start :
  Inv cfg h -> h_next h <= TWO62 -> h_lo h <= start -> 0 <= start < TWO63 ->
  read_notification_batches (st_kv (h_st h)) start = Ok (filter (fun b => start <=? nb_offset b) (h_log h)).
Proof.
  intros I Hn Hlo Hst. unfold read_notification_batches. rewrite kv_bound_nk.
  change (kv_bound last_notification_key) with (Some last_notification_key).
  rewrite (range_char cfg h start I Hn Hlo Hst). apply fold_batches.
Qed.

(* ---------------------------------------------------------------- the dispatch loop *)
Definition above (from : Z) (l : list nbatch) : list nbatch := filter (fun b => from <? nb_offset b) l.

Lemma last_offset_last bs d : last_offset bs d = last (map nb_offset bs) d.
Proof.
  unfold last_offset. induction bs as [|x l IH] using rev_ind; [reflexivity|].
  rewrite rev_app_distr. simpl. rewrite map_app. simpl. rewrite last_last. reflexivity.
Qed.

Lemma above_app from l1 l2 : above from (l1 ++ l2) = above from l1 ++ above from l2.
Proof. apply filter_app. Qed.

Lemma above_le_filter from l : filter (fun b => from + 1 <=? nb_offset b) l = above from l.
Proof.
  unfold above. apply filter_ext. intro b.
  destruct (from + 1 <=? nb_offset b) eqn:E1, (from <? nb_offset b) eqn:E2; try reflexivity;
    [apply Z.leb_le in E1; apply Z.ltb_ge in E2; lia|apply Z.leb_gt in E1; apply Z.ltb_lt in E2; lia].
Qed.

Lemma above_nil_iff from l : StronglySorted off_lt l -> (above from l = [] <-> last_off l <= from \/ l = []).
Proof.
  intro Hs. split.
  - intro H. destruct l as [|a l']; [right; reflexivity|left].
    destruct (last_off_in (a :: l') ltac:(discriminate)) as [b [Hb E]].
    destruct (Z.ltb_spec from (nb_offset b)) as [Hlt|Hge]; [|lia].
    exfalso. assert (Hin : In b (above from (a :: l'))) by (apply filter_In; split; [exact Hb|apply Z.ltb_lt; exact Hlt]).
    rewrite H in Hin. exact Hin.
  - intros [H| ->]; [|reflexivity]. unfold above.
    destruct (filter (fun b => from <? nb_offset b) l) as [|x tl] eqn:F; [reflexivity|].
    assert (Hx : In x (filter (fun b => from <? nb_offset b) l)) by (rewrite F; left; reflexivity).
    apply filter_In in Hx. destruct Hx as [Hx1 Hx2]. apply Z.ltb_lt in Hx2.
    pose proof (last_off_max l Hs x Hx1). lia.
Qed.

Lemma last_above from l :
  StronglySorted off_lt l -> from < last_off l -> l <> [] -> last (map nb_offset (above from l)) from = last_off l.
Proof.
  intros Hs Hlt Hne. destruct (exists_last Hne) as [l' [x ->]]. rewrite last_off_snoc in *.
  rewrite above_app. simpl. replace (from <? nb_offset x) with true by (symmetry; apply Z.ltb_lt; exact Hlt).
  rewrite map_app. simpl. apply last_last.
Qed.

Theorem dispatch_char cfg h from fuel :
  Inv cfg h -> h_next h <= TWO62 -> h_lo h <= from + 1 -> -1 <= from < TWO62 ->
  dispatch (S (S fuel)) (h_st h) from =
  (above from (h_log h), DWait (match above from (h_log h) with [] => from | _ => last_off (h_log h) end)).
Proof.
  intros I Hn Hlo Hf. pose proof TWO62_lt as H62.
  pose proof (last_off_bound _ _ (i_range _ _ I) (i_next _ _ I)) as Hlb.
  assert (Hblocked : forall x fu, last_off (h_log h) <= x -> x < TWO62 -> -1 <= x ->
            dispatch (S fu) (h_st h) x = ([], DWait x)).
  { intros x fu Hx Hx2 Hx3. cbn [dispatch]. rewrite wrap64_small by (unfold TWO63, TWO62 in *; lia).
    unfold read_next_notifications. rewrite (i_notif _ _ I). simpl. rewrite (i_last _ _ I).
    replace (last_off (h_log h) <? x + 1) with true by (symmetry; apply Z.ltb_lt; lia). reflexivity. }
  destruct (Z_le_gt_dec (last_off (h_log h)) from) as [Hle|Hgt].
  - assert (E : above from (h_log h) = []) by (apply above_nil_iff; [apply (i_sorted _ _ I)|left; exact Hle]).
    rewrite E. apply Hblocked; lia.
  - assert (Hne : h_log h <> []) by (intro E; rewrite E in Hgt; unfold last_off in Hgt; simpl in Hgt; lia).
    assert (Hab : above from (h_log h) <> []).
    { intro E. apply above_nil_iff in E; [|apply (i_sorted _ _ I)]. destruct E as [E|E]; [lia|contradiction]. }
    cbn [dispatch]. rewrite wrap64_small by (unfold TWO63, TWO62 in *; lia).
    unfold read_next_notifications. rewrite (i_notif _ _ I). simpl. rewrite (i_last _ _ I).
    replace (last_off (h_log h) <? from + 1) with false by (symmetry; apply Z.ltb_ge; lia).
    rewrite (read_batches_char cfg h (from + 1) I Hn Hlo) by (unfold TWO63, TWO62 in *; lia).
    rewrite above_le_filter.
    pose proof (last_above from (h_log h) (i_sorted _ _ I) ltac:(lia) Hne) as LA.
    remember (above from (h_log h)) as ab eqn:A. destruct ab as [|b0 tl]; [contradiction|].
    rewrite last_offset_last, LA.
    rewrite (wrap64_small (last_off (h_log h) + 1)) by (unfold TWO63, TWO62 in *; lia).
    replace (last_off (h_log h) <? last_off (h_log h) + 1) with true by (symmetry; apply Z.ltb_lt; lia).
    rewrite app_nil_r. reflexivity.
Qed.

(* what a subscriber connected at [from] receives from a quiescent store, spelled out *)
Theorem dispatch_facts cfg h from fuel :
  Inv cfg h -> h_next h <= TWO62 -> h_lo h <= from + 1 -> -1 <= from < TWO62 ->
  let D := fst (dispatch (S (S fuel)) (h_st h) from) in
  StronglySorted off_lt D /\                                              (* strictly increasing offsets: ordered, no duplicate *)
  (forall b, In b D -> In b (h_log h) /\ from < nb_offset b) /\          (* only batches of committed requests above [from] *)
  (forall b, In b D -> nb_offset b <= last_off (h_log h)) /\
  read_commit_offset (h_st h) = Ok (last_off (h_log h)) /\               (* ... never above the applied commit offset *)
  (forall o, from < o < h_next h -> In o (map nb_offset D) \/ In o (h_failed h)) /\   (* no gap *)
  exists stop, snd (dispatch (S (S fuel)) (h_st h) from) = DWait stop.    (* then the loop waits for the next commit *)
Proof.
  intros I Hn Hlo Hf. cbn zeta. rewrite (dispatch_char cfg h from fuel I Hn Hlo Hf). cbn [fst snd].
  split; [apply sorted_filter, (i_sorted _ _ I)|].
  split; [intros b Hb; apply filter_In in Hb; destruct Hb as [H1 H2]; apply Z.ltb_lt in H2; split; assumption|].
  split; [intros b Hb; apply filter_In in Hb; apply last_off_max; [apply (i_sorted _ _ I)|apply Hb]|].
  split; [apply (i_commit _ _ I)|].
  split; [|eexists; reflexivity].
  intros o Ho. destruct (i_cover _ _ I o ltac:(lia)) as [[b [Hb1 Hb2]]|Hfail]; [left|right; exact Hfail].
  apply in_map_iff. exists b. split; [exact Hb2|]. apply filter_In. split; [exact Hb1|apply Z.ltb_lt; lia].
Qed.

(* ---------------------------------------------------------------- resuming *)
Lemma hstep_log_prefix cfg h op : exists nw, h_log (hstep cfg h op) = h_log h ++ nw.
Proof.
  destruct op as [req ts|now ret|]; simpl.
  - destruct (process_write wrapper_callbacks cfg (h_st h) req (h_next h) ts) as [st' [resp|e]]; simpl;
      [eexists; reflexivity|exists []; rewrite app_nil_r; reflexivity].
  - destruct (trim (h_st h) now ret); exists []; rewrite app_nil_r; reflexivity.
  - destruct (reopen (persist (h_st h))); exists []; rewrite app_nil_r; reflexivity.
Qed.

Lemma frun_log_prefix cfg ops : forall h, exists nw, h_log (fold_left (hstep cfg) ops h) = h_log h ++ nw.
Proof.
  induction ops as [|op ops IH]; intro h; simpl; [exists []; rewrite app_nil_r; reflexivity|].
  destruct (IH (hstep cfg h op)) as [n2 E2]. destruct (hstep_log_prefix cfg h op) as [n1 E1].
  exists (n1 ++ n2). rewrite E2, E1, app_assoc. reflexivity.
Qed.

Lemma sorted_app_inv {A} (R : A -> A -> Prop) l1 l2 :
  StronglySorted R (l1 ++ l2) -> StronglySorted R l1 /\ StronglySorted R l2 /\ forall a b, In a l1 -> In b l2 -> R a b.
Proof.
  induction l1 as [|x l1 IH]; simpl; intro H.
  - split; [constructor|]. split; [exact H|]. intros a b [].
  - inversion H as [|? ? Hs Hf]; subst. destruct (IH Hs) as [S1 [S2 Hc]]. apply Forall_app in Hf. destruct Hf as [F1 F2].
    split; [constructor; assumption|]. split; [exact S2|].
    intros a b [<-|Ha] Hb; [rewrite Forall_forall in F2; apply F2, Hb|apply Hc; assumption].
Qed.

Lemma above_above from l L : from <= l -> above l (above from L) = above l L.
Proof.
  intro H. unfold above. induction L as [|b L IH]; simpl; [reflexivity|].
  destruct (from <? nb_offset b) eqn:E1; simpl; destruct (l <? nb_offset b) eqn:E2; try rewrite IH; try reflexivity.
  apply Z.ltb_ge in E1. apply Z.ltb_lt in E2. lia.
Qed.

Lemma above_all l B : (forall b, In b B -> l < nb_offset b) -> above l B = B.
Proof.
  intro H. unfold above. induction B as [|b B IH]; simpl; [reflexivity|].
  replace (l <? nb_offset b) with true by (symmetry; apply Z.ltb_lt; apply H; left; reflexivity).
  f_equal. apply IH. intros x Hx. apply H. right. exact Hx.
Qed.

Lemma above_none l A : (forall b, In b A -> nb_offset b <= l) -> above l A = [].
Proof.
  intro H. unfold above. induction A as [|b A IH]; simpl; [reflexivity|].
  replace (l <? nb_offset b) with false by (symmetry; apply Z.ltb_ge; apply H; left; reflexivity).
  apply IH. intros x Hx. apply H. right. exact Hx.
Qed.

(* cutting the sorted list of batches above [from] after the last one seen *)
Lemma above_split L from A B :
  StronglySorted off_lt L -> above from L = A ++ B -> above (last_offset A from) L = B.
Proof.
  intros Hs E. assert (Hs' : StronglySorted off_lt (A ++ B)) by (rewrite <- E; apply sorted_filter, Hs).
  destruct A as [|a A'] using rev_ind; [simpl in *; exact E|]. clear IHA'.
  unfold last_offset. rewrite rev_app_distr. simpl.
  assert (Hx : from < nb_offset a).
  { assert (Hin : In a (above from L)) by (rewrite E; apply in_or_app; left; apply in_or_app; right; left; reflexivity).
    apply filter_In in Hin. apply Z.ltb_lt, Hin. }
  rewrite <- (above_above from (nb_offset a) L) by lia. rewrite E.
  destruct (sorted_app_inv _ _ _ Hs') as [SA [SB Hc]].
  rewrite above_app. rewrite above_none, above_all; [reflexivity| |].
  - intros b Hb. apply (Hc a b); [apply in_or_app; right; left; reflexivity|exact Hb].
  - intros b Hb. apply in_app_or in Hb. destruct Hb as [Hb|[<-|[]]]; [|lia].
    apply sorted_snoc in SA. destruct SA as [_ F]. rewrite Forall_forall in F. specialize (F b Hb). unfold off_lt in F. lia.
Qed.

Lemma last_offset_bound A from hi :
  Forall (fun b => 0 <= nb_offset b < hi) A -> -1 <= from < hi -> -1 <= last_offset A from < hi.
Proof.
  intros H Hf. unfold last_offset. destruct (rev A) as [|x tl] eqn:R; [exact Hf|].
  assert (Hin : In x A) by (apply in_rev; rewrite R; left; reflexivity).
  rewrite Forall_forall in H. specialize (H x Hin). lia.
Qed.

Lemma in_firstn {A} k : forall (l : list A) x, In x (firstn k l) -> In x l.
Proof.
  induction k as [|k IH]; intros l x H; [contradiction|]. destruct l as [|a l]; [contradiction|].
  simpl in H. destruct H as [->|H]; [left; reflexivity|right; apply IH, H].
Qed.

(* A subscriber that has seen the first [k] batches of a connection started at [from] and reconnects with the
   last offset it saw — to the same store or to any later state of it (more requests applied, trimming rounds,
   re-opened by a restarted node or a new leader) — receives exactly the rest: what it saw before and what it
   gets now is, in order and without repetition, every committed batch above [from] of the later log.
   The hypothesis [h_lo h2 <= l + 1] is "the batches after the last one seen are still retained". *)
Theorem resume_char cfg ops1 ops2 from k fuel :
  ops_user (ops1 ++ ops2) -> ops_small (ops1 ++ ops2) ->
  let h1 := hrun cfg ops1 in
  let h2 := hrun cfg (ops1 ++ ops2) in
  h_lo h1 <= from + 1 -> -1 <= from < TWO62 ->
  let seen := firstn k (fst (dispatch (S (S fuel)) (h_st h1) from)) in
  let l := last_offset seen from in
  h_lo h2 <= l + 1 ->
  seen ++ fst (dispatch (S (S fuel)) (h_st h2) l) = above from (h_log h2) /\
  (exists nw, h_log h2 = h_log h1 ++ nw).
Proof.
  intros Hu Hs. cbn zeta. intros Hlo1 Hf Hlo2.
  assert (Hu1 : ops_user ops1) by (unfold ops_user in *; apply Forall_app in Hu; apply Hu).
  destruct (inv_run cfg ops1 Hu1 (ops_small_app _ _ Hs)) as [I1 [N1 _]].
  destruct (inv_run cfg (ops1 ++ ops2) Hu Hs) as [I2 [N2 _]].
  assert (B1 : h_next (hrun cfg ops1) <= TWO62) by (rewrite N1; destruct Hs as [Hs _]; rewrite ops_writes_app in Hs; lia).
  assert (B2 : h_next (hrun cfg (ops1 ++ ops2)) <= TWO62) by (rewrite N2; destruct Hs as [Hs _]; lia).
  rewrite (dispatch_char cfg _ from fuel I1 B1 Hlo1 Hf) in *. cbn [fst] in *.
  destruct (frun_log_prefix cfg ops2 (hrun cfg ops1)) as [nw E]. rewrite <- hrun_app in E.
  split; [|exists nw; exact E].
  set (seen := firstn k (above from (h_log (hrun cfg ops1)))) in *.
  assert (Hseen : Forall (fun b => 0 <= nb_offset b < TWO62) seen).
  { apply Forall_forall. intros b Hb. apply in_firstn in Hb. apply filter_In in Hb. destruct Hb as [Hb _].
    pose proof (i_range _ _ I1) as R. rewrite Forall_forall in R. specialize (R b Hb). lia. }
  pose proof (last_offset_bound seen from TWO62 Hseen Hf) as Hl.
  rewrite (dispatch_char cfg _ _ fuel I2 B2 Hlo2 Hl). cbn [fst].
  assert (Esplit : above from (h_log (hrun cfg (ops1 ++ ops2))) =
                   seen ++ (skipn k (above from (h_log (hrun cfg ops1))) ++ above from nw)).
  { rewrite E, above_app, app_assoc. unfold seen. rewrite firstn_skipn. reflexivity. }
  rewrite (above_split _ _ _ _ (i_sorted _ _ I2) Esplit). symmetry. exact Esplit.
Qed.

(* ---------------------------------------------------------------- one batch per committed request *)
Lemma stored_batch_log cfg h o b :
  Inv cfg h -> stored_batch (h_st h) o = Some b ->
  In b (h_log h) /\ notification_key o = notification_key (nb_offset b).
Proof.
  intros I H. unfold stored_batch in H.
  destruct (kv_get (st_kv (h_st h)) (notification_key o)) as [[e|b']|] eqn:G; try discriminate. inversion H; subst b'.
  destruct (i_stored _ _ I _ _ G (notif_class_nk o)) as [x [Hx [E1 E2]]]. inversion E2; subst x. split; assumption.
Qed.

(* the content of the batch of the request applied next, against the specification *)
Theorem batch_of_request cfg h req ts st' resp :
  Inv cfg h -> user_request req -> Z.of_nat (h_puts h + length (w_puts req)) < TWO63 ->
  process_write wrapper_callbacks cfg (h_st h) req (h_next h) ts = (st', Ok resp) ->
  exists nm,
    stored_batch st' (h_next h) = Some (mkNBatch (cfg_shard cfg) (h_next h) ts nm) /\
    NoDup (map fst nm) /\
    (forall k, nm_get nm k = changes (abs_state (h_st h)) req (map seq_choice_of (wr_puts resp)) ts k) /\
    (forall k n, nm_get nm k = Some n -> is_internal k = false).
Proof.
  intros I Hu Hp P. destruct I. rewrite Nat2Z.inj_add in Hp.
  destruct i_ver0 as [pv [Hpv [[Hpv1 Hpv2] Hmod]]].
  destruct (batch_step _ _ _ _ _ _ _ i_wf0 Hu i_notif0 P) as [[nm [G [Hd Hg]]] _].
  destruct (refines_spec _ _ _ _ _ _ _ i_wf0 Hu P) as [s' [Sw _]].
  assert (Mok : mod_ok (abs_state (h_st h))).
  { split; simpl; [lia|]. intros k e E. destruct (Hmod k e E). lia. }
  assert (Hb : s_last (abs_state (h_st h)) + Z.of_nat (length (w_puts req)) < TWO63) by (simpl; lia).
  destruct (changes_of_spec_resp _ _ _ _ _ _ Sw Mok Hb) as [Ec _].
  exists nm. split; [unfold stored_batch; rewrite G; reflexivity|]. split; [exact Hd|].
  split; [intro k; rewrite Hg; apply Ec|].
  intros k n E. rewrite Hg in E. eapply resp_changes_clean. exact E.
Qed.

Theorem history_batches cfg ops :
  ops_user ops -> ops_small ops ->
  let h := hrun cfg ops in
  Forall2 (batch_matches cfg) (h_log h) (h_spec h) /\
  StronglySorted off_lt (h_log h) /\
  (forall o, 0 <= o < h_next h -> (exists b, In b (h_log h) /\ nb_offset b = o) \/ In o (h_failed h)) /\
  (forall o, In o (h_failed h) -> 0 <= o < h_next h /\ stored_batch (h_st h) o = None /\
                                  ~ exists b, In b (h_log h) /\ nb_offset b = o) /\
  (forall b, In b (h_log h) -> 0 <= nb_offset b < h_next h) /\
  (forall o b, 0 <= o < TWO63 -> stored_batch (h_st h) o = Some b -> In b (h_log h) /\ nb_offset b = o) /\
  (forall b, In b (h_log h) -> h_lo h <= nb_offset b -> stored_batch (h_st h) (nb_offset b) = Some b).
Proof.
  intros Hu Hs. cbn zeta. destruct (inv_run cfg ops Hu Hs) as [I [Hn _]].
  assert (Hn62 : h_next (hrun cfg ops) < TWO62) by (rewrite Hn; apply Hs).
  pose proof TWO62_lt as H62. pose proof (i_range _ _ I) as R. rewrite Forall_forall in R.
  split; [apply (i_spec _ _ I)|]. split; [apply (i_sorted _ _ I)|]. split; [apply (i_cover _ _ I)|].
  split; [|split; [exact R|split]].
  - intros o Hf. destruct (i_failed _ _ I o Hf) as [Hr Hno]. split; [exact Hr|]. split; [|exact Hno].
    destruct (stored_batch (h_st (hrun cfg ops)) o) as [b|] eqn:S; [|reflexivity].
    exfalso. destruct (stored_batch_log _ _ _ _ I S) as [Hb E]. apply Hno. exists b. split; [exact Hb|].
    symmetry. apply nk_inj; [unfold TWO63 in *; lia|pose proof (R b Hb); unfold TWO62, TWO63 in *; lia|exact E].
  - intros o b Ho S. destruct (stored_batch_log _ _ _ _ I S) as [Hb E]. split; [exact Hb|].
    symmetry. apply nk_inj; [unfold TWO63 in *; lia|pose proof (R b Hb); unfold TWO62, TWO63 in *; lia|exact E].
  - intros b Hb Hlo. unfold stored_batch. rewrite (i_kept _ _ I b Hb Hlo). reflexivity.
Qed.

(* ---------------------------------------------------------------- the trimmer *)
Definition ts_ms (b : nbatch) : Z := wrap64 (Z.of_N (nb_ts b)).
Definition ts_monotone (l : list nbatch) : Prop :=
  forall a b, In a l -> In b l -> nb_offset a <= nb_offset b -> ts_ms a <= ts_ms b.

Lemma bsearch_expired fuel m : forall f l c t,
  bsearch fuel m f l c = inl t -> (exists x, ts_at m f = inl x /\ x <= c) -> exists x, ts_at m t = inl x /\ x <= c.
Proof.
  induction fuel as [|fu IH]; intros f l c t H Hf.
  - simpl in H. destruct (f <? l); [discriminate|]. inversion H; subst. exact Hf.
  - cbn [bsearch] in H. destruct (f <? l); [|inversion H; subst; exact Hf].
    match type of H with context [ts_at m ?x] => set (med := x) in * end.
    destruct (ts_at m med) as [tm|e] eqn:T; [|discriminate].
    destruct (c <? tm) eqn:C.
    + eapply IH; [exact H|exact Hf].
    + eapply IH; [exact H|]. exists tm. split; [exact T|apply Z.ltb_ge; exact C].
Qed.

Lemma trim_unfold cfg h now retention t st' :
  Inv cfg h -> h_next h < TWO62 -> trim (h_st h) now retention = TrTrimmed t st' ->
  exists bf tl,
    In bf (h_log h) /\
    kv_range (st_kv (h_st h)) (Some first_notification_key) (Some last_notification_key) = (notification_key (nb_offset bf), VNotif bf) :: tl /\
    nb_offset bf <= t < TWO62 /\
    (exists x, ts_at (st_kv (h_st h)) t = inl x /\ x <= now - retention) /\
    st' = mkState (kv_del_range (st_kv (h_st h)) (Some (notification_key (nb_offset bf))) (Some (notification_key (t + 1))))
                  (st_ver (h_st h)) (st_notif (h_st h)) (st_notif_last (h_st h)).
Proof.
  intros I Hn H. pose proof TWO62_lt as H62.
  destruct (trim_shape _ _ _ _ _ _ I Hn H) as [bf0 [bl [Hbf0 [Hbl [FL [Ht Est]]]]]].
  pose proof (i_range _ _ I) as R. rewrite Forall_forall in R.
  unfold trim in H. rewrite FL in H. unfold first_last in FL.
  destruct (kv_range (st_kv (h_st h)) (Some first_notification_key) (Some last_notification_key)) as [|[k1 v1] tl] eqn:RG; [discriminate|].
  assert (H1 : In (k1, v1) (kv_range (st_kv (h_st h)) (Some (notification_key 0)) (Some (notification_key 9223372036854775807))))
    by (change (notification_key 0) with first_notification_key; change (notification_key 9223372036854775807) with last_notification_key;
        rewrite RG; left; reflexivity).
  destruct (range_entries _ _ _ _ _ _ I ltac:(lia) H1) as [bf [Hbf [E1 [E2 B1]]]]. subst k1 v1.
  rewrite parse_notification_key_nk in FL by (unfold TWO63 in *; lia).
  destruct (parse_notification_key (fst (last tl (notification_key (nb_offset bf), empty_value)))) as [lst|e]; [|discriminate].
  assert (Ef : nb_offset bf = nb_offset bf0) by (inversion FL; reflexivity).
  destruct (nb_offset bl =? -1); [discriminate|].
  destruct (ts_at (st_kv (h_st h)) (nb_offset bf0)) as [tf|e] eqn:TF; [|discriminate].
  destruct (now - retention <? tf) eqn:C; [discriminate|]. apply Z.ltb_ge in C.
  destruct (bsearch 70 (st_kv (h_st h)) (nb_offset bf0) (nb_offset bl) (now - retention)) as [t0|e] eqn:B; [|discriminate].
  injection H as Et0 _. subst t0.
  exists bf, tl. split; [exact Hbf|]. split; [reflexivity|].
  pose proof (R bf0 Hbf0). pose proof (R bl Hbl).
  split; [rewrite Ef; lia|]. split.
  - eapply bsearch_expired; [exact B|]. exists tf. split; [exact TF|exact C].
  - rewrite Ef. exact Est.
Qed.

(* The round removes a whole prefix of the stored batches (those at or below [t], nothing above), and, when
   timestamps do not decrease with the offset, only batches older than the retention. *)
Theorem trim_char cfg h now retention t st' :
  Inv cfg h -> h_next h < TWO62 -> trim (h_st h) now retention = TrTrimmed t st' ->
  (forall b, In b (h_log h) -> stored_batch (h_st h) (nb_offset b) = Some b ->
             stored_batch st' (nb_offset b) = if nb_offset b <=? t then None else Some b) /\
  (ts_monotone (h_log h) ->
   forall b, In b (h_log h) -> stored_batch (h_st h) (nb_offset b) = Some b -> nb_offset b <= t ->
             ts_ms b <= now - retention).
Proof.
  intros I Hn T. pose proof TWO62_lt as H62.
  destruct (trim_unfold _ _ _ _ _ _ I Hn T) as [bf [tl [Hbf [RG [Ht [[x [Tx Hx]] ->]]]]]].
  pose proof (i_range _ _ I) as R. rewrite Forall_forall in R. pose proof (R bf Hbf) as Rf.
  assert (Hs : sorted (st_kv (h_st h))) by apply (i_wf _ _ I).
  (* the first key of the scan is the least stored offset *)
  assert (Hmin : forall b, In b (h_log h) -> stored_batch (h_st h) (nb_offset b) = Some b -> nb_offset bf <= nb_offset b).
  { intros b Hb S. pose proof (R b Hb) as Rb. unfold stored_batch in S.
    destruct (kv_get (st_kv (h_st h)) (notification_key (nb_offset b))) as [[e|b']|] eqn:G; try discriminate.
    inversion S; subst b'. apply kv_get_in in G; [|exact Hs].
    assert (Hin : In (notification_key (nb_offset b), VNotif b)
                     (kv_range (st_kv (h_st h)) (Some first_notification_key) (Some last_notification_key))).
    { unfold kv_range, sm_range. apply filter_In. split; [exact G|]. simpl.
      change first_notification_key with (notification_key 0). change last_notification_key with (notification_key 9223372036854775807).
      fold (key_in_range (Some (notification_key 0)) (Some (notification_key 9223372036854775807)) (notification_key (nb_offset b))).
      rewrite nk_in_range by (unfold TWO62, TWO63 in *; lia).
      apply andb_true_iff. split; [apply Z.leb_le; lia|apply Z.ltb_lt; unfold TWO62 in *; lia]. }
    rewrite RG in Hin. destruct Hin as [E|Hin]; [injection E as _ E2; rewrite E2; lia|].
    pose proof (kv_range_sorted (st_kv (h_st h)) (Some first_notification_key) (Some last_notification_key) Hs) as Srt.
    rewrite RG in Srt. inversion Srt as [|? ? _ F]; subst. rewrite Forall_forall in F. specialize (F _ Hin).
    unfold klt in F. simpl in F. rewrite cmp_nk in F by (unfold TWO62, TWO63 in *; lia).
    rewrite Z.compare_lt_iff in F. lia. }
  split.
  - intros b Hb S. pose proof (R b Hb) as Rb. pose proof (Hmin b Hb S) as Hm.
    unfold stored_batch in *. cbn [st_kv]. rewrite kv_get_del_range by exact Hs.
    rewrite nk_in_range by (unfold TWO62, TWO63 in *; lia).
    replace (nb_offset bf <=? nb_offset b) with true by (symmetry; apply Z.leb_le; exact Hm). cbn [andb].
    destruct (nb_offset b <=? t) eqn:E.
    + apply Z.leb_le in E. replace (nb_offset b <? t + 1) with true by (symmetry; apply Z.ltb_lt; lia). reflexivity.
    + apply Z.leb_gt in E. replace (nb_offset b <? t + 1) with false by (symmetry; apply Z.ltb_ge; lia). exact S.
  - intros Hmono b Hb S Hle. pose proof (R b Hb) as Rb.
    unfold ts_at in Tx. destruct (kv_get (st_kv (h_st h)) (notification_key t)) as [[e|bt]|] eqn:G; try discriminate.
    inversion Tx; subst x. destruct (i_stored _ _ I _ _ G (notif_class_nk t)) as [y [Hy [E1 E2]]]. inversion E2; subst y.
    pose proof (R bt Hy) as Rt.
    assert (Et : t = nb_offset bt) by (apply nk_inj; [unfold TWO62, TWO63 in *; lia|unfold TWO62, TWO63 in *; lia|exact E1]).
    specialize (Hmono b bt Hb Hy ltac:(lia)). unfold ts_ms in *. lia.
Qed.

(* ---------------------------------------------------------------- retention: what the low-water mark means *)
Definition trims_of (ops : list hop) : list (Z * Z) :=
  fold_right (fun op acc => match op with HTrim now ret => (now, ret) :: acc | _ => acc end) [] ops.

Lemma trims_of_app a b : trims_of (a ++ b) = trims_of a ++ trims_of b.
Proof. induction a as [|op a IH]; simpl; [reflexivity|]. destruct op; rewrite IH; reflexivity. Qed.

Lemma ts_monotone_prefix l nw : ts_monotone (l ++ nw) -> ts_monotone l.
Proof. intros H a b Ha Hb. apply H; apply in_or_app; left; assumption. Qed.

(* with timestamps non-decreasing in the offset, a committed batch is below the low-water mark only if some
   trimming round found it older than the retention *)
Theorem lo_means_expired cfg ops :
  ops_user ops -> ops_small ops -> ts_monotone (h_log (hrun cfg ops)) ->
  forall b, In b (h_log (hrun cfg ops)) -> nb_offset b < h_lo (hrun cfg ops) ->
  exists now ret, In (now, ret) (trims_of ops) /\ ts_ms b <= now - ret.
Proof.
  induction ops as [|op ops IH] using rev_ind; intros Hu Hs Hm b Hb Hlt.
  - simpl in Hb. contradiction.
  - unfold ops_user in Hu. apply Forall_app in Hu. destruct Hu as [Hu1 Hu2].
    pose proof (ops_small_app _ _ Hs) as Hs1.
    destruct (inv_run cfg ops Hu1 Hs1) as [I [Hn _]].
    assert (Hn62 : h_next (hrun cfg ops) < TWO62) by (rewrite Hn; apply Hs1).
    rewrite hrun_snoc in *. rewrite trims_of_app.
    assert (Hlift : (exists now ret, In (now, ret) (trims_of ops) /\ ts_ms b <= now - ret) ->
                    exists now ret, In (now, ret) (trims_of ops ++ trims_of [op]) /\ ts_ms b <= now - ret).
    { intros [now [ret [H1 H2]]]. exists now, ret. split; [apply in_or_app; left; exact H1|exact H2]. }
    destruct (hstep_log_prefix cfg (hrun cfg ops) op) as [nw Enw].
    assert (Hm0 : ts_monotone (h_log (hrun cfg ops))) by (rewrite Enw in Hm; eapply ts_monotone_prefix; exact Hm).
    destruct op as [req ts|now ret|].
    + (* a write: the mark does not move; a new batch is at h_next, above the mark *)
      simpl in Hb, Hlt.
      destruct (process_write wrapper_callbacks cfg (h_st (hrun cfg ops)) req (h_next (hrun cfg ops)) ts) as [st' [resp|e]] eqn:P;
        simpl in Hb, Hlt.
      * apply in_app_or in Hb. destruct Hb as [Hb|Hb]; [apply Hlift, IH; assumption|].
        exfalso. destruct (stored_batch st' (h_next (hrun cfg ops))) as [b0|] eqn:S; [|contradiction].
        destruct Hb as [<-|[]].
        assert (I2 : Inv cfg (hstep cfg (hrun cfg ops) (HWrite req ts))).
        { inversion Hu2 as [|? ? Hop _]; subst. eapply inv_write_ok; [exact I|exact Hop|lia| |exact P].
          destruct (inv_run cfg ops Hu1 Hs1) as [_ [_ Hp]]. rewrite Hp. destruct Hs as [_ Hs2]. rewrite ops_puts_app in Hs2. simpl in Hs2. lia. }
        unfold hstep in I2. rewrite P, S in I2.
        pose proof (i_sorted _ _ I2) as Srt. cbn [h_log] in Srt. apply sorted_snoc in Srt.
        pose proof (i_kept _ _ I2 b0) as K. cbn [h_log h_lo h_st] in K.
        pose proof (i_range _ _ I2) as R2. cbn [h_log h_next] in R2. apply Forall_app in R2. destruct R2 as [_ R2].
        inversion R2 as [|? ? Rb _]; subst.
        (* b0 is the batch stored under h_next; its offset is h_next, which is not below the mark *)
        unfold stored_batch in S. destruct (kv_get (st_kv st') (notification_key (h_next (hrun cfg ops)))) as [[e0|bb]|] eqn:G; try discriminate.
        inversion S; subst bb.
        destruct (i_stored _ _ I2 _ _ G (notif_class_nk _)) as [y [Hy [E1 E2]]]. inversion E2; subst y.
        pose proof TWO62_lt. pose proof (i_next _ _ I).
        assert (h_next (hrun cfg ops) = nb_offset b0) by (apply nk_inj; [unfold TWO62, TWO63 in *; lia|unfold TWO62, TWO63 in *; lia|exact E1]).
        pose proof (i_lo _ _ I). lia.
      * apply Hlift, IH; assumption.
    + simpl in Hb, Hlt. destruct (trim (h_st (hrun cfg ops)) now ret) as [|t st'|e] eqn:T; simpl in Hb, Hlt;
        try (apply Hlift, IH; assumption).
      destruct (Z_lt_ge_dec (nb_offset b) (h_lo (hrun cfg ops))) as [Hold|Hnew]; [apply Hlift, IH; assumption|].
      exists now, ret. split; [apply in_or_app; right; left; reflexivity|].
      destruct (trim_char _ _ _ _ _ _ I Hn62 T) as [_ Hexp].
      apply (Hexp Hm0 b Hb); [|lia].
      unfold stored_batch. rewrite (i_kept _ _ I b Hb ltac:(lia)). reflexivity.
    + simpl in Hb, Hlt. destruct (reopen (persist (h_st (hrun cfg ops)))); simpl in Hb, Hlt; apply Hlift, IH; assumption.
Qed.

(* ---------------------------------------------------------------- the client *)
Definition evs_of (bs : list nbatch) : list (Z * list (key * notif)) := map (fun b => (nb_offset b, nb_notifs b)) bs.

Lemma last_offset_cons b bs d : last_offset (b :: bs) d = last_offset bs (nb_offset b).
Proof.
  unfold last_offset. simpl. destruct (rev bs) as [|x tl] eqn:R; simpl; [reflexivity|reflexivity].
Qed.

Lemma client_recv_all_init bs : forall c, cl_init c = true ->
  client_recv_all c bs = (mkClient (last_offset bs (cl_last c)) true, evs_of bs).
Proof.
  induction bs as [|b bs IH]; intros c Hc; simpl.
  - destruct c; simpl in *; subst; reflexivity.
  - rewrite Hc. rewrite (IH (mkClient (nb_offset b) true) eq_refl). simpl. rewrite last_offset_cons. reflexivity.
Qed.

Lemma serve_resume cfg st qc l : st_notif st = true -> serve cfg st qc (Some l) = dispatch 3 st l.
Proof. intro H. unfold serve, serve_start. rewrite H. cbn [negb]. destruct (dispatch 3 st l). reflexivity. Qed.

Lemma serve_first cfg st qc :
  st_notif st = true ->
  serve cfg st qc None = (mkNBatch (cfg_shard cfg) qc 0 [] :: fst (dispatch 3 st qc), snd (dispatch 3 st qc)).
Proof. intro H. unfold serve, serve_start. rewrite H. cbn [negb]. destruct (dispatch 3 st qc). reflexivity. Qed.

(* The repaired client.  First connection on a store at history [ops1]: it receives the dummy batch at [qc1] and
   [k1] real batches, then the stream breaks; second connection on the same or any later store: it receives
   [k2] more.  What it hands to the application is a prefix, in order, of all committed batches above its
   initial position, each exactly once — and this holds for [qc1 = -1] (empty shard) too. *)
Theorem client_resume cfg ops1 ops2 qc1 qc2 k1 k2 :
  ops_user (ops1 ++ ops2) -> ops_small (ops1 ++ ops2) ->
  let h1 := hrun cfg ops1 in
  let h2 := hrun cfg (ops1 ++ ops2) in
  h_lo h1 <= qc1 + 1 -> -1 <= qc1 < TWO62 ->
  let '(c1, ev1) := session client_request cfg (h_st h1) qc1 (S k1) client_new in
  h_lo h2 <= cl_last c1 + 1 ->
  let '(c2, ev2) := session client_request cfg (h_st h2) qc2 k2 c1 in
  exists seen rest,
    above qc1 (h_log h2) = seen ++ rest /\
    ev1 = evs_of seen /\ ev2 = evs_of (firstn k2 rest) /\
    cl_init c2 = true /\ cl_last c2 = last_offset (seen ++ firstn k2 rest) qc1.
Proof.
  intros Hu Hs. cbn zeta. intros Hlo1 Hq.
  assert (Hu1 : ops_user ops1) by (unfold ops_user in *; apply Forall_app in Hu; apply Hu).
  destruct (inv_run cfg ops1 Hu1 (ops_small_app _ _ Hs)) as [I1 _].
  destruct (inv_run cfg (ops1 ++ ops2) Hu Hs) as [I2 _].
  unfold session at 1. change (client_request client_new) with (@None Z). rewrite serve_first by apply (i_notif _ _ I1).
  cbn [firstn client_recv_all client_recv client_new cl_init app nb_offset].
  set (D1 := fst (dispatch 3 (h_st (hrun cfg ops1)) qc1)).
  rewrite (client_recv_all_init (firstn k1 D1) (mkClient qc1 true) eq_refl). cbn [cl_last].
  intro Hlo2.
  unfold session. cbn [client_request cl_init cl_last]. rewrite serve_resume by apply (i_notif _ _ I2).
  destruct (resume_char cfg ops1 ops2 qc1 k1 1 Hu Hs Hlo1 Hq Hlo2) as [E _]. fold D1 in E.
  destruct (dispatch 3 (h_st (hrun cfg (ops1 ++ ops2))) (last_offset (firstn k1 D1) qc1)) as [D2 stop2] eqn:Dd. cbn [fst] in E.
  rewrite (client_recv_all_init (firstn k2 D2) (mkClient (last_offset (firstn k1 D1) qc1) true) eq_refl). cbn [cl_last cl_init].
  exists (firstn k1 D1), D2. split; [symmetry; exact E|]. split; [reflexivity|]. split; [reflexivity|]. split; [reflexivity|].
  unfold last_offset. rewrite rev_app_distr.
  destruct (rev (firstn k2 D2)) as [|x tl]; [rewrite app_nil_l; reflexivity|reflexivity].
Qed.

(* ---------------------------------------------------------------- witnesses *)
Definition ex_cfg : config := mkConfig 7 100.
Definition put1 (k v : N) : write_req := mkWrite [mkPut [k] [v] None None None None [] []] [] [].
Definition ex_two : list hop := [HWrite (put1 97 1) 10; HWrite (put1 98 2) 20].

Lemma put1_user k v : is_internal [k] = false -> user_request (put1 k v).
Proof. intro H. split; [constructor; [exact H|constructor]|]. split; constructor. Qed.

Lemma ex_two_user : ops_user ([] ++ ex_two).
Proof. repeat constructor. Qed.
Lemma ex_two_small : ops_small ([] ++ ex_two).
Proof. split; reflexivity. Qed.

(* O-17, the code as found: "lastOffsetReceived >= 0" decides whether the request carries a start offset.
   A subscriber initialised on an EMPTY shard (dummy batch at offset -1) whose stream breaks before the first
   real batch reconnects without a start offset: the server positions it at the current commit offset (a second
   dummy batch, which the client now takes for a real, empty one) and the two requests committed in between are
   never delivered, although nothing was trimmed and the client believes it is caught up. *)
Theorem resume_empty_shard_refuted :
  exists cfg ops1 ops2 qc1 qc2,
    ops_user (ops1 ++ ops2) /\ ops_small (ops1 ++ ops2) /\
    let h1 := hrun cfg ops1 in
    let h2 := hrun cfg (ops1 ++ ops2) in
    let '(c1, ev1) := session client_request_o17 cfg (h_st h1) qc1 1 client_new in
    let '(c2, ev2) := session client_request_o17 cfg (h_st h2) qc2 10 c1 in
    h_lo h2 = 0 /\ qc1 = -1 /\ qc2 = last_off (h_log h2) /\ cl_last c2 = last_off (h_log h2) /\
    exists b, In b (h_log h2) /\ qc1 < nb_offset b <= cl_last c2 /\ nb_notifs b <> [] /\
              ~ In (nb_offset b, nb_notifs b) (ev1 ++ ev2).
Proof.
  exists ex_cfg, [], ex_two, (-1), 1. split; [exact ex_two_user|]. split; [exact ex_two_small|].
  cbn zeta.
  destruct (session client_request_o17 ex_cfg (h_st (hrun ex_cfg [])) (-1) 1 client_new) as [c1 ev1] eqn:S1.
  vm_compute in S1. inversion S1; subst c1 ev1; clear S1.
  destruct (session client_request_o17 ex_cfg (h_st (hrun ex_cfg ([] ++ ex_two))) 1 10 (mkClient (-1) true)) as [c2 ev2] eqn:S2.
  vm_compute in S2. inversion S2; subst c2 ev2; clear S2.
  assert (L : h_log (hrun ex_cfg ([] ++ ex_two)) =
              [mkNBatch 7 0 10 [([97%N], NCreated 0)]; mkNBatch 7 1 20 [([98%N], NCreated 1)]]) by (vm_compute; reflexivity).
  assert (Lo : h_lo (hrun ex_cfg ([] ++ ex_two)) = 0) by (vm_compute; reflexivity).
  rewrite L, Lo. cbn [cl_last].
  split; [reflexivity|]. split; [reflexivity|]. split; [reflexivity|]. split; [reflexivity|].
  exists (mkNBatch 7 0 10 [([97%N], NCreated 0)]). split; [left; reflexivity|]. cbn [nb_offset nb_notifs].
  split; [lia|]. split; [discriminate|]. intros [H|[]]. discriminate.
Qed.

(* the same scenario with the repaired request rule: both batches arrive (an instance of client_resume) *)
Example resume_empty_shard_repaired :
  let h1 := hrun ex_cfg [] in
  let h2 := hrun ex_cfg ([] ++ ex_two) in
  let '(c1, ev1) := session client_request ex_cfg (h_st h1) (-1) 1 client_new in
  let '(c2, ev2) := session client_request ex_cfg (h_st h2) 1 10 c1 in
  ev1 ++ ev2 = evs_of (h_log h2) /\ cl_last c2 = 1.
Proof. vm_compute. split; reflexivity. Qed.

(* without the hypothesis on timestamps: offset 1 (timestamp 100) is inside the retention (cut-off 50) and is
   trimmed all the same, because the binary search lands on offset 3 *)
Definition ex_four : list hop :=
  [HWrite (put1 97 1) 10; HWrite (put1 98 2) 100; HWrite (put1 99 3) 20; HWrite (put1 100 4) 30].

Definition ex_four_mono : list hop :=
  [HWrite (put1 97 1) 10; HWrite (put1 98 2) 20; HWrite (put1 99 3) 30; HWrite (put1 100 4) 40].

Theorem trim_nonmonotone_refuted :
  exists cfg ops now retention t st' b,
    ops_user ops /\ ops_small ops /\
    trim (h_st (hrun cfg ops)) now retention = TrTrimmed t st' /\
    In b (h_log (hrun cfg ops)) /\ stored_batch (h_st (hrun cfg ops)) (nb_offset b) = Some b /\
    now - retention < ts_ms b /\ stored_batch st' (nb_offset b) = None.
Proof.
  exists ex_cfg, ex_four, 50, 0.
  destruct (trim (h_st (hrun ex_cfg ex_four)) 50 0) as [|t st'|e] eqn:T; try (vm_compute in T; discriminate).
  exists t, st', (mkNBatch 7 1 100 [([98%N], NCreated 1)]).
  split; [repeat constructor|]. split; [split; reflexivity|]. split; [reflexivity|].
  split; [right; left; reflexivity|]. split; [reflexivity|]. split; [reflexivity|].
  vm_compute in T. inversion T. reflexivity.
Qed.

(* a request on user keys whose application fails (here: a sequence put without partition key, C13's subject)
   leaves its offset without a batch; the next request's batch follows under the next offset *)
Definition ex_seq_no_partition : write_req := mkWrite [mkPut [115%N] [1%N] None None None None [1%N] []] [] [].

Example failed_application_leaves_gap :
  let h := hrun ex_cfg [HWrite ex_seq_no_partition 5; HWrite (put1 97 1) 10] in
  h_failed h = [0] /\ map nb_offset (h_log h) = [1] /\ stored_batch (h_st h) 0 = None.
Proof. vm_compute. repeat split. Qed.

(* non-vacuity of the hypotheses of the main theorems: a history with a trimming round and a re-open in it *)
Definition ex_hist : list hop :=
  [HWrite (put1 97 1) 10; HWrite (put1 97 2) 20; HTrim 1015 1000; HReopen; HWrite (mkWrite [] [mkDel [97%N] None] []) 30;
   HTrim 1025 1000].

Example ex_hist_ok :
  ops_user ex_hist /\ ops_small ex_hist /\ ts_monotone (h_log (hrun ex_cfg ex_hist)) /\
  h_lo (hrun ex_cfg ex_hist) = 2 /\
  map (fun b => (nb_offset b, nb_notifs b)) (h_log (hrun ex_cfg ex_hist))
  = [(0, [([97%N], NCreated 0)]); (1, [([97%N], NModified 1)]); (2, [([97%N], NDeleted)])] /\
  fst (dispatch 3 (h_st (hrun ex_cfg ex_hist)) 1) = above 1 (h_log (hrun ex_cfg ex_hist)).
Proof.
  split; [repeat constructor|]. split; [split; reflexivity|]. split.
  - intros a b Ha Hb Hle. vm_compute in Ha, Hb.
    destruct Ha as [<-|[<-|[<-|[]]]]; destruct Hb as [<-|[<-|[<-|[]]]]; vm_compute in Hle |- *; try discriminate; try contradiction;
      try (exfalso; apply Hle; reflexivity).
  - vm_compute. repeat split.
Qed.

(* ---------------------------------------------------------------- statements over reachable states *)
Lemma ops_small_next cfg ops : ops_user ops -> ops_small ops -> h_next (hrun cfg ops) < TWO62.
Proof. intros Hu Hs. destruct (inv_run cfg ops Hu Hs) as [_ [Hn _]]. rewrite Hn. apply Hs. Qed.

(* EVERY request and every callback set (system requests of the session manager and hostile ones included):
   with notifications enabled, an applied request stores one batch under its offset, which is the fold of the
   request's answers and names no key under "__oxia/" *)
Theorem batch_any_request cb cfg st req offset ts st' resp :
  st_notif st = true -> process_write cb cfg st req offset ts = (st', Ok resp) ->
  exists nm,
    kv_get (st_kv st') (notification_key offset) = Some (VNotif (mkNBatch (cfg_shard cfg) offset ts nm)) /\
    NoDup (map fst nm) /\ (forall k, nm_get nm k = resp_changes req resp k) /\
    (forall k n, In (k, n) nm -> is_internal k = false).
Proof.
  intros Hn H. rewrite process_write_unfold in H.
  destruct (apply_write_request cb (cfg_threshold cfg) (start_write st) req ts) as [w [r|e]] eqn:A; [|discriminate].
  inversion H; subst st' resp; clear H.
  assert (Hrep0 : nm_rep (w_nm (start_write st)) chg_empty) by (unfold start_write; simpl; rewrite Hn; apply nm_rep_empty).
  destruct (request_nm _ _ _ _ _ _ _ _ A Hrep0) as [nm [Enm [Hd Hg]]].
  unfold commit_write. rewrite Enm. simpl. exists nm. rewrite kv_get_put_same.
  split; [reflexivity|]. split; [exact Hd|]. split; [exact Hg|].
  intros k n Hin. apply (resp_changes_clean req r k n). rewrite <- Hg. apply nm_in_get; assumption.
Qed.

Theorem batch_of_request_reachable cfg ops req ts st' resp :
  ops_user ops -> user_request req -> ops_small (ops ++ [HWrite req ts]) ->
  process_write wrapper_callbacks cfg (h_st (hrun cfg ops)) req (h_next (hrun cfg ops)) ts = (st', Ok resp) ->
  exists nm,
    stored_batch st' (h_next (hrun cfg ops)) = Some (mkNBatch (cfg_shard cfg) (h_next (hrun cfg ops)) ts nm) /\
    NoDup (map fst nm) /\
    (forall k, nm_get nm k = changes (abs_state (h_st (hrun cfg ops))) req (map seq_choice_of (wr_puts resp)) ts k) /\
    (forall k n, nm_get nm k = Some n -> is_internal k = false).
Proof.
  intros Hu Hr Hs P. pose proof (ops_small_app _ _ Hs) as Hs1.
  destruct (inv_run cfg ops Hu Hs1) as [I [_ Hp]].
  apply (batch_of_request cfg _ req ts st' resp I Hr); [|exact P].
  rewrite Hp. destruct Hs as [_ Hs2]. rewrite ops_puts_app in Hs2. simpl in Hs2. lia.
Qed.

Theorem stream_reachable cfg ops from fuel :
  ops_user ops -> ops_small ops ->
  let h := hrun cfg ops in
  h_lo h <= from + 1 -> -1 <= from < TWO62 ->
  let D := fst (dispatch (S (S fuel)) (h_st h) from) in
  D = above from (h_log h) /\
  StronglySorted off_lt D /\
  (forall b, In b D -> In b (h_log h) /\ from < nb_offset b) /\
  (forall b, In b D -> nb_offset b <= last_off (h_log h)) /\
  read_commit_offset (h_st h) = Ok (last_off (h_log h)) /\
  (forall o, from < o < h_next h -> In o (map nb_offset D) \/ In o (h_failed h)) /\
  exists stop, snd (dispatch (S (S fuel)) (h_st h) from) = DWait stop.
Proof.
  intros Hu Hs. cbn zeta. intros Hlo Hf. destruct (inv_run cfg ops Hu Hs) as [I _].
  pose proof (ops_small_next cfg ops Hu Hs) as Hn.
  split; [rewrite (dispatch_char cfg _ from fuel I ltac:(lia) Hlo Hf); reflexivity|].
  apply (dispatch_facts cfg _ from fuel I ltac:(lia) Hlo Hf).
Qed.

Theorem trim_reachable cfg ops now retention t st' :
  ops_user ops -> ops_small ops ->
  let h := hrun cfg ops in
  trim (h_st h) now retention = TrTrimmed t st' ->
  (forall b, In b (h_log h) -> stored_batch (h_st h) (nb_offset b) = Some b ->
             stored_batch st' (nb_offset b) = if nb_offset b <=? t then None else Some b) /\
  (ts_monotone (h_log h) ->
   forall b, In b (h_log h) -> stored_batch (h_st h) (nb_offset b) = Some b -> nb_offset b <= t ->
             ts_ms b <= now - retention).
Proof.
  intros Hu Hs. cbn zeta. intro T. destruct (inv_run cfg ops Hu Hs) as [I _].
  exact (trim_char cfg _ now retention t st' I (ops_small_next cfg ops Hu Hs) T).
Qed.

(* The batch of the request applied next says what happened to EVERY user key: a key inside a reported range holds
   no record afterwards; otherwise CREATED v / MODIFIED v mean "holds a record with version v", DELETED means
   "holds none", and a key the batch does not mention holds what it held before. *)
Theorem batch_covers_reachable cfg ops req ts st' resp :
  ops_user ops -> user_request req -> ops_small (ops ++ [HWrite req ts]) ->
  process_write wrapper_callbacks cfg (h_st (hrun cfg ops)) req (h_next (hrun cfg ops)) ts = (st', Ok resp) ->
  exists nm,
    stored_batch st' (h_next (hrun cfg ops)) = Some (mkNBatch (cfg_shard cfg) (h_next (hrun cfg ops)) ts nm) /\
    forall k, is_internal k = false ->
      let in_range := exists a b, nm_get nm a = Some (NRangeDeleted b) /\ key_in_range (Some a) (Some b) k = true in
      (in_range -> uv (st_kv st') k = None) /\
      (~ in_range -> point_ok (nm_get nm k) (uv (st_kv (h_st (hrun cfg ops))) k) (uv (st_kv st') k)).
Proof.
  intros Hu Hr Hs P.
  destruct (batch_of_request_reachable cfg ops req ts st' resp Hu Hr Hs P) as [nm [S [_ [Hg _]]]].
  exists nm. split; [exact S|].
  destruct (inv_run cfg ops Hu (ops_small_app _ _ Hs)) as [I _].
  destruct (refines_spec _ _ _ _ _ _ _ (i_wf _ _ I) Hr P) as [s' [Sw [[Sr _] _]]]. simpl in Sr.
  pose proof (changes_cover (abs_state (h_st (hrun cfg ops))) req (map seq_choice_of (wr_puts resp)) ts Hr) as C.
  rewrite Sw in C. cbn [fst] in C.
  intros k Hi. cbn zeta. destruct (C k Hi) as [C1 C2]. rewrite Sr. split.
  - intros [a [b [H1 H2]]]. apply C1. exists a, b. rewrite <- Hg. split; assumption.
  - intro Hn. rewrite Hg. apply C2. intros [a [b [H1 H2]]]. apply Hn. exists a, b. rewrite Hg. split; assumption.
Qed.

(* Resume on ANOTHER replica.  [opsA] is the history of the store the subscriber was connected to, [opsB] the history
   of the store of the node that leads now (its own trimming rounds, its own re-opens).  The one thing the two must
   share is stated as a hypothesis: the new leader's store logged, for the committed prefix, the same batches as the
   old one ([h_log B = h_log A ++ nw]).  That is replica determinism (C06: every replica applies the same entries with
   the same offsets and timestamps, hence stores the same batches, in whatever way it came into being) and is checked
   on real controllers by harness notif, replicated scenarios (verdict notif:replica-batch-missing). *)
Theorem resume_on_replica cfg opsA opsB from k fuel :
  ops_user opsA -> ops_small opsA -> ops_user opsB -> ops_small opsB ->
  let hA := hrun cfg opsA in
  let hB := hrun cfg opsB in
  (exists nw, h_log hB = h_log hA ++ nw) ->
  h_lo hA <= from + 1 -> -1 <= from < TWO62 ->
  let seen := firstn k (fst (dispatch (S (S fuel)) (h_st hA) from)) in
  let l := last_offset seen from in
  h_lo hB <= l + 1 ->
  seen ++ fst (dispatch (S (S fuel)) (h_st hB) l) = above from (h_log hB).
Proof.
  intros HuA HsA HuB HsB. cbn zeta. intros [nw E] Hlo1 Hf Hlo2.
  destruct (inv_run cfg opsA HuA HsA) as [I1 [N1 _]].
  destruct (inv_run cfg opsB HuB HsB) as [I2 [N2 _]].
  assert (B1 : h_next (hrun cfg opsA) <= TWO62) by (rewrite N1; destruct HsA as [Hs _]; lia).
  assert (B2 : h_next (hrun cfg opsB) <= TWO62) by (rewrite N2; destruct HsB as [Hs _]; lia).
  rewrite (dispatch_char cfg _ from fuel I1 B1 Hlo1 Hf) in *. cbn [fst] in *.
  set (seen := firstn k (above from (h_log (hrun cfg opsA)))) in *.
  assert (Hseen : Forall (fun b => 0 <= nb_offset b < TWO62) seen).
  { apply Forall_forall. intros b Hb. apply in_firstn in Hb. apply filter_In in Hb. destruct Hb as [Hb _].
    pose proof (i_range _ _ I1) as R. rewrite Forall_forall in R. specialize (R b Hb). lia. }
  pose proof (last_offset_bound seen from TWO62 Hseen Hf) as Hl.
  rewrite (dispatch_char cfg _ _ fuel I2 B2 Hlo2 Hl). cbn [fst].
  assert (Esplit : above from (h_log (hrun cfg opsB)) =
                   seen ++ (skipn k (above from (h_log (hrun cfg opsA))) ++ above from nw)).
  { rewrite E, above_app, app_assoc. unfold seen. rewrite firstn_skipn. reflexivity. }
  rewrite (above_split _ _ _ _ (i_sorted _ _ I2) Esplit). symmetry. exact Esplit.
Qed.

(* ---------------------------------------------------------------- reads in chunks, across holes *)
(* what the store still holds: the logged batches at or above the trimming mark (exactly: Inv.i_kept / i_gone) *)
Definition retained (h : hst) : list nbatch := filter (fun b => h_lo h <=? nb_offset b) (h_log h).

Lemma range_char_gen cfg h start :
  Inv cfg h -> h_next h <= TWO62 -> 0 <= start < TWO63 ->
  kv_range (st_kv (h_st h)) (Some (notification_key start)) (Some last_notification_key)
  = map nbkv (filter (fun b => start <=? nb_offset b) (retained h)).
Proof.
  intros I Hn Hst. pose proof TWO62_lt as H62. unfold retained.
  pose proof (i_range _ _ I) as R. rewrite Forall_forall in R.
  apply (sorted_ext (klt cmp_slash value)).
  - intros x C. unfold klt in C. rewrite cmp_slash_refl in C. discriminate.
  - intros x y C1 C2. unfold klt in *. rewrite cmp_slash_antisym, C1 in C2. discriminate.
  - apply kv_range_sorted. apply (i_wf _ _ I).
  - apply (sorted_map off_lt); [|apply sorted_filter, sorted_filter; apply (i_sorted _ _ I)].
    intros x y Hx Hy Hxy. apply filter_In in Hx. apply filter_In in Hy. destruct Hx as [Hx _]. destruct Hy as [Hy _].
    apply filter_In in Hx. apply filter_In in Hy. destruct Hx as [Hx _]. destruct Hy as [Hy _].
    unfold klt, nbkv. simpl. pose proof (R x Hx). pose proof (R y Hy). unfold off_lt in Hxy.
    rewrite cmp_nk by (unfold TWO62, TWO63 in *; lia). apply Z.compare_lt_iff. exact Hxy.
  - intros [k v]. split.
    + intro Hin. pose proof Hin as Hin2. unfold kv_range, sm_range in Hin2. apply filter_In in Hin2. destruct Hin2 as [Hkv Hr].
      change last_notification_key with (notification_key 9223372036854775807) in Hin.
      destruct (range_entries _ _ _ _ _ _ I ltac:(lia) Hin) as [x [Hx [-> [-> Bx]]]].
      simpl in Hr. change last_notification_key with (notification_key 9223372036854775807) in Hr.
      fold (key_in_range (Some (notification_key start)) (Some (notification_key 9223372036854775807)) (notification_key (nb_offset x))) in Hr.
      rewrite nk_in_range in Hr by (unfold TWO63 in *; lia). apply andb_true_iff in Hr. destruct Hr as [Hr _].
      apply in_map_iff. exists x. split; [reflexivity|]. apply filter_In. split; [|exact Hr]. apply filter_In. split; [exact Hx|].
      apply Z.leb_le. destruct (Z_lt_ge_dec (nb_offset x) (h_lo h)) as [Hlt|Hge]; [|lia].
      exfalso. pose proof (i_gone _ _ I x Hx Hlt) as G. apply kv_in_get in Hkv; [|apply (i_wf _ _ I)]. congruence.
    + intro Hin. apply in_map_iff in Hin. destruct Hin as [x [E Hx]]. apply filter_In in Hx. destruct Hx as [Hx Hs].
      apply filter_In in Hx. destruct Hx as [Hx Hl]. apply Z.leb_le in Hl.
      unfold nbkv in E. inversion E; subst k v; clear E. apply Z.leb_le in Hs. pose proof (R x Hx) as Rx.
      unfold kv_range, sm_range. apply filter_In. split.
      * apply kv_get_in; [apply (i_wf _ _ I)|]. apply (i_kept _ _ I); [exact Hx|lia].
      * simpl. change last_notification_key with (notification_key 9223372036854775807).
        fold (key_in_range (Some (notification_key start)) (Some (notification_key 9223372036854775807)) (notification_key (nb_offset x))).
        rewrite nk_in_range by (unfold TWO62, TWO63 in *; lia).
        apply andb_true_iff. split; [apply Z.leb_le; lia|apply Z.ltb_lt; unfold TWO62 in *; lia].
Qed.

Theorem read_batches_char_gen cfg h start :
  Inv cfg h -> h_next h <= TWO62 -> 0 <= start < TWO63 ->
  read_notification_batches (st_kv (h_st h)) start = Ok (filter (fun b => start <=? nb_offset b) (retained h)).
Proof.
  intros I Hn Hst. unfold read_notification_batches. rewrite kv_bound_nk.
  change (kv_bound last_notification_key) with (Some last_notification_key).
  rewrite (range_char_gen cfg h start I Hn Hst). apply fold_batches.
Qed.

Lemma retained_sorted cfg h : Inv cfg h -> StronglySorted off_lt (retained h).
Proof. intro I. apply sorted_filter, (i_sorted _ _ I). Qed.

Lemma retained_in h b : In b (retained h) -> In b (h_log h).
Proof. intro H. apply filter_In in H. apply H. Qed.

Lemma skipn_length_le {A} k (l : list A) : (length (skipn k l) <= length l)%nat.
Proof. revert l. induction k as [|k IH]; intros [|a l]; simpl; try lia. specialize (IH l). lia. Qed.

(* Iterating reads of at most [limit] >= 1 batches from ANY offset [from] - whatever was trimmed, whatever offsets
   have no batch - delivers exactly the retained batches above [from], in order, each once; then the loop waits
   (or finds nothing left above its offset: everything above was trimmed). *)
Theorem dispatch_limited_char cfg h limit : (1 <= limit)%nat -> Inv cfg h -> h_next h <= TWO62 ->
  forall fuel from, -1 <= from < TWO62 -> (length (above from (retained h)) + 2 <= fuel)%nat ->
  fst (dispatch_limited fuel limit (h_st h) from) = above from (retained h) /\
  exists o, snd (dispatch_limited fuel limit (h_st h) from) = DWait o \/ snd (dispatch_limited fuel limit (h_st h) from) = DSpin o.
Proof.
  intros Hlim I Hn. pose proof TWO62_lt as H62.
  pose proof (last_off_bound _ _ (i_range _ _ I) (i_next _ _ I)) as Hlb.
  pose proof (i_range _ _ I) as R. rewrite Forall_forall in R.
  induction fuel as [|f IH]; intros from Hf Hfuel; [lia|].
  cbn [dispatch_limited]. unfold read_next_limited. rewrite wrap64_small by (unfold TWO63, TWO62 in *; lia).
  unfold read_next_notifications. rewrite (i_notif _ _ I). cbn [negb]. rewrite (i_last _ _ I).
  destruct (last_off (h_log h) <? from + 1) eqn:B.
  - apply Z.ltb_lt in B. cbn [fst snd]. split; [|exists from; left; reflexivity].
    symmetry. apply above_none. intros b Hb. apply retained_in in Hb.
    pose proof (last_off_max _ (i_sorted _ _ I) b Hb). lia.
  - apply Z.ltb_ge in B.
    rewrite (read_batches_char_gen cfg h (from + 1) I Hn) by (unfold TWO63, TWO62 in *; lia).
    rewrite above_le_filter. set (A := above from (retained h)) in *.
    destruct (firstn limit A) as [|b0 bs] eqn:F.
    + cbn [fst snd]. split; [|exists from; right; reflexivity].
      destruct A as [|a A']; [reflexivity|]. destruct limit as [|l']; [lia|discriminate].
    + assert (Esplit : above from (retained h) = (b0 :: bs) ++ skipn limit A) by (rewrite <- F; symmetry; apply firstn_skipn).
      pose proof (above_split _ _ _ _ (retained_sorted _ _ I) Esplit) as Enext.
      assert (Hin : forall x, In x (b0 :: bs) -> 0 <= nb_offset x < TWO62).
      { intros x Hx. rewrite <- F in Hx. apply in_firstn in Hx. apply filter_In in Hx. destruct Hx as [Hx _].
        apply retained_in in Hx. specialize (R x Hx). lia. }
      assert (Hl : -1 <= last_offset (b0 :: bs) from < TWO62).
      { apply last_offset_bound; [apply Forall_forall; exact Hin|exact Hf]. }
      assert (Hlen : (length (above (last_offset (b0 :: bs) from) (retained h)) + 2 <= f)%nat).
      { rewrite Enext. assert (length A = length (b0 :: bs) + length (skipn limit A))%nat
          by (fold A in Esplit; rewrite Esplit at 1; apply app_length). simpl in H. lia. }
      destruct (IH _ Hl Hlen) as [E1 E2].
      destruct (dispatch_limited f limit (h_st h) (last_offset (b0 :: bs) from)) as [more stop]. cbn [fst snd] in *.
      split; [|exact E2]. rewrite E1, Enext. symmetry. exact Esplit.
Qed.

Theorem chunked_reads_reachable cfg ops limit fuel from :
  ops_user ops -> ops_small ops -> (1 <= limit)%nat -> -1 <= from < TWO62 ->
  let h := hrun cfg ops in
  (length (above from (retained h)) + 2 <= fuel)%nat ->
  fst (dispatch_limited fuel limit (h_st h) from) = above from (retained h) /\
  StronglySorted off_lt (above from (retained h)) /\
  (forall b, In b (h_log h) -> (In b (above from (retained h)) <-> from < nb_offset b /\ stored_batch (h_st h) (nb_offset b) = Some b)) /\
  exists o, snd (dispatch_limited fuel limit (h_st h) from) = DWait o \/ snd (dispatch_limited fuel limit (h_st h) from) = DSpin o.
Proof.
  intros Hu Hs Hl Hf. cbn zeta. intro Hfuel. destruct (inv_run cfg ops Hu Hs) as [I _].
  pose proof (ops_small_next cfg ops Hu Hs) as Hn.
  destruct (dispatch_limited_char cfg _ limit Hl I ltac:(lia) fuel from Hf Hfuel) as [E1 E2].
  split; [exact E1|]. split; [apply sorted_filter, retained_sorted with (cfg := cfg); exact I|]. split; [|exact E2].
  intros b Hb. unfold above, retained. rewrite !filter_In. unfold stored_batch. split.
  - intros [[_ H1] H2]. apply Z.leb_le in H1. apply Z.ltb_lt in H2. split; [exact H2|].
    rewrite (i_kept _ _ I b Hb H1). reflexivity.
  - intros [H1 H2]. split; [split; [exact Hb|]|apply Z.ltb_lt; exact H1].
    apply Z.leb_le. destruct (Z_lt_ge_dec (nb_offset b) (h_lo (hrun cfg ops))) as [Hlt|Hge]; [|lia].
    rewrite (i_gone _ _ I b Hb Hlt) in H2. discriminate.
Qed.

(* a window of OFFSETS instead of a number of batches: four requests, the first three trimmed, a subscriber resuming
   at -1 with a window of 2 offsets reads nothing although batch 3 is retained - and would read the same nothing again *)
Theorem offset_window_read_refuted :
  exists cfg ops window from,
    ops_user ops /\ ops_small ops /\ -1 <= from /\ 1 <= window /\
    read_next_window window (h_st (hrun cfg ops)) (from + 1) = Ok [] /\
    above from (retained (hrun cfg ops)) <> [].
Proof.
  exists ex_cfg, (ex_four_mono ++ [HTrim 1030 1000]), 2, (-1).
  split; [repeat constructor|]. split; [split; reflexivity|]. split; [lia|]. split; [lia|].
  split; [vm_compute; reflexivity|]. vm_compute. discriminate.
Qed.
