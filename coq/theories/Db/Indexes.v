(* Db/Indexes.v — server/secondary_indexes.go, write side: secondaryIndexesUpdateCallbackS and the
   wrapperUpdateCallback chain (session callback first, then the index callback), which is what
   leader_controller.go / follower_controller.go pass to ProcessWrite as WrapperUpdateOperationCallback.
   The read side (secondaryIndexGet / list / range-scan) is in Db/IndexReads.v. *)
From Coq Require Import List NArith ZArith Bool.
From Oxia.Db Require Import Types Bytes Escape Keys Kv Sessions.
Import ListNotations.

Definition delete_indexes (b : kvmap) (pk : key) (e : entry) : kvmap :=
  fold_left (fun b si => kv_del b (index_key pk si)) (e_indexes e) b.

Definition write_indexes (b : kvmap) (pk : key) (sis : list sindex) : kvmap :=
  fold_left (fun b si => kv_put b (index_key pk si) empty_value) sis b.

(* OnPut: all index entries of the previous record are deleted, then the new ones are written *)
Definition index_on_put (b : kvmap) (p : put_req) (existing : option entry) : result (status * kvmap) :=
  let b1 := match existing with Some e => delete_indexes b (p_key p) e | None => b end in
  Ok (OK, write_indexes b1 (p_key p) (p_indexes p)).

Definition index_on_delete (b : kvmap) (k : key) : result kvmap :=
  match get_entry b k with
  | Err e => Err e
  | Ok None => Ok b
  | Ok (Some e) => Ok (delete_indexes b k e)
  end.

Definition index_on_delete_with_entry (b : kvmap) (k : key) (e : entry) : result kvmap :=
  Ok (delete_indexes b k e).

Definition index_callbacks : callbacks :=
  mkCallbacks index_on_put index_on_delete index_on_delete_with_entry.

(* wrapperUpdateCallback *)
Definition wrapper_on_put (b : kvmap) (p : put_req) (existing : option entry) : result (status * kvmap) :=
  match session_on_put b p existing with
  | Err e => Err e
  | Ok (OK, b1) => index_on_put b1 p existing
  | Ok (st, b1) => Ok (st, b1)
  end.

Definition wrapper_on_delete (b : kvmap) (k : key) : result kvmap :=
  match session_on_delete b k with
  | Err e => Err e
  | Ok b1 => index_on_delete b1 k
  end.

Definition wrapper_on_delete_with_entry (b : kvmap) (k : key) (e : entry) : result kvmap :=
  match session_on_delete_with_entry b k e with
  | Err x => Err x
  | Ok b1 => index_on_delete_with_entry b1 k e
  end.

Definition wrapper_callbacks : callbacks :=
  mkCallbacks wrapper_on_put wrapper_on_delete wrapper_on_delete_with_entry.
