(* Db/C06_SnapshotProofs.v — proofs about Db/Snapshot.v (helper of Proofs_C06.v):
   chunking a byte string and concatenating the chunks is the identity for every chunk size n > 0; the
   sender's state machine (Valid/Chunk/Next) emits exactly the labelled chunk stream [all_msgs]; the
   loader rebuilds from that stream exactly the file list, for every chunk size and every file list with
   distinct names, and is left with no file open. *)
From Coq Require Import List NArith Arith Bool Lia.
From Oxia.Db Require Import Types Bytes Snapshot.
Import ListNotations.
Local Open Scope nat_scope.

(* ---------------------------------------------------------------- lists *)
Lemma firstn_add_skipn (A : Type) (a b : nat) : forall l : list A,
  firstn (a + b) l = firstn a l ++ firstn b (skipn a l).
Proof.
  induction a as [|a IH]; intro l; simpl; [reflexivity|].
  destruct l as [|x tl]; simpl.
  - destruct b; reflexivity.
  - rewrite IH. reflexivity.
Qed.

Lemma concat_chunks_prefix n bs c :
  concat (map (chunk_content n bs) (seq 0 c)) = firstn (c * n) bs.
Proof.
  induction c as [|c IH]; [reflexivity|].
  rewrite seq_S, map_app, concat_app, IH. simpl.
  rewrite app_nil_r. unfold chunk_content.
  replace (n + c * n) with (c * n + n) by lia.
  rewrite firstn_add_skipn. reflexivity.
Qed.

Lemma chunk_count_covers n size : 0 < n -> size <= chunk_count n size * n.
Proof.
  intro Hn. unfold chunk_count.
  pose proof (Nat.div_mod size n ltac:(lia)) as D.
  pose proof (Nat.mod_upper_bound size n ltac:(lia)) as M.
  destruct (size mod n =? 0) eqn:E.
  - apply Nat.eqb_eq in E. rewrite Nat.add_0_r.
    destruct (size / n =? 0) eqn:Z0.
    + apply Nat.eqb_eq in Z0. rewrite Z0, E in D. lia.
    + nia.
  - apply Nat.eqb_neq in E.
    destruct (size / n + 1 =? 0) eqn:Z0; [apply Nat.eqb_eq in Z0; lia|]. nia.
Qed.

Lemma chunk_count_pos n size : 0 < chunk_count n size.
Proof.
  unfold chunk_count.
  destruct (size / n + (if size mod n =? 0 then 0 else 1) =? 0) eqn:E; [lia|].
  apply Nat.eqb_neq in E. lia.
Qed.

(* no trailing empty chunk, no chunk above the maximum: the count is exactly ceil(size/n), 1 for an empty file *)
Lemma chunk_count_tight n size : 0 < n -> 0 < size -> (chunk_count n size - 1) * n < size.
Proof.
  intros Hn Hs. unfold chunk_count.
  pose proof (Nat.div_mod size n ltac:(lia)) as D.
  pose proof (Nat.mod_upper_bound size n ltac:(lia)) as M.
  destruct (size mod n =? 0) eqn:E.
  - apply Nat.eqb_eq in E. rewrite Nat.add_0_r.
    destruct (size / n =? 0) eqn:Z0.
    + apply Nat.eqb_eq in Z0. rewrite Z0, E in D. lia.
    + apply Nat.eqb_neq in Z0. nia.
  - apply Nat.eqb_neq in E.
    destruct (size / n + 1 =? 0) eqn:Z0; [apply Nat.eqb_eq in Z0; lia|].
    replace (size / n + 1 - 1) with (size / n) by lia. nia.
Qed.

(* MAIN (bytes): cutting into chunks of any positive size and concatenating gives the file back *)
Theorem chunk_concat n bs : 0 < n -> concat (chunk n bs) = bs.
Proof.
  intro Hn. unfold chunk. rewrite concat_chunks_prefix.
  apply firstn_all2. apply chunk_count_covers. exact Hn.
Qed.

Theorem chunk_sizes n bs : Forall (fun c => length c <= n) (chunk n bs).
Proof.
  unfold chunk. apply Forall_forall. intros c H. apply in_map_iff in H. destruct H as [i [<- _]].
  unfold chunk_content. rewrite firstn_length. lia.
Qed.

(* every chunk but the last is full, the last one is not empty unless the file is *)
Theorem chunk_full_but_last n bs i :
  0 < n -> S i < chunk_count n (length bs) -> length (chunk_content n bs i) = n.
Proof.
  intros Hn Hi. unfold chunk_content. rewrite firstn_length, skipn_length.
  destruct bs as [|b tl].
  - unfold chunk_count in Hi. cbn [length] in Hi. rewrite Nat.div_0_l, Nat.mod_0_l in Hi by lia. cbn in Hi. lia.
  - pose proof (chunk_count_tight n (length (b :: tl)) Hn ltac:(simpl; lia)) as T.
    assert (S i * n <= (chunk_count n (length (b :: tl)) - 1) * n) by (apply Nat.mul_le_mono_r; lia).
    rewrite Nat.mul_succ_l in H. remember (length (b :: tl)) as L. remember (i * n) as q. lia.
Qed.

Theorem chunk_length n bs : length (chunk n bs) = chunk_count n (length bs).
Proof. unfold chunk. rewrite map_length, seq_length. reflexivity. Qed.

(* ---------------------------------------------------------------- sender *)
Definition msgs_from (n : nat) (f : sfile) (i k : nat) : list chunk_msg :=
  let c := chunk_count n (length (snd f)) in
  map (fun j => mkMsg (fst f) j c (chunk_content n (snd f) j)) (seq i k).

Lemma option_bind_some (ms0 ms : list chunk_msg) x :
  x = Some ms -> match x with None => None | Some r => Some (ms0 ++ r) end = Some (ms0 ++ ms).
Proof. intros ->. reflexivity. Qed.

(* the chunks i, i+1, ..., c-1 of the first file, then the rest *)
Lemma send_file n (f : sfile) (rest : list sfile) : forall k i cnt fuel,
  let c := chunk_count n (length (snd f)) in
  i + k = c -> 0 < k -> (i = 0 \/ cnt = c) ->
  send_loop (k + fuel) n (mkSnap (f :: rest) cnt i) =
  match send_loop fuel n (mkSnap rest c 0) with
  | None => None
  | Some ms => Some (msgs_from n f i k ++ ms)
  end.
Proof.
  induction k as [|k IH]; intros i cnt fuel c Hik Hk Hc; [lia|].
  destruct f as [name content]. simpl in c.
  change (S k + fuel) with (S (k + fuel)). cbn [send_loop snap_valid sn_files].
  unfold snap_chunk. cbn [sn_files sn_index sn_count].
  assert (Hcount : (if i =? 0 then chunk_count n (length content) else cnt) = c).
  { destruct (i =? 0) eqn:E; [reflexivity|]. apply Nat.eqb_neq in E. destruct Hc; [lia|assumption]. }
  rewrite Hcount. unfold snap_next. cbn [sn_files sn_index sn_count].
  destruct (S i =? c) eqn:E.
  - apply Nat.eqb_eq in E. assert (k = 0) by lia. subst k. cbn [tl]. simpl plus.
    unfold msgs_from. cbn [seq map fst snd app]. fold c.
    destruct (send_loop fuel n (mkSnap rest c 0)); reflexivity.
  - apply Nat.eqb_neq in E.
    pose proof (IH (S i) c fuel) as IH'. cbv zeta in IH'. cbn [snd] in IH'. fold c in IH'.
    rewrite IH' by (first [lia | right; reflexivity]). clear IH'.
    destruct (send_loop fuel n (mkSnap rest c 0)); [|reflexivity].
    unfold msgs_from. cbn [seq map fst snd app]. reflexivity.
Qed.

Lemma send_files n : forall files cnt,
  send_loop (total_chunks n files) n (mkSnap files cnt 0) = Some (all_msgs n files).
Proof.
  induction files as [|f rest IH]; intro cnt; [reflexivity|].
  change (total_chunks n (f :: rest)) with (chunk_count n (length (snd f)) + total_chunks n rest).
  rewrite (send_file n f rest (chunk_count n (length (snd f))) 0 cnt (total_chunks n rest));
    [|lia|apply chunk_count_pos|left; reflexivity].
  rewrite IH. reflexivity.
Qed.

(* MAIN (sender): Valid/Chunk/Next emit, file after file, the chunks 0..count-1 labelled with the
   file's name and count — for every chunk size (also 0: then every file is one empty chunk... of the code
   dividing by zero; [0 < n] is only needed for the contents to add up) *)
Theorem send_all_spec n files : send_all n files = Some (all_msgs n files).
Proof. apply send_files. Qed.

(* ---------------------------------------------------------------- loader *)
Lemma bytes_eqb_true a b : bytes_eqb a b = true <-> a = b.
Proof.
  revert b. induction a as [|x a IH]; destruct b as [|y b]; simpl; split; intro H; try discriminate; try reflexivity.
  - apply andb_true_iff in H. destruct H as [H1 H2]. apply N.eqb_eq in H1. apply IH in H2. congruence.
  - inversion H; subst. rewrite N.eqb_refl. simpl. apply IH. reflexivity.
Qed.

Lemma fs_remove_absent fs name : ~ In name (map fst fs) -> fs_remove fs name = fs.
Proof.
  induction fs as [|f tl IH]; intro H; [reflexivity|]. simpl in H. unfold fs_remove. cbn [filter]. fold (fs_remove tl name).
  match goal with |- context [negb ?b] => destruct b eqn:E end.
  - apply bytes_eqb_true in E. exfalso. apply H. left. exact E.
  - cbn [negb]. rewrite IH; [reflexivity|]. intro. apply H. right. assumption.
Qed.

(* chunks i.. of a file whose chunks 0..i-1 have been written *)
Lemma load_tail n (name : fname) (content : bytes) (done : list sfile) : forall k i,
  let c := chunk_count n (length content) in
  0 < i -> i + k = c ->
  load_all (mkLoader done (Some (name, firstn (i * n) content))) (msgs_from n (name, content) i k) =
  match k with
  | O => LdOk (mkLoader done (Some (name, firstn (i * n) content)))
  | S _ => LdOk (mkLoader (done ++ [(name, firstn (c * n) content)]) None)
  end.
Proof.
  induction k as [|k IH]; intros i c Hi Hik; [reflexivity|].
  unfold msgs_from. cbn [seq map fst snd load_all]. fold c.
  unfold add_chunk. cbn [m_index m_name m_count m_content ld_open ld_files].
  destruct (i =? 0) eqn:E0; [apply Nat.eqb_eq in E0; lia|].
  assert (Hacc : firstn (i * n) content ++ chunk_content n content i = firstn (S i * n) content).
  { unfold chunk_content. replace (S i * n) with (i * n + n) by lia. rewrite firstn_add_skipn. reflexivity. }
  destruct (chunk_content n content i) as [|b tl] eqn:EC.
  - (* nothing to write *)
    rewrite app_nil_r in Hacc. cbn [ld_open ld_files].
    destruct (S i =? c) eqn:E.
    + apply Nat.eqb_eq in E. assert (k = 0) by lia. subst k. cbn [load_all]. rewrite <- E, <- Hacc. reflexivity.
    + apply Nat.eqb_neq in E. rewrite Hacc.
      specialize (IH (S i) ltac:(lia) ltac:(fold c; lia)). fold c in IH. unfold msgs_from in IH. cbn [fst snd] in IH. fold c in IH.
      rewrite IH. destruct k; [lia|reflexivity].
  - cbn [ld_open ld_files]. rewrite Hacc.
    destruct (S i =? c) eqn:E.
    + apply Nat.eqb_eq in E. assert (k = 0) by lia. subst k. cbn [load_all]. rewrite <- E. reflexivity.
    + apply Nat.eqb_neq in E.
      specialize (IH (S i) ltac:(lia) ltac:(fold c; lia)). fold c in IH. unfold msgs_from in IH. cbn [fst snd] in IH. fold c in IH.
      rewrite IH. destruct k; [lia|reflexivity].
Qed.

(* one whole file, from a loader with no file open *)
Lemma load_file n (name : fname) (content : bytes) (done : list sfile) :
  0 < n -> ~ In name (map fst done) ->
  load_all (mkLoader done None) (file_msgs n (name, content)) = LdOk (mkLoader (done ++ [(name, content)]) None).
Proof.
  intros Hn Hfresh. unfold file_msgs. cbn [fst snd].
  set (c := chunk_count n (length content)).
  assert (Hc : 0 < c) by apply chunk_count_pos.
  destruct c as [|c'] eqn:Ec; [lia|].
  cbn [seq map load_all]. unfold add_chunk. cbn [m_index m_name m_count m_content ld_open ld_files Nat.eqb].
  rewrite fs_remove_absent by exact Hfresh.
  assert (Hfull : firstn (S c' * n) content = content).
  { apply firstn_all2. rewrite <- Ec. apply chunk_count_covers. exact Hn. }
  assert (H0 : chunk_content n content 0 = firstn (1 * n) content).
  { unfold chunk_content. simpl. rewrite Nat.add_0_r. reflexivity. }
  pose proof (load_tail n name content done c' 1 ltac:(lia)) as T. cbv zeta in T. fold c in T. rewrite Ec in T.
  specialize (T ltac:(lia)). unfold msgs_from in T. cbn [fst snd] in T. fold c in T. rewrite Ec in T.
  destruct (chunk_content n content 0) as [|b tl] eqn:EC.
  - cbn [ld_open ld_files].
    destruct c' as [|c''].
    + cbn [Nat.eqb load_all seq map].
      assert (HH : @nil N = content) by (rewrite H0; exact Hfull). rewrite <- HH. reflexivity.
    + cbn [Nat.eqb]. rewrite <- H0 in T. rewrite T, Hfull. reflexivity.
  - cbn [ld_open ld_files app].
    destruct c' as [|c''].
    + cbn [Nat.eqb load_all seq map].
      assert (HH : b :: tl = content) by (rewrite H0; exact Hfull). rewrite <- HH. reflexivity.
    + cbn [Nat.eqb]. rewrite <- H0 in T. rewrite T, Hfull. reflexivity.
Qed.

Lemma load_all_app l ms1 ms2 :
  load_all l (ms1 ++ ms2) = match load_all l ms1 with LdErr e => LdErr e | LdOk l' => load_all l' ms2 end.
Proof.
  revert l. induction ms1 as [|m tl IH]; intro l; [reflexivity|]. simpl.
  destruct (add_chunk l m); [apply IH|reflexivity].
Qed.

Lemma load_files n : forall files done,
  0 < n -> NoDup (map fst (done ++ files)) ->
  load_all (mkLoader done None) (all_msgs n files) = LdOk (mkLoader (done ++ files) None).
Proof.
  induction files as [|[name content] rest IH]; intros done Hn Hnd.
  - simpl. rewrite app_nil_r. reflexivity.
  - cbn [all_msgs flat_map]. rewrite load_all_app.
    rewrite load_file; [|exact Hn|].
    + fold (all_msgs n rest).
      replace (done ++ (name, content) :: rest) with ((done ++ [(name, content)]) ++ rest) by (rewrite <- app_assoc; reflexivity).
      apply IH; [exact Hn|]. rewrite <- app_assoc. exact Hnd.
    + rewrite map_app in Hnd. simpl in Hnd. apply NoDup_remove_2 in Hnd.
      intro H. apply Hnd. apply in_or_app. left. exact H.
Qed.

(* MAIN (bookkeeping): what the sender emits for a file list with distinct names, fed to a fresh loader,
   re-creates exactly that file list (names, contents, order) and leaves no file open —
   for every chunk size n > 0 and every file list (empty files, sizes that are multiples of n, ...) *)
Theorem snapshot_roundtrip n files :
  0 < n -> NoDup (map fst files) ->
  exists ms, send_all n files = Some ms /\
             load_all loader_new ms = LdOk (mkLoader files None) /\
             loader_dir (mkLoader files None) = files.
Proof.
  intros Hn Hnd. exists (all_msgs n files). split; [apply send_all_spec|]. split.
  - apply (load_files n files [] Hn Hnd).
  - unfold loader_dir. simpl. apply app_nil_r.
Qed.

(* Complete() checks nothing: a stream that stops before the last chunk of a file leaves that file open
   and short in the directory, and the loader does not report it.  (The follower only reaches Complete
   after a clean end of stream, which the leader only sends after the last chunk.) *)
Example truncated_stream_not_detected :
  let files := [([102%N], [1%N; 2%N; 3%N; 4%N; 5%N])] in
  exists ms, send_all 2 files = Some ms /\
    load_all loader_new (removelast ms) = LdOk (mkLoader [] (Some ([102%N], [1%N; 2%N; 3%N; 4%N]))).
Proof. eexists. split; vm_compute; reflexivity. Qed.

(* hypotheses satisfiable on a non-trivial file list: an empty file, an exact multiple, a remainder *)
Example snapshot_roundtrip_example :
  let files := [([97%N], []); ([98%N], [1%N; 2%N; 3%N; 4%N]); ([99%N], [9%N; 8%N; 7%N])] in
  send_all 2 files = Some (all_msgs 2 files) /\
  map (fun m => (m_name m, m_index m, m_count m)) (all_msgs 2 files) =
    [([97%N], 0, 1); ([98%N], 0, 2); ([98%N], 1, 2); ([99%N], 0, 2); ([99%N], 1, 2)] /\
  load_all loader_new (all_msgs 2 files) = LdOk (mkLoader files None).
Proof. vm_compute. repeat split. Qed.
