(* Db/SessionMgr.v — server/session_manager.go + server/session.go: the session manager of the current leader on
   top of the replicated DB (model only, no proofs; proofs are in Proofs_C14.v).

   What the Go code does, and what is transcribed here:

     createSession       validates the timeout, appends ONE logged put of SessionKey(id) whose id is the offset of the
                         log entry carrying it (writeBlock's request supplier), then startSession: a goroutine with
                         time.NewTimer(timeout)                                           -> [ACreate]
     KeepAlive           looks the session up in sm.sessions and sends on its heartbeat channel; the goroutine
                         does timer.Reset(timeout)                                        -> [AHeartbeat]
     timer fires         s.close(); s.delete(); sm.sessions.Remove(id)   (the session STAYS in sm.sessions while
                         delete() runs: a KeepAlive in that window finds it and is a no-op)   -> [ATick] + cleanup
     CloseSession        sm.sessions.Remove(id); s.Close(); s.delete()                    -> [AClose] + cleanup
     session.delete()    TWO separate calls into the leader controller, no lock held in between:
                           1. ListBlock [SessionKey(id)+"/", SessionKey(id)+"//")      -> [ACleanupList]
                              each listed key: strip "SessionKey(id)/", url.PathUnescape, skip on error,
                              skip the empty key
                           2. WriteBlock { Deletes: the listed keys (NO expected version), then SessionKey(id);
                                           DeleteRanges: [SessionKey(id)+"/", SessionKey(id)+"//") }
                                                                                          -> [ACleanupWrite]
                         Any other client's write may be applied between 1 and 2      -> [AClientWrite]
     NewTerm / Close     sessionManager.Close(): every session's goroutine is stopped, NOTHING is deleted
     BecomeLeader        a fresh session manager; Initialize(): ListBlock ["__oxia/session/", "__oxia/session//"),
                         Get each key, KeyToId + UnmarshalVT, startSession with the FULL timeout  -> [ALeaderChange]

   Time: the wall clock is an input ([now], milliseconds).  A session is armed at [ss_armed] with [ss_timeout];
   its timer fires at [ss_armed + ss_timeout] or later: [ATick now] expires exactly the sessions whose deadline
   is <= now (real timers never fire early; how late they fire is not modelled).

   SIMPLIFICATIONS (named):
   * SessionMetadata (de)serialisation is a pair of Section variables ([meta_enc]/[meta_dec]); the theorems that
     need it assume [meta_dec (meta_enc t i) = Some t].
   * KeyToId (fmt.Sscanf "%016x") is modelled on what SessionKey prints for ids >= 0 (1..16 hex digits, either
     case); sign and white-space handling of Sscanf are not modelled (session ids are log offsets).
   * Both replicas' DBs are one [state] (replica determinism is C06); a cleanup that is in flight when the leader
     changes is dropped (its WriteBlock fails on the old leader or was never issued).  *)
From Coq Require Import List NArith ZArith Bool.
From Oxia.Db Require Import Types Bytes Escape Keys Kv Sessions Indexes Write Read.
Import ListNotations.
Open Scope N_scope.

(* ---------------------------------------------------------------- session.delete(): the two requests *)
Definition shadow_lo (z : Z) : key := session_key z ++ [SLASHB].
Definition shadow_hi (z : Z) : key := session_key z ++ [SLASHB; SLASHB].

(* key[len(sessionKey)+1:], url.PathUnescape (errors skipped with a log line), empty keys skipped *)
Definition cleanup_keys_of (z : Z) (listed : list key) : list key :=
  flat_map (fun y => match path_unescape (skipn (S (length (session_key z))) y) with
                     | Some [] => []
                     | Some k => [k]
                     | None => []
                     end) listed.

(* step 1: ListBlock *)
Definition cleanup_list (st : state) (z : Z) : list key :=
  cleanup_keys_of z (db_list st (shadow_lo z) (shadow_hi z)).

(* step 2: the WriteRequest *)
Definition cleanup_request (z : Z) (keys : list key) : write_req :=
  mkWrite [] (map (fun k => mkDel k None) keys ++ [mkDel (session_key z) None])
          [mkRange (shadow_lo z) (shadow_hi z)].

(* createSession: the put that is logged *)
Definition create_request (id : Z) (meta : bytes) : write_req :=
  mkWrite [mkPut (session_key id) meta None None None None [] []] [] [].

(* ---------------------------------------------------------------- KeyToId *)
Definition session_lo : key := session_prefix.                       (* sessionKeyPrefix + "/"  *)
Definition session_hi : key := session_prefix ++ [SLASHB].           (* sessionKeyPrefix + "//" *)

Fixpoint scan_hex (width : nat) (s : bytes) (acc : N) (ndigits : nat) : N * nat :=
  match width, s with
  | S w, c :: tl => match unhex c with
                    | Some d => scan_hex w tl (acc * 16 + d) (S ndigits)
                    | None => (acc, ndigits)
                    end
  | _, _ => (acc, ndigits)
  end.

Definition key_to_id (k : key) : option Z :=
  if has_prefix session_prefix k then
    match scan_hex 16 (drop_prefix session_prefix k) 0 0 with
    | (_, O) => None                                         (* "expected integer" *)
    | (v, _) => if v <? 9223372036854775808 then Some (Z.of_N v) else None   (* int64 overflow *)
    end
  else None.

Section SessionManager.
  Variable meta_enc : N -> bytes -> bytes.        (* SessionMetadata{TimeoutMs, Identity}.MarshalVT() *)
  Variable meta_dec : bytes -> option N.          (* UnmarshalVT: TimeoutMs, None = error *)
  Variable cfg : config.
  Variable min_timeout max_timeout : N.           (* ms; constant.MinSessionTimeout (2000) .. MaxSessionTimeout (300000) *)

  Record sess := mkSess { ss_timeout : N; ss_armed : N }.
  Definition deadline (s : sess) : N := ss_armed s + ss_timeout s.

  (* a session whose close() ran and whose delete() has not finished: [cl_expired] = it is still in sm.sessions
     (expiry path); [cl_keys] = None before ListBlock returned, Some keys between ListBlock and WriteBlock *)
  Record closing := mkClosing { cl_id : Z; cl_expired : bool; cl_keys : option (list key) }.

  Record world := mkWorld {
    sw_db : state;                         (* the shard's DB (replicated; survives leader changes) *)
    sw_sessions : list (Z * sess);         (* sessions with a running timer on the current leader *)
    sw_closing : list closing
  }.

  Definition init_world : world := mkWorld init_state [] [].

  Fixpoint find_sess (l : list (Z * sess)) (id : Z) : option sess :=
    match l with
    | [] => None
    | (i, s) :: tl => if (i =? id)%Z then Some s else find_sess tl id
    end.
  Fixpoint remove_sess (l : list (Z * sess)) (id : Z) : list (Z * sess) :=
    match l with
    | [] => []
    | (i, s) :: tl => if (i =? id)%Z then remove_sess tl id else (i, s) :: remove_sess tl id
    end.
  Definition put_sess (l : list (Z * sess)) (id : Z) (s : sess) : list (Z * sess) := (id, s) :: remove_sess l id.

  Definition expired (now : N) (s : sess) : bool := deadline s <=? now.

  (* Initialize / readSessions *)
  Fixpoint read_sessions (st : state) (keys : list key) (acc : list (Z * N)) : result (list (Z * N)) :=
    match keys with
    | [] => Ok acc
    | k :: tl =>
        match db_get st k CEqual true with
        | Err e => Err e
        | Ok g =>
            match g_status g, g_value g, key_to_id k with
            | OK, Some v, Some id =>
                match meta_dec v with
                | Some t => read_sessions st tl ((id, t) :: filter (fun x => negb (fst x =? id)%Z) acc)
                | None => read_sessions st tl acc
                end
            | _, _, _ => read_sessions st tl acc
            end
        end
    end.

  Definition leader_init (st : state) (now : N) : result (list (Z * sess)) :=
    match read_sessions st (db_list st session_lo session_hi) [] with
    | Err e => Err e
    | Ok l => Ok (map (fun x => (fst x, mkSess (snd x) now)) l)
    end.

  Inductive action :=
  | ACreate (timeout_ms : N) (identity : bytes) (offset : Z) (ts : N) (now : N)
  | AHeartbeat (id : Z) (now : N)
  | ATick (now : N)
  | AClose (id : Z)
  | ACleanupList (id : Z)
  | ACleanupWrite (id : Z) (offset : Z) (ts : N)
  | AClientWrite (req : write_req) (offset : Z) (ts : N)
  | ALeaderChange (term : Z) (ts : N) (now : N).

  Inductive outcome :=
  | OCreated (id : Z)
  | ODone
  | OInvalidTimeout
  | ONotFound
  | OExpired (ids : list Z)
  | OListed (keys : list key)
  | OWritten (r : result write_resp)
  | ONotEnabled                             (* the action is not possible in this state: no effect *)
  | OFailed (e : err_kind).

  (* take the first closing entry of [id] that satisfies [sel] out of the list *)
  Fixpoint take_closing (sel : closing -> bool) (id : Z) (l : list closing) : option (closing * list closing) :=
    match l with
    | [] => None
    | c :: tl =>
        if (cl_id c =? id)%Z && sel c then Some (c, tl)
        else match take_closing sel id tl with
             | Some (c', tl') => Some (c', c :: tl')
             | None => None
             end
    end.

  Definition has_keys (c : closing) : bool := match cl_keys c with Some _ => true | None => false end.

  Definition step (w : world) (a : action) : world * outcome :=
    match a with
    | ACreate timeout identity offset ts now =>
        if (max_timeout <? timeout) || (timeout <? min_timeout) then (w, OInvalidTimeout)
        else
          match process_write wrapper_callbacks cfg (sw_db w) (create_request offset (meta_enc timeout identity)) offset ts with
          | (db', Err e) => (mkWorld db' (sw_sessions w) (sw_closing w), OFailed e)
          | (db', Ok resp) =>
              match wr_puts resp with
              | r :: _ =>
                  match pr_status r with
                  | OK => (mkWorld db' (put_sess (sw_sessions w) offset (mkSess timeout now)) (sw_closing w), OCreated offset)
                  | _ => (mkWorld db' (sw_sessions w) (sw_closing w), OFailed EPanic)   (* "invalid status": never for this request *)
                  end
              | [] => (mkWorld db' (sw_sessions w) (sw_closing w), OFailed EPanic)
              end
          end
    | AHeartbeat id now =>
        match find_sess (sw_sessions w) id with
        | Some s => (mkWorld (sw_db w) (put_sess (sw_sessions w) id (mkSess (ss_timeout s) now)) (sw_closing w), ODone)
        | None =>
            (* expiry path: still in sm.sessions, heartbeat channel already nil: accepted, no effect *)
            if existsb (fun c => (cl_id c =? id)%Z && cl_expired c) (sw_closing w) then (w, ODone) else (w, ONotFound)
        end
    | ATick now =>
        let dead := filter (fun x => expired now (snd x)) (sw_sessions w) in
        let live := filter (fun x => negb (expired now (snd x))) (sw_sessions w) in
        (mkWorld (sw_db w) live (sw_closing w ++ map (fun x => mkClosing (fst x) true None) dead), OExpired (map fst dead))
    | AClose id =>
        match find_sess (sw_sessions w) id with
        | Some _ => (mkWorld (sw_db w) (remove_sess (sw_sessions w) id) (sw_closing w ++ [mkClosing id false None]), ODone)
        | None =>
            (* an expired session whose delete() is still running is still in sm.sessions: CloseSession removes it, waits
               for the session goroutine (s.Close(): the first delete() has returned by then) and runs a second
               delete().  The model lets the two overlap: more interleavings than the code has, which is on the safe
               side for the theorems (they hold for every trace); no witness uses this branch. *)
            match take_closing cl_expired id (sw_closing w) with
            | Some (c, rest) =>
                (mkWorld (sw_db w) (sw_sessions w) (rest ++ [mkClosing id false (cl_keys c); mkClosing id false None]), ODone)
            | None => (w, ONotFound)
            end
        end
    | ACleanupList id =>
        match take_closing (fun c => negb (has_keys c)) id (sw_closing w) with
        | Some (c, rest) =>
            let keys := cleanup_list (sw_db w) id in
            (mkWorld (sw_db w) (sw_sessions w) (rest ++ [mkClosing id (cl_expired c) (Some keys)]), OListed keys)
        | None => (w, ONotEnabled)
        end
    | ACleanupWrite id offset ts =>
        match take_closing has_keys id (sw_closing w) with
        | Some (c, rest) =>
            let keys := match cl_keys c with Some ks => ks | None => [] end in
            let '(db', r) := process_write wrapper_callbacks cfg (sw_db w) (cleanup_request id keys) offset ts in
            (mkWorld db' (sw_sessions w) rest, OWritten r)
        | None => (w, ONotEnabled)
        end
    | AClientWrite req offset ts =>
        let '(db', r) := process_write wrapper_callbacks cfg (sw_db w) req offset ts in
        (mkWorld db' (sw_sessions w) (sw_closing w), OWritten r)
    | ALeaderChange term ts now =>
        let db' := update_term (sw_db w) term (st_notif (sw_db w)) ts in
        match leader_init db' now with
        | Ok l => (mkWorld db' l [], ODone)
        | Err e => (mkWorld db' [] [], OFailed e)
        end
    end.

  Fixpoint run_actions (w : world) (tr : list action) : world * list outcome :=
    match tr with
    | [] => (w, [])
    | a :: tl =>
        let '(w1, o) := step w a in
        let '(w2, os) := run_actions w1 tl in
        (w2, o :: os)
    end.

  Definition final (tr : list action) : world := fst (run_actions init_world tr).
End SessionManager.
