(* Db/C16_WaitProofs.v — proofs about Db/SeqWait.v:
     [cell_latest]            the override channel alone: after any interleaving of writes and receives, a receiver
                              that keeps receiving ends with the last value written
     [latest_observed_new]    DB + tracker as repaired: for every schedule, at quiescence the last value the
                              subscriber ends with is the highest key of the prefix in the committed DB, and
                              every value it ever saw is a committed key
     [latest_observed_old_refuted_*]  the code as it was: a stale last value, an uncommitted key, the empty key *)
From Coq Require Import List NArith Bool Lia.
From Oxia.Db Require Import Types SeqWait.
Import ListNotations.

(* ================================================================ the channel *)
Definition last_opt (l : list key) : option key := last (map Some l) None.

Lemma last_opt_snoc l v : last_opt (l ++ [v]) = Some v.
Proof. unfold last_opt. rewrite map_app. simpl. apply last_last. Qed.

Definition obs (st : cell * list key) : option key :=
  match fst st with Some v => Some v | None => last_opt (snd st) end.

Lemma obs_drain st : last_opt (drain st) = obs st.
Proof. destruct st as [[v|] seen]; unfold drain, obs; simpl; [apply last_opt_snoc|reflexivity]. Qed.

Definition last_write (ops : list cell_op) (init : option key) : option key :=
  fold_left (fun acc op => match op with CWrite v => Some v | CReceive => acc end) ops init.

Lemma obs_step st op : obs (cell_step st op) = match op with CWrite v => Some v | CReceive => obs st end.
Proof.
  destruct st as [[c|] seen]; destruct op as [v|]; unfold obs, cell_step, receive, write_last; simpl; try reflexivity.
  apply last_opt_snoc.
Qed.

Lemma obs_run ops : forall st, obs (fold_left cell_step ops st) = last_write ops (obs st).
Proof.
  unfold last_write. induction ops as [|op tl IH]; intro st; simpl; [reflexivity|].
  rewrite IH, obs_step. reflexivity.
Qed.

Lemma last_opt_nonnil (l : list key) : l <> [] -> exists v, last_opt l = Some v.
Proof.
  unfold last_opt. induction l as [|x l IH]; intro H; [congruence|].
  destruct l as [|y l]; [exists x; reflexivity|]. destruct IH as [v Hv]; [discriminate|]. exists v. exact Hv.
Qed.

Lemma last_opt_cons x (l : list key) : last_opt (x :: l) = match last_opt l with Some v => Some v | None => Some x end.
Proof.
  destruct l as [|y l]; [reflexivity|]. destruct (last_opt_nonnil (y :: l)) as [v Hv]; [discriminate|].
  rewrite Hv. unfold last_opt in *. exact Hv.
Qed.

Lemma last_write_writes ops : forall init,
  last_write ops init = match last_opt (writes_of ops) with Some v => Some v | None => init end.
Proof.
  unfold last_write. induction ops as [|op tl IH]; intro init; simpl; [reflexivity|].
  rewrite IH. destruct op as [v|]; simpl; [|reflexivity].
  rewrite last_opt_cons. destruct (last_opt (writes_of tl)); reflexivity.
Qed.

(* after ANY sequence of WriteLast and Receive, the receiver's last value (once it has taken what is still
   buffered) is the last value written *)
Theorem cell_latest ops st :
  writes_of ops <> [] -> last_opt (drain (fold_left cell_step ops st)) = last_opt (writes_of ops).
Proof.
  intro Hne. rewrite obs_drain, obs_run, last_write_writes.
  destruct (last_opt_nonnil _ Hne) as [v Hv]. rewrite Hv. reflexivity.
Qed.

(* ================================================================ DB + tracker, as repaired *)
Definition obs_sys (s : sys) : option key := obs (s_cell s, s_seen s).

Lemma last_observed_obs s : last_observed s = obs_sys s.
Proof. reflexivity. Qed.

Definition inv (s : sys) : Prop :=
  (forall k, s_topublish s = Some k -> hd_error (s_committed s) = Some k) /\
  (s_inflight s <> None -> s_topublish s = None) /\
  (Forall (fun v => In v (s_committed s)) (all_observed s)) /\
  match s_sub s with
  | SubIdle => s_registered s = false /\ s_cell s = None /\ s_seen s = []
  | SubRegistered => s_registered s = true /\ s_cell s = None /\ s_seen s = []
  | SubHasRead v => s_registered s = true /\ s_cell s = None /\ s_seen s = [] /\
                    (s_topublish s = None -> v = hd_error (s_committed s)) /\
                    (forall k, v = Some k -> In k (s_committed s))
  | SubDone => s_registered s = true /\ (s_topublish s = None -> obs_sys s = hd_error (s_committed s))
  end.

Lemma inv_init c : inv (init_sys c).
Proof.
  unfold inv, init_sys, all_observed; simpl.
  split; [intros k E; discriminate|]. split; [intro H; congruence|]. split; [constructor|]. repeat split.
Qed.

Lemma Forall_in_cons (k : key) l c : Forall (fun v => In v c) l -> Forall (fun v => In v (k :: c)) l.
Proof. intro H. eapply Forall_impl; [|exact H]. intros a Ha. right. exact Ha. Qed.

Lemma inv_step s a s' : inv s -> step_new s a = Some s' -> inv s'.
Proof.
  intros [Ha [Hb [Hc Hd]]] H. destruct a; simpl in H.
  - (* PutApply *)
    destruct (s_inflight s) eqn:I; [discriminate|]. destruct (s_topublish s) eqn:T; [discriminate|].
    inversion H; subst s'; clear H. unfold inv, all_observed in *; simpl in *.
    split; [intros k0 E; discriminate|]. split; [reflexivity|]. split; [exact Hc|].
    destruct (s_sub s); exact Hd.
  - (* PutFail *)
    destruct (s_inflight s) eqn:I; [discriminate|]. destruct (s_topublish s) eqn:T; [discriminate|].
    inversion H; subst s'. unfold inv. rewrite I, T. repeat split; assumption.
  - (* Commit *)
    destruct (s_inflight s) as [k|] eqn:I; [|discriminate]. inversion H; subst s'; clear H.
    assert (T : s_topublish s = None) by (apply Hb; discriminate).
    unfold inv, all_observed, obs_sys in *; simpl in *.
    split; [intros k0 E; inversion E; reflexivity|]. split; [intro C; congruence|].
    split; [apply Forall_in_cons; exact Hc|].
    destruct (s_sub s); try exact Hd.
    + destruct Hd as [R [C [S [V1 V2]]]]. repeat split; try assumption; try discriminate.
      intros k0 E. right. apply V2. exact E.
    + destruct Hd as [R V]. split; [exact R|discriminate].
  - (* Drop *)
    destruct (s_inflight s) as [k|] eqn:I; [|discriminate]. inversion H; subst s'; clear H.
    unfold inv, all_observed, obs_sys in *; simpl in *.
    split; [exact Ha|]. split; [intro C; congruence|]. split; [exact Hc|]. exact Hd.
  - (* Publish *)
    destruct (s_topublish s) as [k|] eqn:T; [|discriminate].
    pose proof (Ha k eq_refl) as Hk.
    assert (Hin : In k (s_committed s)).
    { destruct (s_committed s); simpl in Hk; [discriminate|]. inversion Hk; subst. left. reflexivity. }
    destruct (s_sub s) eqn:Su; try discriminate; inversion H; subst s'; clear H;
      unfold inv, all_observed, obs_sys, notify in *; simpl in *.
    + destruct Hd as [R [C S]]. rewrite R, C, S in *. simpl.
      split; [intros k0 E; discriminate|]. split; [intros _; reflexivity|]. split; [constructor|]. repeat split.
    + destruct Hd as [R V]. rewrite R in *. simpl.
      split; [intros k0 E; discriminate|]. split; [intros _; reflexivity|].
      split.
      * apply Forall_app. split; [|constructor; [exact Hin|constructor]].
        destruct (s_cell s); [apply Forall_app in Hc; apply Hc|exact Hc].
      * split; [reflexivity|]. intros _. unfold obs. simpl. symmetry. exact Hk.
  - (* SubRegister *)
    unfold sub_steps in H. destruct (s_sub s) eqn:Su; try discriminate. inversion H; subst s'; clear H.
    unfold inv, all_observed in *; simpl in *. destruct Hd as [R [C S]].
    split; [exact Ha|]. split; [exact Hb|]. split; [exact Hc|]. repeat split; assumption.
  - (* SubRead *)
    unfold sub_steps in H. destruct (s_sub s) eqn:Su; try discriminate. inversion H; subst s'; clear H.
    unfold inv, all_observed in *; simpl in *. destruct Hd as [R [C S]].
    split; [exact Ha|]. split; [exact Hb|]. split; [exact Hc|]. repeat split; try assumption.
    intros k E. destruct (s_committed s); simpl in E; [discriminate|]. inversion E; subst. left. reflexivity.
  - (* SubWrite *)
    unfold sub_steps in H. destruct (s_sub s) eqn:Su; try discriminate. inversion H; subst s'; clear H.
    unfold inv, all_observed, obs_sys in *; simpl in *. destruct Hd as [R [C [S [V1 V2]]]]. rewrite C, S in *.
    split; [exact Ha|]. split; [exact Hb|].
    destruct v as [k|]; simpl.
    + split; [constructor; [apply V2; reflexivity|constructor]|]. split; [exact R|].
      intro T. unfold obs. simpl. apply V1. exact T.
    + split; [constructor|]. split; [exact R|]. intro T. unfold obs. simpl. apply V1. exact T.
  - (* Receive *)
    unfold sub_steps in H. destruct (s_sub s) eqn:Su; try discriminate.
    unfold receive in H. destruct (s_cell s) as [v|] eqn:C; [|discriminate]. inversion H; subst s'; clear H.
    unfold inv, all_observed, obs_sys in *; simpl in *. rewrite C in *. destruct Hd as [R V].
    split; [exact Ha|]. split; [exact Hb|]. split; [exact Hc|]. split; [exact R|].
    intro T. rewrite <- (V T). unfold obs. simpl. apply last_opt_snoc.
Qed.

Lemma inv_run acts : forall s s', inv s -> run_sys step_new s acts = Some s' -> inv s'.
Proof.
  induction acts as [|a tl IH]; simpl; intros s s' Hi H; [inversion H; subst; exact Hi|].
  destruct (step_new s a) as [s1|] eqn:E; [|discriminate]. eapply IH; [eapply inv_step; eassumption|exact H].
Qed.

(* For every schedule of the writer, the subscriber and the receiver, starting from any committed DB: once
   nothing is in progress, the receiver (taking what is still buffered) ends with the highest committed
   key of the prefix (nothing if there is none), and never saw anything but committed keys. *)
Theorem latest_observed_new committed acts s :
  run_sys step_new (init_sys committed) acts = Some s -> quiescent s ->
  last_observed s = hd_error (s_committed s) /\ Forall (fun v => In v (s_committed s)) (all_observed s).
Proof.
  intros H [Q1 [Q2 Q3]]. pose proof (inv_run acts _ _ (inv_init committed) H) as [_ [_ [Hc Hd]]].
  rewrite Q3 in Hd. destruct Hd as [_ V]. split; [rewrite last_observed_obs; apply V; exact Q2|exact Hc].
Qed.

(* non-vacuity: the schedule that defeats the old code (below) is a schedule of the new code too, with
   Publish after the subscriber's write *)
Definition K5 : key := [53]%N.
Definition K6 : key := [54]%N.
Example ex_new_schedule :
  exists s, run_sys step_new (init_sys [K5]) [SubRegister; SubRead; PutApply K6; Commit; SubWrite; Publish; Receive] = Some s /\
            quiescent s /\ last_observed s = Some K6.
Proof. eexists. split; [vm_compute; reflexivity|]. repeat split. Qed.

(* ================================================================ the code as it was (O-16) *)
(* the subscriber registers and reads K5; a write generates K6, tells the waiters, commits; the subscriber then
   writes what it read: the latest value is the OLDER key, for as long as no other put comes *)
Theorem latest_observed_old_refuted_stale :
  exists acts s, run_sys step_old (init_sys [K5]) acts = Some s /\ quiescent s /\
                 last_observed s = Some K5 /\ hd_error (s_committed s) = Some K6.
Proof.
  exists [SubRegister; SubRead; PutApply K6; Commit; SubWrite]. eexists. split; [vm_compute; reflexivity|].
  repeat split.
Qed.

(* the waiters are told a key of a batch that is then dropped: the receiver holds a key that does not exist *)
Theorem latest_observed_old_refuted_uncommitted :
  exists acts s, run_sys step_old (init_sys []) acts = Some s /\ quiescent s /\
                 last_observed s = Some K6 /\ s_committed s = [].
Proof.
  exists [SubRegister; SubRead; SubWrite; PutApply K6; Drop]. eexists. split; [vm_compute; reflexivity|].
  repeat split.
Qed.

(* a put that fails tells the waiters the empty key *)
Theorem latest_observed_old_refuted_empty_key :
  exists acts s, run_sys step_old (init_sys [K5]) acts = Some s /\ quiescent s /\ last_observed s = Some [].
Proof.
  exists [SubRegister; SubRead; SubWrite; PutFail]. eexists. split; [vm_compute; reflexivity|]. repeat split.
Qed.
