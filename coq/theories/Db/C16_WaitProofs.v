(* Db/C16_WaitProofs.v — proofs about Db/SeqWait.v:
     [cell_latest]            the override channel alone: after any interleaving of writes and receives, a receiver
                              that keeps receiving ends with the last value written
     [latest_observed_new]    DB + tracker as repaired: for every schedule, at quiescence the last value the
                              subscriber ends with is the highest key of the prefix in the committed DB, and
                              every value it ever saw is a committed key
     [latest_observed_old_refuted_*]  the code as it was: a stale last value, an uncommitted key, the empty key *)
From Coq Require Import List NArith Bool Lia PeanoNat.
From Oxia.Db Require Import Types SeqWait.
Import ListNotations.

(* ================================================================ the channel *)
Definition last_opt (l : list key) : option key := last (map Some l) None.

Lemma last_opt_snoc l v : last_opt (l ++ [v]) = Some v.
Proof. unfold last_opt. rewrite map_app. simpl. apply last_last. Qed.

Definition obs (st : cell * list key) : option key :=
  match fst st with Some v => Some v | None => last_opt (snd st) end.

Lemma obs_drain st : last_opt (drain st) = obs st.
Proof. destruct st as [[v|] seen]; unfold drain, obs; simpl; [apply last_opt_snoc|reflexivity]. Qed.

Definition last_write (ops : list cell_op) (init : option key) : option key :=
  fold_left (fun acc op => match op with CWrite v => Some v | CReceive => acc end) ops init.

Lemma obs_step st op : obs (cell_step st op) = match op with CWrite v => Some v | CReceive => obs st end.
Proof.
  destruct st as [[c|] seen]; destruct op as [v|]; unfold obs, cell_step, receive, write_last; simpl; try reflexivity.
  apply last_opt_snoc.
Qed.

Lemma obs_run ops : forall st, obs (fold_left cell_step ops st) = last_write ops (obs st).
Proof.
  unfold last_write. induction ops as [|op tl IH]; intro st; simpl; [reflexivity|].
  rewrite IH, obs_step. reflexivity.
Qed.

Lemma last_opt_nonnil (l : list key) : l <> [] -> exists v, last_opt l = Some v.
Proof.
  unfold last_opt. induction l as [|x l IH]; intro H; [congruence|].
  destruct l as [|y l]; [exists x; reflexivity|]. destruct IH as [v Hv]; [discriminate|]. exists v. exact Hv.
Qed.

Lemma last_opt_cons x (l : list key) : last_opt (x :: l) = match last_opt l with Some v => Some v | None => Some x end.
Proof.
  destruct l as [|y l]; [reflexivity|]. destruct (last_opt_nonnil (y :: l)) as [v Hv]; [discriminate|].
  rewrite Hv. unfold last_opt in *. exact Hv.
Qed.

Lemma last_write_writes ops : forall init,
  last_write ops init = match last_opt (writes_of ops) with Some v => Some v | None => init end.
Proof.
  unfold last_write. induction ops as [|op tl IH]; intro init; simpl; [reflexivity|].
  rewrite IH. destruct op as [v|]; simpl; [|reflexivity].
  rewrite last_opt_cons. destruct (last_opt (writes_of tl)); reflexivity.
Qed.

(* after ANY sequence of WriteLast and Receive, the receiver's last value (once it has taken what is still
   buffered) is the last value written *)
Theorem cell_latest ops st :
  writes_of ops <> [] -> last_opt (drain (fold_left cell_step ops st)) = last_opt (writes_of ops).
Proof.
  intro Hne. rewrite obs_drain, obs_run, last_write_writes.
  destruct (last_opt_nonnil _ Hne) as [v Hv]. rewrite Hv. reflexivity.
Qed.

(* ================================================================ DB + tracker, as repaired *)
Definition obs_sys (s : sys) : option key := obs (s_cell s, s_seen s).

Lemma last_observed_obs s : last_observed s = obs_sys s.
Proof. reflexivity. Qed.

Definition inv (s : sys) : Prop :=
  (forall k, s_topublish s = Some k -> hd_error (s_committed s) = Some k) /\
  (s_inflight s <> None -> s_topublish s = None) /\
  (Forall (fun v => In v (s_committed s)) (all_observed s)) /\
  match s_sub s with
  | SubIdle => s_registered s = false /\ s_cell s = None /\ s_seen s = []
  | SubRegistered => s_registered s = true /\ s_cell s = None /\ s_seen s = []
  | SubHasRead v => s_registered s = true /\ s_cell s = None /\ s_seen s = [] /\
                    (s_topublish s = None -> v = hd_error (s_committed s)) /\
                    (forall k, v = Some k -> In k (s_committed s))
  | SubDone => s_registered s = true /\ (s_topublish s = None -> obs_sys s = hd_error (s_committed s))
  end.

Lemma inv_init c : inv (init_sys c).
Proof.
  unfold inv, init_sys, all_observed; simpl.
  split; [intros k E; discriminate|]. split; [intro H; congruence|]. split; [constructor|]. repeat split.
Qed.

Lemma Forall_in_cons (k : key) l c : Forall (fun v => In v c) l -> Forall (fun v => In v (k :: c)) l.
Proof. intro H. eapply Forall_impl; [|exact H]. intros a Ha. right. exact Ha. Qed.

Lemma inv_step s a s' : inv s -> step_new s a = Some s' -> inv s'.
Proof.
  intros [Ha [Hb [Hc Hd]]] H. destruct a; simpl in H.
  - (* PutApply *)
    destruct (s_inflight s) eqn:I; [discriminate|]. destruct (s_topublish s) eqn:T; [discriminate|].
    inversion H; subst s'; clear H. unfold inv, all_observed in *; simpl in *.
    split; [intros k0 E; discriminate|]. split; [reflexivity|]. split; [exact Hc|].
    destruct (s_sub s); exact Hd.
  - (* PutFail *)
    destruct (s_inflight s) eqn:I; [discriminate|]. destruct (s_topublish s) eqn:T; [discriminate|].
    inversion H; subst s'. unfold inv. rewrite I, T. repeat split; assumption.
  - (* Commit *)
    destruct (s_inflight s) as [k|] eqn:I; [|discriminate]. inversion H; subst s'; clear H.
    assert (T : s_topublish s = None) by (apply Hb; discriminate).
    unfold inv, all_observed, obs_sys in *; simpl in *.
    split; [intros k0 E; inversion E; reflexivity|]. split; [intro C; congruence|].
    split; [apply Forall_in_cons; exact Hc|].
    destruct (s_sub s); try exact Hd.
    + destruct Hd as [R [C [S [V1 V2]]]]. repeat split; try assumption; try discriminate.
      intros k0 E. right. apply V2. exact E.
    + destruct Hd as [R V]. split; [exact R|discriminate].
  - (* Drop *)
    destruct (s_inflight s) as [k|] eqn:I; [|discriminate]. inversion H; subst s'; clear H.
    unfold inv, all_observed, obs_sys in *; simpl in *.
    split; [exact Ha|]. split; [intro C; congruence|]. split; [exact Hc|]. exact Hd.
  - (* Publish *)
    destruct (s_topublish s) as [k|] eqn:T; [|discriminate].
    pose proof (Ha k eq_refl) as Hk.
    assert (Hin : In k (s_committed s)).
    { destruct (s_committed s); simpl in Hk; [discriminate|]. inversion Hk; subst. left. reflexivity. }
    destruct (s_sub s) eqn:Su; try discriminate; inversion H; subst s'; clear H;
      unfold inv, all_observed, obs_sys, notify in *; simpl in *.
    + destruct Hd as [R [C S]]. rewrite R, C, S in *. simpl.
      split; [intros k0 E; discriminate|]. split; [intros _; reflexivity|]. split; [constructor|]. repeat split.
    + destruct Hd as [R V]. rewrite R in *. simpl.
      split; [intros k0 E; discriminate|]. split; [intros _; reflexivity|].
      split.
      * apply Forall_app. split; [|constructor; [exact Hin|constructor]].
        destruct (s_cell s); [apply Forall_app in Hc; apply Hc|exact Hc].
      * split; [reflexivity|]. intros _. unfold obs. simpl. symmetry. exact Hk.
  - (* SubRegister *)
    unfold sub_steps in H. destruct (s_sub s) eqn:Su; try discriminate. inversion H; subst s'; clear H.
    unfold inv, all_observed in *; simpl in *. destruct Hd as [R [C S]].
    split; [exact Ha|]. split; [exact Hb|]. split; [exact Hc|]. repeat split; assumption.
  - (* SubRead *)
    unfold sub_steps in H. destruct (s_sub s) eqn:Su; try discriminate. inversion H; subst s'; clear H.
    unfold inv, all_observed in *; simpl in *. destruct Hd as [R [C S]].
    split; [exact Ha|]. split; [exact Hb|]. split; [exact Hc|]. repeat split; try assumption.
    intros k E. destruct (s_committed s); simpl in E; [discriminate|]. inversion E; subst. left. reflexivity.
  - (* SubWrite *)
    unfold sub_steps in H. destruct (s_sub s) eqn:Su; try discriminate. inversion H; subst s'; clear H.
    unfold inv, all_observed, obs_sys in *; simpl in *. destruct Hd as [R [C [S [V1 V2]]]]. rewrite C, S in *.
    split; [exact Ha|]. split; [exact Hb|].
    destruct v as [k|]; simpl.
    + split; [constructor; [apply V2; reflexivity|constructor]|]. split; [exact R|].
      intro T. unfold obs. simpl. apply V1. exact T.
    + split; [constructor|]. split; [exact R|]. intro T. unfold obs. simpl. apply V1. exact T.
  - (* Receive *)
    unfold sub_steps in H. destruct (s_sub s) eqn:Su; try discriminate.
    unfold receive in H. destruct (s_cell s) as [v|] eqn:C; [|discriminate]. inversion H; subst s'; clear H.
    unfold inv, all_observed, obs_sys in *; simpl in *. rewrite C in *. destruct Hd as [R V].
    split; [exact Ha|]. split; [exact Hb|]. split; [exact Hc|]. split; [exact R|].
    intro T. rewrite <- (V T). unfold obs. simpl. apply last_opt_snoc.
Qed.

Lemma inv_run acts : forall s s', inv s -> run_sys step_new s acts = Some s' -> inv s'.
Proof.
  induction acts as [|a tl IH]; simpl; intros s s' Hi H; [inversion H; subst; exact Hi|].
  destruct (step_new s a) as [s1|] eqn:E; [|discriminate]. eapply IH; [eapply inv_step; eassumption|exact H].
Qed.

(* For every schedule of the writer, the subscriber and the receiver, starting from any committed DB: once
   nothing is in progress, the receiver (taking what is still buffered) ends with the highest committed
   key of the prefix (nothing if there is none), and never saw anything but committed keys. *)
Theorem latest_observed_new committed acts s :
  run_sys step_new (init_sys committed) acts = Some s -> quiescent s ->
  last_observed s = hd_error (s_committed s) /\ Forall (fun v => In v (s_committed s)) (all_observed s).
Proof.
  intros H [Q1 [Q2 Q3]]. pose proof (inv_run acts _ _ (inv_init committed) H) as [_ [_ [Hc Hd]]].
  rewrite Q3 in Hd. destruct Hd as [_ V]. split; [rewrite last_observed_obs; apply V; exact Q2|exact Hc].
Qed.

(* non-vacuity: the schedule that defeats the old code (below) is a schedule of the new code too, with
   Publish after the subscriber's write *)
Definition K5 : key := [53]%N.
Definition K6 : key := [54]%N.
Example ex_new_schedule :
  exists s, run_sys step_new (init_sys [K5]) [SubRegister; SubRead; PutApply K6; Commit; SubWrite; Publish; Receive] = Some s /\
            quiescent s /\ last_observed s = Some K6.
Proof. eexists. split; [vm_compute; reflexivity|]. repeat split. Qed.

(* ================================================================ the code as it was (O-16) *)
(* the subscriber registers and reads K5; a write generates K6, tells the waiters, commits; the subscriber then
   writes what it read: the latest value is the OLDER key, for as long as no other put comes *)
Theorem latest_observed_old_refuted_stale :
  exists acts s, run_sys step_old (init_sys [K5]) acts = Some s /\ quiescent s /\
                 last_observed s = Some K5 /\ hd_error (s_committed s) = Some K6.
Proof.
  exists [SubRegister; SubRead; PutApply K6; Commit; SubWrite]. eexists. split; [vm_compute; reflexivity|].
  repeat split.
Qed.

(* the waiters are told a key of a batch that is then dropped: the receiver holds a key that does not exist *)
Theorem latest_observed_old_refuted_uncommitted :
  exists acts s, run_sys step_old (init_sys []) acts = Some s /\ quiescent s /\
                 last_observed s = Some K6 /\ s_committed s = [].
Proof.
  exists [SubRegister; SubRead; SubWrite; PutApply K6; Drop]. eexists. split; [vm_compute; reflexivity|].
  repeat split.
Qed.

(* a put that fails tells the waiters the empty key *)
Theorem latest_observed_old_refuted_empty_key :
  exists acts s, run_sys step_old (init_sys [K5]) acts = Some s /\ quiescent s /\ last_observed s = Some [].
Proof.
  exists [SubRegister; SubRead; SubWrite; PutFail]. eexists. split; [vm_compute; reflexivity|]. repeat split.
Qed.

(* ================================================================ several waiters, subscribe / close in any order *)
Lemma key_eq_refl p : key_eq p p = true.
Proof. unfold key_eq. destruct (list_eq_dec N.eq_dec p p); congruence. Qed.

Lemma NoDup_map_eq {A B} (f : A -> B) (l : list A) x y :
  NoDup (map f l) -> In x l -> In y l -> f x = f y -> x = y.
Proof.
  induction l as [|a l IH]; simpl; intros Hn Hx Hy E; [contradiction|].
  inversion Hn as [|? ? Hna Hn']; subst.
  destruct Hx as [->|Hx]; destruct Hy as [->|Hy]; try reflexivity.
  - exfalso. apply Hna. rewrite E. apply in_map. exact Hy.
  - exfalso. apply Hna. rewrite <- E. apply in_map. exact Hx.
  - apply IH; assumption.
Qed.

Definition tinv (t : tracker) : Prop :=
  (forall s, In s (t_subs t) -> (sb_id s <= t_next t)%N /\ (sb_h s < length (t_subs t))%nat) /\
  NoDup (map sb_id (t_subs t)) /\ NoDup (map sb_h (t_subs t)) /\
  (forall s, In s (t_subs t) -> sb_reg s = sb_open s) /\
  (forall s, In s (t_subs t) -> sb_open s = true -> sub_last s = sb_exp s).

Lemma tinv_init : tinv init_tracker.
Proof.
  unfold tinv, init_tracker; simpl.
  split; [intros s H; contradiction|]. split; [constructor|]. split; [constructor|].
  split; intros s H; contradiction.
Qed.

Lemma NoDup_app_snoc {A} (l : list A) x : NoDup l -> ~ In x l -> NoDup (l ++ [x]).
Proof.
  induction l as [|a l IH]; simpl; intros Hn Hx; [constructor; [intros []|constructor]|].
  inversion Hn; subst. constructor.
  - intro Hin. apply in_app_or in Hin. destruct Hin as [Hin|[->|[]]]; [contradiction|]. apply Hx. left. reflexivity.
  - apply IH; [assumption|]. intro Hin. apply Hx. right. exact Hin.
Qed.

Lemma sub_eq_dec (a b : sub) : {a = b} + {a <> b}.
Proof. repeat decide equality. Qed.

Lemma find_some_in {A} (f : A -> bool) l x : find f l = Some x -> In x l /\ f x = true.
Proof. apply find_some. Qed.

Lemma tinv_step t a : tinv t -> tinv (tstep alloc_counter t a).
Proof.
  intros [Hb [Hi [Hh [Hr He]]]]. destruct a as [p init|h|p k|h]; simpl.
  - (* TAdd: the new id is above every id in use, nothing is replaced *)
    assert (Same : map (fun s => if same_slot p (alloc_counter t p) s then set_reg s false else s) (t_subs t) = t_subs t).
    { rewrite <- (map_id (t_subs t)) at 2. apply map_ext_in. intros s Hs. unfold same_slot, alloc_counter.
      destruct (Hb s Hs) as [Hle _]. replace (N.succ (t_next t) =? sb_id s)%N with false; [rewrite andb_false_r; reflexivity|].
      symmetry. apply N.eqb_neq. lia. }
    rewrite Same. unfold tinv; simpl. rewrite !map_app, app_length. simpl.
    split; [|split; [|split; [|split]]].
    + intros s Hs. apply in_app_or in Hs. destruct Hs as [Hs|[<-|[]]]; simpl.
      * destruct (Hb s Hs). split; lia.
      * unfold alloc_counter. split; lia.
    + apply NoDup_app_snoc; [exact Hi|]. intro Hin. apply in_map_iff in Hin. destruct Hin as [s [E Hs]].
      destruct (Hb s Hs) as [Hle _]. unfold alloc_counter in E. lia.
    + apply NoDup_app_snoc; [exact Hh|]. intro Hin. apply in_map_iff in Hin. destruct Hin as [s [E Hs]].
      destruct (Hb s Hs) as [_ Hlt]. lia.
    + intros s Hs. apply in_app_or in Hs. destruct Hs as [Hs|[<-|[]]]; [apply Hr; exact Hs|reflexivity].
    + intros s Hs Ho. apply in_app_or in Hs. destruct Hs as [Hs|[<-|[]]]; [apply He; assumption|].
      unfold sub_last. simpl. destruct init; reflexivity.
  - (* TClose *)
    destruct (find (fun s => Nat.eqb (sb_h s) h) (t_subs t)) as [s0|] eqn:F; [|exact (conj Hb (conj Hi (conj Hh (conj Hr He))))].
    destruct (find_some_in _ _ _ F) as [Hs0 Hh0]. apply Nat.eqb_eq in Hh0.
    destruct (sb_open s0) eqn:O0; [|exact (conj Hb (conj Hi (conj Hh (conj Hr He))))].
    set (G := fun s : sub =>
                let s1 := if same_slot (sb_pfx s0) (sb_id s0) s then set_reg s false else s in
                if Nat.eqb (sb_h s1) h
                then mkSub (sb_h s1) (sb_pfx s1) (sb_id s1) false (sb_reg s1) (sb_cell s1) (sb_seen s1) (sb_exp s1)
                else s1).
    assert (Gid : forall s, sb_id (G s) = sb_id s /\ sb_h (G s) = sb_h s).
    { intro s. unfold G. destruct (same_slot _ _ s); simpl; destruct (Nat.eqb _ h); simpl; split; reflexivity. }
    assert (Gother : forall s, In s (t_subs t) -> s <> s0 -> G s = s).
    { intros s Hs Hne. unfold G.
      assert (S : same_slot (sb_pfx s0) (sb_id s0) s = false).
      { unfold same_slot. destruct (N.eqb (sb_id s0) (sb_id s)) eqn:E; [|apply andb_false_r].
        apply N.eqb_eq in E. exfalso. apply Hne. eapply (NoDup_map_eq sb_id); eauto. }
      rewrite S. destruct (Nat.eqb (sb_h s) h) eqn:E; [|reflexivity].
      apply Nat.eqb_eq in E. exfalso. apply Hne. eapply (NoDup_map_eq sb_h); eauto. congruence. }
    assert (G0 : sb_open (G s0) = false /\ sb_reg (G s0) = false).
    { unfold G. unfold same_slot. rewrite key_eq_refl, N.eqb_refl. simpl. rewrite Hh0, Nat.eqb_refl. simpl. split; reflexivity. }
    unfold tinv; simpl. rewrite map_length.
    assert (Mi : map sb_id (map G (t_subs t)) = map sb_id (t_subs t)).
    { rewrite map_map. apply map_ext. intro s. apply Gid. }
    assert (Mh : map sb_h (map G (t_subs t)) = map sb_h (t_subs t)).
    { rewrite map_map. apply map_ext. intro s. apply Gid. }
    rewrite Mi, Mh. split; [|split; [exact Hi|split; [exact Hh|split]]].
    + intros s' Hs'. apply in_map_iff in Hs'. destruct Hs' as [s [<- Hs]]. destruct (Gid s) as [-> ->]. apply Hb. exact Hs.
    + intros s' Hs'. apply in_map_iff in Hs'. destruct Hs' as [s [<- Hs]].
      destruct (sub_eq_dec s s0) as [->|Hne]; [destruct G0 as [-> ->]; reflexivity|].
      rewrite (Gother s Hs Hne). apply Hr. exact Hs.
    + intros s' Hs' Ho. apply in_map_iff in Hs'. destruct Hs' as [s [<- Hs]].
      destruct (sub_eq_dec s s0) as [->|Hne]; [destruct G0 as [C _]; congruence|].
      rewrite (Gother s Hs Hne) in *. apply He; assumption.
  - (* TUpdate *)
    unfold tinv; simpl. rewrite map_length, !map_map. simpl.
    split; [|split; [exact Hi|split; [exact Hh|split]]].
    + intros s' Hs'. apply in_map_iff in Hs'. destruct Hs' as [s [<- Hs]]. simpl. apply Hb. exact Hs.
    + intros s' Hs'. apply in_map_iff in Hs'. destruct Hs' as [s [<- Hs]]. simpl. apply Hr. exact Hs.
    + intros s' Hs' Ho. apply in_map_iff in Hs'. destruct Hs' as [s [<- Hs]]. simpl in *.
      rewrite (Hr s Hs), Ho. simpl. destruct (key_eq p (sb_pfx s)); unfold sub_last; simpl; [reflexivity|].
      apply (He s Hs Ho).
  - (* TReceive *)
    set (G := fun s : sub =>
                if Nat.eqb (sb_h s) h && sb_open s then
                  match sb_cell s with
                  | Some v => mkSub (sb_h s) (sb_pfx s) (sb_id s) (sb_open s) (sb_reg s) None (sb_seen s ++ [v]) (sb_exp s)
                  | None => s
                  end
                else s).
    assert (Gf : forall s, sb_id (G s) = sb_id s /\ sb_h (G s) = sb_h s /\ sb_open (G s) = sb_open s /\ sb_reg (G s) = sb_reg s /\
                           sb_exp (G s) = sb_exp s /\ sub_last (G s) = sub_last s).
    { intro s. unfold G. destruct (Nat.eqb (sb_h s) h && sb_open s); [|repeat split].
      destruct (sb_cell s) as [v|] eqn:C; [|repeat split]. simpl. repeat split.
      unfold sub_last. simpl. rewrite C. apply last_opt_snoc. }
    unfold tinv; simpl. rewrite map_length.
    assert (Mi : map sb_id (map G (t_subs t)) = map sb_id (t_subs t)).
    { rewrite map_map. apply map_ext. intro s. apply Gf. }
    assert (Mh : map sb_h (map G (t_subs t)) = map sb_h (t_subs t)).
    { rewrite map_map. apply map_ext. intro s. apply Gf. }
    rewrite Mi, Mh. split; [|split; [exact Hi|split; [exact Hh|split]]].
    + intros s' Hs'. apply in_map_iff in Hs'. destruct Hs' as [s [<- Hs]]. destruct (Gf s) as [-> [-> _]]. apply Hb. exact Hs.
    + intros s' Hs'. apply in_map_iff in Hs'. destruct Hs' as [s [<- Hs]]. destruct (Gf s) as [_ [_ [-> [-> _]]]]. apply Hr. exact Hs.
    + intros s' Hs' Ho. apply in_map_iff in Hs'. destruct Hs' as [s [<- Hs]].
      destruct (Gf s) as [_ [_ [Eo [_ [-> ->]]]]]. rewrite Eo in Ho. apply He; assumption.
Qed.

Lemma tinv_run acts : tinv (trun alloc_counter acts).
Proof.
  unfold trun. assert (H : tinv init_tracker) by apply tinv_init. revert H. generalize init_tracker.
  induction acts as [|a tl IH]; simpl; intros t H; [exact H|]. apply IH, tinv_step, H.
Qed.

(* Any number of subscribers on any prefixes, subscribing, closing, receiving and being published to in ANY
   order: every subscriber that is still open ends (once its receiver has taken what is buffered) with the value the
   specification assigns to it - its initial value, then the last key published for its prefix since it subscribed. *)
Theorem tracker_latest_observed acts s :
  In s (t_subs (trun alloc_counter acts)) -> sb_open s = true -> sub_last s = sb_exp s.
Proof. intros Hs Ho. destruct (tinv_run acts) as [_ [_ [_ [_ He]]]]. apply He; assumption. Qed.

(* a closed subscriber is out of the map: nothing is written to it any more *)
Theorem tracker_closed_unregistered acts s :
  In s (t_subs (trun alloc_counter acts)) -> sb_open s = false -> sb_reg s = false.
Proof. intros Hs Ho. destruct (tinv_run acts) as [_ [_ [_ [Hr _]]]]. rewrite (Hr s Hs). exact Ho. Qed.

(* ids that are only unique among the waiters currently registered for the prefix (len(im)+1): A and B subscribe,
   A closes, C subscribes and takes B's slot; B stays open and misses every later key *)
Definition kp : key := [112]%N.
Theorem tracker_latest_observed_len_ids_refuted :
  exists acts s, In s (t_subs (trun alloc_len acts)) /\ sb_open s = true /\ sb_h s = 1%nat /\
                 sb_exp s = Some K6 /\ sub_last s = Some K5.
Proof.
  exists [TAdd kp (Some K5); TAdd kp (Some K5); TClose 0; TAdd kp (Some K5); TUpdate kp K6].
  eexists. split; [vm_compute; right; left; reflexivity|]. repeat split.
Qed.

(* ================================================================ WriteLast under a concurrent reader *)
(* no step of the writer ever waits ... *)
Lemma ch_wstep_enabled c : ch_pc c <> WIdle -> (forall v, ch_pc c <> WBlockDrain v) -> (forall v, ch_pc c <> WBlockSend v) ->
  exists c', ch_wstep false c = Some c'.
Proof.
  intros H1 H2 H3. unfold ch_wstep. destruct (ch_pc c) as [|v|v|v|v]; try congruence.
  - destruct (ch_slot c); eauto.
  - eauto.
Qed.

(* the code's writer only visits its own three program points *)
Definition ch_code_pc (c : chan) : Prop := match ch_pc c with WBlockDrain _ | WBlockSend _ => False | _ => True end.

Lemma ch_code_pc_step c a c' : ch_code_pc c -> ch_step false c a = Some c' -> ch_code_pc c'.
Proof.
  unfold ch_code_pc. destruct a as [v| |]; simpl.
  - unfold ch_start. destruct (ch_pc c); intros H E; inversion E; subst; simpl; exact I.
  - unfold ch_wstep. destruct (ch_pc c) as [|v|v|v|v]; intros H E; try discriminate; try contradiction.
    + destruct (ch_slot c); inversion E; subst; simpl; exact I.
    + inversion E; subst; simpl. exact I.
  - unfold ch_rstep. intros H E. inversion E; subst. destruct (ch_slot c); simpl; exact H.
Qed.

(* ... and it is done after at most three of its own steps, whatever the reader does in between: every writer step
   lowers the measure, no reader step raises it, and it starts at 3 or less *)
Lemma ch_measure_writer c c' : ch_code_pc c -> ch_wstep false c = Some c' -> (ch_measure c' < ch_measure c)%nat.
Proof.
  unfold ch_code_pc, ch_wstep, ch_measure. destruct c as [slot pc seen lst]; simpl.
  destruct pc as [|v|v|v|v]; intros H E; try discriminate; try contradiction.
  - destruct slot; inversion E; subst; simpl; auto with arith.
  - inversion E; subst; simpl. auto with arith.
Qed.

Lemma ch_measure_reader c : (ch_measure (ch_rstep c) <= ch_measure c)%nat.
Proof. unfold ch_rstep, ch_measure. destruct c as [slot pc seen lst]; simpl. destruct slot, pc; simpl; lia. Qed.

Lemma ch_measure_bound c : (ch_measure c <= 3)%nat.
Proof. unfold ch_measure. destruct (ch_pc c), (ch_slot c); lia. Qed.

Lemma ch_measure_idle c : ch_measure c = 0%nat <-> ch_pc c = WIdle.
Proof. unfold ch_measure. destruct (ch_pc c), (ch_slot c); split; intro H; try reflexivity; try discriminate; lia. Qed.

(* WriteLast never blocks: in every state the code can reach, the writer in progress has an enabled step; each of its
   steps brings it strictly closer to returning, the reader cannot push it back, and three steps always suffice *)
Theorem write_last_never_blocks acts c :
  ch_run false init_chan acts = Some c ->
  (ch_pc c <> WIdle -> exists c', ch_wstep false c = Some c' /\ (ch_measure c' < ch_measure c)%nat) /\
  (ch_measure (ch_rstep c) <= ch_measure c)%nat /\ (ch_measure c <= 3)%nat.
Proof.
  intro R.
  assert (P : ch_code_pc c).
  { assert (G : forall c0, ch_code_pc c0 -> ch_run false c0 acts = Some c -> ch_code_pc c).
    { clear R. induction acts as [|a tl IH]; simpl; intros c0 H0 E; [inversion E; subst; exact H0|].
      destruct (ch_step false c0 a) as [c1|] eqn:S; [|discriminate]. eapply IH; [eapply ch_code_pc_step; eassumption|exact E]. }
    apply (G init_chan); [exact I|exact R]. }
  split; [|split; [apply ch_measure_reader|apply ch_measure_bound]].
  intro Hn. destruct (ch_wstep_enabled c Hn) as [c' E].
  - intros v Hv. unfold ch_code_pc in P. rewrite Hv in P. exact P.
  - intros v Hv. unfold ch_code_pc in P. rewrite Hv in P. exact P.
  - exists c'. split; [exact E|apply ch_measure_writer; assumption].
Qed.

(* when no WriteLast is in progress, the slot holds the value of the last WriteLast that returned, or the reader took
   it already (and nothing newer exists) *)
Definition ch_inv (c : chan) : Prop := ch_pc c = WIdle -> ch_obs c = ch_last c.

Lemma ch_obs_rstep c : ch_obs (ch_rstep c) = ch_obs c.
Proof. unfold ch_obs, ch_rstep. destruct c as [slot pc seen lst]; simpl. destruct slot as [x|]; simpl; [apply last_opt_snoc|reflexivity]. Qed.

Lemma ch_inv_step b c a c' : ch_inv c -> ch_step b c a = Some c' -> ch_inv c'.
Proof.
  unfold ch_inv. destruct a as [v| |]; simpl.
  - unfold ch_start. destruct (ch_pc c); intros H E; inversion E; subst; simpl; discriminate.
  - unfold ch_wstep. destruct (ch_pc c) as [|v|v|v|v]; intros H E; try discriminate.
    + destruct (ch_slot c); inversion E; subst; simpl; [destruct b; discriminate|reflexivity].
    + inversion E; subst; simpl. discriminate.
    + destruct (ch_slot c); inversion E; subst; simpl. discriminate.
    + destruct (ch_slot c); inversion E; subst; simpl. reflexivity.
  - intros H E. inversion E; subst. rewrite ch_obs_rstep. unfold ch_rstep. destruct (ch_slot c); simpl; exact H.
Qed.

Theorem write_last_leaves_latest acts c :
  ch_run false init_chan acts = Some c -> ch_pc c = WIdle -> ch_obs c = ch_last c.
Proof.
  assert (G : forall c0, ch_inv c0 -> ch_run false c0 acts = Some c -> ch_inv c).
  { induction acts as [|a tl IH]; simpl; intros c0 H0 E; [inversion E; subst; exact H0|].
    destruct (ch_step false c0 a) as [c1|] eqn:S; [|discriminate]. eapply IH; [eapply ch_inv_step; eassumption|exact E]. }
  intro R. apply (G init_chan); [intros _; reflexivity|exact R].
Qed.

(* the single-select variant: the reader takes the value between the failed send and the blocking receive; the writer
   then waits on an empty slot, holding the mutex: nobody can ever fill it (the reader does not write, other writers
   wait for the mutex), and no reader step changes that *)
Theorem write_last_blocking_variant_refuted :
  exists acts c, ch_run true init_chan acts = Some c /\ ch_pc c <> WIdle /\ ch_wstep true c = None /\
                 (forall n, ch_wstep true (Nat.iter n ch_rstep c) = None).
Proof.
  exists [CStart K5; CWriter; CStart K6; CWriter; CReader]. eexists. split; [vm_compute; reflexivity|].
  split; [discriminate|]. split; [reflexivity|].
  intro n. assert (E : forall m, Nat.iter m ch_rstep (mkChan None (WBlockDrain K6) [K5] (Some K5)) = mkChan None (WBlockDrain K6) [K5] (Some K5)).
  { induction m as [|m IH]; simpl; [reflexivity|rewrite IH; reflexivity]. }
  rewrite E. reflexivity.
Qed.
