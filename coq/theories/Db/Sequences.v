(* Db/Sequences.v — server/kv/db_sequences.go: generateUniqueKeyFromSequences / findCurrentLastKeyInSequence.

   The new key is   prefix ++ "-" ++ %020d (last_0 + delta_0) ++ "-" ++ %020d (last_1 + delta_1) ...
   where last_i is the i-th "-"-separated suffix of the greatest key below  prefix ++ "-" ++ %020d MaxUint64
   (if that key has the prefix), 0 where absent.  The sum is a Go uint64 addition: [mod 2^64] written out.
   As repaired for O-10/O-15: a suffix that is not a number and an exhausted sequence are answered with the
   per-operation status UNEXPECTED_VERSION_ID (ErrBadVersionId) instead of an error / a wrapped key.
   The transcription of the code before the repair is kept in Db/Proofs_C16.v ([seq_loop_old]). *)
From Coq Require Import List NArith ZArith Bool.
From Oxia.KeyOrder Require Import Model.
From Oxia.Db Require Import Types Bytes Keys Kv.
Import ListNotations.
Open Scope N_scope.

Definition MAX_SEQUENCE : N := 18446744073709551615.

Inductive seq_result :=
| SeqOk (new_key : key)
| SeqBadVersion                    (* ErrBadVersionId (answered as status UNEXPECTED_VERSION_ID): expected version
                                      given on a sequential put; or the sequence cannot be continued by this
                                      request: the current last key has a suffix that is not a number, the
                                      sequence is exhausted (uint64 overflow / first part reaching 2^64-1), or
                                      the new key would not come after the current last key *)
| SeqErr (e : err_kind).

(* findCurrentLastKeyInSequence, first result: the current last key with the prefix ("" if there is none) *)
Definition current_last_key (b : kvmap) (prefix : key) : key :=
  let max_key := prefix ++ DASH :: pad20 MAX_SEQUENCE in
  match kv_lower b max_key with                       (* wb.FindLower(maxKey) *)
  | Some (k, _) => if has_prefix prefix k then k else []
  | None => []
  end.

(* ... second result: the "-"-separated parts after the prefix of that key *)
Definition current_last_parts (b : kvmap) (prefix : key) (ndeltas : nat) : result (list bytes) :=
  let last := drop_prefix prefix (current_last_key b prefix) in       (* strings.TrimPrefix(lastKey, prefix) *)
  let parts := tl (split_on DASH last) in             (* strings.Split(last, "-")[1:] *)
  if (ndeltas <? length parts)%nat then Err EMissingSequenceDeltas else Ok parts.

(* the loop over req.SequenceKeyDelta.
   newValue := lastValue + delta is a Go uint64 addition ([mod 2^64] written out); the loop gives up with
   ErrBadVersionId when Sscanf fails on the existing suffix, when the sum wrapped around (newValue < lastValue)
   and when the first part reaches maxSequence (the exclusive bound of FindLower). *)
Fixpoint seq_loop (idx : nat) (deltas : list N) (parts : list bytes) (acc : key) : seq_result :=
  match deltas with
  | [] => SeqOk acc
  | delta :: rest =>
      if (Nat.eqb idx 0) && (delta =? 0) then SeqErr ESequenceDeltaIsZero
      else
        let last :=
          match nth_error parts idx with
          | Some part => scan20 part                  (* None: Sscanf failed *)
          | None => Some 0
          end in
        match last with
        | None => SeqBadVersion
        | Some lastv =>
            let newv := (lastv + delta) mod U64 in
            if (newv <? lastv) || ((Nat.eqb idx 0) && (newv =? MAX_SEQUENCE)) then SeqBadVersion
            else seq_loop (S idx) rest parts (acc ++ DASH :: pad20 newv)
        end
  end.

Definition generate_key (b : kvmap) (p : put_req) : seq_result :=
  match p_partition p with
  | None => SeqErr EMissingPartitionKey
  | Some _ =>
      match p_expected p with
      | Some _ => SeqBadVersion
      | None =>
          match current_last_parts b (p_key p) (length (p_deltas p)) with
          | Err e => SeqErr e
          | Ok parts =>
              match seq_loop 0 (p_deltas p) parts (p_key p) with
              | SeqOk nk =>
                  (* the new key must come after the current last key: a key that was not generated from
                     the sequence may be in the way (repair of the overwrite found with C15/C16) *)
                  match current_last_key b (p_key p) with
                  | [] => SeqOk nk
                  | lk => match cmp_slash nk lk with Gt => SeqOk nk | _ => SeqBadVersion end
                  end
              | other => other
              end
          end
      end
  end.
