(* Db/Validate.v — server/write_validation.go: validateWriteRequest, what leaderController.Write / WriteBlock
   run on a client's request BEFORE an offset is assigned to it (nothing is logged when it fails; the client
   gets codes.InvalidArgument).  Added with the repair of O-10.  The session manager's own requests
   (createSession, session.delete) go through the unexported writeBlock and are not validated.

     puts     key must not start with "__oxia/";  with sequence deltas: partition key present, first delta > 0;
              every declared secondary index must be representable by the index key layout (repair O-45):
              index name non-empty without '/', secondary key non-empty with every byte above the separator
              "\x01"; a record with an empty key (and no sequence deltas) declares no index
     deletes  key must not start with "__oxia/"
     ranges   not (start = "" and end = "")  (Pebble drops or keeps two empty bounds depending on a pooled
              buffer: on the real DB the request is a no-op, wipes the shard, or fails on a notification
              batch);  rangeExcludesInternalKeys(start, end)

   rangeExcludesInternalKeys is a test on the first '/'-segments of the bounds (strings.Cut + Go string
   comparison = bytes.Compare): the end has no '/', or its first segment is below "__oxia", or the start
   has a '/' and its first segment is above "__oxia".  Proofs_C13.v shows that it is the same function as
   Proofs_C12.range_safeb, hence no internal key lies in an accepted range. *)
From Coq Require Import List NArith ZArith Bool.
From Oxia.KeyOrder Require Import Model.
From Oxia.Db Require Import Types Bytes Keys.
Import ListNotations.

(* internalKeysSegment = strings.TrimSuffix(constant.InternalKeyPrefix, "/") = "__oxia" *)
Definition internal_segment : bytes := [95; 95; 111; 120; 105; 97]%N.

(* Go: a < b on strings *)
Definition str_ltb (a b : bytes) : bool := match bytes_cmp a b with Lt => true | _ => false end.

(* strings.Cut(s, "/"): (before, after, found) is [split_slash] *)
Definition range_excludes_internal (start_ end_ : key) : bool :=
  match split_slash end_ with
  | None => true
  | Some (end_seg, _) =>
      str_ltb end_seg internal_segment ||
      match split_slash start_ with
      | Some (start_seg, _) => str_ltb internal_segment start_seg
      | None => false
      end
  end.

(* validateSecondaryIndex *)
Definition validate_sindex (si : sindex) : bool :=
  negb (match si_name si with [] => true | _ => false end) && negb (existsb (N.eqb 47%N) (si_name si)) &&
  negb (match si_key si with [] => true | _ => false end) && forallb (fun c => (1 <? c)%N) (si_key si).

Definition validate_put_indexes (p : put_req) : bool :=
  forallb validate_sindex (p_indexes p) &&
  negb (match p_indexes p, p_key p, p_deltas p with _ :: _, [], [] => true | _, _, _ => false end).

(* (the order of the conjuncts is immaterial: only accept / reject is observable) *)
Definition validate_put (p : put_req) : bool :=
  negb (is_internal (p_key p)) &&
  match p_deltas p with
  | [] => validate_put_indexes p
  | d0 :: _ =>
      ((match p_partition p with Some _ => true | None => false end) && validate_put_indexes p) && negb (d0 =? 0)%N
  end.

Definition validate_delete (d : del_req) : bool := negb (is_internal (d_key d)).

Definition validate_range (r : range_req) : bool :=
  negb (match r_start r, r_end r with [], [] => true | _, _ => false end) &&
  range_excludes_internal (r_start r) (r_end r).

(* true = accepted.  The Go function stops at the first offending operation; only accept/reject is observable *)
Definition validate_request (req : write_req) : bool :=
  forallb validate_put (w_puts req) && forallb validate_delete (w_dels req) && forallb validate_range (w_ranges req).
