(* Db/Spec.v — the user-level sequential specification C12 refers to.

   State: a partial function from keys to records, the set of live sessions, and the last version id
   assigned on the shard.  One function per operation; a request is the fold over its puts, then its
   deletes, then its delete-ranges, each operation seeing the state left by the previous one.

   Arithmetic is the one of the API types (int64): the version id after [v] is [wrap64 (v+1)], the
   modification count after [m] is [wrap64 (m+1)]; both are [+1] below 2^63-1 (corollaries in Proofs_C12).

   Sequential keys: WHICH key a sequence put creates, and whether the sequence can be continued at all, is
   C16's subject.  Here that choice is an input ([c], read off the put's response by [seq_choice_of]); the spec
   says what the put does given the choice: with a key it creates a fresh record there (modification count
   0); it never takes an expected version; a refusal (status UNEXPECTED_VERSION_ID) changes nothing. *)
From Coq Require Import List NArith ZArith Bool.
From Oxia.Db Require Import Types Bytes Kv.
Import ListNotations.

Record sstate := mkS {
  s_recs : key -> option entry;
  s_alive : Z -> bool;
  s_last : Z
}.

(* pointwise equality of specification states (no functional extensionality needed) *)
Definition seq_eq (a b : sstate) : Prop :=
  (forall k, s_recs a k = s_recs b k) /\ (forall z, s_alive a z = s_alive b z) /\ s_last a = s_last b.

Definition upd (f : key -> option entry) (k : key) (v : option entry) : key -> option entry :=
  fun k' => if bytes_eqb k' k then v else f k'.

(* the conditional: no expectation; "-1" = must be absent; otherwise the current version must match *)
Definition spec_check (cur : option entry) (expected : option Z) : bool :=
  match expected, cur with
  | None, _ => true
  | Some v, None => (v =? -1)%Z
  | Some v, Some e => (e_version e =? v)%Z
  end.

Definition spec_session_ok (s : sstate) (sess : option Z) : bool :=
  match sess with None => true | Some z => s_alive s z end.

(* the record a successful put leaves: modcount 0 / previous+1, creation time kept on update *)
Definition spec_entry (cur : option entry) (p : put_req) (ver : Z) (ts : N) : entry :=
  match cur with
  | None => mkEntry (p_value p) ver 0 ts ts (p_session p) (p_identity p) (p_partition p) (p_indexes p)
  | Some e => mkEntry (p_value p) ver (wrap64 (e_modcount e + 1)) (e_ctime e) ts
                      (p_session p) (p_identity p) (p_partition p) (p_indexes p)
  end.

Definition spec_store (s : sstate) (k : key) (p : put_req) (cur : option entry) (ts : N) (rk : option key)
  : sstate * put_resp :=
  let ver := wrap64 (s_last s + 1) in
  let e := spec_entry cur p ver ts in
  (mkS (upd (s_recs s) k (Some e)) (s_alive s) ver, mkPutResp OK (Some (version_of e)) rk).

(* what the implementation decided for a sequence put *)
Inductive seq_choice :=
| SeqKey (k : key)          (* the key it generated (reported in the response) *)
| SeqRefused                (* no key: the sequence under the prefix cannot be continued by this request *)
| SeqNoKey.                 (* the response carries no key for another reason *)

Definition seq_choice_of (r : put_resp) : seq_choice :=
  match pr_key r with
  | Some k => SeqKey k
  | None => match pr_status r with UNEXPECTED_VERSION_ID => SeqRefused | _ => SeqNoKey end
  end.

Definition spec_put (s : sstate) (p : put_req) (c : seq_choice) (ts : N) : sstate * put_resp :=
  match p_deltas p with
  | [] =>
      let cur := s_recs s (p_key p) in
      if spec_check cur (p_expected p) then
        if spec_session_ok s (p_session p) then spec_store s (p_key p) p cur ts None
        else (s, put_status SESSION_DOES_NOT_EXIST)
      else (s, put_status UNEXPECTED_VERSION_ID)
  | _ :: _ =>
      match p_expected p with
      | Some _ => (s, put_status UNEXPECTED_VERSION_ID)
      | None =>
          match c with
          | SeqRefused => (s, put_status UNEXPECTED_VERSION_ID)     (* decided before the session is looked at *)
          | SeqKey nk =>
              if spec_session_ok s (p_session p) then spec_store s nk p None ts (Some nk)
              else (s, put_status SESSION_DOES_NOT_EXIST)
          | SeqNoKey =>
              if spec_session_ok s (p_session p) then (s, put_status OK)   (* not a response of a sequence put *)
              else (s, put_status SESSION_DOES_NOT_EXIST)
          end
      end
  end.

Definition spec_delete (s : sstate) (d : del_req) : sstate * status :=
  match s_recs s (d_key d) with
  | None => (s, if spec_check None (d_expected d) then KEY_NOT_FOUND else UNEXPECTED_VERSION_ID)
  | Some e =>
      if spec_check (Some e) (d_expected d)
      then (mkS (upd (s_recs s) (d_key d) None) (s_alive s) (s_last s), OK)
      else (s, UNEXPECTED_VERSION_ID)
  end.

(* exactly the keys of [start, end) under the key order disappear *)
Definition spec_delete_range (s : sstate) (r : range_req) : sstate * status :=
  (mkS (fun k => if key_in_range (Some (r_start r)) (Some (r_end r)) k then None else s_recs s k)
       (s_alive s) (s_last s), OK).

Fixpoint spec_puts (s : sstate) (ps : list put_req) (rks : list seq_choice) (ts : N)
  : sstate * list put_resp :=
  match ps with
  | [] => (s, [])
  | p :: tl =>
      let '(s1, r) := spec_put s p (hd SeqNoKey rks) ts in
      let '(s2, rs) := spec_puts s1 tl (List.tl rks) ts in
      (s2, r :: rs)
  end.

Fixpoint spec_deletes (s : sstate) (ds : list del_req) : sstate * list status :=
  match ds with
  | [] => (s, [])
  | d :: tl =>
      let '(s1, r) := spec_delete s d in
      let '(s2, rs) := spec_deletes s1 tl in
      (s2, r :: rs)
  end.

Fixpoint spec_ranges (s : sstate) (rs : list range_req) : sstate * list status :=
  match rs with
  | [] => (s, [])
  | r :: tl =>
      let '(s1, x) := spec_delete_range s r in
      let '(s2, xs) := spec_ranges s1 tl in
      (s2, x :: xs)
  end.

(* the documented order: puts, then deletes, then range deletes *)
Definition spec_write (s : sstate) (req : write_req) (rks : list seq_choice) (ts : N)
  : sstate * write_resp :=
  let '(s1, prs) := spec_puts s (w_puts req) rks ts in
  let '(s2, drs) := spec_deletes s1 (w_dels req) in
  let '(s3, rrs) := spec_ranges s2 (w_ranges req) in
  (s3, mkWriteResp prs drs rrs).
