(* Db/NotifStream.v — the notification stream around the DB model (property C17).  Definitions only.

     server/kv/notifications_trimmer.go   trimNotifications, getFirstLast, binarySearch, readAt   -> [trim]
     server/kv/notifications_tracker.go   parseNotificationKey (fmt.Sscanf "%016x")              -> [parse_notification_key]
     server/leader_controller.go          GetNotifications: first dummy batch, dispatch loop      -> [serve_start], [dispatch]
     oxia/notifications.go                shardNotificationsManager: resume state, handshake      -> [client_request], [client_recv]

   Time is an input: [now] and [retention] are milliseconds (the harness injects the clock and uses whole
   milliseconds), a batch is expired iff  ts <= now - retention  (cutoffTime.Before(ts) is false).
   SIMPLIFICATIONS (named): time.Time arithmetic is exact on these integers (no saturation);
   white space in front of the number that Sscanf would skip does not count against the width 16. *)
From Coq Require Import List NArith ZArith Bool.
From Oxia.Db Require Import Types Bytes Keys Kv Notifications Write Read.
Import ListNotations.
Open Scope Z_scope.

(* ------------------------------------------------------------------------------------------------ *)
(* parseNotificationKey: fmt.Sscanf(key, "__oxia/notifications/%016x", &offset)                      *)

Definition is_hex_digit (b : N) : bool :=
  ((48 <=? b) && (b <=? 57) || (97 <=? b) && (b <=? 102) || (65 <=? b) && (b <=? 70))%N.
Definition hex_val (b : N) : N :=
  (if b <=? 57 then b - 48 else if b <=? 70 then b - 55 else b - 87)%N.

(* s.accept(hexDigits) loop of scanNumber, at most [width] runes *)
Fixpoint take_hex (width : nat) (s : bytes) : bytes :=
  match width, s with
  | S w, b :: tl => if is_hex_digit b then b :: take_hex w tl else []
  | _, _ => []
  end.

(* strconv.ParseUint(tok, 16, 64) on a token of hex digits (no overflow check here: at most 16 digits) *)
Fixpoint parse_hex (tok : bytes) (acc : N) : N :=
  match tok with
  | [] => acc
  | b :: tl => parse_hex tl (acc * 16 + hex_val b)%N
  end.

(* verb %016x into an int64: optional sign (counted in the width), hex digits, range check. None = error *)
Definition scan_hex16 (s : bytes) : option Z :=
  match skip_space s with
  | None => None
  | Some s' =>
      let '(neg, width, rest) :=
        match s' with
        | b :: tl => if (b =? 45)%N then (true, 15%nat, tl)
                     else if (b =? 43)%N then (false, 15%nat, tl)
                     else (false, 16%nat, s')
        | [] => (false, 16%nat, s')
        end in
      match take_hex width rest with
      | [] => None
      | tok =>
          let v := parse_hex tok 0 in
          if neg then (if (v <=? 9223372036854775808)%N then Some (- Z.of_N v) else None)
          else (if (v <? 9223372036854775808)%N then Some (Z.of_N v) else None)
      end
  end.

Definition parse_notification_key (k : key) : result Z :=
  if has_prefix notifications_prefix k then
    match scan_hex16 (drop_prefix notifications_prefix k) with
    | Some o => Ok o
    | None => Err EScan
    end
  else Err EScan.     (* "input does not match format" *)

(* ------------------------------------------------------------------------------------------------ *)
(* the trimmer                                                                                       *)

Definition first_notification_key : key := Eval compute in notification_key 0.

(* getFirstLast: first and last key of KeyRangeScan / KeyRangeScanReverse(firstNotificationKey, lastNotificationKey);
   [Ok None] = "There are no entries in DB" (-1, -1) *)
Definition first_last (m : kvmap) : result (option (Z * Z)) :=
  match kv_range m (Some first_notification_key) (Some last_notification_key) with
  | [] => Ok None
  | (k1, _) :: tl =>
      match parse_notification_key k1 with
      | Err e => Err e
      | Ok first =>
          match parse_notification_key (fst (last tl (k1, empty_value))) with
          | Err e => Err e
          | Ok lst => Ok (Some (first, lst))
          end
      end
  end.

Inductive trim_err :=
| TEKeyNotFound (offset : Z)        (* readAt: kv.Get(notificationKey(offset), ComparisonEqual) finds nothing *)
| TEDeserialize (offset : Z)        (* readAt: the value is not a notification batch *)
| TEParse (e : err_kind)            (* getFirstLast: the first / last key does not parse *)
| TEFuel.                           (* unreachable for int64 offsets: the search interval halves 64 times at most *)

(* readAt: time.UnixMilli(int64(nb.Timestamp)) of the batch stored at [offset], as milliseconds *)
Definition ts_at (m : kvmap) (offset : Z) : Z + trim_err :=
  match kv_get m (notification_key offset) with
  | None => inr (TEKeyNotFound offset)
  | Some (VNotif b) => inl (wrap64 (Z.of_N (nb_ts b)))
  | Some (VRecord _) => inr (TEDeserialize offset)
  end.

(* binarySearch(firstOffset, lastOffset, cutoffTime): Go int64 arithmetic written out
   ("/" truncates towards zero, "%" takes the sign of the dividend, "+" wraps) *)
Fixpoint bsearch (fuel : nat) (m : kvmap) (first lst cutoff : Z) : Z + trim_err :=
  if first <? lst then
    match fuel with
    | O => inr TEFuel
    | S f =>
        let s := wrap64 (first + lst) in
        let med := if 0 <? Z.rem s 2 then wrap64 (Z.quot s 2 + 1) else Z.quot s 2 in
        match ts_at m med with
        | inr e => inr e
        | inl ts_med =>
            if cutoff <? ts_med then bsearch f m first (wrap64 (med - 1)) cutoff    (* not expired yet *)
            else bsearch f m med lst cutoff                                          (* expired *)
        end
    end
  else inl first.

Inductive trim_outcome :=
| TrNothing                        (* nothing stored, or the first batch has not expired *)
| TrTrimmed (trim_offset : Z) (st' : state)
| TrErr (e : trim_err).

(* one round of trimNotifications with the clock reading [now] and the configured retention (ms) *)
Definition trim (st : state) (now retention : Z) : trim_outcome :=
  match first_last (st_kv st) with
  | Err e => TrErr (TEParse e)
  | Ok None => TrNothing
  | Ok (Some (first, lst)) =>
      if lst =? -1 then TrNothing
      else
        let cutoff := now - retention in
        match ts_at (st_kv st) first with
        | inr e => TrErr e
        | inl ts_first =>
            if cutoff <? ts_first then TrNothing
            else
              match bsearch 70 (st_kv st) first lst cutoff with
              | inr e => TrErr e
              | inl t =>
                  (* wb.DeleteRange(notificationKey(first), notificationKey(trimOffset+1)); Commit *)
                  TrTrimmed t
                    (mkState (kv_del_range (st_kv st) (Some (notification_key first))
                                           (Some (notification_key (wrap64 (t + 1)))))
                             (st_ver st) (st_notif st) (st_notif_last st))
              end
        end
  end.

Definition trim_state (st : state) (now retention : Z) : state :=
  match trim st now retention with
  | TrTrimmed _ st' => st'
  | _ => st
  end.

(* ------------------------------------------------------------------------------------------------ *)
(* leaderController.GetNotifications                                                                 *)

(* the request's StartOffsetExclusive and the quorum tracker's commit offset [qc] (an input: it is never below
   the DB's applied offset).  Result: the dummy batch sent first (if any) and the dispatch loop's start value. *)
Definition serve_start (cfg : config) (qc : Z) (start : option Z) : option nbatch * Z :=
  match start with
  | Some o => (None, o)
  | None => (Some (mkNBatch (cfg_shard cfg) qc 0 []), qc)
  end.

(* how the dispatch loop leaves a DB state that does not change any more *)
Inductive dstop :=
| DWait (offset : Z)               (* blocked in ReadNextNotifications(offset+1): the normal end *)
| DSpin (offset : Z)               (* ReadNextNotifications(offset+1) returns an empty list without waiting: the Go
                                      loop calls it again at once (busy loop until the next write) *)
| DErr (e : err_kind)              (* cb.OnComplete(err) *)
| DFuel.

Definition last_offset (bs : list nbatch) (dflt : Z) : Z :=
  match rev bs with b :: _ => nb_offset b | [] => dflt end.

(* the for-loop: offset := offsetExclusive; { bs := ReadNextNotifications(offset+1); send each; offset = b.Offset } *)
Fixpoint dispatch (fuel : nat) (st : state) (offset : Z) : list nbatch * dstop :=
  match fuel with
  | O => ([], DFuel)
  | S f =>
      match read_next_notifications st (wrap64 (offset + 1)) with
      | Err EBlocked => ([], DWait offset)
      | Err e => ([], DErr e)
      | Ok [] => ([], DSpin offset)
      | Ok bs =>
          let '(more, stop) := dispatch f st (last_offset bs offset) in
          (bs ++ more, stop)
      end
  end.

(* The same loop over a ReadNextNotifications that ENFORCES a limit the way maxNotificationBatchSize was meant to:
   at most [limit] batches per call - the first [limit] of the scan, wherever they lie.  (The Go code never
   increments its counter, so [dispatch] above is the code as it is; this variant is what a correct enforcement
   of the limit must be equivalent to: Proofs_C17.dispatch_limited_char.  Bounding the scan to a WINDOW OF
   OFFSETS instead - start .. start+100 - is not: it returns nothing when the next retained batch lies beyond
   the window, and the loop asks for the same window for ever.) *)
Definition read_next_limited (limit : nat) (st : state) (start_offset : Z) : result (list nbatch) :=
  match read_next_notifications st start_offset with
  | Ok bs => Ok (firstn limit bs)
  | Err e => Err e
  end.

(* the enforcement that does NOT work (seeded change r7): scan only the offsets start .. start+window-1 *)
Definition read_next_window (window : Z) (st : state) (start_offset : Z) : result (list nbatch) :=
  match read_next_notifications st start_offset with
  | Ok bs => Ok (filter (fun b => nb_offset b <? start_offset + window) bs)
  | Err e => Err e
  end.

Fixpoint dispatch_limited (fuel limit : nat) (st : state) (offset : Z) : list nbatch * dstop :=
  match fuel with
  | O => ([], DFuel)
  | S f =>
      match read_next_limited limit st (wrap64 (offset + 1)) with
      | Err EBlocked => ([], DWait offset)
      | Err e => ([], DErr e)
      | Ok [] => ([], DSpin offset)
      | Ok bs =>
          let '(more, stop) := dispatch_limited f limit st (last_offset bs offset) in
          (bs ++ more, stop)
      end
  end.

(* one whole GetNotifications call against a quiescent DB: what goes down the stream *)
Definition serve (cfg : config) (st : state) (qc : Z) (start : option Z) : list nbatch * dstop :=
  if negb (st_notif st) then ([], DErr ENotificationsDisabled)      (* "if !lc.termOptions.NotificationsEnabled": before the dummy *)
  else
    let '(dummy, from) := serve_start cfg qc start in
    let '(bs, stop) := dispatch 3 st from in
    (match dummy with Some d => d :: bs | None => bs end, stop).

(* ------------------------------------------------------------------------------------------------ *)
(* the client: shardNotificationsManager                                                             *)

Record client := mkClient { cl_last : Z; cl_init : bool }.      (* lastOffsetReceived, initialized *)
Definition client_new : client := mkClient (-1) false.

(* getNotifications: StartOffsetExclusive of the request (after the repair of O-17: resume iff initialised) *)
Definition client_request (c : client) : option Z :=
  if cl_init c then Some (cl_last c) else None.

(* the code before the repair: "lastOffsetReceived >= 0" *)
Definition client_request_o17 (c : client) : option Z :=
  if 0 <=? cl_last c then Some (cl_last c) else None.

(* multiplexNotificationBatchOnce: the first batch ever received is the dummy one and is discarded;
   result: new state and the notifications handed to the application *)
Definition client_recv (c : client) (b : nbatch) : client * list (key * notif) :=
  (mkClient (nb_offset b) true, if cl_init c then nb_notifs b else []).

Fixpoint client_recv_all (c : client) (bs : list nbatch) : client * list (Z * list (key * notif)) :=
  match bs with
  | [] => (c, [])
  | b :: tl =>
      let '(c1, ev) := client_recv c b in
      let '(c2, evs) := client_recv_all c1 tl in
      (c2, (if cl_init c then [(nb_offset b, ev)] else []) ++ evs)
  end.

(* one connection: request, what the server sends against the (quiescent) state, the client receives the
   first [k] batches of it, then the stream breaks.  [req] selects the request rule (repaired / as found). *)
Definition session (req : client -> option Z) (cfg : config) (st : state) (qc : Z) (k : nat) (c : client)
  : client * list (Z * list (key * notif)) :=
  let '(bs, _) := serve cfg st qc (req c) in
  client_recv_all c (firstn k bs).
