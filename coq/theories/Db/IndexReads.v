(* Db/IndexReads.v — server/secondary_indexes.go, read side: secondaryIndexGet / doSecondaryGet,
   newSecondaryIndexListIterator, newSecondaryIndexRangeScanIterator (what leader_controller.go calls when
   a request carries SecondaryIndexName).  doSecondaryGet is transcribed AFTER the repair of O-14
   (fixes/O-14-secondary-get-stays-in-index.diff): the iterator still ranges over the whole key space, but
   the walk stops (KEY_NOT_FOUND) as soon as the key under the cursor lacks the prefix "__oxia/idx/<name>/",
   an exhausted iterator means KEY_NOT_FOUND, and FLOOR re-seeks with SeekLT when SeekGE lands outside the
   index.  The code as it was before the repair is kept in Db/Proofs_C15.v ([old_do_secondary_get]) for the
   [_old_refuted] witnesses. *)
From Coq Require Import List NArith ZArith Bool.
From Oxia.KeyOrder Require Import Model.
From Oxia.Db Require Import Types Bytes Escape Keys Kv Write Read.
Import ListNotations.
Open Scope N_scope.

(* secondaryIdxFormatRegex = ^__oxia/idx/[^/]+/([^\x01]+)\x01(.+)$     ('.' does not match '\n')
   parse result: Some (skey, escaped primary key) when the regex matches *)
Fixpoint split_first (sep : N) (s : bytes) : option (bytes * bytes) :=
  match s with
  | [] => None
  | x :: tl => if x =? sep then Some ([], tl)
               else match split_first sep tl with
                    | Some (a, b) => Some (x :: a, b)
                    | None => None
                    end
  end.

Definition parse_index_key (k : key) : option (bytes * bytes) :=
  if has_prefix idx_prefix k then
    match split_first SLASHB (drop_prefix idx_prefix k) with
    | Some (name, rest) =>
        match name with
        | [] => None
        | _ =>
            match split_first IDX_SEP rest with
            | Some (skey, epk) =>
                match skey, epk with
                | [], _ => None
                | _, [] => None
                | _, _ => if existsb (N.eqb 10) epk then None else Some (skey, epk)
                end
            | None => None
            end
        end
    | None => None
    end
  else None.

Inductive idx_parse :=
| IdxOk (pk : key) (skey : bytes)
| IdxNoMatch                       (* errFailedToParseSecondaryKey *)
| IdxBadEscape.                    (* url.PathUnescape error *)

(* secondaryIndexPrimaryAndSecondaryKey *)
Definition index_primary_and_secondary (k : key) : idx_parse :=
  match parse_index_key k with
  | None => IdxNoMatch
  | Some (skey, epk) =>
      match path_unescape epk with
      | Some pk => IdxOk pk skey
      | None => IdxBadEscape
      end
  end.

(* --- list / range-scan on an index: db.List over [idx/<name>/<start>, idx/<name>/<end>) --- *)
Definition index_scan_keys (st : state) (name start_ end_ : bytes) : list key :=
  db_list st (index_range_key name start_) (index_range_key name end_).

(* secondaryIndexListIterator.Key panics on a key the regex or PathUnescape rejects *)
Fixpoint index_primary_keys (ks : list key) : result (list key) :=
  match ks with
  | [] => Ok []
  | k :: tl =>
      match index_primary_and_secondary k with
      | IdxOk pk _ => match index_primary_keys tl with Ok l => Ok (pk :: l) | Err e => Err e end
      | _ => Err EPanic
      end
  end.

Definition secondary_list (st : state) (name start_ end_ : bytes) : result (list key) :=
  index_primary_keys (index_scan_keys st name start_ end_).

(* secondaryIndexRangeIterator.Value: a Get(EQUAL, include value) of the primary key; a primary key that
   vanished yields a KEY_NOT_FOUND response (with the key set) in the stream *)
Fixpoint gets_of (st : state) (pks : list key) : result (list get_resp) :=
  match pks with
  | [] => Ok []
  | pk :: tl =>
      match db_get st pk CEqual true with
      | Err e => Err e
      | Ok g =>
          match gets_of st tl with
          | Err e => Err e
          | Ok l => Ok (mkGetResp (g_status g) (Some pk) (g_value g) (g_version g) (g_skey g) :: l)
          end
      end
  end.

Definition secondary_range_scan (st : state) (name start_ end_ : bytes) : result (list get_resp) :=
  match secondary_list st name start_ end_ with
  | Err e => Err e
  | Ok pks => gets_of st pks
  end.

(* --- doSecondaryGet: iterator over the whole DB, positioned with SeekLT (LOWER) or SeekGE (others),
       then walked with Prev / Next.  The iterator position is an index into the key list. --- *)
Inductive sget_result :=
| SGFound (pk : key) (skey : bytes)
| SGNone                            (* primaryKey = "" *)
| SGErr (e : err_kind).

Definition int_cmp (c : comparison) : Z := match c with Lt => (-1)%Z | Eq => 0%Z | Gt => 1%Z end.

(* one loop iteration at key [k]: Some r = return r, None = move (Prev for FLOOR/LOWER, Next for HIGHER) *)
Definition sget_step (req_key : bytes) (c : cmp_type) (k : key) : option sget_result :=
  match index_primary_and_secondary k with
  | IdxBadEscape => Some (SGErr EBadIndexKey)
  | parsed =>
      let '(pk, skey) := match parsed with IdxOk pk skey => (pk, skey) | _ => ([], []) end in
      let cmpv := cmp_slash req_key skey in
      let found := match pk with [] => SGNone | _ => SGFound pk skey end in
      match c with
      | CEqual => Some (match cmpv with Eq => found | _ => SGNone end)
      | CFloor => match pk, cmpv with
                  | [], _ => None
                  | _, Lt => None
                  | _, _ => Some found
                  end
      | CLower => match cmpv with Gt => Some found | _ => None end
      | CCeiling => Some found
      | CHigher => match cmpv with Lt => Some found | _ => None end
      end
  end.

(* strings.HasPrefix(itKey, indexPrefix), indexPrefix = "__oxia/idx/<name>/" *)
Definition in_index (name : bytes) (k : key) : bool := has_prefix (index_range_key name []) k.

(* walk backwards over [rev_before] (nearest first) / forwards over [after]; the loop ends with
   KEY_NOT_FOUND when the key under the cursor is outside the index or the iterator is exhausted *)
Fixpoint sget_walk (name req_key : bytes) (c : cmp_type) (ks : list key) : sget_result :=
  match ks with
  | [] => SGNone          (* iterator invalid *)
  | k :: tl =>
      if in_index name k then
        match sget_step req_key c k with
        | Some r => r
        | None => sget_walk name req_key c tl
        end
      else SGNone
  end.

Definition do_secondary_get (st : state) (name req_key : bytes) (c : cmp_type) : sget_result :=
  let search := index_range_key name req_key in
  let ks := map fst (st_kv st) in
  let before := rev (filter (fun k => key_ltb k search) ks) in     (* nearest first *)
  let after := filter (fun k => negb (key_ltb k search)) ks in
  match c with
  | CLower => sget_walk name req_key c before                      (* SeekLT *)
  | CFloor =>
      (* SeekGE; if that is not an entry of the index, SeekLT; then Prev() walks backwards *)
      match after with
      | k :: _ => if in_index name k then sget_walk name req_key c (k :: before)
                  else sget_walk name req_key c before
      | [] => sget_walk name req_key c before
      end
  | _ => sget_walk name req_key c after                            (* SeekGE *)
  end.

(* secondaryIndexGet *)
Definition secondary_get (st : state) (name req_key : bytes) (c : cmp_type) (include_value : bool)
  : result get_resp :=
  match do_secondary_get st name req_key c with
  | SGErr e => Err e
  | SGNone => Ok get_not_found
  | SGFound pk skey =>
      match db_get st pk CEqual include_value with
      | Err e => Err e
      | Ok g => Ok (mkGetResp (g_status g) (Some pk) (g_value g) (g_version g) (Some skey))
      end
  end.
