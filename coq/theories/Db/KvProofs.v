(* Db/KvProofs.v — SortedMapProofs instantiated for the real key order (hypotheses discharged by
   KeyOrder.Proofs.cmp_slash_eq / cmp_slash_antisym / cmp_slash_trans), the well-formedness invariant of
   the stored map, the abstraction to the user-level view, and the frame lemmas for the callbacks. *)
From Coq Require Import List NArith ZArith Bool Lia.
From Oxia.KeyOrder Require Import Model Proofs.
From Oxia.Db Require Import Types Bytes Escape Keys Kv SortedMap SortedMapProofs KeyFacts Sessions Indexes.
Import ListNotations.

Definition sorted (m : kvmap) : Prop := ssorted cmp_slash value m.

Lemma sorted_nil : sorted [].
Proof. apply ssorted_nil. Qed.

Lemma kv_get_put_same m k v : kv_get (kv_put m k v) k = Some v.
Proof. apply get_put_same. exact cmp_slash_eq. Qed.

Lemma kv_get_put_other m k v k' : k' <> k -> kv_get (kv_put m k v) k' = kv_get m k'.
Proof. apply get_put_other; [exact cmp_slash_eq|exact cmp_slash_trans]. Qed.

Lemma kv_put_sorted m k v : sorted m -> sorted (kv_put m k v).
Proof. apply put_sorted; [exact cmp_slash_eq|exact cmp_slash_antisym|exact cmp_slash_trans]. Qed.

Lemma kv_get_del_same m k : sorted m -> kv_get (kv_del m k) k = None.
Proof. apply get_del_same; [exact cmp_slash_eq|exact cmp_slash_trans]. Qed.

Lemma kv_get_del_other m k k' : sorted m -> k' <> k -> kv_get (kv_del m k) k' = kv_get m k'.
Proof. apply get_del_other; [exact cmp_slash_eq|exact cmp_slash_trans]. Qed.

Lemma kv_del_sorted m k : sorted m -> sorted (kv_del m k).
Proof. apply del_sorted. Qed.

Lemma kv_get_del_some m k k' v : sorted m -> kv_get (kv_del m k) k' = Some v -> kv_get m k' = Some v.
Proof. apply get_del_some; [exact cmp_slash_eq|exact cmp_slash_trans]. Qed.

Lemma kv_get_range m lo hi k : sorted m -> kv_get (kv_range m lo hi) k = if key_in_range lo hi k then kv_get m k else None.
Proof. apply get_range; [exact cmp_slash_eq|exact cmp_slash_trans]. Qed.

Lemma kv_get_del_range m lo hi k : sorted m -> kv_get (kv_del_range m lo hi) k = if key_in_range lo hi k then None else kv_get m k.
Proof. apply get_del_range; [exact cmp_slash_eq|exact cmp_slash_trans]. Qed.

Lemma kv_del_range_sorted m lo hi : sorted m -> sorted (kv_del_range m lo hi).
Proof. apply filter_sorted. Qed.

Lemma kv_range_sorted m lo hi : sorted m -> sorted (kv_range m lo hi).
Proof. apply filter_sorted. Qed.

Lemma kv_get_in m k v : sorted m -> kv_get m k = Some v -> In (k, v) m.
Proof. apply get_in. exact cmp_slash_eq. Qed.

Lemma kv_in_get m k v : sorted m -> In (k, v) m -> kv_get m k = Some v.
Proof. apply in_get; [exact cmp_slash_eq|exact cmp_slash_antisym]. Qed.

(* ---- invariant of the stored map ---- *)
(* notification batches only live under internal keys: every user key holds a StorageEntry *)
Definition user_clean (m : kvmap) : Prop := forall k b, kv_get m k = Some (VNotif b) -> is_internal k = true.
Definition wf_kv (m : kvmap) : Prop := sorted m /\ user_clean m.

Lemma wf_nil : wf_kv [].
Proof. split; [apply sorted_nil|]. intros k b H. discriminate. Qed.

Lemma wf_put_record m k e : wf_kv m -> wf_kv (kv_put m k (VRecord e)).
Proof.
  intros [Hs Hc]. split; [apply kv_put_sorted; exact Hs|].
  intros k' b H. destruct (list_eq_dec N.eq_dec k' k) as [->|Hne].
  - rewrite kv_get_put_same in H. discriminate.
  - rewrite kv_get_put_other in H by exact Hne. eapply Hc; exact H.
Qed.

Lemma wf_put_internal m k v : wf_kv m -> is_internal k = true -> wf_kv (kv_put m k v).
Proof.
  intros [Hs Hc] Hi. split; [apply kv_put_sorted; exact Hs|].
  intros k' b H. destruct (list_eq_dec N.eq_dec k' k) as [->|Hne]; [exact Hi|].
  rewrite kv_get_put_other in H by exact Hne. eapply Hc; exact H.
Qed.

Lemma wf_del m k : wf_kv m -> wf_kv (kv_del m k).
Proof.
  intros [Hs Hc]. split; [apply kv_del_sorted; exact Hs|].
  intros k' b H. apply kv_get_del_some in H; [|exact Hs]. eapply Hc; exact H.
Qed.

Lemma wf_del_range m lo hi : wf_kv m -> wf_kv (kv_del_range m lo hi).
Proof.
  intros [Hs Hc]. split; [apply kv_del_range_sorted; exact Hs|].
  intros k b H. rewrite kv_get_del_range in H by exact Hs.
  destruct (key_in_range lo hi k); [discriminate|]. eapply Hc; exact H.
Qed.

(* ---- abstraction: what a user sees ---- *)
Definition uv (m : kvmap) (k : key) : option entry :=
  if is_internal k then None
  else match kv_get m k with Some (VRecord e) => Some e | _ => None end.

Definition alive (m : kvmap) (z : Z) : bool :=
  match kv_get m (session_key z) with Some _ => true | None => false end.

(* on a well-formed map a user key is read as the user sees it *)
Lemma get_entry_user m k : wf_kv m -> is_internal k = false -> get_entry m k = Ok (uv m k).
Proof.
  intros [_ Hc] Hi. unfold get_entry, uv. rewrite Hi.
  destruct (kv_get m k) as [[e|b]|] eqn:G; simpl; try reflexivity.
  apply Hc in G. congruence.
Qed.

(* ---- keys the callbacks touch: shadow keys and index keys ---- *)
Definition cbkey (k : key) : Prop :=
  (exists z x, k = shadow_key z x) \/ (exists pk si, k = index_key pk si).

Lemma cbkey_internal k : cbkey k -> is_internal k = true.
Proof.
  intros [[z [x ->]]|[pk [si ->]]]; [apply shadow_key_internal|apply index_key_internal].
Qed.

Lemma session_key_not_cbkey z : ~ cbkey (session_key z).
Proof.
  intros [[s [x H]]|[pk [si H]]]; [eapply session_key_not_shadow|eapply session_key_not_index]; exact H.
Qed.

Lemma user_not_cbkey k : is_internal k = false -> ~ cbkey k.
Proof. intros H C. apply cbkey_internal in C. congruence. Qed.

(* the effect of callbacks: only cb keys change; new bindings are empty values *)
Definition cb_rel (b b' : kvmap) : Prop :=
  wf_kv b' /\
  (forall k, ~ cbkey k -> kv_get b' k = kv_get b k) /\
  (forall k v, kv_get b' k = Some v -> kv_get b k = Some v \/ v = empty_value).

(* ... and when they only delete *)
Definition cb_shrink (b b' : kvmap) : Prop := forall k v, kv_get b' k = Some v -> kv_get b k = Some v.

Lemma cb_rel_refl b : wf_kv b -> cb_rel b b.
Proof. intro H. split; [exact H|]. split; [reflexivity|]. intros k v G. left. exact G. Qed.

Lemma cb_rel_trans a b c : cb_rel a b -> cb_rel b c -> cb_rel a c.
Proof.
  intros [_ [H1 H2]] [Hw [H3 H4]]. split; [exact Hw|]. split.
  - intros k Hk. rewrite H3, H1 by exact Hk. reflexivity.
  - intros k v G. destruct (H4 _ _ G) as [G' | Hv]; [apply H2; exact G'|right; exact Hv].
Qed.

Lemma cb_shrink_refl b : cb_shrink b b.
Proof. intros k v H. exact H. Qed.

Lemma cb_shrink_trans a b c : cb_shrink a b -> cb_shrink b c -> cb_shrink a c.
Proof. intros H1 H2 k v G. apply H1, H2, G. Qed.

Lemma cb_rel_del b x : wf_kv b -> cbkey x -> cb_rel b (kv_del b x) /\ cb_shrink b (kv_del b x).
Proof.
  intros Hw Hx. split.
  - split; [apply wf_del; exact Hw|]. split.
    + intros k Hk. apply kv_get_del_other; [apply Hw|]. intro; subst. contradiction.
    + intros k v G. left. eapply kv_get_del_some; [apply Hw|exact G].
  - intros k v G. eapply kv_get_del_some; [apply Hw|exact G].
Qed.

Lemma cb_rel_put_empty b x : wf_kv b -> cbkey x -> cb_rel b (kv_put b x empty_value).
Proof.
  intros Hw Hx. split; [apply wf_put_record; exact Hw|]. split.
  - intros k Hk. apply kv_get_put_other. intro; subst. contradiction.
  - intros k v G. destruct (list_eq_dec N.eq_dec k x) as [->|Hne].
    + rewrite kv_get_put_same in G. inversion G. right. reflexivity.
    + rewrite kv_get_put_other in G by exact Hne. left. exact G.
Qed.

Lemma cb_rel_wf b b' : cb_rel b b' -> wf_kv b'.
Proof. intros [H _]. exact H. Qed.

(* what the user sees is untouched by callbacks *)
Lemma cb_rel_uv b b' k : cb_rel b b' -> uv b' k = uv b k.
Proof.
  intros [_ [H _]]. unfold uv. destruct (is_internal k) eqn:Hi; [reflexivity|].
  rewrite H; [reflexivity|]. apply user_not_cbkey. exact Hi.
Qed.

Lemma cb_rel_alive b b' z : cb_rel b b' -> alive b' z = alive b z.
Proof. intros [_ [H _]]. unfold alive. rewrite H; [reflexivity|]. apply session_key_not_cbkey. Qed.

Lemma cb_rel_get_user b b' k : cb_rel b b' -> is_internal k = false -> kv_get b' k = kv_get b k.
Proof. intros [_ [H _]] Hi. apply H. apply user_not_cbkey. exact Hi. Qed.

(* ---- the session callback ---- *)
Lemma delete_shadow_rel b k ex : wf_kv b -> cb_rel b (delete_shadow b k ex) /\ cb_shrink b (delete_shadow b k ex).
Proof.
  intro Hw. unfold delete_shadow. destruct ex as [e|]; [|split; [apply cb_rel_refl; exact Hw|apply cb_shrink_refl]].
  destruct (e_session e) as [s|]; [|split; [apply cb_rel_refl; exact Hw|apply cb_shrink_refl]].
  apply cb_rel_del; [exact Hw|]. left. exists s, k. reflexivity.
Qed.

Lemma session_on_put_spec b p ex :
  wf_kv b ->
  exists b', cb_rel b b' /\
    session_on_put b p ex =
      Ok (match p_session p with
          | None => OK
          | Some z => if alive b z then OK else SESSION_DOES_NOT_EXIST
          end, b') /\
    (match p_session p with Some z => alive b z = false -> b' = b | None => True end).
Proof.
  intro Hw. unfold session_on_put, alive. destruct (p_session p) as [z|].
  - destruct (kv_get b (session_key z)) eqn:G.
    + eexists. split; [|split; [reflexivity|discriminate]].
      eapply cb_rel_trans; [apply delete_shadow_rel; exact Hw|].
      apply cb_rel_put_empty; [eapply cb_rel_wf, delete_shadow_rel; exact Hw|].
      left. exists z, (p_key p). reflexivity.
    + exists b. split; [apply cb_rel_refl; exact Hw|]. split; reflexivity.
  - eexists. split; [apply delete_shadow_rel; exact Hw|]. split; [reflexivity|exact I].
Qed.

(* ---- the index callback ---- *)
Lemma delete_indexes_rel pk e b : wf_kv b -> cb_rel b (delete_indexes b pk e) /\ cb_shrink b (delete_indexes b pk e).
Proof.
  unfold delete_indexes. generalize (e_indexes e) as sis. intro sis. revert b.
  induction sis as [|si tl IH]; simpl; intros b Hw.
  - split; [apply cb_rel_refl; exact Hw|apply cb_shrink_refl].
  - assert (Hc : cbkey (index_key pk si)) by (right; exists pk, si; reflexivity).
    destruct (cb_rel_del b _ Hw Hc) as [H1 H2].
    destruct (IH _ (cb_rel_wf _ _ H1)) as [H3 H4].
    split; [eapply cb_rel_trans; eassumption|eapply cb_shrink_trans; eassumption].
Qed.

Lemma write_indexes_rel pk sis b : wf_kv b -> cb_rel b (write_indexes b pk sis).
Proof.
  unfold write_indexes. revert b. induction sis as [|si tl IH]; simpl; intros b Hw.
  - apply cb_rel_refl; exact Hw.
  - assert (Hc : cbkey (index_key pk si)) by (right; exists pk, si; reflexivity).
    pose proof (cb_rel_put_empty b _ Hw Hc) as H1.
    eapply cb_rel_trans; [exact H1|]. apply IH. eapply cb_rel_wf; exact H1.
Qed.

Lemma index_on_put_spec b p ex : wf_kv b -> exists b', cb_rel b b' /\ index_on_put b p ex = Ok (OK, b').
Proof.
  intro Hw. unfold index_on_put. eexists. split; [|reflexivity].
  destruct ex as [e|].
  - eapply cb_rel_trans; [apply delete_indexes_rel; exact Hw|].
    apply write_indexes_rel. eapply cb_rel_wf, delete_indexes_rel. exact Hw.
  - apply write_indexes_rel. exact Hw.
Qed.

(* ---- the wrapper chain ---- *)
Lemma wrapper_on_put_spec b p ex :
  wf_kv b ->
  exists b', cb_rel b b' /\
    wrapper_on_put b p ex =
      Ok (match p_session p with
          | None => OK
          | Some z => if alive b z then OK else SESSION_DOES_NOT_EXIST
          end, b').
Proof.
  intro Hw. unfold wrapper_on_put.
  destruct (session_on_put_spec b p ex Hw) as [b1 [R1 [E1 _]]]. rewrite E1.
  destruct (index_on_put_spec b1 p ex (cb_rel_wf _ _ R1)) as [b2 [R2 E2]].
  destruct (p_session p) as [z|].
  - destruct (alive b z).
    + rewrite E2. exists b2. split; [eapply cb_rel_trans; eassumption|reflexivity].
    + exists b1. split; [exact R1|reflexivity].
  - rewrite E2. exists b2. split; [eapply cb_rel_trans; eassumption|reflexivity].
Qed.

Lemma wrapper_on_delete_with_entry_spec b k e :
  wf_kv b -> exists b', wrapper_on_delete_with_entry b k e = Ok b' /\ cb_rel b b' /\ cb_shrink b b'.
Proof.
  intro Hw. unfold wrapper_on_delete_with_entry, session_on_delete_with_entry, index_on_delete_with_entry.
  eexists. split; [reflexivity|].
  destruct (delete_shadow_rel b k (Some e) Hw) as [R1 S1].
  destruct (delete_indexes_rel k e _ (cb_rel_wf _ _ R1)) as [R2 S2].
  split; [eapply cb_rel_trans; eassumption|eapply cb_shrink_trans; eassumption].
Qed.

(* OnDelete on a user key that holds a record: both callbacks find the entry again *)
Lemma wrapper_on_delete_spec b k e :
  wf_kv b -> is_internal k = false -> uv b k = Some e ->
  exists b', wrapper_on_delete b k = Ok b' /\ cb_rel b b' /\ cb_shrink b b'.
Proof.
  intros Hw Hi Hu. unfold wrapper_on_delete, session_on_delete.
  rewrite (get_entry_user b k Hw Hi), Hu.
  destruct (delete_shadow_rel b k (Some e) Hw) as [R1 S1].
  unfold index_on_delete.
  rewrite (get_entry_user _ k (cb_rel_wf _ _ R1) Hi), (cb_rel_uv _ _ k R1), Hu.
  destruct (delete_indexes_rel k e _ (cb_rel_wf _ _ R1)) as [R2 S2].
  eexists. split; [reflexivity|].
  split; [eapply cb_rel_trans; eassumption|eapply cb_shrink_trans; eassumption].
Qed.
