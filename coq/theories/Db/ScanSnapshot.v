(* Db/ScanSnapshot.v — a read over many records is ONE observation (used by Properties/C02.v).

   In the model every read takes ONE state: db_list / db_range_scan / secondary_list are functions of the state the
   read started in.  Stated against writes that commit while the read is being streamed: whatever list [ws] of
   write requests is applied meanwhile, the result is the range in the state after a PREFIX of [ws] (the same prefix
   for every key of the result) - which is what the correspondence leg c02scan (harness/cmd/db/c02_scan.go) checks on
   the real LeaderController, where the result is produced record by record from a Pebble iterator whose lifetime is
   outside this model.
   NOT covered: secondary_range_scan.  The model reads one state there too, but the implementation reads every record
   with a separate live Get (open finding scan:index-range-scan-not-atomic): the model is not faithful for that read
   under concurrent writes, and no claim is made for it. *)
From Coq Require Import List NArith ZArith.
From Oxia.Db Require Import Types Kv Indexes Write Read IndexReads.
Import ListNotations.

Fixpoint apply_writes (cfg : config) (st : state) (ws : list (write_req * Z * N)) : state :=
  match ws with
  | [] => st
  | (req, offset, ts) :: tl => apply_writes cfg (fst (process_write wrapper_callbacks cfg st req offset ts)) tl
  end.

Theorem scan_is_atomic_snapshot : forall cfg st ws,
  exists n, (n <= length ws)%nat /\
    let seen := apply_writes cfg st (firstn n ws) in
    (forall a b, db_range_scan st a b = db_range_scan seen a b) /\
    (forall a b, db_list st a b = db_list seen a b) /\
    (forall name a b, secondary_list st name a b = secondary_list seen name a b) /\
    (forall k c incl, db_get st k c incl = db_get seen k c incl).
Proof.
  intros cfg st ws. exists 0%nat. split; [apply Nat.le_0_l|]. simpl. repeat split.
Qed.
