(* Db/Proofs_C15.v — C15: secondary indexes mirror live records exactly; queries stay inside one index.

   Assembled from C15_Layout.v (key layout), C15_Inv.v (the mirror invariant along the write path) and
   C15_Reads.v (list / range-scan / get against the sorted reference).  This file states the theorems over
   the reachable states, keeps the transcription of doSecondaryGet BEFORE the repair of O-14 with its
   refutation, and documents where the mirror fails outside the hypotheses. *)
From Coq Require Import List NArith ZArith Bool Lia Sorting.Sorted.
From Oxia.KeyOrder Require Import Model Proofs.
From Oxia.Db Require Import Types Bytes Escape Keys Kv SortedMap SortedMapProofs KeyFacts Sessions Indexes
     Sequences Notifications Write Read Spec KvProofs NumProofs Proofs_C12 IndexReads C15_Layout C15_Inv C15_Reads.
Import ListNotations.
Open Scope N_scope.

(* ------------------------------------------------------------------ which ranges a request may delete *)
Lemma range_user_noidx r : range_user r -> range_noidx r.
Proof. intros H pk si. apply H. apply index_key_internal. Qed.

Definition session_seg : bytes := [115; 101; 115; 115; 105; 111; 110].   (* "session" *)

Lemma session_key_segs z x : session_key z ++ x = oxia_seg ++ 47 :: session_seg ++ 47 :: hex16 z ++ x.
Proof. unfold session_key. rewrite <- app_assoc. reflexivity. Qed.

(* the range session.delete() removes: [SessionKey ++ "/", SessionKey ++ "//") contains no index key *)
Theorem shadow_range_noidx z : range_noidx (mkRange (session_key z ++ [47]) (session_key z ++ [47; 47])).
Proof.
  intros pk si. cbn [r_start r_end]. destruct (key_in_range _ _ _) eqn:R; [|reflexivity]. exfalso.
  unfold key_in_range, in_range, SortedMap.leb, SortedMap.ltb in R. apply andb_true_iff in R. destruct R as [R1 R2].
  rewrite !session_key_segs in R1, R2.
  assert (A : cmp_slash (oxia_seg ++ 47 :: session_seg ++ 47 :: hex16 z ++ [47]) (index_key pk si) <> Gt)
    by (destruct (cmp_slash _ (index_key pk si)); [discriminate|discriminate|discriminate R1]).
  assert (B : cmp_slash (index_key pk si) (oxia_seg ++ 47 :: session_seg ++ 47 :: hex16 z ++ [47; 47]) <> Gt)
    by (destruct (cmp_slash (index_key pk si) _); try discriminate).
  destruct (convex_seg _ _ _ _ oxia_seg_ok A B) as [r1 [E1 [A1 B1]]].
  assert (Hs : none_of 47 session_seg) by (repeat constructor; discriminate).
  destruct (convex_seg _ _ _ _ Hs A1 B1) as [r2 [E2 _]]. subst r1.
  rewrite index_key_unfold in E1. discriminate E1.
Qed.

(* ------------------------------------------------------------------ 1. the mirror *)
Theorem index_mirror cfg ops :
  run_ok cfg init_state ops ->
  let m := st_kv (run cfg ops) in
  (forall pk si, si_ok si -> (kv_get m (index_key pk si) <> None <-> declares m pk si)) /\
  (forall k, kv_get m k <> None -> has_prefix idx_prefix k = true ->
     exists pk si, k = index_key pk si /\ declares m pk si /\ si_ok si /\ pk_ok pk).
Proof.
  intros Hok m. pose proof (reachable_inv cfg ops Hok) as Hi. fold m in Hi. split.
  - intros pk si Hsi. split.
    + intro P. destruct (inv_sound m Hi _ P (index_is_idx pk si)) as [pk' [si' [E D]]].
      destruct (inv_ok m Hi _ _ D) as [Hsi' _].
      destruct (index_key_inj_ok _ _ _ _ Hsi Hsi' E) as [-> ->]. exact D.
    + apply (inv_complete m Hi).
  - intros k P Ik. destruct (inv_sound m Hi k P Ik) as [pk [si [E D]]].
    destruct (inv_ok m Hi _ _ D) as [H1 H2]. exists pk, si. split; [exact E|]. split; [exact D|]. split; assumption.
Qed.

(* ------------------------------------------------------------------ 2. the sorted reference and the reads *)
Definition is_reference (m : kvmap) (n : bytes) (E : list ientry) : Prop :=
  StronglySorted entry_lt E /\ forall s pk, In (s, pk) E <-> declares m pk (mkSIndex n s).

Theorem reference_exists_unique cfg ops n :
  run_ok cfg init_state ops -> name_ok n ->
  let m := st_kv (run cfg ops) in
  is_reference m n (index_entries m n) /\ forall E, is_reference m n E -> E = index_entries m n.
Proof.
  intros Hok Hn m. pose proof (reachable_inv cfg ops Hok) as Hi. fold m in Hi. split.
  - split; [apply entries_sorted; assumption|]. intros s pk. apply entries_iff; assumption.
  - intros E [H1 H2]. apply entries_unique; assumption.
Qed.

Theorem list_scan_within_index cfg ops n a b E :
  run_ok cfg init_state ops -> name_ok n -> above1 a -> above1 b ->
  let st := run cfg ops in
  is_reference (st_kv st) n E ->
  secondary_list st n a b = Ok (map snd (filter (in_skey_range a b) E)) /\
  secondary_range_scan st n a b = Ok (map (fun e => record_resp (st_kv st) (snd e) true None) (filter (in_skey_range a b) E)).
Proof.
  intros Hok Hn Ha Hb st [H1 H2]. pose proof (reachable_inv cfg ops Hok) as Hi. fold st in Hi.
  rewrite (entries_unique (st_kv st) n E Hi Hn H1 H2).
  split; [apply secondary_list_ref|apply secondary_range_scan_ref]; assumption.
Qed.

Theorem get_within_index cfg ops n key c incl E :
  run_ok cfg init_state ops -> name_ok n -> above1 key ->
  let st := run cfg ops in
  is_reference (st_kv st) n E ->
  secondary_get st n key c incl =
  Ok (match ref_get E key c with
      | Some (s, pk) => record_resp (st_kv st) pk incl (Some s)
      | None => get_not_found
      end).
Proof.
  intros Hok Hn Hk st [H1 H2]. pose proof (reachable_inv cfg ops Hok) as Hi. fold st in Hi.
  rewrite (entries_unique (st_kv st) n E Hi Hn H1 H2). apply secondary_get_ref; assumption.
Qed.

(* every record a query returns belongs to the index that was asked *)
Corollary get_stays_in_index cfg ops n key c incl E s pk :
  run_ok cfg init_state ops -> name_ok n -> above1 key ->
  is_reference (st_kv (run cfg ops)) n E -> ref_get E key c = Some (s, pk) ->
  exists r, kv_get (st_kv (run cfg ops)) pk = Some (VRecord r) /\ In (mkSIndex n s) (e_indexes r) /\
    secondary_get (run cfg ops) n key c incl =
    Ok (mkGetResp OK (Some pk) (if incl then Some (e_value r) else None) (Some (version_of r)) (Some s)).
Proof.
  intros Hok Hn Hk HE R. pose proof (get_within_index cfg ops n key c incl E Hok Hn Hk HE) as G.
  simpl in G. rewrite R in G.
  assert (Hin : In (s, pk) E).
  { pose proof (reachable_inv cfg ops Hok) as Hi. destruct HE as [H1 H2].
    rewrite (entries_unique _ n E Hi Hn H1 H2) in R |- *.
    clear -R. set (L := index_entries _ n) in *.
    unfold ref_get, ref_floor, ref_equal, ref_ceiling, ref_higher, ref_lower in R.
    assert (F : forall f o, find f L = Some o -> In o L) by (intros f o H; apply find_some in H; apply H).
    assert (Lr : forall f o, hd_error (rev (filter f L)) = Some o -> In o L).
    { intros f o H. destruct (rev (filter f L)) as [|x l] eqn:Er; [discriminate|]. inversion H; subst x.
      assert (Hx : In o (rev (filter f L))) by (rewrite Er; left; reflexivity).
      apply in_rev in Hx. apply filter_In in Hx. apply Hx. }
    destruct c.
    - destruct (find _ L) as [e|] eqn:Fe; [|discriminate]. destruct (key_eqb (fst e) key); inversion R; subst. eapply F; exact Fe.
    - destruct (find _ L) as [e|] eqn:Fe.
      + destruct (key_eqb (fst e) key); [inversion R; subst; eapply F; exact Fe|eapply Lr; exact R].
      + eapply Lr; exact R.
    - eapply F; exact R.
    - eapply Lr; exact R.
    - eapply F; exact R. }
  apply HE in Hin. destruct Hin as [r [Gr Hr]]. exists r. split; [exact Gr|]. split; [exact Hr|].
  rewrite G. unfold record_resp. rewrite Gr. reflexivity.
Qed.

(* ------------------------------------------------------------------ 3. doSecondaryGet before the repair (O-14) *)
(* walk backwards over [rev_before] (nearest first) / forwards over [after]: no test that the key under the
   cursor belongs to the index; when the iterator becomes invalid the values of the last iteration are returned *)
Fixpoint old_sget_walk (req_key : bytes) (c : cmp_type) (ks : list key) (last : sget_result) : sget_result :=
  match ks with
  | [] => last
  | k :: tl =>
      match sget_step req_key c k with
      | Some r => r
      | None =>
          let here := match index_primary_and_secondary k with
                      | IdxOk pk skey => match pk with [] => SGNone | _ => SGFound pk skey end
                      | _ => SGNone
                      end in
          old_sget_walk req_key c tl here
      end
  end.

Definition old_do_secondary_get (st : state) (name req_key : bytes) (c : cmp_type) : sget_result :=
  let search := index_range_key name req_key in
  let ks := map fst (st_kv st) in
  let before := rev (filter (fun k => key_ltb k search) ks) in
  let after := filter (fun k => negb (key_ltb k search)) ks in
  match c with
  | CLower => old_sget_walk req_key c before SGNone
  | CFloor =>
      match after with
      | [] => SGNone
      | k :: _ => old_sget_walk req_key c (k :: before) SGNone
      end
  | _ => old_sget_walk req_key c after SGNone
  end.

Definition old_secondary_get (st : state) (name req_key : bytes) (c : cmp_type) (include_value : bool)
  : result get_resp :=
  match old_do_secondary_get st name req_key c with
  | SGErr e => Err e
  | SGNone => Ok get_not_found
  | SGFound pk skey =>
      match db_get st pk CEqual include_value with
      | Err e => Err e
      | Ok g => Ok (mkGetResp (g_status g) (Some pk) (g_value g) (g_version g) (Some skey))
      end
  end.

(* witness: index "a" = { "5" -> p1 },  index "b" = { "k" -> p2 }, one request *)
Definition w_cfg : config := mkConfig 1 100.
Definition w_put (k : key) (n s : bytes) : put_req := mkPut k [118] None None None None [] [mkSIndex n s].
Definition w_req : write_req := mkWrite [w_put [112; 49] [97] [53]; w_put [112; 50] [98] [107]] [] [].
Definition w_ops : list db_op := [OpWrite w_req 0 1000].

Lemma put_ok_intro p :
  op_key (p_key p) -> pk_ok (p_key p) -> Forall si_ok (p_indexes p) ->
  (p_deltas p <> [] -> is_internal (p_key p) = false) -> put_ok p.
Proof.
  intros H1 [H2 H2'] H3 H4. split; [exact H1|]. split; [exact H3|]. split; [|exact H4].
  intros _. split; [exact H2'|intros _; exact H2].
Qed.

Lemma w_put_ok k n s : is_internal k = false -> pk_ok k -> name_ok n -> skey_ok s -> put_ok (w_put k n s).
Proof.
  intros H1 H2 H3 H4. apply put_ok_intro; [left; exact H1|exact H2| |].
  - constructor; [split; assumption|constructor].
  - intro H. exfalso. apply H. reflexivity.
Qed.

Ltac bytes_ok := repeat first [split | discriminate | constructor | reflexivity].

Lemma w_ops_ok : run_ok w_cfg init_state w_ops.
Proof.
  simpl. split; [|exact I]. split.
  - split; [|split; constructor].
    constructor; [|constructor; [|constructor]]; apply w_put_ok; bytes_ok.
  - vm_compute. repeat split.
Qed.

(* CEILING "m" in index "a" (nothing at or above "m" there) returned the record of index "b";
   FLOOR "a" in index "b" (nothing at or below "a" there) returned the record of index "a" *)
Theorem get_within_index_old_refuted :
  exists cfg ops n key c, run_ok cfg init_state ops /\ name_ok n /\ skey_ok key /\
    ref_get (index_entries (st_kv (run cfg ops)) n) key c = None /\
    exists pk s r, old_secondary_get (run cfg ops) n key c true =
                     Ok (mkGetResp OK (Some pk) (Some (e_value r)) (Some (version_of r)) (Some s)) /\
                   kv_get (st_kv (run cfg ops)) pk = Some (VRecord r) /\
                   ~ In (mkSIndex n s) (e_indexes r).
Proof.
  exists w_cfg, w_ops, [97], [109], CCeiling. split; [exact w_ops_ok|].
  split; [bytes_ok|]. split; [bytes_ok|]. split; [vm_compute; reflexivity|].
  exists [112; 50], [107], (mkEntry [118] 1 0 1000 1000 None None None [mkSIndex [98] [107]]).
  split; [vm_compute; reflexivity|]. split; [vm_compute; reflexivity|].
  simpl. intros [H|[]]. discriminate.
Qed.

Theorem get_within_index_old_floor_refuted :
  ref_get (index_entries (st_kv (run w_cfg w_ops)) [98]) [97] CFloor = None /\
  exists r, old_secondary_get (run w_cfg w_ops) [98] [97] CFloor false =
              Ok (mkGetResp OK (Some [112; 49]) None (Some (version_of r)) (Some [53])) /\
            kv_get (st_kv (run w_cfg w_ops)) [112; 49] = Some (VRecord r) /\ e_indexes r = [mkSIndex [97] [53]].
Proof.
  split; [vm_compute; reflexivity|]. exists (mkEntry [118] 0 0 1000 1000 None None None [mkSIndex [97] [53]]).
  split; [vm_compute; reflexivity|]. split; vm_compute; reflexivity.
Qed.

(* the repaired code on the same witnesses *)
Example get_within_index_witness_repaired :
  secondary_get (run w_cfg w_ops) [97] [109] CCeiling true = Ok get_not_found /\
  secondary_get (run w_cfg w_ops) [98] [97] CFloor false = Ok get_not_found /\
  secondary_get (run w_cfg w_ops) [98] [122] CFloor false =
    Ok (mkGetResp OK (Some [112; 50]) None (Some (mkVersion 1 0 1000 1000 None None)) (Some [107])).
Proof. vm_compute. repeat split. Qed.

(* ------------------------------------------------------------------ 4. outside the hypotheses *)
(* (a) freshness of sequence keys ([puts_fresh]) is a hypothesis of the mirror because applyPut passes no
   existing entry to the callbacks for a sequential put: a generated key that already held a record would
   leave that record's index entries behind.  This was the case in the code as found ("s-0x" is the last key
   under the prefix, its suffix scans as 0, delta 2 lands on the existing "s-00000000000000000002"; confirmed
   on the real code through the harness) and was repaired together with C16 (db_sequences.go now refuses,
   with UNEXPECTED_VERSION_ID, a key that does not come after the current last key).  The same history on the
   repaired model: the sequence put is refused and the mirror is intact. *)
Definition q_key2 : key := [115; 45] ++ pad20 2.
Definition q_req1 := mkWrite [w_put q_key2 [97] [107]; mkPut [115; 45; 48; 120] [118] None None None None [] []] [] [].
Definition q_req2 := mkWrite [mkPut [115] [118] None None None (Some [112]) [2] [mkSIndex [98] [109]]] [] [].

Example sequence_put_on_occupied_key_refused :
  let st1 := fst (process_write wrapper_callbacks w_cfg init_state q_req1 0 1000) in
  let '(st2, r) := process_write wrapper_callbacks w_cfg st1 q_req2 1 1001 in
  r = Ok (mkWriteResp [put_status UNEXPECTED_VERSION_ID] [] []) /\
  index_entries (st_kv st2) [97] = [([107], q_key2)] /\ index_entries (st_kv st2) [98] = [].
Proof. vm_compute. repeat split. Qed.

(* (b) an index name with a '/' collides with another (name, skey): the entry of ("a/b","c") is read as an
   entry of index "a" with secondary key "b/c" although no record declares it *)
Theorem index_mirror_slash_in_name_refuted :
  exists cfg ops pk si, si_ok si /\
    kv_get (st_kv (run cfg ops)) (index_key pk si) <> None /\ ~ declares (st_kv (run cfg ops)) pk si.
Proof.
  exists w_cfg, [OpWrite (mkWrite [w_put [112] [97; 47; 98] [99]] [] []) 0 1000], [112], (mkSIndex [97] [98; 47; 99]).
  split; [bytes_ok|]. split.
  - vm_compute. discriminate.
  - intros [e [G Hin]]. vm_compute in G. inversion G; subst e. simpl in Hin. destruct Hin as [H|[]]. discriminate.
Qed.

(* ------------------------------------------------------------------ 5. the hypotheses are satisfiable *)
(* overwrite that moves a record from index a to index b, a record with two indexes and a repeated
   secondary key, a delete, a user range delete, a session with an ephemeral indexed record and its closing
   request (deletes + shadow range) *)
Definition e_sess : key := session_key 2.
Definition e_r1 := mkWrite [w_put [112; 49] [97] [107]; w_put [112; 50] [97] [107]] [] [].
Definition e_r2 := mkWrite [mkPut [112; 49] [118] None None None None [] [mkSIndex [98] [107]; mkSIndex [97; 45] [109]]] [] [].
Definition e_r3 := mkWrite [mkPut e_sess [] None None None None [] []] [] [].
Definition e_r4 := mkWrite [mkPut [120; 47; 49] [118] None (Some 2%Z) None None [] [mkSIndex [97] [122]]] [] [].
Definition e_r5 := mkWrite [] [mkDel [112; 50] None] [mkRange [113] [114]].
Definition e_r6 := mkWrite [] [mkDel [120; 47; 49] None; mkDel e_sess None] [mkRange (e_sess ++ [47]) (e_sess ++ [47; 47])].
Definition e_ops : list db_op :=
  [OpWrite e_r1 0 1000; OpWrite e_r2 1 1001; OpWrite e_r3 2 1002; OpWrite e_r4 3 1003; OpWrite e_r5 4 1004;
   OpEnableNotifications false; OpWrite e_r6 5 1005].

Lemma e_sess_op : op_key e_sess.
Proof. right. exists 2%Z. reflexivity. Qed.

Ltac nodeltas := let H := fresh in intro H; exfalso; apply H; reflexivity.

Lemma e_reqs_ok : c15_request e_r1 /\ c15_request e_r2 /\ c15_request e_r3 /\ c15_request e_r4 /\
                  c15_request e_r5 /\ c15_request e_r6.
Proof.
  assert (U : forall k, is_internal k = false -> op_key k) by (intros k H; left; exact H).
  repeat match goal with |- _ /\ _ => split end.
  - split; [|split; constructor]. constructor; [|constructor; [|constructor]]; apply w_put_ok; bytes_ok.
  - split; [|split; constructor]. constructor; [|constructor].
    apply put_ok_intro; [left; reflexivity|bytes_ok| |nodeltas].
    constructor; [bytes_ok|constructor; [bytes_ok|constructor]].
  - split; [|split; constructor]. constructor; [|constructor].
    apply put_ok_intro; [exact e_sess_op| |constructor|nodeltas].
    split; [discriminate|]. vm_compute. repeat constructor.
  - split; [|split; constructor]. constructor; [|constructor].
    apply put_ok_intro; [left; reflexivity|bytes_ok| |nodeltas].
    constructor; [bytes_ok|constructor].
  - split; [constructor|split].
    + constructor; [left; reflexivity|constructor].
    + constructor; [|constructor]. apply range_user_noidx, range_safe_is_user. reflexivity.
  - split; [constructor|split].
    + constructor; [left; reflexivity|constructor; [exact e_sess_op|constructor]].
    + constructor; [|constructor]. apply shadow_range_noidx.
Qed.

Example e_ops_ok : run_ok w_cfg init_state e_ops.
Proof.
  destruct e_reqs_ok as [H1 [H2 [H3 [H4 [H5 H6]]]]].
  unfold e_ops. cbn [run_ok op_ok].
  repeat match goal with |- _ /\ _ => split end; try exact I; try assumption; vm_compute; repeat split.
Qed.

Example e_ops_reads :
  index_entries (st_kv (run w_cfg (firstn 4 e_ops))) [97] = [([107], [112; 50]); ([122], [120; 47; 49])] /\
  index_entries (st_kv (run w_cfg (firstn 4 e_ops))) [98] = [([107], [112; 49])] /\
  index_entries (st_kv (run w_cfg e_ops)) [97] = [] /\
  index_entries (st_kv (run w_cfg e_ops)) [97; 45] = [([109], [112; 49])] /\
  secondary_list (run w_cfg (firstn 4 e_ops)) [97] [107] [122; 122] = Ok [[112; 50]; [120; 47; 49]].
Proof. vm_compute. repeat split. Qed.
