(* Db/C17_Cover.v — the batch of a request determines what happened to every user key (helper of Proofs_C17).

   [changes] (C17_Batch) is a map  key -> notification  in which the last operation on a key wins.  This file
   proves that, on the specification of C12, such a map still says everything:  for every user key k,
     - k lies in a range the map reports as RANGE_DELETED           =>  k holds no record afterwards;
     - otherwise, CREATED v / MODIFIED v under k                    =>  k holds a record with version v afterwards,
                  DELETED under k                                   =>  k holds no record afterwards,
                  nothing under k                                   =>  k's record is what it was before the request.
   (Delete-ranges run after puts and deletes, so "in a reported range" takes precedence.)

   This is what the repair of DeletedRange (O-17b) buys: with the code as found an EMPTY range recorded under
   a key that an earlier operation of the same request had created / deleted replaced that notification, and of
   two ranges with the same start only the last was kept ([range_overwrite_refuted]). *)
From Coq Require Import List NArith ZArith Bool Lia.
From Oxia.KeyOrder Require Import Model Proofs.
From Oxia.Db Require Import Types Bytes Keys Kv SortedMap Notifications Write Spec KvProofs Proofs_C12 C17_Batch.
Import ListNotations.

Definition in_notified_range (c : chg) (k : key) : Prop :=
  exists a b, c a = Some (NRangeDeleted b) /\ key_in_range (Some a) (Some b) k = true.

(* what the map says about [k] itself, against the record [now] holds and the record it held [before] *)
Definition point_ok (n : option notif) (before now : option entry) : Prop :=
  match n with
  | None => now = before
  | Some (NCreated v) | Some (NModified v) => exists e, now = Some e /\ e_version e = v
  | Some NDeleted => now = None
  | Some (NRangeDeleted _) => False
  end.

Definition covers (c : chg) (s0 s : sstate) : Prop :=
  forall k, is_internal k = false ->
    (in_notified_range c k -> s_recs s k = None) /\
    (~ in_notified_range c k -> point_ok (c k) (s_recs s0 k) (s_recs s k)).

(* ---------------------------------------------------------------- the key order *)
Lemma in_range_iff a b k : key_in_range (Some a) (Some b) k = true <-> cmp_slash a k <> Gt /\ cmp_slash k b = Lt.
Proof.
  unfold key_in_range, in_range, SortedMap.leb, SortedMap.ltb. rewrite andb_true_iff. split.
  - intros [H1 H2]. split; [intro C; rewrite C in H1; discriminate|destruct (cmp_slash k b); try discriminate; reflexivity].
  - intros [H1 H2]. rewrite H2. split; [destruct (cmp_slash a k); try reflexivity; contradiction|reflexivity].
Qed.

Lemma empty_range a b k : key_geb a b = true -> key_in_range (Some a) (Some b) k = false.
Proof.
  intro H. destruct (key_in_range (Some a) (Some b) k) eqn:E; [|reflexivity]. exfalso.
  apply in_range_iff in E. destruct E as [E1 E2].
  pose proof (cmp_slash_le_lt_trans _ _ _ E1 E2) as L. unfold key_geb in H. rewrite L in H. discriminate.
Qed.

Lemma start_in_range a b : key_geb a b = false -> key_in_range (Some a) (Some b) a = true.
Proof.
  intro H. apply in_range_iff. split; [rewrite cmp_slash_refl; discriminate|].
  unfold key_geb in H. destruct (cmp_slash a b); try discriminate. reflexivity.
Qed.

Lemma range_widen a b prev k :
  key_geb prev b = true -> key_in_range (Some a) (Some b) k = true -> key_in_range (Some a) (Some prev) k = true.
Proof.
  intros H E. apply in_range_iff in E. destruct E as [E1 E2]. apply in_range_iff. split; [exact E1|].
  apply (cmp_slash_lt_le_trans k b prev E2). intro C. unfold key_geb in H.
  rewrite cmp_slash_antisym, C in H. simpl in H. discriminate.
Qed.

Lemma range_narrow a b prev k :
  key_geb prev b = false -> key_in_range (Some a) (Some prev) k = true -> key_in_range (Some a) (Some b) k = true.
Proof.
  intros H E. apply in_range_iff in E. destruct E as [E1 E2]. apply in_range_iff. split; [exact E1|].
  apply (cmp_slash_trans k prev b E2). unfold key_geb in H. destruct (cmp_slash prev b); try discriminate. reflexivity.
Qed.

(* ---------------------------------------------------------------- puts and deletes: no range recorded yet *)
Definition points (c : chg) (s0 s : sstate) : Prop :=
  forall k, is_internal k = false -> point_ok (c k) (s_recs s0 k) (s_recs s k).

Lemma chg_upd_same c k n : is_internal k = false -> chg_upd c k n k = Some n.
Proof. intro H. unfold chg_upd. rewrite H, bytes_eqb_refl. reflexivity. Qed.

Lemma chg_upd_other c k n k' : k' <> k -> chg_upd c k n k' = c k'.
Proof. intro H. unfold chg_upd. destruct (is_internal k); [reflexivity|]. rewrite bytes_eqb_neq by exact H. reflexivity. Qed.

Lemma upd_same f k v : upd f k v k = v.
Proof. unfold upd. rewrite bytes_eqb_refl. reflexivity. Qed.
Lemma upd_other f k v k' : k' <> k -> upd f k v k' = f k'.
Proof. intro H. unfold upd. rewrite bytes_eqb_neq by exact H. reflexivity. Qed.

Lemma put_points s0 s p ch ts s1 r c :
  spec_put s p ch ts = (s1, r) -> points c s0 s -> points (put_change s p r c) s0 s1.
Proof.
  intros H P.
  assert (Hsame : forall st, (s1, r) = (s, put_status st) -> points (put_change s p r c) s0 s1).
  { intros st E. inversion E; subst. unfold put_change. simpl. destruct st; exact P. }
  assert (Hstore : forall kk cur rk, spec_store s kk p cur ts rk = (s1, r) ->
            (match rk with Some nk => nk | None => p_key p end) = kk -> points (put_change s p r c) s0 s1).
  { intros kk cur rk E Hk. unfold spec_store in E. inversion E; subst s1 r; clear E.
    unfold put_change. cbn [pr_status pr_version pr_key]. rewrite Hk.
    intros k Hi. cbn [s_recs]. destruct (list_eq_dec N.eq_dec k kk) as [->|Hne].
    - rewrite chg_upd_same by exact Hi. rewrite upd_same.
      destruct (match p_deltas p with [] => match s_recs s kk with None => true | Some _ => false end | _ :: _ => true end);
        simpl; eexists; (split; [reflexivity|destruct cur; reflexivity]).
    - rewrite chg_upd_other by exact Hne. rewrite upd_other by exact Hne. apply P. exact Hi. }
  unfold spec_put in H. destruct (p_deltas p) as [|d0 dtl].
  - destruct (spec_check (s_recs s (p_key p)) (p_expected p)); [|symmetry in H; eapply Hsame; exact H].
    destruct (spec_session_ok s (p_session p)); [|symmetry in H; eapply Hsame; exact H].
    eapply Hstore; [exact H|reflexivity].
  - destruct (p_expected p); [symmetry in H; eapply Hsame; exact H|].
    destruct ch as [nk| |].
    + destruct (spec_session_ok s (p_session p)); [|symmetry in H; eapply Hsame; exact H].
      eapply Hstore; [exact H|reflexivity].
    + symmetry in H; eapply Hsame; exact H.
    + destruct (spec_session_ok s (p_session p)); symmetry in H; eapply Hsame; exact H.
Qed.

Lemma puts_points ps : forall s0 s cs ts c,
  points c s0 s -> points (snd (puts_changes s ps cs ts c)) s0 (fst (puts_changes s ps cs ts c)).
Proof.
  induction ps as [|p tl IH]; intros s0 s cs ts c P; [exact P|].
  cbn [puts_changes]. destruct (spec_put s p (hd SeqNoKey cs) ts) as [s1 r] eqn:E.
  apply IH. eapply put_points; eassumption.
Qed.

Lemma delete_points s0 s d s1 x c :
  spec_delete s d = (s1, x) -> points c s0 s -> points (del_resp_change d x c) s0 s1.
Proof.
  intros H P. unfold spec_delete in H. unfold del_resp_change.
  destruct (s_recs s (d_key d)) as [e|].
  - destruct (spec_check (Some e) (d_expected d)); inversion H; subst s1 x; clear H; [|exact P].
    intros k Hi. cbn [s_recs]. destruct (list_eq_dec N.eq_dec k (d_key d)) as [->|Hne].
    + rewrite chg_upd_same by exact Hi. rewrite upd_same. reflexivity.
    + rewrite chg_upd_other by exact Hne. rewrite upd_other by exact Hne. apply P. exact Hi.
  - inversion H; subst s1 x. destruct (spec_check None (d_expected d)); exact P.
Qed.

Lemma dels_points ds : forall s0 s c,
  points c s0 s -> points (snd (dels_changes s ds c)) s0 (fst (dels_changes s ds c)).
Proof.
  induction ds as [|d tl IH]; intros s0 s c P; [exact P|].
  cbn [dels_changes]. destruct (spec_delete s d) as [s1 x] eqn:E. apply IH. eapply delete_points; eassumption.
Qed.

(* ---------------------------------------------------------------- no internal key is recorded *)
Lemma put_change_clean s p r c : chg_clean c -> chg_clean (put_change s p r c).
Proof.
  intro H. unfold put_change. destruct (pr_status r); try exact H. destruct (pr_version r); [|exact H].
  apply chg_upd_clean. exact H.
Qed.

Lemma puts_changes_clean ps : forall s cs ts c, chg_clean c -> chg_clean (snd (puts_changes s ps cs ts c)).
Proof.
  induction ps as [|p tl IH]; intros s cs ts c H; [exact H|].
  cbn [puts_changes]. destruct (spec_put s p (hd SeqNoKey cs) ts) as [s1 r]. apply IH, put_change_clean, H.
Qed.

Lemma dels_changes_clean ds : forall s c, chg_clean c -> chg_clean (snd (dels_changes s ds c)).
Proof.
  induction ds as [|d tl IH]; intros s c H; [exact H|].
  cbn [dels_changes]. destruct (spec_delete s d) as [s1 x]. apply IH.
  unfold del_resp_change. destruct x; try exact H. apply chg_upd_clean, H.
Qed.

(* ---------------------------------------------------------------- delete-ranges *)
Lemma points_covers c s0 s : chg_clean c -> points c s0 s -> covers c s0 s.
Proof.
  intros Hc P k Hi. split.
  - intros [a [b [Ha _]]]. exfalso. specialize (P a (Hc _ _ Ha)). rewrite Ha in P. exact P.
  - intros _. apply P. exact Hi.
Qed.

Lemma range_covers s0 s r c :
  range_user r -> chg_clean c -> covers c s0 s ->
  covers (chg_range c (r_start r) (r_end r)) s0 (fst (spec_delete_range s r)).
Proof.
  intros Hu Hc C. unfold spec_delete_range. cbn [fst s_recs]. set (a := r_start r) in *. set (b := r_end r) in *.
  (* an empty range changes nothing *)
  assert (Hempty : key_geb a b = true -> forall c', (forall x, c' x = c x) ->
            covers c' s0 (mkS (fun k => if key_in_range (Some a) (Some b) k then None else s_recs s k) (s_alive s) (s_last s))).
  { intros He c' Hc' k Hi. cbn [s_recs]. rewrite (empty_range a b k He).
    destruct (C k Hi) as [C1 C2]. split.
    - intros [a' [b' [H1 H2]]]. apply C1. exists a', b'. rewrite <- Hc'. split; assumption.
    - intro Hn. rewrite Hc'. apply C2. intros [a' [b' [H1 H2]]]. apply Hn. exists a', b'. rewrite Hc'. split; assumption. }
  unfold chg_range.
  destruct (is_internal a) eqn:Ia.
  { (* a request on user keys cannot sweep the internal start key: the range is empty *)
    destruct (key_geb a b) eqn:G; [apply (Hempty eq_refl); reflexivity|].
    exfalso. pose proof (Hu a Ia) as Hn. fold a b in Hn. rewrite (start_in_range a b G) in Hn. discriminate. }
  destruct (key_geb a b) eqn:G; [apply (Hempty eq_refl); reflexivity|].
  (* a non-empty range: [a] itself is swept *)
  assert (Hset : forall prevopt, c a = prevopt ->
            (forall prev, prevopt = Some (NRangeDeleted prev) -> key_geb prev b = false) ->
            covers (chg_upd c a (NRangeDeleted b)) s0
                   (mkS (fun k => if key_in_range (Some a) (Some b) k then None else s_recs s k) (s_alive s) (s_last s))).
  { intros prevopt Hp Hprev k Hi. cbn [s_recs].
    assert (Hmono : in_notified_range c k -> in_notified_range (chg_upd c a (NRangeDeleted b)) k).
    { intros [a' [b' [H1 H2]]]. destruct (list_eq_dec N.eq_dec a' a) as [->|Hne].
      - exists a, b. rewrite chg_upd_same by exact Ia. split; [reflexivity|].
        apply (range_narrow a b b'); [apply (Hprev b'); rewrite <- Hp; exact H1|exact H2].
      - exists a', b'. rewrite chg_upd_other by exact Hne. split; assumption. }
    destruct (C k Hi) as [C1 C2]. split.
    - intros [a' [b' [H1 H2]]]. destruct (key_in_range (Some a) (Some b) k) eqn:E; [reflexivity|].
      apply C1. destruct (list_eq_dec N.eq_dec a' a) as [->|Hne].
      + rewrite chg_upd_same in H1 by exact Ia. inversion H1; subst b'. exfalso. discriminate (eq_trans (eq_sym H2) E).
      + rewrite chg_upd_other in H1 by exact Hne. exists a', b'. split; assumption.
    - intro Hn. destruct (key_in_range (Some a) (Some b) k) eqn:E.
      + exfalso. apply Hn. exists a, b. rewrite chg_upd_same by exact Ia. split; [reflexivity|exact E].
      + assert (Hka : k <> a) by (intro; subst k; rewrite (start_in_range a b G) in E; discriminate).
        rewrite chg_upd_other by exact Hka. apply C2. intro H. apply Hn, Hmono, H. }
  destruct (c a) as [[v|v| |prev]|] eqn:Ca; try (apply (Hset _ eq_refl); intros prev0 E; discriminate).
  destruct (key_geb prev b) eqn:Gp.
  - (* the recorded range with the same start already covers this one *)
    intros k Hi. cbn [s_recs]. destruct (C k Hi) as [C1 C2]. split.
    + intro H. destruct (key_in_range (Some a) (Some b) k); [reflexivity|apply C1, H].
    + intro Hn. destruct (key_in_range (Some a) (Some b) k) eqn:E; [|apply C2, Hn].
      exfalso. apply Hn. exists a, prev. split; [exact Ca|]. apply (range_widen a b prev); assumption.
  - apply (Hset _ eq_refl). intros prev0 E. inversion E; subst. exact Gp.
Qed.

Lemma chg_range_clean' c s e : chg_clean c -> chg_clean (chg_range c s e).
Proof. apply chg_range_clean. Qed.

Lemma ranges_covers rs : forall s0 s c,
  Forall range_user rs -> chg_clean c -> covers c s0 s ->
  covers (snd (ranges_changes s rs c)) s0 (fst (ranges_changes s rs c)).
Proof.
  induction rs as [|r tl IH]; intros s0 s c Hu Hc C; [exact C|].
  inversion Hu as [|? ? Hr Htl]; subst.
  cbn [ranges_changes]. pose proof (range_covers s0 s r c Hr Hc C) as C1.
  unfold spec_delete_range in *. cbn [fst] in C1. unfold range_resp_change.
  apply IH; [exact Htl|apply chg_range_clean; exact Hc|exact C1].
Qed.

(* ---------------------------------------------------------------- a whole request *)
Theorem changes_cover s req cs ts :
  user_request req ->
  covers (changes s req cs ts) s (fst (spec_write s req cs ts)).
Proof.
  intros [_ [_ Hr]]. unfold changes, spec_write.
  pose proof (puts_points (w_puts req) s s cs ts chg_empty (fun k _ => eq_refl)) as P1.
  pose proof (puts_changes_clean (w_puts req) s cs ts chg_empty chg_empty_clean) as K1.
  assert (E1 : forall ps s cs ts c, fst (puts_changes s ps cs ts c) = fst (spec_puts s ps cs ts)).
  { induction ps as [|p tl IH]; intros s1 cs1 ts1 c1; [reflexivity|]. cbn [puts_changes spec_puts].
    destruct (spec_put s1 p (hd SeqNoKey cs1) ts1) as [s2 r]. rewrite IH.
    destruct (spec_puts s2 tl (List.tl cs1) ts1). reflexivity. }
  assert (E2 : forall ds s c, fst (dels_changes s ds c) = fst (spec_deletes s ds)).
  { induction ds as [|d tl IH]; intros s1 c1; [reflexivity|]. cbn [dels_changes spec_deletes].
    destruct (spec_delete s1 d) as [s2 x]. rewrite IH. destruct (spec_deletes s2 tl). reflexivity. }
  assert (E3 : forall rs s c, fst (ranges_changes s rs c) = fst (spec_ranges s rs)).
  { induction rs as [|r tl IH]; intros s1 c1; [reflexivity|]. cbn [ranges_changes spec_ranges].
    destruct (spec_delete_range s1 r) as [s2 x] eqn:E. rewrite IH. destruct (spec_ranges s2 tl). reflexivity. }
  specialize (E1 (w_puts req) s cs ts chg_empty).
  destruct (puts_changes s (w_puts req) cs ts chg_empty) as [t1 c1]. cbn [fst snd] in *.
  destruct (spec_puts s (w_puts req) cs ts) as [s1 prs]. cbn [fst] in E1. subst t1.
  pose proof (dels_points (w_dels req) s s1 c1 P1) as P2.
  pose proof (dels_changes_clean (w_dels req) s1 c1 K1) as K2.
  specialize (E2 (w_dels req) s1 c1).
  destruct (dels_changes s1 (w_dels req) c1) as [t2 c2]. cbn [fst snd] in *.
  destruct (spec_deletes s1 (w_dels req)) as [s2 drs]. cbn [fst] in E2. subst t2.
  pose proof (ranges_covers (w_ranges req) s s2 c2 Hr K2 (points_covers _ _ _ K2 P2)) as C3.
  specialize (E3 (w_ranges req) s2 c2). rewrite E3 in C3.
  destruct (spec_ranges s2 (w_ranges req)) as [s3 rrs]. cbn [fst] in *. exact C3.
Qed.

(* ---------------------------------------------------------------- the code as found (O-17b) *)
Definition notif_deleted_range_o17b (m : option nmap) (start_ end_ : key) : option nmap :=
  match m with
  | None => None
  | Some nm => if is_internal start_ then Some nm else Some (nm_set nm start_ (NRangeDeleted end_))
  end.

(* put k (created, version v), then the EMPTY range [k, k): as found the creation disappears from the map;
   as repaired it stays *)
Theorem range_overwrite_refuted :
  exists (k : key) (v : Z),
    key_geb k k = true /\
    (forall nm, notif_deleted_range_o17b (notif_modified (Some []) k v 0%Z) k k = Some nm -> nm_find nm k <> Some (NCreated v)) /\
    (forall nm, notif_deleted_range (notif_modified (Some []) k v 0%Z) k k = Some nm -> nm_find nm k = Some (NCreated v)).
Proof.
  exists [97%N], 5%Z. split; [reflexivity|]. split.
  - intros nm H. vm_compute in H. inversion H; subst. vm_compute. discriminate.
  - intros nm H. vm_compute in H. inversion H; subst. reflexivity.
Qed.
