(* Db/C15_Inv.v — the index-mirror invariant and its preservation by every step of the write path
   (helper of Proofs_C15.v).

   [declares m pk si]   the key pk holds a StorageEntry whose SecondaryIndexes contain si
   [inv m]              well-formed map; only user keys and session keys hold records that declare indexes;
                        every declared (pk, si) is in the alphabet of C15_Layout; the keys under "__oxia/idx/"
                        are EXACTLY the index keys of the declared pairs.

   Requests covered ([c15_request]): puts and deletes on user keys or session keys (what the session manager
   logs), index names / secondary keys in the alphabet, delete-ranges that contain no index key (every user
   range, and the shadow range of session.delete()), sequence puts whose generated key is fresh
   ([puts_fresh]: C16's subject; where it fails the mirror fails too, see Proofs_C15.v). *)
From Coq Require Import List NArith ZArith Bool Lia.
From Oxia.KeyOrder Require Import Model Proofs.
From Oxia.Db Require Import Types Bytes Escape Keys Kv SortedMap SortedMapProofs KeyFacts Sessions Indexes
     Sequences Notifications Write Read Spec KvProofs NumProofs Proofs_C12 IndexReads C15_Layout.
Import ListNotations.

Definition dec_key := list_eq_dec N.eq_dec.

Definition declares (m : kvmap) (pk : key) (si : sindex) : Prop :=
  exists e, kv_get m pk = Some (VRecord e) /\ In si (e_indexes e).
Definition present (m : kvmap) (k : key) : Prop := kv_get m k <> None.
Definition is_idx (k : key) : bool := has_prefix idx_prefix k.
Definition op_key (k : key) : Prop := is_internal k = false \/ exists z, k = session_key z.

Record inv (m : kvmap) : Prop := mkInv {
  inv_wf : wf_kv m;
  inv_int : forall k e, kv_get m k = Some (VRecord e) -> e_indexes e <> [] -> op_key k;
  inv_ok : forall pk si, declares m pk si -> si_ok si /\ pk_ok pk;
  inv_sound : forall k, present m k -> is_idx k = true -> exists pk si, k = index_key pk si /\ declares m pk si;
  inv_complete : forall pk si, declares m pk si -> present m (index_key pk si)
}.

(* ------------------------------------------------------------------ key classes *)
Lemma is_idx_internal k : is_idx k = true -> is_internal k = true.
Proof. unfold is_idx, is_internal. intro H. apply has_prefix_iff in H. destruct H as [l ->]. reflexivity. Qed.

Lemma is_idx_tag k : is_idx k = true -> key_tag k = 105%N.
Proof. intro H. apply has_prefix_iff in H. destruct H as [l ->]. reflexivity. Qed.

Lemma op_key_not_idx k : op_key k -> is_idx k = false.
Proof.
  intros [H|[z ->]]; destruct (is_idx _) eqn:E; try reflexivity.
  - apply is_idx_internal in E. congruence.
  - apply is_idx_tag in E. rewrite tag_session in E. discriminate.
Qed.

Lemma shadow_not_op z y : ~ op_key (shadow_key z y).
Proof.
  intros [H|[z' H]].
  - rewrite shadow_key_internal in H. discriminate.
  - symmetry in H. eapply session_key_not_shadow; eassumption.
Qed.

Lemma index_not_op pk si : ~ op_key (index_key pk si).
Proof.
  intros [H|[z' H]].
  - rewrite index_key_internal in H. discriminate.
  - symmetry in H. eapply session_key_not_index; eassumption.
Qed.

Lemma index_is_idx pk si : is_idx (index_key pk si) = true.
Proof. apply is_idx_index_key. Qed.

Lemma shadow_not_idx z y : is_idx (shadow_key z y) = false.
Proof. destruct (is_idx _) eqn:E; [|reflexivity]. apply is_idx_tag in E. rewrite tag_shadow in E. discriminate. Qed.

Lemma idx_not_shadow x : is_idx x = true -> forall z y, x <> shadow_key z y.
Proof. intros H z y E. subst. rewrite shadow_not_idx in H. discriminate. Qed.

Lemma op_not_shadow x : op_key x -> forall z y, x <> shadow_key z y.
Proof. intros H z y E. subst. exact (shadow_not_op _ _ H). Qed.

(* ------------------------------------------------------------------ pointwise reads of the batch helpers *)
Lemma delete_keys_app b l1 l2 : delete_keys (delete_keys b l1) l2 = delete_keys b (l1 ++ l2).
Proof. unfold delete_keys. rewrite fold_left_app. reflexivity. Qed.

Lemma delete_indexes_keys b k e : delete_indexes b k e = delete_keys b (map (index_key k) (e_indexes e)).
Proof.
  unfold delete_indexes, delete_keys. generalize (e_indexes e). intro l. revert b.
  induction l as [|si l IH]; simpl; intro b; [reflexivity|apply IH].
Qed.

Lemma kv_get_delete_keys b l x :
  sorted b -> kv_get (delete_keys b l) x = if in_dec dec_key x l then None else kv_get b x.
Proof.
  intro Hs. destruct (in_dec dec_key x l).
  - apply kv_get_delete_keys_in; assumption.
  - apply kv_get_delete_keys_notin; assumption.
Qed.

Lemma write_indexes_sorted k sis : forall b, sorted b -> sorted (write_indexes b k sis).
Proof.
  unfold write_indexes. induction sis as [|si tl IH]; simpl; intros b Hs; [exact Hs|].
  apply IH. apply kv_put_sorted. exact Hs.
Qed.

Lemma kv_get_write_indexes_notin k sis x : forall b,
  ~ In x (map (index_key k) sis) -> kv_get (write_indexes b k sis) x = kv_get b x.
Proof.
  unfold write_indexes. induction sis as [|si tl IH]; simpl; intros b Hn; [reflexivity|].
  rewrite IH by (intro H; apply Hn; right; exact H).
  apply kv_get_put_other. intro E. apply Hn. left. symmetry. exact E.
Qed.

Lemma kv_get_write_indexes_keep k sis x : forall b,
  kv_get b x = Some empty_value -> kv_get (write_indexes b k sis) x = Some empty_value.
Proof.
  unfold write_indexes. induction sis as [|si tl IH]; simpl; intros b H; [exact H|].
  apply IH. destruct (dec_key x (index_key k si)) as [->|Hne].
  - apply kv_get_put_same.
  - rewrite kv_get_put_other by exact Hne. exact H.
Qed.

Lemma kv_get_write_indexes_in k sis x : forall b,
  In x (map (index_key k) sis) -> kv_get (write_indexes b k sis) x = Some empty_value.
Proof.
  induction sis as [|si tl IH]; simpl; intros b Hin; [contradiction|].
  destruct Hin as [E|Hin].
  - subst x. change (write_indexes b k (si :: tl)) with (write_indexes (kv_put b (index_key k si) empty_value) k tl).
    apply kv_get_write_indexes_keep. apply kv_get_put_same.
  - change (write_indexes b k (si :: tl)) with (write_indexes (kv_put b (index_key k si) empty_value) k tl).
    apply IH. exact Hin.
Qed.

Lemma kv_get_write_indexes k sis x b :
  kv_get (write_indexes b k sis) x = if in_dec dec_key x (map (index_key k) sis) then Some empty_value else kv_get b x.
Proof.
  destruct (in_dec dec_key x (map (index_key k) sis)).
  - apply kv_get_write_indexes_in. assumption.
  - apply kv_get_write_indexes_notin. assumption.
Qed.

(* ------------------------------------------------------------------ the session half only touches shadow keys *)
Definition sh_rel (b b1 : kvmap) : Prop :=
  sorted b1 /\
  (forall x, (forall z y, x <> shadow_key z y) -> kv_get b1 x = kv_get b x) /\
  (forall x v, kv_get b1 x = Some v -> kv_get b x = Some v \/ v = empty_value).

Lemma sh_rel_refl b : sorted b -> sh_rel b b.
Proof. intro H. split; [exact H|]. split; [reflexivity|]. intros x v G. left. exact G. Qed.

Lemma sh_rel_trans a b c : sh_rel a b -> sh_rel b c -> sh_rel a c.
Proof.
  intros [_ [H1 H2]] [Hs [H3 H4]]. split; [exact Hs|]. split.
  - intros x Hx. rewrite H3, H1 by exact Hx. reflexivity.
  - intros x v G. destruct (H4 _ _ G) as [G'|E]; [apply H2; exact G'|right; exact E].
Qed.

Lemma sh_rel_del b z y : sorted b -> sh_rel b (kv_del b (shadow_key z y)).
Proof.
  intro Hs. split; [apply kv_del_sorted; exact Hs|]. split.
  - intros x Hx. apply kv_get_del_other; [exact Hs|apply Hx].
  - intros x v G. left. eapply kv_get_del_some; eassumption.
Qed.

Lemma sh_rel_put b z y : sorted b -> sh_rel b (kv_put b (shadow_key z y) empty_value).
Proof.
  intro Hs. split; [apply kv_put_sorted; exact Hs|]. split.
  - intros x Hx. apply kv_get_put_other. apply Hx.
  - intros x v G. destruct (dec_key x (shadow_key z y)) as [->|Hne].
    + rewrite kv_get_put_same in G. inversion G. right. reflexivity.
    + rewrite kv_get_put_other in G by exact Hne. left. exact G.
Qed.

Lemma delete_shadow_sh b k ex : sorted b -> sh_rel b (delete_shadow b k ex).
Proof.
  intro Hs. unfold delete_shadow. destruct ex as [e|]; [|apply sh_rel_refl; exact Hs].
  destruct (e_session e) as [s|]; [apply sh_rel_del; exact Hs|apply sh_rel_refl; exact Hs].
Qed.

Lemma sh_rel_sorted b b1 : sh_rel b b1 -> sorted b1.
Proof. intros [H _]. exact H. Qed.

Lemma wrapper_on_put_shape b p ex :
  sorted b ->
  exists st b1, sh_rel b b1 /\ (st <> OK -> b1 = b) /\
    wrapper_on_put b p ex =
      Ok (st, match st with
              | OK => write_indexes (match ex with Some e => delete_indexes b1 (p_key p) e | None => b1 end)
                                    (p_key p) (p_indexes p)
              | _ => b1
              end).
Proof.
  intro Hs. unfold wrapper_on_put, session_on_put, index_on_put.
  destruct (p_session p) as [s|].
  - destruct (kv_get b (session_key s)) as [v|].
    + exists OK. eexists. split; [|split; [congruence|reflexivity]].
      eapply sh_rel_trans; [apply delete_shadow_sh; exact Hs|].
      apply sh_rel_put. eapply sh_rel_sorted, delete_shadow_sh. exact Hs.
    + exists SESSION_DOES_NOT_EXIST, b. split; [apply sh_rel_refl; exact Hs|]. split; reflexivity.
  - exists OK. eexists. split; [apply delete_shadow_sh; exact Hs|]. split; [congruence|reflexivity].
Qed.

(* ------------------------------------------------------------------ transfer lemmas for the invariant *)
Lemma declares_op m pk si : inv m -> declares m pk si -> op_key pk.
Proof.
  intros Hi [e [G Hin]]. eapply inv_int; [exact Hi|exact G|]. intro E. rewrite E in Hin. contradiction.
Qed.

(* the records and the index keys are the same: the invariant carries over *)
Lemma inv_transfer m m' :
  inv m -> wf_kv m' ->
  (forall k e, kv_get m' k = Some (VRecord e) -> e_indexes e <> [] -> op_key k) ->
  (forall pk si, declares m' pk si <-> declares m pk si) ->
  (forall x, is_idx x = true -> (present m' x <-> present m x)) ->
  inv m'.
Proof.
  intros Hi Hw Hint Hd Hp. constructor.
  - exact Hw.
  - exact Hint.
  - intros pk si D. apply (inv_ok m Hi). apply Hd. exact D.
  - intros k Pk Ik. apply Hp in Pk; [|exact Ik]. destruct (inv_sound m Hi k Pk Ik) as [pk [si [E D]]].
    exists pk, si. split; [exact E|apply Hd; exact D].
  - intros pk si D. apply Hp; [apply index_is_idx|]. apply (inv_complete m Hi). apply Hd. exact D.
Qed.

(* one record key k changes its declared set from [old] to [new]; its old index keys go, the new ones come *)
Lemma inv_update m m' k old new :
  inv m -> wf_kv m' -> op_key k ->
  (forall si, declares m k si <-> In si old) ->
  (forall si, In si new -> si_ok si /\ pk_ok k) ->
  (forall x e, kv_get m' x = Some (VRecord e) -> e_indexes e <> [] -> op_key x) ->
  (forall x, op_key x -> x <> k -> kv_get m' x = kv_get m x) ->
  (forall si, declares m' k si <-> In si new) ->
  (forall x, is_idx x = true ->
     (present m' x <-> (In x (map (index_key k) new) \/ (present m x /\ ~ In x (map (index_key k) old))))) ->
  inv m'.
Proof.
  intros Hi Hw Hk Hold Hnew Hint Hsame Hrec Hidx.
  assert (Hd : forall pk si, pk <> k -> (declares m' pk si <-> declares m pk si)).
  { intros pk si Hne. split; intros [e [G Hin]].
    - assert (Ho : op_key pk) by (eapply Hint; [exact G|intro E; rewrite E in Hin; contradiction]).
      rewrite Hsame in G by assumption. exists e. split; assumption.
    - assert (Ho : op_key pk) by (eapply (inv_int m Hi); [exact G|intro E; rewrite E in Hin; contradiction]).
      exists e. rewrite Hsame by assumption. split; assumption. }
  constructor.
  - exact Hw.
  - exact Hint.
  - intros pk si D. destruct (dec_key pk k) as [->|Hne].
    + apply Hnew. apply Hrec. exact D.
    + apply (inv_ok m Hi). apply Hd; assumption.
  - intros x Px Ix. apply Hidx in Px; [|exact Ix]. destruct Px as [Hin|[Pm Hnin]].
    + apply in_map_iff in Hin. destruct Hin as [si [E Hin]]. exists k, si. split; [symmetry; exact E|].
      apply Hrec. exact Hin.
    + destruct (inv_sound m Hi x Pm Ix) as [pk [si [E D]]]. exists pk, si. split; [exact E|].
      destruct (dec_key pk k) as [->|Hne].
      * exfalso. apply Hnin. subst x. apply in_map. apply Hold. exact D.
      * apply Hd; assumption.
  - intros pk si D. destruct (dec_key pk k) as [->|Hne].
    + apply Hidx; [apply index_is_idx|]. left. apply in_map. apply Hrec. exact D.
    + apply Hd in D; [|exact Hne]. apply Hidx; [apply index_is_idx|]. right.
      split; [apply (inv_complete m Hi); exact D|].
      intro Hin. apply in_map_iff in Hin. destruct Hin as [si' [E Hin]].
      apply Hold in Hin.
      destruct (inv_ok m Hi _ _ D) as [Hs _]. destruct (inv_ok m Hi _ _ Hin) as [Hs' _].
      destruct (index_key_inj_ok _ _ _ _ Hs' Hs E) as [_ Epk]. congruence.
Qed.

(* a system key (not an index key, not a user/session key) receives a value that declares nothing *)
Lemma inv_put_sys m x v :
  inv m -> ~ op_key x -> is_idx x = false ->
  (match v with VRecord e => e_indexes e = [] | VNotif _ => is_internal x = true end) ->
  inv (kv_put m x v).
Proof.
  intros Hi Hx Hix Hv.
  assert (Hd : forall pk si, declares (kv_put m x v) pk si <-> declares m pk si).
  { intros pk si. destruct (dec_key pk x) as [->|Hne].
    - split; intros [e [G Hin]].
      + rewrite kv_get_put_same in G. inversion G; subst v. rewrite Hv in Hin. contradiction.
      + exfalso. apply Hx. eapply declares_op; [exact Hi|]. exists e. split; eassumption.
    - unfold declares. rewrite kv_get_put_other by exact Hne. reflexivity. }
  apply (inv_transfer m); try assumption.
  - destruct v as [e|nb].
    + apply wf_put_record. apply (inv_wf m Hi).
    + apply wf_put_internal; [apply (inv_wf m Hi)|exact Hv].
  - intros k e G Hne. destruct (dec_key k x) as [->|Hk].
    + rewrite kv_get_put_same in G. inversion G; subst v. congruence.
    + rewrite kv_get_put_other in G by exact Hk. eapply (inv_int m Hi); eassumption.
  - intros y Iy. unfold present. rewrite kv_get_put_other; [reflexivity|]. intro E. subst. congruence.
Qed.

(* ------------------------------------------------------------------ put *)
Lemma check_expected_ck b k exp ex :
  check_expected b k exp = CkOk ex ->
  match ex with Some e => kv_get b k = Some (VRecord e) | None => kv_get b k = None end.
Proof.
  unfold check_expected, get_entry. destruct (kv_get b k) as [[e|nb]|]; simpl.
  - destruct exp as [v|]; [destruct (e_version e =? v)%Z|]; intro H; inversion H; reflexivity.
  - discriminate.
  - destruct exp as [v|]; [destruct (v =? -1)%Z|]; intro H; inversion H; reflexivity.
Qed.

Lemma stored_entry_indexes ex p ver ts : e_indexes (stored_entry ex p ver ts) = p_indexes p.
Proof. destruct ex; reflexivity. Qed.

Lemma finish_put_inv w p ex rk ts :
  inv (w_kv w) -> op_key (p_key p) -> (p_indexes p <> [] -> pk_ok (p_key p)) -> Forall si_ok (p_indexes p) ->
  match ex with Some e => kv_get (w_kv w) (p_key p) = Some (VRecord e) | None => kv_get (w_kv w) (p_key p) = None end ->
  inv (w_kv (fst (finish_put wrapper_callbacks w p ex rk ts))).
Proof.
  intros Hi Hk Hpk Hsi Hex.
  pose proof (finish_put_wf w p ex rk ts (inv_wf _ Hi)) as Hwf.
  set (b := w_kv w) in *. set (k := p_key p) in *.
  assert (Hsb : sorted b) by apply (inv_wf _ Hi).
  unfold finish_put in *. simpl cb_on_put in *.
  destruct (wrapper_on_put_shape b p ex Hsb) as [st [b1 [R [Hst E]]]].
  fold b in Hwf |- *. rewrite E in *. clear E.
  destruct R as [Hs1 [R1 R2]].
  destruct st; try (simpl in *; rewrite Hst by discriminate; exact Hi).
  simpl in Hwf |- *.
  set (old := match ex with Some e => e_indexes e | None => [] end).
  set (b2 := match ex with Some e => delete_indexes b1 k e | None => b1 end) in *.
  assert (G2 : forall x, kv_get b2 x = if in_dec dec_key x (map (index_key k) old) then None else kv_get b1 x).
  { intro x. unfold b2, old. destruct ex as [e|].
    - rewrite delete_indexes_keys. apply kv_get_delete_keys. exact Hs1.
    - simpl. reflexivity. }
  assert (Hold : forall si, declares b k si <-> In si old).
  { intro si. unfold old, declares. destruct ex as [e|].
    - rewrite Hex. split; [intros [e' [G Hin]]; inversion G; subst; exact Hin|intro Hin; exists e; split; [reflexivity|exact Hin]].
    - rewrite Hex. split; [intros [e' [G _]]; discriminate|intros []]. }
  set (e' := stored_entry ex p (wrap64 (w_ver w + 1)) ts) in *.
  assert (G4 : forall x, kv_get (kv_put (write_indexes b2 k (p_indexes p)) k (VRecord e')) x =
                         if dec_key x k then Some (VRecord e')
                         else if in_dec dec_key x (map (index_key k) (p_indexes p)) then Some empty_value
                         else if in_dec dec_key x (map (index_key k) old) then None else kv_get b1 x).
  { intro x. destruct (dec_key x k) as [->|Hne]; [apply kv_get_put_same|].
    rewrite kv_get_put_other by exact Hne. rewrite kv_get_write_indexes.
    destruct (in_dec dec_key x (map (index_key k) (p_indexes p))); [reflexivity|apply G2]. }
  apply (inv_update b _ k old (p_indexes p)); try assumption.
  - intros si Hin. split; [|apply Hpk; intro E; rewrite E in Hin; contradiction]. rewrite Forall_forall in Hsi. apply Hsi. exact Hin.
  - intros x e G Hne. rewrite G4 in G. destruct (dec_key x k) as [->|Hxk]; [exact Hk|].
    destruct (in_dec dec_key x (map (index_key k) (p_indexes p))).
    + inversion G; subst e. exfalso. apply Hne. reflexivity.
    + destruct (in_dec dec_key x (map (index_key k) old)); [discriminate|].
      destruct (R2 _ _ G) as [G'|E].
      * eapply (inv_int b Hi); eassumption.
      * inversion E; subst e. exfalso. apply Hne. reflexivity.
  - intros x Hx Hxk. rewrite G4. destruct (dec_key x k); [contradiction|].
    destruct (in_dec dec_key x (map (index_key k) (p_indexes p))) as [Hin|_].
    { exfalso. apply in_map_iff in Hin. destruct Hin as [si [E _]]. subst x. exact (index_not_op _ _ Hx). }
    destruct (in_dec dec_key x (map (index_key k) old)) as [Hin|_].
    { exfalso. apply in_map_iff in Hin. destruct Hin as [si [E _]]. subst x. exact (index_not_op _ _ Hx). }
    apply R1. apply op_not_shadow. exact Hx.
  - intro si. unfold declares. rewrite G4. destruct (dec_key k k); [|congruence].
    split.
    + intros [e0 [G Hin]]. inversion G; subst e0. unfold e' in Hin. rewrite stored_entry_indexes in Hin. exact Hin.
    + intro Hin. exists e'. split; [reflexivity|]. unfold e'. rewrite stored_entry_indexes. exact Hin.
  - intros x Ix. unfold present. rewrite G4.
    destruct (dec_key x k) as [->|Hxk].
    { rewrite (op_key_not_idx _ Hk) in Ix. discriminate. }
    destruct (in_dec dec_key x (map (index_key k) (p_indexes p))) as [Hin|Hnin].
    { split; [intros _; left; exact Hin|intros _; discriminate]. }
    destruct (in_dec dec_key x (map (index_key k) old)) as [Hin|Hnin'].
    { split; [intro H; congruence|intros [H|[_ H]]; contradiction]. }
    rewrite R1 by (apply idx_not_shadow; exact Ix).
    split; [intro H; right; split; assumption|intros [H|[H _]]; [contradiction|exact H]].
Qed.

(* the generated sequence key is a non-empty byte string *)
Lemma digits_fuel_bytes fuel base : forall n acc,
  (base <> 0)%N -> (forall d, (d < base)%N -> (48 + d < 256)%N) -> is_bytes acc ->
  is_bytes (digits_fuel fuel base dec_digit n acc).
Proof.
  induction fuel as [|f IH]; simpl; intros n acc Hb Hd Ha; [exact Ha|].
  destruct (n =? 0)%N; [exact Ha|]. apply IH; try assumption.
  constructor; [|exact Ha]. unfold dec_digit. apply Hd. apply N.mod_lt. exact Hb.
Qed.

Lemma pad20_bytes n : is_bytes (pad20 n).
Proof.
  unfold pad20. apply pad_left_forall; [lia|].
  unfold dec_of_N, digits_of. destruct (n =? 0)%N.
  - constructor; [unfold dec_digit; lia|constructor].
  - apply digits_fuel_bytes; [lia|intros d Hd; lia|constructor].
Qed.

Lemma seq_loop_pk_ok deltas : forall idx parts acc k,
  pk_ok acc -> seq_loop idx deltas parts acc = SeqOk k -> pk_ok k.
Proof.
  induction deltas as [|d tl IH]; simpl; intros idx parts acc k Hi H.
  - inversion H; subst. exact Hi.
  - destruct (Nat.eqb idx 0 && (d =? 0)%N); [discriminate|].
    destruct (match nth_error parts idx with Some part => scan20 part | None => Some 0%N end) as [lastv|]; [|discriminate].
    destruct (_ || _); [discriminate|].
    eapply IH; [|exact H]. destruct Hi as [Hne Hb]. split.
    + intro E. apply app_eq_nil in E. destruct E as [_ E]. discriminate.
    + apply Forall_app. split; [exact Hb|]. constructor; [unfold DASH; lia|apply pad20_bytes].
Qed.

Lemma seq_loop_pk_ok1 d tl idx parts acc k :
  is_bytes acc -> seq_loop idx (d :: tl) parts acc = SeqOk k -> pk_ok k.
Proof.
  simpl. intros Hb H.
  destruct (Nat.eqb idx 0 && (d =? 0)%N); [discriminate|].
  destruct (match nth_error parts idx with Some part => scan20 part | None => Some 0%N end) as [lastv|]; [|discriminate].
  destruct (_ || _); [discriminate|].
  eapply seq_loop_pk_ok; [|exact H]. split.
  - intro E. apply app_eq_nil in E. destruct E as [_ E]. discriminate.
  - apply Forall_app. split; [exact Hb|]. constructor; [unfold DASH; lia|apply pad20_bytes].
Qed.

Lemma generate_key_pk_ok b p nk :
  is_bytes (p_key p) -> p_deltas p <> [] -> generate_key b p = SeqOk nk -> pk_ok nk.
Proof.
  intros Hi Hd H. unfold generate_key in H.
  destruct (p_partition p); [|discriminate]. destruct (p_expected p); [discriminate|].
  destruct (current_last_parts b (p_key p) (length (p_deltas p))) as [parts|e]; [|discriminate].
  destruct (seq_loop 0 (p_deltas p) parts (p_key p)) as [k| |e] eqn:L; try discriminate.
  assert (Hk : pk_ok k).
  { destruct (p_deltas p) as [|d tl]; [congruence|]. eapply seq_loop_pk_ok1; eassumption. }
  destruct (current_last_key b (p_key p)) as [|c lk]; [inversion H; subst; exact Hk|].
  destruct (cmp_slash k (c :: lk)); try discriminate. inversion H; subst; exact Hk.
Qed.

(* a put the invariant can absorb: user key or session key; declared indexes in the alphabet; a record that
   declares indexes has a non-empty byte-string key (the generated key of a sequence put always is) *)
Definition put_ok (p : put_req) : Prop :=
  op_key (p_key p) /\ Forall si_ok (p_indexes p) /\
  (p_indexes p <> [] -> is_bytes (p_key p) /\ (p_deltas p = [] -> p_key p <> [])) /\
  (p_deltas p <> [] -> is_internal (p_key p) = false).

(* C16's freshness, as far as C15 needs it: a sequence put never lands on a key that holds something *)
Definition put_fresh (b : kvmap) (p : put_req) : Prop :=
  match p_deltas p with
  | [] => True
  | _ :: _ => match generate_key b p with SeqOk nk => kv_get b nk = None | _ => True end
  end.

Lemma apply_put_inv w p ts :
  inv (w_kv w) -> put_ok p -> put_fresh (w_kv w) p ->
  inv (w_kv (fst (apply_put wrapper_callbacks w p ts))).
Proof.
  intros Hi [Hk [Hsi [Hpk Hseq]]] Hf. unfold apply_put, put_fresh in *.
  destruct (p_deltas p) as [|d0 dtl] eqn:D.
  - destruct (check_expected (w_kv w) (p_key p) (p_expected p)) as [ex| |e] eqn:C; simpl; try exact Hi.
    apply finish_put_inv; try assumption.
    + intro Hne. destruct (Hpk Hne) as [Hb Hn]. split; [apply Hn; reflexivity|exact Hb].
    + eapply check_expected_ck. exact C.
  - destruct (generate_key (w_kv w) p) as [nk| |e] eqn:G; simpl; try exact Hi.
    assert (H1 : inv (w_kv (fst (finish_put wrapper_callbacks w (set_key p nk) None (Some nk) ts)))).
    { apply finish_put_inv; simpl; try assumption.
      - left. eapply generate_key_not_internal; [|exact G]. apply Hseq. discriminate.
      - intro Hne. destruct (Hpk Hne) as [Hb _]. eapply generate_key_pk_ok; [exact Hb| |exact G]. rewrite D. discriminate. }
    destruct (finish_put wrapper_callbacks w (set_key p nk) None (Some nk) ts) as [w1 [r|e]]; simpl in *; [|exact H1].
    destruct (pr_key r); exact H1.
Qed.

(* ------------------------------------------------------------------ delete *)
Lemma apply_delete_inv w d :
  inv (w_kv w) -> op_key (d_key d) -> inv (w_kv (fst (apply_delete wrapper_callbacks w d))).
Proof.
  intros Hi Hk.
  pose proof (apply_delete_wf w d (inv_wf _ Hi)) as Hwf.
  set (b := w_kv w) in *. set (k := d_key d) in *.
  assert (Hsb : sorted b) by apply (inv_wf _ Hi).
  unfold apply_delete in *. fold b k in Hwf |- *.
  destruct (check_expected b k (d_expected d)) as [[e|]| |x] eqn:C; simpl; try exact Hi.
  apply check_expected_ck in C. simpl cb_on_delete in *.
  assert (E : wrapper_on_delete b k = Ok (delete_indexes (delete_shadow b k (Some e)) k e)).
  { unfold wrapper_on_delete, session_on_delete, index_on_delete, get_entry. rewrite C. simpl.
    destruct (delete_shadow_sh b k (Some e) Hsb) as [_ [R1 _]].
    rewrite R1 by (apply op_not_shadow; exact Hk). rewrite C. reflexivity. }
  rewrite E in *. simpl in Hwf |- *.
  destruct (delete_shadow_sh b k (Some e) Hsb) as [Hs1 [R1 R2]].
  set (b1 := delete_shadow b k (Some e)) in *.
  assert (Hs2 : sorted (delete_indexes b1 k e)) by (rewrite delete_indexes_keys; apply delete_keys_sorted; exact Hs1).
  assert (G3 : forall x, kv_get (kv_del (delete_indexes b1 k e) k) x =
                         if dec_key x k then None
                         else if in_dec dec_key x (map (index_key k) (e_indexes e)) then None else kv_get b1 x).
  { intro x. destruct (dec_key x k) as [->|Hne]; [apply kv_get_del_same; exact Hs2|].
    rewrite kv_get_del_other by assumption. rewrite delete_indexes_keys. apply kv_get_delete_keys. exact Hs1. }
  apply (inv_update b _ k (e_indexes e) []); try assumption.
  - intro si. unfold declares. rewrite C. split.
    + intros [e' [G Hin]]. inversion G; subst. exact Hin.
    + intro Hin. exists e. split; [reflexivity|exact Hin].
  - intros si [].
  - intros x e0 G Hne. rewrite G3 in G. destruct (dec_key x k); [discriminate|].
    destruct (in_dec dec_key x (map (index_key k) (e_indexes e))); [discriminate|].
    destruct (R2 _ _ G) as [G'|E0].
    + eapply (inv_int b Hi); eassumption.
    + inversion E0; subst e0. exfalso. apply Hne. reflexivity.
  - intros x Hx Hxk. rewrite G3. destruct (dec_key x k); [contradiction|].
    destruct (in_dec dec_key x (map (index_key k) (e_indexes e))) as [Hin|_].
    { exfalso. apply in_map_iff in Hin. destruct Hin as [si [E0 _]]. subst x. exact (index_not_op _ _ Hx). }
    apply R1. apply op_not_shadow. exact Hx.
  - intro si. unfold declares. rewrite G3. destruct (dec_key k k); [|congruence].
    split; [intros [e1 [G _]]; discriminate|intros []].
  - intros x Ix. unfold present. rewrite G3. simpl.
    destruct (dec_key x k) as [->|Hxk].
    { rewrite (op_key_not_idx _ Hk) in Ix. discriminate. }
    destruct (in_dec dec_key x (map (index_key k) (e_indexes e))) as [Hin|Hnin].
    { split; [intro H; congruence|intros [[]|[_ H]]; contradiction]. }
    rewrite R1 by (apply idx_not_shadow; exact Ix).
    split; [intro H; right; split; assumption|intros [[]|[H _]]; exact H].
Qed.

(* ------------------------------------------------------------------ delete-range *)
Definition sh_keys (k : key) (e : entry) : list key :=
  match e_session e with Some s => [shadow_key s k] | None => [] end.

Definition dl_one (kv : key * value) : list key :=
  match snd kv with
  | VRecord e => sh_keys (fst kv) e ++ map (index_key (fst kv)) (e_indexes e)
  | VNotif _ => []
  end.

Lemma delete_shadow_keys b k e : delete_shadow b k (Some e) = delete_keys b (sh_keys k e).
Proof. unfold delete_shadow, sh_keys. destruct (e_session e); reflexivity. Qed.

Lemma scan_callbacks_keys scanned : forall b b',
  scan_callbacks wrapper_callbacks b scanned = Ok b' -> b' = delete_keys b (flat_map dl_one scanned).
Proof.
  induction scanned as [|[k v] tl IH]; intros b b' H.
  - inversion H. reflexivity.
  - destruct v as [e|nb]; [|discriminate].
    change (scan_callbacks wrapper_callbacks b ((k, VRecord e) :: tl)) with
      (match wrapper_on_delete_with_entry b k e with
       | Err x => Err x
       | Ok b1 => scan_callbacks wrapper_callbacks b1 tl
       end) in H.
    unfold wrapper_on_delete_with_entry, session_on_delete_with_entry, index_on_delete_with_entry in H.
    apply IH in H. subst b'. rewrite delete_shadow_keys, delete_indexes_keys, !delete_keys_app.
    simpl. unfold dl_one at 1. simpl. rewrite ?app_assoc. reflexivity.
Qed.

Definition range_noidx (r : range_req) : Prop :=
  forall pk si, key_in_range (Some (r_start r)) (Some (r_end r)) (index_key pk si) = false.

Lemma in_kv_range m lo hi k v :
  sorted m -> (In (k, v) (kv_range m lo hi) <-> kv_get m k = Some v /\ key_in_range lo hi k = true).
Proof.
  intro Hs. unfold kv_range, sm_range. rewrite filter_In. simpl. split.
  - intros [Hin Hr]. split; [apply kv_in_get; assumption|exact Hr].
  - intros [G Hr]. split; [apply kv_get_in; assumption|exact Hr].
Qed.

Lemma apply_delete_range_inv t w r :
  inv (w_kv w) -> range_noidx r -> inv (w_kv (fst (apply_delete_range wrapper_callbacks t w r))).
Proof.
  intros Hi Hr.
  pose proof (apply_delete_range_wf t w r (inv_wf _ Hi)) as Hwf.
  rewrite apply_delete_range_unfold in *.
  set (b := w_kv w) in *. set (lo := Some (r_start r)) in *. set (hi := Some (r_end r)) in *.
  assert (Hsb : sorted b) by apply (inv_wf _ Hi).
  destruct (scan_callbacks wrapper_callbacks b (kv_range b lo hi)) as [b1|x] eqn:E; simpl in *; [|exact Hi].
  apply scan_callbacks_keys in E.
  set (DL := flat_map dl_one (kv_range b lo hi)) in *.
  assert (Hs1 : sorted b1) by (subst b1; apply delete_keys_sorted; exact Hsb).
  assert (Hsh : cb_shrink b b1).
  { intros x v G. subst b1. rewrite kv_get_delete_keys in G by exact Hsb.
    destruct (in_dec dec_key x DL); [discriminate|exact G]. }
  assert (G : forall x, kv_get (after_range_delete t b b1 lo hi) x =
                        if key_in_range lo hi x then None else if in_dec dec_key x DL then None else kv_get b x).
  { intro x. rewrite (range_delete_get t b b1 lo hi x Hsb Hs1 Hsh).
    destruct (key_in_range lo hi x); [reflexivity|]. subst b1. apply kv_get_delete_keys. exact Hsb. }
  (* what the deleted-keys list contains *)
  assert (HDL : forall x, In x DL ->
             exists k e, kv_get b k = Some (VRecord e) /\ key_in_range lo hi k = true /\
                         (In x (sh_keys k e) \/ exists si, In si (e_indexes e) /\ x = index_key k si)).
  { intros x Hin. unfold DL in Hin. apply in_flat_map in Hin. destruct Hin as [[k v] [Hkv Hx]].
    apply in_kv_range in Hkv; [|exact Hsb]. destruct Hkv as [Gk Rk].
    unfold dl_one in Hx. simpl in Hx. destruct v as [e|nb]; [|contradiction].
    exists k, e. split; [exact Gk|]. split; [exact Rk|].
    apply in_app_or in Hx. destruct Hx as [Hx|Hx]; [left; exact Hx|].
    right. apply in_map_iff in Hx. destruct Hx as [si [Ex Hsi]]. exists si. split; [exact Hsi|symmetry; exact Ex]. }
  assert (Hopn : forall x, op_key x -> ~ In x DL).
  { intros x Hx Hin. destruct (HDL x Hin) as [k [e [_ [_ [Hs|[si [_ Es]]]]]]].
    - unfold sh_keys in Hs. destruct (e_session e); [|contradiction]. destruct Hs as [Es|[]]. subst x.
      exact (shadow_not_op _ _ Hx).
    - subst x. exact (index_not_op _ _ Hx). }
  assert (Hd : forall pk si, declares (after_range_delete t b b1 lo hi) pk si <->
                             declares b pk si /\ key_in_range lo hi pk = false).
  { intros pk si. unfold declares at 1. rewrite G. split.
    - intros [e [Gp Hin]]. destruct (key_in_range lo hi pk); [discriminate|].
      destruct (in_dec dec_key pk DL); [discriminate|]. split; [exists e; split; assumption|reflexivity].
    - intros [[e [Gp Hin]] Rp]. rewrite Rp. exists e. split; [|exact Hin].
      destruct (in_dec dec_key pk DL) as [HinD|_]; [|exact Gp].
      exfalso. apply (Hopn pk); [|exact HinD]. eapply declares_op; [exact Hi|]. exists e. split; eassumption. }
  constructor.
  - exact Hwf.
  - intros k e Gk Hne. rewrite G in Gk. destruct (key_in_range lo hi k); [discriminate|].
    destruct (in_dec dec_key k DL); [discriminate|]. eapply (inv_int b Hi); eassumption.
  - intros pk si D. apply Hd in D. apply (inv_ok b Hi). apply D.
  - intros x Px Ix. unfold present in Px. rewrite G in Px.
    destruct (key_in_range lo hi x) eqn:Rx; [congruence|].
    destruct (in_dec dec_key x DL) as [|Hnin]; [congruence|].
    destruct (inv_sound b Hi x Px Ix) as [pk [si [Ex D]]]. exists pk, si. split; [exact Ex|].
    apply Hd. split; [exact D|]. destruct (key_in_range lo hi pk) eqn:Rp; [|reflexivity].
    exfalso. apply Hnin. destruct D as [e [Gp Hin]].
    unfold DL. apply in_flat_map. exists (pk, VRecord e). split.
    + apply in_kv_range; [exact Hsb|]. split; assumption.
    + unfold dl_one. simpl. apply in_or_app. right. subst x. apply in_map. exact Hin.
  - intros pk si D. apply Hd in D. destruct D as [D Rp]. unfold present. rewrite G.
    pose proof (Hr pk si) as Hri. change (key_in_range lo hi (index_key pk si) = false) in Hri. rewrite Hri.
    destruct (in_dec dec_key (index_key pk si) DL) as [Hin|_]; [|apply (inv_complete b Hi); exact D].
    exfalso. destruct (HDL _ Hin) as [k [e [Gk [Rk [Hs|[si' [Hsi' Es]]]]]]].
    + unfold sh_keys in Hs. destruct (e_session e); [|contradiction]. destruct Hs as [Es|[]].
      pose proof (index_is_idx pk si) as I1. rewrite <- Es, shadow_not_idx in I1. discriminate.
    + assert (D' : declares b k si') by (exists e; split; assumption).
      destruct (inv_ok b Hi _ _ D) as [Hs _]. destruct (inv_ok b Hi _ _ D') as [Hs' _].
      destruct (index_key_inj_ok _ _ _ _ Hs Hs' Es) as [_ Epk]. subst k. congruence.
Qed.

(* ------------------------------------------------------------------ lists, request, ProcessWrite *)
Fixpoint puts_fresh (w : wstate) (ps : list put_req) (ts : N) : Prop :=
  match ps with
  | [] => True
  | p :: tl =>
      put_fresh (w_kv w) p /\
      match apply_put wrapper_callbacks w p ts with
      | (w1, Ok _) => puts_fresh w1 tl ts
      | (_, Err _) => True
      end
  end.

Lemma apply_puts_inv ps : forall w ts,
  inv (w_kv w) -> Forall put_ok ps -> puts_fresh w ps ts ->
  inv (w_kv (fst (apply_puts wrapper_callbacks w ps ts))).
Proof.
  induction ps as [|p tl IH]; simpl; intros w ts Hi Hok Hf; [exact Hi|].
  inversion Hok as [|? ? Hp Htl]; subst. destruct Hf as [Hf1 Hf2].
  pose proof (apply_put_inv w p ts Hi Hp Hf1) as H1.
  destruct (apply_put wrapper_callbacks w p ts) as [w1 [r|e]]; simpl in *; [|exact H1].
  specialize (IH w1 ts H1 Htl Hf2). destruct (apply_puts wrapper_callbacks w1 tl ts) as [w2 [rs|e]]; exact IH.
Qed.

Lemma apply_deletes_inv ds : forall w,
  inv (w_kv w) -> Forall (fun d => op_key (d_key d)) ds ->
  inv (w_kv (fst (apply_deletes wrapper_callbacks w ds))).
Proof.
  induction ds as [|d tl IH]; simpl; intros w Hi Hok; [exact Hi|].
  inversion Hok as [|? ? Hd Htl]; subst.
  pose proof (apply_delete_inv w d Hi Hd) as H1.
  destruct (apply_delete wrapper_callbacks w d) as [w1 [r|e]]; simpl in *; [|exact H1].
  specialize (IH w1 H1 Htl). destruct (apply_deletes wrapper_callbacks w1 tl) as [w2 [rs|e]]; exact IH.
Qed.

Lemma apply_ranges_inv t rs : forall w,
  inv (w_kv w) -> Forall range_noidx rs -> inv (w_kv (fst (apply_ranges wrapper_callbacks t w rs))).
Proof.
  induction rs as [|r tl IH]; simpl; intros w Hi Hok; [exact Hi|].
  inversion Hok as [|? ? Hr Htl]; subst.
  pose proof (apply_delete_range_inv t w r Hi Hr) as H1.
  destruct (apply_delete_range wrapper_callbacks t w r) as [w1 [x|e]]; simpl in *; [|exact H1].
  specialize (IH w1 H1 Htl). destruct (apply_ranges wrapper_callbacks t w1 tl) as [w2 [xs|e]]; exact IH.
Qed.

Definition c15_request (req : write_req) : Prop :=
  Forall put_ok (w_puts req) /\ Forall (fun d => op_key (d_key d)) (w_dels req) /\ Forall range_noidx (w_ranges req).

Definition req_fresh (st : state) (req : write_req) (ts : N) : Prop :=
  puts_fresh (start_write st) (w_puts req) ts.

Lemma sys_key_facts :
  (~ op_key commit_offset_key /\ is_idx commit_offset_key = false) /\
  (~ op_key last_version_key /\ is_idx last_version_key = false) /\
  (~ op_key term_key /\ is_idx term_key = false) /\
  (~ op_key term_options_key /\ is_idx term_options_key = false) /\
  (forall o, ~ op_key (notification_key o) /\ is_idx (notification_key o) = false).
Proof.
  assert (T : forall k t, is_internal k = true -> key_tag k = t -> t <> 115%N -> ~ op_key k).
  { intros k t Hi Ht Hn [H|[z H]]; [congruence|]. subst k. rewrite tag_session in Ht. congruence. }
  split; [split; [eapply T; [reflexivity|reflexivity|discriminate]|reflexivity]|].
  split; [split; [eapply T; [reflexivity|reflexivity|discriminate]|reflexivity]|].
  split; [split; [eapply T; [reflexivity|reflexivity|discriminate]|reflexivity]|].
  split; [split; [eapply T; [reflexivity|reflexivity|discriminate]|reflexivity]|].
  intro o. split; [eapply T; [apply notification_key_internal|apply tag_notification|discriminate]|reflexivity].
Qed.

Lemma inv_internal_put b k v ts :
  inv b -> ~ op_key k -> is_idx k = false -> inv (internal_put b k v ts).
Proof. intros Hi H1 H2. unfold internal_put. apply inv_put_sys; try assumption. reflexivity. Qed.

Lemma commit_write_inv cfg st w offset ts : inv (w_kv w) -> inv (st_kv (commit_write cfg st w offset ts)).
Proof.
  intro Hi. destruct sys_key_facts as [[A1 A2] [[B1 B2] [_ [_ Hn]]]].
  assert (H2 : inv (internal_put (internal_put (w_kv w) commit_offset_key (ascii_of_Z offset) ts)
                                 last_version_key (ascii_of_Z (w_ver w)) ts)).
  { apply inv_internal_put; [apply inv_internal_put|..]; assumption. }
  unfold commit_write. destruct (w_nm w); simpl; [|exact H2].
  destruct (Hn offset) as [N1 N2]. apply inv_put_sys; try assumption. apply notification_key_internal.
Qed.

Theorem process_write_inv cfg st req offset ts :
  inv (st_kv st) -> c15_request req -> req_fresh st req ts ->
  inv (st_kv (fst (process_write wrapper_callbacks cfg st req offset ts))).
Proof.
  intros Hi [Hp [Hd Hr]] Hf. rewrite process_write_unfold. unfold apply_write_request.
  pose proof (apply_puts_inv (w_puts req) (start_write st) ts Hi Hp Hf) as H1.
  destruct (apply_puts wrapper_callbacks (start_write st) (w_puts req) ts) as [w1 [prs|e]]; simpl in *; [|exact Hi].
  pose proof (apply_deletes_inv (w_dels req) w1 H1 Hd) as H2.
  destruct (apply_deletes wrapper_callbacks w1 (w_dels req)) as [w2 [drs|e]]; simpl in *; [|exact Hi].
  pose proof (apply_ranges_inv (cfg_threshold cfg) (w_ranges req) w2 H2 Hr) as H3.
  destruct (apply_ranges wrapper_callbacks (cfg_threshold cfg) w2 (w_ranges req)) as [w3 [rrs|e]]; simpl in *; [|exact Hi].
  apply commit_write_inv. exact H3.
Qed.

(* ------------------------------------------------------------------ every reachable state *)
Definition op_ok (st : state) (op : db_op) : Prop :=
  match op with
  | OpWrite req offset ts => c15_request req /\ req_fresh st req ts
  | _ => True
  end.

Fixpoint run_ok (cfg : config) (st : state) (ops : list db_op) : Prop :=
  match ops with
  | [] => True
  | op :: tl => op_ok st op /\ run_ok cfg (db_step cfg st op) tl
  end.

Lemma inv_nil : inv [].
Proof.
  constructor.
  - apply wf_nil.
  - intros k e H. discriminate.
  - intros pk si [e [H _]]. discriminate.
  - intros k H. exfalso. apply H. reflexivity.
  - intros pk si [e [H _]]. discriminate.
Qed.

Lemma db_step_inv cfg st op : inv (st_kv st) -> op_ok st op -> inv (st_kv (db_step cfg st op)).
Proof.
  intros Hi Hok. destruct op; simpl in *.
  - destruct Hok as [H1 H2]. apply process_write_inv; assumption.
  - destruct sys_key_facts as [_ [_ [[C1 C2] [[D1 D2] _]]]].
    apply inv_internal_put; [apply inv_internal_put|..]; assumption.
  - exact Hi.
  - unfold reopen, persist. destruct (read_ascii_long (st_kv st) commit_offset_key); [|exact Hi].
    destruct (read_last_version (st_kv st)); exact Hi.
Qed.

Theorem reachable_inv cfg ops : run_ok cfg init_state ops -> inv (st_kv (run cfg ops)).
Proof.
  unfold run. assert (H : inv (st_kv init_state)) by apply inv_nil.
  revert H. generalize init_state. induction ops as [|op tl IH]; simpl; intros st H Hok; [exact H|].
  destruct Hok as [H1 H2]. apply IH; [apply db_step_inv; assumption|exact H2].
Qed.
