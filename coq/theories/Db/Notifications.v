(* Db/Notifications.v — server/kv/notifications_tracker.go: the per-request notification batch
   (a Go map keyed by user key: the last operation on a key wins) and the read side. *)
(* C17: [notif_deleted_range] follows the repaired DeletedRange (empty ranges, same-start ranges). *)
From Coq Require Import List NArith ZArith Bool.
From Oxia.Db Require Import Types Bytes Keys Kv.
Import ListNotations.

Definition nmap := list (key * notif).

(* Go map assignment m[k] = n *)
Fixpoint nm_set (m : nmap) (k : key) (n : notif) : nmap :=
  match m with
  | [] => [(k, n)]
  | (k', n') :: tl => if bytes_eqb k k' then (k, n) :: tl else (k', n') :: nm_set tl k n
  end.

(* [None] = notifications disabled for this request (the Go pointer is nil) *)
Definition notif_modified (m : option nmap) (k : key) (ver modcount : Z) : option nmap :=
  match m with
  | None => None
  | Some nm =>
      if is_internal k then Some nm
      else Some (nm_set nm k (if (0 <? modcount)%Z then NModified ver else NCreated ver))
  end.

Definition notif_deleted (m : option nmap) (k : key) : option nmap :=
  match m with
  | None => None
  | Some nm => if is_internal k then Some nm else Some (nm_set nm k NDeleted)
  end.

(* Go map lookup m[k] *)
Fixpoint nm_find (m : nmap) (k : key) : option notif :=
  match m with
  | [] => None
  | (k', n) :: tl => if bytes_eqb k k' then Some n else nm_find tl k
  end.

(* CompareWithSlash(a, b) >= 0 *)
Definition key_geb (a b : key) : bool := match KeyOrder.Model.cmp_slash a b with Lt => false | _ => true end.

(* DeletedRange, as repaired (fixes/O-17b): an empty range (start >= end) records nothing - it used to replace
   whatever the batch said about the start key -, and of two ranges with the same start key the one that
   covers both is kept (the map can hold one). *)
Definition notif_deleted_range (m : option nmap) (start_ end_ : key) : option nmap :=
  match m with
  | None => None
  | Some nm =>
      if is_internal start_ then Some nm
      else if key_geb start_ end_ then Some nm
      else match nm_find nm start_ with
           | Some (NRangeDeleted prev) =>
               if key_geb prev end_ then Some nm else Some (nm_set nm start_ (NRangeDeleted end_))
           | _ => Some (nm_set nm start_ (NRangeDeleted end_))
           end
  end.

(* ReadNextNotifications after the wait: every stored batch with key in
   [notificationKey(start), notificationKey(MaxInt64)).  The loop counter of the Go code is never
   incremented, so maxNotificationBatchSize does not limit anything: faithfully, no limit here. *)
Definition read_notification_batches (m : kvmap) (start_offset : Z) : result (list nbatch) :=
  fold_right (fun kv acc =>
                match acc with
                | Err e => Err e
                | Ok l => match snd kv with
                          | VNotif b => Ok (b :: l)
                          | VRecord _ => Err EDeserialize
                          end
                end)
             (Ok [])
             (kv_range m (kv_bound (notification_key start_offset)) (kv_bound last_notification_key)).
