(* Db/Kv.v — the key-value store of one shard: SortedMap instantiated with the real key order
   (KeyOrder.cmp_slash = compare.CompareWithSlash) and the value type of Db/Types.v, plus Deserialize. *)
From Coq Require Import List NArith ZArith Bool.
From Oxia.KeyOrder Require Import Model.
From Oxia.Db Require Import Types SortedMap.
Import ListNotations.

Definition kvmap := smap value.

Definition kv_get (m : kvmap) (k : key) : option value := sm_get cmp_slash m k.
Definition kv_put (m : kvmap) (k : key) (v : value) : kvmap := sm_put cmp_slash m k v.
Definition kv_del (m : kvmap) (k : key) : kvmap := sm_del cmp_slash m k.
Definition kv_range (m : kvmap) (lo hi : option key) : kvmap := sm_range cmp_slash m lo hi.
Definition kv_del_range (m : kvmap) (lo hi : option key) : kvmap := sm_del_range cmp_slash m lo hi.
Definition kv_lower (m : kvmap) (k : key) := sm_lower cmp_slash m k.
Definition kv_ceiling (m : kvmap) (k : key) := sm_ceiling cmp_slash m k.
Definition kv_higher (m : kvmap) (k : key) := sm_higher cmp_slash m k.
Definition kv_floor (m : kvmap) (k : key) := sm_floor cmp_slash m k.
Definition key_in_range (lo hi : option key) (k : key) : bool := in_range cmp_slash lo hi k.

(* kv.Deserialize(value, se): see the SIMPLIFICATION note in Types.v *)
Definition deserialize (v : value) : result entry :=
  match v with
  | VRecord e => Ok e
  | VNotif _ => Err EDeserialize
  end.

(* kv.GetStorageEntry(batch, key): None = ErrKeyNotFound *)
Definition get_entry (m : kvmap) (k : key) : result (option entry) :=
  match kv_get m k with
  | None => Ok None
  | Some v => match deserialize v with Ok e => Ok (Some e) | Err x => Err x end
  end.

(* An iterator bound as db.go passes it to kv.KV.RangeScan / KeyRangeScan: "" means no bound. *)
Definition kv_bound (k : key) : option key := match k with [] => None | _ => Some k end.

(* kv.UpdateOperationCallback.  A callback works on the indexed write batch, i.e. on the working copy of
   the map (read-your-writes).  OnDeleteRange exists in the Go interface but db.go never calls it
   (applyDeleteRange calls OnDeleteWithEntry once per scanned key), so it is not part of the record. *)
Record callbacks := mkCallbacks {
  cb_on_put : kvmap -> put_req -> option entry -> result (status * kvmap);
  cb_on_delete : kvmap -> key -> result kvmap;
  cb_on_delete_with_entry : kvmap -> key -> entry -> result kvmap
}.

(* kv.NoOpCallback *)
Definition noop_callbacks : callbacks :=
  mkCallbacks (fun b _ _ => Ok (OK, b)) (fun b _ => Ok b) (fun b _ _ => Ok b).
