(* Db/C17_Hex.v — facts about the notification key layout "__oxia/notifications/%016x" (helper of Proofs_C17):
   the 16 hex digits are the big-endian digits of the offset, hence
     - Sscanf "%016x" reads the offset back                         (parse_notification_key_nk)
     - the key order on notification keys is the order on offsets   (cmp_nk)
     - every key between two notification keys carries the prefix   (nk_sandwich)           *)
From Coq Require Import List NArith ZArith Bool Lia PeanoNat.
From Coq Require Import ZifyN ZifyNat ZifyBool.
From Oxia.KeyOrder Require Import Model Proofs.
From Oxia.Db Require Import Types Bytes Keys Kv KeyFacts NumProofs NotifStream.
Import ListNotations.
Open Scope N_scope.

(* ---------------------------------------------------------------- fixed-width big-endian hex digits *)
Fixpoint hexfix (k : nat) (v : N) : bytes :=
  match k with
  | O => []
  | S k' => hexfix k' (v / 16) ++ [hex_digit (v mod 16)]
  end.

Lemma hexfix_length k : forall v, length (hexfix k v) = k.
Proof. induction k as [|k IH]; intro v; simpl; [reflexivity|]. rewrite app_length, IH. simpl. lia. Qed.

Lemma hexfix_zero k : hexfix k 0 = repeat 48 k.
Proof.
  induction k as [|k IH]; [reflexivity|]. cbn [hexfix]. rewrite N.div_0_l, N.mod_0_l by lia.
  rewrite IH. change (hex_digit 0) with 48. change [48] with (repeat 48 1). rewrite <- repeat_app.
  f_equal. lia.
Qed.

Lemma digits_fuel_length_le fuel : forall n k,
  n < 2 ^ N.of_nat fuel -> n < 16 ^ N.of_nat k -> (length (digits_fuel fuel 16 hex_digit n []) <= k)%nat.
Proof.
  induction fuel as [|f IH]; intros n k Hf Hk; [simpl; lia|].
  cbn [digits_fuel]. destruct (n =? 0) eqn:E; [simpl; lia|]. apply N.eqb_neq in E.
  rewrite digits_fuel_acc, app_length. cbn [length].
  destruct k as [|k']; [simpl in Hk; lia|].
  assert (H1 : n / 16 < 2 ^ N.of_nat f).
  { rewrite Nat2N.inj_succ, N.pow_succ_r' in Hf. apply N.div_lt_upper_bound; lia. }
  assert (H2 : n / 16 < 16 ^ N.of_nat k').
  { rewrite Nat2N.inj_succ, N.pow_succ_r' in Hk. apply N.div_lt_upper_bound; lia. }
  specialize (IH _ _ H1 H2). lia.
Qed.

Lemma pad_digits_fuel fuel : forall n k,
  n < 2 ^ N.of_nat fuel -> n < 16 ^ N.of_nat k ->
  pad_left k 48 (digits_fuel fuel 16 hex_digit n []) = hexfix k n.
Proof.
  induction fuel as [|f IH]; intros n k Hf Hk.
  - simpl in Hf. assert (n = 0) by lia. subst. unfold pad_left. simpl. rewrite app_nil_r, Nat.sub_0_r.
    symmetry. apply hexfix_zero.
  - cbn [digits_fuel]. destruct (n =? 0) eqn:E.
    + apply N.eqb_eq in E. subst. unfold pad_left. simpl. rewrite app_nil_r, Nat.sub_0_r.
      symmetry. apply hexfix_zero.
    + apply N.eqb_neq in E. rewrite digits_fuel_acc.
      destruct k as [|k']; [simpl in Hk; lia|].
      assert (H1 : n / 16 < 2 ^ N.of_nat f).
      { rewrite Nat2N.inj_succ, N.pow_succ_r' in Hf. apply N.div_lt_upper_bound; lia. }
      assert (H2 : n / 16 < 16 ^ N.of_nat k').
      { rewrite Nat2N.inj_succ, N.pow_succ_r' in Hk. apply N.div_lt_upper_bound; lia. }
      pose proof (digits_fuel_length_le f _ _ H1 H2) as Hl.
      cbn [hexfix]. rewrite <- (IH _ _ H1 H2). unfold pad_left. rewrite app_length. cbn [length].
      rewrite app_assoc. f_equal. f_equal. f_equal. lia.
Qed.

Lemma hex_of_N_fix n : n < 16 ^ 16 -> pad_left 16 48 (hex_of_N n) = hexfix 16 n.
Proof.
  intro H. unfold hex_of_N, digits_of. destruct (n =? 0) eqn:E.
  - apply N.eqb_eq in E. subst. reflexivity.
  - apply pad_digits_fuel; [|exact H].
    rewrite Nat2N.inj_succ, N.pow_succ_r'. pose proof (N_lt_pow_size_nat n). lia.
Qed.

Lemma hex16_fix z : (0 <= z < 18446744073709551616)%Z -> hex16 z = hexfix 16 (Z.to_N z).
Proof.
  intro H. unfold hex16. replace (z <? 0)%Z with false by (symmetry; apply Z.ltb_ge; lia).
  apply hex_of_N_fix. change (16 ^ 16) with 18446744073709551616. lia.
Qed.

(* ---------------------------------------------------------------- digits *)
Lemma hex_digit_is_hex d : d < 16 -> is_hex_digit (hex_digit d) = true.
Proof. intro H. unfold is_hex_digit, hex_digit. destruct (d <? 10) eqn:E; lia. Qed.

Lemma hex_val_digit d : d < 16 -> hex_val (hex_digit d) = d.
Proof.
  intro H. unfold hex_val, hex_digit. destruct (d <? 10) eqn:E;
    repeat match goal with |- context [if ?c then _ else _] => destruct c eqn:? end; lia.
Qed.

Lemma hexfix_all_hex k : forall v, forallb is_hex_digit (hexfix k v) = true.
Proof.
  induction k as [|k IH]; intro v; [reflexivity|]. cbn [hexfix]. rewrite forallb_app, IH. simpl.
  rewrite hex_digit_is_hex; [reflexivity|]. apply N.mod_lt. lia.
Qed.

Lemma take_hex_all l w : forallb is_hex_digit l = true -> (length l <= w)%nat -> take_hex w l = l.
Proof.
  revert w. induction l as [|b tl IH]; intros w H Hl; [destruct w; reflexivity|].
  simpl in H. apply andb_true_iff in H. destruct H as [H1 H2].
  destruct w as [|w]; [simpl in Hl; lia|]. simpl. rewrite H1, IH; [reflexivity|exact H2|simpl in Hl; lia].
Qed.

Lemma parse_hex_app l1 : forall l2 acc, parse_hex (l1 ++ l2) acc = parse_hex l2 (parse_hex l1 acc).
Proof. induction l1 as [|b tl IH]; intros l2 acc; [reflexivity|]. simpl. apply IH. Qed.

Lemma parse_hexfix k : forall v acc, v < 16 ^ N.of_nat k -> parse_hex (hexfix k v) acc = acc * 16 ^ N.of_nat k + v.
Proof.
  induction k as [|k IH]; intros v acc H.
  - simpl in *. lia.
  - cbn [hexfix]. rewrite parse_hex_app. cbn [parse_hex].
    rewrite Nat2N.inj_succ, N.pow_succ_r' in *.
    rewrite IH by (apply N.div_lt_upper_bound; lia).
    rewrite hex_val_digit by (apply N.mod_lt; lia).
    pose proof (N.div_mod v 16 ltac:(lia)). lia.
Qed.

Lemma hexfix_not_nil k v : (0 < k)%nat -> hexfix k v <> [].
Proof. intros H E. apply (f_equal (@length N)) in E. rewrite hexfix_length in E. simpl in E. lia. Qed.

(* the first byte of a digit string is neither a sign nor white space *)
Lemma hex_digit_plain d : d < 16 ->
  let b := hex_digit d in
  (b =? 10) = false /\ is_space_byte b = false /\ (b =? 45) = false /\ (b =? 43) = false.
Proof. intro H. unfold hex_digit, is_space_byte. destruct (d <? 10) eqn:E; repeat split; lia. Qed.

Lemma hexfix_head k v : exists d tl, d < 16 /\ hexfix (S k) v = hex_digit d :: tl.
Proof.
  revert v. induction k as [|k IH]; intro v.
  - exists (v mod 16), []. split; [apply N.mod_lt; lia|reflexivity].
  - destruct (IH (v / 16)) as [d [tl [Hd E]]]. exists d, (tl ++ [hex_digit (v mod 16)]).
    split; [exact Hd|]. change (hexfix (S (S k)) v) with (hexfix (S k) (v / 16) ++ [hex_digit (v mod 16)]).
    rewrite E. reflexivity.
Qed.

Theorem scan_hex16_hex16 z : (0 <= z < 9223372036854775808)%Z -> scan_hex16 (hex16 z) = Some z.
Proof.
  intro H. rewrite hex16_fix by lia.
  destruct (hexfix_head 15 (Z.to_N z)) as [d [tl [Hd E]]].
  pose proof (hex_digit_plain d Hd) as [P1 [P2 [P3 P4]]]. cbn zeta in *.
  unfold scan_hex16. rewrite E. cbn [skip_space]. rewrite P1, P2, P3, P4. rewrite <- E.
  rewrite take_hex_all by (apply hexfix_all_hex || rewrite hexfix_length; lia).
  pose proof (hexfix_not_nil 16 (Z.to_N z) ltac:(lia)) as Hn.
  destruct (hexfix 16 (Z.to_N z)) as [|b0 tl0] eqn:E0; [contradiction|]. rewrite <- E0.
  rewrite parse_hexfix by (change (16 ^ N.of_nat 16) with 18446744073709551616; lia).
  replace (0 * 16 ^ N.of_nat 16 + Z.to_N z <? 9223372036854775808) with true by lia.
  f_equal. lia.
Qed.

Lemma drop_prefix_app p l : drop_prefix p (p ++ l) = l.
Proof. unfold drop_prefix. induction p as [|x p IH]; [reflexivity|exact IH]. Qed.

Theorem parse_notification_key_nk z :
  (0 <= z < 9223372036854775808)%Z -> parse_notification_key (notification_key z) = Ok z.
Proof.
  intro H. unfold parse_notification_key, notification_key.
  rewrite has_prefix_app, drop_prefix_app, scan_hex16_hex16 by exact H. reflexivity.
Qed.

(* ---------------------------------------------------------------- order *)
Lemma bytes_cmp_app_same_len l1 : forall l2 x y, length l1 = length l2 ->
  bytes_cmp (l1 ++ [x]) (l2 ++ [y]) = match bytes_cmp l1 l2 with Eq => N.compare x y | c => c end.
Proof.
  induction l1 as [|a l1 IH]; intros [|b l2] x y Hl; simpl in Hl; try discriminate.
  - simpl. destruct (x ?= y); reflexivity.
  - simpl. destruct (a ?= b); try reflexivity. apply IH. lia.
Qed.

Lemma hex_digit_compare x y : x < 16 -> y < 16 -> (hex_digit x ?= hex_digit y) = (x ?= y).
Proof.
  intros Hx Hy. unfold hex_digit.
  destruct (N.compare_spec x y) as [C|C|C].
  - subst. apply N.compare_refl.
  - apply N.compare_lt_iff. destruct (x <? 10) eqn:Ex, (y <? 10) eqn:Ey; lia.
  - apply N.compare_gt_iff. destruct (x <? 10) eqn:Ex, (y <? 10) eqn:Ey; lia.
Qed.

Lemma compare_div_mod a b :
  (a ?= b) = match (a / 16 ?= b / 16) with Eq => (a mod 16 ?= b mod 16) | c => c end.
Proof.
  pose proof (N.div_mod a 16 ltac:(lia)) as Ha. pose proof (N.div_mod b 16 ltac:(lia)) as Hb.
  pose proof (N.mod_lt a 16 ltac:(lia)) as Ma. pose proof (N.mod_lt b 16 ltac:(lia)) as Mb.
  destruct (N.compare_spec (a / 16) (b / 16)) as [C|C|C].
  - destruct (N.compare_spec (a mod 16) (b mod 16)) as [D|D|D].
    + apply N.compare_eq_iff. lia.
    + apply N.compare_lt_iff. lia.
    + apply N.compare_gt_iff. lia.
  - apply N.compare_lt_iff. lia.
  - apply N.compare_gt_iff. lia.
Qed.

Lemma hexfix_compare k : forall a b, bytes_cmp (hexfix k a) (hexfix k b) =
  (a mod 16 ^ N.of_nat k ?= b mod 16 ^ N.of_nat k).
Proof.
  induction k as [|k IH]; intros a b.
  - simpl. rewrite !N.mod_1_r. reflexivity.
  - cbn [hexfix]. rewrite bytes_cmp_app_same_len by (rewrite !hexfix_length; reflexivity).
    rewrite IH. rewrite hex_digit_compare by (apply N.mod_lt; lia).
    rewrite Nat2N.inj_succ, N.pow_succ_r'.
    set (P := 16 ^ N.of_nat k). assert (HP : P <> 0) by (unfold P; apply N.pow_nonzero; lia).
    rewrite (compare_div_mod (a mod (16 * P)) (b mod (16 * P))).
    assert (D : forall x, x mod (16 * P) / 16 = (x / 16) mod P).
    { intro x. rewrite N.mod_mul_r by lia.
      rewrite (N.mul_comm 16 ((x / 16) mod P)), N.div_add by lia.
      rewrite N.div_small by (apply N.mod_lt; lia). lia. }
    assert (M : forall x, (x mod (16 * P)) mod 16 = x mod 16).
    { intro x. rewrite N.mod_mul_r by lia.
      rewrite (N.mul_comm 16 ((x / 16) mod P)), N.mod_add by lia. apply N.mod_mod. lia. }
    rewrite !D, !M. reflexivity.
Qed.

Lemma hex16_compare a b : (0 <= a < 18446744073709551616)%Z -> (0 <= b < 18446744073709551616)%Z ->
  bytes_cmp (hex16 a) (hex16 b) = (a ?= b)%Z.
Proof.
  intros Ha Hb. rewrite !hex16_fix by assumption. rewrite hexfix_compare.
  change (16 ^ N.of_nat 16) with 18446744073709551616.
  rewrite !N.mod_small by lia. rewrite <- Z2N.inj_compare by lia. reflexivity.
Qed.

(* a negative offset prints with a leading '-' (45), which sorts below every digit *)
Lemma hex16_neg_lt a b : (a < 0)%Z -> (0 <= b < 18446744073709551616)%Z -> bytes_cmp (hex16 a) (hex16 b) = Lt.
Proof.
  intros Ha Hb. rewrite (hex16_fix b Hb). destruct (hexfix_head 15 (Z.to_N b)) as [d [tl [Hd E]]]. rewrite E.
  unfold hex16. replace (a <? 0)%Z with true by (symmetry; apply Z.ltb_lt; exact Ha).
  cbn [bytes_cmp].
  assert (C : (45 ?= hex_digit d) = Lt) by (apply N.compare_lt_iff; unfold hex_digit; destruct (d <? 10); lia).
  rewrite C. reflexivity.
Qed.

(* ---------------------------------------------------------------- the key order on notification keys *)
Lemma no_slash_split l : Forall (fun c => c <> 47) l -> split_slash l = None.
Proof.
  induction l as [|x l IH]; intro H; [reflexivity|]. inversion H; subst. simpl.
  unfold SLASH. replace (x =? 47) with false by (symmetry; apply N.eqb_neq; assumption).
  rewrite IH by assumption. reflexivity.
Qed.

Lemma cmp_slash_notif_prefix h1 h2 :
  split_slash h1 = None -> split_slash h2 = None ->
  cmp_slash (notifications_prefix ++ h1) (notifications_prefix ++ h2) = bytes_cmp h1 h2.
Proof.
  intros H1 H2. rewrite cmp_slash_spec. unfold spec_cmp.
  assert (E : forall h, split_slash h = None ->
             enc (notifications_prefix ++ h) =
             [(true, [95; 95; 111; 120; 105; 97]); (true, [110; 111; 116; 105; 102; 105; 99; 97; 116; 105; 111; 110; 115]); (false, h)]).
  { intros h Hh. pose proof (enc_no_slash h Hh) as Eh. unfold notifications_prefix. simpl. rewrite Eh. reflexivity. }
  rewrite (E _ H1), (E _ H2). unfold lex_cmp. simpl. unfold seg_cmp. cbn [fst snd].
  destruct (bytes_cmp h1 h2); reflexivity.
Qed.

Theorem cmp_nk a b : (0 <= a < 18446744073709551616)%Z -> (0 <= b < 18446744073709551616)%Z ->
  cmp_slash (notification_key a) (notification_key b) = (a ?= b)%Z.
Proof.
  intros Ha Hb. unfold notification_key.
  rewrite cmp_slash_notif_prefix by (apply no_slash_split, hex16_no_slash). apply hex16_compare; assumption.
Qed.

Theorem cmp_nk_neg a b : (a < 0)%Z -> (0 <= b < 18446744073709551616)%Z ->
  cmp_slash (notification_key a) (notification_key b) = Lt.
Proof.
  intros Ha Hb. unfold notification_key.
  rewrite cmp_slash_notif_prefix by (apply no_slash_split, hex16_no_slash). apply hex16_neg_lt; assumption.
Qed.

Lemma nk_inj a b : (0 <= a < 18446744073709551616)%Z -> (0 <= b < 18446744073709551616)%Z ->
  notification_key a = notification_key b -> a = b.
Proof.
  intros Ha Hb E. apply cmp_slash_eq in E. rewrite cmp_nk in E by assumption. apply Z.compare_eq. exact E.
Qed.

(* ---------------------------------------------------------------- sandwich *)
Lemma split_slash_join k : forall s r, split_slash k = Some (s, r) -> k = s ++ 47 :: r.
Proof.
  induction k as [|x k IH]; intros s r H; [discriminate|]. simpl in H.
  destruct (x =? SLASH) eqn:E.
  - inversion H; subst. apply N.eqb_eq in E. unfold SLASH in E. subst. reflexivity.
  - destruct (split_slash k) as [[s' r']|]; [|discriminate]. inversion H; subst.
    simpl. f_equal. apply IH. reflexivity.
Qed.

(* keys between two keys with the same first segment have that first segment *)
Lemma first_segment_sandwich s ra rb k :
  Forall (fun c => c <> 47) s ->
  cmp_slash (s ++ 47 :: ra) k <> Gt -> cmp_slash k (s ++ 47 :: rb) = Lt ->
  exists r, k = s ++ 47 :: r /\ cmp_slash ra r <> Gt /\ cmp_slash r rb = Lt.
Proof.
  intros Hs H1 H2.
  assert (Es : forall r, split_slash (s ++ 47 :: r) = Some (s, r)).
  { intro r. clear -Hs. induction s as [|x s IH]; [reflexivity|]. inversion Hs; subst. simpl.
    unfold SLASH. replace (x =? 47) with false by (symmetry; apply N.eqb_neq; assumption).
    rewrite IH by assumption. reflexivity. }
  rewrite cmp_slash_spec in H1, H2. unfold spec_cmp in H1, H2.
  rewrite (enc_slash _ _ _ (Es ra)) in H1. rewrite (enc_slash _ _ _ (Es rb)) in H2.
  destruct (split_slash k) as [[sk rk]|] eqn:Ek.
  - rewrite (enc_slash _ _ _ Ek) in H1, H2. unfold lex_cmp in H1, H2. cbn [lex] in H1, H2.
    unfold seg_cmp in H1 at 1. unfold seg_cmp in H2 at 1. cbn [fst snd] in H1, H2.
    rewrite (bytes_cmp_anti s sk) in H2.
    destruct (bytes_cmp s sk) eqn:C; cbn [CompOpp] in H2.
    + apply bytes_cmp_eq in C. subst sk. exists rk. split; [apply split_slash_join; exact Ek|].
      rewrite !cmp_slash_spec. unfold spec_cmp, lex_cmp. split; assumption.
    + discriminate.
    + exfalso. apply H1. reflexivity.
  - rewrite (enc_no_slash _ Ek) in H1. exfalso. apply H1. reflexivity.
Qed.

Definition oxia_seg : bytes := [95; 95; 111; 120; 105; 97].
Definition notif_seg : bytes := [110; 111; 116; 105; 102; 105; 99; 97; 116; 105; 111; 110; 115].

Lemma notif_prefix_segments h : notifications_prefix ++ h = oxia_seg ++ 47 :: notif_seg ++ 47 :: h.
Proof. reflexivity. Qed.

Theorem nk_sandwich a b k :
  cmp_slash (notification_key a) k <> Gt -> cmp_slash k (notification_key b) = Lt ->
  has_prefix notifications_prefix k = true.
Proof.
  unfold notification_key. rewrite !notif_prefix_segments. intros H1 H2.
  assert (S1 : Forall (fun c => c <> 47) oxia_seg) by (unfold oxia_seg; repeat constructor; lia).
  assert (S2 : Forall (fun c => c <> 47) notif_seg) by (unfold notif_seg; repeat constructor; lia).
  destruct (first_segment_sandwich oxia_seg _ _ _ S1 H1 H2) as [r [-> [H3 H4]]].
  destruct (first_segment_sandwich notif_seg _ _ _ S2 H3 H4) as [r2 [-> _]].
  reflexivity.
Qed.
