(* Db/C15_Validated.v — every request that can reach the log is admissible for the C15 theorems.

   A write request enters the log of a shard in two ways only (server/leader_controller.go):
     - from a client, through Write / WriteBlock, after [validate_request] (Db/Validate.v =
       server/write_validation.go) accepted it;  since the repair O-45 the validation refuses index
       declarations the key layout cannot represent (empty index name, '/' in the name, empty secondary key,
       a byte <= 0x01 in the secondary key, indexes on a record with an empty key);
     - from the session manager, through the unexported writeBlock: the put of a session key
       (createSession) and the closing request of session.delete() (deletes of the session's records, of the
       session key, and the shadow range).
   Both are [c15_request]s; with C15_Fresh.run_adm_ok every history of such requests is a [run_ok] history.
   "Keys are byte strings" ([is_bytes], every element < 256) is a typing fact of Go strings that the model's
   byte type (N) does not carry; it is needed only where a record that declares indexes is read back through
   url.PathUnescape. *)
From Coq Require Import List NArith ZArith Bool Lia.
From Oxia.KeyOrder Require Import Model Proofs.
From Oxia.Db Require Import Types Bytes Keys Kv KeyFacts Sessions Indexes Write Read KvProofs Proofs_C12 Validate
     C15_Layout C15_Inv C15_Fresh Proofs_C15.
Import ListNotations.
Open Scope N_scope.

Lemma existsb_none_of_47 l : existsb (N.eqb 47) l = false -> none_of 47 l.
Proof.
  induction l as [|x l IH]; simpl; intro H; [constructor|].
  apply orb_false_iff in H. destruct H as [H1 H2]. constructor; [|apply IH; exact H2].
  intro E. subst x. discriminate H1.
Qed.

Lemma forallb_above1 l : forallb (fun c => 1 <? c) l = true -> above1 l.
Proof.
  induction l as [|x l IH]; simpl; intro H; [constructor|].
  apply andb_true_iff in H. destruct H as [H1 H2]. constructor; [apply N.ltb_lt; exact H1|apply IH; exact H2].
Qed.

(* the validation accepts exactly the declarations of the alphabet of the theorems *)
Theorem validate_sindex_iff si : validate_sindex si = true <-> si_ok si.
Proof.
  unfold validate_sindex, si_ok, name_ok, skey_ok. split.
  - intro H. apply andb_true_iff in H. destruct H as [H Hs]. apply andb_true_iff in H. destruct H as [H Hs0].
    apply andb_true_iff in H. destruct H as [Hn0 Hn]. apply negb_true_iff in Hn0, Hn, Hs0.
    split; split.
    + destruct (si_name si); [discriminate|discriminate].
    + apply existsb_none_of_47. exact Hn.
    + destruct (si_key si); [discriminate|discriminate].
    + apply forallb_above1. exact Hs.
  - intros [[Hn0 Hn] [Hs0 Hs]]. rewrite !andb_true_iff. repeat split.
    + destruct (si_name si); [congruence|reflexivity].
    + apply negb_true_iff. apply existsb_none_of. exact Hn.
    + destruct (si_key si); [congruence|reflexivity].
    + apply forallb_forall. intros x Hx. apply N.ltb_lt. unfold above1 in Hs. rewrite Forall_forall in Hs. apply Hs. exact Hx.
Qed.

Lemma validate_put_ok p :
  validate_put p = true -> (p_indexes p <> [] -> is_bytes (p_key p)) -> put_ok p.
Proof.
  unfold validate_put. intros V Hb. apply andb_true_iff in V. destruct V as [Vi V]. apply negb_true_iff in Vi.
  assert (Vx : validate_put_indexes p = true).
  { destruct (p_deltas p); [exact V|]. apply andb_true_iff in V. destruct V as [V _].
    apply andb_true_iff in V. apply V. }
  unfold validate_put_indexes in Vx. apply andb_true_iff in Vx. destruct Vx as [Vs Ve].
  split; [left; exact Vi|]. split; [|split].
  - apply Forall_forall. intros si Hin. apply validate_sindex_iff. rewrite forallb_forall in Vs. apply Vs. exact Hin.
  - intro Hne. split; [apply Hb; exact Hne|]. intros Hd E. rewrite Hd, E in Ve.
    destruct (p_indexes p); [congruence|discriminate].
  - intros _. exact Vi.
Qed.

Theorem validated_request_admissible req :
  validate_request req = true ->
  Forall (fun p => p_indexes p <> [] -> is_bytes (p_key p)) (w_puts req) -> c15_request req.
Proof.
  unfold validate_request. intros H Hb.
  apply andb_true_iff in H. destruct H as [H Hr]. apply andb_true_iff in H. destruct H as [Hp Hd].
  rewrite forallb_forall in Hp, Hd, Hr. rewrite Forall_forall in Hb. split; [|split]; apply Forall_forall; intros x Hx.
  - apply validate_put_ok; [apply Hp; exact Hx|apply Hb; exact Hx].
  - specialize (Hd x Hx). unfold validate_delete in Hd. apply negb_true_iff in Hd. left. exact Hd.
  - specialize (Hr x Hx). unfold validate_range in Hr. apply andb_true_iff in Hr. destruct Hr as [_ Hr].
    apply range_user_noidx. destruct x as [s e]. apply range_safe_is_user. exact Hr.
Qed.

(* ---- the session manager's own requests *)
Definition session_create (z : Z) (metadata : bytes) : write_req :=
  mkWrite [mkPut (session_key z) metadata None None None None [] []] [] [].

Definition session_close (z : Z) (records : list key) : write_req :=
  mkWrite [] (map (fun k => mkDel k None) records ++ [mkDel (session_key z) None])
          [mkRange (session_key z ++ [47]) (session_key z ++ [47; 47])].

Lemma session_key_op z : op_key (session_key z).
Proof. right. exists z. reflexivity. Qed.

Theorem session_create_admissible z md : c15_request (session_create z md).
Proof.
  split; [|split; constructor]. constructor; [|constructor].
  split; [apply session_key_op|]. split; [constructor|]. split; intro H; exfalso; apply H; reflexivity.
Qed.

Theorem session_close_admissible z ks :
  Forall (fun k => is_internal k = false) ks -> c15_request (session_close z ks).
Proof.
  intro Hk. split; [constructor|split].
  - simpl. apply Forall_app. split.
    + apply Forall_forall. intros d Hd. apply in_map_iff in Hd. destruct Hd as [k [<- Hin]]. simpl.
      left. rewrite Forall_forall in Hk. apply Hk. exact Hin.
    + constructor; [apply session_key_op|constructor].
  - constructor; [apply shadow_range_noidx|constructor].
Qed.

(* ---- the log *)
Definition logged_request (req : write_req) : Prop :=
  (validate_request req = true /\ Forall (fun p => p_indexes p <> [] -> is_bytes (p_key p)) (w_puts req)) \/
  (exists z md, req = session_create z md) \/
  (exists z ks, Forall (fun k => is_internal k = false) ks /\ req = session_close z ks).

Definition logged_op (op : db_op) : Prop :=
  match op with OpWrite req _ _ => logged_request req | _ => True end.

Theorem logged_histories_admissible cfg ops : Forall logged_op ops -> run_ok cfg init_state ops.
Proof.
  intro H. apply run_adm_ok. eapply Forall_impl; [|exact H]. intros op Hop. destruct op; simpl in *; try exact I.
  destruct Hop as [[V Hb]|[[z [md ->]]|[z [ks [Hk ->]]]]].
  - apply validated_request_admissible; assumption.
  - apply session_create_admissible.
  - apply session_close_admissible. exact Hk.
Qed.

(* the unvalidated declarations of the _refuted lemmas are exactly what the validation now refuses *)
Example refuted_declarations_are_refused :
  validate_sindex (mkSIndex [97; 47; 98] [99]) = false /\       (* name "a/b" *)
  validate_sindex (mkSIndex [] [99]) = false /\                (* empty name *)
  validate_sindex (mkSIndex [97] []) = false /\                (* empty secondary key *)
  validate_sindex (mkSIndex [97] [120; 1; 121]) = false /\     (* "x\x01y" *)
  validate_sindex (mkSIndex [97] [97; 98; 0]) = false /\       (* "ab\x00" *)
  validate_sindex (mkSIndex [37; 37] [37; 115]) = true /\      (* name "%%", secondary key "%s" *)
  validate_sindex (mkSIndex [97] [98; 47; 99]) = true.         (* secondary key "b/c" *)
Proof. repeat split. Qed.
