(* Db/Types.v — data types shared by every file of the DB model (component Db).

   Bytes are [N] (< 256 in every use), byte strings [list N] (convention of AGENT_GUIDE).
   Go types:   int64 -> Z   (wrap-around written out where the code can wrap, see [wrap64])
               uint64 -> N  (timestamps, sequence deltas; [mod 2^64] written out where the code adds)
   Values are structured, not protobuf bytes (DESIGN 5.1):
     [VRecord e]  a serialised proto.StorageEntry.  The zero-length value the callbacks write for shadow
                  and index keys ([]byte{} / emptyValue) is [VRecord empty_entry]: an all-default
                  StorageEntry marshals to zero bytes and zero bytes unmarshal to the all-default entry,
                  so the two are the same byte string in the implementation and the same value here.
     [VNotif b]   a serialised proto.NotificationBatch (only under __oxia/notifications/).
   SIMPLIFICATION (named): unmarshalling a NotificationBatch as a StorageEntry (or vice versa) is
   modelled as the error [EDeserialize]; what protobuf really yields for mistyped bytes is out of scope
   (DESIGN C13 "byte-exact comparison of what a mis-typed Deserialize yields is out of scope"). *)
From Coq Require Import List NArith ZArith Bool.
Import ListNotations.

Definition bytes := list N.
Definition key := list N.

(* proto.SecondaryIndex *)
Record sindex := mkSIndex { si_name : bytes; si_key : bytes }.

(* proto.StorageEntry *)
Record entry := mkEntry {
  e_value : bytes;
  e_version : Z;                 (* version_id            int64   *)
  e_modcount : Z;                (* modifications_count   int64   *)
  e_ctime : N;                   (* creation_timestamp    fixed64 *)
  e_mtime : N;                   (* modification_timestamp        *)
  e_session : option Z;          (* optional int64 session_id     *)
  e_identity : option bytes;     (* optional string client_identity *)
  e_partition : option bytes;    (* optional string partition_key *)
  e_indexes : list sindex        (* repeated SecondaryIndex       *)
}.

Definition empty_entry : entry := mkEntry [] 0%Z 0%Z 0%N 0%N None None None [].

(* proto.Notification: type + optional version id + optional key_range_last *)
Inductive notif :=
| NCreated (version : Z)
| NModified (version : Z)
| NDeleted
| NRangeDeleted (range_last : bytes).

(* proto.NotificationBatch; the Go map is an association list without duplicate keys, in first-insertion
   order (the order is not observable: the harness and the driver sort by key before printing). *)
Record nbatch := mkNBatch {
  nb_shard : Z; nb_offset : Z; nb_ts : N; nb_notifs : list (key * notif)
}.

Inductive value :=
| VRecord (e : entry)
| VNotif (b : nbatch).

Definition empty_value : value := VRecord empty_entry.

(* proto.Status *)
Inductive status := OK | KEY_NOT_FOUND | UNEXPECTED_VERSION_ID | SESSION_DOES_NOT_EXIST.

(* Non-status errors (a Go [error] return).  One constructor per distinguishable cause. *)
Inductive err_kind :=
| EMissingPartitionKey        (* kv.ErrMissingPartitionKey *)
| ESequenceDeltaIsZero        (* kv.ErrSequenceDeltaIsZero *)
| EMissingSequenceDeltas      (* kv.ErrMissingSequenceDeltas *)
| EScan                       (* fmt.Sscanf failed (sequence suffix, ascii counters, term) *)
| EDeserialize                (* Deserialize / UnmarshalVT of a value of the wrong type *)
| ENotificationsDisabled      (* kv.ErrNotificationsDisabled *)
| EBlocked                    (* ReadNextNotifications would wait (start offset above the last committed one) *)
| EBadIndexKey                (* url.PathUnescape failed on an index key (propagated by the index read path) *)
| EPanic.                     (* Go panic (index list iterator on an unparsable key) *)

Inductive result (A : Type) :=
| Ok (a : A)
| Err (e : err_kind).
Arguments Ok {A} a.
Arguments Err {A} e.

(* ---- requests (proto/client.proto) ---- *)
Record put_req := mkPut {
  p_key : key;
  p_value : bytes;
  p_expected : option Z;         (* optional int64 expected_version_id *)
  p_session : option Z;
  p_identity : option bytes;
  p_partition : option bytes;
  p_deltas : list N;             (* repeated uint64 sequence_key_delta *)
  p_indexes : list sindex
}.
Record del_req := mkDel { d_key : key; d_expected : option Z }.
Record range_req := mkRange { r_start : key; r_end : key }.
Record write_req := mkWrite { w_puts : list put_req; w_dels : list del_req; w_ranges : list range_req }.

(* proto.Version *)
Record version := mkVersion {
  v_id : Z; v_modcount : Z; v_ctime : N; v_mtime : N; v_session : option Z; v_identity : option bytes
}.
Definition version_of (e : entry) : version :=
  mkVersion (e_version e) (e_modcount e) (e_ctime e) (e_mtime e) (e_session e) (e_identity e).

(* proto.PutResponse: status, version (only when OK), key (only for sequence puts) *)
Record put_resp := mkPutResp { pr_status : status; pr_version : option version; pr_key : option key }.
Definition put_status (s : status) : put_resp := mkPutResp s None None.

Record write_resp := mkWriteResp {
  wr_puts : list put_resp; wr_dels : list status; wr_ranges : list status
}.

(* kv.ComparisonType / proto.KeyComparisonType *)
Inductive cmp_type := CEqual | CFloor | CCeiling | CLower | CHigher.

(* proto.GetResponse *)
Record get_resp := mkGetResp {
  g_status : status;
  g_key : option key;
  g_value : option bytes;
  g_version : option version;
  g_skey : option bytes          (* secondary_index_key *)
}.
Definition get_not_found : get_resp := mkGetResp KEY_NOT_FOUND None None None None.

(* ---- int64 wrap-around (Go two's complement) ---- *)
Definition TWO63 : Z := 9223372036854775808%Z.
Definition TWO64 : Z := 18446744073709551616%Z.
Definition wrap64 (z : Z) : Z := ((z + TWO63) mod TWO64 - TWO63)%Z.
Definition U64 : N := 18446744073709551616%N.
