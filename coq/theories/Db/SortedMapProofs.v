(* Db/SortedMapProofs.v — lemmas about Db/SortedMap.v for any comparison that is a total order
   (the three hypotheses below; for cmp_slash they are KeyOrder.Proofs.cmp_slash_eq / _antisym / _trans). *)
From Coq Require Import List Bool Sorting.Sorted.
From Oxia.Db Require Import Types SortedMap.
Import ListNotations.

Section SortedMapProofs.
  Variable cmp : key -> key -> comparison.
  Variable V : Type.
  Hypothesis cmp_eq : forall a b, cmp a b = Eq <-> a = b.
  Hypothesis cmp_antisym : forall a b, cmp b a = CompOpp (cmp a b).
  Hypothesis cmp_trans : forall a b c, cmp a b = Lt -> cmp b c = Lt -> cmp a c = Lt.

  Notation smap := (smap V).
  Notation get := (@sm_get cmp V).
  Notation put := (@sm_put cmp V).
  Notation del := (@sm_del cmp V).

  Definition klt (x y : key * V) : Prop := cmp (fst x) (fst y) = Lt.
  Definition ssorted (m : smap) : Prop := StronglySorted klt m.

  Lemma cmp_refl a : cmp a a = Eq.
  Proof. apply cmp_eq; reflexivity. Qed.

  Lemma cmp_gt_lt a b : cmp a b = Gt -> cmp b a = Lt.
  Proof. intro H. rewrite (cmp_antisym a b), H. reflexivity. Qed.

  Lemma cmp_lt_gt a b : cmp a b = Lt -> cmp b a = Gt.
  Proof. intro H. rewrite (cmp_antisym a b), H. reflexivity. Qed.

  Lemma cmp_neq a b : a <> b -> cmp a b <> Eq.
  Proof. intros H E. apply H, cmp_eq, E. Qed.

  Lemma ssorted_nil : ssorted [].
  Proof. constructor. Qed.

  Lemma ssorted_inv x m : ssorted (x :: m) -> ssorted m /\ Forall (klt x) m.
  Proof. intro H. inversion H; subst. split; assumption. Qed.

  (* a key below every key of the list is not found *)
  Lemma get_below m k : Forall (fun y => cmp k (fst y) = Lt) m -> get m k = None.
  Proof.
    destruct m as [|[k0 v0] tl]; simpl; intros H; [reflexivity|].
    inversion H; subst. simpl in *. rewrite H2. reflexivity.
  Qed.

  Lemma Forall_klt_trans x k m : cmp k (fst x) <> Gt -> Forall (klt x) m -> Forall (fun y => cmp k (fst y) = Lt) m.
  Proof.
    intros Hk Hm. apply Forall_forall. intros y Hy.
    rewrite Forall_forall in Hm. specialize (Hm y Hy). unfold klt in Hm.
    destruct (cmp k (fst x)) eqn:E.
    - apply cmp_eq in E. subst. assumption.
    - eapply cmp_trans; eassumption.
    - contradiction.
  Qed.

  (* ---- get / put ---- *)
  Lemma get_put_same m k v : get (put m k v) k = Some v.
  Proof.
    induction m as [|[k0 v0] tl IH]; simpl.
    - rewrite cmp_refl. reflexivity.
    - destruct (cmp k k0) eqn:E; simpl.
      + rewrite cmp_refl. reflexivity.
      + rewrite cmp_refl. reflexivity.
      + rewrite E. exact IH.
  Qed.

  Lemma get_put_other m k v k' : k' <> k -> get (put m k v) k' = get m k'.
  Proof.
    intro Hne. induction m as [|[k0 v0] tl IH]; simpl.
    - destruct (cmp k' k) eqn:E; try reflexivity. apply cmp_eq in E. contradiction.
    - destruct (cmp k k0) eqn:E; simpl.
      + apply cmp_eq in E. subst k0.
        destruct (cmp k' k) eqn:E2; try reflexivity. apply cmp_eq in E2. contradiction.
      + destruct (cmp k' k) eqn:E2.
        * apply cmp_eq in E2. contradiction.
        * rewrite (cmp_trans _ _ _ E2 E). reflexivity.
        * reflexivity.
      + destruct (cmp k' k0) eqn:E2; try reflexivity. exact IH.
  Qed.

  Lemma put_sorted m k v : ssorted m -> ssorted (put m k v).
  Proof.
    induction m as [|[k0 v0] tl IH]; simpl; intro Hs.
    - constructor; constructor.
    - destruct (ssorted_inv _ _ Hs) as [Htl Hall].
      destruct (cmp k k0) eqn:E.
      + apply cmp_eq in E. subst k0. constructor; assumption.
      + constructor; [assumption|]. constructor; [exact E|].
        apply Forall_forall. intros y Hy. rewrite Forall_forall in Hall.
        unfold klt in *. simpl in *. eapply cmp_trans; [exact E|]. apply Hall. exact Hy.
      + constructor; [apply IH; assumption|].
        apply Forall_forall. intros y Hy.
        assert (Hin : y = (k, v) \/ In y tl).
        { clear -Hy cmp_eq. induction tl as [|[k1 v1] tl' IH']; simpl in *.
          - destruct Hy as [Hy|[]]. left; symmetry; exact Hy.
          - destruct (cmp k k1) eqn:E1; simpl in Hy.
            + destruct Hy as [Hy|Hy]; [left; symmetry; exact Hy|right; right; exact Hy].
            + destruct Hy as [Hy|Hy]; [left; symmetry; exact Hy|right; exact Hy].
            + destruct Hy as [Hy|Hy]; [right; left; exact Hy|].
              destruct (IH' Hy) as [H|H]; [left; exact H|right; right; exact H]. }
        destruct Hin as [->|Hin].
        * unfold klt. simpl. apply cmp_gt_lt. exact E.
        * rewrite Forall_forall in Hall. apply Hall. exact Hin.
  Qed.

  (* ---- get / del ---- *)
  Lemma get_del_same m k : ssorted m -> get (del m k) k = None.
  Proof.
    induction m as [|[k0 v0] tl IH]; simpl; intro Hs; [reflexivity|].
    destruct (ssorted_inv _ _ Hs) as [Htl Hall].
    destruct (cmp k k0) eqn:E; simpl.
    - apply get_below. eapply Forall_klt_trans; [|exact Hall]. simpl. rewrite E. discriminate.
    - rewrite E. reflexivity.
    - rewrite E. apply IH. exact Htl.
  Qed.

  Lemma get_del_other m k k' : ssorted m -> k' <> k -> get (del m k) k' = get m k'.
  Proof.
    intros Hs Hne. induction m as [|[k0 v0] tl IH]; simpl; [reflexivity|].
    destruct (ssorted_inv _ _ Hs) as [Htl Hall].
    destruct (cmp k k0) eqn:E; simpl.
    - apply cmp_eq in E. subst k0.
      destruct (cmp k' k) eqn:E2.
      + apply cmp_eq in E2. contradiction.
      + apply get_below. eapply Forall_klt_trans; [|exact Hall]. simpl. rewrite E2. discriminate.
      + reflexivity.
    - reflexivity.
    - destruct (cmp k' k0); try reflexivity. apply IH. exact Htl.
  Qed.

  Lemma del_subset m k y : In y (del m k) -> In y m.
  Proof.
    induction m as [|[k0 v0] tl IH]; simpl; [tauto|].
    destruct (cmp k k0); simpl; intro H.
    - right. exact H.
    - exact H.
    - destruct H as [H|H]; [left; exact H|right; apply IH; exact H].
  Qed.

  Lemma del_sorted m k : ssorted m -> ssorted (del m k).
  Proof.
    induction m as [|[k0 v0] tl IH]; simpl; intro Hs; [constructor|].
    destruct (ssorted_inv _ _ Hs) as [Htl Hall].
    destruct (cmp k k0).
    - exact Htl.
    - exact Hs.
    - constructor; [apply IH; exact Htl|].
      apply Forall_forall. intros y Hy. rewrite Forall_forall in Hall. apply Hall.
      eapply del_subset. exact Hy.
  Qed.

  (* a deleted map never gains a binding *)
  Lemma get_del_some m k k' v : ssorted m -> get (del m k) k' = Some v -> get m k' = Some v.
  Proof.
    intros Hs H. destruct (cmp k' k) eqn:E.
    - apply cmp_eq in E. subst k'. rewrite get_del_same in H by assumption. discriminate.
    - rewrite get_del_other in H; [exact H|exact Hs|]. intro; subst. rewrite cmp_refl in E. discriminate.
    - rewrite get_del_other in H; [exact H|exact Hs|]. intro; subst. rewrite cmp_refl in E. discriminate.
  Qed.

  (* ---- filter on keys (sm_range, sm_del_range) ---- *)
  Lemma filter_sorted (f : key * V -> bool) m : ssorted m -> ssorted (filter f m).
  Proof.
    induction m as [|x tl IH]; simpl; intro Hs; [constructor|].
    destruct (ssorted_inv _ _ Hs) as [Htl Hall].
    destruct (f x).
    - constructor; [apply IH; exact Htl|].
      apply Forall_forall. intros y Hy. apply filter_In in Hy. destruct Hy as [Hy _].
      rewrite Forall_forall in Hall. apply Hall. exact Hy.
    - apply IH. exact Htl.
  Qed.

  Lemma get_filter (f : key -> bool) m k :
    ssorted m -> get (filter (fun kv => f (fst kv)) m) k = if f k then get m k else None.
  Proof.
    induction m as [|[k0 v0] tl IH]; simpl; intro Hs.
    - destruct (f k); reflexivity.
    - destruct (ssorted_inv _ _ Hs) as [Htl Hall]. specialize (IH Htl).
      destruct (f k0) eqn:F0; simpl.
      + destruct (cmp k k0) eqn:E.
        * apply cmp_eq in E. subst k0. rewrite F0. reflexivity.
        * destruct (f k); reflexivity.
        * exact IH.
      + rewrite IH. destruct (cmp k k0) eqn:E.
        * apply cmp_eq in E. subst k0. rewrite F0. reflexivity.
        * destruct (f k); [|reflexivity].
          apply get_below. eapply Forall_klt_trans; [|exact Hall]. simpl. rewrite E. discriminate.
        * reflexivity.
  Qed.

  Lemma get_range m lo hi k :
    ssorted m -> get (sm_range cmp m lo hi) k = if in_range cmp lo hi k then get m k else None.
  Proof. intro Hs. unfold sm_range. apply (get_filter (in_range cmp lo hi)). exact Hs. Qed.

  Lemma get_del_range m lo hi k :
    ssorted m -> get (sm_del_range cmp m lo hi) k = if in_range cmp lo hi k then None else get m k.
  Proof.
    intro Hs. unfold sm_del_range.
    rewrite (get_filter (fun k => negb (in_range cmp lo hi k))) by exact Hs.
    destruct (in_range cmp lo hi k); reflexivity.
  Qed.

  (* ---- membership ---- *)
  Lemma get_in m k v : ssorted m -> get m k = Some v -> In (k, v) m.
  Proof.
    induction m as [|[k0 v0] tl IH]; simpl; intros Hs H; [discriminate|].
    destruct (ssorted_inv _ _ Hs) as [Htl _].
    destruct (cmp k k0) eqn:E.
    - apply cmp_eq in E. subst. inversion H; subst. left. reflexivity.
    - discriminate.
    - right. apply IH; assumption.
  Qed.

  Lemma in_get m k v : ssorted m -> In (k, v) m -> get m k = Some v.
  Proof.
    induction m as [|[k0 v0] tl IH]; simpl; intros Hs H; [contradiction|].
    destruct (ssorted_inv _ _ Hs) as [Htl Hall].
    destruct H as [H|H].
    - inversion H; subst. rewrite cmp_refl. reflexivity.
    - rewrite Forall_forall in Hall. specialize (Hall _ H). unfold klt in Hall. simpl in Hall.
      rewrite (cmp_lt_gt _ _ Hall). apply IH; assumption.
  Qed.

  (* ---- deleting a list of keys one by one ---- *)
  Lemma fold_del_sorted ks m : ssorted m -> ssorted (fold_left del ks m).
  Proof. revert m. induction ks as [|k tl IH]; simpl; intros m Hs; [exact Hs|]. apply IH, del_sorted, Hs. Qed.

  Lemma get_fold_del_in ks m k : ssorted m -> In k ks -> get (fold_left del ks m) k = None.
  Proof.
    revert m. induction ks as [|k0 tl IH]; simpl; intros m Hs Hin; [contradiction|].
    destruct (cmp k k0) eqn:E.
    - apply cmp_eq in E. subst k0.
      clear IH Hin. assert (H0 : get (del m k) k = None) by (apply get_del_same; exact Hs).
      assert (Hs' : ssorted (del m k)) by (apply del_sorted; exact Hs).
      revert H0 Hs'. generalize (del m k). induction tl as [|k1 tl' IH']; simpl; intros m' H0 Hs'; [exact H0|].
      apply IH'.
      + destruct (get (del m' k1) k) eqn:G; [|reflexivity].
        apply get_del_some in G; [|exact Hs']. rewrite G in H0. discriminate.
      + apply del_sorted. exact Hs'.
    - destruct Hin as [->|Hin]; [rewrite cmp_refl in E; discriminate|]. apply IH; [apply del_sorted; exact Hs|exact Hin].
    - destruct Hin as [->|Hin]; [rewrite cmp_refl in E; discriminate|]. apply IH; [apply del_sorted; exact Hs|exact Hin].
  Qed.

  Lemma get_fold_del_notin ks m k : ssorted m -> ~ In k ks -> get (fold_left del ks m) k = get m k.
  Proof.
    revert m. induction ks as [|k0 tl IH]; simpl; intros m Hs Hin; [reflexivity|].
    rewrite IH.
    - apply get_del_other; [exact Hs|]. intro; subst. apply Hin. left. reflexivity.
    - apply del_sorted. exact Hs.
    - intro H. apply Hin. right. exact H.
  Qed.
End SortedMapProofs.
