(* Db/Proofs_C16.v — C16: sequence keys are fresh, strictly increasing and computed exactly.

   For EVERY reachable state (no hypothesis on what lives under the prefix; the code as repaired):
     [put_fresh] / [put_greater]    a sequence put that is answered OK created a key that was absent, and that is
                                    greater than every key of the prefix below prefix-%020d(2^64-1) (what
                                    FindLower can see); otherwise it changed nothing.
   For states in which every key with the prefix was generated from the sequence ([seq_wf], an invariant of
   the histories in which nothing else writes under the prefix: [seq_wf_invariant]):
     [generate_key_exact]           new key = prefix ++ "-%020d"(cur_i + delta_i), cur = the numbers of the highest
                                    key of the prefix, 0 where absent, when no component overflows; the
                                    per-operation status UNEXPECTED_VERSION_ID otherwise (repair of O-15)
     [put_exact]                    the same through applyPut, with the record stored under the new key and
                                    [seq_wf] preserved (several sequence puts of one batch see each other).
   [overflow_old_refuted_*]: the code as it was wrapped around (key not greater / existing record replaced /
   the 2^64-1 suffix invisible to FindLower).
   Events: [events_committed] the sequence waiters are told exactly the keys of stored sequence puts of a
   committed batch; [events_none_on_failure].  The wait tracker itself is Db/SeqWait.v + Proofs_C16_Wait.v. *)
From Coq Require Import List NArith ZArith Bool Lia PeanoNat.
From Oxia.KeyOrder Require Import Model Proofs.
From Oxia.Db Require Import Types Bytes Escape Keys Kv Sessions Indexes Sequences Notifications Write Read
  SortedMap SortedMapProofs KeyFacts KvProofs NumProofs Spec Proofs_C12 C16_Old C16_Keys C16_Gen.
Import ListNotations.
Open Scope N_scope.

(* ================================================================ exactness *)
Lemma current_last_parts_vals b P cur n :
  last_vals b P cur -> (length cur <= n)%nat -> current_last_parts b P n = Ok (map pad20 cur).
Proof.
  intros L Hn. unfold current_last_parts.
  assert (E : tl (split_on DASH (drop_prefix P (current_last_key b P))) = map pad20 cur).
  { destruct L as [[-> [C _]]|[_ [C _]]]; rewrite C.
    - unfold drop_prefix. rewrite skipn_nil. reflexivity.
    - unfold seq_key. rewrite drop_prefix_app, split_on_seq_suffix. reflexivity. }
  rewrite E, map_length. replace (n <? length cur)%nat with false by (symmetry; apply Nat.ltb_ge; exact Hn).
  reflexivity.
Qed.

Lemma no_overflow_head cur d tl : no_overflowb cur 0 (d :: tl) = true -> nth 0 cur 0 + d < U64.
Proof. simpl. intro H. apply andb_true_iff in H. destruct H as [H _]. apply andb_true_iff in H. destruct H as [H _]. apply N.ltb_lt. exact H. Qed.

(* the request of a well-behaved client on the sequence of prefix P *)
Definition seq_put_on (P : key) (p : put_req) : Prop :=
  p_key p = P /\ p_partition p <> None /\ p_expected p = None /\
  p_deltas p <> [] /\ hd 1 (p_deltas p) <> 0 /\ Forall (fun d => d < U64) (p_deltas p).

Theorem generate_key_exact b P p cur :
  sorted b -> last_vals b P cur -> seq_put_on P p -> (length cur <= length (p_deltas p))%nat ->
  generate_key b p =
    if no_overflowb cur 0 (p_deltas p) then SeqOk (seq_key P (sums cur 0 (p_deltas p))) else SeqBadVersion.
Proof.
  intros Hs L [Hk [Hp [He [Hd [Hz Hu]]]]] Hn. unfold generate_key. subst P.
  destruct (p_partition p); [|congruence]. rewrite He.
  rewrite (current_last_parts_vals b (p_key p) cur _ L Hn).
  assert (Hc : Forall (fun v => v < U64) cur).
  { destruct L as [[-> _]|[[_ [F _]] _]]; [constructor|exact F]. }
  rewrite (seq_loop_exact cur (p_deltas p) 0 (p_key p) Hc Hu (fun _ => Hz)).
  destruct (no_overflowb cur 0 (p_deltas p)) eqn:O; [|reflexivity].
  destruct L as [[-> [C _]]|[[Hne [F Hh]] [C _]]]; rewrite C.
  - reflexivity.
  - destruct (seq_key (p_key p) cur) eqn:E; [reflexivity|]. rewrite <- E.
    replace (cmp_slash (p_key p ++ seq_suffix (sums cur 0 (p_deltas p))) (seq_key (p_key p) cur)) with Gt; [reflexivity|].
    symmetry. unfold seq_key. rewrite (cmp_slash_prefix_bytes _ _ _ (seq_suffix_no_slash _) (seq_suffix_no_slash _)).
    destruct cur as [|c cur]; [congruence|]. destruct (p_deltas p) as [|d dtl]; [congruence|].
    pose proof (no_overflow_head _ _ _ O) as Hs0. simpl in Hs0, Hz. inversion F; subst.
    change (sums (c :: cur) 0 (d :: dtl)) with ((c + d) :: sums (c :: cur) 1 dtl).
    rewrite seq_suffix_cmp_head; [apply N.compare_gt_iff; lia|apply lt_U64_TEN20; exact Hs0|apply lt_U64_TEN20; assumption|lia].
Qed.

(* ================================================================ applyPut: freshness in every well-formed state *)
Lemma finish_put_stored w p ex rk ts :
  wf_kv (w_kv w) ->
  exists w' r, finish_put wrapper_callbacks w p ex rk ts = (w', Ok r) /\
    ((pr_status r = OK /\ pr_key r = rk /\ w_events w' = w_events w /\
      exists b1, cb_rel (w_kv w) b1 /\
        w_kv w' = kv_put b1 (p_key p) (VRecord (stored_entry ex p (wrap64 (w_ver w + 1)) ts))) \/
     (pr_status r <> OK /\ pr_key r = None /\ w_events w' = w_events w /\ cb_rel (w_kv w) (w_kv w'))).
Proof.
  intro Hw. unfold finish_put. cbn [cb_on_put wrapper_callbacks].
  destruct (wrapper_on_put_spec (w_kv w) p ex Hw) as [b1 [R E]]. rewrite E.
  destruct (match p_session p with
            | Some z => if alive (w_kv w) z then OK else SESSION_DOES_NOT_EXIST
            | None => OK end) eqn:St; eexists; eexists; (split; [reflexivity|]).
  - left. simpl. split; [reflexivity|]. split; [reflexivity|]. split; [reflexivity|]. exists b1. split; [exact R|reflexivity].
  - right. simpl. split; [discriminate|]. split; [reflexivity|]. split; [reflexivity|exact R].
  - right. simpl. split; [discriminate|]. split; [reflexivity|]. split; [reflexivity|exact R].
  - right. simpl. split; [discriminate|]. split; [reflexivity|]. split; [reflexivity|exact R].
Qed.

Lemma stored_entry_fresh p ver ts : e_modcount (stored_entry None p ver ts) = 0%Z /\ e_value (stored_entry None p ver ts) = p_value p.
Proof. split; reflexivity. Qed.

(* What a sequence put does, in ANY well-formed state (reachable states are: Proofs_C12.reachable_wf):
   with a key in the response, that key was absent, now holds the record (a creation), is greater than every
   key of the prefix FindLower can see, and is what the waiters will be told; without a key, nothing a user
   sees has changed. *)
Theorem put_fresh w p ts w' r :
  wf_kv (w_kv w) -> p_deltas p <> [] -> is_internal (p_key p) = false ->
  apply_put wrapper_callbacks w p ts = (w', Ok r) ->
  match pr_key r with
  | Some nk =>
      pr_status r = OK /\ generate_key (w_kv w) p = SeqOk nk /\
      kv_get (w_kv w) nk = None /\
      (exists e, kv_get (w_kv w') nk = Some (VRecord e) /\ e_value e = p_value p /\ e_modcount e = 0%Z) /\
      (forall k v, kv_get (w_kv w) k = Some v -> has_prefix (p_key p) k = true ->
                   cmp_slash k (max_key (p_key p)) = Lt -> cmp_slash nk k = Gt) /\
      w_events w' = w_events w ++ [(p_key p, nk)]
  | None =>
      pr_status r <> OK /\ (forall k, uv (w_kv w') k = uv (w_kv w) k) /\ w_events w' = w_events w
  end.
Proof.
  intros Hw Hd Hi H. unfold apply_put in H. destruct (p_deltas p) as [|d0 dtl] eqn:D; [congruence|].
  destruct (generate_key (w_kv w) p) as [nk| |e] eqn:G.
  - destruct (finish_put_stored w (set_key p nk) None (Some nk) ts Hw) as [w1 [r1 [F [[St [Kr [Ev [b1 [R Eb]]]]]|[St [Kr [Ev R]]]]]]];
      rewrite F in H; inversion H; subst w' r; clear H; rewrite Kr.
    + assert (Hd' : p_deltas p <> []) by (rewrite D; discriminate).
      split; [exact St|]. split; [reflexivity|].
      pose proof (generate_key_fresh _ _ _ (proj1 Hw) Hd' G) as Hf. split; [exact Hf|].
      split; [|split].
      * eexists. simpl. rewrite Eb. simpl. rewrite kv_get_put_same. split; [reflexivity|]. split; reflexivity.
      * intros k v Gk Hp Hlt. exact (generate_key_greater _ _ _ (proj1 Hw) Hd' G k v Gk Hp Hlt).
      * simpl. rewrite Ev. reflexivity.
    + split; [exact St|]. split; [|exact Ev]. intro k. apply (cb_rel_uv _ _ k R).
  - inversion H; subst w' r. simpl. split; [discriminate|]. split; reflexivity.
  - discriminate.
Qed.

(* ================================================================ seq_wf is preserved *)
(* no internal key has the prefix: the prefix and "__oxia/" are not prefixes of one another *)
Definition prefix_ok (P : key) : Prop := has_prefix P internal_prefix = false /\ is_internal P = false.

Lemma prefix_ok_internal P k : prefix_ok P -> is_internal k = true -> has_prefix P k = false.
Proof.
  intros [H1 H2] Hi. destruct (has_prefix P k) eqn:Hp; [|reflexivity]. exfalso.
  unfold is_internal in *. destruct (has_prefix_comparable _ _ _ Hp Hi) as [H|H]; congruence.
Qed.

Lemma seq_wf_step b b' P :
  seq_wf b P ->
  (forall k v, kv_get b' k = Some v -> has_prefix P k = true -> (exists v0, kv_get b k = Some v0) \/ gen_key P k) ->
  seq_wf b' P.
Proof. intros Hw Hs k v G Hp. destruct (Hs _ _ G Hp) as [[v0 G0]|Hg]; [eapply Hw; eassumption|exact Hg]. Qed.

Lemma seq_wf_shrink b b' P : seq_wf b P -> cb_shrink b b' -> seq_wf b' P.
Proof. intros Hw Hs. eapply seq_wf_step; [exact Hw|]. intros k v G _. left. exists v. apply Hs. exact G. Qed.

Lemma seq_wf_cb_rel b b' P : prefix_ok P -> seq_wf b P -> cb_rel b b' -> seq_wf b' P.
Proof.
  intros Hp Hw [_ [Hsame _]]. eapply seq_wf_step; [exact Hw|]. intros k v G Hk. left. exists v.
  rewrite <- Hsame; [exact G|]. intro C. apply cbkey_internal in C. rewrite (prefix_ok_internal _ _ Hp C) in Hk. discriminate.
Qed.

Lemma seq_wf_put_other b P k v : seq_wf b P -> has_prefix P k = false -> seq_wf (kv_put b k v) P.
Proof.
  intros Hw Hk. eapply seq_wf_step; [exact Hw|]. intros k' v' G Hp. left.
  destruct (list_eq_dec N.eq_dec k' k) as [->|Hne]; [congruence|].
  rewrite kv_get_put_other in G by exact Hne. eauto.
Qed.

Lemma seq_wf_put_gen b P k v : seq_wf b P -> gen_key P k -> seq_wf (kv_put b k v) P.
Proof.
  intros Hw Hg. eapply seq_wf_step; [exact Hw|]. intros k' v' G Hp.
  destruct (list_eq_dec N.eq_dec k' k) as [->|Hne]; [right; exact Hg|].
  rewrite kv_get_put_other in G by exact Hne. left. eauto.
Qed.

(* which puts may appear next to the sequence of prefix P: sequence puts on P itself, plain puts on keys
   without the prefix, sequence puts on prefixes that are not comparable with P *)
Definition put_respects (P : key) (p : put_req) : Prop :=
  (p_key p = P /\ p_deltas p <> []) \/
  (p_deltas p = [] /\ has_prefix P (p_key p) = false) \/
  (p_deltas p <> [] /\ has_prefix P (p_key p) = false /\ has_prefix (p_key p) P = false).

Lemma finish_put_seq_wf w p ex rk ts P :
  prefix_ok P -> wf_kv (w_kv w) -> seq_wf (w_kv w) P ->
  (has_prefix P (p_key p) = false \/ gen_key P (p_key p)) ->
  seq_wf (w_kv (fst (finish_put wrapper_callbacks w p ex rk ts))) P.
Proof.
  intros Hp Hw Hs Hk.
  destruct (finish_put_stored w p ex rk ts Hw) as [w1 [r1 [F [[_ [_ [_ [b1 [R Eb]]]]]|[_ [_ [_ R]]]]]]]; rewrite F; simpl.
  - rewrite Eb. pose proof (seq_wf_cb_rel _ _ _ Hp Hs R) as H1.
    destruct Hk as [Hk|Hk]; [apply seq_wf_put_other|apply seq_wf_put_gen]; assumption.
  - eapply seq_wf_cb_rel; eassumption.
Qed.

Lemma apply_put_seq_wf w p ts P :
  prefix_ok P -> wf_kv (w_kv w) -> seq_wf (w_kv w) P -> put_respects P p ->
  seq_wf (w_kv (fst (apply_put wrapper_callbacks w p ts))) P.
Proof.
  intros Hp Hw Hs Hr. unfold apply_put. destruct (p_deltas p) as [|d0 dtl] eqn:D.
  - destruct Hr as [[_ C]|[[_ Hk]|[C _]]]; try congruence.
    destruct (check_expected (w_kv w) (p_key p) (p_expected p)); simpl; try exact Hs.
    apply finish_put_seq_wf; try assumption. left. exact Hk.
  - destruct (generate_key (w_kv w) p) as [nk| |e] eqn:G; simpl; try exact Hs.
    assert (Hd : p_deltas p <> []) by (rewrite D; discriminate).
    destruct (generate_key_shape _ _ _ Hd G) as [news [Hg [Enk _]]].
    assert (Hk : has_prefix P nk = false \/ gen_key P nk).
    { destruct Hr as [[Ek _]|[[C _]|[_ [H1 H2]]]]; [|congruence|].
      - right. exists news. split; [exact Hg|]. rewrite Enk, Ek. reflexivity.
      - left. destruct (has_prefix P nk) eqn:Hpn; [|reflexivity]. exfalso.
        rewrite Enk in Hpn. pose proof (seq_key_prefix (p_key p) news) as Hq.
        destruct (has_prefix_comparable _ _ _ Hpn Hq) as [H|H]; congruence. }
    pose proof (finish_put_seq_wf w (set_key p nk) None (Some nk) ts P Hp Hw Hs Hk) as F.
    destruct (finish_put wrapper_callbacks w (set_key p nk) None (Some nk) ts) as [w1 [r|e]]; simpl in *;
      [destruct (pr_key r)|]; exact F.
Qed.

Lemma apply_puts_seq_wf P ps : forall w ts,
  prefix_ok P -> wf_kv (w_kv w) -> seq_wf (w_kv w) P -> Forall (put_respects P) ps ->
  seq_wf (w_kv (fst (apply_puts wrapper_callbacks w ps ts))) P.
Proof.
  induction ps as [|p tl IH]; simpl; intros w ts Hp Hw Hs Hr; [exact Hs|]. inversion Hr as [|? ? R1 Rt]; subst.
  pose proof (apply_put_seq_wf w p ts P Hp Hw Hs R1) as S1. pose proof (apply_put_wf w p ts Hw) as W1.
  destruct (apply_put wrapper_callbacks w p ts) as [w1 [r|e]]; simpl in *; [|exact S1].
  pose proof (IH w1 ts Hp W1 S1 Rt) as S2.
  destruct (apply_puts wrapper_callbacks w1 tl ts) as [w2 [rs|e]]; simpl in *; exact S2.
Qed.

(* deletes and range deletes only remove keys, whatever they are aimed at *)
Lemma wrapper_on_delete_shrink b k b' : wf_kv b -> wrapper_on_delete b k = Ok b' -> cb_shrink b b'.
Proof.
  intros Hw H. unfold wrapper_on_delete, session_on_delete in H.
  destruct (get_entry b k) as [[e|]|x] eqn:G; [| |discriminate].
  - destruct (delete_shadow_rel b k (Some e) Hw) as [R1 S1].
    unfold index_on_delete in H. destruct (get_entry (delete_shadow b k (Some e)) k) as [[e1|]|x]; [| |discriminate].
    + inversion H; subst. eapply cb_shrink_trans; [exact S1|]. apply (delete_indexes_rel k e1 _ (cb_rel_wf _ _ R1)).
    + inversion H; subst. exact S1.
  - unfold index_on_delete in H. rewrite G in H. inversion H; subst. apply cb_shrink_refl.
Qed.

Lemma apply_delete_shrink w d : wf_kv (w_kv w) -> cb_shrink (w_kv w) (w_kv (fst (apply_delete wrapper_callbacks w d))).
Proof.
  intro Hw. unfold apply_delete.
  destruct (check_expected (w_kv w) (d_key d) (d_expected d)) as [[e|]| |x]; simpl; try apply cb_shrink_refl.
  destruct (wrapper_on_delete (w_kv w) (d_key d)) as [b1|x] eqn:E; simpl; [|apply cb_shrink_refl].
  pose proof (wrapper_on_delete_shrink _ _ _ Hw E) as S. pose proof (wrapper_on_delete_wf _ _ _ Hw E) as W.
  intros k v G. apply S. eapply kv_get_del_some; [apply W|exact G].
Qed.

Lemma apply_deletes_shrink ds : forall w, wf_kv (w_kv w) -> cb_shrink (w_kv w) (w_kv (fst (apply_deletes wrapper_callbacks w ds))).
Proof.
  induction ds as [|d tl IH]; simpl; intros w Hw; [apply cb_shrink_refl|].
  pose proof (apply_delete_shrink w d Hw) as S1. pose proof (apply_delete_wf w d Hw) as W1.
  destruct (apply_delete wrapper_callbacks w d) as [w1 [r|e]]; simpl in *; [|exact S1].
  pose proof (IH w1 W1) as S2.
  destruct (apply_deletes wrapper_callbacks w1 tl) as [w2 [rs|e]]; simpl in *; eapply cb_shrink_trans; eassumption.
Qed.

Lemma apply_delete_range_shrink threshold w r :
  wf_kv (w_kv w) -> cb_shrink (w_kv w) (w_kv (fst (apply_delete_range wrapper_callbacks threshold w r))).
Proof.
  intro Hw. rewrite apply_delete_range_unfold.
  destruct (scan_callbacks wrapper_callbacks (w_kv w) _) as [b1|x] eqn:E; simpl; [|apply cb_shrink_refl].
  destruct (scan_callbacks_ok _ _ _ Hw E) as [W1 S1].
  intros k v G. rewrite (range_delete_get _ _ _ _ _ k (proj1 Hw) (proj1 W1) S1) in G.
  destruct (key_in_range _ _ k); [discriminate|]. apply S1. exact G.
Qed.

Lemma apply_ranges_shrink threshold rs : forall w,
  wf_kv (w_kv w) -> cb_shrink (w_kv w) (w_kv (fst (apply_ranges wrapper_callbacks threshold w rs))).
Proof.
  induction rs as [|r tl IH]; simpl; intros w Hw; [apply cb_shrink_refl|].
  pose proof (apply_delete_range_shrink threshold w r Hw) as S1. pose proof (apply_delete_range_wf threshold w r Hw) as W1.
  destruct (apply_delete_range wrapper_callbacks threshold w r) as [w1 [x|e]]; simpl in *; [|exact S1].
  pose proof (IH w1 W1) as S2.
  destruct (apply_ranges wrapper_callbacks threshold w1 tl) as [w2 [xs|e]]; simpl in *; eapply cb_shrink_trans; eassumption.
Qed.

Definition req_respects (P : key) (req : write_req) : Prop := Forall (put_respects P) (w_puts req).

Lemma seq_wf_internal_put b P k v ts : prefix_ok P -> is_internal k = true -> seq_wf b P -> seq_wf (internal_put b k v ts) P.
Proof. intros Hp Hi Hs. apply seq_wf_put_other; [exact Hs|apply prefix_ok_internal; assumption]. Qed.

Theorem process_write_seq_wf cfg st req o ts P :
  prefix_ok P -> wf_kv (st_kv st) -> seq_wf (st_kv st) P -> req_respects P req ->
  seq_wf (st_kv (fst (process_write wrapper_callbacks cfg st req o ts))) P.
Proof.
  intros Hp Hw Hs Hr. rewrite process_write_unfold. unfold apply_write_request.
  pose proof (apply_puts_seq_wf P (w_puts req) (start_write st) ts Hp Hw Hs Hr) as S1.
  pose proof (apply_puts_wf (w_puts req) (start_write st) ts Hw) as W1.
  destruct (apply_puts wrapper_callbacks (start_write st) (w_puts req) ts) as [w1 [prs|e]]; simpl in *; [|exact Hs].
  pose proof (apply_deletes_shrink (w_dels req) w1 W1) as S2. pose proof (apply_deletes_wf (w_dels req) w1 W1) as W2.
  destruct (apply_deletes wrapper_callbacks w1 (w_dels req)) as [w2 [drs|e]]; simpl in *; [|exact Hs].
  pose proof (apply_ranges_shrink (cfg_threshold cfg) (w_ranges req) w2 W2) as S3.
  destruct (apply_ranges wrapper_callbacks (cfg_threshold cfg) w2 (w_ranges req)) as [w3 [rrs|e]]; simpl in *; [|exact Hs].
  assert (S : seq_wf (w_kv w3) P) by (eapply seq_wf_shrink; [eapply seq_wf_shrink; [exact S1|exact S2]|exact S3]).
  unfold commit_write.
  assert (S' : seq_wf (internal_put (internal_put (w_kv w3) commit_offset_key (ascii_of_Z o) ts) last_version_key (ascii_of_Z (w_ver w3)) ts) P).
  { apply seq_wf_internal_put; [exact Hp|apply last_version_key_internal|].
    apply seq_wf_internal_put; [exact Hp|apply commit_offset_key_internal|exact S]. }
  destruct (w_nm w3); simpl; [|exact S'].
  apply seq_wf_put_other; [exact S'|apply prefix_ok_internal; [exact Hp|apply notification_key_internal]].
Qed.

Definition op_respects (P : key) (op : db_op) : Prop :=
  match op with OpWrite req _ _ => req_respects P req | _ => True end.

Lemma seq_wf_nil P : seq_wf [] P.
Proof. intros k v G. discriminate. Qed.

(* the invariant of the histories in which nothing else writes under the prefix *)
Theorem seq_wf_invariant cfg P ops :
  prefix_ok P -> Forall (op_respects P) ops -> seq_wf (st_kv (run cfg ops)) P.
Proof.
  intros Hp. unfold run.
  assert (G : forall st, wf_kv (st_kv st) -> seq_wf (st_kv st) P -> Forall (op_respects P) ops ->
              seq_wf (st_kv (fold_left (db_step cfg) ops st)) P).
  { induction ops as [|op tl IH]; simpl; intros st Hw Hs Hr; [exact Hs|]. inversion Hr as [|? ? R1 Rt]; subst.
    apply IH; [apply db_step_wf; exact Hw| |exact Rt].
    destruct op as [req o ts|term en ts|en|]; simpl.
    - apply process_write_seq_wf; assumption.
    - apply seq_wf_internal_put; [exact Hp|apply term_options_key_internal|].
      apply seq_wf_internal_put; [exact Hp|apply term_key_internal|exact Hs].
    - exact Hs.
    - unfold reopen, persist. destruct (read_ascii_long (st_kv st) commit_offset_key); [|exact Hs].
      destruct (read_last_version (st_kv st)); exact Hs. }
  intro Hr. apply G; [apply wf_nil|apply seq_wf_nil|exact Hr].
Qed.

(* ================================================================ exactness through applyPut *)
Theorem put_exact w p ts P cur :
  prefix_ok P -> wf_kv (w_kv w) -> seq_wf (w_kv w) P -> last_vals (w_kv w) P cur ->
  seq_put_on P p -> (length cur <= length (p_deltas p))%nat ->
  exists w' r, apply_put wrapper_callbacks w p ts = (w', Ok r) /\ seq_wf (w_kv w') P /\
    (if no_overflowb cur 0 (p_deltas p) then
       match p_session p with
       | Some z => if alive (w_kv w) z then pr_key r = Some (seq_key P (sums cur 0 (p_deltas p)))
                   else pr_status r = SESSION_DOES_NOT_EXIST
       | None => pr_key r = Some (seq_key P (sums cur 0 (p_deltas p)))
       end
     else pr_status r = UNEXPECTED_VERSION_ID /\ w_kv w' = w_kv w).
Proof.
  intros Hp Hw Hs L Hq Hn. pose proof Hq as [Hk [_ [_ [Hd _]]]].
  pose proof (generate_key_exact (w_kv w) P p cur (proj1 Hw) L Hq Hn) as G.
  assert (Hr : put_respects P p) by (left; split; assumption).
  pose proof (apply_put_seq_wf w p ts P Hp Hw Hs Hr) as Sw.
  unfold apply_put in *. destruct (p_deltas p) as [|d0 dtl] eqn:D; [congruence|]. rewrite G in *.
  destruct (no_overflowb cur 0 (d0 :: dtl)).
  - set (nk := seq_key P (sums cur 0 (d0 :: dtl))) in *.
    unfold finish_put in *. cbn [cb_on_put wrapper_callbacks] in *.
    destruct (wrapper_on_put_spec (w_kv w) (set_key p nk) None Hw) as [b1 [R E]]. rewrite E in *.
    change (p_session (set_key p nk)) with (p_session p) in *.
    destruct (p_session p) as [z|].
    + destruct (alive (w_kv w) z); eexists; eexists; (split; [reflexivity|]); (split; [exact Sw|]); reflexivity.
    + eexists; eexists; (split; [reflexivity|]); (split; [exact Sw|]); reflexivity.
  - eexists; eexists. split; [reflexivity|]. split; [exact Sw|]. split; reflexivity.
Qed.

(* ================================================================ the code as it was (O-15) *)
Definition c16_cfg : config := mkConfig 1 100.
Definition k_s : key := [115]%N.
Definition pk : option bytes := Some [112]%N.
Definition seq_put (k : key) (deltas : list N) : put_req := mkPut k [118]%N None None None pk deltas [].
Definition plain_put (k : key) : put_req := mkPut k [118]%N None None None None [] [].
Definition one (p : put_req) (o : Z) : db_op := OpWrite (mkWrite [p] [] []) o 5%N.

(* last = 2, delta = 2^64-1: the sum wraps to 1; the new key is BELOW the existing one *)
Theorem overflow_old_refuted_not_greater :
  exists ops p nk k, generate_key_old (st_kv (run c16_cfg ops)) p = SeqOk nk /\
    kv_get (st_kv (run c16_cfg ops)) k <> None /\ has_prefix (p_key p) k = true /\ cmp_slash nk k = Lt /\
    generate_key (st_kv (run c16_cfg ops)) p = SeqBadVersion.
Proof.
  exists [one (seq_put k_s [2]) 0], (seq_put k_s [MAX_SEQUENCE]), (seq_key k_s [1]), (seq_key k_s [2]).
  vm_compute. repeat split; discriminate.
Qed.

(* keys 1 and 2 exist, last = 2, delta = 2^64-1: the "new" key is the existing key 1, whose record is replaced *)
Theorem overflow_old_refuted_overwrites :
  exists ops p nk, generate_key_old (st_kv (run c16_cfg ops)) p = SeqOk nk /\
    kv_get (st_kv (run c16_cfg ops)) nk <> None /\
    generate_key (st_kv (run c16_cfg ops)) p = SeqBadVersion.
Proof.
  exists [one (seq_put k_s [1]) 0; one (seq_put k_s [1]) 1], (seq_put k_s [MAX_SEQUENCE]), (seq_key k_s [1]).
  vm_compute. repeat split; discriminate.
Qed.

(* a first part equal to 2^64-1 is never seen again by FindLower (it is the exclusive bound): the next put
   starts from the previous key and lands below / on an existing key.  The old code produced such a key
   without any wrap-around (last 5, delta 2^64-6). *)
Theorem overflow_old_refuted_max_invisible :
  exists ops p1 p2 k,
    generate_key_old (st_kv (run c16_cfg ops)) p1 = SeqOk k /\ k = seq_key k_s [MAX_SEQUENCE] /\
    generate_key (st_kv (run c16_cfg ops)) p1 = SeqBadVersion /\
    (* with that key stored (here by a plain put), the old code generated it again *)
    generate_key_old (st_kv (run c16_cfg (ops ++ [one (plain_put k) 1]))) p2 = SeqOk k /\
    kv_get (st_kv (run c16_cfg (ops ++ [one (plain_put k) 1]))) k <> None.
Proof.
  exists [one (seq_put k_s [5]) 0], (seq_put k_s [MAX_SEQUENCE - 5]), (seq_put k_s [MAX_SEQUENCE - 5]), (seq_key k_s [MAX_SEQUENCE]).
  vm_compute. repeat split; discriminate.
Qed.

(* ================================================================ what the waiters are told *)
Lemma apply_put_events cb w p ts w' res :
  apply_put cb w p ts = (w', res) ->
  (w_events w' = w_events w /\ forall r, res = Ok r -> pr_key r = None) \/
  exists r nk, res = Ok r /\ pr_key r = Some nk /\ pr_status r = OK /\ w_events w' = w_events w ++ [(p_key p, nk)].
Proof.
  unfold apply_put. destruct (p_deltas p).
  - destruct (check_expected (w_kv w) (p_key p) (p_expected p)).
    + unfold finish_put. destruct (cb_on_put cb (w_kv w) p existing) as [[st b1]|e];
        [destruct st|]; intro H; inversion H; subst; left; (split; [reflexivity|]); intros r Hr; inversion Hr; reflexivity.
    + intro H; inversion H; subst. left. split; [reflexivity|]. intros r Hr; inversion Hr; reflexivity.
    + intro H; inversion H; subst. left. split; [reflexivity|]. intros r Hr; discriminate.
  - destruct (generate_key (w_kv w) p) as [nk| |e].
    + unfold finish_put. destruct (cb_on_put cb (w_kv w) (set_key p nk) None) as [[st b1]|e];
        [destruct st|]; intro H; inversion H; subst; simpl;
        try (left; (split; [reflexivity|]); intros r Hr; inversion Hr; reflexivity).
      right. eexists. exists nk. repeat split.
    + intro H; inversion H; subst. left. split; [reflexivity|]. intros r Hr; inversion Hr; reflexivity.
    + intro H; inversion H; subst. left. split; [reflexivity|]. intros r Hr; discriminate.
Qed.

(* the (prefix, key) pairs of the puts whose response carries a key, in the order of the request *)
Fixpoint seq_events (ps : list put_req) (rs : list put_resp) : list (key * key) :=
  match ps, rs with
  | p :: ps', r :: rs' =>
      (match pr_key r with Some nk => [(p_key p, nk)] | None => [] end) ++ seq_events ps' rs'
  | _, _ => []
  end.

Lemma apply_puts_events cb ps : forall w ts w' rs,
  apply_puts cb w ps ts = (w', Ok rs) -> w_events w' = w_events w ++ seq_events ps rs.
Proof.
  induction ps as [|p tl IH]; simpl; intros w ts w' rs H.
  - inversion H; subst. simpl. rewrite app_nil_r. reflexivity.
  - destruct (apply_put cb w p ts) as [w1 [r|e]] eqn:A; [|discriminate].
    destruct (apply_puts cb w1 tl ts) as [w2 [rs'|e]] eqn:B; [|discriminate].
    inversion H; subst w' rs; clear H. rewrite (IH _ _ _ _ B). simpl.
    destruct (apply_put_events _ _ _ _ _ _ A) as [[E N]|[r0 [nk [Er [Kr [_ E]]]]]].
    + rewrite E, (N r eq_refl). reflexivity.
    + inversion Er; subst r0. rewrite E, Kr, <- app_assoc. reflexivity.
Qed.

Lemma apply_delete_events cb w d : w_events (fst (apply_delete cb w d)) = w_events w.
Proof.
  unfold apply_delete. destruct (check_expected (w_kv w) (d_key d) (d_expected d)) as [[e|]| |x]; try reflexivity.
  destruct (cb_on_delete cb (w_kv w) (d_key d)); reflexivity.
Qed.

Lemma apply_deletes_events cb ds : forall w, w_events (fst (apply_deletes cb w ds)) = w_events w.
Proof.
  induction ds as [|d tl IH]; simpl; intro w; [reflexivity|].
  pose proof (apply_delete_events cb w d) as E. destruct (apply_delete cb w d) as [w1 [r|e]]; simpl in *; [|exact E].
  pose proof (IH w1) as E2. destruct (apply_deletes cb w1 tl) as [w2 [rs|e]]; simpl in *; congruence.
Qed.

Lemma apply_delete_range_events cb t w r : w_events (fst (apply_delete_range cb t w r)) = w_events w.
Proof. rewrite apply_delete_range_unfold. destruct (scan_callbacks cb (w_kv w) _); reflexivity. Qed.

Lemma apply_ranges_events cb t rs : forall w, w_events (fst (apply_ranges cb t w rs)) = w_events w.
Proof.
  induction rs as [|r tl IH]; simpl; intro w; [reflexivity|].
  pose proof (apply_delete_range_events cb t w r) as E. destruct (apply_delete_range cb t w r) as [w1 [x|e]]; simpl in *; [|exact E].
  pose proof (IH w1) as E2. destruct (apply_ranges cb t w1 tl) as [w2 [xs|e]]; simpl in *; congruence.
Qed.

(* a committed batch tells the waiters exactly the keys reported in its put responses (each of which was
   stored when its put was applied: [put_fresh]), in order, after the commit *)
Theorem events_committed cb cfg st req o ts st' resp evs :
  process_write_full cb cfg st req o ts = (st', Ok resp, evs) -> evs = seq_events (w_puts req) (wr_puts resp).
Proof.
  unfold process_write_full, apply_write_request.
  destruct (apply_puts cb (start_write st) (w_puts req) ts) as [w1 [prs|e]] eqn:A; [|intro H; inversion H].
  pose proof (apply_puts_events _ _ _ _ _ _ A) as E1. simpl in E1.
  pose proof (apply_deletes_events cb (w_dels req) w1) as E2.
  destruct (apply_deletes cb w1 (w_dels req)) as [w2 [drs|e]]; [|intro H; inversion H].
  pose proof (apply_ranges_events cb (cfg_threshold cfg) (w_ranges req) w2) as E3.
  destruct (apply_ranges cb (cfg_threshold cfg) w2 (w_ranges req)) as [w3 [rrs|e]]; [|intro H; inversion H].
  intro H. inversion H; subst. simpl in *. congruence.
Qed.

(* ... whether or not notifications are enabled on the shard: the sequence updates of a committed batch do not depend on
   db.notificationsEnabled (the flag only gates the notification batch and the notifications tracker) *)
Corollary events_committed_notifications_disabled cb cfg st req o ts st' resp evs :
  st_notif st = false ->
  process_write_full cb cfg st req o ts = (st', Ok resp, evs) -> evs = seq_events (w_puts req) (wr_puts resp).
Proof. intros _. apply events_committed. Qed.

(* a failed batch tells the waiters nothing *)
Theorem events_none_on_failure cb cfg st req o ts st' e evs :
  process_write_full cb cfg st req o ts = (st', Err e, evs) -> evs = [].
Proof.
  unfold process_write_full.
  destruct (apply_write_request cb (cfg_threshold cfg) (start_write st) req ts) as [w [r|x]]; intro H; inversion H; reflexivity.
Qed.
