(* The read wrappers of kv_pebble.go return what the sorted reference returns (C11, lookup part):
   given that the engine shows the live entries in comparer order through bounded iterators,
   Get(EQUAL/FLOOR/CEILING/LOWER/HIGHER), RangeScan and FindLower equal sm_get / sm_floor / ... *)
From Coq Require Import List NArith Bool Lia.
From Oxia.KeyOrder Require Import Model Proofs SortedMap KvModel.
Import ListNotations.

Lemma bytes_eqb_eq a b : bytes_eqb a b = true <-> a = b.
Proof. unfold bytes_eqb. rewrite <- bytes_cmp_eq. destruct (bytes_cmp a b); split; congruence. Qed.

Section KvProofs.
  Context {V : Type}.
  Implicit Types (m : smap V) (k : list N).

  Lemma sm_last_take_lt k m : sm_last (sm_take_lt k m) = sm_lower k m.
  Proof.
    induction m as [|[k' v] tl IH]; [reflexivity|].
    cbn [sm_take_lt sm_lower]. unfold key_ltb. destruct (cmp_slash k' k); try reflexivity.
    cbn [sm_last]. rewrite IH. reflexivity.
  Qed.

  (* nothing is below the empty key *)
  Lemma sm_lower_nil m : sm_lower [] m = None.
  Proof.
    destruct m as [|[k' v] tl]; [reflexivity|]. cbn [sm_lower].
    pose proof (cmp_slash_nil_l k') as H. rewrite (cmp_slash_antisym [] k').
    destruct (cmp_slash [] k'); cbn [CompOpp]; try reflexivity. congruence.
  Qed.

  Lemma kv_get_lower_ok k m : kv_get_lower k m = sm_lower k m.
  Proof.
    unfold kv_get_lower. destruct k as [|x k'].
    - symmetry. apply sm_lower_nil.
    - unfold it_visible, sm_range_opt. apply sm_last_take_lt.
  Qed.

  (* history (O-24): without the guard, LOWER/FLOOR of the empty key returned the greatest stored key *)
  Lemma kv_get_lower_unguarded_nonempty k m : k <> [] -> kv_get_lower_unguarded k m = sm_lower k m.
  Proof.
    intros Hk. unfold kv_get_lower_unguarded. destruct k; [congruence|].
    unfold bound_of, it_visible, sm_range_opt. apply sm_last_take_lt.
  Qed.

  Lemma sm_floor_above k m : (forall e, In e m -> cmp_slash k (fst e) = Lt) -> sm_floor k m = None.
  Proof.
    destruct m as [|[k' v] tl]; [reflexivity|]. intros H.
    specialize (H (k', v) (or_introl eq_refl)). cbn [fst] in H.
    cbn [sm_floor]. apply cmp_slash_lt_gt in H. rewrite H. reflexivity.
  Qed.

  Lemma sm_floor_get_lower k m : sm_sorted m ->
    sm_floor k m = match sm_get k m with Some v => Some (k, v) | None => sm_lower k m end.
  Proof.
    induction m as [|[k' v'] tl IH]; intros Hs; [reflexivity|].
    cbn [sm_floor sm_get sm_lower]. rewrite (cmp_slash_antisym k' k).
    destruct (cmp_slash k' k) eqn:E; cbn [CompOpp].
    - apply cmp_slash_eq in E; subst k'.
      rewrite sm_floor_above; [reflexivity|]. intros e He. eapply sm_sorted_head; eauto.
    - rewrite (IH (sm_sorted_tail _ _ Hs)). destruct (sm_get k tl); reflexivity.
    - reflexivity.
  Qed.

  Lemma kv_get_floor_ok k m : sm_sorted m -> kv_get_floor k m = sm_floor k m.
  Proof.
    intros Hs. unfold kv_get_floor. rewrite kv_get_lower_ok, sm_floor_get_lower by assumption. reflexivity.
  Qed.

  Lemma kv_get_ceiling_ok k m : kv_get_ceiling k m = sm_ceiling k m.
  Proof.
    unfold kv_get_ceiling, it_visible, sm_range_opt.
    induction m as [|[k' v] tl IH]; [reflexivity|].
    cbn [sm_drop_lt sm_ceiling]. unfold key_ltb. destruct (cmp_slash k' k); try reflexivity. exact IH.
  Qed.

  Lemma sm_higher_above k m : (forall e, In e m -> cmp_slash k (fst e) = Lt) -> sm_higher k m = sm_first m.
  Proof.
    destruct m as [|[k' v] tl]; [reflexivity|]. intros H.
    specialize (H (k', v) (or_introl eq_refl)). cbn [fst] in H.
    cbn [sm_higher]. apply cmp_slash_lt_gt in H. rewrite H. reflexivity.
  Qed.

  Lemma kv_get_higher_ok k m : sm_sorted m -> kv_get_higher k m = sm_higher k m.
  Proof.
    unfold kv_get_higher, it_visible, sm_range_opt.
    induction m as [|[k' v] tl IH]; intros Hs; [reflexivity|].
    cbn [sm_drop_lt sm_higher]. unfold key_ltb. destruct (cmp_slash k' k) eqn:E.
    - apply cmp_slash_eq in E; subst k'.
      rewrite (proj2 (bytes_eqb_eq k k) eq_refl).
      symmetry. apply sm_higher_above. intros e He. eapply sm_sorted_head; eauto.
    - apply IH. eapply sm_sorted_tail; eauto.
    - destruct (bytes_eqb k' k) eqn:Eb; [|reflexivity].
      apply bytes_eqb_eq in Eb; subst k'. rewrite cmp_slash_refl in E. discriminate.
  Qed.

  Lemma kv_get_equal_ok k m r : sm_sorted m ->
    (kv_get_equal k m = Some r <-> fst r = k /\ In r m).
  Proof.
    intros Hs. unfold kv_get_equal. destruct r as [k' v']. cbn [fst]. split.
    - destruct (sm_get k m) as [v|] eqn:E; [|discriminate].
      intros H; inversion H; subst. split; [reflexivity|]. apply sm_get_in; assumption.
    - intros [-> Hin]. apply (sm_get_in k v' m Hs) in Hin. rewrite Hin. reflexivity.
  Qed.

  Lemma kv_find_lower_ok k m :
    kv_find_lower k m = match sm_lower k m with Some r => Some (fst r) | None => None end.
  Proof. unfold kv_find_lower. rewrite kv_get_lower_ok. destruct (sm_lower k m) as [[k' v]|]; reflexivity. Qed.

  (* range scans: exactly the stored entries within the bounds, in order; "" as a bound = no bound *)
  Lemma kv_range_scan_ok lo hi m : sm_sorted m ->
    kv_range_scan lo hi m =
    filter (fun e => match lo with [] => true | _ => key_leb lo (fst e) end &&
                     match hi with [] => true | _ => key_ltb (fst e) hi end) m.
  Proof.
    intros Hs. unfold kv_range_scan, it_visible. rewrite sm_range_opt_char by assumption.
    destruct lo, hi; reflexivity.
  Qed.

  (* the empty lower bound is not a special case: "" is the least key *)
  Lemma kv_range_scan_lower_empty (e : list N * V) : key_leb [] (fst e) = true.
  Proof. apply key_leb_le, cmp_slash_nil_l. Qed.

  Theorem point_lookups_match_reference m : sm_sorted m ->
    (forall k r, kv_get_equal k m = Some r <-> fst r = k /\ In r m) /\
    (forall k, kv_get_floor k m = sm_floor k m) /\
    (forall k, kv_get_ceiling k m = sm_ceiling k m) /\
    (forall k, kv_get_lower k m = sm_lower k m) /\
    (forall k, kv_get_higher k m = sm_higher k m) /\
    (forall lo hi, lo <> [] -> hi <> [] -> kv_range_scan lo hi m = sm_range lo hi m) /\
    (forall lo hi, kv_range_scan_reverse lo hi m = rev (kv_range_scan lo hi m)).
  Proof.
    intros Hs.
    split; [intros k r; apply kv_get_equal_ok, Hs|].
    split; [intros k; apply kv_get_floor_ok, Hs|].
    split; [intros k; apply kv_get_ceiling_ok|].
    split; [intros k; apply kv_get_lower_ok|].
    split; [intros k; apply kv_get_higher_ok, Hs|].
    split; [|reflexivity].
    intros lo hi Hlo Hhi. unfold kv_range_scan, it_visible, sm_range.
    destruct lo; [congruence|]. destruct hi; [congruence|]. reflexivity.
  Qed.
End KvProofs.

Lemma kv_get_lower_unguarded_refuted :
  exists m : smap N, sm_sorted m /\ kv_get_lower_unguarded [] m = Some ([98;47;99]%N, 2%N) /\ sm_lower [] m = None.
Proof.
  exists [([97%N], 1%N); ([98;47;99]%N, 2%N)].
  split; [apply sm_sortedb_spec; reflexivity|]. split; reflexivity.
Qed.

(* together with the characterisations of SortedMap.v: e.g. FLOOR returns the max of the stored keys <= k *)
Corollary kv_get_floor_char {V} (m : smap V) k : sm_sorted m ->
  kv_get_floor k m = max_key (filter (fun e => key_leb (fst e) k) m).
Proof. intros Hs. rewrite kv_get_floor_ok by assumption. apply sm_floor_char, Hs. Qed.
Corollary kv_get_ceiling_char {V} (m : smap V) k : sm_sorted m ->
  kv_get_ceiling k m = min_key (filter (fun e => key_leb k (fst e)) m).
Proof. intros Hs. rewrite kv_get_ceiling_ok. apply sm_ceiling_char, Hs. Qed.
Corollary kv_get_lower_char {V} (m : smap V) k : sm_sorted m ->
  kv_get_lower k m = max_key (filter (fun e => key_ltb (fst e) k) m).
Proof. intros Hs. rewrite kv_get_lower_ok. apply sm_lower_char, Hs. Qed.
Corollary kv_get_higher_char {V} (m : smap V) k : sm_sorted m ->
  kv_get_higher k m = min_key (filter (fun e => key_ltb k (fst e)) m).
Proof. intros Hs. rewrite kv_get_higher_ok by assumption. apply sm_higher_char, Hs. Qed.

Example kv_lookups_example :
  let m := sm_put [97;47;98]%N 3%N (sm_put [97;46]%N 2%N (sm_put [97;48]%N 4%N [])) in
  kv_get_floor [97;47]%N m = Some ([97;48]%N, 4%N) /\
  kv_get_higher [97;48]%N m = Some ([97;47;98]%N, 3%N) /\
  kv_get_ceiling [97;47;99]%N m = None /\
  sm_keys (kv_range_scan [] [] m) = [[97;46]; [97;48]; [97;47;98]]%N.
Proof. vm_compute. repeat split; reflexivity. Qed.
