(* Model of the read wrappers of server/kv/kv_pebble.go over an abstract Pebble iterator.
   The engine is abstracted as a strictly sorted association list [m] of the live entries
   (Pebble as an ordered map under its comparer: trusted, tested by the kvengine leg); an iterator
   opened with IterOptions{LowerBound: lb, UpperBound: ub} walks [it_visible lb ub m]
   (lower bound inclusive, upper bound exclusive, a nil bound is no bound). *)
From Coq Require Import List NArith Bool.
From Oxia.KeyOrder Require Import Model SortedMap.
Import ListNotations.

(* Go string equality *)
Definition bytes_eqb (a b : list N) : bool := match bytes_cmp a b with Eq => true | _ => false end.

Section Kv.
  Context {V : Type}.

  Definition it_visible (lb ub : option (list N)) (m : smap V) : smap V := sm_range_opt lb ub m.

  (* Pebble.Get(key, ComparisonEqual): db.Get; the returned key is the argument *)
  Definition kv_get_equal (k : list N) (m : smap V) : option (list N * V) :=
    match sm_get k m with Some v => Some (k, v) | None => None end.

  (* RangeScan / KeyRangeScan / KeyRangeScanReverse: an empty string bound means "no bound" *)
  Definition bound_of (k : list N) : option (list N) := match k with [] => None | _ :: _ => Some k end.

  (* getLower: not found for the empty key (nothing sorts before it; added with the repair of O-24),
     otherwise NewIter{UpperBound: key}; it.Last() *)
  Definition kv_get_lower (k : list N) (m : smap V) : option (list N * V) :=
    match k with
    | [] => None
    | _ :: _ => sm_last (it_visible None (Some k) m)
    end.

  (* getLower before the repair: []byte("") handed to Pebble as upper bound.  A freshly allocated
     iterator copies the bound with append(nil, bound...), which is nil for an empty bound, i.e. "no bound"
     (a pooled iterator with a retained buffer keeps it as an empty, effective bound: the outcome depended
     on the state of a sync.Pool).  This is the fresh-iterator reading. *)
  Definition kv_get_lower_unguarded (k : list N) (m : smap V) : option (list N * V) :=
    sm_last (it_visible None (bound_of k) m).

  (* getFloor: db.Get(key), and when that is not found, getLower(key) *)
  Definition kv_get_floor (k : list N) (m : smap V) : option (list N * V) :=
    match sm_get k m with
    | Some v => Some (k, v)
    | None => kv_get_lower k m
    end.

  (* getCeiling: NewIter{LowerBound: key}; it.First() *)
  Definition kv_get_ceiling (k : list N) (m : smap V) : option (list N * V) :=
    sm_first (it_visible (Some k) None m).

  (* getHigher: NewIter{LowerBound: key}; it.First(); if it.Key() == key then it.Next() *)
  Definition kv_get_higher (k : list N) (m : smap V) : option (list N * V) :=
    match it_visible (Some k) None m with
    | [] => None
    | (k', v) :: tl => if bytes_eqb k' k then sm_first tl else Some (k', v)
    end.

  Definition kv_range_scan (lo hi : list N) (m : smap V) : smap V := it_visible (bound_of lo) (bound_of hi) m.
  Definition kv_range_scan_reverse (lo hi : list N) (m : smap V) : smap V := rev (kv_range_scan lo hi m).

  (* PebbleBatch.FindLower: NewIter{UpperBound: key}; Last(); only the key is returned *)
  Definition kv_find_lower (k : list N) (m : smap V) : option (list N) :=
    match kv_get_lower k m with Some (k', _) => Some k' | None => None end.
End Kv.
