(* The response batcher preserves order and multiplicity: the concatenation of the flushed batches is the input. *)
From Coq Require Import List NArith Bool Lia.
From Oxia.KeyOrder Require Import BatchModel.
Import ListNotations.

Section BatchProofs.
  Context {A : Type}.
  Variables (max_count budget : N) (size : A -> N).

  Lemma batch_run_concat cont total l :
    concat (batch_run max_count budget size false cont total l) = cont ++ l.
  Proof.
    revert cont total; induction l as [|t l IH]; intros cont total; cbn [batch_run].
    - destruct cont; cbn; rewrite ?app_nil_r; reflexivity.
    - destruct (_ || _).
      + cbn [concat]. rewrite IH. cbn [app]. rewrite <- app_assoc. reflexivity.
      + rewrite IH, <- app_assoc. reflexivity.
  Qed.

  Theorem batch_stream_concat l : concat (batch_stream max_count budget size l) = l.
  Proof. unfold batch_stream. apply batch_run_concat. Qed.

  (* no empty message is ever sent *)
  Lemma batch_run_nonempty e cont total l :
    Forall (fun b => b <> []) (batch_run max_count budget size e cont total l).
  Proof.
    revert cont total; induction l as [|t l IH]; intros cont total; cbn [batch_run].
    - destruct e; [constructor|]. destruct cont; constructor; [discriminate|constructor].
    - destruct (_ || _); [|apply IH].
      constructor; [|apply IH]. destruct cont; discriminate.
  Qed.

  Theorem batch_stream_nonempty l : Forall (fun b => b <> []) (batch_stream max_count budget size l).
  Proof. apply batch_run_nonempty. Qed.

  (* when the stream is completed with an error, what was sent is a prefix of the input, in order *)
  Lemma batch_run_failed_prefix cont total l :
    exists rest, concat (batch_run max_count budget size true cont total l) ++ rest = cont ++ l.
  Proof.
    revert cont total; induction l as [|t l IH]; intros cont total; cbn [batch_run].
    - exists cont. rewrite app_nil_r. reflexivity.
    - destruct (_ || _).
      + destruct (IH [] 0%N) as [rest Hr]. exists rest. cbn [concat]. rewrite <- !app_assoc, Hr. reflexivity.
      + destruct (IH (cont ++ [t]) (total + size t)%N) as [rest Hr]. exists rest. rewrite Hr, <- app_assoc. reflexivity.
  Qed.

  Theorem batch_stream_failed_prefix l :
    exists rest, concat (batch_stream_failed max_count budget size l) ++ rest = l.
  Proof. unfold batch_stream_failed. apply (batch_run_failed_prefix [] 0%N l). Qed.

  (* a message exceeds the budget by less than its last item: without that item it is below the budget *)
  Lemma batch_run_budget e cont total l :
    total = fold_right (fun x s => (size x + s)%N) 0%N cont -> (cont <> [] -> (total < budget)%N) ->
    Forall (fun b => (fold_right (fun x s => (size x + s)%N) 0%N (removelast b) < budget)%N \/ removelast b = [])
           (batch_run max_count budget size e cont total l).
  Proof.
    revert cont total; induction l as [|t l IH]; intros cont total Ht Hb; cbn [batch_run].
    - destruct e; [constructor|]. destruct cont as [|c cont]; constructor; [|constructor].
      left. specialize (Hb ltac:(discriminate)). subst total.
      assert (G : forall (q : list A), (fold_right (fun x s => (size x + s)%N) 0%N (removelast q)
                                        <= fold_right (fun x s => (size x + s)%N) 0%N q)%N).
      { intros q. induction q as [|a [|b q] IHl]; cbn in *; lia. }
      specialize (G (c :: cont)). lia.
    - assert (Hsum : forall (c : list A) x, fold_right (fun x s => (size x + s)%N) 0%N (c ++ [x]) =
                                            (fold_right (fun x s => (size x + s)%N) 0%N c + size x)%N).
      { induction c as [|a c IHc]; intros x; cbn; [lia|]. rewrite IHc. lia. }
      destruct (_ || _) eqn:E.
      + constructor; [|apply IH; [reflexivity|congruence]].
        rewrite removelast_last. destruct cont; [right; reflexivity|left].
        subst total. apply Hb. discriminate.
      + apply IH.
        * rewrite Hsum. subst total. reflexivity.
        * intros _. apply orb_false_iff in E. destruct E as [_ E]. apply N.leb_gt in E. exact E.
  Qed.

  Theorem batch_stream_budget l :
    Forall (fun b => (fold_right (fun x s => (size x + s)%N) 0%N (removelast b) < budget)%N \/ removelast b = [])
           (batch_stream max_count budget size l).
  Proof. apply batch_run_budget; [reflexivity|congruence]. Qed.
End BatchProofs.

(* non-vacuity: budget 10, sizes 3 3 12 1 10 0 4 : a large item after small ones stays behind them *)
Example batch_stream_example :
  batch_stream 0%N 10%N (fun x : N * N => snd x)
    [(0,3);(1,3);(2,12);(3,1);(4,10);(5,0);(6,4)]%N
  = [[(0,3);(1,3);(2,12)]; [(3,1);(4,10)]; [(5,0);(6,4)]]%N.
Proof. vm_compute. reflexivity. Qed.
