(* Model of common/compare/compare_with_slash.go:CompareWithSlash.
   Bytes are [N] (values < 256 in every use; the definitions do not depend on that bound).
   The names [bytes_cmp], [split_slash], [cmp_slash] are used by other components (Db, Client): keep them stable. *)
From Coq Require Import List NArith Bool.
Import ListNotations.

Definition SLASH : N := 47%N.

(* bytes.Compare *)
Fixpoint bytes_cmp (a b : list N) : comparison :=
  match a, b with
  | [], [] => Eq
  | [], _ :: _ => Lt
  | _ :: _, [] => Gt
  | x :: a', y :: b' =>
      match N.compare x y with
      | Eq => bytes_cmp a' b'
      | c => c
      end
  end.

(* bytes.IndexByte(a, '/') together with the two slices a[:idx], a[idx+1:]; None when idx < 0 *)
Fixpoint split_slash (a : list N) : option (list N * list N) :=
  match a with
  | [] => None
  | x :: a' =>
      if N.eqb x SLASH then Some ([], a')
      else match split_slash a' with
           | Some (span, rest) => Some (x :: span, rest)
           | None => None
           end
  end.

(* The Go loop; every iteration that continues strictly shortens [a], so [S (length a)] iterations suffice. *)
Fixpoint cmp_slash_fuel (fuel : nat) (a b : list N) : comparison :=
  match fuel with
  | O => Eq
  | S f =>
      match a, b with
      | [], [] => Eq
      | [], _ :: _ => Lt
      | _ :: _, [] => Gt
      | _, _ =>
          match split_slash a, split_slash b with
          | None, None => bytes_cmp a b
          | None, Some _ => Lt
          | Some _, None => Gt
          | Some (sa, ra), Some (sb, rb) =>
              match bytes_cmp sa sb with
              | Eq => cmp_slash_fuel f ra rb
              | c => c
              end
          end
      end
  end.

Definition cmp_slash (a b : list N) : comparison := cmp_slash_fuel (S (length a)) a b.

Definition key_ltb (a b : list N) : bool := match cmp_slash a b with Lt => true | _ => false end.
Definition key_leb (a b : list N) : bool := match cmp_slash a b with Gt => false | _ => true end.
Definition key_eqb (a b : list N) : bool := match cmp_slash a b with Eq => true | _ => false end.
