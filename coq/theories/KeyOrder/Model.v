(* Model of common/compare/compare_with_slash.go:CompareWithSlash.
   Bytes are [N] (values < 256 in every use; the definitions do not depend on that bound).
   The names [bytes_cmp], [split_slash], [cmp_slash] are used by other components (Db, Client): keep them stable. *)
From Coq Require Import List NArith Bool.
Import ListNotations.

Definition SLASH : N := 47%N.

(* bytes.Compare *)
Fixpoint bytes_cmp (a b : list N) : comparison :=
  match a, b with
  | [], [] => Eq
  | [], _ :: _ => Lt
  | _ :: _, [] => Gt
  | x :: a', y :: b' =>
      match N.compare x y with
      | Eq => bytes_cmp a' b'
      | c => c
      end
  end.

(* bytes.IndexByte(a, '/') together with the two slices a[:idx], a[idx+1:]; None when idx < 0 *)
Fixpoint split_slash (a : list N) : option (list N * list N) :=
  match a with
  | [] => None
  | x :: a' =>
      if N.eqb x SLASH then Some ([], a')
      else match split_slash a' with
           | Some (span, rest) => Some (x :: span, rest)
           | None => None
           end
  end.

(* The Go loop; every iteration that continues strictly shortens [a], so [S (length a)] iterations suffice. *)
Fixpoint cmp_slash_fuel (fuel : nat) (a b : list N) : comparison :=
  match fuel with
  | O => Eq
  | S f =>
      match a, b with
      | [], [] => Eq
      | [], _ :: _ => Lt
      | _ :: _, [] => Gt
      | _, _ =>
          match split_slash a, split_slash b with
          | None, None => bytes_cmp a b
          | None, Some _ => Lt
          | Some _, None => Gt
          | Some (sa, ra), Some (sb, rb) =>
              match bytes_cmp sa sb with
              | Eq => cmp_slash_fuel f ra rb
              | c => c
              end
          end
      end
  end.

Definition cmp_slash (a b : list N) : comparison := cmp_slash_fuel (S (length a)) a b.

Definition key_ltb (a b : list N) : bool := match cmp_slash a b with Lt => true | _ => false end.
Definition key_leb (a b : list N) : bool := match cmp_slash a b with Gt => false | _ => true end.
Definition key_eqb (a b : list N) : bool := match cmp_slash a b with Eq => true | _ => false end.

(* ------------------------------------------------------------------ *)
(* The comparer members configured in server/kv/kv_pebble.go:OxiaSlashSpanComparer.
   [Compare] is [cmp_slash] above.  Byte arithmetic is explicit ([byte_inc] = Go's b++ on a uint8). *)

Definition U64MAX : N := 18446744073709551615%N.
Definition byte_inc (x : N) : N := N.modulo (x + 1) 256.

(* pebble.DefaultComparer.AbbreviatedKey: the first 8 bytes, big endian, zero padded on the right *)
Fixpoint be_pad (n : nat) (k : list N) (acc : N) : N :=
  match n with
  | O => acc
  | S n' =>
      match k with
      | [] => be_pad n' [] (acc * 256)
      | x :: k' => be_pad n' k' (acc * 256 + x)
      end
  end.
Definition default_abbreviated_key (k : list N) : N := be_pad 8 k 0.

(* compare.AbbreviatedKeyDisableSlash *)
Definition abbreviated_key (k : list N) : N :=
  match split_slash k with
  | Some _ => U64MAX
  | None => default_abbreviated_key k
  end.

(* base.SharedPrefixLen *)
Fixpoint shared_prefix_len (a b : list N) : nat :=
  match a, b with
  | x :: a', y :: b' => if N.eqb x y then S (shared_prefix_len a' b') else O
  | _, _ => O
  end.

(* "increment the first byte that is not 0xff and cut after it"; None when there is no such byte.
   This is the loop shared by DefaultComparer.Successor and the tail of DefaultComparer.Separator. *)
Fixpoint bump_first_non_ff (l : list N) : option (list N) :=
  match l with
  | [] => None
  | x :: l' =>
      if N.eqb x 255 then
        match bump_first_non_ff l' with
        | Some t => Some (x :: t)
        | None => None
        end
      else Some [byte_inc x]
  end.

(* pebble.DefaultComparer.Separator (dst = empty): what OxiaSlashSpanComparer configured before the
   repair of O-9.  Kept so that the refutation of its contract stays documented. *)
Definition bytewise_separator (a b : list N) : list N :=
  let i := shared_prefix_len a b in
  if Nat.leb (Nat.min (length a) (length b)) i then a
  else
    let ai := nth i a 0%N in
    let bi := nth i b 0%N in
    if N.leb bi ai then a
    else if Nat.ltb i (length b - 1) || N.ltb (byte_inc ai) bi then firstn i a ++ [byte_inc ai]
    else match bump_first_non_ff (skipn (S i) a) with
         | Some t => firstn (S i) a ++ t
         | None => a
         end.

(* pebble.DefaultComparer.Successor (dst = empty), likewise pre-repair *)
Definition bytewise_successor (a : list N) : list N :=
  match bump_first_non_ff a with
  | Some t => t
  | None => a
  end.

(* The members as configured now (after the repair): Separator and Successor return the key itself. *)
Definition separator (a b : list N) : list N := a.
Definition successor (a : list N) : list N := a.
(* pebble.DefaultComparer.ImmediateSuccessor *)
Definition immediate_successor (a : list N) : list N := a ++ [0%N].
(* pebble.DefaultComparer.Split is nil: no prefix extraction is configured *)
Definition split_configured : bool := false.

(* base.InternalKey.Separator / InternalKey.Successor: the sstable writer keeps the last key [a] of the
   block unless the candidate is not longer than [a] and sorts strictly after it. *)
Definition guard (a s : list N) : list N :=
  if Nat.leb (length s) (length a) && key_ltb a s then s else a.
Definition effective_sep_with (sep : list N -> list N -> list N) (a b : list N) : list N := guard a (sep a b).
Definition effective_succ_with (succ : list N -> list N) (a : list N) : list N := guard a (succ a).
Definition effective_sep (a b : list N) : list N := effective_sep_with separator a b.
Definition effective_succ (a : list N) : list N := effective_succ_with successor a.

(* ------------------------------------------------------------------ *)
(* Order in which the client's ResultHeap (oxia/results_heap.go, Less = CompareWithSlash < 0) pops keys *)
Fixpoint key_insert (k : list N) (l : list (list N)) : list (list N) :=
  match l with
  | [] => [k]
  | x :: tl => if key_leb k x then k :: l else x :: key_insert k tl
  end.
Definition key_sort (l : list (list N)) : list (list N) := fold_right key_insert [] l.
