(* Model of common/concurrent/batch_once.go:BatchStreamOnce, the batcher between the engine's sorted iterator and the
   client for the public Read / List / RangeScan RPCs (server/public_rpc_server.go, budget 2 MiB, maxBatchCount 0).
   An item is appended to the container, its size added to the running total; when the count limit (if not 0) or the
   byte budget is reached the whole container is flushed as one message and both are reset.  OnComplete(nil) flushes
   what is left (if anything); OnComplete(err) reports the error and drops the rest.  Flush errors are not modelled
   (the stream is torn down by the caller). *)
From Coq Require Import List NArith Bool.
Import ListNotations.

Section Batch.
  Context {A : Type}.
  Variable max_count : N.      (* maxBatchCount, 0 = unlimited *)
  Variable budget : N.         (* maxBatchBytes *)
  Variable size : A -> N.      (* getBytes *)

  (* OnNext for every element of [l], then OnComplete; [cont]/[total] are b.container / b.totalBatchBytes *)
  Fixpoint batch_run (complete_with_error : bool) (cont : list A) (total : N) (l : list A) : list (list A) :=
    match l with
    | [] =>
        if complete_with_error then []
        else match cont with [] => [] | _ :: _ => [cont] end
    | t :: l' =>
        let cont' := cont ++ [t] in
        let total' := (total + size t)%N in
        if (negb (N.eqb max_count 0) && N.leb max_count (N.of_nat (length cont'))) || N.leb budget total'
        then cont' :: batch_run complete_with_error [] 0%N l'
        else batch_run complete_with_error cont' total' l'
    end.

  Definition batch_stream (l : list A) : list (list A) := batch_run false [] 0%N l.
  Definition batch_stream_failed (l : list A) : list (list A) := batch_run true [] 0%N l.
End Batch.
