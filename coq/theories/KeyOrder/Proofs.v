(* C11, order part: CompareWithSlash is the lexicographic order on slash-segments, hence a strict total
   order consistent with equality, for ALL byte strings; contracts of the comparer members that
   Pebble relies on (Separator / Successor / AbbreviatedKey / ImmediateSuccessor). *)
From Coq Require Import List NArith Bool Lia Arith.
From Oxia.KeyOrder Require Import Model.
Import ListNotations.
Local Open Scope N_scope.

(* ------------------------------------------------------------------ *)
(* Lexicographic lifting of a total-order comparison                   *)
Section Lex.
  Variable A : Type.
  Variable c : A -> A -> comparison.
  Hypothesis c_eq : forall x y, c x y = Eq <-> x = y.
  Hypothesis c_anti : forall x y, c y x = CompOpp (c x y).
  Hypothesis c_trans : forall x y z, c x y = Lt -> c y z = Lt -> c x z = Lt.

  Fixpoint lex (l1 l2 : list A) : comparison :=
    match l1, l2 with
    | [], [] => Eq
    | [], _ :: _ => Lt
    | _ :: _, [] => Gt
    | x :: l1', y :: l2' =>
        match c x y with
        | Eq => lex l1' l2'
        | r => r
        end
    end.

  Lemma lex_eq l1 l2 : lex l1 l2 = Eq <-> l1 = l2.
  Proof.
    revert l2; induction l1 as [|x l1 IH]; intros [|y l2]; cbn [lex]; split; intros H;
      try discriminate; try reflexivity.
    - destruct (c x y) eqn:E; try discriminate.
      apply c_eq in E. apply IH in H. congruence.
    - inversion H; subst. assert (E : c y y = Eq) by (apply c_eq; reflexivity).
      rewrite E. apply IH. reflexivity.
  Qed.

  Lemma lex_anti l1 l2 : lex l2 l1 = CompOpp (lex l1 l2).
  Proof.
    revert l2; induction l1 as [|x l1 IH]; intros [|y l2]; cbn [lex]; try reflexivity.
    rewrite (c_anti x y). destruct (c x y); cbn [CompOpp]; auto.
  Qed.

  Lemma lex_trans l1 l2 l3 : lex l1 l2 = Lt -> lex l2 l3 = Lt -> lex l1 l3 = Lt.
  Proof.
    revert l2 l3; induction l1 as [|x l1 IH]; intros [|y l2] [|z l3]; cbn [lex]; intros H1 H2;
      try discriminate; try reflexivity.
    destruct (c x y) eqn:Exy; try discriminate; destruct (c y z) eqn:Eyz; try discriminate.
    - apply c_eq in Exy; subst y. rewrite Eyz. eapply IH; eauto.
    - apply c_eq in Exy; subst y. rewrite Eyz. reflexivity.
    - apply c_eq in Eyz; subst z. rewrite Exy. reflexivity.
    - rewrite (c_trans _ _ _ Exy Eyz). reflexivity.
  Qed.
End Lex.

(* ------------------------------------------------------------------ *)
(* bytes.Compare is the lexicographic order on bytes                    *)

Lemma bytes_cmp_lex a b : bytes_cmp a b = lex N N.compare a b.
Proof.
  (* the two fixpoints have the same body *)
  reflexivity.
Qed.

Lemma Ncompare_trans x y z : N.compare x y = Lt -> N.compare y z = Lt -> N.compare x z = Lt.
Proof. rewrite !N.compare_lt_iff. apply N.lt_trans. Qed.

Lemma bytes_cmp_eq a b : bytes_cmp a b = Eq <-> a = b.
Proof. rewrite bytes_cmp_lex. apply lex_eq. apply N.compare_eq_iff. Qed.

Lemma bytes_cmp_anti a b : bytes_cmp b a = CompOpp (bytes_cmp a b).
Proof. rewrite !bytes_cmp_lex. apply lex_anti. apply N.compare_antisym. Qed.

Lemma bytes_cmp_trans a b c : bytes_cmp a b = Lt -> bytes_cmp b c = Lt -> bytes_cmp a c = Lt.
Proof.
  rewrite !bytes_cmp_lex. apply lex_trans.
  - apply N.compare_eq_iff.
  - apply Ncompare_trans.
Qed.

(* ------------------------------------------------------------------ *)
(* Specification: key = s1/.../sn  |->  [(true,s1);...;(true,s_{n-1});(false,sn)],
   ordered lexicographically, elements by (flag, bytes) with false < true.          *)

Fixpoint enc (a : list N) : list (bool * list N) :=
  match a with
  | [] => [(false, [])]
  | x :: a' =>
      if N.eqb x SLASH then (true, []) :: enc a'
      else match enc a' with
           | (f, s) :: tl => (f, x :: s) :: tl
           | [] => [(false, [x])]
           end
  end.

Definition seg_cmp (x y : bool * list N) : comparison :=
  match fst x, fst y with
  | false, true => Lt
  | true, false => Gt
  | _, _ => bytes_cmp (snd x) (snd y)
  end.

Definition lex_cmp : list (bool * list N) -> list (bool * list N) -> comparison := lex _ seg_cmp.

Definition spec_cmp (a b : list N) : comparison := lex_cmp (enc a) (enc b).

Lemma seg_cmp_eq x y : seg_cmp x y = Eq <-> x = y.
Proof.
  destruct x as [[|] s], y as [[|] t]; unfold seg_cmp; cbn [fst snd]; split; intros H;
    try discriminate; try (apply bytes_cmp_eq in H; congruence);
    try (inversion H; subst; apply bytes_cmp_eq; reflexivity).
Qed.

Lemma seg_cmp_anti x y : seg_cmp y x = CompOpp (seg_cmp x y).
Proof.
  destruct x as [[|] s], y as [[|] t]; unfold seg_cmp; cbn [fst snd]; try reflexivity;
    apply bytes_cmp_anti.
Qed.

Lemma seg_cmp_trans x y z : seg_cmp x y = Lt -> seg_cmp y z = Lt -> seg_cmp x z = Lt.
Proof.
  destruct x as [[|] s], y as [[|] t], z as [[|] u]; unfold seg_cmp; cbn [fst snd]; intros H1 H2;
    try discriminate; try reflexivity; eapply bytes_cmp_trans; eauto.
Qed.

Lemma lex_cmp_eq l1 l2 : lex_cmp l1 l2 = Eq <-> l1 = l2.
Proof. apply lex_eq, seg_cmp_eq. Qed.
Lemma lex_cmp_anti l1 l2 : lex_cmp l2 l1 = CompOpp (lex_cmp l1 l2).
Proof. apply lex_anti, seg_cmp_anti. Qed.
Lemma lex_cmp_trans l1 l2 l3 : lex_cmp l1 l2 = Lt -> lex_cmp l2 l3 = Lt -> lex_cmp l1 l3 = Lt.
Proof. apply lex_trans; [apply seg_cmp_eq | apply seg_cmp_trans]. Qed.

(* --- enc and split_slash *)

Lemma enc_nonnil a : enc a <> [].
Proof.
  destruct a as [|x a]; cbn [enc]; [discriminate|].
  destruct (N.eqb x SLASH); [discriminate|].
  destruct (enc a) as [|[f s] tl]; discriminate.
Qed.

Lemma enc_no_slash a : split_slash a = None -> enc a = [(false, a)].
Proof.
  induction a as [|x a IH]; cbn [split_slash enc]; intros H; [reflexivity|].
  destruct (N.eqb x SLASH); [discriminate|].
  destruct (split_slash a) as [[s r]|]; [discriminate|].
  rewrite IH by reflexivity. reflexivity.
Qed.

Lemma enc_slash a : forall s r, split_slash a = Some (s, r) -> enc a = (true, s) :: enc r.
Proof.
  induction a as [|x a IH]; cbn [split_slash enc]; intros s r H; [discriminate|].
  destruct (N.eqb x SLASH).
  - inversion H; subst. reflexivity.
  - destruct (split_slash a) as [[s' r']|]; [|discriminate].
    inversion H; subst. rewrite (IH s' r eq_refl). reflexivity.
Qed.

Lemma split_slash_length a : forall s r, split_slash a = Some (s, r) -> (length r < length a)%nat.
Proof.
  induction a as [|x a IH]; cbn [split_slash]; intros s r H; [discriminate|].
  destruct (N.eqb x SLASH).
  - inversion H; subst. cbn [length]. lia.
  - destruct (split_slash a) as [[s' r']|]; [|discriminate].
    inversion H; subst. specialize (IH s' r eq_refl). cbn [length]. lia.
Qed.

(* the encoding is injective: joining the segments with slashes gives the key back *)
Fixpoint dec (l : list (bool * list N)) : list N :=
  match l with
  | [] => []
  | (_, s) :: tl =>
      match tl with
      | [] => s
      | _ :: _ => s ++ SLASH :: dec tl
      end
  end.

Lemma dec_enc a : dec (enc a) = a.
Proof.
  induction a as [|x a IH]; [reflexivity|].
  cbn [enc]. destruct (N.eqb x SLASH) eqn:E.
  - apply N.eqb_eq in E; subst x.
    pose proof (enc_nonnil a) as Hn.
    cbn [dec]. destruct (enc a) as [|e tl] eqn:Ea; [congruence|].
    rewrite IH. reflexivity.
  - pose proof (enc_nonnil a) as Hn.
    destruct (enc a) as [|[f s] tl] eqn:Ea; [congruence|].
    cbn [dec] in IH |- *. destruct tl; rewrite <- IH; reflexivity.
Qed.

Lemma enc_inj a b : enc a = enc b -> a = b.
Proof. intros H. rewrite <- (dec_enc a), <- (dec_enc b), H. reflexivity. Qed.

(* --- the Go loop computes the specification order *)

Lemma cmp_slash_fuel_spec : forall fuel a b,
  (length a < fuel)%nat -> cmp_slash_fuel fuel a b = spec_cmp a b.
Proof.
  unfold spec_cmp, lex_cmp.
  induction fuel as [|fuel IH]; intros a b Hl; [lia|].
  destruct a as [|x a'].
  - destruct b as [|y b']; [reflexivity|].
    cbn [cmp_slash_fuel].
    destruct (split_slash (y :: b')) as [[s r]|] eqn:Eb.
    + rewrite (enc_slash _ _ _ Eb). reflexivity.
    + rewrite (enc_no_slash _ Eb). reflexivity.
  - destruct b as [|y b'].
    + cbn [cmp_slash_fuel].
      destruct (split_slash (x :: a')) as [[s r]|] eqn:Ea.
      * rewrite (enc_slash _ _ _ Ea). reflexivity.
      * rewrite (enc_no_slash _ Ea). reflexivity.
    + cbn [cmp_slash_fuel].
      destruct (split_slash (x :: a')) as [[sa ra]|] eqn:Ea;
        destruct (split_slash (y :: b')) as [[sb rb]|] eqn:Eb.
      * rewrite (enc_slash _ _ _ Ea), (enc_slash _ _ _ Eb).
        cbn [lex]. unfold seg_cmp at 1; cbn [fst snd].
        destruct (bytes_cmp sa sb); try reflexivity.
        apply IH. pose proof (split_slash_length _ _ _ Ea). lia.
      * rewrite (enc_slash _ _ _ Ea), (enc_no_slash _ Eb). reflexivity.
      * rewrite (enc_no_slash _ Ea), (enc_slash _ _ _ Eb). reflexivity.
      * rewrite (enc_no_slash _ Ea), (enc_no_slash _ Eb).
        cbn [lex]. unfold seg_cmp; cbn [fst snd].
        destruct (bytes_cmp (x :: a') (y :: b')); reflexivity.
Qed.

Theorem cmp_slash_spec a b : cmp_slash a b = spec_cmp a b.
Proof. unfold cmp_slash. apply cmp_slash_fuel_spec. lia. Qed.

(* ------------------------------------------------------------------ *)
(* Total order laws, for all byte strings                               *)

Theorem cmp_slash_eq a b : cmp_slash a b = Eq <-> a = b.
Proof.
  rewrite cmp_slash_spec. unfold spec_cmp. rewrite lex_cmp_eq. split.
  - apply enc_inj.
  - congruence.
Qed.

Theorem cmp_slash_antisym a b : cmp_slash b a = CompOpp (cmp_slash a b).
Proof. rewrite !cmp_slash_spec. apply lex_cmp_anti. Qed.

Theorem cmp_slash_trans a b c : cmp_slash a b = Lt -> cmp_slash b c = Lt -> cmp_slash a c = Lt.
Proof. rewrite !cmp_slash_spec. apply lex_cmp_trans. Qed.

Theorem cmp_slash_total_order :
  (forall a b, cmp_slash a b = Eq <-> a = b) /\
  (forall a b, cmp_slash b a = CompOpp (cmp_slash a b)) /\
  (forall a b c, cmp_slash a b = Lt -> cmp_slash b c = Lt -> cmp_slash a c = Lt).
Proof. split; [|split]; [apply cmp_slash_eq | apply cmp_slash_antisym | apply cmp_slash_trans]. Qed.

(* non-vacuity: keys with empty segments, trailing slashes, bytes next to '/' *)
Example total_order_example :
  cmp_slash [97;47] [97;47;47] = Lt /\ cmp_slash [97;47;47] [97;46;47;98] = Lt /\
  cmp_slash [97;47] [97;46;47;98] = Lt /\ cmp_slash [120;48] [120;47] = Lt.
Proof. vm_compute. repeat split. Qed.

(* derived forms used by the sorted map *)
Lemma cmp_slash_refl a : cmp_slash a a = Eq.
Proof. apply cmp_slash_eq. reflexivity. Qed.

Lemma cmp_slash_gt_lt a b : cmp_slash a b = Gt <-> cmp_slash b a = Lt.
Proof. rewrite (cmp_slash_antisym a b). destruct (cmp_slash a b); cbn; split; congruence. Qed.

Lemma cmp_slash_lt_gt a b : cmp_slash a b = Lt <-> cmp_slash b a = Gt.
Proof. rewrite (cmp_slash_antisym a b). destruct (cmp_slash a b); cbn; split; congruence. Qed.

Lemma cmp_slash_lt_le_trans a b c : cmp_slash a b = Lt -> cmp_slash b c <> Gt -> cmp_slash a c = Lt.
Proof.
  intros H1 H2. destruct (cmp_slash b c) eqn:E; [| |congruence].
  - apply cmp_slash_eq in E; subst. exact H1.
  - eapply cmp_slash_trans; eauto.
Qed.

Lemma cmp_slash_le_lt_trans a b c : cmp_slash a b <> Gt -> cmp_slash b c = Lt -> cmp_slash a c = Lt.
Proof.
  intros H1 H2. destruct (cmp_slash a b) eqn:E; [| |congruence].
  - apply cmp_slash_eq in E; subst. exact H2.
  - eapply cmp_slash_trans; eauto.
Qed.

Lemma cmp_slash_le_trans a b c : cmp_slash a b <> Gt -> cmp_slash b c <> Gt -> cmp_slash a c <> Gt.
Proof.
  intros H1 H2. destruct (cmp_slash a b) eqn:E; [| |congruence].
  - apply cmp_slash_eq in E; subst. exact H2.
  - rewrite (cmp_slash_lt_le_trans _ _ _ E H2). discriminate.
Qed.

Lemma cmp_slash_gt_trans a b c : cmp_slash a b = Gt -> cmp_slash b c = Gt -> cmp_slash a c = Gt.
Proof.
  rewrite !cmp_slash_gt_lt. intros H1 H2. eapply cmp_slash_trans; eauto.
Qed.

Lemma key_ltb_lt a b : key_ltb a b = true <-> cmp_slash a b = Lt.
Proof. unfold key_ltb. destruct (cmp_slash a b); split; congruence. Qed.
Lemma key_leb_le a b : key_leb a b = true <-> cmp_slash a b <> Gt.
Proof. unfold key_leb. destruct (cmp_slash a b); split; congruence. Qed.
Lemma key_eqb_eq a b : key_eqb a b = true <-> a = b.
Proof. rewrite <- cmp_slash_eq. unfold key_eqb. destruct (cmp_slash a b); split; congruence. Qed.
Lemma key_ltb_irrefl a : key_ltb a a = false.
Proof. unfold key_ltb. rewrite cmp_slash_refl. reflexivity. Qed.

(* the empty key is the minimum *)
Lemma cmp_slash_nil_l b : cmp_slash [] b <> Gt.
Proof. unfold cmp_slash. cbn. destruct b; discriminate. Qed.

(* ------------------------------------------------------------------ *)
(* Contracts of the comparer members                                    *)

(* Pebble's guard (InternalKey.Separator/Successor) protects the lower bound whatever the member returns *)
Lemma guard_lower a s : cmp_slash a (guard a s) <> Gt.
Proof.
  unfold guard. destruct (Nat.leb (length s) (length a) && key_ltb a s) eqn:E.
  - apply andb_true_iff in E. destruct E as [_ E]. apply key_ltb_lt in E. congruence.
  - rewrite cmp_slash_refl. discriminate.
Qed.

Lemma guard_cases a s : guard a s = a \/ (guard a s = s /\ cmp_slash a s = Lt /\ (length s <= length a)%nat).
Proof.
  unfold guard. destruct (Nat.leb (length s) (length a) && key_ltb a s) eqn:E; [right|left; reflexivity].
  apply andb_true_iff in E. destruct E as [E1 E2].
  apply Nat.leb_le in E1. apply key_ltb_lt in E2. auto.
Qed.

(* Separator, as documented by Pebble: a < b -> a <= sep a b < b *)
Theorem sep_contract a b :
  cmp_slash a b = Lt -> cmp_slash a (separator a b) <> Gt /\ cmp_slash (separator a b) b = Lt.
Proof. unfold separator. intros H. rewrite cmp_slash_refl. split; [discriminate|exact H]. Qed.

(* Successor: a <= succ a *)
Theorem succ_contract a : cmp_slash a (successor a) <> Gt.
Proof. unfold successor. rewrite cmp_slash_refl. discriminate. Qed.

(* what the sstable writer actually stores in the index block *)
Theorem eff_sep_contract a b :
  cmp_slash a b = Lt -> cmp_slash a (effective_sep a b) <> Gt /\ cmp_slash (effective_sep a b) b = Lt.
Proof.
  intros H. split; [apply guard_lower|].
  unfold effective_sep, effective_sep_with.
  destruct (guard_cases a (separator a b)) as [-> | [-> _]]; [exact H|].
  apply sep_contract, H.
Qed.

Theorem eff_succ_contract a : cmp_slash a (effective_succ a) <> Gt.
Proof. apply guard_lower. Qed.

(* any separator with a lawful upper bound gives a lawful index entry; the lower bound needs nothing *)
Lemma eff_sep_with_contract sep a b :
  (cmp_slash a b = Lt -> cmp_slash (sep a b) b = Lt) ->
  cmp_slash a b = Lt ->
  cmp_slash a (effective_sep_with sep a b) <> Gt /\ cmp_slash (effective_sep_with sep a b) b = Lt.
Proof.
  intros Hs H. split; [apply guard_lower|].
  unfold effective_sep_with. destruct (guard_cases a (sep a b)) as [-> | [-> _]]; auto.
Qed.

Example sep_contract_example :
  cmp_slash [120;46] [120;48] = Lt /\ effective_sep [120;46] [120;48] = [120;46].
Proof. vm_compute. split; reflexivity. Qed.

(* --- history (O-9): the bytewise members that were configured before the repair are NOT lawful
       for this order.  "a/b" < "c/a" but the bytewise separator "b" sorts before "a/b". *)
Theorem sep_contract_bytewise_refuted :
  exists a b, cmp_slash a b = Lt /\ cmp_slash a (bytewise_separator a b) = Gt.
Proof. exists [97;47;98], [99;47;97]. vm_compute. split; reflexivity. Qed.

(* the upper bound fails too, and Pebble's guard does not catch it: "x." < "x0", the bytewise
   separator is "x/" ('.'+1 = '/'), accepted by the guard, and "x/" > "x0". *)
Theorem eff_sep_contract_bytewise_refuted :
  exists a b, cmp_slash a b = Lt /\
              effective_sep_with bytewise_separator a b = [120;47] /\
              cmp_slash (effective_sep_with bytewise_separator a b) b = Gt.
Proof. exists [120;46], [120;48]. vm_compute. repeat split; reflexivity. Qed.

(* "./a": bytewise successor "/" sorts before "./a" *)
Theorem succ_contract_bytewise_refuted :
  exists a, cmp_slash a (bytewise_successor a) = Gt.
Proof. exists [46;47;97]. vm_compute. reflexivity. Qed.

(* ... but for Successor the guard alone restores the only bound that is required *)
Lemma eff_succ_bytewise_lower a : cmp_slash a (effective_succ_with bytewise_successor a) <> Gt.
Proof. apply guard_lower. Qed.

(* --- AbbreviatedKey: a strictly smaller abbreviation implies a strictly smaller key *)

Definition is_bytes (a : list N) : Prop := Forall (fun x => (x < 256)%N) a.

Lemma be_pad_acc n : forall k acc, be_pad n k acc = (acc * 256 ^ N.of_nat n + be_pad n k 0)%N.
Proof.
  induction n as [|n IH]; intros k acc.
  - cbn [be_pad]. change (N.of_nat 0) with 0%N. rewrite N.pow_0_r. lia.
  - rewrite Nat2N.inj_succ, N.pow_succ_r'. cbn [be_pad]. destruct k as [|x k].
    + rewrite (IH [] (acc * 256)%N), (IH [] (0 * 256)%N). lia.
    + rewrite (IH k (acc * 256 + x)%N), (IH k (0 * 256 + x)%N). lia.
Qed.

Lemma be_pad_bound n : forall k, is_bytes k -> (be_pad n k 0 < 256 ^ N.of_nat n)%N.
Proof.
  induction n as [|n IH]; intros k Hk.
  - cbn. lia.
  - rewrite Nat2N.inj_succ, N.pow_succ_r'. cbn [be_pad]. destruct k as [|x k].
    + rewrite be_pad_acc. specialize (IH [] (Forall_nil _)). lia.
    + inversion Hk; subst. rewrite be_pad_acc. specialize (IH k H2). nia.
Qed.

Lemma be_pad_nil n : be_pad n [] 0 = 0.
Proof. induction n as [|n IH]; [reflexivity|]. cbn [be_pad]. exact IH. Qed.

Lemma be_pad_lt n : forall a b, is_bytes a -> is_bytes b ->
  (be_pad n a 0 < be_pad n b 0)%N -> bytes_cmp a b = Lt.
Proof.
  induction n as [|n IH]; intros a b Ha Hb H.
  - cbn in H. lia.
  - cbn [be_pad] in H. destruct a as [|x a], b as [|y b]; cbn [bytes_cmp].
    + lia.
    + reflexivity.
    + rewrite (be_pad_acc n a), (be_pad_acc n []) in H.
      rewrite be_pad_nil in H. lia.
    + inversion Ha; subst. inversion Hb; subst.
      rewrite (be_pad_acc n a), (be_pad_acc n b) in H.
      pose proof (be_pad_bound n a H3). pose proof (be_pad_bound n b H5).
      destruct (N.compare x y) eqn:E.
      * apply N.compare_eq_iff in E; subst. apply IH; auto. lia.
      * reflexivity.
      * apply N.compare_gt_iff in E. exfalso.
        set (P := (256 ^ N.of_nat n)%N) in *.
        assert ((0 * 256 + y + 1) * P <= (0 * 256 + x) * P)%N by (apply N.mul_le_mono_r; lia).
        lia.
Qed.

Lemma cmp_slash_no_slash a b :
  split_slash a = None -> split_slash b = None -> cmp_slash a b = bytes_cmp a b.
Proof.
  intros Ha Hb. rewrite cmp_slash_spec. unfold spec_cmp, lex_cmp.
  rewrite (enc_no_slash _ Ha), (enc_no_slash _ Hb). cbn [lex]. unfold seg_cmp; cbn [fst snd].
  destruct (bytes_cmp a b); reflexivity.
Qed.

Lemma cmp_slash_no_slash_vs_slash a b s r :
  split_slash a = None -> split_slash b = Some (s, r) -> cmp_slash a b = Lt.
Proof.
  intros Ha Hb. rewrite cmp_slash_spec. unfold spec_cmp, lex_cmp.
  rewrite (enc_no_slash _ Ha), (enc_slash _ _ _ Hb). reflexivity.
Qed.

Theorem abbrev_contract a b : is_bytes a -> is_bytes b ->
  (abbreviated_key a < abbreviated_key b)%N -> cmp_slash a b = Lt.
Proof.
  intros Ha Hb. unfold abbreviated_key.
  destruct (split_slash a) as [[sa ra]|] eqn:Ea; destruct (split_slash b) as [[sb rb]|] eqn:Eb; intros H.
  - lia.
  - exfalso. unfold default_abbreviated_key in H.
    pose proof (be_pad_bound 8 b Hb) as Hbd. change (256 ^ N.of_nat 8)%N with (U64MAX + 1)%N in Hbd. lia.
  - eapply cmp_slash_no_slash_vs_slash; eauto.
  - rewrite cmp_slash_no_slash by assumption. eapply be_pad_lt; eauto.
Qed.

Example abbrev_contract_example :
  (abbreviated_key [97;46] < abbreviated_key [97;47;98])%N /\ cmp_slash [97;46] [97;47;98] = Lt /\
  (abbreviated_key [97;46] < abbreviated_key [97;48])%N.
Proof. vm_compute. repeat split; reflexivity. Qed.

(* --- ImmediateSuccessor: a ++ [0] is the least key above a (Split is not configured, so Pebble
       never calls it; recorded because the member is set) *)

(* shape of an encoding: every element but the last is flagged, the last is not *)
Fixpoint wf_enc (l : list (bool * list N)) : Prop :=
  match l with
  | [] => False
  | (f, _) :: tl =>
      match tl with
      | [] => f = false
      | _ :: _ => f = true /\ wf_enc tl
      end
  end.

Lemma enc_wf a : wf_enc (enc a).
Proof.
  induction a as [|x a IH]; [reflexivity|].
  cbn [enc]. pose proof (enc_nonnil a) as Hn.
  destruct (N.eqb x SLASH).
  - cbn [wf_enc]. destruct (enc a); [congruence|]. auto.
  - destruct (enc a) as [|[f s] tl]; [congruence|]. exact IH.
Qed.

Fixpoint snoc_last (z : N) (l : list (bool * list N)) : list (bool * list N) :=
  match l with
  | [] => []
  | (f, s) :: tl =>
      match tl with
      | [] => [(f, s ++ [z])]
      | _ :: _ => (f, s) :: snoc_last z tl
      end
  end.

Lemma enc_snoc a z : N.eqb z SLASH = false -> enc (a ++ [z]) = snoc_last z (enc a).
Proof.
  intros Hz. induction a as [|x a IH].
  - cbn. rewrite Hz. reflexivity.
  - cbn [app enc]. pose proof (enc_nonnil a) as Hn. destruct (N.eqb x SLASH).
    + rewrite IH. cbn [snoc_last]. destruct (enc a); [congruence|reflexivity].
    + rewrite IH. destruct (enc a) as [|[f s] tl]; [congruence|].
      cbn [snoc_last]. destruct tl; reflexivity.
Qed.

Lemma bytes_cmp_snoc0_lt s : bytes_cmp s (s ++ [0%N]) = Lt.
Proof. induction s as [|x s IH]; [reflexivity|]. cbn. rewrite N.compare_refl. exact IH. Qed.

Lemma bytes_cmp_snoc0_least s : forall t, bytes_cmp s t = Lt -> bytes_cmp (s ++ [0%N]) t <> Gt.
Proof.
  induction s as [|x s IH]; intros [|y t]; cbn [bytes_cmp app]; intros H; try discriminate.
  - destruct (N.compare 0 y) eqn:E; try discriminate.
    + destruct t; discriminate.
    + apply N.compare_gt_iff in E. lia.
  - destruct (N.compare x y); try discriminate. apply IH, H.
Qed.

Lemma lex_cmp_cons x l y m :
  lex_cmp (x :: l) (y :: m) = match seg_cmp x y with Eq => lex_cmp l m | r => r end.
Proof. reflexivity. Qed.
Lemma seg_cmp_tt s t : seg_cmp (true, s) (true, t) = bytes_cmp s t. Proof. reflexivity. Qed.
Lemma seg_cmp_ff s t : seg_cmp (false, s) (false, t) = bytes_cmp s t. Proof. reflexivity. Qed.
Lemma seg_cmp_ft s t : seg_cmp (false, s) (true, t) = Lt. Proof. reflexivity. Qed.
Lemma seg_cmp_tf s t : seg_cmp (true, s) (false, t) = Gt. Proof. reflexivity. Qed.

Lemma lex_snoc_last_lt l : wf_enc l -> lex_cmp l (snoc_last 0%N l) = Lt.
Proof.
  induction l as [|[f s] tl IH]; cbn [wf_enc]; [tauto|].
  destruct tl as [|e tl'].
  - intros ->. cbn [snoc_last]. rewrite lex_cmp_cons, seg_cmp_ff, bytes_cmp_snoc0_lt. reflexivity.
  - intros [-> Hw]. cbn [snoc_last]. rewrite lex_cmp_cons.
    assert (E : seg_cmp (true, s) (true, s) = Eq) by (apply seg_cmp_eq; reflexivity).
    rewrite E. apply IH, Hw.
Qed.

Lemma lex_snoc_last_least l : wf_enc l -> forall m, wf_enc m ->
  lex_cmp l m = Lt -> lex_cmp (snoc_last 0%N l) m <> Gt.
Proof.
  induction l as [|[f s] tl IH]; cbn [wf_enc]; [tauto|].
  destruct tl as [|e tl'].
  - intros -> [|[g t] tm]; cbn [wf_enc]; [tauto|]. intros Hm.
    cbn [snoc_last]. rewrite !lex_cmp_cons.
    destruct g.
    + rewrite !seg_cmp_ft. discriminate.
    + destruct tm; [|destruct Hm; discriminate].
      rewrite !seg_cmp_ff.
      intros H. destruct (bytes_cmp s t) eqn:E; try discriminate.
      pose proof (bytes_cmp_snoc0_least s t E) as Hl.
      destruct (bytes_cmp (s ++ [0%N]) t); [cbn; discriminate | discriminate | congruence].
  - intros [-> Hw] [|[g t] tm]; cbn [wf_enc]; [tauto|]. intros Hm.
    change (snoc_last 0 ((true, s) :: e :: tl')) with ((true, s) :: snoc_last 0 (e :: tl')).
    rewrite !lex_cmp_cons.
    destruct g.
    + destruct tm as [|e2 tm']; [discriminate|]. destruct Hm as [_ Hm].
      rewrite seg_cmp_tt.
      destruct (bytes_cmp s t); try discriminate. apply IH; assumption.
    + rewrite seg_cmp_tf. discriminate.
Qed.

Theorem imm_succ_contract a :
  cmp_slash a (immediate_successor a) = Lt /\
  forall k, cmp_slash a k = Lt -> cmp_slash (immediate_successor a) k <> Gt.
Proof.
  unfold immediate_successor. split.
  - rewrite cmp_slash_spec. unfold spec_cmp. rewrite enc_snoc by reflexivity.
    apply lex_snoc_last_lt, enc_wf.
  - intros k. rewrite !cmp_slash_spec. unfold spec_cmp. rewrite enc_snoc by reflexivity.
    apply lex_snoc_last_least; apply enc_wf.
Qed.

Example imm_succ_example :
  immediate_successor [97;47] = [97;47;0] /\ cmp_slash [97;47] [97;47;0] = Lt /\
  cmp_slash [97;47;0] [97;47;47] = Lt /\ cmp_slash [97;47;0] [97;48] = Gt.
Proof. vm_compute. repeat split; reflexivity. Qed.

(* ------------------------------------------------------------------ *)
(* The client's ResultHeap pops in cmp_slash order: key_sort sorts and permutes *)

From Coq Require Import Sorting.Sorted Sorting.Permutation.

Lemma key_insert_perm k l : Permutation (k :: l) (key_insert k l).
Proof.
  induction l as [|x tl IH]; cbn [key_insert]; [apply Permutation_refl|].
  destruct (key_leb k x); [apply Permutation_refl|].
  eapply perm_trans; [apply perm_swap|]. apply perm_skip, IH.
Qed.

Lemma key_sort_perm l : Permutation l (key_sort l).
Proof.
  induction l as [|k l IH]; [apply perm_nil|].
  cbn [key_sort fold_right]. eapply perm_trans; [apply perm_skip, IH|]. apply key_insert_perm.
Qed.

Definition key_le (a b : list N) : Prop := cmp_slash a b <> Gt.

Lemma key_insert_sorted k l : StronglySorted key_le l -> StronglySorted key_le (key_insert k l).
Proof.
  induction l as [|x tl IH]; intros Hs; cbn [key_insert].
  - constructor; constructor.
  - inversion Hs as [|? ? Hs' Hall]; subst.
    destruct (key_leb k x) eqn:E.
    + apply key_leb_le in E. constructor; [exact Hs|].
      constructor; [exact E|].
      rewrite Forall_forall in *. intros y Hy. eapply cmp_slash_le_trans; [exact E|]. apply Hall, Hy.
    + assert (Hxk : key_le x k).
      { unfold key_le. unfold key_leb in E. destruct (cmp_slash k x) eqn:E2; try discriminate.
        apply cmp_slash_gt_lt in E2. rewrite E2. discriminate. }
      constructor; [apply IH, Hs'|].
      rewrite Forall_forall in *. intros y Hy.
      apply (Permutation_in _ (Permutation_sym (key_insert_perm k tl))) in Hy.
      destruct Hy as [<-|Hy]; [exact Hxk|apply Hall, Hy].
Qed.

Theorem key_sort_sorted l : StronglySorted key_le (key_sort l).
Proof.
  induction l as [|k l IH]; [constructor|]. cbn [key_sort fold_right]. apply key_insert_sorted, IH.
Qed.
