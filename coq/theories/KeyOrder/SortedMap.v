(* A finite map keyed by byte strings under the slash order, as a strictly sorted association list.
   This is the "sorted reference of the live keys" of C11 and the ordered store other components (Db)
   build on.  Definitions first (all computable, extracted), lemmas below:
     - [sm_put] / [sm_delete] / [sm_delete_range] keep the list strictly sorted;
     - get-after-put / get-after-delete laws;
     - [sm_get], [sm_floor], [sm_ceiling], [sm_lower], [sm_higher], [sm_range] equal the
       filter + min/max characterisation over the stored entries. *)
From Coq Require Import List NArith Bool Lia Arith.
From Oxia.KeyOrder Require Import Model Proofs.
Import ListNotations.

Notation key := (list N) (only parsing).

Section SortedMap.
  Context {V : Type}.
  Definition smap := list (key * V).

  Definition sm_empty : smap := [].

  Fixpoint sm_get (k : key) (m : smap) : option V :=
    match m with
    | [] => None
    | (k', v) :: tl =>
        match cmp_slash k k' with
        | Eq => Some v
        | Lt => None
        | Gt => sm_get k tl
        end
    end.

  Fixpoint sm_put (k : key) (v : V) (m : smap) : smap :=
    match m with
    | [] => [(k, v)]
    | (k', v') :: tl =>
        match cmp_slash k k' with
        | Eq => (k, v) :: tl
        | Lt => (k, v) :: m
        | Gt => (k', v') :: sm_put k v tl
        end
    end.

  Fixpoint sm_delete (k : key) (m : smap) : smap :=
    match m with
    | [] => []
    | (k', v') :: tl =>
        match cmp_slash k k' with
        | Eq => tl
        | Lt => m
        | Gt => (k', v') :: sm_delete k tl
        end
    end.

  (* greatest entry with key <= k *)
  Fixpoint sm_floor (k : key) (m : smap) : option (key * V) :=
    match m with
    | [] => None
    | (k', v) :: tl =>
        match cmp_slash k' k with
        | Gt => None
        | _ => match sm_floor k tl with
               | Some r => Some r
               | None => Some (k', v)
               end
        end
    end.

  (* greatest entry with key < k *)
  Fixpoint sm_lower (k : key) (m : smap) : option (key * V) :=
    match m with
    | [] => None
    | (k', v) :: tl =>
        match cmp_slash k' k with
        | Lt => match sm_lower k tl with
                | Some r => Some r
                | None => Some (k', v)
                end
        | _ => None
        end
    end.

  (* least entry with key >= k *)
  Fixpoint sm_ceiling (k : key) (m : smap) : option (key * V) :=
    match m with
    | [] => None
    | (k', v) :: tl =>
        match cmp_slash k' k with
        | Lt => sm_ceiling k tl
        | _ => Some (k', v)
        end
    end.

  (* least entry with key > k *)
  Fixpoint sm_higher (k : key) (m : smap) : option (key * V) :=
    match m with
    | [] => None
    | (k', v) :: tl =>
        match cmp_slash k' k with
        | Gt => Some (k', v)
        | _ => sm_higher k tl
        end
    end.

  (* entries with key >= lo (drop the prefix below lo) / entries with key < hi (the prefix below hi) *)
  Fixpoint sm_drop_lt (lo : key) (m : smap) : smap :=
    match m with
    | [] => []
    | (k, v) :: tl => if key_ltb k lo then sm_drop_lt lo tl else m
    end.

  Fixpoint sm_take_lt (hi : key) (m : smap) : smap :=
    match m with
    | [] => []
    | (k, v) :: tl => if key_ltb k hi then (k, v) :: sm_take_lt hi tl else []
    end.

  (* range scan [lo, hi); a missing bound is unbounded on that side *)
  Definition sm_range_opt (lo hi : option key) (m : smap) : smap :=
    let m1 := match lo with Some l => sm_drop_lt l m | None => m end in
    match hi with Some h => sm_take_lt h m1 | None => m1 end.

  Definition sm_range (lo hi : key) (m : smap) : smap := sm_range_opt (Some lo) (Some hi) m.

  (* remove every entry with lo <= key < hi; no-op unless lo < hi *)
  Definition sm_delete_range (lo hi : key) (m : smap) : smap :=
    if key_ltb lo hi then sm_take_lt lo m ++ sm_drop_lt hi m else m.

  Definition sm_keys (m : smap) : list key := map fst m.
  Definition sm_first (m : smap) : option (key * V) := hd_error m.
  Fixpoint sm_last (m : smap) : option (key * V) :=
    match m with
    | [] => None
    | e :: tl => match sm_last tl with Some r => Some r | None => Some e end
    end.

  (* executable sortedness test (adjacent pairs) *)
  Fixpoint sm_sortedb (m : smap) : bool :=
    match m with
    | [] => true
    | (k, _) :: tl =>
        match tl with
        | [] => true
        | (k', _) :: _ => key_ltb k k' && sm_sortedb tl
        end
    end.

  (* ---------------------------------------------------------------- *)
  (* reference notions the lookups are characterised by: they make no  *)
  (* use of sortedness                                                 *)

  Fixpoint max_key (l : smap) : option (key * V) :=
    match l with
    | [] => None
    | e :: tl =>
        match max_key tl with
        | None => Some e
        | Some b => if key_ltb (fst b) (fst e) then Some e else Some b
        end
    end.

  Fixpoint min_key (l : smap) : option (key * V) :=
    match l with
    | [] => None
    | e :: tl =>
        match min_key tl with
        | None => Some e
        | Some b => if key_ltb (fst b) (fst e) then Some b else Some e
        end
    end.

  Definition in_range (lo hi : key) (e : key * V) : bool := key_leb lo (fst e) && key_ltb (fst e) hi.

  (* strictly sorted by key *)
  Fixpoint sm_sorted (m : smap) : Prop :=
    match m with
    | [] => True
    | (k, _) :: tl => (forall e, In e tl -> cmp_slash k (fst e) = Lt) /\ sm_sorted tl
    end.

  (* ================================================================ *)
  (* Lemmas                                                            *)

  Lemma max_key_none l : max_key l = None <-> l = [].
  Proof.
    destruct l as [|e tl]; cbn [max_key]; [tauto|].
    split; [|discriminate]. destruct (max_key tl) as [b|]; [destruct (key_ltb _ _)|]; discriminate.
  Qed.

  Lemma min_key_none l : min_key l = None <-> l = [].
  Proof.
    destruct l as [|e tl]; cbn [min_key]; [tauto|].
    split; [|discriminate]. destruct (min_key tl) as [b|]; [destruct (key_ltb _ _)|]; discriminate.
  Qed.

  (* max_key returns a stored entry whose key is >= every stored key; min_key dually *)
  Lemma max_key_spec l b : max_key l = Some b ->
    In b l /\ forall e, In e l -> cmp_slash (fst e) (fst b) <> Gt.
  Proof.
    revert b; induction l as [|e tl IH]; cbn [max_key]; intros b H; [discriminate|].
    destruct (max_key tl) as [b0|] eqn:E.
    - destruct (IH b0 eq_refl) as [Hin Hmax].
      destruct (key_ltb (fst b0) (fst e)) eqn:El; inversion H; subst.
      + apply key_ltb_lt in El. split; [left; reflexivity|].
        intros e' [<-|He']; [rewrite cmp_slash_refl; discriminate|].
        specialize (Hmax e' He'). rewrite (cmp_slash_le_lt_trans _ _ _ Hmax El). discriminate.
      + split; [right; exact Hin|].
        intros e' [<-|He']; [|apply Hmax, He'].
        unfold key_ltb in El. destruct (cmp_slash (fst b) (fst e)) eqn:E2; try discriminate.
        * apply cmp_slash_eq in E2. rewrite E2, cmp_slash_refl. discriminate.
        * apply cmp_slash_gt_lt in E2. rewrite E2. discriminate.
    - apply max_key_none in E; subst. inversion H; subst. split; [left; reflexivity|].
      intros e' [<-|[]]. rewrite cmp_slash_refl. discriminate.
  Qed.

  Lemma min_key_spec l b : min_key l = Some b ->
    In b l /\ forall e, In e l -> cmp_slash (fst b) (fst e) <> Gt.
  Proof.
    revert b; induction l as [|e tl IH]; cbn [min_key]; intros b H; [discriminate|].
    destruct (min_key tl) as [b0|] eqn:E.
    - destruct (IH b0 eq_refl) as [Hin Hmin].
      destruct (key_ltb (fst b0) (fst e)) eqn:El; inversion H; subst.
      + apply key_ltb_lt in El. split; [right; exact Hin|].
        intros e' [<-|He']; [rewrite El; discriminate|apply Hmin, He'].
      + assert (Hle : cmp_slash (fst b) (fst b0) <> Gt).
        { unfold key_ltb in El. destruct (cmp_slash (fst b0) (fst b)) eqn:E2; try discriminate.
          - apply cmp_slash_eq in E2. rewrite E2, cmp_slash_refl. discriminate.
          - apply cmp_slash_gt_lt in E2. rewrite E2. discriminate. }
        split; [left; reflexivity|].
        intros e' [<-|He']; [rewrite cmp_slash_refl; discriminate|].
        eapply cmp_slash_le_trans; [exact Hle|apply Hmin, He'].
    - apply min_key_none in E; subst. inversion H; subst. split; [left; reflexivity|].
      intros e' [<-|[]]. rewrite cmp_slash_refl. discriminate.
  Qed.

  (* --- sortedness *)

  Lemma sm_sorted_tail e m : sm_sorted (e :: m) -> sm_sorted m.
  Proof. destruct e. cbn [sm_sorted]. tauto. Qed.

  Lemma sm_sorted_head k v m e : sm_sorted ((k, v) :: m) -> In e m -> cmp_slash k (fst e) = Lt.
  Proof. cbn [sm_sorted]. intros [H _]. apply H. Qed.

  Lemma sm_sortedb_spec m : sm_sortedb m = true <-> sm_sorted m.
  Proof.
    induction m as [|[k v] tl IH]; cbn [sm_sortedb sm_sorted]; [tauto|].
    destruct tl as [|[k' v'] tl'].
    - split; [|reflexivity]. intros _. split; [intros e []|exact I].
    - rewrite andb_true_iff, IH, key_ltb_lt. split.
      + intros [Hlt Hs]. split; [|exact Hs].
        intros e [<-|He]; [exact Hlt|].
        eapply cmp_slash_trans; [exact Hlt|]. eapply sm_sorted_head; eauto.
      + intros [Hall Hs]. split; [|exact Hs]. apply (Hall (k', v')). left. reflexivity.
  Qed.

  Lemma sm_put_in k v m e : In e (sm_put k v m) -> e = (k, v) \/ In e m.
  Proof.
    induction m as [|[k' v'] tl IH]; cbn [sm_put].
    - intros [<-|[]]. left. reflexivity.
    - destruct (cmp_slash k k').
      + intros [<-|H]; [left; reflexivity|right; right; exact H].
      + intros [<-|H]; [left; reflexivity|right; exact H].
      + intros [<-|H]; [right; left; reflexivity|].
        destruct (IH H); [left; assumption|right; right; assumption].
  Qed.

  Lemma sm_delete_in k m e : In e (sm_delete k m) -> In e m.
  Proof.
    induction m as [|[k' v'] tl IH]; cbn [sm_delete]; [tauto|].
    destruct (cmp_slash k k').
    - intros H; right; exact H.
    - tauto.
    - intros [<-|H]; [left; reflexivity|right; apply IH, H].
  Qed.

  Theorem sm_put_sorted k v m : sm_sorted m -> sm_sorted (sm_put k v m).
  Proof.
    induction m as [|[k' v'] tl IH]; cbn [sm_put]; intros Hs.
    - cbn. split; [intros e []|exact I].
    - destruct (cmp_slash k k') eqn:E.
      + apply cmp_slash_eq in E; subst k'. exact Hs.
      + cbn [sm_sorted]. split; [|exact Hs].
        intros e [<-|He]; [exact E|].
        eapply cmp_slash_trans; [exact E|]. eapply sm_sorted_head; eauto.
      + cbn [sm_sorted]. split; [|apply IH; eapply sm_sorted_tail; eauto].
        intros e He. apply sm_put_in in He. destruct He as [->|He].
        * apply cmp_slash_gt_lt, E.
        * eapply sm_sorted_head; eauto.
  Qed.

  Theorem sm_delete_sorted k m : sm_sorted m -> sm_sorted (sm_delete k m).
  Proof.
    induction m as [|[k' v'] tl IH]; cbn [sm_delete]; intros Hs; [exact I|].
    destruct (cmp_slash k k').
    - eapply sm_sorted_tail; eauto.
    - exact Hs.
    - cbn [sm_sorted]. split; [|apply IH; eapply sm_sorted_tail; eauto].
      intros e He. apply sm_delete_in in He. eapply sm_sorted_head; eauto.
  Qed.

  (* any operation sequence from the empty map keeps the list sorted *)
  Inductive sm_op := OpPut (k : key) (v : V) | OpDelete (k : key) | OpDeleteRange (lo hi : key).

  (* --- get *)

  Lemma sm_get_below k m : (forall e, In e m -> cmp_slash k (fst e) = Lt) -> sm_get k m = None.
  Proof.
    destruct m as [|[k' v'] tl]; cbn [sm_get]; [reflexivity|].
    intros H. specialize (H (k', v') (or_introl eq_refl)). cbn [fst] in H. rewrite H. reflexivity.
  Qed.

  (* exact get finds precisely the stored entries *)
  Theorem sm_get_in k v m : sm_sorted m -> (sm_get k m = Some v <-> In (k, v) m).
  Proof.
    induction m as [|[k' v'] tl IH]; cbn [sm_get]; intros Hs.
    - split; [discriminate|intros []].
    - destruct (cmp_slash k k') eqn:E.
      + apply cmp_slash_eq in E; subst k'. split.
        * intros H; inversion H; subst. left. reflexivity.
        * intros [H|H]; [inversion H; reflexivity|].
          pose proof (sm_sorted_head _ _ _ _ Hs H) as Hlt. cbn [fst] in Hlt.
          rewrite cmp_slash_refl in Hlt. discriminate.
      + split; [discriminate|].
        intros [H|H]; [inversion H; subst; rewrite cmp_slash_refl in E; discriminate|].
        pose proof (sm_sorted_head _ _ _ _ Hs H) as Hlt. cbn [fst] in Hlt.
        apply cmp_slash_lt_gt in Hlt. congruence.
      + rewrite (IH (sm_sorted_tail _ _ Hs)). split; [intros H; right; exact H|].
        intros [H|H]; [inversion H; subst; rewrite cmp_slash_refl in E; discriminate|exact H].
  Qed.

  Theorem sm_get_none k m : sm_sorted m -> (sm_get k m = None <-> forall v, ~ In (k, v) m).
  Proof.
    intros Hs. split.
    - intros H v Hin. apply (sm_get_in k v m Hs) in Hin. congruence.
    - intros H. destruct (sm_get k m) as [v|] eqn:E; [|reflexivity].
      apply (sm_get_in k v m Hs) in E. exfalso. eapply H; eauto.
  Qed.

  Theorem sm_get_put k k' v m : sm_sorted m ->
    sm_get k (sm_put k' v m) = if key_eqb k k' then Some v else sm_get k m.
  Proof.
    induction m as [|[k1 v1] tl IH]; intros Hs.
    - cbn [sm_put sm_get]. unfold key_eqb. destruct (cmp_slash k k'); reflexivity.
    - cbn [sm_put]. destruct (cmp_slash k' k1) eqn:E1.
      + apply cmp_slash_eq in E1; subst k1. cbn [sm_get]. unfold key_eqb.
        destruct (cmp_slash k k'); reflexivity.
      + cbn [sm_get]. unfold key_eqb. destruct (cmp_slash k k') eqn:E; try reflexivity.
        rewrite (cmp_slash_trans _ _ _ E E1). reflexivity.
      + cbn [sm_get]. destruct (cmp_slash k k1) eqn:E.
        * apply cmp_slash_eq in E; subst k1.
          unfold key_eqb. rewrite (proj1 (cmp_slash_gt_lt _ _) E1). reflexivity.
        * unfold key_eqb. apply cmp_slash_gt_lt in E1. rewrite (cmp_slash_trans _ _ _ E E1). reflexivity.
        * apply IH. eapply sm_sorted_tail; eauto.
  Qed.

  Theorem sm_get_delete k k' m : sm_sorted m ->
    sm_get k (sm_delete k' m) = if key_eqb k k' then None else sm_get k m.
  Proof.
    induction m as [|[k1 v1] tl IH]; intros Hs.
    - cbn. destruct (key_eqb k k'); reflexivity.
    - cbn [sm_delete]. destruct (cmp_slash k' k1) eqn:E1.
      + apply cmp_slash_eq in E1; subst k1. cbn [sm_get]. unfold key_eqb.
        destruct (cmp_slash k k') eqn:E; try reflexivity.
        * apply cmp_slash_eq in E; subst k'. apply sm_get_below.
          intros e He. eapply sm_sorted_head; eauto.
        * apply sm_get_below. intros e He.
          eapply cmp_slash_trans; [exact E|]. eapply sm_sorted_head; eauto.
      + unfold key_eqb. destruct (cmp_slash k k') eqn:E; try reflexivity.
        cbn [sm_get]. apply cmp_slash_eq in E; subst k'. rewrite E1. reflexivity.
      + cbn [sm_get]. destruct (cmp_slash k k1) eqn:E.
        * apply cmp_slash_eq in E; subst k1.
          unfold key_eqb. rewrite (proj1 (cmp_slash_gt_lt _ _) E1). reflexivity.
        * unfold key_eqb. apply cmp_slash_gt_lt in E1. rewrite (cmp_slash_trans _ _ _ E E1). reflexivity.
        * apply IH. eapply sm_sorted_tail; eauto.
  Qed.

  (* --- lookups = filter + min/max *)

  Lemma filter_nil_all (f : key * V -> bool) m : (forall e, In e m -> f e = false) -> filter f m = [].
  Proof.
    induction m as [|e tl IH]; intros H; [reflexivity|]. cbn [filter].
    rewrite (H e (or_introl eq_refl)). apply IH. intros e' He'. apply H. right. exact He'.
  Qed.

  Lemma filter_all_true (f : key * V -> bool) m : (forall e, In e m -> f e = true) -> filter f m = m.
  Proof.
    induction m as [|e tl IH]; intros H; [reflexivity|]. cbn [filter].
    rewrite (H e (or_introl eq_refl)). f_equal. apply IH. intros e' He'. apply H. right. exact He'.
  Qed.

  Lemma max_key_filter_in f m b : max_key (filter f m) = Some b -> In b m.
  Proof. intros H. apply max_key_spec in H. destruct H as [H _]. apply filter_In in H. tauto. Qed.

  Theorem sm_floor_char k m : sm_sorted m ->
    sm_floor k m = max_key (filter (fun e => key_leb (fst e) k) m).
  Proof.
    induction m as [|[k' v] tl IH]; intros Hs; [reflexivity|].
    cbn [sm_floor filter fst]. unfold key_leb at 1.
    destruct (cmp_slash k' k) eqn:E.
    - pose proof (IH (sm_sorted_tail _ _ Hs)) as Eb. clear IH.
      cbn [max_key]. rewrite <- Eb.
      destruct (sm_floor k tl) as [b|]; [|reflexivity].
      symmetry in Eb. apply max_key_filter_in in Eb.
      pose proof (sm_sorted_head _ _ _ _ Hs Eb) as Hlt. cbn [fst].
      unfold key_ltb. apply cmp_slash_lt_gt in Hlt. rewrite Hlt. reflexivity.
    - pose proof (IH (sm_sorted_tail _ _ Hs)) as Eb. clear IH.
      cbn [max_key]. rewrite <- Eb.
      destruct (sm_floor k tl) as [b|]; [|reflexivity].
      symmetry in Eb. apply max_key_filter_in in Eb.
      pose proof (sm_sorted_head _ _ _ _ Hs Eb) as Hlt. cbn [fst].
      unfold key_ltb. apply cmp_slash_lt_gt in Hlt. rewrite Hlt. reflexivity.
    - rewrite filter_nil_all; [reflexivity|].
      intros e He. pose proof (sm_sorted_head _ _ _ _ Hs He) as Hlt.
      unfold key_leb. apply cmp_slash_gt_lt in E.
      rewrite (proj1 (cmp_slash_lt_gt _ _) (cmp_slash_trans _ _ _ E Hlt)). reflexivity.
  Qed.

  Theorem sm_lower_char k m : sm_sorted m ->
    sm_lower k m = max_key (filter (fun e => key_ltb (fst e) k) m).
  Proof.
    induction m as [|[k' v] tl IH]; intros Hs; [reflexivity|].
    cbn [sm_lower filter fst]. unfold key_ltb at 1.
    destruct (cmp_slash k' k) eqn:E.
    - rewrite filter_nil_all; [reflexivity|].
      intros e He. pose proof (sm_sorted_head _ _ _ _ Hs He) as Hlt.
      apply cmp_slash_eq in E; subst k'. unfold key_ltb.
      rewrite (proj1 (cmp_slash_lt_gt _ _) Hlt). reflexivity.
    - pose proof (IH (sm_sorted_tail _ _ Hs)) as Eb. clear IH.
      cbn [max_key]. rewrite <- Eb.
      destruct (sm_lower k tl) as [b|]; [|reflexivity].
      symmetry in Eb. apply max_key_filter_in in Eb.
      pose proof (sm_sorted_head _ _ _ _ Hs Eb) as Hlt. cbn [fst].
      unfold key_ltb. apply cmp_slash_lt_gt in Hlt. rewrite Hlt. reflexivity.
    - rewrite filter_nil_all; [reflexivity|].
      intros e He. pose proof (sm_sorted_head _ _ _ _ Hs He) as Hlt.
      unfold key_ltb. apply cmp_slash_gt_lt in E.
      rewrite (proj1 (cmp_slash_lt_gt _ _) (cmp_slash_trans _ _ _ E Hlt)). reflexivity.
  Qed.

  Lemma min_key_sorted_cons k v tl l :
    (forall e, In e l -> In e tl) -> sm_sorted ((k, v) :: tl) -> min_key ((k, v) :: l) = Some (k, v).
  Proof.
    intros Hsub Hs. cbn [min_key]. destruct (min_key l) as [b|] eqn:Eb; [|reflexivity].
    apply min_key_spec in Eb. destruct Eb as [Hin _]. apply Hsub in Hin.
    pose proof (sm_sorted_head _ _ _ _ Hs Hin) as Hlt. cbn [fst].
    unfold key_ltb. apply cmp_slash_lt_gt in Hlt. rewrite Hlt. reflexivity.
  Qed.

  Theorem sm_ceiling_char k m : sm_sorted m ->
    sm_ceiling k m = min_key (filter (fun e => key_leb k (fst e)) m).
  Proof.
    induction m as [|[k' v] tl IH]; intros Hs; [reflexivity|].
    cbn [sm_ceiling filter fst]. unfold key_leb at 1. rewrite (cmp_slash_antisym k' k).
    destruct (cmp_slash k' k) eqn:E; cbn [CompOpp].
    - symmetry. eapply min_key_sorted_cons; [|exact Hs]. intros e He. apply filter_In in He. tauto.
    - apply IH. eapply sm_sorted_tail; eauto.
    - symmetry. eapply min_key_sorted_cons; [|exact Hs]. intros e He. apply filter_In in He. tauto.
  Qed.

  Theorem sm_higher_char k m : sm_sorted m ->
    sm_higher k m = min_key (filter (fun e => key_ltb k (fst e)) m).
  Proof.
    induction m as [|[k' v] tl IH]; intros Hs; [reflexivity|].
    cbn [sm_higher filter fst]. unfold key_ltb at 1. rewrite (cmp_slash_antisym k' k).
    destruct (cmp_slash k' k) eqn:E; cbn [CompOpp].
    - apply IH. eapply sm_sorted_tail; eauto.
    - apply IH. eapply sm_sorted_tail; eauto.
    - symmetry. eapply min_key_sorted_cons; [|exact Hs]. intros e He. apply filter_In in He. tauto.
  Qed.

  (* relational reading of the four lookups (what "floor" etc. mean), from the characterisations *)
  Corollary sm_floor_spec k m r : sm_sorted m -> sm_floor k m = Some r ->
    In r m /\ cmp_slash (fst r) k <> Gt /\
    forall e, In e m -> cmp_slash (fst e) k <> Gt -> cmp_slash (fst e) (fst r) <> Gt.
  Proof.
    intros Hs H. rewrite sm_floor_char in H by assumption. apply max_key_spec in H.
    destruct H as [Hin Hmax]. apply filter_In in Hin. destruct Hin as [Hin Hle].
    apply key_leb_le in Hle. repeat split; auto.
    intros e He Hek. apply Hmax. apply filter_In. split; [exact He|]. apply key_leb_le, Hek.
  Qed.

  Corollary sm_floor_none k m : sm_sorted m -> sm_floor k m = None ->
    forall e, In e m -> cmp_slash (fst e) k = Gt.
  Proof.
    intros Hs H e He. rewrite sm_floor_char in H by assumption. apply max_key_none in H.
    destruct (cmp_slash (fst e) k) eqn:E; [| |reflexivity]; exfalso;
      (assert (Hin : In e (filter (fun e => key_leb (fst e) k) m))
         by (apply filter_In; split; [exact He|unfold key_leb; rewrite E; reflexivity]);
       rewrite H in Hin; destruct Hin).
  Qed.

  Corollary sm_ceiling_spec k m r : sm_sorted m -> sm_ceiling k m = Some r ->
    In r m /\ cmp_slash k (fst r) <> Gt /\
    forall e, In e m -> cmp_slash k (fst e) <> Gt -> cmp_slash (fst r) (fst e) <> Gt.
  Proof.
    intros Hs H. rewrite sm_ceiling_char in H by assumption. apply min_key_spec in H.
    destruct H as [Hin Hmin]. apply filter_In in Hin. destruct Hin as [Hin Hle].
    apply key_leb_le in Hle. repeat split; auto.
    intros e He Hek. apply Hmin. apply filter_In. split; [exact He|]. apply key_leb_le, Hek.
  Qed.

  Corollary sm_lower_spec k m r : sm_sorted m -> sm_lower k m = Some r ->
    In r m /\ cmp_slash (fst r) k = Lt /\
    forall e, In e m -> cmp_slash (fst e) k = Lt -> cmp_slash (fst e) (fst r) <> Gt.
  Proof.
    intros Hs H. rewrite sm_lower_char in H by assumption. apply max_key_spec in H.
    destruct H as [Hin Hmax]. apply filter_In in Hin. destruct Hin as [Hin Hle].
    apply key_ltb_lt in Hle. repeat split; auto.
    intros e He Hek. apply Hmax. apply filter_In. split; [exact He|]. apply key_ltb_lt, Hek.
  Qed.

  Corollary sm_higher_spec k m r : sm_sorted m -> sm_higher k m = Some r ->
    In r m /\ cmp_slash k (fst r) = Lt /\
    forall e, In e m -> cmp_slash k (fst e) = Lt -> cmp_slash (fst r) (fst e) <> Gt.
  Proof.
    intros Hs H. rewrite sm_higher_char in H by assumption. apply min_key_spec in H.
    destruct H as [Hin Hmin]. apply filter_In in Hin. destruct Hin as [Hin Hle].
    apply key_ltb_lt in Hle. repeat split; auto.
    intros e He Hek. apply Hmin. apply filter_In. split; [exact He|]. apply key_ltb_lt, Hek.
  Qed.

  (* --- range *)

  Lemma sm_drop_lt_char lo m : sm_sorted m ->
    sm_drop_lt lo m = filter (fun e => key_leb lo (fst e)) m.
  Proof.
    induction m as [|[k v] tl IH]; intros Hs; [reflexivity|].
    cbn [sm_drop_lt filter fst]. unfold key_ltb, key_leb at 1. rewrite (cmp_slash_antisym k lo).
    destruct (cmp_slash k lo) eqn:E; cbn [CompOpp].
    - f_equal. symmetry. apply filter_all_true. intros e He.
      pose proof (sm_sorted_head _ _ _ _ Hs He) as Hlt.
      apply cmp_slash_eq in E; subst k. unfold key_leb. rewrite Hlt. reflexivity.
    - apply IH. eapply sm_sorted_tail; eauto.
    - f_equal. symmetry. apply filter_all_true. intros e He.
      pose proof (sm_sorted_head _ _ _ _ Hs He) as Hlt.
      apply cmp_slash_gt_lt in E. unfold key_leb. rewrite (cmp_slash_trans _ _ _ E Hlt). reflexivity.
  Qed.

  Lemma sm_take_lt_char hi m : sm_sorted m ->
    sm_take_lt hi m = filter (fun e => key_ltb (fst e) hi) m.
  Proof.
    induction m as [|[k v] tl IH]; intros Hs; [reflexivity|].
    cbn [sm_take_lt filter fst]. destruct (key_ltb k hi) eqn:E.
    - f_equal. apply IH. eapply sm_sorted_tail; eauto.
    - symmetry. apply filter_nil_all. intros e He.
      pose proof (sm_sorted_head _ _ _ _ Hs He) as Hlt.
      unfold key_ltb in *. destruct (cmp_slash k hi) eqn:E2; try discriminate.
      + apply cmp_slash_eq in E2; subst k. rewrite (proj1 (cmp_slash_lt_gt _ _) Hlt). reflexivity.
      + apply cmp_slash_gt_lt in E2.
        rewrite (proj1 (cmp_slash_lt_gt _ _) (cmp_slash_trans _ _ _ E2 Hlt)). reflexivity.
  Qed.

  Lemma filter_sorted f m : sm_sorted m -> sm_sorted (filter f m).
  Proof.
    induction m as [|[k v] tl IH]; intros Hs; [exact I|].
    cbn [filter]. destruct (f (k, v)).
    - cbn [sm_sorted]. split; [|apply IH; eapply sm_sorted_tail; eauto].
      intros e He. apply filter_In in He. destruct He as [He _]. eapply sm_sorted_head; eauto.
    - apply IH. eapply sm_sorted_tail; eauto.
  Qed.

  Lemma filter_filter (f g : key * V -> bool) m : filter g (filter f m) = filter (fun e => f e && g e) m.
  Proof.
    induction m as [|e tl IH]; [reflexivity|]. cbn [filter].
    destruct (f e); cbn [filter andb]; [destruct (g e)|]; rewrite ?IH; reflexivity.
  Qed.

  Theorem sm_range_char lo hi m : sm_sorted m -> sm_range lo hi m = filter (in_range lo hi) m.
  Proof.
    intros Hs. unfold sm_range, sm_range_opt.
    rewrite (sm_drop_lt_char lo m Hs), sm_take_lt_char by (apply filter_sorted, Hs).
    apply filter_filter.
  Qed.

  Theorem sm_range_opt_char lo hi m : sm_sorted m ->
    sm_range_opt lo hi m =
    filter (fun e => match lo with Some l => key_leb l (fst e) | None => true end &&
                     match hi with Some h => key_ltb (fst e) h | None => true end) m.
  Proof.
    intros Hs. unfold sm_range_opt. destruct lo as [l|], hi as [h|].
    - rewrite (sm_drop_lt_char l m Hs), sm_take_lt_char by (apply filter_sorted, Hs). apply filter_filter.
    - rewrite (sm_drop_lt_char l m Hs). apply filter_ext. intros e. rewrite andb_true_r. reflexivity.
    - rewrite (sm_take_lt_char h m Hs). apply filter_ext. intros e. reflexivity.
    - symmetry. apply filter_all_true. reflexivity.
  Qed.

  Lemma sm_range_sorted lo hi m : sm_sorted m -> sm_sorted (sm_range lo hi m).
  Proof. intros Hs. rewrite sm_range_char by assumption. apply filter_sorted, Hs. Qed.

  (* a range scan returns exactly the stored entries inside the bounds, in order *)
  Corollary sm_range_in lo hi m e : sm_sorted m ->
    (In e (sm_range lo hi m) <-> In e m /\ cmp_slash lo (fst e) <> Gt /\ cmp_slash (fst e) hi = Lt).
  Proof.
    intros Hs. rewrite sm_range_char by assumption. rewrite filter_In. unfold in_range.
    rewrite andb_true_iff, key_leb_le, key_ltb_lt. tauto.
  Qed.

  (* --- delete-range *)

  Theorem sm_delete_range_char lo hi m : sm_sorted m ->
    sm_delete_range lo hi m = filter (fun e => negb (in_range lo hi e)) m.
  Proof.
    intros Hs. unfold sm_delete_range. destruct (key_ltb lo hi) eqn:Elh.
    - apply key_ltb_lt in Elh.
      induction m as [|[k v] tl IH]; [reflexivity|].
      specialize (IH (sm_sorted_tail _ _ Hs)).
      cbn [sm_take_lt sm_drop_lt filter]. unfold in_range at 1. cbn [fst].
      destruct (key_ltb k lo) eqn:E1.
      + (* k < lo: kept, and k < hi *)
        apply key_ltb_lt in E1.
        assert (E2 : key_ltb k hi = true) by (apply key_ltb_lt; eapply cmp_slash_trans; eauto).
        rewrite E2. unfold key_leb. rewrite (proj1 (cmp_slash_lt_gt _ _) E1). cbn [andb negb app].
        f_equal. exact IH.
      + (* lo <= k: nothing of the rest is below lo *)
        assert (Hle : key_leb lo k = true).
        { unfold key_ltb in E1. unfold key_leb. rewrite (cmp_slash_antisym k lo).
          destruct (cmp_slash k lo); try discriminate; reflexivity. }
        rewrite Hle. cbn [andb app].
        destruct (key_ltb k hi) eqn:E2; cbn [negb].
        * rewrite <- IH.
          replace (sm_take_lt lo tl) with (@nil (key * V)); [reflexivity|].
          symmetry. rewrite sm_take_lt_char by (eapply sm_sorted_tail; eauto).
          apply filter_nil_all. intros e He.
          pose proof (sm_sorted_head _ _ _ _ Hs He) as Hlt.
          apply key_leb_le in Hle. unfold key_ltb.
          rewrite (proj1 (cmp_slash_lt_gt _ _) (cmp_slash_le_lt_trans _ _ _ Hle Hlt)). reflexivity.
        * f_equal. symmetry. apply filter_all_true. intros e He.
          pose proof (sm_sorted_head _ _ _ _ Hs He) as Hlt.
          unfold in_range. replace (key_ltb (fst e) hi) with false; [rewrite andb_false_r; reflexivity|].
          symmetry. unfold key_ltb in *. destruct (cmp_slash k hi) eqn:E3; try discriminate.
          -- apply cmp_slash_eq in E3; subst k. rewrite (proj1 (cmp_slash_lt_gt _ _) Hlt). reflexivity.
          -- apply cmp_slash_gt_lt in E3.
             rewrite (proj1 (cmp_slash_lt_gt _ _) (cmp_slash_trans _ _ _ E3 Hlt)). reflexivity.
    - symmetry. apply filter_all_true. intros e He.
      unfold in_range. destruct (key_leb lo (fst e)) eqn:E1; [|reflexivity].
      destruct (key_ltb (fst e) hi) eqn:E2; [|reflexivity].
      apply key_leb_le in E1. apply key_ltb_lt in E2.
      rewrite (proj2 (key_ltb_lt lo hi) (cmp_slash_le_lt_trans _ _ _ E1 E2)) in Elh. discriminate.
  Qed.

  Theorem sm_delete_range_sorted lo hi m : sm_sorted m -> sm_sorted (sm_delete_range lo hi m).
  Proof. intros Hs. rewrite sm_delete_range_char by assumption. apply filter_sorted, Hs. Qed.

  (* --- whole histories: every map reached from the empty one is sorted *)

  Definition sm_apply (m : smap) (o : sm_op) : smap :=
    match o with
    | OpPut k v => sm_put k v m
    | OpDelete k => sm_delete k m
    | OpDeleteRange lo hi => sm_delete_range lo hi m
    end.

  Theorem sm_run_sorted ops : sm_sorted (fold_left sm_apply ops sm_empty).
  Proof.
    assert (G : forall m, sm_sorted m -> sm_sorted (fold_left sm_apply ops m)).
    { induction ops as [|o ops IH]; intros m Hs; [exact Hs|].
      cbn [fold_left]. apply IH. destruct o; cbn [sm_apply].
      - apply sm_put_sorted, Hs.
      - apply sm_delete_sorted, Hs.
      - apply sm_delete_range_sorted, Hs. }
    apply G. exact I.
  Qed.

  (* first/last = min/max of everything *)
  Lemma sm_first_char m : sm_sorted m -> sm_first m = min_key m.
  Proof.
    destruct m as [|[k v] tl]; intros Hs; [reflexivity|].
    symmetry. eapply min_key_sorted_cons; [|exact Hs]. auto.
  Qed.

  Lemma sm_last_char m : sm_sorted m -> sm_last m = max_key m.
  Proof.
    induction m as [|[k v] tl IH]; intros Hs; [reflexivity|].
    pose proof (IH (sm_sorted_tail _ _ Hs)) as Eb. clear IH.
    cbn [sm_last max_key]. rewrite <- Eb.
    destruct (sm_last tl) as [b|]; [|reflexivity].
    symmetry in Eb. apply max_key_spec in Eb. destruct Eb as [Hin _].
    pose proof (sm_sorted_head _ _ _ _ Hs Hin) as Hlt. cbn [fst].
    unfold key_ltb. apply cmp_slash_lt_gt in Hlt. rewrite Hlt. reflexivity.
  Qed.
End SortedMap.

Arguments smap : clear implicits.
Arguments sm_op : clear implicits.

(* non-vacuity: a map over keys around '/' built by puts and a delete, and its lookups *)
Example sorted_map_example :
  let m := sm_delete [97%N] (sm_put [97;47;98]%N 3%N (sm_put [97;46]%N 2%N (sm_put [97]%N 1%N (sm_put [97;48]%N 4%N [])))) in
  sm_keys m = [[97;46]; [97;48]; [97;47;98]]%N /\
  sm_floor [97;47]%N m = Some ([97;48]%N, 4%N) /\
  sm_ceiling [97;47]%N m = Some ([97;47;98]%N, 3%N) /\
  sm_lower [97;46]%N m = None /\
  sm_higher [97;46]%N m = Some ([97;48]%N, 4%N) /\
  sm_keys (sm_range [97;47]%N [97;47;99]%N m) = [[97;47;98]%N] /\
  sm_sortedb m = true.
Proof. vm_compute. repeat split; reflexivity. Qed.
