(* Basic facts about the WAL spec of Node/Model.v: contiguous offsets, last/first offsets,
   truncation, the head read by getLastEntryIdInWal. *)
From Coq Require Import List ZArith Bool Lia.
From Oxia.Node Require Import Model.
Import ListNotations.
Open Scope Z_scope.

(* offsets are consecutive starting at [next] *)
Fixpoint chain (next : Z) (w : list entry) : Prop :=
  match w with
  | [] => True
  | e :: tl => e_off e = next /\ chain (next + 1) tl
  end.

(* a well-formed WAL: consecutive offsets, the first one non-negative *)
Definition wal_ok (w : list entry) : Prop :=
  match w with [] => True | e :: _ => 0 <= e_off e /\ chain (e_off e) w end.

Lemma last_off_app : forall w e, last_off (w ++ [e]) = e_off e.
Proof. intros. unfold last_off. rewrite fold_left_app. reflexivity. Qed.

Lemma fold_last_irrel : forall w a b e, fold_left (fun _ x => e_off x) (e :: w) a = fold_left (fun _ x => e_off x) (e :: w) b.
Proof. intros. reflexivity. Qed.

Lemma chain_last_off : forall w next, chain next w -> w <> [] ->
  last_off w = next + Z.of_nat (length w) - 1.
Proof.
  induction w as [|e tl IH]; intros next Hc Hne; [congruence|].
  destruct Hc as [He Hc]. destruct tl as [|e2 tl2].
  - unfold last_off. cbn. lia.
  - specialize (IH (next + 1) Hc ltac:(discriminate)).
    unfold last_off in *. cbn [fold_left] in *. cbn [length] in *. rewrite IH. lia.
Qed.

Lemma chain_nth : forall w next i e, chain next w -> nth_error w i = Some e -> e_off e = next + Z.of_nat i.
Proof.
  induction w as [|a tl IH]; intros next i e Hc Hn; [destruct i; discriminate|].
  destruct Hc as [Ha Hc]. destruct i as [|i].
  - cbn in Hn. inversion Hn; subst. lia.
  - cbn in Hn. rewrite (IH _ _ _ Hc Hn). lia.
Qed.

Lemma chain_app : forall w next e, chain next w -> e_off e = next + Z.of_nat (length w) -> chain next (w ++ [e]).
Proof.
  induction w as [|a tl IH]; intros next e Hc He; cbn in *.
  - split; [lia|exact I].
  - destruct Hc as [Ha Hc]. split; [assumption|]. apply IH; [assumption|lia].
Qed.

Lemma chain_firstn : forall k w next, chain next w -> chain next (firstn k w).
Proof.
  induction k as [|k IH]; intros w next Hc; [exact I|].
  destruct w as [|a tl]; [exact I|]. destruct Hc as [Ha Hc]. cbn. split; [assumption|]. apply IH; assumption.
Qed.

Lemma wal_ok_firstn : forall k w, wal_ok w -> wal_ok (firstn k w).
Proof.
  intros k w H. destruct w as [|a tl]; [destruct k; exact I|].
  destruct k as [|k]; [exact I|]. destruct H as [H0 Hc]. cbn [firstn]. split; [assumption|].
  change (a :: firstn k tl) with (firstn (S k) (a :: tl)). apply chain_firstn. assumption.
Qed.

Lemma wal_ok_last_off_nonneg : forall w, wal_ok w -> w <> [] -> 0 <= last_off w.
Proof.
  intros w H Hne. destruct w as [|a tl]; [congruence|]. destruct H as [H0 Hc].
  rewrite (chain_last_off _ _ Hc Hne). cbn [length]. lia.
Qed.

Lemma wal_ok_last_off_empty : forall w, wal_ok w -> last_off w = -1 -> w = [].
Proof.
  intros w H Hl. destruct w as [|a tl]; [reflexivity|].
  pose proof (wal_ok_last_off_nonneg _ H ltac:(discriminate)). lia.
Qed.

Lemma wal_append_ok : forall w e w', wal_ok w -> wal_append w e = Some w' ->
  w' = w ++ [e] /\ wal_ok w'.
Proof.
  intros w e w' H Ha. unfold wal_append in Ha.
  destruct (e_off e <? 0) eqn:Hneg; [discriminate|]. apply Z.ltb_ge in Hneg.
  destruct ((last_off w =? -1) || (e_off e =? last_off w + 1)) eqn:Hc; [|discriminate].
  inversion Ha; subst. split; [reflexivity|].
  apply orb_true_iff in Hc. destruct Hc as [Hc|Hc].
  - apply Z.eqb_eq in Hc. rewrite (wal_ok_last_off_empty _ H Hc). cbn. split; [assumption|]. split; [reflexivity|exact I].
  - apply Z.eqb_eq in Hc. destruct w as [|a tl].
    + cbn. split; [assumption|]. split; [reflexivity|exact I].
    + destruct H as [H0 Hch]. cbn [app]. split; [assumption|].
      change (a :: tl ++ [e]) with ((a :: tl) ++ [e]). apply chain_app; [assumption|].
      rewrite Hc. rewrite (chain_last_off _ _ Hch ltac:(discriminate)). lia.
Qed.

(* entries of a chain are found by their offset *)
Lemma chain_find_off : forall w next i e, chain next w -> nth_error w i = Some e ->
  find_off w (e_off e) = Some e.
Proof.
  induction w as [|a tl IH]; intros next i e Hc Hn; [destruct i; discriminate|].
  destruct Hc as [Ha Hc]. unfold find_off in *. cbn [find].
  destruct i as [|i].
  - cbn in Hn. inversion Hn; subst. rewrite Z.eqb_refl. reflexivity.
  - cbn in Hn. pose proof (chain_nth _ _ _ _ Hc Hn) as Ho.
    destruct (e_off a =? e_off e) eqn:Heq.
    + apply Z.eqb_eq in Heq. lia.
    + eapply IH; eassumption.
Qed.

Lemma nth_error_last : forall (w : list entry) e, nth_error (w ++ [e]) (length w) = Some e.
Proof. intros. rewrite nth_error_app2 by lia. rewrite Nat.sub_diag. reflexivity. Qed.

(* the last entry of a non-empty list *)
Definition last_entry (w : list entry) : option entry := nth_error w (pred (length w)).

Lemma last_entry_off : forall w e, last_entry w = Some e -> last_off w = e_off e.
Proof.
  intros w e H. unfold last_entry in H.
  destruct (@exists_last _ w) as [w0 [x Hx]].
  { intro Hn; subst; discriminate. }
  subst. rewrite last_off_app. rewrite app_length in H. cbn in H.
  replace (pred (length w0 + 1)) with (length w0) in H by lia.
  rewrite nth_error_last in H. inversion H; reflexivity.
Qed.

Lemma last_entry_some : forall w, w <> [] -> exists e, last_entry w = Some e.
Proof.
  intros w Hne. unfold last_entry. destruct (nth_error w (pred (length w))) eqn:Hn; [eauto|].
  apply nth_error_None in Hn. destruct w; [congruence|]. cbn in Hn. lia.
Qed.

(* getLastEntryIdInWal on a fully synced, well-formed WAL is the id of its last entry *)
Lemma get_last_eid_full : forall w, wal_ok w ->
  get_last_eid w (length w) =
    Some (match last_entry w with Some e => eid_of e | None => invalid_eid end).
Proof.
  intros w H. unfold get_last_eid, last_synced. rewrite firstn_all.
  destruct w as [|a tl]; [reflexivity|].
  destruct (last_entry_some (a :: tl) ltac:(discriminate)) as [e He]. rewrite He.
  pose proof (last_entry_off _ _ He) as Hlo.
  pose proof H as [H0 Hc].
  cbn [first_off].
  assert (Hge : e_off a <= e_off e).
  { unfold last_entry in He. rewrite (chain_nth _ _ _ _ Hc He).
    pose proof (Nat2Z.is_nonneg (pred (length (a :: tl)))). lia. }
  replace (e_off a =? -1) with false by (symmetry; apply Z.eqb_neq; lia).
  rewrite Hlo. replace (e_off e <? e_off a) with false by (symmetry; apply Z.ltb_ge; lia).
  cbn [orb]. unfold last_entry in He. rewrite (chain_find_off _ _ _ _ Hc He). reflexivity.
Qed.

Lemma filter_le_chain : forall w next o, chain next w ->
  filter (fun e => e_off e <=? o) w = firstn (Z.to_nat (o - next + 1)) w.
Proof.
  induction w as [|a tl IH]; intros next o Hc; [destruct (Z.to_nat (o - next + 1)); reflexivity|].
  destruct Hc as [Ha Hc]. cbn [filter].
  destruct (e_off a <=? o) eqn:Hle.
  - apply Z.leb_le in Hle. rewrite (IH (next + 1) o Hc).
    replace (Z.to_nat (o - next + 1)) with (S (Z.to_nat (o - (next + 1) + 1))) by lia. reflexivity.
  - apply Z.leb_gt in Hle. replace (Z.to_nat (o - next + 1)) with O by lia. cbn.
    (* nothing later can pass the filter either *)
    clear IH.
    assert (Hgt : forall x, In x tl -> o < e_off x).
    { intros x Hin. apply In_nth_error in Hin. destruct Hin as [i Hi]. rewrite (chain_nth _ _ _ _ Hc Hi). lia. }
    clear Hc. induction tl as [|b tl2 IH2]; [reflexivity|]. cbn.
    replace (e_off b <=? o) with false by (symmetry; apply Z.leb_gt; apply Hgt; left; reflexivity).
    apply IH2. intros x Hx. apply Hgt. right. assumption.
Qed.

Lemma wal_truncate_ok : forall w s o w' s' ho, wal_ok w -> wal_truncate w s o = Some (w', s', ho) ->
  wal_ok w' /\ (exists k, w' = firstn k w) /\ (s' = length w' \/ (w' = w /\ s' = s)).
Proof.
  intros w s o w' s' ho H Ht. unfold wal_truncate in Ht.
  destruct (o =? -1).
  { inversion Ht; subst. split; [exact I|]. split; [exists O; reflexivity|left; reflexivity]. }
  destruct (last_off w =? -1).
  { inversion Ht; subst. split; [assumption|]. split; [exists (length w'); symmetry; apply firstn_all|right; split; reflexivity]. }
  destruct (o <? first_off w).
  { inversion Ht; subst. split; [exact I|]. split; [exists O; reflexivity|left; reflexivity]. }
  destruct (last_off w <? o); [discriminate|].
  destruct w as [|a tl].
  { inversion Ht; subst. cbn. split; [exact I|]. split; [exists O; reflexivity|left; reflexivity]. }
  pose proof H as [H0 Hc]. rewrite (filter_le_chain _ _ o Hc) in Ht.
  inversion Ht; subst.
  split; [apply wal_ok_firstn; assumption|]. split; [eexists; reflexivity|left; reflexivity].
Qed.

Lemma firstn_firstn_le : forall (A : Type) (l : list A) a b, (a <= b)%nat -> firstn a (firstn b l) = firstn a l.
Proof. intros. rewrite firstn_firstn. f_equal. lia. Qed.

Lemma In_firstn : forall (A : Type) k (l : list A) x, In x (firstn k l) -> In x l.
Proof.
  induction k; intros l x H; [contradiction|]. destruct l; [contradiction|].
  cbn in H. destruct H; [left; assumption|right; apply IHk; assumption].
Qed.

Lemma seqZ_In : forall n from x, In x (seqZ from n) <-> from <= x < from + Z.of_nat n.
Proof.
  induction n as [|n IH]; intros from x; cbn [seqZ In]; [split; [contradiction|lia]|].
  rewrite IH. lia.
Qed.

Lemma ack_range_In : forall old new x, In x (ack_range old new) <-> old < x <= new.
Proof. intros. unfold ack_range. rewrite seqZ_In. lia. Qed.
