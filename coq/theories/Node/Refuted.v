(* Witness schedules.
   [_old_refuted]: the model of the pinned code ([cfg_old]) violates C03/C04 (each schedule was replayed on the
   real controllers by harness/cmd/node before the repair: see the builtin schedules there).
   [_refuted] on [cfg_fixed]: the residual hole of one-round truncation by entry id (known finding).
   Examples: the hypotheses of the positive theorems are satisfiable on non-trivial schedules. *)
From Coq Require Import List ZArith Bool Lia.
From Oxia.Node Require Import Model Lemmas Fence Matching.
Import ListNotations.
Open Scope Z_scope.

Definition E (t o p : Z) : entry := mkE t o p.

(* ---- O-5: NewTerm between append and sync reports a head that is not the end of the log *)
Definition sched_o5 : list action :=
  [NewTermReq 2; ReplicateOpen 1 2; FollowerAppend 1 (E 2 0 1) (-1); SyncBegin 1].

Theorem newterm_head_old_refuted :
  exists l t n' o h e, step cfg_old (state_after cfg_old init l) (NewTermReq t) = (n', o) /\
    o_res o = RHead h /\ last_entry (n_wal n') = Some e /\ h <> eid_of e.
Proof.
  exists sched_o5, 4. eexists _, _, _, _. split; [vm_compute; reflexivity|].
  split; [reflexivity|]. split; [reflexivity|]. vm_compute. discriminate.
Qed.

(* ---- O-5b: the sync round that was in flight acks on the old term's stream after NewTerm(4) answered *)
Theorem ack_after_newterm_old_refuted :
  exists l sid off n' o, let n := state_after cfg_old init l in
    n_term n = 4 /\ n_status n = Fenced /\ step cfg_old n (SyncEnd sid) = (n', o) /\
    In (sid, off) (o_acks o) /\ stream_term n sid = Some 2.
Proof.
  exists (sched_o5 ++ [NewTermReq 4]), 1%nat, 0. eexists _, _. cbv zeta.
  split; [vm_compute; reflexivity|]. split; [vm_compute; reflexivity|].
  split; [vm_compute; reflexivity|]. split; [left; reflexivity|vm_compute; reflexivity].
Qed.

(* ... and after a truncation and new appends it acknowledges the new leader's entries to the old leader *)
Definition llog_o5b (t : Z) : list entry :=
  if t =? 2 then [E 2 0 1; E 2 1 2] else if t =? 4 then [E 4 0 5; E 4 1 6] else [].

Theorem ack_differs_old_refuted :
  exists l sid off n' o e, let n := state_after cfg_old init l in
    step cfg_old n (SyncEnd sid) = (n', o) /\ In (sid, off) (o_acks o) /\ stream_term n sid = Some 2 /\
    In e (n_wal n') /\ e_off e <= off /\ nth_error (llog_o5b 2) (Z.to_nat (e_off e)) <> Some e.
Proof.
  exists [NewTermReq 2; ReplicateOpen 1 2; FollowerAppend 1 (E 2 0 1) (-1); SyncBegin 1; FollowerAppend 1 (E 2 1 2) (-1);
          NewTermReq 4; TruncateReq 4 (-1, -1); ReplicateOpen 2 4; SyncBegin 2;
          FollowerAppend 2 (E 4 0 5) (-1); FollowerAppend 2 (E 4 1 6) (-1)], 1%nat, 0.
  eexists _, _, (E 4 0 5). cbv zeta.
  split; [vm_compute; reflexivity|]. split; [left; reflexivity|]. split; [vm_compute; reflexivity|].
  split; [vm_compute; left; reflexivity|]. split; [vm_compute; discriminate|vm_compute; discriminate].
Qed.

(* ---- O-4: a duplicate is acknowledged although its first copy is not synced *)
Theorem dup_ack_old_refuted :
  exists l sid e c n' o, let n := state_after cfg_old init l in
    step cfg_old n (FollowerAppend sid e c) = (n', o) /\ In (sid, e_off e) (o_acks o) /\
    In e (n_wal n') /\ n_synced n' = O.
Proof.
  exists sched_o5, 1%nat, (E 2 0 1), (-1). eexists _, _. cbv zeta.
  split; [vm_compute; reflexivity|]. split; [left; reflexivity|]. split; [vm_compute; left; reflexivity|vm_compute; reflexivity].
Qed.

(* ---- O-3: truncation by offset keeps the entries of the dead term 4 at/below the safe offset *)
Definition sched_o3 : list action :=
  [NewTermReq 2; ReplicateOpen 1 2; FollowerAppend 1 (E 2 0 1) (-1); SyncBegin 1; FollowerAppend 1 (E 2 1 2) (-1);
   SyncEnd 1; StreamBreak 1; NewTermReq 4; ReplicateOpen 2 4; FollowerAppend 2 (E 4 2 3) (-1); SyncBegin 2;
   FollowerAppend 2 (E 4 3 4) (-1); SyncEnd 2; StreamBreak 2; NewTermReq 6].

Theorem truncate_old_refuted :
  exists l t h n' o e, step cfg_old (state_after cfg_old init l) (TruncateReq t h) = (n', o) /\
    o_res o = RHead (t, snd h) /\ In e (n_wal n') /\ eid_leb (eid_of e) h = false.
Proof.
  exists sched_o3, 6, (2, 3). eexists _, _, (E 4 2 3).
  split; [vm_compute; reflexivity|]. split; [reflexivity|]. split; [vm_compute; right; right; left; reflexivity|reflexivity].
Qed.

(* the repaired truncation removes them *)
Example truncate_fixed_example :
  n_wal (state_after cfg_fixed init (sched_o3 ++ [TruncateReq 6 (2, 3)])) = [E 2 0 1; E 2 1 2].
Proof. vm_compute. reflexivity. Qed.

(* ---- O-25: a snapshot of an old term wipes the log of a node fenced at a higher term *)
Theorem snapshot_old_refuted :
  exists l sid t c, let n := state_after cfg_old init l in
    n_status n = Fenced /\ t < n_term n /\ n_wal n <> [] /\
    n_wal (fst (step cfg_old n (SnapshotInstall sid t c 0))) = [].
Proof.
  exists sched_o3, 9%nat, 4, 0. cbv zeta.
  assert (Ht : n_term (state_after cfg_old init sched_o3) = 6) by (vm_compute; reflexivity).
  split; [vm_compute; reflexivity|]. split; [rewrite Ht; lia|]. split; [vm_compute; discriminate|vm_compute; reflexivity].
Qed.

(* ---- open finding on the repaired code: a snapshot install that fails after its first chunk leaves the node without a
   stored term (the DB directory has been emptied); a restart then forgets the fence: NewTerm of an older term is accepted *)
Theorem newterm_after_failed_snapshot_refuted :
  exists l1 l2 t h,
    n_term (state_after cfg_fixed init l1) = 6 /\ n_status (state_after cfg_fixed init l1) = Fenced /\
    t < 6 /\ o_res (snd (step cfg_fixed (state_after cfg_fixed init (l1 ++ l2)) (NewTermReq t))) = RHead h.
Proof.
  exists [NewTermReq 6], [TruncateReq 6 (-1, -1); SnapshotInstall 1 6 0 2; CrashRestart 0], 2, (-1, -1).
  split; [vm_compute; reflexivity|]. split; [vm_compute; reflexivity|]. split; [lia|vm_compute; reflexivity].
Qed.

(* ---- O-26: a leader of an older term attaches to a node that is already in a newer term *)
Theorem stale_stream_old_refuted :
  exists l sid t, let n := state_after cfg_old init l in
    0 <= t < n_term n /\ o_res (snd (step cfg_old n (ReplicateOpen sid t))) = ROk.
Proof.
  exists [NewTermReq 4; TruncateReq 4 (-1, -1)], 1%nat, 2. cbv zeta.
  assert (Ht : n_term (state_after cfg_old init [NewTermReq 4; TruncateReq 4 (-1, -1)]) = 4) by (vm_compute; reflexivity).
  split; [rewrite Ht; lia|vm_compute; reflexivity].
Qed.

(* ---- residual hole on the repaired code (known finding truncate:kept-lower-term-entries-not-in-leader-log):
   follower [a(2,0); b(2,1); c(2,2); d(6,3)], leader of term 10 holds [x(4,0); w(8,1)]; the request an honest leader
   sends for the reported head (6,3) is (4,0); the follower keeps a, b, c, which the leader does not have. *)
Definition sched_residual : list action :=
  [NewTermReq 2; ReplicateOpen 1 2; FollowerAppend 1 (E 2 0 1) (-1); SyncBegin 1; FollowerAppend 1 (E 2 1 2) (-1);
   FollowerAppend 1 (E 2 2 3) (-1); SyncEnd 1; StreamBreak 1; NewTermReq 6; ReplicateOpen 2 6;
   FollowerAppend 2 (E 6 3 4) (-1); SyncBegin 2; SyncEnd 2; StreamBreak 2; NewTermReq 10].
Definition leader10 : list entry := [E 4 0 11; E 8 1 12].

Theorem truncate_one_round_refuted :
  truncate_follower_if_needed leader10 2 (8, 1) (6, 3) = TTrunc (4, 0) /\
  exists n' o e, step cfg_fixed (state_after cfg_fixed init sched_residual) (TruncateReq 10 (4, 0)) = (n', o) /\
    o_res o = RHead (10, 2) /\ In e (n_wal n') /\ nth_error leader10 (Z.to_nat (e_off e)) <> Some e.
Proof.
  split; [vm_compute; reflexivity|]. eexists _, _, (E 2 0 1).
  split; [vm_compute; reflexivity|]. split; [reflexivity|]. split; [vm_compute; left; reflexivity|vm_compute; discriminate].
Qed.

(* ---- non-vacuity of the positive theorems *)
(* a fenced node with a non-empty log, reached through appends, a pending sync and a NewTerm in between *)
Example fenced_example :
  let n := state_after cfg_fixed init (sched_o5 ++ [NewTermReq 4]) in
  fenced_at 4 n /\ n_wal n = [E 2 0 1] /\ n_synced n = 1%nat.
Proof.
  cbv zeta. split; [|split; vm_compute; reflexivity].
  assert (Hi : inv (state_after cfg_fixed init sched_o5)).
  { apply reachable_inv; [apply inv_init|]. repeat constructor. }
  rewrite state_after_app. remember (state_after cfg_fixed init sched_o5) as n0.
  destruct (step cfg_fixed n0 (NewTermReq 4)) as [n1 o] eqn:Hs.
  replace (state_after cfg_fixed n0 [NewTermReq 4]) with n1 by (rewrite state_after_cons, Hs; reflexivity).
  eapply (newterm_fences n0 4 n1 o (2, 0)); [exact Hi|exact Hs|]. subst n0. vm_compute in Hs. inversion Hs. reflexivity.
Qed.

(* ... on which low actions (the old leader's appends, the pending sync, a crash) do leave the log alone *)
Example fenced_low_run_example :
  let n := state_after cfg_fixed init (sched_o5 ++ [NewTermReq 4]) in
  low_run 4 n [FollowerAppend 1 (E 2 1 2) (-1); SyncEnd 1; CrashRestart 0; NewTermReq 2; ClientWrite 9].
Proof. vm_compute. repeat split; try lia; exact I. Qed.

(* a two-party run that satisfies [env_ok] and in which an acknowledgement is sent *)
Definition llog_ex (t : Z) : list entry := if t =? 2 then [E 2 0 1; E 2 1 2] else [].

Lemma greach_next : forall llog n g a, greach llog n g -> env_ok llog n g a ->
  greach llog (fst (step cfg_fixed n a)) (gstep n a (snd (step cfg_fixed n a)) g).
Proof. intros llog n g a Hg He. destruct (step cfg_fixed n a) as [n1 o1] eqn:Hs. eapply gr_step; eassumption. Qed.

Example greach_example : exists n g o n',
  greach llog_ex n g /\ env_ok llog_ex n g (SyncEnd 1) /\ step cfg_fixed n (SyncEnd 1) = (n', o) /\
  o_acks o = [(1%nat, 0)] /\ n_wal n' = [E 2 0 1].
Proof.
  pose proof (gr_init llog_ex) as H0.
  apply (greach_next _ _ _ (NewTermReq 2)) in H0; [|exact I].
  apply (greach_next _ _ _ (ReplicateOpen 1 2)) in H0.
  2:{ split; [lia|]. intros _ e He. vm_compute in He. contradiction. }
  apply (greach_next _ _ _ (FollowerAppend 1 (E 2 0 1) (-1))) in H0.
  2:{ intros s Hs. vm_compute in Hs. inversion Hs; subst. split; [vm_compute; discriminate|vm_compute; reflexivity]. }
  apply (greach_next _ _ _ (SyncBegin 1)) in H0; [|exact I].
  eexists _, _, _, _. split; [exact H0|]. split; [exact I|]. split; [vm_compute; reflexivity|]. split; reflexivity.
Qed.
