(* Node-level replication model (properties C03, C04).

   One node of one shard = what server/shards_director.go keeps for it: at most one
   controller (follower_controller.go or leader_controller.go) over a durable
   {term (kept in the DB), WAL, DB commit offset}.

   Every action is one critical section of the Go code (one region under the
   controller mutex), one completion of a WAL sync, one stream failure, or a
   crash/restart.  Schedules are action lists; [run] folds [step] over them.

   The record [cfg] selects, per repaired defect, the behaviour before ([false]) or
   after ([true]) the repair, so that the same transcription yields the model of the
   pinned code ([cfg_old], used by the [_old_refuted] lemmas) and of the repaired
   code ([cfg_fixed], used by the theorems and by the correspondence run):
     fix_trunc  O-3  follower Truncate cuts by entry id (term, offset), not by offset
     fix_dup    O-4  duplicate append is acked only once its first copy is synced
     fix_head   O-5  NewTerm (both controllers) syncs the WAL before reading the head
     fix_ack    O-5b a sync round sends its acks under the lock and only while the node is
                     still in the term in which the stream was opened; it acks everything that
                     became durable since its previous acks (lastAckedOffset), whoever synced it
     fix_snap   O-25 the term of a snapshot is checked before the WAL and the DB are wiped
     fix_open   O-26 Replicate refuses a stream whose (announced) term is not the node's term.

   Go panics / infrastructure errors are explicit results ([RErr ...]); offsets and
   terms are Go int64 and are modelled by Z (no wrap: values stay far below 2^63,
   stated as an assumption of the check). *)
From Coq Require Import List ZArith Bool.
Import ListNotations.
Open Scope Z_scope.

(* ------------------------------------------------------------------ entries *)
Record entry := mkE { e_term : Z; e_off : Z; e_pay : Z }.
Definition eid := (Z * Z)%type.                 (* (term, offset) *)
Definition eid_of (e : entry) : eid := (e_term e, e_off e).
Definition invalid_eid : eid := (-1, -1).
Definition eid_leb (a b : eid) : bool :=
  (fst a <? fst b) || ((fst a =? fst b) && (snd a <=? snd b)).
Definition entry_eqb (a b : entry) : bool :=
  (e_term a =? e_term b) && (e_off a =? e_off b) && (e_pay a =? e_pay b).

Record cfg := mkCfg { fix_trunc : bool; fix_dup : bool; fix_head : bool; fix_ack : bool;
                      fix_snap : bool; fix_open : bool }.
Definition cfg_old := mkCfg false false false false false false.
Definition cfg_fixed := mkCfg true true true true true true.

(* ------------------------------------------------------------------ WAL spec
   wal : all appended entries in order; synced : length of the prefix that
   wal.LastOffset()/readers see (lastSyncedOffset).  *)
Definition last_off (l : list entry) : Z := fold_left (fun _ e => e_off e) l (-1).
Definition first_off (l : list entry) : Z := match l with [] => -1 | e :: _ => e_off e end.
Definition last_synced (w : list entry) (synced : nat) : Z := last_off (firstn synced w).
Definition find_off (w : list entry) (o : Z) : option entry := find (fun e => e_off e =? o) w.

(* wal.AppendAsync: checkNextOffset *)
Definition wal_append (w : list entry) (e : entry) : option (list entry) :=
  if e_off e <? 0 then None
  else if (last_off w =? -1) || (e_off e =? last_off w + 1) then Some (w ++ [e])
  else None.

(* wal.TruncateLog(o) -> (wal', synced', returned head) ; None = ErrOffsetOutOfBounds *)
Definition wal_truncate (w : list entry) (synced : nat) (o : Z) : option (list entry * nat * Z) :=
  if o =? -1 then Some ([], O, -1)
  else if last_off w =? -1 then Some (w, synced, -1)
  else if o <? first_off w then Some ([], O, -1)
  else if last_off w <? o then None
  else let w' := filter (fun e => e_off e <=? o) w in Some (w', length w', o).

(* getLastEntryIdInWal: reverse reader over the synced part *)
Definition get_last_eid (w : list entry) (synced : nat) : option eid :=
  let ls := last_synced w synced in
  let fo := first_off w in
  if (fo =? -1) || (ls <? fo) then Some invalid_eid
  else match find_off w ls with Some e => Some (eid_of e) | None => None end.

(* getHighestEntryOfTerm: newest synced entry whose term is <= t *)
Fixpoint first_with (p : entry -> bool) (r : list entry) : option entry :=
  match r with [] => None | e :: tl => if p e then Some e else first_with p tl end.
Definition highest_entry_of_term (w : list entry) (synced : nat) (t : Z) : eid :=
  match first_with (fun e => e_term e <=? t) (rev (firstn synced w)) with
  | Some e => eid_of e | None => invalid_eid end.

(* truncateFollowerIfNeeded: what the leader (election head [lhead]) does with a follower head *)
Inductive tdec := TNoTrunc (h : eid) | TInvalid | TTrunc (h : eid).
Definition truncate_follower_if_needed (lw : list entry) (lsynced : nat) (lhead fhead : eid) : tdec :=
  if (fst fhead =? fst lhead) && (snd fhead <=? snd lhead) then TNoTrunc fhead
  else if fst lhead <? fst fhead then TInvalid
  else let le := highest_entry_of_term lw lsynced (fst fhead) in
       if (fst fhead =? fst le) && (snd fhead <=? snd le) then TNoTrunc fhead
       else TTrunc le.

(* repaired follower Truncate: newest own (synced) entry whose id is <= the requested id *)
Definition trunc_target (w : list entry) (synced : nat) (h : eid) : Z :=
  match first_with (fun e => eid_leb (eid_of e) h) (rev (firstn synced w)) with
  | Some e => e_off e | None => -1 end.

Fixpoint seqZ (from : Z) (n : nat) : list Z :=
  match n with O => [] | S k => from :: seqZ (from + 1) k end.
(* offsets old+1 .. new *)
Definition ack_range (old new : Z) : list Z := seqZ (old + 1) (Z.to_nat (new - old)).

(* ------------------------------------------------------------------ node state *)
Inductive status := NotMember | Fenced | Follower | Leader.
Inductive role := RNone | RFollower | RLeader.
Inductive syncst := SDead | SIdle | SBusy (old : Z).
(* s_term: term of the leader that opened the stream (what its Append requests carry);
   s_open: the node's own term when Replicate accepted the stream;
   s_acked: lastAckedOffset of the stream's sync goroutine (repaired code only) *)
Record stream := mkS { s_id : nat; s_term : Z; s_open : Z; s_acked : Z; s_recv : bool; s_sync : syncst }.

Record node := mkN {
  (* durable *)
  n_term : Z;               (* term stored in the DB, -1 = none *)
  n_wal : list entry;
  n_synced : nat;
  n_commit : Z;             (* commit offset stored in the DB *)
  (* volatile, both controllers *)
  n_role : role;
  n_status : status;
  (* volatile, follower controller *)
  n_last : Z;               (* lastAppendedOffset *)
  n_adv : Z;                (* advertisedCommitOffset *)
  n_cur : option nat;       (* closeStreamWg != nil : id of the current stream *)
  n_streams : list stream;  (* streams whose goroutines may still run *)
  n_signal : bool;          (* syncCond has a pending signal *)
  (* volatile, leader controller *)
  n_trk : option (Z * Z * Z);   (* quorum tracker (rf 1): next offset, head, commit *)
  n_gen : nat;                  (* tracker generation *)
  n_pend : list (Z * nat);      (* writes appended, sync callback pending: offset, generation *)
  (* what a snapshot install that failed half-way leaves behind (follower controller) *)
  n_termlost : bool;            (* the DB directory was wiped: the term (and commit offset) on disk are gone, the
                                   controller still holds them in memory *)
  n_fcommit : Z                 (* fc.commitOffset: the commit offset the follower controller answers in GetStatus *)
}.

(* the term a controller created now would read from the DB *)
Definition dterm (n : node) : Z := if n.(n_termlost) then -1 else n.(n_term).

Definition init : node :=
  mkN (-1) [] O (-1) RNone NotMember (-1) 0 None [] false None O [] false (-1).

Inductive action :=
| NewTermReq (t : Z)
| TruncateReq (t : Z) (h : eid)
| ReplicateOpen (sid : nat) (t : Z)
| FollowerAppend (sid : nat) (e : entry) (commit : Z)    (* Append{Term = stream's term} *)
| SyncBegin (sid : nat)
| SyncEnd (sid : nat)
| StreamBreak (sid : nat)
| SnapshotInstall (sid : nat) (t : Z) (c : Z) (f : nat)   (* f: 0 complete, 1 stream fails before the first chunk,
                                                              2 stream fails later, 3 a later chunk has another term *)
| CrashRestart (k : nat)
| BecomeLeaderReq (t : Z)
| ClientWrite (p : Z)
| LeaderSyncDone
| DeleteShardReq (t : Z).

Inductive err := EInvalidTerm | EInvalidStatus | EAlreadyConnected | EInvalidNextOffset
               | EOutOfBounds | ENotLeader | ENotFound | EWalRead | EClosed | ENoSuchStream | EStream | EPanic.

Inductive result :=
| ROk                               (* no payload *)
| RHead (h : eid)                   (* NewTerm / Truncate response *)
| RErr (e : err)
| RSnap (c : Z)
| RImpossible.                      (* action not enabled: the schedule is not one of the model *)

(* o_acks: Acks sent (stream id, offset); o_writes: client writes completed (offset, success) *)
Record output := mkO { o_res : result; o_acks : list (nat * Z); o_writes : list (Z * bool) }.
Definition out (r : result) : output := mkO r [] [].

(* ---- constructors (NewFollowerController / NewLeaderController) *)
Definition status_of_term (t : Z) : status := if t =? -1 then NotMember else Fenced.

Definition open_follower (n : node) : node :=
  let lo := last_off n.(n_wal) in
  mkN (dterm n) n.(n_wal) (length n.(n_wal)) n.(n_commit) RFollower (status_of_term (dterm n))
      (if lo =? -1 then n.(n_commit) else lo) 0 None [] false None n.(n_gen) [] false n.(n_commit).

Definition open_leader (n : node) : node :=
  mkN (dterm n) n.(n_wal) (length n.(n_wal)) n.(n_commit) RLeader (status_of_term (dterm n))
      (-1) 0 None [] false None n.(n_gen) [] false n.(n_commit).

(* shards_director.go: GetOrCreateFollower(term) *)
Definition get_or_create_follower (n : node) (t : Z) : option node :=
  match n.(n_role) with
  | RFollower => Some n
  | RLeader => if (0 <=? t) && negb (t =? n.(n_term)) then None else Some (open_follower n)
  | RNone => Some (open_follower n)
  end.

(* GetOrCreateLeader *)
Definition get_or_create_leader (n : node) : node :=
  match n.(n_role) with RLeader => n | _ => open_leader n end.

(* ---- field updates *)
Definition set_wal (n : node) (w : list entry) (s : nat) : node :=
  mkN n.(n_term) w s n.(n_commit) n.(n_role) n.(n_status) n.(n_last) n.(n_adv) n.(n_cur)
      n.(n_streams) n.(n_signal) n.(n_trk) n.(n_gen) n.(n_pend) n.(n_termlost) n.(n_fcommit).
(* db.UpdateTerm(t) + status *)
Definition set_term_status (n : node) (t : Z) (st : status) : node :=
  mkN t n.(n_wal) n.(n_synced) n.(n_commit) n.(n_role) st n.(n_last) n.(n_adv) n.(n_cur)
      n.(n_streams) n.(n_signal) n.(n_trk) n.(n_gen) n.(n_pend) false n.(n_fcommit).
Definition set_status (n : node) (st : status) : node :=
  mkN n.(n_term) n.(n_wal) n.(n_synced) n.(n_commit) n.(n_role) st n.(n_last) n.(n_adv) n.(n_cur)
      n.(n_streams) n.(n_signal) n.(n_trk) n.(n_gen) n.(n_pend) n.(n_termlost) n.(n_fcommit).
Definition set_fcommit (n : node) (c : Z) : node :=
  mkN n.(n_term) n.(n_wal) n.(n_synced) n.(n_commit) n.(n_role) n.(n_status) n.(n_last) n.(n_adv) n.(n_cur)
      n.(n_streams) n.(n_signal) n.(n_trk) n.(n_gen) n.(n_pend) n.(n_termlost) c.
(* the DB directory is removed (NewSnapshotLoader) and not replaced: term and commit offset are gone from the disk;
   the term of the first chunk is taken over in memory *)
Definition wipe_db (n : node) (t : Z) : node :=
  mkN t n.(n_wal) n.(n_synced) (-1) n.(n_role) n.(n_status) n.(n_last) n.(n_adv) n.(n_cur)
      n.(n_streams) n.(n_signal) n.(n_trk) n.(n_gen) n.(n_pend) true n.(n_fcommit).
Definition set_cur (n : node) (c : option nat) : node :=
  mkN n.(n_term) n.(n_wal) n.(n_synced) n.(n_commit) n.(n_role) n.(n_status) n.(n_last) n.(n_adv) c
      n.(n_streams) n.(n_signal) n.(n_trk) n.(n_gen) n.(n_pend) n.(n_termlost) n.(n_fcommit).
Definition set_streams (n : node) (l : list stream) : node :=
  mkN n.(n_term) n.(n_wal) n.(n_synced) n.(n_commit) n.(n_role) n.(n_status) n.(n_last) n.(n_adv) n.(n_cur)
      l n.(n_signal) n.(n_trk) n.(n_gen) n.(n_pend) n.(n_termlost) n.(n_fcommit).
Definition set_signal (n : node) (b : bool) : node :=
  mkN n.(n_term) n.(n_wal) n.(n_synced) n.(n_commit) n.(n_role) n.(n_status) n.(n_last) n.(n_adv) n.(n_cur)
      n.(n_streams) b n.(n_trk) n.(n_gen) n.(n_pend) n.(n_termlost) n.(n_fcommit).
Definition set_last_adv (n : node) (l a : Z) : node :=
  mkN n.(n_term) n.(n_wal) n.(n_synced) n.(n_commit) n.(n_role) n.(n_status) l a n.(n_cur)
      n.(n_streams) n.(n_signal) n.(n_trk) n.(n_gen) n.(n_pend) n.(n_termlost) n.(n_fcommit).
Definition set_commit (n : node) (c : Z) : node :=
  mkN n.(n_term) n.(n_wal) n.(n_synced) c n.(n_role) n.(n_status) n.(n_last) n.(n_adv) n.(n_cur)
      n.(n_streams) n.(n_signal) n.(n_trk) n.(n_gen) n.(n_pend) n.(n_termlost) n.(n_fcommit).
Definition set_leader (n : node) (trk : option (Z * Z * Z)) (g : nat) (p : list (Z * nat)) : node :=
  mkN n.(n_term) n.(n_wal) n.(n_synced) n.(n_commit) n.(n_role) n.(n_status) n.(n_last) n.(n_adv) n.(n_cur)
      n.(n_streams) n.(n_signal) trk g p n.(n_termlost) n.(n_fcommit).

Definition find_stream (n : node) (sid : nat) : option stream :=
  find (fun s => Nat.eqb (s_id s) sid) n.(n_streams).
Definition upd_stream (n : node) (s' : stream) : node :=
  set_streams n (map (fun s => if Nat.eqb (s_id s) (s_id s') then s' else s) n.(n_streams)).
Definition sync_all (n : node) : node := set_wal n n.(n_wal) (length n.(n_wal)).

(* ---- follower_controller.go *)

(* NewTerm, under fc.Lock *)
Definition follower_new_term (c : cfg) (n : node) (t : Z) : node * output :=
  if t <? n.(n_term) then (n, out (RErr EInvalidTerm))
  else
    let n1 := set_cur (set_term_status n t Fenced) None in
    let n2 := if c.(fix_head) then sync_all n1 else n1 in
    match get_last_eid n2.(n_wal) n2.(n_synced) with
    | Some h => (n2, out (RHead h))
    | None => (n2, out (RErr EWalRead))
    end.

(* Truncate, under fc.Lock *)
Definition follower_truncate (c : cfg) (n : node) (t : Z) (h : eid) : node * output :=
  match n.(n_status) with
  | Fenced =>
    if negb (t =? n.(n_term)) then (n, out (RErr EInvalidTerm))
    else
      let n1 := set_status n Follower in
      let target := if c.(fix_trunc) then trunc_target n.(n_wal) n.(n_synced) h else snd h in
      match wal_truncate n1.(n_wal) n1.(n_synced) target with
      | None => (n1, out (RErr EOutOfBounds))
      | Some (w', s', ho) =>
        (set_last_adv (set_wal n1 w' s') ho n1.(n_adv), out (RHead (t, ho)))
      end
  | _ => (n, out (RErr EInvalidStatus))
  end.

(* Replicate: the part under fc.Lock; the two goroutines of the stream start idle *)
Definition follower_replicate_open (c : cfg) (n : node) (sid : nat) (t : Z) : node * output :=
  match find_stream n sid with
  | Some _ => (n, out RImpossible)
  | None =>
    match n.(n_status) with
    | Fenced | Follower =>
      if c.(fix_open) && (0 <=? t) && negb (t =? n.(n_term)) then (n, out (RErr EInvalidTerm)) else
      match n.(n_cur) with
      | Some _ => (n, out (RErr EAlreadyConnected))
      | None => (set_streams (set_cur n (Some sid)) (n.(n_streams) ++ [mkS sid t n.(n_term)
                                  (if first_off n.(n_wal) =? -1 then n.(n_last) else last_synced n.(n_wal) n.(n_synced))
                                  true SIdle]), out ROk)
      end
    | _ => (n, out (RErr EInvalidStatus))
    end
  end.

(* handleServerStream: one Recv + append (under fc.Lock); on error closeStream and the goroutine ends *)
Definition follower_append (c : cfg) (n : node) (sid : nat) (e : entry) (commit : Z) : node * output :=
  match find_stream n sid with
  | None => (n, out RImpossible)
  | Some s =>
    if negb s.(s_recv) then (n, out RImpossible)
    else
      let fail (n' : node) (er : err) :=
        (set_cur (upd_stream n' (mkS sid s.(s_term) s.(s_open) s.(s_acked) false s.(s_sync))) None, out (RErr er)) in
      if negb (s.(s_term) =? n.(n_term)) then fail n EInvalidTerm
      else
        let n1 := set_status n Follower in
        if e_off e <=? n1.(n_last) then
          (* duplicate *)
          let n2 := if c.(fix_dup) && (last_synced n1.(n_wal) n1.(n_synced) <? e_off e)
                    then sync_all n1 else n1 in
          (n2, mkO ROk [(sid, e_off e)] [])
        else
          match wal_append n1.(n_wal) e with
          | None => fail n1 EInvalidNextOffset
          | Some w' =>
            (set_signal (set_last_adv (set_wal n1 w' n1.(n_synced)) (e_off e) commit) true, out ROk)
          end
  end.

(* handleReplicateSync: syncCond.Wait returns, oldHead := wal.LastOffset(), Sync is issued *)
Definition follower_sync_begin (n : node) (sid : nat) : node * output :=
  match find_stream n sid with
  | Some s =>
    match s.(s_sync), n.(n_signal) with
    | SIdle, true =>
      (set_signal (upd_stream n (mkS sid s.(s_term) s.(s_open) s.(s_acked) s.(s_recv)
                                     (SBusy (last_synced n.(n_wal) n.(n_synced))))) false, out ROk)
    | _, _ => (n, out RImpossible)
    end
  | None => (n, out RImpossible)
  end.

(* The follower's apply loop (applyAllCommittedEntries) is a goroutine of its own whose timing the
   harness cannot force; it only moves the DB commit offset over entries that are already synced and is
   the subject of C06/C07.  It is not part of this model: schedules advertise commit offset -1. *)
(* ... Sync returned: acks old+1..new, applyEntriesCond.Signal *)
Definition follower_sync_end (c : cfg) (n : node) (sid : nat) : node * output :=
  match find_stream n sid with
  | Some s =>
    match s.(s_sync) with
    | SBusy old =>
      let n1 := sync_all n in
      let new := last_synced n1.(n_wal) n1.(n_synced) in
      if c.(fix_ack) then
        if negb (s.(s_open) =? n1.(n_term)) then
          (upd_stream n1 (mkS sid s.(s_term) s.(s_open) s.(s_acked) s.(s_recv) SDead), out ROk)
        else
          (upd_stream n1 (mkS sid s.(s_term) s.(s_open) new s.(s_recv) SIdle),
           mkO ROk (map (fun o => (sid, o)) (ack_range (Z.min s.(s_acked) new) new)) [])
      else
        (upd_stream n1 (mkS sid s.(s_term) s.(s_open) s.(s_acked) s.(s_recv) SIdle),
         mkO ROk (map (fun o => (sid, o)) (ack_range old new)) [])
    | _ => (n, out RImpossible)
    end
  | None => (n, out RImpossible)
  end.

(* the stream dies (Recv fails / context cancelled): both goroutines call closeStream and end;
   a sync that was in flight still completes in the WAL *)
Definition follower_stream_break (n : node) (sid : nat) : node * output :=
  match find_stream n sid with
  | Some s =>
    let alive := s.(s_recv) || match s.(s_sync) with SDead => false | _ => true end in
    if negb alive then (n, out RImpossible)
    else
      let n1 := match s.(s_sync) with SBusy _ => sync_all n | _ => n end in
      (set_cur (upd_stream n1 (mkS sid s.(s_term) s.(s_open) s.(s_acked) false SDead)) None, out ROk)
  | None => (n, out RImpossible)
  end.

(* SendSnapshot + handleSnapshot (one critical section).  Before the repair the WAL (and the DB,
   with the stored term: not modelled) are wiped before the term of the first chunk is looked at *)
Definition follower_snapshot (cf : cfg) (n : node) (sid : nat) (t : Z) (c : Z) (f : nat) : node * output :=
  match n.(n_cur) with
  | Some _ => (n, out (RErr EAlreadyConnected))
  | None =>
    let bad_term := negb (n.(n_term) =? -1) && negb (t =? n.(n_term)) in
    if cf.(fix_snap) && Nat.eqb f 1 then (n, out (RErr EStream)) else
    if cf.(fix_snap) && bad_term then (n, out (RErr EInvalidTerm)) else
    let n1 := set_wal n [] O in
    if Nat.eqb f 1 then (wipe_db n1 n1.(n_term), out (RErr EStream)) else
    if bad_term then (wipe_db n1 n1.(n_term), out (RErr EInvalidTerm)) else
    (* the first chunk has been accepted: WAL cleared, DB closed and its directory emptied *)
    match f with
    | 2%nat => (wipe_db n1 t, out (RErr EStream))
    | 3%nat => (wipe_db n1 t, out (RErr EInvalidTerm))
    | _ => (set_fcommit (set_last_adv (set_commit (set_term_status n1 t n1.(n_status)) c) c n1.(n_adv)) c, out (RSnap c))
    end
  end.

(* ---- leader_controller.go (replication factor 1: no cursors) *)

Definition tracker_open (n : node) (g : nat) : bool :=
  match n.(n_trk) with Some _ => Nat.eqb g n.(n_gen) | None => false end.

(* the sync callbacks of write(), in order *)
Fixpoint complete_writes (n : node) (p : list (Z * nat)) (acc : list (Z * bool)) : node * list (Z * bool) :=
  match p with
  | [] => (n, rev acc)
  | (o, g) :: tl =>
    match n.(n_trk) with
    | Some (nx, hd, cm) =>
      if Nat.eqb g n.(n_gen) then
        (* AdvanceHeadOffset (requiredAcks = 0: commits), ProcessWrite stores the commit offset *)
        let '(hd', cm') := if o <=? hd then (hd, cm) else (o, Z.max cm o) in
        let n' := set_commit (set_leader n (Some (nx, hd', cm')) n.(n_gen) n.(n_pend))
                             o in  (* ProcessWrite stores the entry's offset as the commit offset, whatever it was *)
        complete_writes n' tl ((o, true) :: acc)
      else complete_writes n tl ((o, false) :: acc)
    | None => complete_writes n tl ((o, false) :: acc)
    end
  end.

Definition leader_sync_done (n : node) : node * output :=
  let n1 := sync_all n in
  let '(n2, res) := complete_writes n1 n1.(n_pend) [] in
  (set_leader n2 n2.(n_trk) n2.(n_gen) [], mkO ROk [] res).

(* NewTerm, under lc.Lock *)
Definition leader_new_term (c : cfg) (n : node) (t : Z) : node * output :=
  if t <? n.(n_term) then (n, out (RErr EInvalidTerm))
  else if (t =? n.(n_term)) && match n.(n_status) with Fenced => false | _ => true end
  then (n, out (RErr EInvalidStatus))
  else
    let n1 := set_leader (set_term_status n t Fenced) None n.(n_gen) n.(n_pend) in
    (* repaired: Sync under the lock; the pending write callbacks run against the closed tracker *)
    let '(n2, res) := if c.(fix_head) then
                        let '(m, r) := complete_writes (sync_all n1) n1.(n_pend) [] in
                        (set_leader m m.(n_trk) m.(n_gen) [], r)
                      else (n1, []) in
    match get_last_eid n2.(n_wal) n2.(n_synced) with
    | Some h => (n2, mkO (RHead h) [] res)
    | None => (n2, mkO (RErr EWalRead) [] res)
    end.

(* BecomeLeader with an empty follower map, rf = 1 *)
Definition leader_become (n : node) (t : Z) : node * output :=
  match n.(n_status) with
  | Fenced =>
    if negb (t =? n.(n_term)) then (n, out (RErr EInvalidTerm))
    else match get_last_eid n.(n_wal) n.(n_synced) with
    | None => (n, out (RErr EWalRead))
    | Some h =>
      let g := S n.(n_gen) in
      let n1 := set_leader n (Some (snd h, snd h, n.(n_commit))) g n.(n_pend) in
      (* applyAllEntriesIntoDB: NewReader(dbCommit) *)
      if (n1.(n_commit) + 1 <? first_off n1.(n_wal)) then (n1, out (RErr ENotFound))
      else
        let ls := last_synced n1.(n_wal) n1.(n_synced) in
        let n2 := if n1.(n_commit) <? ls then set_commit n1 ls else n1 in
        (set_status n2 Leader, out ROk)
    end
  | _ => (n, out (RErr EInvalidStatus))
  end.

(* write(): status check, NextOffset and AppendAndSync are one critical section *)
Definition leader_write (n : node) (p : Z) : node * output :=
  match n.(n_status), n.(n_trk) with
  | Leader, Some (nx, hd, cm) =>
    let o := nx + 1 in
    let n1 := set_leader n (Some (o, hd, cm)) n.(n_gen) n.(n_pend) in
    match wal_append n1.(n_wal) (mkE n1.(n_term) o p) with
    | None => (n1, mkO ROk [] [(o, false)])
    | Some w' => (set_leader (set_wal n1 w' n1.(n_synced)) n1.(n_trk) n1.(n_gen)
                             (n1.(n_pend) ++ [(o, n1.(n_gen))]), out ROk)
    end
  | _, _ => (n, out (RErr EInvalidStatus))
  end.

(* ---- internal_rpc_server.go / public write path: which controller an RPC reaches *)
Definition step (c : cfg) (n : node) (a : action) : node * output :=
  match a with
  | NewTermReq t =>
    match n.(n_role) with
    | RFollower => follower_new_term c n t
    | _ => leader_new_term c (get_or_create_leader n) t
    end
  | TruncateReq t h =>
    match get_or_create_follower n t with
    | None => (n, out (RErr EInvalidTerm))
    | Some n1 => follower_truncate c n1 t h
    end
  | ReplicateOpen sid t =>
    match get_or_create_follower n t with
    | None => (n, out (RErr EInvalidTerm))
    | Some n1 => follower_replicate_open c n1 sid t
    end
  | SnapshotInstall sid t cm f =>
    match get_or_create_follower n t with
    | None => (n, out (RErr EInvalidTerm))
    | Some n1 => follower_snapshot c n1 sid t cm f
    end
  | FollowerAppend sid e cm =>
    match n.(n_role) with RFollower => follower_append c n sid e cm | _ => (n, out RImpossible) end
  | SyncBegin sid =>
    match n.(n_role) with RFollower => follower_sync_begin n sid | _ => (n, out RImpossible) end
  | SyncEnd sid =>
    match n.(n_role) with RFollower => follower_sync_end c n sid | _ => (n, out RImpossible) end
  | StreamBreak sid =>
    match n.(n_role) with RFollower => follower_stream_break n sid | _ => (n, out RImpossible) end
  | CrashRestart k =>
    let k' := Nat.max n.(n_synced) (Nat.min k (length n.(n_wal))) in
    (mkN (dterm n) (firstn k' n.(n_wal)) k' n.(n_commit) RNone (status_of_term (dterm n))
         (-1) 0 None [] false None n.(n_gen) [] false n.(n_commit), out ROk)
  | BecomeLeaderReq t => leader_become (get_or_create_leader n) t
  | ClientWrite p =>
    match n.(n_role) with RLeader => leader_write n p | _ => (n, out (RErr ENotLeader)) end
  | LeaderSyncDone =>
    match n.(n_role) with RLeader => leader_sync_done n | _ => (n, out RImpossible) end
  | DeleteShardReq t =>
    (* shards_director.go DeleteShard: the loaded controller, or a follower controller opened for the occasion, compares the
       term of the request with its own (the stored one when nothing is loaded).
       Refused: the controller that handled it is closed (and, if it was the loaded one, stays in the director, unusable:
       the node is then restarted - the harness does it - and the shard is not loaded any more).
       Accepted: WAL and DB are deleted. *)
    let tcur := match n.(n_role) with RNone => dterm n | _ => n.(n_term) end in
    if t <? tcur then
      match n.(n_role) with
      | RNone => (n, out (RErr EInvalidTerm))
      | _ => (mkN (dterm n) n.(n_wal) (length n.(n_wal)) n.(n_commit) RNone (status_of_term (dterm n))
                  (-1) 0 None [] false None n.(n_gen) [] false n.(n_commit), out (RErr EInvalidTerm))
      end
    else
      (* followerController.DeleteShard dereferences fc.db, which is nil after a snapshot install that failed half-way: the
         process dies after the WAL has been deleted (the DB directory is already empty) *)
      (mkN (-1) [] O (-1) RNone NotMember (-1) 0 None [] false None n.(n_gen) [] false (-1),
       out (if n.(n_termlost) then RErr EPanic else ROk))
  end.

(* executions: the state after a schedule and the outputs, in order *)
Fixpoint run (c : cfg) (n : node) (l : list action) : node * list output :=
  match l with
  | [] => (n, [])
  | a :: tl => let '(n1, o) := step c n a in
               let '(n2, os) := run c n1 tl in (n2, o :: os)
  end.

Definition state_after (c : cfg) (n : node) (l : list action) : node := fst (run c n l).

(* what GetStatus answers: role, term, status, head offset, commit offset *)
Definition status_view (n : node) : role * Z * status * Z * Z :=
  match n.(n_role) with
  | RFollower => (RFollower, n.(n_term), n.(n_status), n.(n_last), n.(n_fcommit))
  | RLeader =>
    match n.(n_trk) with
    | Some (_, hd, cm) => (RLeader, n.(n_term), n.(n_status), hd, cm)
    | None => (RLeader, n.(n_term), n.(n_status), -1, -1)
    end
  | RNone => (RNone, n.(n_term), n.(n_status), -1, -1)
  end.
