(* C04 on the repaired model ([cfg_fixed]): structural invariant of every reachable state, truthful head
   in the NewTerm response, no change of the log until an action of a term >= T, and "every progress
   event (WAL append, Ack, completed client write) is on behalf of the node's current term". *)
From Coq Require Import List ZArith Bool Lia.
From Oxia.Node Require Import Model Lemmas.
Import ListNotations.
Open Scope Z_scope.

(* ------------------------------------------------------------------ invariant *)
Definition stream_ok (n : node) (s : stream) : Prop :=
  (0 <= s_term s -> s_term s = s_open s) /\ s_open s <= n_term n.

Definition pend_ok (n : node) : Prop :=
  forall o g, In (o, g) (n_pend n) ->
    (g <= n_gen n)%nat /\
    (g = n_gen n -> n_trk n <> None -> exists e, In e (n_wal n) /\ e_off e = o /\ e_term e = n_term n).

Definition inv (n : node) : Prop :=
  wal_ok (n_wal n) /\
  (n_synced n <= length (n_wal n))%nat /\
  (n_status n = Fenced -> n_synced n = length (n_wal n)) /\
  (forall s, In s (n_streams n) -> stream_ok n s) /\
  pend_ok n /\
  (n_role n <> RLeader -> n_pend n = []) /\
  (n_status n = Leader -> n_role n = RLeader /\ n_trk n <> None) /\
  n_termlost n = false.

Lemma inv_init : inv init.
Proof.
  unfold inv, init, pend_ok; cbn. repeat split; try exact I; try lia; try contradiction; try discriminate; intros; try contradiction; try discriminate.
Qed.

(* ------------------------------------------------------------------ small facts about the helpers *)
Lemma find_stream_In : forall n sid s, find_stream n sid = Some s -> In s (n_streams n) /\ s_id s = sid.
Proof.
  intros n sid s H. unfold find_stream in H. apply find_some in H. destruct H as [Hin He].
  apply Nat.eqb_eq in He. split; assumption.
Qed.

Lemma In_upd_stream : forall n s' x, In x (n_streams (upd_stream n s')) ->
  In x (n_streams n) \/ x = s'.
Proof.
  intros n s' x H. unfold upd_stream, set_streams in H. cbn in H. apply in_map_iff in H.
  destruct H as [y [Hy Hin]]. destruct (Nat.eqb (s_id y) (s_id s')); subst; [right; reflexivity|left; assumption].
Qed.

Definition same_but_trk_commit (n n' : node) : Prop :=
  n_term n' = n_term n /\ n_wal n' = n_wal n /\ n_synced n' = n_synced n /\ n_role n' = n_role n /\
  n_status n' = n_status n /\ n_streams n' = n_streams n /\ n_cur n' = n_cur n /\ n_gen n' = n_gen n /\
  n_pend n' = n_pend n /\ n_last n' = n_last n /\
  (n_trk n = None -> n_trk n' = None) /\ (n_trk n <> None -> n_trk n' <> None) /\ n_termlost n' = n_termlost n.

Lemma same_refl : forall n, same_but_trk_commit n n.
Proof. intro n. unfold same_but_trk_commit. repeat split; auto. Qed.

Lemma same_trans : forall a b c, same_but_trk_commit a b -> same_but_trk_commit b c -> same_but_trk_commit a c.
Proof.
  unfold same_but_trk_commit. intros a b c (?&?&?&?&?&?&?&?&?&?&?&?&?) (?&?&?&?&?&?&?&?&?&?&?&?&?).
  repeat split; try congruence; auto.
Qed.

Lemma complete_writes_pres : forall p n acc n' res, complete_writes n p acc = (n', res) ->
  same_but_trk_commit n n'.
Proof.
  induction p as [|[o g] tl IH]; intros n acc n' res H; cbn in H.
  - inversion H; subst. apply same_refl.
  - destruct (n_trk n) as [[[nx hd] cm]|] eqn:Ht.
    + destruct (Nat.eqb g (n_gen n)).
      * destruct (o <=? hd); apply IH in H; (eapply same_trans; [|exact H]);
          unfold same_but_trk_commit; cbn; rewrite Ht; repeat split; auto; intros; discriminate.
      * apply IH in H. exact H.
    + apply IH in H. exact H.
Qed.

(* results of client writes that report success: the tracker of their generation is open *)
Lemma complete_writes_true : forall p n acc n' res o, complete_writes n p acc = (n', res) ->
  In (o, true) res -> In (o, true) acc \/ (In (o, n_gen n) p /\ n_trk n <> None).
Proof.
  induction p as [|[o1 g] tl IH]; intros n acc n' res o H Hin; cbn in H.
  - inversion H; subst. left. apply in_rev. assumption.
  - destruct (n_trk n) as [[[nx hd] cm]|] eqn:Ht.
    + destruct (Nat.eqb g (n_gen n)) eqn:Hg.
      * apply Nat.eqb_eq in Hg. subst g.
        destruct (o1 <=? hd).
        -- pose proof (IH _ _ _ _ o H Hin) as IHr; cbn in IHr.
           destruct IHr as [Hr|[Hp Hn]].
           ++ destruct Hr as [Hr|Hr].
              ** inversion Hr; subst. right. split. left; reflexivity. discriminate.
              ** left; assumption.
           ++ right. split. right; assumption. discriminate.
        -- pose proof (IH _ _ _ _ o H Hin) as IHr; cbn in IHr.
           destruct IHr as [Hr|[Hp Hn]].
           ++ destruct Hr as [Hr|Hr].
              ** inversion Hr; subst. right. split. left; reflexivity. discriminate.
              ** left; assumption.
           ++ right. split. right; assumption. discriminate.
      * pose proof (IH _ _ _ _ o H Hin) as IHr. destruct IHr as [Hr|[Hp Hn]].
        -- destruct Hr as [Hr|Hr]; [inversion Hr|left; assumption].
        -- right. split; [right; assumption|discriminate].
    + pose proof (IH _ _ _ _ o H Hin) as IHr. destruct IHr as [Hr|[Hp Hn]].
      * destruct Hr as [Hr|Hr]; [inversion Hr|left; assumption].
      * congruence.
Qed.

(* ------------------------------------------------------------------ preservation of [inv] *)
Ltac break_inv H :=
  let A1 := fresh "Hwal" in let A2 := fresh "Hsyn" in let A3 := fresh "Hfen" in let A4 := fresh "Hstr" in
  let A5 := fresh "Hpend" in let A6 := fresh "Hrole" in let A7 := fresh "Hlead" in let A8 := fresh "Htl" in
  destruct H as (A1 & A2 & A3 & A4 & A5 & A6 & A7 & A8).

Lemma pend_ok_nil : forall n, n_pend n = [] -> pend_ok n.
Proof. intros n H o g Hin. rewrite H in Hin. contradiction. Qed.

Lemma status_of_term_not_leader : forall t, status_of_term t <> Leader.
Proof. intro t. unfold status_of_term. destruct (t =? -1); discriminate. Qed.

Ltac inv7 := unfold inv; cbn; refine (conj _ (conj _ (conj _ (conj _ (conj _ (conj _ (conj _ _))))))).

Ltac fin :=
  try solve [apply pend_ok_nil; reflexivity];
  try solve [apply pend_ok_nil; cbn; assumption];
  try solve [intro Hs_; exfalso; eapply status_of_term_not_leader; eassumption];
  try solve [exfalso; eapply status_of_term_not_leader; eassumption];
  try solve [intros; discriminate];
  try solve [match goal with Hl : n_status ?n = Leader -> _, Hr : n_role ?n = RFollower |- _ =>
               let X := fresh in intro X; destruct (Hl X) as [? _]; congruence end];
  auto; try lia; try contradiction.

Lemma inv_open_follower : forall n, inv n -> inv (open_follower n).
Proof.
  intros n H. break_inv H. unfold inv, open_follower; cbn.
  repeat split; fin.
Qed.

Lemma inv_open_leader : forall n, inv n -> inv (open_leader n).
Proof.
  intros n H. break_inv H. unfold inv, open_leader; cbn.
  repeat split; fin.
Qed.

Lemma dterm_inv : forall n, inv n -> dterm n = n_term n.
Proof. intros n H. break_inv H. unfold dterm. rewrite Htl. reflexivity. Qed.

Lemma inv_get_or_create_follower : forall n t n1, inv n -> get_or_create_follower n t = Some n1 ->
  inv n1 /\ n_role n1 = RFollower /\ n_term n1 = n_term n /\ n_wal n1 = n_wal n.
Proof.
  intros n t n1 H Hg. unfold get_or_create_follower in Hg. pose proof (dterm_inv _ H) as Hd.
  destruct (n_role n) eqn:Hr.
  - inversion Hg; subst. split; [apply inv_open_follower; assumption|]. split; [reflexivity|]. split; [exact Hd|reflexivity].
  - inversion Hg; subst. split; [assumption|]. split; [assumption|]. split; reflexivity.
  - destruct ((0 <=? t) && negb (t =? n_term n)); [discriminate|]. inversion Hg; subst.
    split; [apply inv_open_follower; assumption|]. split; [reflexivity|]. split; [exact Hd|reflexivity].
Qed.

Lemma inv_get_or_create_leader : forall n, inv n ->
  inv (get_or_create_leader n) /\ n_role (get_or_create_leader n) = RLeader /\
  n_term (get_or_create_leader n) = n_term n /\ n_wal (get_or_create_leader n) = n_wal n.
Proof.
  intros n H. unfold get_or_create_leader. pose proof (dterm_inv _ H) as Hd. destruct (n_role n) eqn:Hr.
  - split; [apply inv_open_leader; assumption|]. split; [reflexivity|]. split; [exact Hd|reflexivity].
  - split; [apply inv_open_leader; assumption|]. split; [reflexivity|]. split; [exact Hd|reflexivity].
  - split; [assumption|]. split; [assumption|]. split; reflexivity.
Qed.

Lemma stream_ok_term_le : forall n n' s, stream_ok n s -> n_term n <= n_term n' -> stream_ok n' s.
Proof. unfold stream_ok. intros n n' s [H1 H2] Hle. split; [assumption|lia]. Qed.

Lemma inv_follower_new_term : forall n t n' o, inv n -> n_role n = RFollower ->
  follower_new_term cfg_fixed n t = (n', o) -> inv n'.
Proof.
  intros n t n' o H Hrf Hs. unfold follower_new_term in Hs.
  destruct (t <? n_term n) eqn:Hlt; [inversion Hs; subst; assumption|]. apply Z.ltb_ge in Hlt.
  cbn [fix_head cfg_fixed] in Hs. break_inv H.
  assert (Hp : n_pend n = []) by (apply Hrole; rewrite Hrf; discriminate).
  assert (inv (sync_all (set_cur (set_term_status n t Fenced) None))).
  { inv7; fin.
    intros s Hin. apply (stream_ok_term_le n); [auto|cbn; lia]. }
  destruct (get_last_eid _ _); inversion Hs; subst; assumption.
Qed.

Lemma inv_leader_new_term : forall n t n' o, inv n ->
  leader_new_term cfg_fixed n t = (n', o) -> inv n'.
Proof.
  intros n t n' o H Hs. unfold leader_new_term in Hs.
  destruct (t <? n_term n) eqn:Hlt; [inversion Hs; subst; assumption|]. apply Z.ltb_ge in Hlt.
  destruct ((t =? n_term n) && _); [inversion Hs; subst; assumption|].
  cbn [fix_head cfg_fixed] in Hs.
  destruct (complete_writes _ _ _) as [m r] eqn:Hc.
  apply complete_writes_pres in Hc. unfold same_but_trk_commit in Hc. cbn in Hc.
  destruct Hc as (Ht & Hw & Hsy & Hro & Hst & Hstr' & Hcu & Hge & Hpe & Hla & Htn & Htnn & Htl').
  break_inv H.
  assert (inv (set_leader m (n_trk m) (n_gen m) [])).
  { inv7; rewrite ?Hw, ?Hsy, ?Hst, ?Hstr', ?Hro, ?Htl'; fin.
    intros s Hin. apply (stream_ok_term_le n); [auto|cbn; lia]. }
  destruct (get_last_eid _ _); inversion Hs; subst; assumption.
Qed.

Lemma stream_ok_same_term : forall n n' s, stream_ok n s -> n_term n' = n_term n -> stream_ok n' s.
Proof. intros. eapply stream_ok_term_le; [eassumption|lia]. Qed.

Lemma streams_upd_ok : forall l m m' s s' k,
  (forall x, In x l -> stream_ok m x) -> In s l -> n_term m' = n_term m ->
  s_term s' = s_term s -> s_open s' = s_open s ->
  forall x, In x (map (fun y => if Nat.eqb (s_id y) k then s' else y) l) -> stream_ok m' x.
Proof.
  intros l m m' s s' k Hall Hin Hm Ht Ho x Hx. apply in_map_iff in Hx. destruct Hx as [y [Hy Hiny]].
  destruct (Nat.eqb (s_id y) k).
  - subst x. specialize (Hall s Hin). unfold stream_ok in *. rewrite Ht, Ho, Hm. assumption.
  - subst x. eapply stream_ok_same_term; [apply Hall; assumption|assumption].
Qed.

Lemma follower_pend_nil : forall n, inv n -> n_role n = RFollower -> n_pend n = [].
Proof. intros n H Hr. break_inv H. apply Hrole. rewrite Hr. discriminate. Qed.

Lemma inv_follower_truncate : forall n t h n' o, inv n -> n_role n = RFollower ->
  follower_truncate cfg_fixed n t h = (n', o) -> inv n'.
Proof.
  intros n t h n' o H Hrf Hs. pose proof (follower_pend_nil _ H Hrf) as Hp. unfold follower_truncate in Hs.
  destruct (n_status n) eqn:Hst; try (inversion Hs; subst; assumption).
  destruct (negb (t =? n_term n)); [inversion Hs; subst; assumption|].
  break_inv H. cbn [fix_trunc cfg_fixed] in Hs.
  destruct (wal_truncate _ _ _) as [[[w' s'] ho]|] eqn:Htr.
  - cbn in Htr. apply wal_truncate_ok in Htr; [|assumption]. destruct Htr as (Hok & [k Hk] & Hs').
    inversion Hs; subst n' o. inv7; rewrite ?Hrf; fin.
    destruct Hs' as [Hs'|[Hw' Hs']]; [lia|]. cbn in Hw', Hs'. rewrite Hw', Hs'. assumption.
  - inversion Hs; subst n' o. inv7; rewrite ?Hrf; fin.
Qed.

Lemma inv_follower_replicate_open : forall n sid t n' o, inv n -> n_role n = RFollower ->
  follower_replicate_open cfg_fixed n sid t = (n', o) -> inv n'.
Proof.
  intros n sid t n' o H Hrf Hs. pose proof (follower_pend_nil _ H Hrf) as Hp. unfold follower_replicate_open in Hs.
  destruct (find_stream n sid); [inversion Hs; subst; assumption|].
  cbn [fix_open cfg_fixed] in Hs.
  assert (Hmain : forall st, n_status n = st -> (st = Fenced \/ st = Follower) ->
     (if true && (0 <=? t) && negb (t =? n_term n) then (n, out (RErr EInvalidTerm))
      else match n_cur n with
           | Some _ => (n, out (RErr EAlreadyConnected))
           | None => (set_streams (set_cur n (Some sid))
                        (n_streams n ++ [mkS sid t (n_term n) (if first_off (n_wal n) =? -1 then n_last n else last_synced (n_wal n) (n_synced n)) true SIdle]), out ROk)
           end) = (n', o) -> inv n').
  { intros st Hst Hor Hx. destruct (true && (0 <=? t) && negb (t =? n_term n)) eqn:Hc; [inversion Hx; subst; assumption|].
    destruct (n_cur n); [inversion Hx; subst; assumption|]. inversion Hx; subst n' o. break_inv H.
    inv7; rewrite ?Hrf; fin.
    intros s0 Hin. apply in_app_or in Hin. destruct Hin as [Hin|Hin].
    - eapply stream_ok_same_term; [apply Hstr; assumption|reflexivity].
    - destruct Hin as [Hin|Hin]; [|contradiction]. subst s0. unfold stream_ok; cbn. split; [|lia]. intro Hge.
      cbn [andb] in Hc. apply andb_false_iff in Hc. destruct Hc as [Hc|Hc].
      + apply Z.leb_gt in Hc. lia.
      + apply negb_false_iff in Hc. apply Z.eqb_eq in Hc. assumption. }
  destruct (n_status n) eqn:Hst; try (inversion Hs; subst; assumption).
  - eapply Hmain; [reflexivity|left; reflexivity|exact Hs].
  - eapply Hmain; [reflexivity|right; reflexivity|exact Hs].
Qed.

Lemma status_follower_not_leader : forall n, n_role n = RFollower -> inv n -> n_status n <> Leader.
Proof. intros n Hrf H Hl. break_inv H. destruct (Hlead Hl) as [Hr _]. congruence. Qed.

Lemma inv_follower_append : forall n sid e c n' o, inv n -> n_role n = RFollower ->
  follower_append cfg_fixed n sid e c = (n', o) -> inv n'.
Proof.
  intros n sid e c n' o H Hrf Hs. pose proof (follower_pend_nil _ H Hrf) as Hp. unfold follower_append in Hs.
  destruct (find_stream n sid) as [s|] eqn:Hf; [|inversion Hs; subst; assumption].
  apply find_stream_In in Hf. destruct Hf as [Hin Hid].
  destruct (negb (s_recv s)); [inversion Hs; subst; assumption|].
  break_inv H.
  destruct (negb (s_term s =? n_term n)).
  { inversion Hs; subst n' o. inv7; rewrite ?Hrf; fin.
    eapply (streams_upd_ok _ n); eauto. }
  cbn [fix_dup cfg_fixed] in Hs.
  destruct (e_off e <=? n_last (set_status n Follower)).
  { destruct (true && (last_synced _ _ <? e_off e)); inversion Hs; subst n' o; inv7; rewrite ?Hrf; fin. }
  destruct (wal_append (n_wal (set_status n Follower)) e) as [w'|] eqn:Ha.
  - cbn in Ha. apply wal_append_ok in Ha; [|assumption]. destruct Ha as [Hw' Hok].
    inversion Hs; subst n' o. inv7; rewrite ?Hrf; fin.
    subst w'. rewrite app_length. cbn. lia.
  - inversion Hs; subst n' o. inv7; rewrite ?Hrf; fin.
    eapply (streams_upd_ok _ n); eauto.
Qed.

Lemma inv_follower_sync_begin : forall n sid n' o, inv n -> n_role n = RFollower ->
  follower_sync_begin n sid = (n', o) -> inv n'.
Proof.
  intros n sid n' o H Hrf Hs. pose proof (follower_pend_nil _ H Hrf) as Hp. unfold follower_sync_begin in Hs.
  destruct (find_stream n sid) as [s|] eqn:Hf; [|inversion Hs; subst; assumption].
  apply find_stream_In in Hf. destruct Hf as [Hin Hid]. break_inv H.
  destruct (s_sync s); try (inversion Hs; subst; inv7; fin; fail).
  destruct (n_signal n); inversion Hs; subst n' o; [|inv7; fin].
  inv7; rewrite ?Hrf; fin. eapply (streams_upd_ok _ n); eauto.
Qed.

Lemma inv_follower_sync_end : forall n sid n' o, inv n -> n_role n = RFollower ->
  follower_sync_end cfg_fixed n sid = (n', o) -> inv n'.
Proof.
  intros n sid n' o H Hrf Hs. pose proof (follower_pend_nil _ H Hrf) as Hp. unfold follower_sync_end in Hs.
  destruct (find_stream n sid) as [s|] eqn:Hf; [|inversion Hs; subst; assumption].
  apply find_stream_In in Hf. destruct Hf as [Hin Hid]. break_inv H.
  destruct (s_sync s); try (inversion Hs; subst; inv7; fin; fail).
  cbn [fix_ack cfg_fixed] in Hs.
  destruct (negb (s_open s =? n_term (sync_all n))); inversion Hs; subst n' o; inv7; rewrite ?Hrf; fin;
    eapply (streams_upd_ok _ n); eauto.
Qed.

Lemma inv_follower_stream_break : forall n sid n' o, inv n -> n_role n = RFollower ->
  follower_stream_break n sid = (n', o) -> inv n'.
Proof.
  intros n sid n' o H Hrf Hs. pose proof (follower_pend_nil _ H Hrf) as Hp. unfold follower_stream_break in Hs.
  destruct (find_stream n sid) as [s|] eqn:Hf; [|inversion Hs; subst; assumption].
  apply find_stream_In in Hf. destruct Hf as [Hin Hid]. break_inv H.
  destruct (negb _); [inversion Hs; subst; inv7; fin|].
  destruct (s_sync s); inversion Hs; subst n' o; inv7; rewrite ?Hrf; fin; eapply (streams_upd_ok _ n); eauto.
Qed.

(* terms carried by requests are real terms (>= -1; -1 is "no term") *)
Definition wf_action (a : action) : Prop :=
  match a with SnapshotInstall _ t _ f => -1 <= t /\ (f <= 1)%nat | _ => True end.

Lemma inv_follower_snapshot : forall n sid t c f n' o, inv n -> n_role n = RFollower -> -1 <= t -> (f <= 1)%nat ->
  follower_snapshot cfg_fixed n sid t c f = (n', o) -> inv n'.
Proof.
  intros n sid t c f n' o H Hrf Ht Hf Hs. pose proof (follower_pend_nil _ H Hrf) as Hp. unfold follower_snapshot in Hs.
  destruct (n_cur n); [inversion Hs; subst; assumption|].
  cbn [fix_snap cfg_fixed] in Hs.
  destruct f as [|[|f']]; [|inversion Hs; subst; assumption|lia]. cbn [Nat.eqb andb] in Hs.
  break_inv H.
  destruct (negb (n_term n =? -1) && negb (t =? n_term n)) eqn:Hb; [inversion Hs; subst; inv7; fin|].
  inversion Hs; subst n' o. inv7; rewrite ?Hrf; fin.
  intros s Hin. apply (stream_ok_term_le n); [auto|]. cbn.
  apply andb_false_iff in Hb. destruct Hb as [Hb|Hb]; apply negb_false_iff in Hb; apply Z.eqb_eq in Hb.
  - specialize (Hstr s Hin). destruct Hstr as [_ Hle]. lia.
  - lia.
Qed.

Lemma inv_crash : forall n k, inv n ->
  inv (mkN (dterm n) (firstn (Nat.max (n_synced n) (Nat.min k (length (n_wal n)))) (n_wal n))
           (Nat.max (n_synced n) (Nat.min k (length (n_wal n)))) (n_commit n) RNone (status_of_term (dterm n))
           (-1) 0 None [] false None (n_gen n) [] false (n_commit n)).
Proof.
  intros n k H. break_inv H. inv7; fin.
  - apply wal_ok_firstn. assumption.
  - rewrite firstn_length. lia.
  - intros _. rewrite firstn_length. lia.
Qed.

Lemma inv_leader_become : forall n t n' o, inv n -> n_role n = RLeader ->
  leader_become n t = (n', o) -> inv n'.
Proof.
  intros n t n' o H Hrl Hs. unfold leader_become in Hs.
  destruct (n_status n) eqn:Hst; try (inversion Hs; subst; assumption).
  destruct (negb (t =? n_term n)); [inversion Hs; subst; assumption|].
  destruct (get_last_eid _ _) as [h|]; [|inversion Hs; subst; assumption].
  break_inv H.
  assert (Hpk : forall m, n_pend m = n_pend n -> n_gen m = S (n_gen n) -> pend_ok m).
  { intros m Hpm Hgm o1 g Hin. rewrite Hpm in Hin. destruct (Hpend _ _ Hin) as [Hle _]. rewrite Hgm. split; [lia|]. intro; lia. }
  destruct (n_commit _ + 1 <? first_off _).
  - inversion Hs; subst n' o. inv7; rewrite ?Hst; fin; try (apply Hpk; reflexivity).
  - destruct (n_commit _ <? last_synced _ _); inversion Hs; subst n' o; inv7; rewrite ?Hst; fin;
      try (apply Hpk; reflexivity); try (intros; split; [assumption|discriminate]).
Qed.

Lemma inv_leader_write : forall n p n' o, inv n -> n_role n = RLeader ->
  leader_write n p = (n', o) -> inv n'.
Proof.
  intros n p n' o H Hrl Hs. unfold leader_write in Hs.
  destruct (n_status n) eqn:Hst; try (inversion Hs; subst; assumption).
  destruct (n_trk n) as [[[nx hd] cm]|] eqn:Htr; [|inversion Hs; subst; assumption].
  break_inv H. cbn in Hs.
  destruct (wal_append (n_wal n) _) as [w'|] eqn:Ha.
  - apply wal_append_ok in Ha; [|assumption]. destruct Ha as [Hw' Hok].
    inversion Hs; subst n' o. inv7; rewrite ?Hst; fin.
    + subst w'. rewrite app_length. cbn. lia.
    + unfold pend_ok; cbn. intros o1 g Hin. apply in_app_or in Hin. destruct Hin as [Hin|[Hin|[]]].
      * destruct (Hpend _ _ Hin) as [Hle Hex]. split; [assumption|]. intros Hg _.
        destruct (Hex Hg) as [e [He1 He2]]; [rewrite Htr; discriminate|].
        exists e. split; [subst w'; apply in_or_app; left; assumption|assumption].
      * inversion Hin; subst o1 g. split; [lia|]. intros _ _.
        eexists. split; [subst w'; apply in_or_app; right; left; reflexivity|]. cbn. split; reflexivity.
    + intros _. split; [assumption|discriminate].
  - inversion Hs; subst n' o. inv7; rewrite ?Hst; fin.
    + unfold pend_ok; cbn. intros o1 g Hin. destruct (Hpend _ _ Hin) as [Hle Hex]. split; [assumption|]. intros Hg _.
      apply Hex; [assumption|rewrite Htr; discriminate].
    + intros _. split; [assumption|discriminate].
Qed.

Lemma inv_leader_sync_done : forall n n' o, inv n -> leader_sync_done n = (n', o) -> inv n'.
Proof.
  intros n n' o H Hs. unfold leader_sync_done in Hs.
  destruct (complete_writes _ _ _) as [m r] eqn:Hc.
  apply complete_writes_pres in Hc. unfold same_but_trk_commit in Hc. cbn in Hc.
  destruct Hc as (Ht & Hw & Hsy & Hro & Hst & Hstr' & Hcu & Hge & Hpe & Hla & Htn & Htnn & Htl').
  break_inv H. inversion Hs; subst n' o.
  inv7; rewrite ?Hw, ?Hsy, ?Hst, ?Hstr', ?Hro, ?Htl'; fin.
  - intros s Hin. eapply stream_ok_same_term; [apply Hstr; assumption|assumption].
  - intro Hl. destruct (Hlead Hl) as [Hr Hn]. split; [assumption|auto].
Qed.

Theorem step_inv : forall n a n' o, inv n -> wf_action a -> step cfg_fixed n a = (n', o) -> inv n'.
Proof.
  intros n a n' o H Hwf Hs. destruct a; cbn [step] in Hs.
  - (* NewTermReq *)
    destruct (n_role n) eqn:Hr.
    + eapply inv_leader_new_term; [apply inv_get_or_create_leader; exact H|exact Hs].
    + eapply inv_follower_new_term; eassumption.
    + eapply inv_leader_new_term; [apply inv_get_or_create_leader; exact H|exact Hs].
  - destruct (get_or_create_follower n t) as [n1|] eqn:Hg; [|inversion Hs; subst; assumption].
    destruct (inv_get_or_create_follower _ _ _ H Hg) as (Hi & Hrf & _). eapply inv_follower_truncate; eassumption.
  - destruct (get_or_create_follower n t) as [n1|] eqn:Hg; [|inversion Hs; subst; assumption].
    destruct (inv_get_or_create_follower _ _ _ H Hg) as (Hi & Hrf & _). eapply inv_follower_replicate_open; eassumption.
  - destruct (n_role n) eqn:Hr; try (inversion Hs; subst; assumption). eapply inv_follower_append; eassumption.
  - destruct (n_role n) eqn:Hr; try (inversion Hs; subst; assumption). eapply inv_follower_sync_begin; eassumption.
  - destruct (n_role n) eqn:Hr; try (inversion Hs; subst; assumption). eapply inv_follower_sync_end; eassumption.
  - destruct (n_role n) eqn:Hr; try (inversion Hs; subst; assumption). eapply inv_follower_stream_break; eassumption.
  - destruct (get_or_create_follower n t) as [n1|] eqn:Hg; [|inversion Hs; subst; assumption].
    destruct (inv_get_or_create_follower _ _ _ H Hg) as (Hi & Hrf & _). destruct Hwf as [Hw1 Hw2]. eapply inv_follower_snapshot; eassumption.
  - inversion Hs; subst n' o. apply inv_crash. assumption.
  - destruct (inv_get_or_create_leader _ H) as (Hi & Hrl & _). eapply inv_leader_become; eassumption.
  - destruct (n_role n) eqn:Hr; try (inversion Hs; subst; assumption). eapply inv_leader_write; eassumption.
  - destruct (n_role n) eqn:Hr; try (inversion Hs; subst; assumption). eapply inv_leader_sync_done; eassumption.
  - (* DeleteShardReq *)
    assert (Hclean : inv (mkN (dterm n) (n_wal n) (length (n_wal n)) (n_commit n) RNone (status_of_term (dterm n))
                              (-1) 0 None [] false None (n_gen n) [] false (n_commit n))).
    { break_inv H. inv7; fin. }
    assert (Hwiped : inv (mkN (-1) [] O (-1) RNone NotMember (-1) 0 None [] false None (n_gen n) [] false (-1))).
    { inv7; fin. }
    destruct (t <? match n_role n with RNone => dterm n | _ => n_term n end); [|inversion Hs; subst; exact Hwiped].
    destruct (n_role n); inversion Hs; subst; assumption.
Qed.

Lemma run_cons : forall c n a l, run c n (a :: l) =
  (fst (run c (fst (step c n a)) l), snd (step c n a) :: snd (run c (fst (step c n a)) l)).
Proof. intros. cbn [run]. destruct (step c n a) as [n1 o]. cbn [fst snd]. destruct (run c n1 l) as [n2 os]. reflexivity. Qed.

Lemma state_after_cons : forall c n a l, state_after c n (a :: l) = state_after c (fst (step c n a)) l.
Proof. intros. unfold state_after. rewrite run_cons. reflexivity. Qed.

Lemma state_after_app : forall c l1 n l2, state_after c n (l1 ++ l2) = state_after c (state_after c n l1) l2.
Proof.
  induction l1 as [|a l1 IH]; intros n l2; [reflexivity|].
  cbn [app]. rewrite !state_after_cons. apply IH.
Qed.

Theorem reachable_inv : forall l n, inv n -> Forall wf_action l -> inv (state_after cfg_fixed n l).
Proof.
  induction l as [|a l IH]; intros n H Hwf; [exact H|].
  rewrite state_after_cons. inversion Hwf; subst. apply IH; [|assumption].
  destruct (step cfg_fixed n a) as [n1 o] eqn:Hs. eapply step_inv; eassumption.
Qed.

(* ------------------------------------------------------------------ C04: the head in the NewTerm response *)
Lemma follower_new_term_ok : forall n t n' o h, inv n ->
  follower_new_term cfg_fixed n t = (n', o) -> o_res o = RHead h ->
  h = (match last_entry (n_wal n') with Some e => eid_of e | None => invalid_eid end) /\
  n_synced n' = length (n_wal n') /\ n_wal n' = n_wal n /\ n_term n' = t /\ n_status n' = Fenced /\
  n_term n <= t /\ o_acks o = [] /\ n_role n' = n_role n.
Proof.
  intros n t n' o h H Hs Hr. unfold follower_new_term in Hs.
  destruct (t <? n_term n) eqn:Hlt; [inversion Hs; subst; discriminate|]. apply Z.ltb_ge in Hlt.
  cbn [fix_head cfg_fixed] in Hs. break_inv H.
  pose proof (get_last_eid_full (n_wal n) Hwal) as Hg.
  cbn in Hs. rewrite Hg in Hs. inversion Hs; subst n' o. cbn in Hr. inversion Hr; subst h. cbn.
  repeat split; auto.
Qed.

Lemma leader_new_term_ok : forall n t n' o h, inv n ->
  leader_new_term cfg_fixed n t = (n', o) -> o_res o = RHead h ->
  h = (match last_entry (n_wal n') with Some e => eid_of e | None => invalid_eid end) /\
  n_synced n' = length (n_wal n') /\ n_wal n' = n_wal n /\ n_term n' = t /\ n_status n' = Fenced /\
  n_term n <= t /\ o_acks o = [] /\ n_role n' = n_role n /\ n_pend n' = [] /\ n_trk n' = None.
Proof.
  intros n t n' o h H Hs Hr. unfold leader_new_term in Hs.
  destruct (t <? n_term n) eqn:Hlt; [inversion Hs; subst; discriminate|]. apply Z.ltb_ge in Hlt.
  destruct ((t =? n_term n) && _); [inversion Hs; subst; discriminate|].
  cbn [fix_head cfg_fixed] in Hs.
  destruct (complete_writes _ _ _) as [m r] eqn:Hc.
  apply complete_writes_pres in Hc. unfold same_but_trk_commit in Hc. cbn in Hc.
  destruct Hc as (Ht & Hw & Hsy & Hro & Hst & Hstr' & Hcu & Hge & Hpe & Hla & Htn & Htnn & Htl').
  break_inv H. pose proof (get_last_eid_full (n_wal n) Hwal) as Hg.
  cbn in Hs. rewrite Hw, Hsy, Hg in Hs. inversion Hs; subst n' o. cbn in Hr. inversion Hr; subst h. cbn.
  rewrite Hw, Hsy, Ht, Hst, Hro. repeat split; auto.
Qed.

(* The head reported by NewTerm(t) is the last entry of the log, including whatever had been appended but
   not synced before (after the answer nothing is unsynced), and the node is fenced in term t. *)
Theorem newterm_head_truthful : forall n t n' o h, inv n ->
  step cfg_fixed n (NewTermReq t) = (n', o) -> o_res o = RHead h ->
  h = (match last_entry (n_wal n') with Some e => eid_of e | None => invalid_eid end) /\
  n_synced n' = length (n_wal n') /\ n_wal n' = n_wal n /\
  n_term n' = t /\ n_status n' = Fenced /\ n_term n <= t /\ o_acks o = [].
Proof.
  intros n t n' o h H Hs Hr. cbn [step] in Hs.
  destruct (n_role n) eqn:Hro.
  - destruct (inv_get_or_create_leader _ H) as (Hi & _ & Ht & Hw).
    destruct (leader_new_term_ok _ _ _ _ _ Hi Hs Hr) as (A&B&C&D&E&F&G&_). rewrite Hw in C. rewrite Ht in F. repeat split; auto.
  - destruct (follower_new_term_ok _ _ _ _ _ H Hs Hr) as (A&B&C&D&E&F&G&_). repeat split; auto.
  - destruct (inv_get_or_create_leader _ H) as (Hi & _ & Ht & Hw).
    destruct (leader_new_term_ok _ _ _ _ _ Hi Hs Hr) as (A&B&C&D&E&F&G&_). rewrite Hw in C. rewrite Ht in F. repeat split; auto.
Qed.

(* ------------------------------------------------------------------ C04: the log does not change until a term >= T *)
(* the term an action carries: the one in the request (for an Append: the term of the stream / request) *)
Definition act_term (n : node) (a : action) : option Z :=
  match a with
  | NewTermReq t | TruncateReq t _ | ReplicateOpen _ t | SnapshotInstall _ t _ _ | BecomeLeaderReq t
  | DeleteShardReq t => Some t
  | FollowerAppend sid _ _ => match find_stream n sid with Some s => Some (s_term s) | None => None end
  | _ => None
  end.

Definition low (T : Z) (n : node) (a : action) : Prop :=
  match act_term n a with Some t => t < T | None => True end.

(* state of a node that has answered NewTerm(T') for some T' >= T and has not seen a term >= T since *)
Definition fenced_at (T : Z) (n : node) : Prop :=
  inv n /\ T <= n_term n /\ n_synced n = length (n_wal n) /\ n_status n <> Leader.

Ltac dm H := repeat match type of H with
  | context [match ?x with _ => _ end] => let E := fresh "E" in destruct x eqn:E
  | context [if ?x then _ else _] => let E := fresh "E" in destruct x eqn:E
  end.

Ltac bools := repeat match goal with
  | H : (_ && _) = true |- _ => apply andb_true_iff in H; destruct H
  | H : (_ || _) = false |- _ => apply orb_false_iff in H; destruct H
  | H : negb _ = true |- _ => apply negb_true_iff in H
  | H : negb _ = false |- _ => apply negb_false_iff in H
  | H : (_ <? _) = true |- _ => apply Z.ltb_lt in H
  | H : (_ <? _) = false |- _ => apply Z.ltb_ge in H
  | H : (_ <=? _) = true |- _ => apply Z.leb_le in H
  | H : (_ <=? _) = false |- _ => apply Z.leb_gt in H
  | H : (_ =? _) = true |- _ => apply Z.eqb_eq in H
  | H : (_ =? _) = false |- _ => apply Z.eqb_neq in H
  end.

Lemma status_of_term_cases : forall t, status_of_term t = NotMember \/ status_of_term t = Fenced.
Proof. intro t. unfold status_of_term. destruct (t =? -1); auto. Qed.

Lemma firstn_max_all : forall (w : list entry) s k, s = length w -> firstn (Nat.max s (Nat.min k (length w))) w = w /\
  Nat.max s (Nat.min k (length w)) = length w.
Proof. intros w s k Hs. assert (Nat.max s (Nat.min k (length w)) = length w) by lia. rewrite H. split; [apply firstn_all|reflexivity]. Qed.

Lemma termlost_inv : forall n, inv n -> n_termlost n = false.
Proof. intros n H. break_inv H. assumption. Qed.

Lemma gocf_facts : forall n t m, get_or_create_follower n t = Some m -> n_termlost n = false ->
  n_term m = n_term n /\ n_wal m = n_wal n /\
  (n_synced n = length (n_wal n) -> n_synced m = length (n_wal m)) /\
  (n_status n <> Leader -> n_status m <> Leader) /\ n_role m = RFollower.
Proof.
  intros n t m H Htl. unfold get_or_create_follower in H.
  assert (Hd : dterm n = n_term n) by (unfold dterm; rewrite Htl; reflexivity).
  pose proof (status_of_term_cases (n_term n)) as Hsot.
  destruct (n_role n) eqn:Hr.
  - inversion H; subst. cbn. rewrite Hd. repeat split; auto. intros _. destruct Hsot as [Hx|Hx]; rewrite Hx; discriminate.
  - inversion H; subst. repeat split; auto.
  - destruct ((0 <=? t) && negb (t =? n_term n)); [discriminate|]. inversion H; subst. cbn. rewrite Hd. repeat split; auto.
    intros _. destruct Hsot as [Hx|Hx]; rewrite Hx; discriminate.
Qed.

Lemma gocl_facts : forall n, n_termlost n = false -> let m := get_or_create_leader n in
  n_term m = n_term n /\ n_wal m = n_wal n /\
  (n_synced n = length (n_wal n) -> n_synced m = length (n_wal m)) /\
  (n_status n <> Leader -> n_status m <> Leader) /\ n_role m = RLeader.
Proof.
  intros n Htl m. subst m. unfold get_or_create_leader.
  assert (Hd : dterm n = n_term n) by (unfold dterm; rewrite Htl; reflexivity).
  pose proof (status_of_term_cases (n_term n)) as Hsot.
  destruct (n_role n) eqn:Hr; cbn; rewrite ?Hd; repeat split; auto; intros _; destruct Hsot as [Hx|Hx]; rewrite Hx; discriminate.
Qed.

Lemma low_step : forall T n a n' o, fenced_at T n -> wf_action a -> low T n a ->
  step cfg_fixed n a = (n', o) ->
  fenced_at T n' /\ n_wal n' = n_wal n /\ n_term n' = n_term n.
Proof.
  intros T n a n' o (Hinv & HT & Hsy & Hnl) Hwf Hlow Hs.
  pose proof (termlost_inv _ Hinv) as Htl0.
  assert (Hinv' : inv n') by (eapply step_inv; eassumption).
  unfold fenced_at. 
  assert (Hgoal : T <= n_term n' /\ n_synced n' = length (n_wal n') /\ n_status n' <> Leader /\
                  n_wal n' = n_wal n /\ n_term n' = n_term n).
  2:{ destruct Hgoal as (A&B&C&D&E). exact (conj (conj Hinv' (conj A (conj B C))) (conj D E)). }
  clear Hinv'.
  pose proof (status_of_term_cases (n_term n)) as Hsot.
  destruct a; unfold low in Hlow; cbn [act_term] in Hlow; cbn [step] in Hs.
  - (* NewTermReq: t < T <= term *)
    assert (Hgl : forall m, n_term m = n_term n -> leader_new_term cfg_fixed m t = (n', o) -> n' = m).
    { intros m Hm Hx. unfold leader_new_term in Hx. destruct (t <? n_term m) eqn:E; [inversion Hx; reflexivity|].
      bools. lia. }
    destruct (n_role n) eqn:Hro.
    + apply Hgl in Hs; [|unfold get_or_create_leader; rewrite Hro; cbn; unfold dterm; rewrite Htl0; reflexivity]. subst n'. unfold get_or_create_leader. rewrite Hro. cbn. unfold dterm; rewrite Htl0.
      repeat split; auto. destruct Hsot as [Hx|Hx]; rewrite Hx; discriminate.
    + unfold follower_new_term in Hs. destruct (t <? n_term n) eqn:E; [inversion Hs; subst; repeat split; auto|].
      bools. lia.
    + apply Hgl in Hs; [|unfold get_or_create_leader; rewrite Hro; reflexivity]. subst n'. unfold get_or_create_leader. rewrite Hro. repeat split; auto.
  - destruct (get_or_create_follower n t) as [m|] eqn:Hg; [|inversion Hs; subst; repeat split; auto].
    destruct (gocf_facts _ _ _ Hg Htl0) as (Hm1 & Hm2 & Hm3 & Hm4 & Hm5). specialize (Hm3 Hsy). specialize (Hm4 Hnl).
    unfold follower_truncate in Hs.
    dm Hs; bools; try lia; inversion Hs; subst n' o; cbn in *; repeat split; auto; try lia; try congruence.
  - destruct (get_or_create_follower n t) as [m|] eqn:Hg; [|inversion Hs; subst; repeat split; auto].
    destruct (gocf_facts _ _ _ Hg Htl0) as (Hm1 & Hm2 & Hm3 & Hm4 & Hm5). specialize (Hm3 Hsy). specialize (Hm4 Hnl).
    unfold follower_replicate_open in Hs.
    dm Hs; bools; try lia; inversion Hs; subst n' o; cbn in *; repeat split; auto; try lia; try congruence.
  - unfold follower_append in Hs. destruct (n_role n); try (inversion Hs; subst; repeat split; auto; fail).
    destruct (find_stream n sid) as [s|]; [|inversion Hs; subst; repeat split; auto].
    destruct (negb (s_recv s)); [inversion Hs; subst; repeat split; auto|].
    destruct (negb (s_term s =? n_term n)) eqn:Hb; [inversion Hs; subst n' o; cbn; repeat split; auto|].
    bools. lia.
  - unfold follower_sync_begin in Hs.
    dm Hs; inversion Hs; subst n' o; cbn in *; repeat split; auto.
  - unfold follower_sync_end in Hs.
    dm Hs; inversion Hs; subst n' o; cbn in *; repeat split; auto.
  - unfold follower_stream_break in Hs.
    dm Hs; inversion Hs; subst n' o; cbn in *; repeat split; auto.
  - destruct (get_or_create_follower n t) as [m|] eqn:Hg; [|inversion Hs; subst; repeat split; auto].
    destruct (gocf_facts _ _ _ Hg Htl0) as (Hm1 & Hm2 & Hm3 & Hm4 & Hm5). specialize (Hm3 Hsy). specialize (Hm4 Hnl).
    unfold follower_snapshot in Hs. cbn in Hwf.
    dm Hs; cbn in *; bools; try lia; inversion Hs; subst n' o; cbn in *; repeat split; auto; try lia; try congruence.
  - inversion Hs; subst n' o. cbn. unfold dterm; rewrite Htl0.
    destruct (firstn_max_all (n_wal n) (n_synced n) k Hsy) as [Hf Hm]. rewrite Hf, Hm.
    repeat split; auto. destruct Hsot as [Hx|Hx]; rewrite Hx; discriminate.
  - destruct (gocl_facts n Htl0) as (Hm1 & Hm2 & Hm3 & Hm4 & Hm5). specialize (Hm3 Hsy). specialize (Hm4 Hnl).
    remember (get_or_create_leader n) as m. unfold leader_become in Hs.
    dm Hs; bools; try lia; inversion Hs; subst n' o; cbn in *; repeat split; auto; try lia; try congruence.
  - unfold leader_write in Hs.
    dm Hs; inversion Hs; subst n' o; cbn in *; repeat split; auto; congruence.
  - destruct (n_role n); try (inversion Hs; subst; repeat split; auto; fail).
    unfold leader_sync_done in Hs. destruct (complete_writes _ _ _) as [m r] eqn:Hc.
    apply complete_writes_pres in Hc. unfold same_but_trk_commit in Hc. cbn in Hc.
    destruct Hc as (Ht & Hw & Hsy' & Hro & Hst & _).
    inversion Hs; subst n' o. cbn. rewrite Ht, Hw, Hsy', Hst. repeat split; auto.
  - (* DeleteShardReq of a term < T <= the node's term: refused *)
    assert (Hd : dterm n = n_term n) by (unfold dterm; rewrite Htl0; reflexivity).
    destruct (t <? match n_role n with RNone => dterm n | _ => n_term n end) eqn:E.
    + destruct (n_role n); inversion Hs; subst n' o; cbn; rewrite ?Hd; repeat split; auto;
        destruct Hsot as [Hx|Hx]; rewrite Hx; discriminate.
    + exfalso. bools. destruct (n_role n); rewrite ?Hd in E; lia.
Qed.

Fixpoint low_run (T : Z) (n : node) (l : list action) : Prop :=
  match l with
  | [] => True
  | a :: tl => low T n a /\ low_run T (fst (step cfg_fixed n a)) tl
  end.

(* A node fenced at T: whatever happens, as long as no action carrying a term >= T arrives, its log and its
   term do not change (in-flight appends, pending syncs, stream failures, crashes and restarts, client writes,
   requests of lower terms, role changes). *)
Theorem fenced_wal_unchanged : forall T l n, fenced_at T n -> Forall wf_action l -> low_run T n l ->
  n_wal (state_after cfg_fixed n l) = n_wal n /\ n_term (state_after cfg_fixed n l) = n_term n /\
  fenced_at T (state_after cfg_fixed n l).
Proof.
  intros T l. induction l as [|a l IH]; intros n Hf Hwf Hlow; [exact (conj eq_refl (conj eq_refl Hf))|].
  rewrite state_after_cons. inversion Hwf; subst. destruct Hlow as [Hl Hlr].
  destruct (step cfg_fixed n a) as [n1 o] eqn:Hs. cbn [fst] in *.
  destruct (low_step _ _ _ _ _ Hf H1 Hl Hs) as (Hf1 & Hw1 & Ht1).
  destruct (IH n1 Hf1 H2 Hlr) as (A & B & C). rewrite A, B. exact (conj Hw1 (conj Ht1 C)).
Qed.

Lemma newterm_fences : forall n t n' o h, inv n ->
  step cfg_fixed n (NewTermReq t) = (n', o) -> o_res o = RHead h -> fenced_at t n'.
Proof.
  intros n t n' o h H Hs Hr.
  destruct (newterm_head_truthful _ _ _ _ _ H Hs Hr) as (A&B&C&D&E&F&G).
  unfold fenced_at. split; [exact (step_inv _ (NewTermReq t) _ _ H I Hs)|].
  split; [lia|]. split; [assumption|]. rewrite E. discriminate.
Qed.

(* ------------------------------------------------------------------ C04: progress only on behalf of the current term *)
(* an accepted DeleteShard (term >= the node's) removes the shard, term included: the clauses below are for schedules
   in which the shard is kept *)
Definition keeps_shard (a : action) : Prop := match a with DeleteShardReq _ => False | _ => True end.

Lemma step_term_mono : forall n a n' o, inv n -> wf_action a -> keeps_shard a -> step cfg_fixed n a = (n', o) ->
  n_term n <= n_term n'.
Proof.
  intros n a n' o H Hwf Hks Hs. pose proof (termlost_inv _ H) as Htl0. destruct a; cbn [step] in Hs.
  - destruct (n_role n) eqn:Hro.
    + unfold leader_new_term in Hs. destruct (gocl_facts n Htl0) as (Hm1 & _). remember (get_or_create_leader n) as m.
      destruct (t <? n_term m) eqn:E; [inversion Hs; subst; lia|]. bools.
      destruct ((t =? n_term m) && _); [inversion Hs; subst; lia|].
      cbn [fix_head cfg_fixed] in Hs. destruct (complete_writes _ _ _) as [m2 r] eqn:Hc.
      apply complete_writes_pres in Hc. destruct Hc as (Ht & _). cbn in Ht.
      destruct (get_last_eid _ _); inversion Hs; subst n' o; cbn; lia.
    + unfold follower_new_term in Hs. destruct (t <? n_term n) eqn:E; [inversion Hs; subst; lia|]. bools.
      destruct (get_last_eid _ _); inversion Hs; subst n' o; cbn; lia.
    + unfold leader_new_term in Hs. destruct (gocl_facts n Htl0) as (Hm1 & _). remember (get_or_create_leader n) as m.
      destruct (t <? n_term m) eqn:E; [inversion Hs; subst; lia|]. bools.
      destruct ((t =? n_term m) && _); [inversion Hs; subst; lia|].
      cbn [fix_head cfg_fixed] in Hs. destruct (complete_writes _ _ _) as [m2 r] eqn:Hc.
      apply complete_writes_pres in Hc. destruct Hc as (Ht & _). cbn in Ht.
      destruct (get_last_eid _ _); inversion Hs; subst n' o; cbn; lia.
  - destruct (get_or_create_follower n t) as [m|] eqn:Hg; [|inversion Hs; subst; lia].
    destruct (gocf_facts _ _ _ Hg Htl0) as (Hm1 & _). unfold follower_truncate in Hs.
    dm Hs; inversion Hs; subst n' o; cbn; lia.
  - destruct (get_or_create_follower n t) as [m|] eqn:Hg; [|inversion Hs; subst; lia].
    destruct (gocf_facts _ _ _ Hg Htl0) as (Hm1 & _). unfold follower_replicate_open in Hs.
    dm Hs; inversion Hs; subst n' o; cbn; lia.
  - unfold follower_append in Hs. dm Hs; inversion Hs; subst n' o; cbn; lia.
  - unfold follower_sync_begin in Hs. dm Hs; inversion Hs; subst n' o; cbn; lia.
  - unfold follower_sync_end in Hs. dm Hs; inversion Hs; subst n' o; cbn; lia.
  - unfold follower_stream_break in Hs. dm Hs; inversion Hs; subst n' o; cbn; lia.
  - destruct (get_or_create_follower n t) as [m|] eqn:Hg; [|inversion Hs; subst; lia].
    destruct (gocf_facts _ _ _ Hg Htl0) as (Hm1 & _). unfold follower_snapshot in Hs. cbn in Hwf.
    dm Hs; cbn in *; bools; inversion Hs; subst n' o; cbn; lia.
  - inversion Hs; subst; cbn; unfold dterm; rewrite Htl0; lia.
  - destruct (gocl_facts n Htl0) as (Hm1 & _). remember (get_or_create_leader n) as m. unfold leader_become in Hs.
    dm Hs; inversion Hs; subst n' o; cbn; lia.
  - unfold leader_write in Hs. dm Hs; inversion Hs; subst n' o; cbn; lia.
  - destruct (n_role n); try (inversion Hs; subst; lia).
    unfold leader_sync_done in Hs. destruct (complete_writes _ _ _) as [m r] eqn:Hc.
    apply complete_writes_pres in Hc. destruct Hc as (Ht & _). cbn in Ht. inversion Hs; subst n' o. cbn. lia.
  - contradiction.
Qed.

Lemma run_term_mono : forall l n, inv n -> Forall wf_action l -> Forall keeps_shard l ->
  n_term n <= n_term (state_after cfg_fixed n l).
Proof.
  induction l as [|a l IH]; intros n H Hwf Hks; [cbn; lia|].
  rewrite state_after_cons. inversion Hwf as [|? ? Hwa Hwl]; subst. inversion Hks as [|? ? Hka Hkl]; subst.
  destruct (step cfg_fixed n a) as [n1 o] eqn:Hs. cbn [fst].
  pose proof (step_term_mono _ _ _ _ H Hwa Hka Hs). pose proof (step_inv _ _ _ _ H Hwa Hs) as Hi.
  specialize (IH n1 Hi Hwl Hkl). lia.
Qed.

Lemma run_term_mono_between : forall l1 l2 n, inv n -> Forall wf_action (l1 ++ l2) -> Forall keeps_shard (l1 ++ l2) ->
  n_term (state_after cfg_fixed n l1) <= n_term (state_after cfg_fixed n (l1 ++ l2)).
Proof.
  intros l1 l2 n H Hwf Hks. rewrite state_after_app.
  apply Forall_app in Hwf. destruct Hwf as [Hw1 Hw2]. apply Forall_app in Hks. destruct Hks as [_ Hk2].
  apply run_term_mono; [apply reachable_inv; assumption|exact Hw2|exact Hk2].
Qed.

(* DeleteShard of a term older than the node's (the stored one when no controller is loaded) is refused in every residency
   state, and term, log and commit offset stay as they are. *)
Lemma delete_shard_older_term_refused : forall c n t, inv n -> t < n_term n ->
  o_res (snd (step c n (DeleteShardReq t))) = RErr EInvalidTerm /\
  n_term (fst (step c n (DeleteShardReq t))) = n_term n /\
  n_wal (fst (step c n (DeleteShardReq t))) = n_wal n /\
  n_commit (fst (step c n (DeleteShardReq t))) = n_commit n.
Proof.
  intros c n t H Ht. pose proof (dterm_inv _ H) as Hd. cbn [step].
  replace (t <? match n_role n with RNone => dterm n | _ => n_term n end) with true
    by (symmetry; apply Z.ltb_lt; destruct (n_role n); rewrite ?Hd; lia).
  destruct (n_role n); cbn; rewrite ?Hd; repeat split; reflexivity.
Qed.

(* every Ack is sent on a stream whose announced term (if it announces one) is the node's current term *)
Lemma step_acks : forall n a n' o sid off, inv n -> step cfg_fixed n a = (n', o) ->
  In (sid, off) (o_acks o) ->
  exists s, find_stream n sid = Some s /\ (0 <= s_term s -> s_term s = n_term n') /\ n_term n' = n_term n.
Proof.
  intros n a n' o sid off H Hs Hin. destruct a; cbn [step] in Hs.
  - destruct (n_role n); unfold follower_new_term, leader_new_term in Hs;
      dm Hs; inversion Hs; subst n' o; cbn in Hin; contradiction.
  - destruct (get_or_create_follower n t) as [m|]; [|inversion Hs; subst; contradiction].
    unfold follower_truncate in Hs. dm Hs; inversion Hs; subst n' o; cbn in Hin; contradiction.
  - destruct (get_or_create_follower n t) as [m|]; [|inversion Hs; subst; contradiction].
    unfold follower_replicate_open in Hs. dm Hs; inversion Hs; subst n' o; cbn in Hin; contradiction.
  - destruct (n_role n); try (inversion Hs; subst; contradiction).
    unfold follower_append in Hs.
    destruct (find_stream n sid0) as [s|] eqn:Hf; [|inversion Hs; subst; contradiction].
    destruct (negb (s_recv s)); [inversion Hs; subst; contradiction|].
    destruct (negb (s_term s =? n_term n)) eqn:Hb; [inversion Hs; subst; contradiction|]. bools.
    destruct (e_off e <=? n_last (set_status n Follower)).
    + cbn [fix_dup cfg_fixed] in Hs.
      destruct (true && _); inversion Hs; subst n' o; cbn in Hin; destruct Hin as [Hin|[]]; inversion Hin; subst;
        exists s; repeat split; auto.
    + destruct (wal_append _ _); inversion Hs; subst n' o; cbn in Hin; contradiction.
  - destruct (n_role n); try (inversion Hs; subst; contradiction).
    unfold follower_sync_begin in Hs. dm Hs; inversion Hs; subst n' o; cbn in Hin; contradiction.
  - destruct (n_role n); try (inversion Hs; subst; contradiction).
    unfold follower_sync_end in Hs.
    destruct (find_stream n sid0) as [s|] eqn:Hf; [|inversion Hs; subst; contradiction].
    destruct (s_sync s); try (inversion Hs; subst; contradiction).
    cbn [fix_ack cfg_fixed] in Hs.
    destruct (negb (s_open s =? n_term (sync_all n))) eqn:Hb; [inversion Hs; subst; contradiction|]. bools. cbn in Hb.
    inversion Hs; subst n' o. cbn in Hin. apply in_map_iff in Hin. destruct Hin as [x [Hx _]]. inversion Hx; subst.
    exists s. split; [assumption|]. cbn. split; [|reflexivity].
    intro Hge. apply find_stream_In in Hf. destruct Hf as [Hfi _]. break_inv H.
    destruct (Hstr s Hfi) as [Hso _]. rewrite (Hso Hge). assumption.
  - destruct (n_role n); try (inversion Hs; subst; contradiction).
    unfold follower_stream_break in Hs. dm Hs; inversion Hs; subst n' o; cbn in Hin; contradiction.
  - destruct (get_or_create_follower n t) as [m|]; [|inversion Hs; subst; contradiction].
    unfold follower_snapshot in Hs. dm Hs; inversion Hs; subst n' o; cbn in Hin; contradiction.
  - inversion Hs; subst; contradiction.
  - unfold leader_become in Hs. dm Hs; inversion Hs; subst n' o; cbn in Hin; contradiction.
  - destruct (n_role n); try (inversion Hs; subst; contradiction).
    unfold leader_write in Hs. dm Hs; inversion Hs; subst n' o; cbn in Hin; contradiction.
  - destruct (n_role n); try (inversion Hs; subst; contradiction).
    unfold leader_sync_done in Hs. destruct (complete_writes _ _ _). inversion Hs; subst n' o; cbn in Hin; contradiction.
  - dm Hs; inversion Hs; subst n' o; cbn in Hin; contradiction.
Qed.

Lemma firstn_length_le : forall (A : Type) k (l : list A), (length (firstn k l) <= length l)%nat.
Proof. intros. rewrite firstn_length. lia. Qed.

(* the log only grows by an Append request of the node's current term or by a client write of a leader *)
Lemma step_wal_grows : forall n a n' o, inv n -> step cfg_fixed n a = (n', o) ->
  (length (n_wal n) < length (n_wal n'))%nat ->
  (exists sid e c s, a = FollowerAppend sid e c /\ find_stream n sid = Some s /\ s_term s = n_term n /\
                     n_wal n' = n_wal n ++ [e] /\ n_term n' = n_term n)
  \/ (exists p e, a = ClientWrite p /\ n_wal n' = n_wal n ++ [e] /\ e_term e = n_term n /\
                  n_status n = Leader /\ n_term n' = n_term n).
Proof.
  intros n a n' o H Hs Hlen. pose proof (termlost_inv _ H) as Htl0. destruct a; cbn [step] in Hs.
  - destruct (n_role n) eqn:Hro.
    + destruct (gocl_facts n Htl0) as (_ & Hm2 & _). remember (get_or_create_leader n) as m.
      unfold leader_new_term in Hs.
      destruct (t <? n_term m); [(inversion Hs; subst; cbn in Hlen; rewrite ?Hm2 in Hlen; exfalso; lia)|].
      destruct ((t =? n_term m) && _); [(inversion Hs; subst; cbn in Hlen; rewrite ?Hm2 in Hlen; exfalso; lia)|].
      cbn [fix_head cfg_fixed] in Hs. destruct (complete_writes _ _ _) as [m2 r] eqn:Hc.
      apply complete_writes_pres in Hc. destruct Hc as (_ & Hw & _). cbn in Hw.
      destruct (get_last_eid _ _); (inversion Hs; subst n' o; cbn in Hlen; rewrite Hw, Hm2 in Hlen; exfalso; lia).
    + unfold follower_new_term in Hs. dm Hs; (inversion Hs; subst n' o; cbn in Hlen; rewrite ?Hm2 in Hlen; exfalso; lia).
    + destruct (gocl_facts n Htl0) as (_ & Hm2 & _). remember (get_or_create_leader n) as m.
      unfold leader_new_term in Hs.
      destruct (t <? n_term m); [(inversion Hs; subst; cbn in Hlen; rewrite ?Hm2 in Hlen; exfalso; lia)|].
      destruct ((t =? n_term m) && _); [(inversion Hs; subst; cbn in Hlen; rewrite ?Hm2 in Hlen; exfalso; lia)|].
      cbn [fix_head cfg_fixed] in Hs. destruct (complete_writes _ _ _) as [m2 r] eqn:Hc.
      apply complete_writes_pres in Hc. destruct Hc as (_ & Hw & _). cbn in Hw.
      destruct (get_last_eid _ _); (inversion Hs; subst n' o; cbn in Hlen; rewrite Hw, Hm2 in Hlen; exfalso; lia).
  - destruct (get_or_create_follower n t) as [m|] eqn:Hg; [|(inversion Hs; subst; cbn in Hlen; rewrite ?Hm2 in Hlen; exfalso; lia)].
    destruct (inv_get_or_create_follower _ _ _ H Hg) as (Hi & _ & _ & Hm2). break_inv Hi.
    unfold follower_truncate in Hs.
    destruct (n_status m); try ((inversion Hs; subst; cbn in Hlen; rewrite ?Hm2 in Hlen; exfalso; lia)).
    destruct (negb (t =? n_term m)); [(inversion Hs; subst; cbn in Hlen; rewrite ?Hm2 in Hlen; exfalso; lia)|].
    destruct (wal_truncate _ _ _) as [[[w' s'] ho]|] eqn:Htr.
    + cbn in Htr. apply wal_truncate_ok in Htr; [|assumption]. destruct Htr as (_ & [k Hk] & _).
      inversion Hs; subst n' o. cbn in Hlen. subst w'. pose proof (firstn_length_le _ k (n_wal m)). rewrite Hm2 in *. exfalso; lia.
    + inversion Hs; subst n' o. cbn in Hlen. rewrite ?Hm2 in Hlen. exfalso; lia.
  - destruct (get_or_create_follower n t) as [m|] eqn:Hg; [|(inversion Hs; subst; cbn in Hlen; rewrite ?Hm2 in Hlen; exfalso; lia)].
    destruct (gocf_facts _ _ _ Hg Htl0) as (_ & Hm2 & _).
    unfold follower_replicate_open in Hs. dm Hs; (inversion Hs; subst n' o; cbn in Hlen; rewrite ?Hm2 in Hlen; exfalso; lia).
  - destruct (n_role n) eqn:Hro; try ((inversion Hs; subst; cbn in Hlen; rewrite ?Hm2 in Hlen; exfalso; lia)).
    unfold follower_append in Hs.
    destruct (find_stream n sid) as [s|] eqn:Hf; [|(inversion Hs; subst; cbn in Hlen; rewrite ?Hm2 in Hlen; exfalso; lia)].
    destruct (negb (s_recv s)); [(inversion Hs; subst; cbn in Hlen; rewrite ?Hm2 in Hlen; exfalso; lia)|].
    destruct (negb (s_term s =? n_term n)) eqn:Hb; [(inversion Hs; subst n' o; cbn in Hlen; rewrite ?Hm2 in Hlen; exfalso; lia)|]. bools.
    destruct (e_off e <=? n_last (set_status n Follower)).
    + cbn [fix_dup cfg_fixed] in Hs. destruct (true && _); (inversion Hs; subst n' o; cbn in Hlen; rewrite ?Hm2 in Hlen; exfalso; lia).
    + destruct (wal_append (n_wal (set_status n Follower)) e) as [w'|] eqn:Ha.
      * cbn in Ha. break_inv H. apply wal_append_ok in Ha; [|assumption]. destruct Ha as [Hw' _].
        inversion Hs; subst n' o. left. exists sid, e, commit, s. cbn. repeat split; auto.
      * (inversion Hs; subst n' o; cbn in Hlen; rewrite ?Hm2 in Hlen; exfalso; lia).
  - destruct (n_role n); try ((inversion Hs; subst; cbn in Hlen; rewrite ?Hm2 in Hlen; exfalso; lia)).
    unfold follower_sync_begin in Hs. dm Hs; (inversion Hs; subst n' o; cbn in Hlen; rewrite ?Hm2 in Hlen; exfalso; lia).
  - destruct (n_role n); try ((inversion Hs; subst; cbn in Hlen; rewrite ?Hm2 in Hlen; exfalso; lia)).
    unfold follower_sync_end in Hs. dm Hs; (inversion Hs; subst n' o; cbn in Hlen; rewrite ?Hm2 in Hlen; exfalso; lia).
  - destruct (n_role n); try ((inversion Hs; subst; cbn in Hlen; rewrite ?Hm2 in Hlen; exfalso; lia)).
    unfold follower_stream_break in Hs. dm Hs; (inversion Hs; subst n' o; cbn in Hlen; rewrite ?Hm2 in Hlen; exfalso; lia).
  - destruct (get_or_create_follower n t) as [m|] eqn:Hg; [|(inversion Hs; subst; cbn in Hlen; rewrite ?Hm2 in Hlen; exfalso; lia)].
    destruct (gocf_facts _ _ _ Hg Htl0) as (_ & Hm2 & _).
    unfold follower_snapshot in Hs. dm Hs; (inversion Hs; subst n' o; cbn in Hlen; rewrite ?Hm2 in Hlen; exfalso; lia).
  - inversion Hs; subst n' o. cbn in Hlen. pose proof (firstn_length_le _ (Nat.max (n_synced n) (Nat.min k (length (n_wal n)))) (n_wal n)). exfalso; lia.
  - destruct (gocl_facts n Htl0) as (_ & Hm2 & _). remember (get_or_create_leader n) as m.
    unfold leader_become in Hs. dm Hs; (inversion Hs; subst n' o; cbn in Hlen; rewrite ?Hm2 in Hlen; exfalso; lia).
  - destruct (n_role n) eqn:Hro; try ((inversion Hs; subst; cbn in Hlen; rewrite ?Hm2 in Hlen; exfalso; lia)).
    unfold leader_write in Hs.
    destruct (n_status n) eqn:Hst; try ((inversion Hs; subst; cbn in Hlen; rewrite ?Hm2 in Hlen; exfalso; lia)).
    destruct (n_trk n) as [[[nx hd] cm]|]; [|(inversion Hs; subst; cbn in Hlen; rewrite ?Hm2 in Hlen; exfalso; lia)].
    cbn in Hs. destruct (wal_append (n_wal n) _) as [w'|] eqn:Ha.
    + break_inv H. apply wal_append_ok in Ha; [|assumption]. destruct Ha as [Hw' _].
      inversion Hs; subst n' o. right. eexists _, _. cbn. repeat split; eauto.
    + (inversion Hs; subst n' o; cbn in Hlen; rewrite ?Hm2 in Hlen; exfalso; lia).
  - destruct (n_role n); try ((inversion Hs; subst; cbn in Hlen; rewrite ?Hm2 in Hlen; exfalso; lia)).
    unfold leader_sync_done in Hs. destruct (complete_writes _ _ _) as [m r] eqn:Hc.
    apply complete_writes_pres in Hc. destruct Hc as (_ & Hw & _). cbn in Hw.
    inversion Hs; subst n' o. cbn in Hlen. rewrite Hw in Hlen. exfalso; lia.
  - dm Hs; inversion Hs; subst n' o; cbn in Hlen; exfalso; lia.
Qed.

(* a client write is reported successful only for an entry of the node's current term *)
Lemma step_writes_ok : forall n a n' o off, inv n -> step cfg_fixed n a = (n', o) ->
  In (off, true) (o_writes o) ->
  exists e, In e (n_wal n') /\ e_off e = off /\ e_term e = n_term n' /\ n_term n' = n_term n.
Proof.
  intros n a n' o off H Hs Hin. destruct a; cbn [step] in Hs.
  - (* NewTerm: the callbacks run against the closed tracker *)
    assert (Hl : forall m, leader_new_term cfg_fixed m t = (n', o) -> False).
    { intros m Hx. unfold leader_new_term in Hx.
      destruct (t <? n_term m); [inversion Hx; subst; contradiction|].
      destruct ((t =? n_term m) && _); [inversion Hx; subst; contradiction|].
      cbn [fix_head cfg_fixed] in Hx. destruct (complete_writes _ _ _) as [m2 r] eqn:Hc.
      assert (Hr : In (off, true) r) by (destruct (get_last_eid _ _); inversion Hx; subst; exact Hin).
      apply (complete_writes_true _ _ _ _ _ off Hc) in Hr. destruct Hr as [[]|[_ Hn]]. apply Hn. reflexivity. }
    destruct (n_role n).
    + exfalso. eapply Hl. exact Hs.
    + unfold follower_new_term in Hs. dm Hs; inversion Hs; subst n' o; cbn in Hin; contradiction.
    + exfalso. eapply Hl. exact Hs.
  - destruct (get_or_create_follower n t) as [m|]; [|inversion Hs; subst; contradiction].
    unfold follower_truncate in Hs. dm Hs; inversion Hs; subst n' o; cbn in Hin; contradiction.
  - destruct (get_or_create_follower n t) as [m|]; [|inversion Hs; subst; contradiction].
    unfold follower_replicate_open in Hs. dm Hs; inversion Hs; subst n' o; cbn in Hin; contradiction.
  - destruct (n_role n); try (inversion Hs; subst; contradiction).
    unfold follower_append in Hs. dm Hs; inversion Hs; subst n' o; cbn in Hin; contradiction.
  - destruct (n_role n); try (inversion Hs; subst; contradiction).
    unfold follower_sync_begin in Hs. dm Hs; inversion Hs; subst n' o; cbn in Hin; contradiction.
  - destruct (n_role n); try (inversion Hs; subst; contradiction).
    unfold follower_sync_end in Hs. dm Hs; inversion Hs; subst n' o; cbn in Hin; contradiction.
  - destruct (n_role n); try (inversion Hs; subst; contradiction).
    unfold follower_stream_break in Hs. dm Hs; inversion Hs; subst n' o; cbn in Hin; contradiction.
  - destruct (get_or_create_follower n t) as [m|]; [|inversion Hs; subst; contradiction].
    unfold follower_snapshot in Hs. dm Hs; inversion Hs; subst n' o; cbn in Hin; contradiction.
  - inversion Hs; subst; contradiction.
  - unfold leader_become in Hs. dm Hs; inversion Hs; subst n' o; cbn in Hin; contradiction.
  - destruct (n_role n); try (inversion Hs; subst; contradiction).
    unfold leader_write in Hs. dm Hs; inversion Hs; subst n' o; cbn in Hin;
      try contradiction; destruct Hin as [Hin|[]]; inversion Hin.
  - destruct (n_role n); try (inversion Hs; subst; contradiction).
    unfold leader_sync_done in Hs. destruct (complete_writes _ _ _) as [m r] eqn:Hc.
    pose proof (complete_writes_pres _ _ _ _ _ Hc) as Hp. destruct Hp as (Ht & Hw & _). cbn in Ht, Hw.
    inversion Hs; subst n' o. cbn in Hin.
    apply (complete_writes_true _ _ _ _ _ off Hc) in Hin. destruct Hin as [[]|[Hp Hn]]. cbn in Hp, Hn.
    break_inv H. destruct (Hpend _ _ Hp) as [_ Hex]. destruct (Hex eq_refl Hn) as [e (He1 & He2 & He3)].
    exists e. cbn. rewrite Hw, Ht. repeat split; auto.
  - dm Hs; inversion Hs; subst n' o; cbn in Hin; contradiction.
Qed.

(* ---- the three clauses together, along any schedule after NewTerm(T) answered OK *)
Definition stream_term (n : node) (sid : nat) : option Z :=
  match find_stream n sid with Some s => Some (s_term s) | None => None end.

Theorem no_old_term_progress : forall T n0 l a n' o,
  inv n0 -> T <= n_term n0 -> Forall wf_action l -> Forall keeps_shard l -> wf_action a ->
  let n := state_after cfg_fixed n0 l in
  step cfg_fixed n a = (n', o) ->
  (* acknowledgements *)
  (forall sid off t, In (sid, off) (o_acks o) -> stream_term n sid = Some t -> 0 <= t -> T <= t) /\
  (* WAL appends *)
  ((length (n_wal n) < length (n_wal n'))%nat ->
     (exists sid e c t, a = FollowerAppend sid e c /\ stream_term n sid = Some t /\ T <= t) \/
     (exists p e, a = ClientWrite p /\ n_wal n' = n_wal n ++ [e] /\ T <= e_term e)) /\
  (* completed client writes *)
  (forall off, In (off, true) (o_writes o) -> exists e, In e (n_wal n') /\ e_off e = off /\ T <= e_term e).
Proof.
  intros T n0 l a n' o H HT Hwf Hks Hwa n Hs.
  assert (Hi : inv n) by (apply reachable_inv; assumption).
  assert (Hge : T <= n_term n) by (pose proof (run_term_mono l n0 H Hwf Hks); subst n; lia).
  split; [|split].
  - intros sid off t Hin Hst Ht. destruct (step_acks _ _ _ _ _ _ Hi Hs Hin) as [s (Hf & Hs1 & Hs2)].
    unfold stream_term in Hst. rewrite Hf in Hst. inversion Hst; subst t. rewrite (Hs1 Ht). lia.
  - intro Hlen. destruct (step_wal_grows _ _ _ _ Hi Hs Hlen) as [(sid & e & c & s & Ha & Hf & Hst & _)|(p & e & Ha & Hw & He & _)].
    + left. exists sid, e, c, (s_term s). unfold stream_term. rewrite Hf. repeat split; auto. lia.
    + right. exists p, e. repeat split; auto. lia.
  - intros off Hin. destruct (step_writes_ok _ _ _ _ _ Hi Hs Hin) as [e (A & B & C & D)].
    exists e. repeat split; auto. lia.
Qed.

(* only a duplicate Append and the end of a sync round send Acks *)
Lemma acks_only : forall n a n' o sid off, step cfg_fixed n a = (n', o) -> In (sid, off) (o_acks o) ->
  (exists e c, a = FollowerAppend sid e c /\ off = e_off e) \/ a = SyncEnd sid.
Proof.
  intros n a n' o sid off Hs Hin. destruct a; cbn [step] in Hs.
  - destruct (n_role n); unfold follower_new_term, leader_new_term in Hs;
      dm Hs; inversion Hs; subst n' o; cbn in Hin; contradiction.
  - destruct (get_or_create_follower n t) as [m|]; [|inversion Hs; subst; contradiction].
    unfold follower_truncate in Hs. dm Hs; inversion Hs; subst n' o; cbn in Hin; contradiction.
  - destruct (get_or_create_follower n t) as [m|]; [|inversion Hs; subst; contradiction].
    unfold follower_replicate_open in Hs. dm Hs; inversion Hs; subst n' o; cbn in Hin; contradiction.
  - destruct (n_role n); try (inversion Hs; subst; contradiction).
    unfold follower_append in Hs. dm Hs; inversion Hs; subst n' o; cbn in Hin; try contradiction;
      destruct Hin as [Hin|[]]; inversion Hin; subst; left; eexists _, _; split; reflexivity.
  - destruct (n_role n); try (inversion Hs; subst; contradiction).
    unfold follower_sync_begin in Hs. dm Hs; inversion Hs; subst n' o; cbn in Hin; contradiction.
  - destruct (n_role n); try (inversion Hs; subst; contradiction).
    unfold follower_sync_end in Hs. dm Hs; inversion Hs; subst n' o; cbn in Hin; try contradiction.
    all: apply in_map_iff in Hin; destruct Hin as [x [Hx _]]; inversion Hx; subst; right; reflexivity.
  - destruct (n_role n); try (inversion Hs; subst; contradiction).
    unfold follower_stream_break in Hs. dm Hs; inversion Hs; subst n' o; cbn in Hin; contradiction.
  - destruct (get_or_create_follower n t) as [m|]; [|inversion Hs; subst; contradiction].
    unfold follower_snapshot in Hs. dm Hs; inversion Hs; subst n' o; cbn in Hin; contradiction.
  - inversion Hs; subst; contradiction.
  - unfold leader_become in Hs. dm Hs; inversion Hs; subst n' o; cbn in Hin; contradiction.
  - destruct (n_role n); try (inversion Hs; subst; contradiction).
    unfold leader_write in Hs. dm Hs; inversion Hs; subst n' o; cbn in Hin; contradiction.
  - destruct (n_role n); try (inversion Hs; subst; contradiction).
    unfold leader_sync_done in Hs. destruct (complete_writes _ _ _). inversion Hs; subst n' o; cbn in Hin; contradiction.
  - dm Hs; inversion Hs; subst n' o; cbn in Hin; contradiction.
Qed.

(* Truncate is only legal in status FENCED: a follower controller in any other status refuses it and nothing changes
   (in particular nothing it has acknowledged while following can be cut by a repeated or late Truncate). *)
Lemma truncate_refused_unless_fenced : forall c n t h, n_role n = RFollower -> n_status n <> Fenced ->
  step c n (TruncateReq t h) = (n, out (RErr EInvalidStatus)).
Proof.
  intros c n t h Hr Hs. cbn [step]. unfold get_or_create_follower. rewrite Hr. unfold follower_truncate.
  destruct (n_status n); try reflexivity. congruence.
Qed.
